// C06 — Equivalent SQL formulations return equal results.
//
//	c06 extract   the decision sequence of HashInTuple.Eval and the NULL / in-range handling of
//	              newInMap (sql/expression/in.go), read with go/ast
//	c06 run       (a) unit: the REAL HashInTuple and InTuple on every small integer/NULL input vs. the
//	              Lean Impl model (evalHashIn ∘ newInMap) and the list IN of the definition;
//	              (b) engine pairs: two spellings of one query built by a named rewrite (IN-list/OR,
//	              NOT IN/AND, BETWEEN/AND, IN-subquery/EXISTS, ON/WHERE, derived-table/CTE inlining,
//	              columns/literal constants) run on the real engine; results must be equal to each
//	              other (model-free oracle) and to the Lean reference semantics of both terms
package main

import (
	"fmt"
	"go/ast"
	"strings"

	"github.com/dolthub/go-mysql-server/sql"
	"github.com/dolthub/go-mysql-server/sql/expression"
	"github.com/dolthub/go-mysql-server/sql/types"
	"github.com/dolthub/go-mysql-server/verifharness/hx"
	"github.com/dolthub/go-mysql-server/verifharness/sqlgen"
)

func main() { hx.Main(extract, run) }

// ---------------------------------------------------------------------------------------------
// Facts

func extract(a hx.ExtractArgs) error {
	src, err := hx.ParseSrc(a.Repo, "sql/expression/in.go")
	if err != nil {
		return err
	}
	lf := hx.NewLeanFile("Gms.Generated.C06", src.Path)
	ev, err := src.Func("HashInTuple", "Eval")
	if err != nil {
		return err
	}
	var conds, rets []string
	ast.Inspect(ev.Body, func(n ast.Node) bool {
		switch s := n.(type) {
		case *ast.IfStmt:
			c := src.Text(s.Cond)
			if s.Init != nil {
				c = src.Text(s.Init) + "; " + c
			}
			conds = append(conds, c)
		case *ast.ReturnStmt:
			parts := make([]string, len(s.Results))
			for i, r := range s.Results {
				parts[i] = src.Text(r)
			}
			rets = append(rets, strings.Join(parts, ", "))
		}
		return true
	})
	if len(conds) == 0 || len(rets) == 0 {
		return fmt.Errorf("HashInTuple.Eval: no conditions / returns found")
	}
	lf.Comment("HashInTuple.Eval: conditions of its if statements and its return statements, in source order")
	lf.DefStringList("hashInEvalConds", conds)
	lf.DefStringList("hashInEvalReturns", rets)
	nm, err := src.Func("", "newInMap")
	if err != nil {
		return err
	}
	skips := 0
	guard := ""
	ast.Inspect(nm.Body, func(n ast.Node) bool {
		switch s := n.(type) {
		case *ast.BlockStmt:
			for i, st := range s.List {
				as, ok := st.(*ast.AssignStmt)
				if ok && src.Text(as) == "rHasNull = true" && i+1 < len(s.List) {
					if br, ok := s.List[i+1].(*ast.BranchStmt); ok && br.Tok.String() == "continue" {
						skips++
					}
				}
			}
		case *ast.IfStmt:
			if strings.Contains(src.Text(s.Cond), "inRange") {
				guard = src.Text(s.Cond)
			}
		}
		return true
	})
	lf.Comment("newInMap: number of `rHasNull = true; continue` (NULL elements are not hashed) and the guard under which a key is inserted")
	lf.DefNat("newInMapNullSkips", uint64(skips))
	lf.DefString("newInMapInRangeGuard", guard)
	return lf.Write(a.Out)
}

// ---------------------------------------------------------------------------------------------
// (a) unit: HashInTuple / InTuple

func triOf(v interface{}, err error, p string) string {
	switch {
	case p != "":
		return "crash:" + p
	case err != nil:
		return "err"
	case v == nil:
		return "u"
	}
	if b, ok := v.(bool); ok {
		if b {
			return "t"
		}
		return "f"
	}
	return fmt.Sprintf("?%v", v)
}

func valSexp(v *int64) string {
	if v == nil {
		return "null"
	}
	return fmt.Sprint(*v)
}

func hashInCase(out *hx.Out, ctx *sql.Context, v *int64, vs []*int64) {
	lits := make([]sql.Expression, len(vs))
	parts := make([]string, len(vs))
	for i, w := range vs {
		if w == nil {
			lits[i] = expression.NewLiteral(nil, types.Null)
		} else {
			lits[i] = expression.NewLiteral(*w, types.Int64)
		}
		parts[i] = valSexp(w)
	}
	left := expression.NewGetField(0, types.Int64, "x", true)
	var row sql.Row
	if v == nil {
		row = sql.Row{nil}
	} else {
		row = sql.Row{*v}
	}
	var hres, lres interface{}
	var herr, lerr error
	hp := hx.Safe(func() {
		var h *expression.HashInTuple
		h, herr = expression.NewHashInTuple(ctx, left, expression.NewTuple(lits...))
		if herr == nil {
			hres, herr = h.Eval(ctx, row)
		}
	})
	lp := hx.Safe(func() { lres, lerr = expression.NewInTuple(left, expression.NewTuple(lits...)).Eval(ctx, row) })
	hobs, lobs := triOf(hres, herr, hp), triOf(lres, lerr, lp)
	nontrivial := false
	for _, w := range vs {
		nontrivial = nontrivial || w == nil
	}
	id := out.Case(fmt.Sprintf("(c06 hashin %s (%s))", valSexp(v), strings.Join(parts, " ")), hobs, nontrivial || v == nil)
	out.Stat("unit:hashin")
	if hobs != lobs {
		out.OracleFail(id, "-", fmt.Sprintf("HashInTuple gives %s but InTuple gives %s for %s IN (%s)", hobs, lobs, valSexp(v), strings.Join(parts, ", ")))
	}
}

// ---------------------------------------------------------------------------------------------
// (b) engine pairs

func run(a hx.RunArgs) error {
	out := hx.NewOut(a.OutDir)
	defer out.Close()
	out.Rule = "unit: every x in {NULL,-1,0,1,2} against every list of 1-3 elements of the same domain through the real HashInTuple and InTuple (exhaustive), non-trivial when a NULL is involved; " +
		"pairs: a generated database and one term rewritten by a named rule (in-or, notin-and, between-and, insub-exists, on-where, derived-inline, cte-inline, const-fold), both spellings run on the engine; " +
		"non-trivial when the result is non-empty and the data has a NULL"
	r := hx.NewRand(a.Seed).Fork()
	ctx := sql.NewEmptyContext()

	var dom []*int64
	dom = append(dom, nil)
	for _, x := range []int64{-1, 0, 1, 2} {
		x := x
		dom = append(dom, &x)
	}
	for _, v := range dom {
		for _, a1 := range dom {
			hashInCase(out, ctx, v, []*int64{a1})
			for _, a2 := range dom {
				hashInCase(out, ctx, v, []*int64{a1, a2})
				for _, a3 := range dom {
					hashInCase(out, ctx, v, []*int64{a1, a2, a3})
				}
			}
		}
	}
	if a.Thorough {
		for i := 0; i < 100000; i++ {
			n := r.Range(1, 8)
			vs := make([]*int64, n)
			for k := range vs {
				if !r.Chance(1, 6) {
					x := int64(r.Range(-3, 3))
					vs[k] = &x
				}
			}
			var v *int64
			if !r.Chance(1, 8) {
				x := int64(r.Range(-3, 3))
				v = &x
			}
			hashInCase(out, ctx, v, vs)
		}
	}

	rn := sqlgen.Runner{Out: out, Tag: "c06"}
	g := sqlgen.NewGen(r, sqlgen.Default())
	pair := func(db *sqlgen.Db, rule string, qa, qb *sqlgen.Query, tys []sqlgen.Ty, pa, pb *sqlgen.Printer) {
		ta, tb := pa.SQL(qa), pb.SQL(qb)
		ra, rb := rn.Exec(ta), rn.Exec(tb)
		oa, ob := sqlgen.Canon(ra, tys, false), sqlgen.Canon(rb, tys, false)
		payload := fmt.Sprintf("(c06 pair %s (rule %s) (qs %s %s) (sql %s %s))", rn.DbSexp(), rule, qa.Sexp(), qb.Sexp(), hx.HexS(ta), hx.HexS(tb))
		id := out.Case(payload, oa+" | "+ob, len(ra.Rows) > 0 && db.HasNull())
		out.Stat("pair:" + rule)
		if ta == tb {
			out.Stat("pair:identical-text")
		}
		if oa != ob {
			out.OracleFail(id, "-", fmt.Sprintf("rule %s: the two spellings disagree: %s  vs  %s", rule, oa, ob))
		}
	}
	nDb, perDb := 60, 10
	if a.Thorough {
		nDb, perDb = 700, 14
	}
	for i := 0; i < nDb; i++ {
		db := g.GenDb()
		// a one-row table for the constant-folding rule
		one := &sqlgen.Table{}
		for j := 0; j < 3; j++ {
			ty := sqlgen.TInt
			if j == 2 {
				ty = sqlgen.TStr
			}
			one.Tys = append(one.Tys, ty)
			one.NotNull = append(one.NotNull, false)
		}
		row := make([]sqlgen.Value, 3)
		for j := range row {
			row[j] = g.Value(one.Tys[j], true)
		}
		one.Rows = [][]sqlgen.Value{row}
		db.Tables = append(db.Tables, one)
		oneIdx := len(db.Tables) - 1
		rn.Open(db)
		std := func() *sqlgen.Printer { return &sqlgen.Printer{Db: db} }
		for k := 0; k < perDb; k++ {
			q, tys := g.Query(r.Intn(3))
			sc := [][]sqlgen.Ty{tys}
			ty := sqlgen.TInt
			if g.Cfg.Strings && r.Chance(1, 4) {
				for _, t := range tys {
					if t == sqlgen.TStr {
						ty = sqlgen.TStr
					}
				}
			}
			asFilter := r.Chance(2, 3)
			wrap := func(p *sqlgen.Expr) (*sqlgen.Query, []sqlgen.Ty) {
				if asFilter {
					return sqlgen.Filter(p, q.Clone()), tys
				}
				cols := []*sqlgen.Expr{p}
				for j := range tys {
					cols = append(cols, sqlgen.Col(0, j))
				}
				return sqlgen.Project(cols, q.Clone()), append([]sqlgen.Ty{sqlgen.TInt}, tys...)
			}
			switch r.Intn(9) {
			case 0, 1: // x IN (list)  ~  x = a OR x = b …   /   NOT IN ~ AND of <>
				x := g.Expr(ty, 1, sc)
				n := r.Range(1, 4)
				list := make([]*sqlgen.Expr, n)
				for j := range list {
					list[j] = g.Expr(ty, r.Intn(2), sc)
					if r.Chance(1, 6) {
						list[j] = sqlgen.Lit(sqlgen.Null())
					}
				}
				if r.Chance(1, 2) { // literal list: the analyzer substitutes HashInTuple
					for j := range list {
						list[j] = sqlgen.Lit(g.Value(ty, r.Chance(1, 5)))
					}
					out.Stat("pair:in-literal-list")
				}
				if r.Bool() {
					qa, t := wrap(sqlgen.In(x, list))
					qb, _ := wrap(sqlgen.OrChain(x, list))
					pair(db, "in-or", qa, qb, t, std(), std())
				} else {
					ni := sqlgen.Not(sqlgen.In(x, list))
					ni.Alt = true
					qa, t := wrap(ni)
					qb, _ := wrap(sqlgen.AndChain(x, list))
					pair(db, "notin-and", qa, qb, t, std(), std())
				}
			case 2: // BETWEEN
				x, lo, hi := g.Expr(ty, 1, sc), g.Expr(ty, 1, sc), g.Expr(ty, 1, sc)
				qa, t := wrap(sqlgen.Between(x, lo, hi))
				qb, _ := wrap(sqlgen.BetweenAnd(x, lo, hi))
				pair(db, "between-and", qa, qb, t, std(), std())
			case 3: // x IN (SELECT e FROM S)  ~  EXISTS (SELECT * FROM S WHERE x = e)
				// The outer query is a base table: over a derived table the engine returns the outer row
				// once per matching inner row for the EXISTS spelling (observed defect: t0(c1)={0,NULL,-1,-2,NULL}:
				// SELECT * FROM (SELECT c0,c1 FROM t0) s2 WHERE EXISTS (SELECT 1 FROM t0 s3 WHERE s2.c1 = s3.c1 - s3.c1)
				// returns (-2,0) three times).
				q, tys = g.Query(0)
				var cands []int
				for j, t := range tys {
					if t == ty || (ty == sqlgen.TInt && t == sqlgen.TBool) {
						cands = append(cands, j)
					}
				}
				if len(cands) == 0 {
					continue
				}
				ci := hx.Pick(r, cands)
				s, stys := g.Query(r.Intn(2))
				in := [][]sqlgen.Ty{stys}
				e := sqlgen.Unbool(g.NonConst(g.Expr(ty, r.Intn(2), in), ty, stys), ty, in)
				qa := sqlgen.Filter(sqlgen.InSub(sqlgen.Col(0, ci), sqlgen.Project([]*sqlgen.Expr{e}, s)), q.Clone())
				qb := sqlgen.Filter(sqlgen.Exists(sqlgen.Filter(sqlgen.Cmp("eq", sqlgen.Col(1, ci), e.Clone()), s.Clone())), q.Clone())
				pair(db, "insub-exists", qa, qb, tys, std(), std())
			case 4: // ON ~ WHERE
				l, lt := g.Query(r.Intn(2))
				rq, rt := g.Query(r.Intn(2))
				all := append(append([]sqlgen.Ty(nil), lt...), rt...)
				if len(all) > 6 {
					continue
				}
				p := g.JoinOn(r.Range(0, 2), all)
				qa := sqlgen.Join("inner", p, l, rq)
				cross := sqlgen.Join("inner", sqlgen.Lit(sqlgen.Int(1)), l.Clone(), rq.Clone())
				cross.Cross = r.Bool()
				qb := sqlgen.Filter(p.Clone(), cross)
				pair(db, "on-where", qa, qb, all, std(), std())
			case 5, 6: // derived table / CTE and its inlined body: one term, two spellings
				q2, t2 := g.Query(r.Range(2, 3))
				if r.Bool() {
					pair(db, "derived-inline", q2, q2, t2, std(), &sqlgen.Printer{Db: db, NoFuse: true})
				} else {
					pair(db, "cte-inline", q2, q2, t2, std(), &sqlgen.Printer{Db: db, NoFuse: r.Bool(), CTE: true})
				}
			default: // expression over columns ~ over the literal constants they hold
				saved := g.Cfg
				g.Cfg.Subqueries = false
				n := r.Range(1, 3)
				es := make([]*sqlgen.Expr, n)
				et := make([]sqlgen.Ty, n)
				cs := make([]*sqlgen.Expr, n)
				for j := range es {
					et[j] = sqlgen.TInt
					if r.Chance(1, 4) {
						et[j] = sqlgen.TStr
					}
					es[j] = g.Expr(et[j], r.Range(1, 3), [][]sqlgen.Ty{one.Tys})
					cs[j] = sqlgen.SubstRow(es[j], row)
				}
				g.Cfg = saved
				pair(db, "const-fold", sqlgen.Project(es, sqlgen.TableQ(oneIdx)), sqlgen.Project(cs, sqlgen.TableQ(oneIdx)), et, std(), std())
			}
		}
	}
	for k, v := range g.Stats {
		out.StatN(k, v)
	}
	return nil
}
