package main

import (
	"fmt"

	"github.com/dolthub/go-mysql-server/verifharness/hx/eng"
)

func main() {
	e := eng.New("d")
	ctx := e.Ctx()
	e.MustExec(ctx, "create table t (a int primary key, b varchar(10), c decimal(5,2))", "insert into t values (1,'x',1.5),(2,null,2.25)")
	for _, q := range []string{"select * from t order by a desc", "select 9223372036854775807 + 1", "insert into t values (1,'y',0)", "selec", "select convert(convert('é' using latin1) using utf8mb4)", "update t set b='z'"} {
		r := e.Query(ctx, q)
		fmt.Println(q, "=>", eng.Canon(r, false), r.Types, r.Err, r.Panic)
	}
}
