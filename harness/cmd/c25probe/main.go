package main

import (
	"bufio"
	"fmt"
	"os"

	"github.com/dolthub/go-mysql-server/verifharness/hx/eng"
)

func main() {
	e := eng.New("d")
	ctx := e.Ctx()
	e.MustExec(ctx, "create table t (id int primary key, i8 tinyint, u8 tinyint unsigned, i16 smallint, u16 smallint unsigned, i24 mediumint, u24 mediumint unsigned, i32 int, u32 int unsigned, i64 bigint, u64 bigint unsigned, d decimal(20,4))",
		"insert into t values (1, -128, 200, -32768, 65535, -8388608, 16777215, -2147483648, 4294967295, -9223372036854775808, 18446744073709551615, 12345.6789)",
		"insert into t values (2, 127, 5, 32767, 7, 8388607, 9, 2147483647, 11, 9223372036854775807, 9223372036854775808, -0.0001)")
	sc := bufio.NewScanner(os.Stdin)
	for sc.Scan() {
		q := sc.Text()
		if q == "" {
			continue
		}
		r := e.Query(ctx, q)
		fmt.Printf("%s\n   => %s %v types=%v err=%v panic=%s\n", q, r.Class(), r.Rows, r.Types, r.Err, r.Panic)
		w := e.Query(ctx, "show warnings")
		if len(w.Rows) > 0 {
			fmt.Printf("   warnings: %v\n", w.Rows)
		}
	}
}
