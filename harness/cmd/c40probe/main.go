package main

import (
	"bufio"
	"fmt"
	"os"
	"strings"

	"github.com/dolthub/go-mysql-server/sql/mysql_db"
	"github.com/dolthub/go-mysql-server/verifharness/hx/eng"
)

func main() {
	e := eng.New("d")
	db := e.E.Analyzer.Catalog.MySQLDb
	db.SetPersister(&mysql_db.NoopPersister{})
	db.AddRootAccount()
	ctx := e.Ctx()
	sc := bufio.NewScanner(os.Stdin)
	for sc.Scan() {
		q := strings.TrimSpace(sc.Text())
		if q == "" {
			continue
		}
		if q == "dump" {
			rd := db.Reader()
			rd.VisitUsers(func(u *mysql_db.User) {
				fmt.Printf("   %q@%q plugin=%q auth=%q locked=%v role=%v\n", u.User, u.Host, u.Plugin, u.AuthString, u.Locked, u.IsRole)
			})
			rd.Close()
			continue
		}
		if strings.HasPrefix(q, "order ") {
			rd := db.Reader()
			for _, u := range rd.GetUsersByUsername(strings.TrimPrefix(q, "order ")) {
				fmt.Printf("   %q@%q\n", u.User, u.Host)
			}
			rd.Close()
			continue
		}
		r := e.Query(eng.SameSession(ctx), q)
		fmt.Printf("%s => %s err=%v rows=%v\n", q, r.Class(), r.Err, r.Rows)
	}
}
