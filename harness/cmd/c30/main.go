// C30 — Character set conversion round-trips and never crashes (sql/encodings).
package main

import (
	"bytes"
	"encoding/binary"
	"encoding/hex"
	"fmt"
	"go/ast"
	"go/token"
	"os"
	"sort"
	"strings"
	"sync"
	"unicode/utf16"
	"unicode/utf8"

	"github.com/dolthub/go-mysql-server/sql"
	"github.com/dolthub/go-mysql-server/sql/encodings"
	"github.com/dolthub/go-mysql-server/verifharness/hx"
	"github.com/dolthub/go-mysql-server/verifharness/hx/eng"
)

func main() { hx.Main(extract, run) }

// ---------------------------------------------------------------------------------------------
// The character sets of the freshly compiled code.

type charset struct {
	name   string
	enc    encodings.Encoder
	isRM   bool
	tables encodings.VerifRangeMap
}

func charsets() []charset {
	var out []charset
	it := sql.NewCharacterSetsIterator()
	for cs, ok := it.Next(); ok; cs, ok = it.Next() {
		if cs.Encoder == nil {
			continue
		}
		d, isRM := encodings.VerifDumpRangeMap(cs.Encoder)
		out = append(out, charset{name: cs.Name, enc: cs.Encoder, isRM: isRM, tables: d})
	}
	sort.Slice(out, func(i, j int) bool { return out[i].name < out[j].name })
	return out
}

// ---------------------------------------------------------------------------------------------
// Facts.

func leanBounds(b [][2]byte) string {
	parts := make([]string, len(b))
	for i, x := range b {
		parts[i] = fmt.Sprintf("(%d,%d)", x[0], x[1])
	}
	return "[" + strings.Join(parts, ",") + "]"
}
func leanInts(v []int) string {
	parts := make([]string, len(v))
	for i, x := range v {
		if x < 0 {
			// a negative multiplier has no counterpart in the model (Nat): make the obligation fail loudly
			parts[i] = "0"
		} else {
			parts[i] = fmt.Sprintf("%d", x)
		}
	}
	return "[" + strings.Join(parts, ",") + "]"
}
func leanEntry(e encodings.VerifEntry) string {
	return fmt.Sprintf("⟨%s,%s,%s,%s⟩", leanBounds(e.InR), leanBounds(e.OutR), leanInts(e.InM), leanInts(e.OutM))
}
func leanTable(t [][]encodings.VerifEntry) string {
	var b strings.Builder
	b.WriteString("[")
	for i, es := range t {
		if i > 0 {
			b.WriteString(",")
		}
		b.WriteString("\n    [")
		for j, e := range es {
			if j > 0 {
				b.WriteString(",\n     ")
			}
			b.WriteString(leanEntry(e))
		}
		b.WriteString("]")
	}
	b.WriteString("]")
	return b.String()
}

// isLenGuard reports whether st is `if <ident> > len(str) { …; return … }`.
func isLenGuard(st ast.Stmt) bool {
	is, ok := st.(*ast.IfStmt)
	if !ok || is.Init != nil || is.Else != nil {
		return false
	}
	be, ok := is.Cond.(*ast.BinaryExpr)
	if !ok || be.Op != token.GTR {
		return false
	}
	if _, ok := be.X.(*ast.Ident); !ok {
		return false
	}
	call, ok := be.Y.(*ast.CallExpr)
	if !ok || len(call.Args) != 1 {
		return false
	}
	if f, ok := call.Fun.(*ast.Ident); !ok || f.Name != "len" {
		return false
	}
	if a, ok := call.Args[0].(*ast.Ident); !ok || a.Name != "str" {
		return false
	}
	for _, s := range is.Body.List {
		if _, ok := s.(*ast.ReturnStmt); ok {
			return true
		}
	}
	return false
}

// hasLenGuard reports whether the inner search loop (`for ; n <= …; n++`) of the function checks
// `if n > len(str) { return … }` before the first statement that slices `str`.
func hasLenGuard(fd *ast.FuncDecl) bool {
	found := false
	ast.Inspect(fd.Body, func(n ast.Node) bool {
		fs, ok := n.(*ast.ForStmt)
		if !ok || fs.Cond == nil || fs.Post == nil {
			return true
		}
		for _, st := range fs.Body.List {
			if isLenGuard(st) {
				found = true
				return false
			}
			slices := false
			ast.Inspect(st, func(m ast.Node) bool {
				if se, ok := m.(*ast.SliceExpr); ok {
					if id, ok := se.X.(*ast.Ident); ok && id.Name == "str" {
						slices = true
					}
				}
				return true
			})
			if slices {
				return false // `str[:n]` is reached without the guard
			}
		}
		return false
	})
	return found
}

// loopBound returns the text of Y in the inner `for ; n <= Y [&& …]; n++` loop condition.
func loopBounds(src *hx.Src, fd *ast.FuncDecl) []string {
	var out []string
	var walk func(e ast.Expr)
	walk = func(e ast.Expr) {
		be, ok := e.(*ast.BinaryExpr)
		if !ok {
			return
		}
		if be.Op == token.LAND {
			walk(be.X)
			walk(be.Y)
			return
		}
		if be.Op == token.LEQ {
			out = append(out, src.Text(be.Y))
		}
	}
	ast.Inspect(fd.Body, func(n ast.Node) bool {
		fs, ok := n.(*ast.ForStmt)
		if !ok || fs.Cond == nil || fs.Post == nil {
			return true
		}
		walk(fs.Cond)
		return true
	})
	return out
}

// rootIdent returns the identifier an assignable expression is rooted in (`x`, `x[i]`, `x[i:j]`, `*x`, `x.f`).
func rootIdent(e ast.Expr) string {
	for {
		switch t := e.(type) {
		case *ast.Ident:
			return t.Name
		case *ast.IndexExpr:
			e = t.X
		case *ast.SliceExpr:
			e = t.X
		case *ast.StarExpr:
			e = t.X
		case *ast.ParenExpr:
			e = t.X
		case *ast.SelectorExpr:
			e = t.X
		default:
			return ""
		}
	}
}

// outputWrites returns, for a conversion function, every statement that defines or assigns the
// variable whose value the function returns as its byte slice (first result), in source order. The
// storage the result lives in is decided by exactly these statements.
func outputWrites(src *hx.Src, fd *ast.FuncDecl) ([]string, error) {
	vars := map[string]bool{}
	var bad error
	ast.Inspect(fd.Body, func(n ast.Node) bool {
		if _, ok := n.(*ast.FuncLit); ok {
			return false
		}
		rs, ok := n.(*ast.ReturnStmt)
		if !ok {
			return true
		}
		if len(rs.Results) == 0 {
			bad = fmt.Errorf("%s: bare return (named results) — shape not understood", fd.Name.Name)
			return true
		}
		switch t := rs.Results[0].(type) {
		case *ast.Ident:
			if t.Name != "nil" {
				vars[t.Name] = true
			}
		default:
			bad = fmt.Errorf("%s: returns the expression `%s`, not a variable — shape not understood", fd.Name.Name, src.Text(rs.Results[0]))
		}
		return true
	})
	if bad != nil {
		return nil, bad
	}
	if len(vars) != 1 {
		return nil, fmt.Errorf("%s: expected exactly one returned slice variable, found %d", fd.Name.Name, len(vars))
	}
	var out []string
	ast.Inspect(fd.Body, func(n ast.Node) bool {
		switch t := n.(type) {
		case *ast.AssignStmt:
			for _, l := range t.Lhs {
				if vars[rootIdent(l)] {
					out = append(out, strings.Join(strings.Fields(src.Text(t)), " "))
					break
				}
			}
		case *ast.DeclStmt:
			if gd, ok := t.Decl.(*ast.GenDecl); ok {
				for _, sp := range gd.Specs {
					if vs, ok := sp.(*ast.ValueSpec); ok {
						for _, nm := range vs.Names {
							if vars[nm.Name] {
								out = append(out, strings.Join(strings.Fields(src.Text(t)), " "))
							}
						}
					}
				}
			}
		}
		return true
	})
	return out, nil
}

func leanStrings(v []string) string {
	q := make([]string, len(v))
	for i, s := range v {
		q[i] = hx.LeanString(s)
	}
	return "[" + strings.Join(q, ", ") + "]"
}

func extract(a hx.ExtractArgs) error {
	src, err := hx.ParseSrc(a.Repo, "sql/encodings/rangemap.go")
	if err != nil {
		return err
	}
	var b strings.Builder
	b.WriteString("/- GENERATED on every run by the harness extractor (c30 extract) from /repo's working tree. Do not edit.\n")
	b.WriteString("   Sources: sql/encodings/rangemap.go (go/ast), sql/charactersets.go + sql/encodings/*.go (tables dumped from the compiled code) -/\n")
	b.WriteString("import Gms.Model.RangeMap\nnamespace Gms.Generated.C30\nopen Gms.RangeMap\n\n")

	// syntactic facts about the three loops
	fns := map[string]*ast.FuncDecl{}
	for _, n := range []string{"Decode", "Encode", "EncodeReplaceUnknown", "DecodeRune", "EncodeRune"} {
		fd, err := src.Func("RangeMap", n)
		if err != nil {
			return err
		}
		fns[n] = fd
	}
	fmt.Fprintf(&b, "def decodeHasLengthGuard : Bool := %v\n", hasLenGuard(fns["Decode"]))
	fmt.Fprintf(&b, "def encodeHasLengthGuard : Bool := %v\n", hasLenGuard(fns["Encode"]))
	for _, n := range []string{"Decode", "Encode", "EncodeReplaceUnknown"} {
		lb := loopBounds(src, fns[n])
		if len(lb) == 0 {
			return fmt.Errorf("%s: inner search loop `for ; n <= …; n++` not found", n)
		}
		q := make([]string, len(lb))
		for i, s := range lb {
			q[i] = hx.LeanString(s)
		}
		fmt.Fprintf(&b, "def loopBounds_%s : List String := [%s]\n", n, strings.Join(q, ", "))
	}
	// where the results live: the statements that write the returned slice variable, the package-level
	// variables of the file and the fields of the encoder (any storage that outlives a call shows up here)
	for _, n := range []string{"Decode", "Encode", "EncodeReplaceUnknown", "DecodeRune", "EncodeRune"} {
		w, err := outputWrites(src, fns[n])
		if err != nil {
			return err
		}
		fmt.Fprintf(&b, "def outputWrites_%s : List String := %s\n", n, leanStrings(w))
	}
	var pkgVars, fields []string
	foundStruct := false
	for _, d := range src.File.Decls {
		gd, ok := d.(*ast.GenDecl)
		if !ok {
			continue
		}
		for _, sp := range gd.Specs {
			switch t := sp.(type) {
			case *ast.ValueSpec:
				if gd.Tok == token.VAR {
					for _, nm := range t.Names {
						if nm.Name != "_" {
							pkgVars = append(pkgVars, nm.Name)
						}
					}
				}
			case *ast.TypeSpec:
				if st, ok := t.Type.(*ast.StructType); ok && t.Name.Name == "RangeMap" {
					foundStruct = true
					for _, f := range st.Fields.List {
						if len(f.Names) == 0 {
							fields = append(fields, "(embedded) "+src.Text(f.Type))
						}
						for _, nm := range f.Names {
							fields = append(fields, nm.Name+" "+src.Text(f.Type))
						}
					}
				}
			}
		}
	}
	if !foundStruct {
		return fmt.Errorf("type RangeMap struct not found in sql/encodings/rangemap.go")
	}
	fmt.Fprintf(&b, "def packageVars : List String := %s\n", leanStrings(pkgVars))
	fmt.Fprintf(&b, "def structFields : List String := %s\n", leanStrings(fields))
	b.WriteString("\n")

	css := charsets()
	if len(css) == 0 {
		return fmt.Errorf("no character set with an encoder found")
	}
	var names, kinds []string
	for _, cs := range css {
		names = append(names, cs.name)
		kind := "native"
		if cs.isRM {
			kind = "rangemap"
		}
		kinds = append(kinds, fmt.Sprintf("(%s, %s)", hx.LeanString(cs.name), hx.LeanString(kind)))
	}
	fmt.Fprintf(&b, "/-- every character set that has an encoder, with the kind of encoder -/\ndef charsets : List (String × String) := [%s]\n\n", strings.Join(kinds, ", "))
	var rmNames []string
	for _, cs := range css {
		if !cs.isRM {
			continue
		}
		rmNames = append(rmNames, cs.name)
		fmt.Fprintf(&b, "def %s : RangeMap :=\n  { inE := %s,\n    outE := %s }\n\n", cs.name, leanTable(cs.tables.In), leanTable(cs.tables.Out))
	}
	parts := make([]string, len(rmNames))
	for i, n := range rmNames {
		parts[i] = fmt.Sprintf("(%s, %s)", hx.LeanString(n), n)
	}
	fmt.Fprintf(&b, "def tables : List (String × RangeMap) := [%s]\n", strings.Join(parts, ", "))
	b.WriteString("\nend Gms.Generated.C30\n")
	return os.WriteFile(a.Out, []byte(b.String()), 0o644)
}

// ---------------------------------------------------------------------------------------------
// Observations of the real code.

const (
	tagFail  = 0
	tagOK    = 1
	tagCrash = 2
)

type res struct {
	tag int
	b   []byte
}

func (r res) String() string {
	switch r.tag {
	case tagOK:
		return "ok:" + hx.Hex(r.b)
	case tagFail:
		return "fail"
	}
	return "crash"
}

// exact returns a copy of s whose capacity equals its length, followed in memory by `extra`
// (len(result) = len(s), cap(result) = len(s)+len(extra)).
func exact(s, extra []byte) []byte {
	buf := make([]byte, len(s)+len(extra))
	copy(buf, s)
	copy(buf[len(s):], extra)
	return buf[:len(s)]
}

func call2(f func([]byte) ([]byte, bool), s, extra []byte) res {
	var out []byte
	var ok bool
	in := exact(s, extra)
	if p := hx.Safe(func() { out, ok = f(in) }); p != "" {
		return res{tag: tagCrash}
	}
	if !ok {
		return res{tag: tagFail}
	}
	return res{tag: tagOK, b: append([]byte(nil), out...)}
}

func callRep(e encodings.Encoder, s []byte) res {
	var out []byte
	in := exact(s, nil)
	if p := hx.Safe(func() { out = e.EncodeReplaceUnknown(in) }); p != "" {
		return res{tag: tagCrash}
	}
	return res{tag: tagOK, b: append([]byte(nil), out...)}
}

func runeObs(r res) string {
	switch r.tag {
	case tagOK:
		return "some:" + hx.Hex(r.b)
	case tagFail:
		return "none"
	}
	return "crash"
}

type fnv struct{ h uint64 }

func newFnv() *fnv { return &fnv{h: 14695981039346656037} }
func (f *fnv) byte(b byte) {
	f.h ^= uint64(b)
	f.h *= 1099511628211
}
func (f *fnv) res(r res) {
	f.byte(byte(r.tag))
	f.byte(byte(len(r.b)))
	for _, b := range r.b {
		f.byte(b)
	}
}

// independent references for the Unicode transformation formats
func refEncode(name string, cp rune) ([]byte, bool, bool) { // bytes, representable, have reference
	switch name {
	case "utf8mb4":
		return utf8.AppendRune(nil, cp), true, true
	case "utf8mb3":
		if cp > 0xFFFF {
			return nil, false, true
		}
		return utf8.AppendRune(nil, cp), true, true
	case "ascii":
		if cp > 0x7F {
			return nil, false, true
		}
		return []byte{byte(cp)}, true, true
	case "utf32":
		var b [4]byte
		binary.BigEndian.PutUint32(b[:], uint32(cp))
		return b[:], true, true
	case "utf16":
		if cp < 0x10000 {
			return []byte{byte(cp >> 8), byte(cp)}, true, true
		}
		r1, r2 := utf16.EncodeRune(cp)
		return []byte{byte(r1 >> 8), byte(r1), byte(r2 >> 8), byte(r2)}, true, true
	}
	return nil, false, false
}

func isSurrogate(cp int) bool { return cp >= 0xD800 && cp <= 0xDFFF }

// one call of a batch (see seqCase)
type subOp struct {
	op        string // dec | enc | rep | erune | drune
	cs        charset
	in, extra []byte
}

// ---------------------------------------------------------------------------------------------

func run(a hx.RunArgs) error {
	out := hx.NewOut(a.OutDir)
	defer out.Close()
	out.Rule = "per character set: (blk) every Unicode scalar value in blocks [EncodeRune, Encode, EncodeReplaceUnknown, and DecodeRune/Decode of the result, digested]; " +
		"(dblk) every 1- and 2-byte sequence (+ sampled 3/4-byte blocks) through DecodeRune/Decode and back; (enc/rep/dec/erune/drune) corpus + random strings mixing representable characters, " +
		"unrepresentable characters, malformed and truncated UTF-8, with and without spare capacity behind the slice; " +
		"(seq) batches of 2-16 calls whose raw result slices are all kept and read only when the batch is over (keep: inputs scribbled after each call; edit: results read at once, then scribbled up to their capacity, inputs repeat; " +
		"par: calls dealt to 4 concurrent goroutines), same and mixed character sets and operations; (sqlintros) several introducers in one SELECT; (sqlrows) multi-row INSERT of binary literals into a column of the character set. " +
		"A case is non-trivial when the input contains a non-ASCII byte."
	r := hx.NewRand(a.Seed)
	css := charsets()
	byName := map[string]charset{}
	for _, cs := range css {
		byName[cs.name] = cs
	}

	nonASCII := func(bs ...[]byte) bool {
		for _, b := range bs {
			for _, c := range b {
				if c >= 0x80 {
					return true
				}
			}
		}
		return false
	}

	// --- single operations -------------------------------------------------------------------
	encCase := func(cs charset, s, extra []byte) {
		got := call2(cs.enc.Encode, s, extra)
		id := out.Case(hx.List("enc", cs.name, hx.Hex(s), hx.Hex(extra)), got.String(), nonASCII(s))
		out.Stat("enc:" + cs.name)
		out.Stat("enc=" + []string{"fail", "ok", "crash"}[got.tag])
		// oracle: no crash; success ⇒ decodes back; all characters representable ⇒ success
		if got.tag == tagCrash {
			// not a listed region (finding encode_unrepresentable_tail was repaired): always a violation
			out.OracleFail(id, "encode_panics", fmt.Sprintf("%s.Encode(%x) [cap-len=%d] panics", cs.name, s, len(extra)))
			return
		}
		if got.tag == tagOK {
			back := call2(cs.enc.Decode, got.b, nil)
			if back.tag != tagOK || !bytes.Equal(back.b, s) {
				tag := "-" // inherits the region the model assigns (overflow units are never well-formed UTF-8)
				if utf8.Valid(s) {
					tag = "wellformed_roundtrip_failure"
				}
				out.OracleFail(id, tag, fmt.Sprintf("%s: Encode(%x)=%x but Decode of that is %s", cs.name, s, got.b, back))
			}
		}
		if utf8.Valid(s) {
			all := true
			for _, c := range string(s) {
				if rr := call2(cs.enc.EncodeRune, utf8.AppendRune(nil, c), nil); rr.tag != tagOK {
					all = false
				}
			}
			if all && got.tag != tagOK {
				out.OracleFail(id, "-", fmt.Sprintf("%s: every character of %x is representable but Encode reports failure", cs.name, s))
			}
		}
	}
	repCase := func(cs charset, s []byte) {
		got := callRep(cs.enc, s)
		id := out.Case(hx.List("rep", cs.name, hx.Hex(s)), got.String(), nonASCII(s))
		out.Stat("rep:" + cs.name)
		if got.tag == tagCrash {
			out.OracleFail(id, "-", fmt.Sprintf("%s.EncodeReplaceUnknown(%x) panics", cs.name, s))
			return
		}
		// oracle on well-formed input: exactly one unit per character, '?' for the unrepresentable ones
		if utf8.Valid(s) {
			var want []byte
			unk := 0
			for _, c := range string(s) {
				rr := call2(cs.enc.EncodeRune, utf8.AppendRune(nil, c), nil)
				if rr.tag == tagOK {
					want = append(want, rr.b...)
				} else {
					want = append(want, '?')
					unk++
				}
			}
			if unk > 0 {
				out.Stat("rep:has-unrepresentable")
			}
			if !bytes.Equal(want, got.b) {
				out.OracleFail(id, "-", fmt.Sprintf("%s.EncodeReplaceUnknown(%x)=%x, per character it should be %x", cs.name, s, got.b, want))
			}
		}
	}
	decCase := func(cs charset, s []byte) {
		got := call2(cs.enc.Decode, s, nil)
		id := out.Case(hx.List("dec", cs.name, hx.Hex(s)), got.String(), nonASCII(s))
		out.Stat("dec:" + cs.name)
		out.Stat("dec=" + []string{"fail", "ok", "crash"}[got.tag])
		if got.tag == tagCrash {
			out.OracleFail(id, "-", fmt.Sprintf("%s.Decode(%x) panics", cs.name, s))
			return
		}
		if got.tag == tagOK {
			back := call2(cs.enc.Encode, got.b, nil)
			if back.tag != tagOK || !bytes.Equal(back.b, s) {
				out.OracleFail(id, "-", fmt.Sprintf("%s: Decode(%x)=%x but Encode of that is %s", cs.name, s, got.b, back))
			}
		}
	}
	runeCase := func(cs charset, op string, s []byte) {
		f := cs.enc.EncodeRune
		g := cs.enc.DecodeRune
		if op == "drune" {
			f, g = g, f
		}
		got := call2(f, s, nil)
		id := out.Case(hx.List(op, cs.name, hx.Hex(s)), runeObs(got), nonASCII(s))
		out.Stat(op)
		if got.tag == tagCrash {
			out.OracleFail(id, "-", fmt.Sprintf("%s %s(%x) panics", cs.name, op, s))
		}
		if got.tag == tagOK {
			back := call2(g, got.b, nil)
			if back.tag != tagOK || !bytes.Equal(back.b, s) {
				out.OracleFail(id, "-", fmt.Sprintf("%s %s(%x)=%x, converting back gives %s", cs.name, op, s, got.b, runeObs(back)))
			}
		}
	}


	// --- batches: results kept across calls ------------------------------------------------------
	// A conversion hands back a slice. `RangeMap.IsReturnSafe` promises that it is the call's own
	// storage; callers rely on it (BytesToString is zero-copy, the plan builder wraps decoded bytes in
	// literals). A batch makes several calls and looks at the results only afterwards:
	//   keep  every raw result slice is kept, its input buffer is scribbled over after the call
	//         (IsReturnSafe encoders), and all results are read when the batch is over
	//   edit  every result is read at once, then scribbled over up to its capacity (that is what
	//         IsReturnSafe allows) together with the input; inputs repeat inside a batch
	//   par   the calls are dealt round-robin to 4 goroutines which run concurrently; each keeps its
	//         results and all are read after all goroutines are done
	// Observation = the per-call observations joined by '|'. Model: Gms.RangeMap.observeLate /
	// observeEager under `Alloc.fresh`, i.e. the values of the pure functions (C30.batch_*).
	rawCall := func(o subOp, in []byte) (raw []byte, tag int) {
		var ok bool
		p := hx.Safe(func() {
			switch o.op {
			case "dec":
				raw, ok = o.cs.enc.Decode(in)
			case "enc":
				raw, ok = o.cs.enc.Encode(in)
			case "rep":
				raw, ok = o.cs.enc.EncodeReplaceUnknown(in), true
			case "erune":
				raw, ok = o.cs.enc.EncodeRune(in)
			case "drune":
				raw, ok = o.cs.enc.DecodeRune(in)
			}
		})
		switch {
		case p != "":
			return nil, tagCrash
		case !ok:
			return nil, tagFail
		}
		return raw, tagOK
	}
	obsOf := func(o subOp, raw []byte, tag int) string {
		r := res{tag: tag}
		if tag == tagOK {
			r.b = append([]byte(nil), raw...)
		}
		if o.op == "erune" || o.op == "drune" {
			return runeObs(r)
		}
		return r.String()
	}
	fill := func(b []byte, v byte) {
		b = b[:cap(b)]
		for i := range b {
			b[i] = v
		}
	}
	seqCase := func(mode string, ops []subOp) {
		n := len(ops)
		items := make([]string, 0, n+2)
		items = append(items, "seq", mode)
		nt := false
		for _, o := range ops {
			if o.op == "enc" {
				items = append(items, hx.List(o.op, o.cs.name, hx.Hex(o.in), hx.Hex(o.extra)))
			} else {
				items = append(items, hx.List(o.op, o.cs.name, hx.Hex(o.in)))
			}
			nt = nt || nonASCII(o.in)
		}
		// reference: every call on its own, looked at immediately (what the single-operation cases do)
		base := make([]string, n)
		for i, o := range ops {
			raw, tag := rawCall(o, exact(o.in, o.extra))
			base[i] = obsOf(o, raw, tag)
		}
		ins := make([][]byte, n)
		raws := make([][]byte, n)
		tags := make([]int, n)
		early := make([]string, n)
		final := make([]string, n)
		one := func(i int, scribbleResult bool) {
			o := ops[i]
			ins[i] = exact(o.in, o.extra)
			raws[i], tags[i] = rawCall(o, ins[i])
			early[i] = obsOf(o, raws[i], tags[i])
			if o.cs.enc.IsReturnSafe() {
				// the result is promised not to share storage with the argument (or anything else)
				fill(ins[i], 0xAA)
				if scribbleResult && tags[i] == tagOK {
					fill(raws[i], 0x55)
				}
			}
		}
		switch mode {
		case "keep":
			for i := range ops {
				one(i, false)
			}
			for i, o := range ops {
				final[i] = obsOf(o, raws[i], tags[i])
			}
		case "edit":
			for i := range ops {
				one(i, true)
				final[i] = early[i]
			}
		case "par":
			const G = 4
			var wg sync.WaitGroup
			for g := 0; g < G; g++ {
				wg.Add(1)
				go func(g int) {
					defer wg.Done()
					for i := g; i < n; i += G {
						one(i, false)
					}
				}(g)
			}
			wg.Wait()
			for i, o := range ops {
				final[i] = obsOf(o, raws[i], tags[i])
			}
		}
		id := out.Case(hx.List(items...), strings.Join(final, "|"), nt)
		out.Stat("seq:" + mode)
		out.StatN("seq:calls", n)
		for i, o := range ops {
			switch {
			case final[i] != early[i]:
				out.Stat("seq:result-changed-after-return")
				out.OracleFail(id, "-", fmt.Sprintf("batch (%s): result %d, %s.%s(%x), was %s when the call returned and reads %s after the later calls of the batch — results of successive calls share storage",
					mode, i, o.cs.name, o.op, o.in, early[i], final[i]))
				return
			case early[i] != base[i]:
				out.OracleFail(id, "-", fmt.Sprintf("batch (%s): call %d, %s.%s(%x), returns %s inside the batch and %s on its own — a call depends on the calls made before it",
					mode, i, o.cs.name, o.op, o.in, early[i], base[i]))
				return
			}
		}
	}

	// --- block sweeps ------------------------------------------------------------------------
	blkCase := func(cs charset, lo, hi int) {
		f := newFnv()
		n := 0
		bad := ""
		for cp := lo; cp < hi; cp++ {
			if isSurrogate(cp) {
				continue
			}
			u := utf8.AppendRune(nil, rune(cp))
			r1 := call2(cs.enc.EncodeRune, u, nil)
			r2 := call2(cs.enc.Encode, u, nil)
			r3 := callRep(cs.enc, u)
			f.res(r1)
			f.res(r2)
			f.res(r3)
			if r1.tag == tagOK {
				n++
				r4 := call2(cs.enc.DecodeRune, r1.b, nil)
				r5 := call2(cs.enc.Decode, r1.b, nil)
				f.res(r4)
				f.res(r5)
				if bad == "" && (r4.tag != tagOK || !bytes.Equal(r4.b, u) || r5.tag != tagOK || !bytes.Equal(r5.b, u)) {
					bad = fmt.Sprintf("%s: U+%04X encodes to %x, which decodes to %s / %s", cs.name, cp, r1.b, runeObs(r4), r5)
				}
				if bad == "" && (r2.tag != tagOK || !bytes.Equal(r2.b, r1.b) || r3.tag != tagOK || !bytes.Equal(r3.b, r1.b)) {
					bad = fmt.Sprintf("%s: U+%04X: EncodeRune=%x Encode=%s EncodeReplaceUnknown=%s", cs.name, cp, r1.b, r2, r3)
				}
			} else {
				if bad == "" && r1.tag == tagCrash {
					bad = fmt.Sprintf("%s: EncodeRune(U+%04X) panics", cs.name, cp)
				}
				if bad == "" && (r3.tag != tagOK || !bytes.Equal(r3.b, []byte{'?'})) {
					bad = fmt.Sprintf("%s: U+%04X is unrepresentable but EncodeReplaceUnknown gives %s", cs.name, cp, r3)
				}
				if bad == "" && r2.tag != tagFail {
					bad = fmt.Sprintf("%s: U+%04X is unrepresentable but Encode gives %s instead of reporting it", cs.name, cp, r2)
				}
			}
			if want, rep, have := refEncode(cs.name, rune(cp)); have && bad == "" {
				if rep != (r1.tag == tagOK) || (rep && !bytes.Equal(want, r1.b)) {
					bad = fmt.Sprintf("%s: U+%04X: EncodeRune gives %s, the transformation format says %x (representable=%v)", cs.name, cp, runeObs(r1), want, rep)
				}
			}
		}
		obs := fmt.Sprintf("n=%d h=%016x", n, f.h)
		id := out.Case(hx.List("blk", cs.name, fmt.Sprint(lo), fmt.Sprint(hi)), obs, hi > 0x80)
		out.Stat("blk")
		out.StatN("blk:codepoints", hi-lo)
		out.StatN("blk:representable", n)
		if bad != "" {
			out.OracleFail(id, "-", bad)
		}
	}
	dblkCase := func(cs charset, ln int, lo, hi uint64) {
		f := newFnv()
		n := 0
		bad := ""
		buf := make([]byte, ln)
		for v := lo; v < hi; v++ {
			x := v
			for i := ln - 1; i >= 0; i-- {
				buf[i] = byte(x)
				x >>= 8
			}
			r1 := call2(cs.enc.DecodeRune, buf, nil)
			r2 := call2(cs.enc.Decode, buf, nil)
			f.res(r1)
			f.res(r2)
			if r1.tag == tagOK {
				n++
				r3 := call2(cs.enc.EncodeRune, r1.b, nil)
				r4 := call2(cs.enc.Encode, r1.b, nil)
				f.res(r3)
				f.res(r4)
				if bad == "" && (r3.tag != tagOK || !bytes.Equal(r3.b, buf) || r4.tag != tagOK || !bytes.Equal(r4.b, buf)) {
					bad = fmt.Sprintf("%s: bytes %x decode to %x, which encodes to %s / %s", cs.name, buf, r1.b, runeObs(r3), r4)
				}
				if !utf8.Valid(r1.b) {
					// e.g. utf8mb3 passes UTF-8 encoded surrogates through; not part of the property (it round-trips)
					out.Stat("dblk:decoded-text-not-utf8:" + cs.name)
				}
			}
			if bad == "" && (r1.tag == tagCrash || r2.tag == tagCrash) {
				bad = fmt.Sprintf("%s: DecodeRune/Decode(%x) panics", cs.name, buf)
			}
		}
		obs := fmt.Sprintf("n=%d h=%016x", n, f.h)
		id := out.Case(hx.List("dblk", cs.name, fmt.Sprint(ln), fmt.Sprint(lo), fmt.Sprint(hi)), obs, ln > 1 || hi > 0x80)
		out.Stat("dblk")
		out.StatN("dblk:sequences", int(hi-lo))
		out.StatN("dblk:decodable", n)
		if bad != "" {
			out.OracleFail(id, "-", bad)
		}
	}

	// --- SQL level ---------------------------------------------------------------------------
	e := eng.New("d")
	sqlRes := func(q string) (res, *eng.Res) { // first column of the first row, raw
		r := e.Query(e.Ctx(), q)
		switch {
		case r.Panic != "":
			return res{tag: tagCrash}, r
		case r.Err != nil || r.Timeout || len(r.Raw) != 1 || len(r.Raw[0]) < 1:
			return res{tag: tagFail}, r
		}
		switch v := r.Raw[0][0].(type) {
		case string:
			return res{tag: tagOK, b: []byte(v)}, r
		case []byte:
			return res{tag: tagOK, b: append([]byte(nil), v...)}, r
		case nil:
			return res{tag: tagFail}, r
		}
		return res{tag: tagOK, b: []byte(fmt.Sprint(r.Raw[0][0]))}, r
	}
	unhexRes := func(x res) res {
		if x.tag != tagOK {
			return x
		}
		b, err := hex.DecodeString(string(x.b))
		if err != nil {
			return res{tag: tagOK, b: append([]byte("nothex:"), x.b...)}
		}
		return res{tag: tagOK, b: b}
	}
	sqlLit := func(s []byte) (string, bool) { // a plain '…' literal; only for well-formed text without quote/backslash/NUL
		if !utf8.Valid(s) {
			return "", false
		}
		for _, c := range s {
			if c == '\'' || c == '\\' || c < 0x20 || c == 0x7f {
				return "", false
			}
		}
		return "'" + string(s) + "'", true
	}
	sqlIntro := func(cs charset, b []byte) {
		got, _ := sqlRes(fmt.Sprintf("SELECT _%s x'%x'", cs.name, b))
		id := out.Case(hx.List("sqlintro", cs.name, hx.Hex(b)), got.String(), nonASCII(b))
		out.Stat("sqlintro")
		if got.tag == tagCrash {
			out.OracleFail(id, "-", fmt.Sprintf("SELECT _%s x'%x' panics", cs.name, b))
		}
		if want := call2(cs.enc.Decode, b, nil); want.String() != got.String() {
			out.OracleFail(id, "-", fmt.Sprintf("SELECT _%s x'%x' gives %s, Encoder.Decode gives %s", cs.name, b, got, want))
		}
	}
	// several introducers in one statement: every literal is decoded while the plan is built and all of
	// them are still in use when the row is produced
	rawVal := func(v interface{}) res {
		switch t := v.(type) {
		case string:
			return res{tag: tagOK, b: []byte(t)}
		case []byte:
			return res{tag: tagOK, b: append([]byte(nil), t...)}
		case nil:
			return res{tag: tagFail}
		}
		return res{tag: tagOK, b: []byte(fmt.Sprint(v))}
	}
	sqlIntros := func(items []subOp) {
		var sel, pl, want []string
		pl = append(pl, "sqlintros")
		nt := false
		anyFail := false
		for _, it := range items {
			sel = append(sel, fmt.Sprintf("_%s x'%x'", it.cs.name, it.in))
			pl = append(pl, hx.List(it.cs.name, hx.Hex(it.in)))
			nt = nt || nonASCII(it.in)
			w := call2(it.cs.enc.Decode, it.in, nil)
			anyFail = anyFail || w.tag != tagOK
			want = append(want, w.String())
		}
		q := "SELECT " + strings.Join(sel, ", ")
		r := e.Query(e.Ctx(), q)
		obs := ""
		switch {
		case r.Panic != "":
			obs = "crash"
		case r.Err != nil || r.Timeout || len(r.Raw) != 1 || len(r.Raw[0]) != len(items):
			obs = "fail"
		default:
			var cols []string
			for _, v := range r.Raw[0] {
				cols = append(cols, rawVal(v).String())
			}
			obs = strings.Join(cols, "|")
		}
		id := out.Case(hx.List(pl...), obs, nt)
		out.Stat("sqlintros")
		wantObs := strings.Join(want, "|")
		if anyFail {
			wantObs = "fail"
		}
		if obs == "crash" {
			out.OracleFail(id, "sql_statement_panics", q+" panics")
		} else if obs != wantObs {
			out.OracleFail(id, "-", fmt.Sprintf("%s gives %s, Encoder.Decode of the literals one at a time gives %s", q, obs, wantObs))
		}
	}
	// several values of one multi-row INSERT converted into a column of the character set: a binary
	// literal that is not valid UTF-8 is decoded from the column's character set when it is stored
	// (types.StringType.Convert); all rows are converted before the first is read back.
	// Envelope: every value decodes and is NOT valid UTF-8 as it stands (a value that happens to be valid
	// UTF-8 is stored undecoded — that is the behaviour behind finding sql_convert_using_not_decoded /
	// sql_unrepresentable_stored and is kept out of this stream).
	rowsMade := map[string]bool{}
	sqlRows := func(cs charset, vals [][]byte) {
		if !cs.isRM {
			return
		}
		var tuples, pl, want []string
		pl = append(pl, "sqlrows", cs.name)
		for i, v := range vals {
			w := call2(cs.enc.Decode, v, nil)
			if utf8.Valid(v) || w.tag != tagOK || len(v) == 0 {
				return
			}
			tuples = append(tuples, fmt.Sprintf("(%d, x'%x')", i+1, v))
			pl = append(pl, hx.Hex(v))
			want = append(want, w.String())
		}
		if !rowsMade[cs.name] {
			e.MustExec(e.Ctx(), fmt.Sprintf("CREATE TABLE r_%s (id INT PRIMARY KEY, c VARCHAR(64) CHARACTER SET %s)", cs.name, cs.name))
			rowsMade[cs.name] = true
		}
		ins := e.Query(e.Ctx(), fmt.Sprintf("INSERT INTO r_%s VALUES %s", cs.name, strings.Join(tuples, ", ")))
		sel := e.Query(e.Ctx(), fmt.Sprintf("SELECT c FROM r_%s ORDER BY id", cs.name))
		e.Query(e.Ctx(), fmt.Sprintf("DELETE FROM r_%s", cs.name))
		obs := ""
		switch {
		case ins.Panic != "" || sel.Panic != "":
			obs = "crash"
		case ins.Err != nil || ins.Timeout:
			obs = "ins=fail"
		case sel.Err != nil || sel.Timeout || len(sel.Raw) != len(vals):
			obs = "sel=fail"
		default:
			var cols []string
			for _, row := range sel.Raw {
				cols = append(cols, rawVal(row[0]).String())
			}
			obs = strings.Join(cols, "|")
		}
		id := out.Case(hx.List(pl...), obs, true)
		out.Stat("sqlrows")
		if obs == "crash" {
			out.OracleFail(id, "sql_statement_panics", fmt.Sprintf("multi-row INSERT of %v into CHARACTER SET %s panics", tuples, cs.name))
		} else if obs != strings.Join(want, "|") {
			out.OracleFail(id, "-", fmt.Sprintf("multi-row INSERT of %v into a CHARACTER SET %s column reads back %s, Encoder.Decode of the values one at a time gives %s",
				tuples, cs.name, obs, strings.Join(want, "|")))
		}
	}
	sqlConv := func(cs charset, s []byte) {
		lit, ok := sqlLit(s)
		if !ok {
			return
		}
		conv, _ := sqlRes(fmt.Sprintf("SELECT CONVERT(%s USING %s)", lit, cs.name))
		hx1, _ := sqlRes(fmt.Sprintf("SELECT HEX(CONVERT(%s USING %s))", lit, cs.name))
		back, _ := sqlRes(fmt.Sprintf("SELECT CONVERT(CONVERT(%s USING %s) USING utf8mb4)", lit, cs.name))
		obs := fmt.Sprintf("conv=%s hex=%s back=%s", conv, unhexRes(hx1), back)
		id := out.Case(hx.List("sqlconv", cs.name, hx.Hex(s)), obs, nonASCII(s))
		out.Stat("sqlconv")
		// oracle (MySQL semantics, model free): the round trip gives the text back when every character is representable
		all := true
		var enc []byte
		for _, c := range string(s) {
			rr := call2(cs.enc.EncodeRune, utf8.AppendRune(nil, c), nil)
			if rr.tag != tagOK {
				all = false
			}
			enc = append(enc, rr.b...)
		}
		if conv.tag == tagCrash || hx1.tag == tagCrash || back.tag == tagCrash {
			// a panic is not part of finding sql_convert_using_not_decoded (any more): own, unlisted tag
			out.OracleFail(id, "sql_statement_panics", fmt.Sprintf("CONVERT(%s USING %s) / HEX / CONVERT back: a statement panics (%s)", lit, cs.name, obs))
		} else if all && (back.tag != tagOK || !bytes.Equal(back.b, s) || unhexRes(hx1).String() != (res{tag: tagOK, b: enc}).String()) {
			out.OracleFail(id, "-", fmt.Sprintf("every character of %s is representable in %s, but HEX(CONVERT)=%s (want %x) and CONVERT back=%s", lit, cs.name, hx1, enc, back))
		}
	}
	tblMade := map[string]int{}
	sqlCol := func(cs charset, s []byte) {
		lit, ok := sqlLit(s)
		if !ok || cs.name == "binary" {
			return
		}
		if _, ok := tblMade[cs.name]; !ok {
			e.MustExec(e.Ctx(), fmt.Sprintf("CREATE TABLE t_%s (id INT PRIMARY KEY, c VARCHAR(64) CHARACTER SET %s)", cs.name, cs.name))
			tblMade[cs.name] = 0
		}
		tblMade[cs.name]++
		k := tblMade[cs.name]
		ins := e.Query(e.Ctx(), fmt.Sprintf("INSERT INTO t_%s VALUES (%d, %s)", cs.name, k, lit))
		insObs := "ok"
		if ins.Panic != "" {
			insObs = "crash"
		} else if ins.Err != nil {
			insObs = "fail"
		}
		hx1, _ := sqlRes(fmt.Sprintf("SELECT HEX(c) FROM t_%s WHERE id = %d", cs.name, k))
		ln, _ := sqlRes(fmt.Sprintf("SELECT LENGTH(c) FROM t_%s WHERE id = %d", cs.name, k))
		val, _ := sqlRes(fmt.Sprintf("SELECT c FROM t_%s WHERE id = %d", cs.name, k))
		lnObs := "fail"
		if ln.tag == tagOK {
			lnObs = string(ln.b)
		} else if ln.tag == tagCrash {
			lnObs = "crash"
		}
		obs := fmt.Sprintf("ins=%s hex=%s len=%s val=%s", insObs, unhexRes(hx1), lnObs, val)
		id := out.Case(hx.List("sqlcol", cs.name, hx.Hex(s)), obs, nonASCII(s))
		out.Stat("sqlcol")
		e.Query(e.Ctx(), fmt.Sprintf("DELETE FROM t_%s WHERE id = %d", cs.name, k))
		all := true
		var enc []byte
		for _, c := range string(s) {
			rr := call2(cs.enc.EncodeRune, utf8.AppendRune(nil, c), nil)
			if rr.tag != tagOK {
				all = false
			}
			enc = append(enc, rr.b...)
		}
		if insObs == "crash" || hx1.tag == tagCrash || ln.tag == tagCrash || val.tag == tagCrash {
			// a panic is not part of finding sql_unrepresentable_stored (any more): own, unlisted tag
			out.OracleFail(id, "sql_statement_panics", fmt.Sprintf("column CHARACTER SET %s holding %s: a statement panics (%s)", cs.name, lit, obs))
		} else if all && (insObs != "ok" || unhexRes(hx1).String() != (res{tag: tagOK, b: enc}).String() || lnObs != fmt.Sprint(len(enc)) || val.tag != tagOK || !bytes.Equal(val.b, s)) {
			out.OracleFail(id, "-", fmt.Sprintf("column CHARACTER SET %s holding representable %s: %s (want hex %x)", cs.name, lit, obs, enc))
		} else if !all && insObs == "ok" && val.tag == tagOK && bytes.Equal(val.b, s) {
			out.OracleFail(id, "-", fmt.Sprintf("column CHARACTER SET %s accepted %s unchanged although it has an unrepresentable character (neither reported nor replaced)", cs.name, lit))
		}
	}

	// --- corpus: witnesses and regression cases first ----------------------------------------
	if cs, ok := byName["latin1"]; ok {
		// witnesses of the repaired finding encode_unrepresentable_tail (F-C30-a): these panicked before
		// the fix: commit (`slice bounds out of range`) and must now report failure
		encCase(cs, []byte("\xe9"), nil)                // HEX(CONVERT('é' USING latin1)) reaches this
		encCase(cs, []byte("\xc4\x80"), nil)            // unrepresentable character at the end of the string
		encCase(cs, []byte("a\xc4\x80b"), nil)          // … one byte before the end
		encCase(cs, []byte("\xc4\x80abc"), nil)         // … far enough from the end: reported (before and after)
		encCase(cs, []byte("\xc4"), []byte{0x80, 0, 0}) // spare capacity: the pre-fix loop read past the slice
		encCase(cs, []byte("\xc3"), []byte{0xa9})       // spare capacity completes a representable unit (pre-fix: panic at str[2:])
		encCase(cs, []byte("h\xc3\xa9llo"), nil)
		repCase(cs, []byte("\xc4\x80b")) // two characters collapse into one '?'
		repCase(cs, []byte("\xc4\x80"))
		repCase(cs, []byte("\xc4\x80abc"))
		repCase(cs, []byte("\xc4\x80\xc4\x80"))
		repCase(cs, []byte("\xe9"))
		decCase(cs, []byte("h\xe9llo"))
		decCase(cs, []byte{0x81, 0x8d})
	}
	if cs, ok := byName["utf16"]; ok {
		encCase(cs, []byte("\xed\xa0\x80"), nil) // UTF-8 encoded surrogate: encoded into a lone surrogate
		encCase(cs, []byte("a\xf0\x9f\x98\x80"), nil)
		decCase(cs, []byte{0xd8, 0x00})
		decCase(cs, []byte{0xd8, 0x3d, 0xde, 0x00})
		decCase(cs, []byte{0x00})
		repCase(cs, []byte("\xe9"))
	}
	if cs, ok := byName["utf32"]; ok {
		encCase(cs, []byte("\xf4\x90\x80\x80"), nil) // beyond U+10FFFF
		decCase(cs, []byte{0, 0x11, 0, 0})
		decCase(cs, []byte{0, 0, 0xd8, 0})
	}
	if cs, ok := byName["latin1"]; ok {
		sqlConv(cs, []byte("\xc3\xa9"))  // HEX(CONVERT('é' USING latin1)) is an error (pre-fix: panic); CONVERT back gives E9, not 'é'
		sqlConv(cs, []byte("\xc4\x80b")) // 'Āb' -> '?'
		sqlConv(cs, []byte("abc"))
		sqlCol(cs, []byte("\xc3\xa9"))
		sqlCol(cs, []byte("\xc4\x80")) // stored unchanged; HEX(c), LENGTH(c) are errors (pre-fix: panic)
		sqlIntro(cs, []byte{0xe9})
		sqlIntro(cs, []byte{0x81})
	}
	if cs, ok := byName["utf16"]; ok {
		sqlConv(cs, []byte("a")) // HEX gives 00000061
		sqlCol(cs, []byte("a\xc3\xa9\xf0\x9f\x98\x80"))
		sqlIntro(cs, []byte{0xd8, 0x00})
		sqlIntro(cs, []byte{0x00, 0x61})
		sqlIntro(cs, []byte{0x00})
	}
	// batches (results kept across calls): witnesses of the class "a later call rewrites an earlier
	// result" first — equal lengths, longer after shorter, shorter after longer, different character sets
	if cs, ok := byName["latin1"]; ok {
		d := func(b ...byte) subOp { return subOp{op: "dec", cs: cs, in: b} }
		seqCase("keep", []subOp{d(0xe9), d(0xe8)})
		seqCase("keep", []subOp{d(0xe9, 0xe9, 0xe9), d(0xe8, 0xe8, 0xe8)})
		seqCase("keep", []subOp{d('h', 0xe9, 'l', 'l', 'o'), d('a', 'b'), d(0x80, 0xe9, 0xe8, 0xe7, 0xe6, 0xe5, 0xe4)})
		seqCase("edit", []subOp{d(0xe9, 0xe9), d(0xe9, 0xe9), d(0xe8)})
		seqCase("par", []subOp{d(0xe9), d(0xe8), d(0xe7), d(0xe6), d(0xe5), d(0xe4), d(0xe3), d(0xe2)})
		seqCase("keep", []subOp{{op: "enc", cs: cs, in: []byte("\xc3\xa9\xc3\xa9")}, {op: "enc", cs: cs, in: []byte("ab")}, {op: "rep", cs: cs, in: []byte("\xc4\x80abc")},
			{op: "rep", cs: cs, in: []byte("xyz")}, {op: "erune", cs: cs, in: []byte("\xc3\xa9")}, {op: "erune", cs: cs, in: []byte("\xc3\xa8")}, {op: "drune", cs: cs, in: []byte{0xe9}}, {op: "drune", cs: cs, in: []byte{0xe8}}})
		sqlIntros([]subOp{d(0xe9, 0xe9, 0xe9), d(0xe8, 0xe8, 0xe8)})
		sqlRows(cs, [][]byte{{0xe9, 0xe9, 0xe9}, {0xe8, 0xe8, 0xe8}})
		if u, ok := byName["utf16"]; ok {
			seqCase("keep", []subOp{d(0xe9, 0xe9), {op: "dec", cs: u, in: []byte{0x65, 0xe5}}})
			sqlIntros([]subOp{d(0xe9, 0xe9), {op: "dec", cs: u, in: []byte{0x65, 0xe5}}, d('a')})
		}
	}
	if cs, ok := byName["utf16"]; ok {
		d := func(b ...byte) subOp { return subOp{op: "dec", cs: cs, in: b} }
		seqCase("keep", []subOp{d(0x00, 0xe9, 0x00, 0xe9), d(0x65, 0xe5, 0x65, 0xe5), d(0x00, 0x41, 0x00, 0x42)})
		sqlIntros([]subOp{d(0x00, 0xe9, 0x00, 0xe9), d(0x65, 0xe5, 0x65, 0xe5), d(0x00, 0x41, 0x00, 0x42)})
		sqlRows(cs, [][]byte{{0x00, 0xe9, 0x00, 0xe9}, {0x65, 0xe5, 0x65, 0xe5}})
	}
	for _, cs := range css {
		encCase(cs, nil, nil)
		decCase(cs, nil)
		repCase(cs, nil)
		encCase(cs, []byte("abc"), nil)
		seqCase("keep", []subOp{{op: "dec", cs: cs, in: []byte("ab")}, {op: "dec", cs: cs, in: nil}, {op: "dec", cs: cs, in: []byte("cd")}})
	}

	// --- sweeps ------------------------------------------------------------------------------
	maxCP := 0x10000
	blk := 256
	if a.Thorough {
		maxCP = 0x110000
	}
	for _, cs := range css {
		for lo := 0; lo < maxCP; lo += blk {
			blkCase(cs, lo, lo+blk)
		}
		if !a.Thorough {
			// a sample of the supplementary planes in the quick tier
			for i := 0; i < 24; i++ {
				lo := 0x10000 + r.Intn((0x110000-0x10000)/blk)*blk
				blkCase(cs, lo, lo+blk)
			}
		}
		dblkCase(cs, 1, 0, 256)
		for lo := uint64(0); lo < 65536; lo += 1024 {
			dblkCase(cs, 2, lo, lo+1024)
		}
		n34 := 40
		if a.Thorough {
			n34 = 4000
		}
		for i := 0; i < n34; i++ {
			// 3- and 4-byte blocks: random, and centred on the lead bytes multi-byte sets use
			ln := 3 + r.Intn(2)
			var lo uint64
			switch r.Intn(3) {
			case 0:
				lo = r.U64() % (uint64(1) << (8 * uint(ln)))
			case 1: // utf32 / utf16 surrogate pairs / utf8 lead bytes
				if ln == 4 {
					lo = uint64(r.Intn(0x12))<<16 | uint64(r.Intn(65536))
					if r.Bool() {
						lo = uint64(0xD800+r.Intn(0x420))<<16 | uint64(0xDC00-0x40+r.Intn(0x480))
					}
				} else {
					lo = uint64(0xE0+r.Intn(16))<<16 | uint64(r.Intn(65536))
				}
			default:
				lo = uint64(r.Intn(256)) << (8 * uint(ln-1))
			}
			lo &^= 0xFF
			dblkCase(cs, ln, lo, lo+256)
		}
	}

	// --- random strings ----------------------------------------------------------------------
	// per character set: a pool of representable and unrepresentable characters
	type pool struct{ rep, unrep []rune }
	pools := map[string]*pool{}
	for _, cs := range css {
		p := &pool{}
		for cp := 0x20; cp < 0x3000; cp++ {
			u := utf8.AppendRune(nil, rune(cp))
			if rr := call2(cs.enc.EncodeRune, u, nil); rr.tag == tagOK {
				if cp < 0x80 && cp%8 != 0 {
					continue // keep ASCII from drowning the rest
				}
				p.rep = append(p.rep, rune(cp))
			} else if len(p.unrep) < 400 {
				p.unrep = append(p.unrep, rune(cp))
			}
		}
		for _, cp := range []rune{0x20AC, 0xFFFD, 0xFFFF, 0x10000, 0x1F600, 0x10FFFF, 0xD7FF, 0xE000} {
			u := utf8.AppendRune(nil, cp)
			if rr := call2(cs.enc.EncodeRune, u, nil); rr.tag == tagOK {
				p.rep = append(p.rep, cp)
			} else {
				p.unrep = append(p.unrep, cp)
			}
		}
		pools[cs.name] = p
	}
	malformed := [][]byte{{0x80}, {0xbf}, {0xc0, 0x80}, {0xc3}, {0xe2, 0x82}, {0xf0, 0x9f, 0x98}, {0xed, 0xa0, 0x80}, {0xed, 0xbf, 0xbf},
		{0xf4, 0x90, 0x80, 0x80}, {0xf5}, {0xff}, {0xfe}, {0xe0, 0x80, 0x80}, {0xf0, 0x80, 0x80, 0x80}, {0xc1, 0xbf}, {0xf4, 0x8f, 0xbf}, {0xe9}}
	genString := func(cs charset, maxUnits int) []byte {
		p := pools[cs.name]
		var s []byte
		n := r.Intn(maxUnits + 1)
		mode := r.Intn(4) // 0: all representable, 1: + unrepresentable, 2: + malformed, 3: everything
		for i := 0; i < n; i++ {
			k := r.Intn(10)
			switch {
			case mode >= 2 && mode != 1 && k == 0:
				s = append(s, hx.Pick(r, malformed)...)
			case mode >= 2 && k == 1:
				s = append(s, byte(r.Intn(256)))
			case (mode == 1 || mode == 3) && k <= 3 && len(p.unrep) > 0:
				s = utf8.AppendRune(s, hx.Pick(r, p.unrep))
			case len(p.rep) > 0:
				s = utf8.AppendRune(s, hx.Pick(r, p.rep))
			default:
				s = append(s, byte('a'+r.Intn(26)))
			}
		}
		if mode >= 2 && len(s) > 0 && r.Chance(1, 4) { // truncate inside the last character
			s = s[:len(s)-1]
		}
		return s
	}
	nStr, nSQL := 1500, 60
	if a.Thorough {
		nStr, nSQL = 60000, 2000
	}
	for _, cs := range css {
		for i := 0; i < nSQL; i++ {
			p := pools[cs.name]
			var s []byte
			for n := r.Intn(6); n > 0; n-- {
				switch {
				case r.Chance(1, 5) && len(p.unrep) > 0:
					s = utf8.AppendRune(s, hx.Pick(r, p.unrep))
				case len(p.rep) > 0 && r.Chance(2, 3):
					s = utf8.AppendRune(s, hx.Pick(r, p.rep))
				default:
					s = append(s, byte('a'+r.Intn(26)))
				}
			}
			switch r.Intn(3) {
			case 0:
				sqlConv(cs, s)
			case 1:
				sqlCol(cs, s)
			default:
				b := callRep(cs.enc, s).b
				if r.Chance(1, 3) && len(b) > 0 {
					b[r.Intn(len(b))] = byte(r.Intn(256))
				}
				if r.Chance(1, 5) && len(b) > 0 {
					b = b[:len(b)-1]
				}
				sqlIntro(cs, b)
			}
		}
	}
	// --- batches -----------------------------------------------------------------------------
	nSeq, nSQLm := 130, 16
	if a.Thorough {
		nSeq, nSQLm = 6000, 400
	}
	// charset-side bytes: the encoding of a (mostly) representable string, sometimes damaged
	genDecIn := func(cs charset, maxUnits int, damage bool) []byte {
		p := pools[cs.name]
		var s []byte
		for n := r.Intn(maxUnits + 1); n > 0; n-- {
			if len(p.rep) > 0 && !r.Chance(1, 4) {
				s = utf8.AppendRune(s, hx.Pick(r, p.rep))
			} else {
				s = append(s, byte('a'+r.Intn(26)))
			}
		}
		b := callRep(cs.enc, s).b
		if damage && r.Chance(1, 8) && len(b) > 0 {
			b[r.Intn(len(b))] = byte(r.Intn(256))
		}
		return b
	}
	genOp := func(cs charset) subOp {
		switch k := r.Intn(20); {
		case k < 10:
			return subOp{op: "dec", cs: cs, in: genDecIn(cs, 8, true)}
		case k < 13:
			return subOp{op: "enc", cs: cs, in: genString(cs, 8)}
		case k < 16:
			return subOp{op: "rep", cs: cs, in: genString(cs, 8)}
		default:
			u := genString(cs, 2)
			if len(u) > 4 {
				u = u[:1+r.Intn(4)]
			}
			if len(u) == 0 {
				u = []byte{byte(r.Intn(256))}
			}
			if k < 18 {
				return subOp{op: "erune", cs: cs, in: u}
			}
			b := genDecIn(cs, 1, false)
			if len(b) == 0 {
				b = []byte{byte(r.Intn(256))}
			}
			return subOp{op: "drune", cs: cs, in: b}
		}
	}
	for _, cs := range css {
		for i := 0; i < nSeq; i++ {
			mode := []string{"keep", "keep", "keep", "edit", "edit", "par"}[r.Intn(6)]
			n := 2 + r.Intn(5)
			if mode == "par" {
				n = 4 + r.Intn(13)
			}
			mixed := r.Chance(1, 4)
			var ops []subOp
			for j := 0; j < n; j++ {
				c := cs
				if mixed && r.Bool() {
					c = hx.Pick(r, css)
				}
				if len(ops) > 0 && r.Chance(1, 4) {
					ops = append(ops, hx.Pick(r, ops)) // the same call again
				} else {
					ops = append(ops, genOp(c))
				}
			}
			seqCase(mode, ops)
		}
		for i := 0; i < nSQLm; i++ {
			n := 2 + r.Intn(3)
			if r.Bool() {
				var items []subOp
				for j := 0; j < n; j++ {
					c := cs
					if r.Chance(1, 4) {
						c = hx.Pick(r, css)
					}
					items = append(items, subOp{op: "dec", cs: c, in: genDecIn(c, 5, j == 0 && r.Chance(1, 4))})
				}
				sqlIntros(items)
			} else {
				var vals [][]byte
				for j := 0; j < n; j++ {
					// a value the engine has to decode: not valid UTF-8 as it stands
					var v []byte
					for t := 0; t < 6; t++ {
						v = genDecIn(cs, 5, false)
						if len(v) > 0 && !utf8.Valid(v) {
							break
						}
					}
					vals = append(vals, v)
				}
				sqlRows(cs, vals)
			}
		}
	}
	for _, cs := range css {
		for i := 0; i < nStr; i++ {
			s := genString(cs, 8)
			switch r.Intn(8) {
			case 0, 1, 2:
				var extra []byte
				if r.Chance(1, 3) {
					extra = make([]byte, 1+r.Intn(4))
					for j := range extra {
						if r.Bool() {
							extra[j] = byte(0x80 + r.Intn(0x40))
						} else {
							extra[j] = byte(r.Intn(256))
						}
					}
				}
				encCase(cs, s, extra)
			case 3, 4:
				repCase(cs, s)
			case 5, 6:
				// charset-side bytes: the encoding of a representable string, sometimes damaged
				t := callRep(cs.enc, s)
				b := t.b
				if r.Chance(1, 3) && len(b) > 0 {
					switch r.Intn(3) {
					case 0:
						b = b[:len(b)-1]
					case 1:
						b[r.Intn(len(b))] = byte(r.Intn(256))
					case 2:
						b = append(b, byte(r.Intn(256)))
					}
				}
				if r.Chance(1, 6) {
					b = make([]byte, r.Intn(7))
					for j := range b {
						b[j] = byte(r.Intn(256))
					}
				}
				decCase(cs, b)
			default:
				u := s
				if len(u) > 4 {
					u = u[:1+r.Intn(4)]
				}
				if len(u) == 0 {
					u = []byte{byte(r.Intn(256))}
				}
				if r.Bool() {
					runeCase(cs, "erune", u)
				} else {
					runeCase(cs, "drune", u)
				}
			}
		}
	}
	return nil
}
