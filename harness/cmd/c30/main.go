package main

import (
	"fmt"

	"github.com/dolthub/go-mysql-server/sql"
	"github.com/dolthub/go-mysql-server/sql/encodings"
)

func card(b [][2]byte) int {
	c := 1
	for _, x := range b {
		c *= int(x[1]) - int(x[0]) + 1
	}
	return c
}
func pv(b [][2]byte) []int {
	out := make([]int, len(b))
	c := 1
	for i := len(b) - 1; i >= 0; i-- {
		out[i] = c
		c *= int(b[i][1]) - int(b[i][0]) + 1
	}
	return out
}
func eq(a, b []int) bool {
	if len(a) != len(b) {
		return false
	}
	for i := range a {
		if a[i] != b[i] {
			return false
		}
	}
	return true
}

func main() {
	it := sql.NewCharacterSetsIterator()
	for cs, ok := it.Next(); ok; cs, ok = it.Next() {
		if cs.Encoder == nil {
			continue
		}
		d, isRM := encodings.VerifDumpRangeMap(cs.Encoder)
		if !isRM {
			continue
		}
		for side, tbl := range [][][]encodings.VerifEntry{d.In, d.Out} {
			for k, es := range tbl {
				for _, e := range es {
					if card(e.InR) != card(e.OutR) {
						fmt.Println(cs.Name, side, k, "CARD", e, card(e.InR), card(e.OutR))
					}
					if !eq(pv(e.InR), e.InM) {
						fmt.Println(cs.Name, side, k, "INM", e, pv(e.InR))
					}
					if !eq(pv(e.OutR), e.OutM) {
						fmt.Println(cs.Name, side, k, "OUTM", e, pv(e.OutR))
					}
					if side == 0 && len(e.InR) != k+1 || side == 1 && len(e.OutR) != k+1 {
						fmt.Println(cs.Name, side, k, "LEN", e)
					}
				}
			}
		}
	}
}
