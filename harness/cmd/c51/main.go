// C51 — Full-text search matches the indexed words and stays in sync.
//
// extract: minimum word length sites, parser states, the isCharacter / isApostrophe expressions
// (sql/fulltext/default_parser.go), maxWordLength (schema.go), the maxWordLength guards of the editor.
// run: (tok) fulltext.NewDefaultParser on generated documents vs the Lean tokenizer model and its
// Spec; (hist) FULLTEXT tables in the real engine under DML histories: MATCH … AGAINST results
// (WHERE form and SELECT-expression form) and the contents of the four pseudo-index tables vs the
// Lean Spec computed from the reference table contents.
package main

import (
	"fmt"
	"go/ast"
	"go/token"
	"sort"
	"strconv"
	"strings"
	"unicode"

	"github.com/dolthub/go-mysql-server/sql"
	"github.com/dolthub/go-mysql-server/sql/fulltext"
	"github.com/dolthub/go-mysql-server/verifharness/hx"
	"github.com/dolthub/go-mysql-server/verifharness/hx/eng"
)

func main() { hx.Main(extract, run) }

// ---------------------------------------------------------------------------------------------
// Facts

func extract(a hx.ExtractArgs) error {
	dp, err := hx.ParseSrc(a.Repo, "sql/fulltext/default_parser.go")
	if err != nil {
		return err
	}
	sc, err := hx.ParseSrc(a.Repo, "sql/fulltext/schema.go")
	if err != nil {
		return err
	}
	ed, err := hx.ParseSrc(a.Repo, "sql/fulltext/fulltext_editor.go")
	if err != nil {
		return err
	}
	lf := hx.NewLeanFile("Gms.Generated.C51", dp.Path, sc.Path, ed.Path)

	np, err := dp.Func("", "NewDefaultParser")
	if err != nil {
		return err
	}
	// every `len(word.Word) <op> N`
	var minSites []uint64
	var minOps []string
	var isChar, isApos string
	var caseStates []string
	ast.Inspect(np.Body, func(n ast.Node) bool {
		switch x := n.(type) {
		case *ast.BinaryExpr:
			if dp.Text(x.X) == "len(word.Word)" {
				if l, ok := x.Y.(*ast.BasicLit); ok && l.Kind == token.INT {
					v, _ := strconv.ParseUint(l.Value, 10, 64)
					minSites = append(minSites, v)
					minOps = append(minOps, x.Op.String())
				} else {
					minSites = append(minSites, 999999)
					minOps = append(minOps, "?")
				}
			}
		case *ast.AssignStmt:
			if len(x.Lhs) == 1 && len(x.Rhs) == 1 {
				switch dp.Text(x.Lhs[0]) {
				case "isCharacter":
					isChar = dp.Text(x.Rhs[0])
				case "isApostrophe":
					isApos = dp.Text(x.Rhs[0])
				}
			}
		case *ast.SwitchStmt:
			if dp.Text(x.Tag) == "state" {
				for _, st := range x.Body.List {
					for _, c := range st.(*ast.CaseClause).List {
						caseStates = append(caseStates, dp.Text(c))
					}
				}
			}
		}
		return true
	})
	if len(minSites) == 0 || isChar == "" || isApos == "" {
		return fmt.Errorf("NewDefaultParser: expected shape not found (min sites %d, isCharacter %q, isApostrophe %q)", len(minSites), isChar, isApos)
	}
	lf.DefNatList("minWordLenSites", minSites)
	lf.DefStringList("minWordLenOps", minOps)
	lf.DefString("isCharacterExpr", isChar)
	lf.DefString("isApostropheExpr", isApos)
	lf.DefStringList("parserStateCases", caseStates)

	// newParserWord trims exactly the apostrophe on both sides
	npw, err := dp.Func("", "newParserWord")
	if err != nil {
		return err
	}
	var trims []string
	ast.Inspect(npw.Body, func(n ast.Node) bool {
		if ce, ok := n.(*ast.CallExpr); ok {
			f := dp.Text(ce.Fun)
			if strings.HasPrefix(f, "strings.Trim") && len(ce.Args) == 2 {
				trims = append(trims, f+" "+dp.Text(ce.Args[1]))
			}
		}
		return true
	})
	lf.DefStringList("wordTrims", trims)

	e, err := sc.PkgVarInit("maxWordLength")
	if err != nil {
		return err
	}
	l, ok := e.(*ast.BasicLit)
	if !ok || l.Kind != token.INT {
		return fmt.Errorf("maxWordLength is not an integer literal")
	}
	mv, _ := strconv.ParseUint(l.Value, 10, 64)
	lf.DefNat("maxWordLength", mv)

	// the editor's guards `len(word) > maxWordLength` per method
	for _, m := range []string{"Insert", "Delete"} {
		fd, err := ed.Func("TableEditor", m)
		if err != nil {
			return err
		}
		cnt := uint64(0)
		ast.Inspect(fd.Body, func(n ast.Node) bool {
			if be, ok := n.(*ast.BinaryExpr); ok && ed.Text(be) == "len(word) > maxWordLength" {
				cnt++
			}
			return true
		})
		lf.DefNat("maxLenGuards"+m, cnt)
	}
	return lf.Write(a.Out)
}

// ---------------------------------------------------------------------------------------------
// Documents

// isCharacter is the predicate of NewDefaultParser (its source text is a regenerated fact).
func isCharacter(r rune) bool {
	return ((unicode.IsLetter(r) || unicode.IsNumber(r) || unicode.IsDigit(r)) && !unicode.IsPunct(r)) || r == '_'
}

// docSexp renders a document the way Go's range loop sees it.
func docSexp(doc string) string {
	var parts []string
	parts = append(parts, "d")
	prev := -1
	var prevR rune
	flush := func(end int) {
		if prev >= 0 {
			ch := "0"
			if isCharacter(prevR) {
				ch = "1"
			}
			parts = append(parts, fmt.Sprintf("%d.%d.%s", prevR, end-prev, ch))
		}
	}
	for i, r := range doc {
		flush(i)
		prev, prevR = i, r
	}
	flush(len(doc))
	return "(" + strings.Join(parts, " ") + ")"
}

func sqlStr(s string) string {
	var b strings.Builder
	b.WriteByte('\'')
	for i := 0; i < len(s); i++ {
		switch c := s[i]; c {
		case '\'':
			b.WriteString("''")
		case '\\':
			b.WriteString("\\\\")
		default:
			b.WriteByte(c)
		}
	}
	b.WriteByte('\'')
	return b.String()
}

func lowerASCII(s string) string {
	b := []byte(s)
	for i, c := range b {
		if c >= 'A' && c <= 'Z' {
			b[i] = c + 32
		}
	}
	return string(b)
}

func plist(items []string) string { return "(" + strings.Join(items, " ") + ")" }

// ---------------------------------------------------------------------------------------------
// tok: the parser alone

func tokCase(out *hx.Out, ctx *sql.Context, ci bool, doc string) {
	coll := sql.Collation_utf8mb4_0900_bin
	cis := "0"
	if ci {
		coll = sql.Collation_utf8mb4_0900_ai_ci
		cis = "1"
	}
	var obs string
	nwords := 0
	p := hx.Safe(func() {
		parser, err := fulltext.NewDefaultParser(ctx, coll, doc)
		if err != nil {
			obs = "err"
			return
		}
		var ws, ps, us []string
		for {
			w, pos, end, err := parser.Next(ctx)
			if err != nil || end {
				break
			}
			ws = append(ws, hx.HexS(w))
			ps = append(ps, strconv.FormatUint(pos, 10))
		}
		nwords = len(ws)
		for {
			w, end, err := parser.NextUnique(ctx)
			if err != nil || end {
				break
			}
			c, _ := parser.DocumentCount(ctx, w)
			us = append(us, "("+hx.HexS(w)+" "+strconv.FormatUint(c, 10)+")")
		}
		obs = "w=" + plist(ws) + " p=" + plist(ps) + " u=" + plist(us) + " n=" + strconv.FormatUint(parser.UniqueWordCount(ctx), 10)
	})
	if p != "" {
		obs = "crash:" + p
	}
	out.Case(hx.List("tok", cis, docSexp(doc)), obs, nwords >= 1)
	out.Stat("tok")
	if nwords >= 2 {
		out.Stat("tok:multiword")
	}
}

// ---------------------------------------------------------------------------------------------
// hist: engine histories

type op struct {
	kind string // ins del upd rekey
	id   int
	n    int
	cols []*string
}

func colSexp(c *string) string {
	if c == nil {
		return "null"
	}
	return docSexp(*c)
}

func (o op) sexp() string {
	switch o.kind {
	case "ins", "upd":
		parts := []string{o.kind, strconv.Itoa(o.id)}
		for _, c := range o.cols {
			parts = append(parts, colSexp(c))
		}
		return hx.List(parts...)
	case "del":
		return hx.List("del", strconv.Itoa(o.id))
	}
	return hx.List("rekey", strconv.Itoa(o.id), strconv.Itoa(o.n))
}

func colLit(c *string) string {
	if c == nil {
		return "NULL"
	}
	return sqlStr(*c)
}

var colNames = []string{"a", "b"}

func (o op) sql() string {
	switch o.kind {
	case "ins":
		vals := []string{strconv.Itoa(o.id)}
		for _, c := range o.cols {
			vals = append(vals, colLit(c))
		}
		return "INSERT INTO t VALUES (" + strings.Join(vals, ", ") + ")"
	case "upd":
		var sets []string
		for i, c := range o.cols {
			sets = append(sets, colNames[i]+" = "+colLit(c))
		}
		return "UPDATE t SET " + strings.Join(sets, ", ") + " WHERE id = " + strconv.Itoa(o.id)
	case "del":
		return "DELETE FROM t WHERE id = " + strconv.Itoa(o.id)
	}
	return "UPDATE t SET id = " + strconv.Itoa(o.n) + " WHERE id = " + strconv.Itoa(o.id)
}

func sortedRows(res *eng.Res, f func(row []string) string) string {
	if c := res.Class(); c != "ok" {
		return c
	}
	items := make([]string, len(res.Rows))
	for i, r := range res.Rows {
		items[i] = f(r)
	}
	sort.Strings(items)
	return plist(items)
}

func histCase(out *hx.Out, ci, keyed bool, ncols int, ops []op, queries []string) {
	// a fresh engine per history: DROP TABLE leaves the pseudo-index tables of the dropped table behind
	e := eng.New("d")
	ctx := e.Ctx()
	coll := "utf8mb4_0900_bin"
	if ci {
		coll = "utf8mb4_0900_ai_ci"
	}
	idDef := "id INT"
	if keyed {
		idDef = "id INT PRIMARY KEY"
	}
	cols := []string{idDef, "a TEXT COLLATE " + coll}
	ftCols := "a"
	if ncols == 2 {
		cols = append(cols, "b VARCHAR(300) COLLATE "+coll)
		ftCols = "a, b"
	}
	e.MustExec(ctx, "CREATE TABLE t ("+strings.Join(cols, ", ")+", FULLTEXT KEY ft ("+ftCols+"))")
	stmtClasses := map[string]int{}
	for _, o := range ops {
		r := e.Query(ctx, o.sql())
		stmtClasses[r.Class()]++
	}
	var obs string
	p := hx.Safe(func() {
		var mw, me []string
		for _, q := range queries {
			r1 := e.Query(ctx, "SELECT id FROM t WHERE MATCH("+ftCols+") AGAINST ("+sqlStr(q)+")")
			r2 := e.Query(ctx, "SELECT id FROM (SELECT id, MATCH("+ftCols+") AGAINST ("+sqlStr(q)+") AS rel FROM t) x WHERE rel > 0")
			mw = append(mw, sortedRows(r1, func(r []string) string { return r[0] }))
			me = append(me, sortedRows(r2, func(r []string) string { return r[0] }))
		}
		last := func(r []string) string { return r[len(r)-1] }
		dc := sortedRows(e.Query(ctx, "SELECT * FROM t_ft_0_FTS_DOC_COUNT"), func(r []string) string {
			if keyed {
				return "(" + hx.HexS(r[0]) + " " + r[1] + " " + last(r) + ")"
			}
			return "(" + hx.HexS(r[0]) + " " + last(r) + ")"
		})
		gc := sortedRows(e.Query(ctx, "SELECT * FROM t_ft_0_FTS_GLOBAL_COUNT"), func(r []string) string {
			w := r[0]
			if ci {
				w = lowerASCII(w)
			}
			return "(" + hx.HexS(w) + " " + r[1] + ")"
		})
		rc := sortedRows(e.Query(ctx, "SELECT * FROM t_ft_0_FTS_ROW_COUNT"), func(r []string) string {
			return "(" + r[1] + " " + r[2] + ")"
		})
		pos := sortedRows(e.Query(ctx, "SELECT * FROM t_ft_0_FTS_POSITION"), func(r []string) string {
			if keyed {
				return "(" + hx.HexS(r[0]) + " " + r[1] + " " + last(r) + ")"
			}
			return "(" + hx.HexS(r[0]) + " " + last(r) + ")"
		})
		// table contents (NULL is rendered as the text NULL by the client protocol; the vocabulary has no such word)
		tb := sortedRows(e.Query(ctx, "SELECT id, "+ftCols+" FROM t"), func(r []string) string {
			parts := []string{r[0]}
			for _, c := range r[1:] {
				if c == "NULL" {
					parts = append(parts, "null")
				} else {
					parts = append(parts, hx.HexS(c))
				}
			}
			return "(" + strings.Join(parts, " ") + ")"
		})
		obs = "t=" + tb + " mw=" + plist(mw) + " me=" + plist(me) + " dc=" + dc + " gc=" + gc + " rc=" + rc + " pos=" + pos
	})
	if p != "" {
		obs = "crash:" + p
	}
	b := func(x bool) string {
		if x {
			return "1"
		}
		return "0"
	}
	opS := []string{"ops"}
	for _, o := range ops {
		opS = append(opS, o.sexp())
	}
	qS := []string{"queries"}
	for _, q := range queries {
		qS = append(qS, docSexp(q))
	}
	// non-trivial: at least two statements and some MATCH query returned a row
	nontriv := false
	if i, j := strings.Index(obs, " mw="), strings.Index(obs, " dc="); i > 0 && j > i {
		nontriv = strings.ContainsAny(obs[i:j], "0123456789") && len(ops) >= 2
	}
	out.Case(hx.List("hist", b(ci), b(keyed), hx.List(opS...), hx.List(qS...)), obs, nontriv)
	out.Stat("hist")
	if keyed {
		out.Stat("hist:keyed")
	} else {
		out.Stat("hist:keyless")
	}
	if ci {
		out.Stat("hist:ci")
	}
	for c, n := range stmtClasses {
		out.StatN("hist:stmt:"+c, n)
	}
	out.StatN("hist:ops", len(ops))
}

var vocab = []string{"apple", "Apple", "APPLE", "pie", "Pie", "it's", "don't", "ab", "x_y", "banana", "foo'", "''bar", "co-op", "b2b", "sun", "SUN", "a'b'c", "the"}
var seps = []string{" ", " ", " ", ", ", ".", "-", "  ", "'", "''", " '", "' "}

func genDoc(r *hx.Rand) string {
	n := r.Intn(6)
	var b strings.Builder
	if r.Chance(1, 6) {
		b.WriteString(hx.Pick(r, seps))
	}
	for i := 0; i < n; i++ {
		if r.Chance(1, 40) {
			b.WriteString(strings.Repeat("w", 80+r.Intn(10))) // around maxWordLength
		} else {
			b.WriteString(hx.Pick(r, vocab))
		}
		if i+1 < n || r.Chance(1, 4) {
			b.WriteString(hx.Pick(r, seps))
		}
	}
	return b.String()
}

func genCols(r *hx.Rand, ncols int) []*string {
	cols := make([]*string, ncols)
	for i := range cols {
		if r.Chance(1, 8) {
			continue
		}
		d := genDoc(r)
		cols[i] = &d
	}
	return cols
}

// foldVariant: the two column tuples differ in bytes but are equal under an ASCII case-insensitive collation.
func foldVariant(x, y []*string) bool {
	same := true
	for i := range x {
		if (x[i] == nil) != (y[i] == nil) {
			return false
		}
		if x[i] == nil {
			continue
		}
		if lowerASCII(*x[i]) != lowerASCII(*y[i]) {
			return false
		}
		if *x[i] != *y[i] {
			same = false
		}
	}
	return !same
}

// genHist generates a DML history. Envelope: on a case-insensitive table an UPDATE never sets the text
// columns to a case variant of a tuple used earlier in the history — the engine skips an UPDATE whose new
// row equals the old one under the column collation (`UPDATE u SET a='APPLE'` leaves 'apple', with or
// without a FULLTEXT index; a defect of UPDATE, not of this property: the index follows the table).
func genHist(r *hx.Rand, ci, keyed bool, ncols int) []op {
	n := r.Range(1, 9)
	var ops []op
	var used [][]*string
	genUpd := func() []*string {
		for {
			c := genCols(r, ncols)
			ok := true
			for _, u := range used {
				if ci && foldVariant(c, u) {
					ok = false
				}
			}
			if ok {
				return c
			}
		}
	}
	live := map[int]bool{}
	ids := func() []int {
		var l []int
		for k := range live {
			l = append(l, k)
		}
		sort.Ints(l)
		return l
	}
	for i := 0; i < n; i++ {
		l := ids()
		k := r.Intn(10)
		switch {
		case len(l) == 0 || k < 5:
			id := r.Range(1, 6)
			if keyed && live[id] && !r.Chance(1, 6) { // mostly fresh keys; sometimes a duplicate-key failure
				for id = 1; live[id]; id++ {
				}
			}
			o := op{kind: "ins", id: id, cols: genCols(r, ncols)}
			if !keyed && len(ops) > 0 && r.Chance(1, 4) { // exact duplicate of an earlier insert (same row hash)
				for _, prev := range ops {
					if prev.kind == "ins" {
						o = prev
						break
					}
				}
			}
			ops = append(ops, o)
			used = append(used, o.cols)
			live[o.id] = true
		case k < 7:
			o := op{kind: "upd", id: hx.Pick(r, l), cols: genUpd()}
			ops = append(ops, o)
			used = append(used, o.cols)
		case k < 9:
			id := hx.Pick(r, l)
			ops = append(ops, op{kind: "del", id: id})
			delete(live, id)
		default:
			id := hx.Pick(r, l)
			nw := r.Range(1, 8)
			ops = append(ops, op{kind: "rekey", id: id, n: nw})
			if !(keyed && live[nw] && nw != id) {
				delete(live, id)
				live[nw] = true
			}
		}
	}
	return ops
}

func allStrings(alpha []string, maxLen int) []string {
	out := []string{""}
	cur := []string{""}
	for l := 1; l <= maxLen; l++ {
		var next []string
		for _, s := range cur {
			for _, c := range alpha {
				next = append(next, s+c)
			}
		}
		out = append(out, next...)
		cur = next
	}
	return out
}

var tokAlpha = []string{"a", "B", "z", "7", "_", "'", "'", " ", " ", ",", ".", "-", "\n", "é", "ß", "中", "𝒳", "٣", "—", "€", "́", "😀", "\xff", "\xc3", "\xe4\xb8", "²", "ǅ", "Ⅷ"}

func run(a hx.RunArgs) error {
	out := hx.NewOut(a.OutDir)
	defer out.Close()
	out.Rule = "tok: every string over {a, ', space, é} up to a length bound (exhaustive) and random documents over letters of 1-4 bytes, digits of other scripts, " +
		"underscore, apostrophes, punctuation, combining marks, emoji and invalid UTF-8, under utf8mb4_0900_bin and _ai_ci; non-trivial = at least one word. " +
		"hist: FULLTEXT tables (with / without primary key, 1-2 indexed columns, bin / ai_ci) under 1-9 INSERT/UPDATE/DELETE/key-changing statements " +
		"(duplicate rows, duplicate-key failures, NULL columns, words around the 84-byte limit), then 3 MATCH queries (two SQL forms) and the four pseudo-index tables; " +
		"non-trivial = at least 2 statements and some query matched a row"
	// hx.NewRand(s+1) is hx.NewRand(s) shifted by one draw: fork, and give every stream its own generator
	root := hx.NewRand(a.Seed).Fork()
	rndTok, rnd := root.Fork(), root.Fork()
	e := eng.New("d")
	ctx := e.Ctx()

	// corpus first
	for _, d := range []string{"", "ab", "abc", "Hello world, it's me", "it''s", "'ab'", "a'b'c", "''bar foo'", "don't", "x_y", "ab cd  efg", "aé", "é", "中中", "a\xffbcd", "WORLD peace don't", "  lead", "trail'", "'", "a''b cd'e"} {
		tokCase(out, ctx, false, d)
		tokCase(out, ctx, true, d)
	}
	s := func(x string) *string { return &x }
	histCase(out, false, true, 2, []op{
		{kind: "ins", id: 1, cols: []*string{s("Hello world, it's me"), s("foo bar")}},
		{kind: "ins", id: 2, cols: []*string{s("WORLD peace don't"), s("x")}},
		{kind: "ins", id: 3, cols: []*string{nil, s("hello")}},
		{kind: "upd", id: 1, cols: []*string{s("changed text"), s("foo bar")}},
	}, []string{"hello", "world changed", "it's"})
	histCase(out, true, false, 1, []op{
		{kind: "ins", id: 1, cols: []*string{s("Hello hello world")}},
		{kind: "ins", id: 2, cols: []*string{s("Hello hello world")}},
		{kind: "ins", id: 1, cols: []*string{s("Hello hello world")}},
		{kind: "ins", id: 3, cols: []*string{s("bye world")}},
		{kind: "del", id: 1},
	}, []string{"HELLO", "world", "bye"})

	maxLen, nTok, nHist := 6, 3000, 250
	if a.Thorough {
		maxLen, nTok, nHist = 9, 400000, 12000
	}
	for _, d := range allStrings([]string{"a", "'", " ", "é"}, maxLen) {
		tokCase(out, ctx, false, d)
	}
	for i := 0; i < nTok; i++ {
		n := rndTok.Intn(16)
		var b strings.Builder
		for k := 0; k < n; k++ {
			b.WriteString(hx.Pick(rndTok, tokAlpha))
		}
		tokCase(out, ctx, rndTok.Chance(1, 3), b.String())
	}
	for i := 0; i < nHist; i++ {
		keyed := rnd.Chance(1, 2)
		ncols := rnd.Range(1, 2)
		ci := rnd.Chance(1, 2)
		ops := genHist(rnd, ci, keyed, ncols)
		qs := []string{hx.Pick(rnd, vocab), genDoc(rnd), hx.Pick(rnd, vocab) + " " + hx.Pick(rnd, vocab)}
		histCase(out, ci, keyed, ncols, ops, qs)
	}
	return nil
}
