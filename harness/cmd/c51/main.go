// C51 — Full-text search matches the indexed words and stays in sync.
//
// extract: minimum word length sites, parser states, the isCharacter / isApostrophe expressions
// (sql/fulltext/default_parser.go), maxWordLength (schema.go), the maxWordLength guards of the editor.
// The shape of GetKeyColumns (what its loops range over) and of the positional parent-index probe of
// fulltextFilterTableRowIter; a run table: fulltext.GetKeyColumns + the selected parent index on a
// freshly created table of every key layout.
// run: (tok) fulltext.NewDefaultParser on generated documents vs the Lean tokenizer model and its
// Spec; (hist) FULLTEXT tables in the real engine over 12 key layouts under DML histories: MATCH … AGAINST
// results (WHERE form and SELECT-expression form) and the contents of the four pseudo-index tables
// (key columns in stored order) vs the Lean Spec computed from the reference table contents; oracle:
// the WHERE form and the select-list form select the same set of rows.
package main

import (
	"fmt"
	"go/ast"
	"go/token"
	"sort"
	"strconv"
	"strings"
	"unicode"

	"github.com/dolthub/go-mysql-server/sql"
	"github.com/dolthub/go-mysql-server/sql/fulltext"
	"github.com/dolthub/go-mysql-server/verifharness/hx"
	"github.com/dolthub/go-mysql-server/verifharness/hx/eng"
)

func main() { hx.Main(extract, run) }

// ---------------------------------------------------------------------------------------------
// Facts

func extract(a hx.ExtractArgs) error {
	dp, err := hx.ParseSrc(a.Repo, "sql/fulltext/default_parser.go")
	if err != nil {
		return err
	}
	sc, err := hx.ParseSrc(a.Repo, "sql/fulltext/schema.go")
	if err != nil {
		return err
	}
	ed, err := hx.ParseSrc(a.Repo, "sql/fulltext/fulltext_editor.go")
	if err != nil {
		return err
	}
	ft, err := hx.ParseSrc(a.Repo, "sql/fulltext/fulltext.go")
	if err != nil {
		return err
	}
	fl, err := hx.ParseSrc(a.Repo, "sql/rowexec/fulltext_filter.go")
	if err != nil {
		return err
	}
	lf := hx.NewLeanFile("Gms.Generated.C51", dp.Path, sc.Path, ed.Path, ft.Path, fl.Path)

	np, err := dp.Func("", "NewDefaultParser")
	if err != nil {
		return err
	}
	// every `len(word.Word) <op> N`
	var minSites []uint64
	var minOps []string
	var isChar, isApos string
	var caseStates []string
	ast.Inspect(np.Body, func(n ast.Node) bool {
		switch x := n.(type) {
		case *ast.BinaryExpr:
			if dp.Text(x.X) == "len(word.Word)" {
				if l, ok := x.Y.(*ast.BasicLit); ok && l.Kind == token.INT {
					v, _ := strconv.ParseUint(l.Value, 10, 64)
					minSites = append(minSites, v)
					minOps = append(minOps, x.Op.String())
				} else {
					minSites = append(minSites, 999999)
					minOps = append(minOps, "?")
				}
			}
		case *ast.AssignStmt:
			if len(x.Lhs) == 1 && len(x.Rhs) == 1 {
				switch dp.Text(x.Lhs[0]) {
				case "isCharacter":
					isChar = dp.Text(x.Rhs[0])
				case "isApostrophe":
					isApos = dp.Text(x.Rhs[0])
				}
			}
		case *ast.SwitchStmt:
			if dp.Text(x.Tag) == "state" {
				for _, st := range x.Body.List {
					for _, c := range st.(*ast.CaseClause).List {
						caseStates = append(caseStates, dp.Text(c))
					}
				}
			}
		}
		return true
	})
	if len(minSites) == 0 || isChar == "" || isApos == "" {
		return fmt.Errorf("NewDefaultParser: expected shape not found (min sites %d, isCharacter %q, isApostrophe %q)", len(minSites), isChar, isApos)
	}
	lf.DefNatList("minWordLenSites", minSites)
	lf.DefStringList("minWordLenOps", minOps)
	lf.DefString("isCharacterExpr", isChar)
	lf.DefString("isApostropheExpr", isApos)
	lf.DefStringList("parserStateCases", caseStates)

	// newParserWord trims exactly the apostrophe on both sides
	npw, err := dp.Func("", "newParserWord")
	if err != nil {
		return err
	}
	var trims []string
	ast.Inspect(npw.Body, func(n ast.Node) bool {
		if ce, ok := n.(*ast.CallExpr); ok {
			f := dp.Text(ce.Fun)
			if strings.HasPrefix(f, "strings.Trim") && len(ce.Args) == 2 {
				trims = append(trims, f+" "+dp.Text(ce.Args[1]))
			}
		}
		return true
	})
	lf.DefStringList("wordTrims", trims)

	e, err := sc.PkgVarInit("maxWordLength")
	if err != nil {
		return err
	}
	l, ok := e.(*ast.BasicLit)
	if !ok || l.Kind != token.INT {
		return fmt.Errorf("maxWordLength is not an integer literal")
	}
	mv, _ := strconv.ParseUint(l.Value, 10, 64)
	lf.DefNat("maxWordLength", mv)

	// the editor's guards `len(word) > maxWordLength` per method
	for _, m := range []string{"Insert", "Delete"} {
		fd, err := ed.Func("TableEditor", m)
		if err != nil {
			return err
		}
		cnt := uint64(0)
		ast.Inspect(fd.Body, func(n ast.Node) bool {
			if be, ok := n.(*ast.BinaryExpr); ok && ed.Text(be) == "len(word) > maxWordLength" {
				cnt++
			}
			return true
		})
		lf.DefNat("maxLenGuards"+m, cnt)
	}

	// GetKeyColumns: what the loops that build `columns` / `positions` range over (primary key: the
	// declaration-order ordinals; unique key: the index expressions), the `copy` into positions, the
	// order of the KeyType results
	gk, err := ft.Func("", "GetKeyColumns")
	if err != nil {
		return err
	}
	var ranges, copies, ktypes, appends []string
	ast.Inspect(gk.Body, func(n ast.Node) bool {
		switch x := n.(type) {
		case *ast.RangeStmt:
			ranges = append(ranges, ft.Text(x.X))
		case *ast.CallExpr:
			switch ft.Text(x.Fun) {
			case "copy":
				copies = append(copies, ft.Text(x))
			case "append":
				if len(x.Args) == 2 && ft.Text(x.Args[0]) == "positions" {
					appends = append(appends, ft.Text(x.Args[1]))
				}
			}
		case *ast.KeyValueExpr:
			if ft.Text(x.Key) == "Type" {
				ktypes = append(ktypes, ft.Text(x.Value))
			}
		}
		return true
	})
	if len(ranges) == 0 || len(ktypes) == 0 {
		return fmt.Errorf("GetKeyColumns: expected shape not found (ranges %v, key types %v)", ranges, ktypes)
	}
	lf.DefStringList("keyColsRanges", ranges)
	lf.DefStringList("keyColsCopies", copies)
	lf.DefStringList("keyColsPositionAppends", appends)
	lf.DefStringList("keyColsTypes", ktypes)

	// fulltextFilterTableRowIter.Next: the key values of a DOC_COUNT row are used positionally as the
	// ranges of the parent index; PartitionRows: which parent index is selected
	nx, err := fl.Func("fulltextFilterTableRowIter", "Next")
	if err != nil {
		return err
	}
	var fRanges, fAssign []string
	ast.Inspect(nx.Body, func(n ast.Node) bool {
		switch x := n.(type) {
		case *ast.RangeStmt:
			fRanges = append(fRanges, fl.Text(x.X))
			for _, st := range x.Body.List {
				if as, ok := st.(*ast.AssignStmt); ok && len(as.Lhs) == 1 {
					fAssign = append(fAssign, fl.Text(as.Lhs[0]))
				}
			}
		}
		return true
	})
	pr, err := fl.Func("FulltextFilterTable", "PartitionRows")
	if err != nil {
		return err
	}
	var idTests []string
	ast.Inspect(pr.Body, func(n ast.Node) bool {
		if be, ok := n.(*ast.BinaryExpr); ok && be.Op == token.EQL && fl.Text(be.X) == "index.ID()" {
			idTests = append(idTests, fl.Text(be.Y))
		}
		return true
	})
	if len(fRanges) == 0 || len(idTests) == 0 {
		return fmt.Errorf("fulltext_filter.go: expected shape not found (ranges %v, index tests %v)", fRanges, idTests)
	}
	lf.DefStringList("filterKeyRanges", fRanges)
	lf.DefStringList("filterRangeTargets", fAssign)
	lf.DefStringList("filterParentIndexIDs", idTests)

	// GetKeyColumns and the parent index the filter selects, observed on a freshly created table of every
	// key layout of the envelope (both column placements)
	runs, err := keyColumnRuns()
	if err != nil {
		return err
	}
	lf.Raw("/-- ((pk, uks, nn), (key type 0 primary / 1 unique / 2 none, number of the unique key, KeyColumns.Positions,\n    columns of the selected parent index)) — columns as ordinals 0 = id, 1 = k2 -/\n")
	lf.Raw("def keyColsRuns : List ((List Nat × List (List Nat) × List Nat) × (Nat × Nat × List Nat × List Nat)) := [\n  " + strings.Join(runs, ",\n  ") + "]\n")
	return lf.Write(a.Out)
}

func leanNats(l []int) string {
	parts := make([]string, len(l))
	for i, x := range l {
		parts[i] = strconv.Itoa(x)
	}
	return "[" + strings.Join(parts, ", ") + "]"
}

// keyColumnRuns creates a table of every layout in a fresh engine and records what
// fulltext.GetKeyColumns resolves on it and the columns of the parent index that
// FulltextFilterTable.PartitionRows would select (ID "PRIMARY" / KeyColumns.Name).
func keyColumnRuns() ([]string, error) {
	var res []string
	for _, lay := range layouts {
		for _, tail := range []bool{false, true} {
			lay.tail = tail
			e := eng.New("d")
			ctx := e.Ctx()
			ddl := lay.createSQL("t", false, 1)
			if r := e.Query(ctx, ddl); r.Class() != "ok" {
				return nil, fmt.Errorf("%s: %s (%v)", ddl, r.Class(), r.Err)
			}
			tbl, ok, err := e.DBs[0].GetTableInsensitive(ctx, "t")
			if err != nil || !ok {
				return nil, fmt.Errorf("%s: table not found (%v)", ddl, err)
			}
			kc, _, err := fulltext.GetKeyColumns(ctx, tbl)
			if err != nil {
				return nil, fmt.Errorf("%s: GetKeyColumns: %v", ddl, err)
			}
			ordOf := func(name string) (int, error) {
				if i := strings.LastIndex(name, "."); i >= 0 {
					name = name[i+1:]
				}
				for o, n := range intCols {
					if strings.EqualFold(n, name) {
						return o, nil
					}
				}
				return 0, fmt.Errorf("%s: key column %q is not an integer column of the layout", ddl, name)
			}
			sch := tbl.Schema(ctx)
			var positions []int
			for _, p := range kc.Positions {
				if p < 0 || p >= len(sch) {
					return nil, fmt.Errorf("%s: position %d outside the schema", ddl, p)
				}
				o, err := ordOf(sch[p].Name)
				if err != nil {
					return nil, err
				}
				positions = append(positions, o)
			}
			code, ukNo := 2, 0
			var ixCols []int
			if kc.Type != fulltext.KeyType_None {
				want := "PRIMARY"
				code = 0
				if kc.Type == fulltext.KeyType_Unique {
					code, want = 1, kc.Name
					if n, err := strconv.Atoi(strings.TrimPrefix(kc.Name, "u")); err == nil {
						ukNo = n
					} else {
						return nil, fmt.Errorf("%s: unexpected unique key name %q", ddl, kc.Name)
					}
				}
				ia, ok := tbl.(sql.IndexAddressable)
				if !ok {
					return nil, fmt.Errorf("%s: table is not index addressable", ddl)
				}
				idxs, err := ia.GetIndexes(ctx)
				if err != nil {
					return nil, err
				}
				found := false
				for _, ix := range idxs {
					if ix.ID() == want {
						found = true
						for _, ex := range ix.Expressions() {
							o, err := ordOf(ex)
							if err != nil {
								return nil, err
							}
							ixCols = append(ixCols, o)
						}
						break
					}
				}
				if !found {
					return nil, fmt.Errorf("%s: parent index %q not found", ddl, want)
				}
			}
			var uks []string
			for _, u := range lay.uks {
				uks = append(uks, leanNats(u))
			}
			res = append(res, fmt.Sprintf("((%s, [%s], %s), (%d, %d, %s, %s))", leanNats(lay.pk), strings.Join(uks, ", "), leanNats(lay.nn),
				code, ukNo, leanNats(positions), leanNats(ixCols)))
		}
	}
	return res, nil
}

// ---------------------------------------------------------------------------------------------
// Documents

// isCharacter is the predicate of NewDefaultParser (its source text is a regenerated fact).
func isCharacter(r rune) bool {
	return ((unicode.IsLetter(r) || unicode.IsNumber(r) || unicode.IsDigit(r)) && !unicode.IsPunct(r)) || r == '_'
}

// docSexp renders a document the way Go's range loop sees it.
func docSexp(doc string) string {
	var parts []string
	parts = append(parts, "d")
	prev := -1
	var prevR rune
	flush := func(end int) {
		if prev >= 0 {
			ch := "0"
			if isCharacter(prevR) {
				ch = "1"
			}
			parts = append(parts, fmt.Sprintf("%d.%d.%s", prevR, end-prev, ch))
		}
	}
	for i, r := range doc {
		flush(i)
		prev, prevR = i, r
	}
	flush(len(doc))
	return "(" + strings.Join(parts, " ") + ")"
}

func sqlStr(s string) string {
	var b strings.Builder
	b.WriteByte('\'')
	for i := 0; i < len(s); i++ {
		switch c := s[i]; c {
		case '\'':
			b.WriteString("''")
		case '\\':
			b.WriteString("\\\\")
		default:
			b.WriteByte(c)
		}
	}
	b.WriteByte('\'')
	return b.String()
}

func lowerASCII(s string) string {
	b := []byte(s)
	for i, c := range b {
		if c >= 'A' && c <= 'Z' {
			b[i] = c + 32
		}
	}
	return string(b)
}

func plist(items []string) string { return "(" + strings.Join(items, " ") + ")" }

// ---------------------------------------------------------------------------------------------
// tok: the parser alone

func tokCase(out *hx.Out, ctx *sql.Context, ci bool, doc string) {
	coll := sql.Collation_utf8mb4_0900_bin
	cis := "0"
	if ci {
		coll = sql.Collation_utf8mb4_0900_ai_ci
		cis = "1"
	}
	var obs string
	nwords := 0
	p := hx.Safe(func() {
		parser, err := fulltext.NewDefaultParser(ctx, coll, doc)
		if err != nil {
			obs = "err"
			return
		}
		var ws, ps, us []string
		for {
			w, pos, end, err := parser.Next(ctx)
			if err != nil || end {
				break
			}
			ws = append(ws, hx.HexS(w))
			ps = append(ps, strconv.FormatUint(pos, 10))
		}
		nwords = len(ws)
		for {
			w, end, err := parser.NextUnique(ctx)
			if err != nil || end {
				break
			}
			c, _ := parser.DocumentCount(ctx, w)
			us = append(us, "("+hx.HexS(w)+" "+strconv.FormatUint(c, 10)+")")
		}
		obs = "w=" + plist(ws) + " p=" + plist(ps) + " u=" + plist(us) + " n=" + strconv.FormatUint(parser.UniqueWordCount(ctx), 10)
	})
	if p != "" {
		obs = "crash:" + p
	}
	out.Case(hx.List("tok", cis, docSexp(doc)), obs, nwords >= 1)
	out.Stat("tok")
	if nwords >= 2 {
		out.Stat("tok:multiword")
	}
}

// ---------------------------------------------------------------------------------------------
// hist: engine histories

// layout is the key layout of the parent table over the integer columns id (ordinal 0) and k2
// (ordinal 1); see `Layout` in lean/Gms/Model/Fulltext.lean.
type layout struct {
	name string
	k2   bool    // the table has the column k2
	pk   []int   // PRIMARY KEY column ordinals in declaration order
	uks  [][]int // UNIQUE KEYs u0, u1, … (GetIndexes lists them by name) with their columns in declaration order
	nn   []int   // ordinals declared NOT NULL
	tail bool    // the integer columns are declared after the text columns
}

var intCols = []string{"id", "k2"}

// layouts: every kind of row key GetKeyColumns can resolve — primary key (single, composite in
// column order, composite declared OUT of column order, on the second column only), usable unique
// key (in / out of column order, the first of two usable ones), unique key with a nullable column
// (falls back to the row hash although the table enforces the key), no key at all.
// Outside the envelope: a unique key with a nullable column listed BEFORE a usable unique key
// (`UNIQUE KEY u0 (id, k2), UNIQUE KEY u1 (k2)`, id nullable): GetKeyColumns does not reset `columns` /
// `positions` when it skips u0, so the usable key inherits u0's columns (C0, C1, C0) and CREATE TABLE
// fails with "Full-Text table `t_ft_0_FTS_POSITION` column `C0` has an incorrect definition" — a genuine
// defect of the unchanged tree, but of index creation (no FULLTEXT index exists afterwards), not of
// matching / staying in sync.
var layouts = []layout{
	{name: "none1"},
	{name: "pk1", pk: []int{0}},
	{name: "pk_ab", k2: true, pk: []int{0, 1}},
	{name: "pk_ba", k2: true, pk: []int{1, 0}},
	{name: "pk_b", k2: true, pk: []int{1}},
	{name: "uk1", uks: [][]int{{0}}, nn: []int{0}},
	{name: "uk_ab", k2: true, uks: [][]int{{0, 1}}, nn: []int{0, 1}},
	{name: "uk_ba", k2: true, uks: [][]int{{1, 0}}, nn: []int{0, 1}},
	{name: "uk_null", k2: true, uks: [][]int{{1, 0}}, nn: []int{0}},
	{name: "uk_first", k2: true, uks: [][]int{{1}, {0, 1}}, nn: []int{0, 1}},
	{name: "pk_ba_uk", k2: true, pk: []int{1, 0}, uks: [][]int{{0}}, nn: []int{0}},
	{name: "none2", k2: true},
}

func layoutByName(n string) layout {
	for _, l := range layouts {
		if l.name == n {
			return l
		}
	}
	panic("no layout " + n)
}

func has(l []int, x int) bool {
	for _, y := range l {
		if y == x {
			return true
		}
	}
	return false
}

// keyPositions mirrors GetKeyColumns on the layout (the Lean model `getKeyColumns`; the real function
// is dumped per layout by `extract` and compared with the model by `facts_key_columns`): nil = row hash.
func (l layout) keyPositions() []int {
	if len(l.pk) > 0 {
		return l.pk
	}
	for _, u := range l.uks {
		ok := true
		for _, c := range u {
			ok = ok && has(l.nn, c)
		}
		if ok {
			return u
		}
	}
	return nil
}

func (l layout) keyed() bool { return l.keyPositions() != nil }

func (l layout) constraints() [][]int {
	var cs [][]int
	if len(l.pk) > 0 {
		cs = append(cs, l.pk)
	}
	return append(cs, l.uks...)
}

func ordList(tag string, l []int) string {
	parts := []string{}
	if tag != "" {
		parts = append(parts, tag)
	}
	for _, x := range l {
		parts = append(parts, strconv.Itoa(x))
	}
	return hx.List(parts...)
}

func (l layout) sexp() string {
	k2 := "0"
	if l.k2 {
		k2 = "1"
	}
	uks := []string{"uks"}
	for _, u := range l.uks {
		uks = append(uks, ordList("", u))
	}
	return hx.List("lay", k2, ordList("pk", l.pk), hx.List(uks...), ordList("nn", l.nn))
}

func colNamesOf(ords []int) string {
	var n []string
	for _, o := range ords {
		n = append(n, intCols[o])
	}
	return strings.Join(n, ", ")
}

// createSQL renders CREATE TABLE for the layout (table name tn) with ncols indexed text columns.
func (l layout) createSQL(tn string, ci bool, ncols int) string {
	coll := "utf8mb4_0900_bin"
	if ci {
		coll = "utf8mb4_0900_ai_ci"
	}
	var ints []string
	for o, n := range intCols {
		if o == 1 && !l.k2 {
			continue
		}
		d := n + " INT"
		if has(l.nn, o) {
			d += " NOT NULL"
		}
		ints = append(ints, d)
	}
	texts := []string{"a TEXT COLLATE " + coll}
	if ncols == 2 {
		texts = append(texts, "b VARCHAR(300) COLLATE "+coll)
	}
	var defs []string
	if l.tail {
		defs = append(append(defs, texts...), ints...)
	} else {
		defs = append(append(defs, ints...), texts...)
	}
	if len(l.pk) > 0 {
		defs = append(defs, "PRIMARY KEY ("+colNamesOf(l.pk)+")")
	}
	for i, u := range l.uks {
		defs = append(defs, fmt.Sprintf("UNIQUE KEY u%d (%s)", i, colNamesOf(u)))
	}
	defs = append(defs, "FULLTEXT KEY ft ("+ftColsOf(ncols)+")")
	return "CREATE TABLE " + tn + " (" + strings.Join(defs, ", ") + ")"
}

func ftColsOf(ncols int) string {
	if ncols == 2 {
		return "a, b"
	}
	return "a"
}

func (l layout) rowCols() string {
	if l.k2 {
		return "id, k2"
	}
	return "id"
}

type op struct {
	kind string // ins del upd rekey rekey2
	id   int
	k2   int
	n    int
	cols []*string
}

func colSexp(c *string) string {
	if c == nil {
		return "null"
	}
	return docSexp(*c)
}

func (o op) sexp() string {
	switch o.kind {
	case "ins":
		parts := []string{o.kind, strconv.Itoa(o.id), strconv.Itoa(o.k2)}
		for _, c := range o.cols {
			parts = append(parts, colSexp(c))
		}
		return hx.List(parts...)
	case "upd":
		parts := []string{o.kind, strconv.Itoa(o.id)}
		for _, c := range o.cols {
			parts = append(parts, colSexp(c))
		}
		return hx.List(parts...)
	case "del":
		return hx.List("del", strconv.Itoa(o.id))
	}
	return hx.List(o.kind, strconv.Itoa(o.id), strconv.Itoa(o.n))
}

func colLit(c *string) string {
	if c == nil {
		return "NULL"
	}
	return sqlStr(*c)
}

var colNames = []string{"a", "b"}

func (o op) sql(l layout) string {
	switch o.kind {
	case "ins":
		vals := []string{strconv.Itoa(o.id)}
		if l.k2 {
			vals = append(vals, strconv.Itoa(o.k2))
		}
		for _, c := range o.cols {
			vals = append(vals, colLit(c))
		}
		return "INSERT INTO t (" + l.rowCols() + ", " + ftColsOf(len(o.cols)) + ") VALUES (" + strings.Join(vals, ", ") + ")"
	case "upd":
		var sets []string
		for i, c := range o.cols {
			sets = append(sets, colNames[i]+" = "+colLit(c))
		}
		return "UPDATE t SET " + strings.Join(sets, ", ") + " WHERE id = " + strconv.Itoa(o.id)
	case "del":
		return "DELETE FROM t WHERE id = " + strconv.Itoa(o.id)
	case "rekey2":
		return "UPDATE t SET k2 = " + strconv.Itoa(o.n) + " WHERE id = " + strconv.Itoa(o.id)
	}
	return "UPDATE t SET id = " + strconv.Itoa(o.n) + " WHERE id = " + strconv.Itoa(o.id)
}

func sortedRows(res *eng.Res, f func(row []string) string) string {
	if c := res.Class(); c != "ok" {
		return c
	}
	items := make([]string, len(res.Rows))
	for i, r := range res.Rows {
		items[i] = f(r)
	}
	sort.Strings(items)
	return plist(items)
}

// realKeyOrdinals: the parent columns (as ordinals 0 = id, 1 = k2) that the key columns C0, C1, … of the
// pseudo-index tables hold, according to the real fulltext.GetKeyColumns on the created table; nil when
// it cannot be determined (the dump is then printed as stored).
func realKeyOrdinals(ctx *sql.Context, e *eng.Eng, lay layout) []int {
	var res []int
	hx.Safe(func() {
		tbl, ok, err := e.DBs[0].GetTableInsensitive(ctx, "t")
		if err != nil || !ok {
			return
		}
		kc, _, err := fulltext.GetKeyColumns(ctx, tbl)
		if err != nil {
			return
		}
		sch := tbl.Schema(ctx)
		var ords []int
		for _, p := range kc.Positions {
			if p < 0 || p >= len(sch) {
				return
			}
			o := -1
			for i, n := range intCols {
				if strings.EqualFold(n, sch[p].Name) {
					o = i
				}
			}
			if o < 0 {
				return
			}
			ords = append(ords, o)
		}
		res = ords
	})
	return res
}

func histCase(out *hx.Out, ci bool, lay layout, ncols int, ops []op, queries []string) {
	// a fresh engine per history: DROP TABLE leaves the pseudo-index tables of the dropped table behind
	e := eng.New("d")
	ctx := e.Ctx()
	keyed := lay.keyed()
	ftCols := ftColsOf(ncols)
	e.MustExec(ctx, lay.createSQL("t", ci, ncols))
	stmtClasses := map[string]int{}
	for _, o := range ops {
		r := e.Query(ctx, o.sql(lay))
		stmtClasses[r.Class()]++
	}
	var obs string
	var setDiff string // model-free oracle: the WHERE form selects a different SET of rows than the select-list form
	// a row of the parent table as the observation names it: id | id:k2
	rowS := func(r []string) string {
		if lay.k2 {
			return r[0] + ":" + r[1]
		}
		return r[0]
	}
	nInt := 1
	if lay.k2 {
		nInt = 2
	}
	p := hx.Safe(func() {
		var mw, me []string
		for _, q := range queries {
			r1 := e.Query(ctx, "SELECT "+lay.rowCols()+" FROM t WHERE MATCH("+ftCols+") AGAINST ("+sqlStr(q)+")")
			r2 := e.Query(ctx, "SELECT "+lay.rowCols()+" FROM (SELECT "+lay.rowCols()+", MATCH("+ftCols+") AGAINST ("+sqlStr(q)+") AS rel FROM t) x WHERE rel > 0")
			mw = append(mw, sortedRows(r1, rowS))
			me = append(me, sortedRows(r2, rowS))
			if r1.Class() == "ok" && r2.Class() == "ok" && setDiff == "" {
				inW, inE := map[string]bool{}, map[string]bool{}
				for _, r := range r1.Rows {
					inW[rowS(r)] = true
				}
				for _, r := range r2.Rows {
					inE[rowS(r)] = true
				}
				for k := range inE {
					if !inW[k] {
						setDiff = "AGAINST(" + sqlStr(q) + "): row " + k + " has MATCH > 0 in the select list but is not returned by WHERE MATCH"
					}
				}
				for k := range inW {
					if !inE[k] && setDiff == "" {
						setDiff = "AGAINST(" + sqlStr(q) + "): row " + k + " is returned by WHERE MATCH but has MATCH = 0 in the select list"
					}
				}
			}
		}
		last := func(r []string) string { return r[len(r)-1] }
		// (word, C0, C1, …, value): which parent column each C_i holds is what the real GetKeyColumns says
		// (KeyColumns.Positions); the observation lists the key values in *schema* order (id before k2), so
		// it states "word w occurs n times in the row with this key" independently of the storage order —
		// the storage order itself is pinned by the run table of `extract` (facts_key_columns) and by what
		// the WHERE form finds through it
		stored := realKeyOrdinals(ctx, e, lay)
		keyedRow := func(r []string) string {
			if keyed {
				kv := append([]string{}, r[1:len(r)-1]...)
				if len(stored) == len(kv) {
					type pv struct {
						o int
						v string
					}
					pvs := make([]pv, len(kv))
					for i := range kv {
						pvs[i] = pv{stored[i], kv[i]}
					}
					sort.SliceStable(pvs, func(i, j int) bool { return pvs[i].o < pvs[j].o })
					for i := range kv {
						kv[i] = pvs[i].v
					}
				}
				return "(" + hx.HexS(r[0]) + " " + strings.Join(kv, " ") + " " + last(r) + ")"
			}
			return "(" + hx.HexS(r[0]) + " " + last(r) + ")"
		}
		dc := sortedRows(e.Query(ctx, "SELECT * FROM t_ft_0_FTS_DOC_COUNT"), keyedRow)
		gc := sortedRows(e.Query(ctx, "SELECT * FROM t_ft_0_FTS_GLOBAL_COUNT"), func(r []string) string {
			w := r[0]
			if ci {
				w = lowerASCII(w)
			}
			return "(" + hx.HexS(w) + " " + r[1] + ")"
		})
		rc := sortedRows(e.Query(ctx, "SELECT * FROM t_ft_0_FTS_ROW_COUNT"), func(r []string) string {
			return "(" + r[1] + " " + r[2] + ")"
		})
		pos := sortedRows(e.Query(ctx, "SELECT * FROM t_ft_0_FTS_POSITION"), keyedRow)
		// table contents (NULL is rendered as the text NULL by the client protocol; the vocabulary has no such word)
		tb := sortedRows(e.Query(ctx, "SELECT "+lay.rowCols()+", "+ftCols+" FROM t"), func(r []string) string {
			parts := []string{rowS(r)}
			for _, c := range r[nInt:] {
				if c == "NULL" {
					parts = append(parts, "null")
				} else {
					parts = append(parts, hx.HexS(c))
				}
			}
			return "(" + strings.Join(parts, " ") + ")"
		})
		obs = "t=" + tb + " mw=" + plist(mw) + " me=" + plist(me) + " dc=" + dc + " gc=" + gc + " rc=" + rc + " pos=" + pos
	})
	if p != "" {
		obs = "crash:" + p
	}
	b := func(x bool) string {
		if x {
			return "1"
		}
		return "0"
	}
	opS := []string{"ops"}
	for _, o := range ops {
		opS = append(opS, o.sexp())
	}
	qS := []string{"queries"}
	for _, q := range queries {
		qS = append(qS, docSexp(q))
	}
	// non-trivial: at least two statements and some MATCH query returned a row
	nontriv := false
	if i, j := strings.Index(obs, " mw="), strings.Index(obs, " dc="); i > 0 && j > i {
		nontriv = strings.ContainsAny(obs[i:j], "0123456789") && len(ops) >= 2
	}
	id := out.Case(hx.List("hist", b(ci), lay.sexp(), b(lay.tail), hx.List(opS...), hx.List(qS...)), obs, nontriv)
	if setDiff != "" {
		// its own region name (never a known finding): the known repeat defect changes multiplicities only
		out.OracleFail(id, "where_form_row_set_differs", lay.name+" / "+lay.createSQL("t", ci, ncols)+": "+setDiff)
	}
	out.Stat("hist")
	if keyed {
		out.Stat("hist:keyed")
	} else {
		out.Stat("hist:keyless")
	}
	out.Stat("hist:lay:" + lay.name)
	if lay.tail {
		out.Stat("hist:tail")
	}
	if nontriv && len(lay.keyPositions()) >= 2 && lay.keyPositions()[0] > lay.keyPositions()[1] {
		out.Stat("hist:key-out-of-column-order:matched")
	}
	if ci {
		out.Stat("hist:ci")
	}
	for c, n := range stmtClasses {
		out.StatN("hist:stmt:"+c, n)
	}
	out.StatN("hist:ops", len(ops))
}

var vocab = []string{"apple", "Apple", "APPLE", "pie", "Pie", "it's", "don't", "ab", "x_y", "banana", "foo'", "''bar", "co-op", "b2b", "sun", "SUN", "a'b'c", "the"}
var seps = []string{" ", " ", " ", ", ", ".", "-", "  ", "'", "''", " '", "' "}

func genDoc(r *hx.Rand) string {
	n := r.Intn(6)
	var b strings.Builder
	if r.Chance(1, 6) {
		b.WriteString(hx.Pick(r, seps))
	}
	for i := 0; i < n; i++ {
		if r.Chance(1, 40) {
			b.WriteString(strings.Repeat("w", 80+r.Intn(10))) // around maxWordLength
		} else {
			b.WriteString(hx.Pick(r, vocab))
		}
		if i+1 < n || r.Chance(1, 4) {
			b.WriteString(hx.Pick(r, seps))
		}
	}
	return b.String()
}

func genCols(r *hx.Rand, ncols int) []*string {
	cols := make([]*string, ncols)
	for i := range cols {
		if r.Chance(1, 8) {
			continue
		}
		d := genDoc(r)
		cols[i] = &d
	}
	return cols
}

// foldVariant: the two column tuples differ in bytes but are equal under an ASCII case-insensitive collation.
func foldVariant(x, y []*string) bool {
	same := true
	for i := range x {
		if (x[i] == nil) != (y[i] == nil) {
			return false
		}
		if x[i] == nil {
			continue
		}
		if lowerASCII(*x[i]) != lowerASCII(*y[i]) {
			return false
		}
		if *x[i] != *y[i] {
			same = false
		}
	}
	return !same
}

type rkey struct{ id, k2 int }

// genHist generates a DML history. Envelope: on a case-insensitive table an UPDATE never sets the text
// columns to a case variant of a tuple used earlier in the history — the engine skips an UPDATE whose new
// row equals the old one under the column collation (`UPDATE u SET a='APPLE'` leaves 'apple', with or
// without a FULLTEXT index; a defect of UPDATE, not of this property: the index follows the table).
// Key values come from 1..6 so that composite keys share components, (x, y) / (y, x) pairs and x = y
// rows all occur; the generator tracks the live keys approximately (the model decides what a statement does).
func genHist(r *hx.Rand, ci bool, lay layout, ncols int) []op {
	n := r.Range(1, 9)
	var ops []op
	var used [][]*string
	genUpd := func() []*string {
		for {
			c := genCols(r, ncols)
			ok := true
			for _, u := range used {
				if ci && foldVariant(c, u) {
					ok = false
				}
			}
			if ok {
				return c
			}
		}
	}
	cons := lay.constraints()
	val := func(k rkey, o int) int {
		if o == 0 {
			return k.id
		}
		return k.k2
	}
	conflict := func(a, b rkey) bool {
		for _, cs := range cons {
			eq := true
			for _, o := range cs {
				eq = eq && val(a, o) == val(b, o)
			}
			if eq {
				return true
			}
		}
		return false
	}
	var live []rkey
	clash := func(k rkey, skipID int) bool {
		for _, l := range live {
			if l.id != skipID && conflict(k, l) {
				return true
			}
		}
		return false
	}
	ids := func() []int {
		seen := map[int]bool{}
		var l []int
		for _, k := range live {
			if !seen[k.id] {
				seen[k.id] = true
				l = append(l, k.id)
			}
		}
		sort.Ints(l)
		return l
	}
	nKinds := 10
	if lay.k2 {
		nKinds = 11
	}
	for i := 0; i < n; i++ {
		l := ids()
		k := r.Intn(nKinds)
		switch {
		case len(l) == 0 || k < 5:
			nk := rkey{id: r.Range(1, 6)}
			if lay.k2 {
				nk.k2 = r.Range(1, 6)
			}
			if len(cons) > 0 && !r.Chance(1, 6) { // mostly fresh keys; sometimes a duplicate-key failure
				for try := 0; try < 30 && clash(nk, -1); try++ {
					nk.id = r.Range(1, 8)
					if lay.k2 {
						nk.k2 = r.Range(1, 8)
					}
				}
			}
			o := op{kind: "ins", id: nk.id, k2: nk.k2, cols: genCols(r, ncols)}
			if len(cons) == 0 && len(ops) > 0 && r.Chance(1, 4) { // exact duplicate of an earlier insert (same row hash)
				for _, prev := range ops {
					if prev.kind == "ins" {
						o = prev
						break
					}
				}
			}
			ops = append(ops, o)
			used = append(used, o.cols)
			if nk = (rkey{o.id, o.k2}); !clash(nk, -1) {
				live = append(live, nk)
			}
		case k < 7:
			o := op{kind: "upd", id: hx.Pick(r, l), cols: genUpd()}
			ops = append(ops, o)
			used = append(used, o.cols)
		case k < 9:
			id := hx.Pick(r, l)
			ops = append(ops, op{kind: "del", id: id})
			var rest []rkey
			for _, x := range live {
				if x.id != id {
					rest = append(rest, x)
				}
			}
			live = rest
		default:
			id := hx.Pick(r, l)
			nw := r.Range(1, 8)
			kind := "rekey"
			if k == 10 {
				kind = "rekey2"
			}
			ops = append(ops, op{kind: kind, id: id, n: nw})
			moved := func(x rkey) rkey {
				if kind == "rekey" {
					return rkey{nw, x.k2}
				}
				return rkey{x.id, nw}
			}
			ok, cnt := true, 0
			for _, x := range live {
				if x.id == id {
					cnt++
					ok = ok && !clash(moved(x), id)
				}
			}
			if kind == "rekey2" && len(cons) > 0 && cnt >= 2 {
				ok = false
			}
			if ok {
				for j, x := range live {
					if x.id == id {
						live[j] = moved(x)
					}
				}
			}
		}
	}
	return ops
}

func allStrings(alpha []string, maxLen int) []string {
	out := []string{""}
	cur := []string{""}
	for l := 1; l <= maxLen; l++ {
		var next []string
		for _, s := range cur {
			for _, c := range alpha {
				next = append(next, s+c)
			}
		}
		out = append(out, next...)
		cur = next
	}
	return out
}

var tokAlpha = []string{"a", "B", "z", "7", "_", "'", "'", " ", " ", ",", ".", "-", "\n", "é", "ß", "中", "𝒳", "٣", "—", "€", "́", "😀", "\xff", "\xc3", "\xe4\xb8", "²", "ǅ", "Ⅷ"}

func run(a hx.RunArgs) error {
	out := hx.NewOut(a.OutDir)
	defer out.Close()
	out.Rule = "tok: every string over {a, ', space, é} up to a length bound (exhaustive) and random documents over letters of 1-4 bytes, digits of other scripts, " +
		"underscore, apostrophes, punctuation, combining marks, emoji and invalid UTF-8, under utf8mb4_0900_bin and _ai_ci; non-trivial = at least one word. " +
		"hist: FULLTEXT tables over 12 key layouts (no key; PRIMARY KEY single / composite in column order / composite declared out of column order / on the second column; " +
		"usable UNIQUE KEY in / out of column order / first of two; UNIQUE KEY with a nullable column; primary + unique), key columns before or after the text columns, " +
		"1-2 indexed columns, bin / ai_ci, under 1-9 INSERT/UPDATE/DELETE/key-changing statements (either key component; statements hitting several rows; " +
		"duplicate rows, duplicate-key failures, NULL columns, words around the 84-byte limit), then 3 MATCH queries (WHERE form and select-list form) and the four pseudo-index tables " +
		"with their key columns C0 C1 …; " +
		"non-trivial = at least 2 statements and some query matched a row"
	// hx.NewRand(s+1) is hx.NewRand(s) shifted by one draw: fork, and give every stream its own generator
	root := hx.NewRand(a.Seed).Fork()
	rndTok, rnd := root.Fork(), root.Fork()
	e := eng.New("d")
	ctx := e.Ctx()

	// corpus first
	for _, d := range []string{"", "ab", "abc", "Hello world, it's me", "it''s", "'ab'", "a'b'c", "''bar foo'", "don't", "x_y", "ab cd  efg", "aé", "é", "中中", "a\xffbcd", "WORLD peace don't", "  lead", "trail'", "'", "a''b cd'e"} {
		tokCase(out, ctx, false, d)
		tokCase(out, ctx, true, d)
	}
	s := func(x string) *string { return &x }
	histCase(out, false, layoutByName("pk1"), 2, []op{
		{kind: "ins", id: 1, cols: []*string{s("Hello world, it's me"), s("foo bar")}},
		{kind: "ins", id: 2, cols: []*string{s("WORLD peace don't"), s("x")}},
		{kind: "ins", id: 3, cols: []*string{nil, s("hello")}},
		{kind: "upd", id: 1, cols: []*string{s("changed text"), s("foo bar")}},
	}, []string{"hello", "world changed", "it's"})
	histCase(out, true, layoutByName("none1"), 1, []op{
		{kind: "ins", id: 1, cols: []*string{s("Hello hello world")}},
		{kind: "ins", id: 2, cols: []*string{s("Hello hello world")}},
		{kind: "ins", id: 1, cols: []*string{s("Hello hello world")}},
		{kind: "ins", id: 3, cols: []*string{s("bye world")}},
		{kind: "del", id: 1},
	}, []string{"HELLO", "world", "bye"})
	// every key layout (both column placements) under the same small history: rows whose key components
	// differ, a transposed pair (1,2) / (2,1), a row with equal components, a key change of each component
	for _, lay := range layouts {
		for _, tail := range []bool{false, true} {
			lay.tail = tail
			ops := []op{
				{kind: "ins", id: 1, k2: 2, cols: []*string{s("sun apple")}},
				{kind: "ins", id: 2, k2: 1, cols: []*string{s("sun banana")}},
				{kind: "ins", id: 3, k2: 3, cols: []*string{s("apple pie")}},
				{kind: "ins", id: 4, k2: 5, cols: []*string{s("banana")}},
				{kind: "ins", id: 1, k2: 2, cols: []*string{s("rejected unless keyless")}},
				{kind: "rekey", id: 4, n: 6},
				{kind: "upd", id: 3, cols: []*string{s("apple sun")}},
			}
			if lay.k2 {
				ops = append(ops, op{kind: "rekey2", id: 2, n: 4}, op{kind: "ins", id: 5, k2: 1, cols: []*string{s("pie")}})
			}
			ops = append(ops, op{kind: "del", id: 3})
			histCase(out, false, lay, 1, ops, []string{"sun", "banana", "pie apple"})
		}
	}

	maxLen, nTok, nHist := 6, 3000, 1000
	if a.Thorough {
		maxLen, nTok, nHist = 9, 400000, 20000
	}
	for _, d := range allStrings([]string{"a", "'", " ", "é"}, maxLen) {
		tokCase(out, ctx, false, d)
	}
	for i := 0; i < nTok; i++ {
		n := rndTok.Intn(16)
		var b strings.Builder
		for k := 0; k < n; k++ {
			b.WriteString(hx.Pick(rndTok, tokAlpha))
		}
		tokCase(out, ctx, rndTok.Chance(1, 3), b.String())
	}
	for i := 0; i < nHist; i++ {
		lay := hx.Pick(rnd, layouts)
		if rnd.Chance(1, 4) { // more weight on keys declared out of column order
			lay = layoutByName(hx.Pick(rnd, []string{"pk_ba", "uk_ba", "pk_ba_uk"}))
		}
		lay.tail = rnd.Chance(1, 3)
		ncols := rnd.Range(1, 2)
		ci := rnd.Chance(1, 2)
		ops := genHist(rnd, ci, lay, ncols)
		qs := []string{hx.Pick(rnd, vocab), genDoc(rnd), hx.Pick(rnd, vocab) + " " + hx.Pick(rnd, vocab)}
		histCase(out, ci, lay, ncols, ops, qs)
	}
	return nil
}
