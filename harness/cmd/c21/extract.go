package main

import (
	"fmt"
	"go/ast"
	"os"
	"regexp"
	"strings"

	"github.com/dolthub/vitess/go/sqltypes"

	"github.com/dolthub/go-mysql-server/sql"
	"github.com/dolthub/go-mysql-server/sql/types"
	"github.com/dolthub/go-mysql-server/verifharness/hx"
)

// Facts for C21: the rewrite decision, the shape of the index-mapping loop, which original type
// projectRowWithTypes hands to TypeAwareConversion, and a table of conversions computed by the
// freshly compiled code that the Lean conversion functions must reproduce.

var ws = regexp.MustCompile(`\s+`)

func flat(s string) string { return strings.TrimSpace(ws.ReplaceAllString(s, " ")) }

func bodyOf(src *hx.Src, recv, name string) (string, error) {
	fd, err := src.Func(recv, name)
	if err != nil {
		return "", err
	}
	return flat(src.Text(fd.Body)), nil
}

func leanTy(t ty) string {
	switch t.kind {
	case "str":
		return fmt.Sprintf("(.str %d)", t.n)
	case "enum":
		ls := make([]string, len(t.labels))
		for i, l := range t.labels {
			ls[i] = leanChars(l)
		}
		return "(.enum [" + strings.Join(ls, ", ") + "])"
	}
	return "." + t.kind
}

// leanChars renders an ASCII string as a Lean `List Char` literal (kernel-reducible, unlike String).
func leanChars(s string) string {
	cs := make([]string, 0, len(s))
	for _, r := range s {
		cs = append(cs, fmt.Sprintf("'%c'", r))
	}
	return "[" + strings.Join(cs, ", ") + "]"
}

func goTy(t ty) sql.Type {
	switch t.kind {
	case "tiny":
		return types.Int8
	case "int":
		return types.Int32
	case "big":
		return types.Int64
	case "str":
		return types.MustCreateStringWithDefaults(sqltypes.VarChar, int64(t.n))
	}
	return types.MustCreateEnumType(t.labels, sql.Collation_Default)
}

func goVal(t ty, v val) interface{} {
	switch v.kind {
	case "i":
		switch t.kind {
		case "tiny":
			return int8(v.i)
		case "int":
			return int32(v.i)
		}
		return v.i
	case "s":
		return v.s
	case "e":
		return uint16(v.k)
	}
	return nil
}

func leanVal(v interface{}) string {
	switch x := v.(type) {
	case nil:
		return ".null"
	case int8:
		return fmt.Sprintf("(.int %s)", hx.LeanInt(int64(x)))
	case int32:
		return fmt.Sprintf("(.int %s)", hx.LeanInt(int64(x)))
	case int64:
		return fmt.Sprintf("(.int %s)", hx.LeanInt(x))
	case string:
		return "(.str " + leanChars(x) + ")"
	case uint16:
		return fmt.Sprintf("(.en %d)", x)
	}
	return fmt.Sprintf("(.str ['?']) /- %T -/", v)
}

func extract(a hx.ExtractArgs) error {
	ddl, err := hx.ParseSrc(a.Repo, "sql/rowexec/ddl_iters.go")
	if err != nil {
		return err
	}
	mem, err := hx.ParseSrc(a.Repo, "memory/table.go")
	if err != nil {
		return err
	}
	conv, err := hx.ParseSrc(a.Repo, "sql/types/conversion.go")
	if err != nil {
		return err
	}
	lf := hx.NewLeanFile("Gms.Generated.C21", ddl.Path, mem.Path, conv.Path, "sql/types (run)")

	b, err := bodyOf(mem, "Table", "ShouldRewriteTable")
	if err != nil {
		return err
	}
	lf.DefBool("shouldRewriteIsOrderDropOrKeyChange", b == "{ return orderChanged(oldSchema, newSchema, oldColumn, newColumn) || isColumnDrop(oldSchema, newSchema) || isPrimaryKeyChange(oldSchema, newSchema) }")
	b, err = bodyOf(mem, "", "orderChanged")
	if err != nil {
		return err
	}
	lf.DefBool("orderChangedComparesIndexes", strings.Contains(b, "return oldSchema.Schema.IndexOfColName(oldColumn.Name) != newSchema.Schema.IndexOfColName(newColumn.Name)"))

	b, err = bodyOf(ddl, "modifyColumnIter", "rewriteTable")
	if err != nil {
		return err
	}
	lf.DefBool("rewriteWhenNullableToNotNull", strings.Contains(b, "rewriteRequired := false if oldCol.Nullable && !newCol.Nullable { rewriteRequired = true }"))
	lf.DefBool("rewriteSkippedOtherwise", strings.Contains(b, "if !rewriteRequired && !rewriteRequested { return false, nil }"))
	lf.DefBool("rewriteValidatesNullability", strings.Contains(b, "err = i.validateNullability(ctx, newSch, newRow)"))
	lf.DefBool("rewriteDiscardsOnError", strings.Count(b, "_ = inserter.DiscardChanges(ctx, err)") >= 4)

	b, err = bodyOf(ddl, "", "projectRowWithTypes")
	if err != nil {
		return err
	}
	// the original type is taken at the NEW position i (region enum_text_reorder)
	lf.DefBool("projectRowPositionalOldType", strings.Contains(b, "types.TypeAwareConversion(ctx, newRow[i], oldSchema[i].Type, newSchema[i].Type)"))

	b, err = bodyOf(ddl, "", "modifyColumnInSchema")
	if err != nil {
		return err
	}
	lf.DefBool("mappingLoopShape", strings.Contains(b, "for j < len(schema) || i < len(schema) { if i == currIdx { oldToNewIdxMapping[i] = newIdx i++ } else if j == newIdx { j++ } else { oldToNewIdxMapping[i] = j i, j = i+1, j+1 } }"))
	lf.DefBool("newIdxShiftsWhenMovingLeft", strings.Contains(b, "if newIdx < currIdx { newIdx++ }"))
	lf.DefBool("newSchemaBuiltThroughMapping", strings.Contains(b, "j := oldToNewIdxMapping[i] oldCol := schema[i] c := oldCol if j == newIdx { c = column } newSch[j] = c projections[j] = getColumnExpression(i, oldCol)"))

	b, err = bodyOf(conv, "", "TypeAwareConversion")
	if err != nil {
		return err
	}
	lf.DefBool("enumLabelOnlyForEnumOriginal", strings.Contains(b, "if (IsEnum(originalType) || IsSet(originalType)) && IsText(convertedType) { val, _, err = ConvertToCollatedString(ctx, val, originalType)"))

	b, err = bodyOf(mem, "Table", "ModifyColumn")
	if err != nil {
		return err
	}
	lf.DefBool("inplaceUsesOwnOldType", strings.Contains(b, "oldType := data.schema.Schema[oldIdx].Type newVal, inRange, err := types.TypeAwareConversion(ctx, row[oldIdx], oldType, column.Type)"))
	lf.DefBool("inplaceSplices", strings.Contains(b, "newRow = append(newRow, oldRowWithoutVal[:newIdx]...) newRow = append(newRow, newVal) newRow = append(newRow, oldRowWithoutVal[newIdx:]...)"))

	// CHANGE COLUMN to an existing name: is there any duplicate-name validation on the modify path?
	vsrc, err := hx.ParseSrc(a.Repo, "sql/analyzer/validate_create_table.go")
	dupCheck := false
	if err == nil {
		for _, d := range vsrc.File.Decls {
			if f, ok := d.(*ast.FuncDecl); ok && f.Body != nil && strings.Contains(f.Name.Name, "Modify") {
				if strings.Contains(flat(vsrc.Text(f.Body)), "ErrColumnExists") {
					dupCheck = true
				}
			}
		}
	}
	lf.DefBool("modifyValidatesDuplicateName", dupCheck)

	// run time: a conversion table from the compiled code
	ctx := sql.NewEmptyContext()
	tys := []ty{{kind: "tiny"}, {kind: "int"}, {kind: "big"}, {kind: "str", n: 3}, {kind: "str", n: 12},
		{kind: "enum", labels: []string{"x", "y", "z"}}, {kind: "enum", labels: []string{"p", "q"}}}
	samples := func(t ty) []val {
		switch t.kind {
		case "tiny":
			return []val{iv(-128), iv(0), iv(3), iv(127)}
		case "int":
			return []val{iv(-2147483648), iv(-129), iv(-1), iv(0), iv(2), iv(128), iv(1000), iv(2147483647)}
		case "big":
			return []val{iv(-9223372036854775808), iv(-2147483649), iv(1), iv(2147483648), iv(9223372036854775807)}
		case "str":
			vs := []val{sv(""), sv("0"), sv("2"), sv("-5"), sv("127"), sv("x"), sv("q"), sv("abc")}
			if t.n >= 12 {
				vs = append(vs, sv("128"), sv("2147483648"), sv("hello"), sv("-129"))
			}
			return vs
		}
		var vs []val
		for k := 1; k <= len(t.labels); k++ {
			vs = append(vs, ev(k))
		}
		return vs
	}
	var sb strings.Builder
	sb.WriteString("open Gms.Alter in\ndef convTable : List (Ty × Ty × Val × Option Val) := [\n")
	n := 0
	for _, orig := range tys {
		for _, nw := range tys {
			for _, holder := range tys { // the type of the column the value really comes from
				if holder.kind == "enum" && nw.kind == "enum" && !holder.equal(nw) {
					continue
				}
				if !(holder.equal(orig) || (nw.kind == "str" && (orig.kind == "enum" || holder.kind == "enum"))) {
					continue // positional mismatch only matters for the ENUM -> text branch
				}
				for _, v := range samples(holder) {
					var res interface{}
					var inRange sql.ConvertInRange
					var cerr error
					p := hx.Safe(func() { res, inRange, cerr = types.TypeAwareConversion(ctx, goVal(holder, v), goTy(orig), goTy(nw)) })
					exp := "none"
					if p == "" && cerr == nil && inRange == sql.InRange {
						exp = "(some " + leanVal(res) + ")"
					}
					lv := leanVal(goVal(holder, v))
					if n > 0 {
						sb.WriteString(",\n")
					}
					fmt.Fprintf(&sb, "  (%s, %s, %s, %s)", leanTy(orig), leanTy(nw), lv, exp)
					n++
				}
			}
		}
	}
	sb.WriteString("]\n")
	return writeWithImport(lf, a.Out, sb.String())
}

// writeWithImport writes the fact file with `import Gms.Model.Alter` in front (the conversion table
// is typed with the model's `Ty` / `Val`).
func writeWithImport(lf *hx.LeanFile, path string, table string) error {
	tmp := path + ".tmp"
	lf.Raw(table)
	if err := lf.Write(tmp); err != nil {
		return err
	}
	b, err := os.ReadFile(tmp)
	if err != nil {
		return err
	}
	os.Remove(tmp)
	return os.WriteFile(path, append([]byte("import Gms.Model.Alter\n"), b...), 0o644)
}
