// C21 — Schema changes preserve existing data
// (sql/rowexec/ddl_iters.go, memory/table.go, sql/types/conversion.go).
package main

import (
	"fmt"
	"os"
	"sort"
	"strconv"
	"strings"

	"github.com/dolthub/go-mysql-server/sql"
	"github.com/dolthub/go-mysql-server/verifharness/hx"
	"github.com/dolthub/go-mysql-server/verifharness/hx/eng"
)

func main() {
	if len(os.Args) > 1 && os.Args[1] == "sql" {
		sqlMode()
		return
	}
	hx.Main(extract, run)
}

// ---------------------------------------------------------------------------------------------
// Case description (mirrors Gms.Alter).

type ty struct {
	kind   string // tiny int big str enum
	n      int
	labels []string
}

func (t ty) SQL() string {
	switch t.kind {
	case "tiny":
		return "TINYINT"
	case "int":
		return "INT"
	case "big":
		return "BIGINT"
	case "str":
		return fmt.Sprintf("VARCHAR(%d)", t.n)
	}
	ls := make([]string, len(t.labels))
	for i, l := range t.labels {
		ls[i] = "'" + l + "'"
	}
	return "ENUM(" + strings.Join(ls, ",") + ")"
}

func (t ty) payload() string {
	switch t.kind {
	case "str":
		return fmt.Sprintf("(str %d)", t.n)
	case "enum":
		ls := make([]string, len(t.labels))
		for i, l := range t.labels {
			ls[i] = hx.HexS(l)
		}
		return "(enum " + strings.Join(ls, " ") + ")"
	}
	return t.kind
}

func (t ty) isInt() bool { return t.kind == "tiny" || t.kind == "int" || t.kind == "big" }

func (t ty) equal(o ty) bool { return t.payload() == o.payload() }

type val struct {
	kind string // null i s e
	i    int64
	s    string
	k    int
}

func (v val) payload() string {
	switch v.kind {
	case "i":
		return fmt.Sprintf("(i %d)", v.i)
	case "s":
		return "(s " + hx.HexS(v.s) + ")"
	case "e":
		return fmt.Sprintf("(e %d)", v.k)
	}
	return "null"
}

// SQL literal of a value to be stored in a column of type t.
func (v val) SQL(t ty) string {
	switch v.kind {
	case "i":
		return fmt.Sprint(v.i)
	case "s":
		return "'" + v.s + "'"
	case "e":
		return "'" + t.labels[v.k-1] + "'"
	}
	return "NULL"
}

type col struct {
	name     int
	ty       ty
	nullable bool
	dflt     *val
}

func (c col) payload() string {
	d := "-"
	if c.dflt != nil {
		d = c.dflt.payload()
	}
	return fmt.Sprintf("(%d %s %d %s)", c.name, c.ty.payload(), b01(c.nullable), d)
}

func (c col) def() string {
	s := fmt.Sprintf("c%d %s", c.name, c.ty.SQL())
	if c.nullable {
		s += " NULL"
	} else {
		s += " NOT NULL"
	}
	if c.dflt != nil {
		s += " DEFAULT " + c.dflt.SQL(c.ty)
	}
	return s
}

type pos struct {
	kind string // keep first after
	name int
}

func (p pos) payload() string {
	if p.kind == "after" {
		return fmt.Sprintf("(after %d)", p.name)
	}
	return p.kind
}

func (p pos) SQL() string {
	switch p.kind {
	case "first":
		return " FIRST"
	case "after":
		return fmt.Sprintf(" AFTER c%d", p.name)
	}
	return ""
}

type op struct {
	kind  string // add drop mod addpk droppk rent
	name  int
	col   col
	pos   pos
	names []int
}

func (o op) payload() string {
	switch o.kind {
	case "add":
		return fmt.Sprintf("(add %s %s)", o.col.payload(), o.pos.payload())
	case "drop":
		return fmt.Sprintf("(drop %d)", o.name)
	case "mod":
		return fmt.Sprintf("(mod %d %s %s)", o.name, o.col.payload(), o.pos.payload())
	case "addpk":
		ns := make([]string, len(o.names))
		for i, n := range o.names {
			ns[i] = fmt.Sprint(n)
		}
		return "(addpk " + strings.Join(ns, " ") + ")"
	case "droppk":
		return "(droppk)"
	}
	return "(rent)"
}

func (o op) SQL(tbl string) string {
	switch o.kind {
	case "add":
		return fmt.Sprintf("ALTER TABLE %s ADD COLUMN %s%s", tbl, o.col.def(), o.pos.SQL())
	case "drop":
		return fmt.Sprintf("ALTER TABLE %s DROP COLUMN c%d", tbl, o.name)
	case "mod":
		if o.col.name == o.name {
			return fmt.Sprintf("ALTER TABLE %s MODIFY COLUMN %s%s", tbl, o.col.def(), o.pos.SQL())
		}
		return fmt.Sprintf("ALTER TABLE %s CHANGE COLUMN c%d %s%s", tbl, o.name, o.col.def(), o.pos.SQL())
	case "addpk":
		ns := make([]string, len(o.names))
		for i, n := range o.names {
			ns[i] = fmt.Sprintf("c%d", n)
		}
		return fmt.Sprintf("ALTER TABLE %s ADD PRIMARY KEY (%s)", tbl, strings.Join(ns, ","))
	case "droppk":
		return fmt.Sprintf("ALTER TABLE %s DROP PRIMARY KEY", tbl)
	}
	other := "u"
	if tbl == "u" {
		other = "t"
	}
	return fmt.Sprintf("ALTER TABLE %s RENAME TO %s", tbl, other)
}

func b01(b bool) int {
	if b {
		return 1
	}
	return 0
}

type table struct {
	cols []col
	pk   []int
	rows [][]val
}

func (t *table) payload(ops []op) string {
	var b strings.Builder
	b.WriteString("(schema")
	for _, c := range t.cols {
		b.WriteString(" " + c.payload())
	}
	b.WriteString(") (pk")
	for _, n := range t.pk {
		fmt.Fprintf(&b, " %d", n)
	}
	b.WriteString(") (rows")
	for _, r := range t.rows {
		vs := make([]string, len(r))
		for i, v := range r {
			vs[i] = v.payload()
		}
		b.WriteString(" (" + strings.Join(vs, " ") + ")")
	}
	b.WriteString(") (ops")
	for _, o := range ops {
		b.WriteString(" " + o.payload())
	}
	b.WriteString(")")
	return b.String()
}

func (t *table) DDL() string {
	parts := make([]string, 0, len(t.cols)+1)
	for _, c := range t.cols {
		parts = append(parts, c.def())
	}
	if len(t.pk) > 0 {
		ns := make([]string, len(t.pk))
		for i, n := range t.pk {
			ns[i] = fmt.Sprintf("c%d", n)
		}
		parts = append(parts, "PRIMARY KEY ("+strings.Join(ns, ",")+")")
	}
	return "CREATE TABLE t (" + strings.Join(parts, ", ") + ")"
}

func (t *table) insertSQL() string {
	if len(t.rows) == 0 {
		return ""
	}
	rs := make([]string, len(t.rows))
	for i, r := range t.rows {
		vs := make([]string, len(r))
		for j, v := range r {
			vs[j] = v.SQL(t.cols[j].ty)
		}
		rs[i] = "(" + strings.Join(vs, ",") + ")"
	}
	return "INSERT INTO t VALUES " + strings.Join(rs, ",")
}

// ---------------------------------------------------------------------------------------------
// Real engine.

const ridName = 99 // a column no statement touches: the identity of a row for the model-free oracle

type realT struct {
	e   *eng.Eng
	ctx *sql.Context
	tbl string
}

func (d *realT) q(s string) *eng.Res { return d.e.Query(eng.SameSession(d.ctx), s) }

type snapshot struct {
	desc   string              // column descriptions as the model prints them
	rows   string              // rows, sorted
	names  []string            // column names in order
	types  []string            // column types in order
	byRid  map[string][]string // rid text -> cell texts ("\x00" = NULL)
	broken string
}

func hexText(s string) string { return hx.HexS(s) }

func (d *realT) snap() snapshot {
	var sn snapshot
	r := d.q("DESCRIBE " + d.tbl)
	if r.Class() != "ok" {
		sn.broken = "describe:" + r.Class()
		return sn
	}
	var descs []string
	for i, row := range r.Rows {
		if len(row) < 5 {
			sn.broken = "describe: short row"
			return sn
		}
		null := "N"
		if row[2] == "YES" {
			null = "Y"
		}
		key := "-"
		if row[3] == "PRI" {
			key = "P"
		}
		dflt := "null"
		if !r.Null[i][4] && row[4] != "NULL" {
			s := row[4]
			if len(s) >= 2 && s[0] == '\'' && s[len(s)-1] == '\'' {
				s = s[1 : len(s)-1]
			}
			dflt = hexText(s)
		}
		descs = append(descs, fmt.Sprintf("%s:%s:%s:%s:%s", row[0], row[1], null, key, dflt))
		sn.names = append(sn.names, row[0])
		sn.types = append(sn.types, row[1])
	}
	sn.desc = strings.Join(descs, ",")
	// the key as SHOW CREATE TABLE prints it (from the table's key ordinals, not from the column flags)
	r = d.q("SHOW CREATE TABLE " + d.tbl)
	if r.Class() != "ok" || len(r.Rows) != 1 || len(r.Rows[0]) < 2 {
		sn.broken = "show create:" + r.Class()
		return sn
	}
	pk := ""
	for _, line := range strings.Split(r.Rows[0][1], "\n") {
		line = strings.TrimSpace(line)
		if strings.HasPrefix(line, "PRIMARY KEY (") {
			pk = strings.TrimSuffix(strings.TrimSuffix(strings.TrimPrefix(line, "PRIMARY KEY ("), ","), ")")
			pk = strings.ReplaceAll(pk, "`", "")
		}
	}
	sn.desc += ";pk=" + pk
	r = d.q("SELECT * FROM " + d.tbl)
	if r.Class() != "ok" {
		sn.broken = "select:" + r.Class()
		return sn
	}
	ridIdx := -1
	for i, n := range sn.names {
		if n == fmt.Sprintf("c%d", ridName) {
			ridIdx = i
		}
	}
	sn.byRid = map[string][]string{}
	var rows []string
	for i, row := range r.Rows {
		cells := make([]string, len(row))
		raw := make([]string, len(row))
		for j, c := range row {
			if r.Null[i][j] {
				cells[j] = "null"
				raw[j] = "\x00"
			} else {
				cells[j] = hexText(c)
				raw[j] = c
			}
		}
		rows = append(rows, "["+strings.Join(cells, ",")+"]")
		if ridIdx >= 0 && ridIdx < len(raw) {
			sn.byRid[raw[ridIdx]] = raw
		}
	}
	sort.Strings(rows)
	sn.rows = strings.Join(rows, "")
	return sn
}

func (sn snapshot) text() string {
	if sn.broken != "" {
		return "broken:" + sn.broken
	}
	return sn.desc + ";" + sn.rows
}

func classOf(o op, r *eng.Res) string {
	c := r.Class()
	switch c {
	case "ok", "crash", "timeout":
		return c
	case "err:1062", "err:1048":
		if o.kind == "addpk" {
			return "err:pk" // which of the two comes first depends on the physical row order
		}
		if o.kind == "mod" {
			return "err" // likewise: the first failing row decides between 1048 / 1062 / a conversion error
		}
		return c
	}
	return "err"
}

// retainedPreserved is the property evaluated on the engine alone: after a successful statement every
// row (identified by its rid) still holds, under every retained column name whose type did not
// change, the text it held before; a failed statement leaves DESCRIBE and the rows as they were.
func retainedPreserved(o op, before, after snapshot, ok bool) string {
	if before.broken != "" || after.broken != "" {
		return ""
	}
	if !ok {
		if before.text() != after.text() {
			return "failed statement changed the table: " + before.text() + " -> " + after.text()
		}
		return ""
	}
	if len(before.byRid) != len(after.byRid) {
		return fmt.Sprintf("row count changed from %d to %d", len(before.byRid), len(after.byRid))
	}
	rename := map[string]string{}
	if o.kind == "mod" {
		rename[fmt.Sprintf("c%d", o.name)] = fmt.Sprintf("c%d", o.col.name)
	}
	// a column name that occurs twice cannot be followed by name
	count := map[string]int{}
	for _, n := range after.names {
		count[n]++
	}
	for _, n := range before.names {
		count[n] += 0
	}
	for i, n := range before.names {
		target := n
		if nn, ok := rename[n]; ok {
			target = nn
		}
		if o.kind == "drop" && n == fmt.Sprintf("c%d", o.name) {
			continue
		}
		j := -1
		for jj, an := range after.names {
			if an == target {
				j = jj
				break
			}
		}
		if j < 0 {
			return "retained column " + n + " is gone"
		}
		if count[target] > 1 {
			return "column name " + target + " occurs twice after the statement"
		}
		if before.types[i] != after.types[j] {
			continue // converted values are judged by the model (Spec), not by this oracle
		}
		for rid, old := range before.byRid {
			nw, ok := after.byRid[rid]
			if !ok {
				return "row " + rid + " is gone"
			}
			if old[i] != nw[j] {
				return fmt.Sprintf("row %s column %s: %q became %q", rid, n, old[i], nw[j])
			}
		}
	}
	return ""
}

// ---------------------------------------------------------------------------------------------
// Generators.

var words = []string{"a", "bc", "xyz", "hello", "q", "x", "y"}
var enumPools = [][]string{{"x", "y", "z"}, {"p", "q"}, {"y", "x"}, {"a", "bc"}}

func genTy(r *hx.Rand) ty {
	switch r.Intn(8) {
	case 0:
		return ty{kind: "tiny"}
	case 1, 2:
		return ty{kind: "int"}
	case 3:
		return ty{kind: "big"}
	case 4:
		return ty{kind: "str", n: 2 + r.Intn(3)}
	case 5:
		return ty{kind: "str", n: 12}
	default:
		return ty{kind: "enum", labels: hx.Pick(r, enumPools)}
	}
}

func genVal(r *hx.Rand, t ty) val {
	switch t.kind {
	case "tiny":
		return val{kind: "i", i: int64(r.Intn(256) - 128)}
	case "int":
		switch r.Intn(6) {
		case 0:
			return val{kind: "i", i: int64(r.Intn(100000)) - 50000}
		case 1:
			return val{kind: "i", i: 2147483647 - int64(r.Intn(3))}
		default:
			return val{kind: "i", i: int64(r.Intn(7)) - 1}
		}
	case "big":
		switch r.Intn(5) {
		case 0:
			return val{kind: "i", i: 5000000000 + int64(r.Intn(10))}
		case 1:
			return val{kind: "i", i: -int64(r.Intn(300))}
		default:
			return val{kind: "i", i: int64(r.Intn(5))}
		}
	case "str":
		var s string
		switch r.Intn(4) {
		case 0:
			s = fmt.Sprint(r.Intn(400) - 150)
		case 1:
			s = fmt.Sprint(r.Intn(4))
		default:
			s = hx.Pick(r, words)
		}
		if len(s) > t.n {
			s = s[:t.n]
			if s == "-" {
				s = "x"
			}
		}
		return val{kind: "s", s: s}
	}
	return val{kind: "e", k: 1 + r.Intn(len(t.labels))}
}

func genCol(r *hx.Rand, name int) col {
	c := col{name: name, ty: genTy(r), nullable: r.Chance(2, 3)}
	if r.Chance(1, 4) {
		v := genVal(r, c.ty)
		c.dflt = &v
	}
	return c
}

func genTable(r *hx.Rand) *table {
	t := &table{}
	n := 2 + r.Intn(3)
	for i := 0; i < n; i++ {
		t.cols = append(t.cols, genCol(r, i))
	}
	t.cols = append(t.cols, col{name: ridName, ty: ty{kind: "int"}, nullable: false})
	switch r.Intn(4) {
	case 0:
		t.pk = []int{0}
	case 1:
		t.pk = []int{1, 0}
	case 2:
		t.pk = []int{ridName}
	}
	for _, n := range t.pk {
		for i := range t.cols {
			if t.cols[i].name == n {
				t.cols[i].nullable = false
			}
		}
	}
	nr := r.Intn(6)
	seen := map[string]bool{}
	for i := 0; i < nr; i++ {
		var row []val
		for _, c := range t.cols {
			switch {
			case c.name == ridName:
				row = append(row, val{kind: "i", i: int64(i + 1)})
			case c.nullable && r.Chance(1, 5):
				row = append(row, val{kind: "null"})
			default:
				row = append(row, genVal(r, c.ty))
			}
		}
		key := ""
		for _, n := range t.pk {
			for j, c := range t.cols {
				if c.name == n {
					key += row[j].payload() + "|"
				}
			}
		}
		if len(t.pk) > 0 && seen[key] {
			continue
		}
		seen[key] = true
		t.rows = append(t.rows, row)
	}
	return t
}

// sim is the little the generator tracks to pick mostly valid statements (names, types, key).
type sim struct {
	cols []col
	pk   []int
	next int
}

func (s *sim) idx(name int) int {
	for i, c := range s.cols {
		if c.name == name {
			return i
		}
	}
	return -1
}

func (s *sim) inPk(name int) bool {
	for _, n := range s.pk {
		if n == name {
			return true
		}
	}
	return false
}

func (s *sim) pickCol(r *hx.Rand, allowRid bool) int {
	for try := 0; try < 20; try++ {
		c := hx.Pick(r, s.cols)
		if c.name != ridName || allowRid {
			return c.name
		}
	}
	return s.cols[0].name
}

func (s *sim) genPos(r *hx.Rand, self int) pos {
	switch r.Intn(5) {
	case 0:
		return pos{kind: "first"}
	case 1, 2:
		for try := 0; try < 10; try++ {
			n := hx.Pick(r, s.cols).name
			if n != self {
				return pos{kind: "after", name: n}
			}
		}
	}
	return pos{kind: "keep"}
}

// genOp returns a statement and whether it must be the last of the history.
func genOp(r *hx.Rand, s *sim) (op, bool) {
	x := r.Intn(100)
	switch {
	case x < 20: // ADD COLUMN
		c := genCol(r, s.next)
		s.next++
		if r.Chance(1, 25) {
			c.name = hx.Pick(r, s.cols).name // duplicate name: rejected
		}
		p := s.genPos(r, -1)
		if r.Chance(1, 30) {
			p = pos{kind: "after", name: 77} // unknown column: rejected
		}
		return op{kind: "add", col: c, pos: p}, false
	case x < 32: // DROP COLUMN (never a key column: the engine panics on those, a C10 matter)
		for try := 0; try < 10; try++ {
			n := s.pickCol(r, false)
			if !s.inPk(n) && len(s.cols) > 2 {
				return op{kind: "drop", name: n}, false
			}
		}
		return op{kind: "drop", name: 77}, false
	case x < 80: // MODIFY / CHANGE COLUMN
		name := s.pickCol(r, false)
		i := s.idx(name)
		old := s.cols[i]
		c := col{name: name, ty: old.ty, nullable: old.nullable, dflt: old.dflt}
		if r.Chance(3, 5) {
			c.ty = genTy(r)
			if c.ty.kind == "enum" && old.ty.kind == "enum" && !c.ty.equal(old.ty) {
				c.ty = old.ty // ENUM -> different ENUM (label remapping) is outside the model
			}
			if !c.ty.equal(old.ty) {
				c.dflt = nil
			}
		}
		if r.Chance(1, 3) {
			c.nullable = !c.nullable
		}
		if r.Chance(1, 5) {
			c.name = s.next
			s.next++
		}
		last := false
		if r.Chance(1, 40) && len(s.cols) > 2 { // CHANGE to the name of another column: must be rejected
			for _, oc := range s.cols {
				if oc.name != name && oc.name != ridName {
					c.name = oc.name
					last = true
					break
				}
			}
		}
		p := s.genPos(r, name)
		if r.Chance(1, 40) {
			p = pos{kind: "after", name: name} // AFTER itself: rejected
		}
		return op{kind: "mod", name: name, col: c, pos: p}, last
	case x < 88: // ADD PRIMARY KEY
		var ns []int
		k := 1 + r.Intn(2)
		for len(ns) < k {
			n := s.pickCol(r, true)
			dup := false
			for _, m := range ns {
				if m == n {
					dup = true
				}
			}
			if !dup {
				ns = append(ns, n)
			}
			if len(s.cols) < 2 {
				break
			}
		}
		return op{kind: "addpk", names: ns}, false
	case x < 94:
		return op{kind: "droppk"}, false
	default:
		return op{kind: "rent"}, false
	}
}

// apply mirrors a successful statement on the generator's bookkeeping.
func (s *sim) apply(o op) {
	switch o.kind {
	case "add":
		i := len(s.cols)
		switch o.pos.kind {
		case "first":
			i = 0
		case "after":
			i = s.idx(o.pos.name) + 1
		}
		s.cols = append(s.cols[:i], append([]col{o.col}, s.cols[i:]...)...)
	case "drop":
		i := s.idx(o.name)
		s.cols = append(s.cols[:i], s.cols[i+1:]...)
	case "mod":
		i := s.idx(o.name)
		rest := append(append([]col{}, s.cols[:i]...), s.cols[i+1:]...)
		k := i
		switch o.pos.kind {
		case "first":
			k = 0
		case "after":
			for j, c := range rest {
				if c.name == o.pos.name {
					k = j + 1
				}
			}
		}
		s.cols = append(append(append([]col{}, rest[:k]...), o.col), rest[k:]...)
		for j, n := range s.pk {
			if n == o.name {
				s.pk[j] = o.col.name
			}
		}
	case "addpk":
		s.pk = append([]int{}, o.names...)
	case "droppk":
		s.pk = nil
	}
}

// ---------------------------------------------------------------------------------------------

func runCase(t *table, nops int, next func(i int, s *sim) (op, bool), out *hx.Out) error {
	e := eng.New("d")
	d := &realT{e: e, ctx: e.Ctx(), tbl: "t"}
	if r := d.q(t.DDL()); r.Class() != "ok" {
		return fmt.Errorf("harness: generated DDL rejected (%s): %s: %v", r.Class(), t.DDL(), r.Err)
	}
	if s := t.insertSQL(); s != "" {
		if r := d.q(s); r.Class() != "ok" {
			return fmt.Errorf("harness: generated INSERT rejected (%s): %s: %v", r.Class(), s, r.Err)
		}
	}
	s := &sim{cols: append([]col{}, t.cols...), pk: append([]int{}, t.pk...), next: 10}
	var ops []op
	var sb strings.Builder
	var failures []string
	var special [][2]string
	before := d.snap()
	nontrivial := false
	for i := 0; i < nops; i++ {
		o, last := next(i, s)
		ops = append(ops, o)
		r := d.q(o.SQL(d.tbl))
		cl := classOf(o, r)
		if cl == "ok" {
			if o.kind == "rent" {
				if d.tbl == "t" {
					d.tbl = "u"
				} else {
					d.tbl = "t"
				}
			}
		}
		after := d.snap()
		if o.kind == "mod" && o.col.name != o.name && s.inPk(o.name) && len(s.pk) > 1 {
			// renaming a column of a composite key can leave the key ordinals pointing at other columns
			// (region rename_key_column_in_place): what later statements do with such a table is not modelled
			last = true
		}
		afterSelf := o.kind == "mod" && o.pos.kind == "after" && o.pos.name == o.name
		dupName := o.kind == "mod" && o.col.name != o.name && s.idx(o.col.name) >= 0 && s.idx(o.name) >= 0
		why := retainedPreserved(o, before, after, cl == "ok")
		switch {
		case afterSelf:
			// region modify_after_itself, decided here on the statement: the engine's behaviour (a panic
			// that loses the column) is not predicted by the model; it is reported through the oracle only
			if cl != "err" || why != "" {
				out.Stat("region:modify_after_itself")
				special = append(special, [2]string{"modify_after_itself", fmt.Sprintf("stmt %d (%s): outcome %s; %s", i, o.SQL(d.tbl), cl, why)})
			}
			sb.WriteString("<after-itself>|")
			last = true
		case dupName:
			if cl == "ok" {
				out.Stat("region:change_to_existing_name")
				special = append(special, [2]string{"change_to_existing_name", fmt.Sprintf("stmt %d (%s): accepted; %s", i, o.SQL(d.tbl), why)})
			}
			sb.WriteString("<dup-name>|")
			last = true
		default:
			if why != "" {
				failures = append(failures, fmt.Sprintf("stmt %d (%s): %s", i, o.SQL(d.tbl), why))
			}
			fmt.Fprintf(&sb, "%s;%s|", cl, after.text())
		}
		if cl == "ok" && (o.kind == "mod" || o.kind == "add" || o.kind == "drop") && len(before.byRid) > 0 {
			nontrivial = true
		}
		out.Stat("op:" + o.kind)
		out.Stat("class:" + cl)
		if cl == "ok" && !last {
			s.apply(o)
		}
		before = after
		if last || after.broken != "" {
			break
		}
	}
	out.StatN("rows", len(t.rows))
	id := out.Case(t.payload(ops), sb.String(), nontrivial)
	for _, f := range failures {
		out.OracleFail(id, "-", f)
	}
	for _, f := range special {
		out.OracleFail(id, f[0], f[1])
	}
	return nil
}

func iv(i int64) val    { return val{kind: "i", i: i} }
func sv(s string) val   { return val{kind: "s", s: s} }
func ev(k int) val      { return val{kind: "e", k: k} }
func nullv() val        { return val{kind: "null"} }
func tInt() ty          { return ty{kind: "int"} }
func tStr(n int) ty     { return ty{kind: "str", n: n} }
func tEnum(l ...string) ty { return ty{kind: "enum", labels: l} }

func run(a hx.RunArgs) error {
	out := hx.NewOut(a.OutDir)
	defer out.Close()
	out.Rule = "ALTER TABLE histories (ADD COLUMN with/without DEFAULT, NULL / NOT NULL, FIRST / AFTER; DROP COLUMN; MODIFY / CHANGE COLUMN with type " +
		"change among TINYINT / INT / BIGINT / VARCHAR(n) / ENUM, nullability change, rename, reorder; ADD / DROP PRIMARY KEY; RENAME TABLE; a few " +
		"statements that must be rejected) on generated tables with 0-5 rows; after every statement the outcome class, DESCRIBE and the sorted " +
		"rows are observed and the retained-values / no-effect oracle is evaluated on the engine alone; non-trivial = a column was added, dropped " +
		"or modified successfully on a non-empty table"
	r := hx.NewRand(a.Seed).Fork()
	fixed := func(t *table, ops []op) error {
		return runCase(t, len(ops), func(i int, _ *sim) (op, bool) { return ops[i], false }, out)
	}
	rid := col{name: ridName, ty: tInt()}
	// corpus ------------------------------------------------------------------------------------
	{ // finding enum_text_reorder (Props/C21.lean wT1): ENUM -> VARCHAR with FIRST stores the index
		t := &table{cols: []col{{name: 0, ty: tInt()}, {name: 1, ty: tEnum("x", "y", "z"), nullable: true}, rid}, pk: []int{0},
			rows: [][]val{{iv(1), ev(2), iv(1)}, {iv(2), ev(3), iv(2)}, {iv(3), nullv(), iv(3)}}}
		if err := fixed(t, []op{{kind: "mod", name: 1, col: col{name: 1, ty: tStr(10), nullable: true}, pos: pos{kind: "first"}}}); err != nil {
			return err
		}
		// in place (no reorder) the labels are kept
		if err := fixed(t, []op{{kind: "mod", name: 1, col: col{name: 1, ty: tStr(10), nullable: true}, pos: pos{kind: "keep"}}}); err != nil {
			return err
		}
		// two ENUM columns: the label is looked up in the wrong ENUM
		t2 := &table{cols: []col{{name: 0, ty: tInt()}, {name: 1, ty: tEnum("x", "y"), nullable: true}, {name: 2, ty: tEnum("p", "q"), nullable: true}, rid},
			rows: [][]val{{iv(1), ev(1), ev(2), iv(1)}, {iv(2), ev(2), ev(1), iv(2)}}}
		if err := fixed(t2, []op{{kind: "mod", name: 2, col: col{name: 2, ty: tStr(5), nullable: true}, pos: pos{kind: "after", name: 0}}}); err != nil {
			return err
		}
	}
	{ // finding change_to_existing_name (wT2)
		t := &table{cols: []col{{name: 0, ty: tInt()}, {name: 1, ty: tInt(), nullable: true}, rid}, pk: []int{0},
			rows: [][]val{{iv(1), iv(10), iv(1)}}}
		if err := fixed(t, []op{{kind: "mod", name: 0, col: col{name: 1, ty: ty{kind: "big"}}, pos: pos{kind: "keep"}}}); err != nil {
			return err
		}
	}
	{ // finding rename_key_column_in_place (wT4): the key ordinals end up on (c1, c10)
		t := &table{cols: []col{{name: 10, ty: tInt(), nullable: true}, {name: 0, ty: tInt()}, {name: 1, ty: tInt()}, rid}, pk: []int{1, 0},
			rows: [][]val{{nullv(), iv(5), iv(0), iv(1)}, {nullv(), iv(4), iv(7), iv(2)}, {nullv(), iv(1), iv(7), iv(3)}}}
		if err := fixed(t, []op{{kind: "mod", name: 0, col: col{name: 11, ty: tInt()}, pos: pos{kind: "keep"}}}); err != nil {
			return err
		}
	}
	{ // finding empty_string_becomes_zero (wT3)
		t := &table{cols: []col{{name: 0, ty: tInt()}, {name: 1, ty: tStr(5), nullable: true}, rid}, pk: []int{0},
			rows: [][]val{{iv(1), sv(""), iv(1)}, {iv(2), sv("7"), iv(2)}}}
		if err := fixed(t, []op{{kind: "mod", name: 1, col: col{name: 1, ty: tInt(), nullable: true}, pos: pos{kind: "keep"}}}); err != nil {
			return err
		}
	}
	{ // finding modify_after_itself: the engine panics and loses the column
		t := &table{cols: []col{{name: 0, ty: tInt()}, {name: 1, ty: tStr(3)}, rid}, pk: []int{1, 0},
			rows: [][]val{{iv(1), sv("hel"), iv(1)}}}
		if err := fixed(t, []op{{kind: "mod", name: 1, col: col{name: 1, ty: tStr(3), nullable: true}, pos: pos{kind: "after", name: 1}}}); err != nil {
			return err
		}
	}
	{ // conversions, failures without effect, reorder, keys
		t := &table{cols: []col{{name: 0, ty: tInt()}, {name: 1, ty: tInt(), nullable: true}, {name: 2, ty: tStr(12), nullable: true},
			{name: 3, ty: ty{kind: "big"}, nullable: true}, rid}, pk: []int{0},
			rows: [][]val{{iv(1), iv(100), sv("12"), iv(5000000000), iv(1)}, {iv(2), iv(200), sv("abc"), iv(7), iv(2)}, {iv(3), nullv(), nullv(), nullv(), iv(3)}}}
		d5 := iv(9)
		if err := fixed(t, []op{
			{kind: "mod", name: 1, col: col{name: 1, ty: ty{kind: "tiny"}, nullable: true}, pos: pos{kind: "keep"}}, // 200 out of range
			{kind: "mod", name: 2, col: col{name: 2, ty: tInt(), nullable: true}, pos: pos{kind: "keep"}},           // 'abc'
			{kind: "mod", name: 3, col: col{name: 3, ty: tInt(), nullable: true}, pos: pos{kind: "keep"}},           // 5000000000
			{kind: "mod", name: 1, col: col{name: 1, ty: tStr(2), nullable: true}, pos: pos{kind: "keep"}},          // '100' too long
			{kind: "mod", name: 1, col: col{name: 1, ty: tStr(12), nullable: true}, pos: pos{kind: "first"}},
			{kind: "mod", name: 3, col: col{name: 3, ty: ty{kind: "big"}, nullable: true}, pos: pos{kind: "after", name: 1}},
			{kind: "mod", name: 1, col: col{name: 1, ty: tInt()}, pos: pos{kind: "keep"}}, // NULL into NOT NULL
			{kind: "add", col: col{name: 4, ty: tInt()}, pos: pos{kind: "keep"}},
			{kind: "add", col: col{name: 5, ty: tInt(), nullable: true, dflt: &d5}, pos: pos{kind: "after", name: 0}},
			{kind: "add", col: col{name: 6, ty: tStr(5), nullable: true}, pos: pos{kind: "first"}},
			{kind: "droppk"},
			{kind: "addpk", names: []int{4}},    // duplicates
			{kind: "addpk", names: []int{1}},    // NULL
			{kind: "addpk", names: []int{0, 4}}, // fine
			{kind: "mod", name: 0, col: col{name: 7, ty: tInt()}, pos: pos{kind: "keep"}},
			{kind: "mod", name: 5, col: col{name: 8, ty: ty{kind: "big"}, nullable: true}, pos: pos{kind: "after", name: 4}},
			{kind: "drop", name: 3},
			{kind: "rent"},
			{kind: "drop", name: 2},
		}); err != nil {
			return err
		}
	}

	// random ------------------------------------------------------------------------------------
	n := 700
	if a.Thorough {
		n = 25000
	}
	for i := 0; i < n; i++ {
		t := genTable(r)
		nops := 3 + r.Intn(6)
		if err := runCase(t, nops, func(_ int, s *sim) (op, bool) { return genOp(r, s) }, out); err != nil {
			return err
		}
	}
	return nil
}

var _ = strconv.Itoa
