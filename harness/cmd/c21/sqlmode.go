package main

import (
	"bufio"
	"fmt"
	"os"
	"strings"

	"github.com/dolthub/go-mysql-server/verifharness/hx/eng"
)

// sqlMode: `c21 sql < statements` runs one statement per line on a fresh engine and prints the
// outcome of each (replay / probing aid; not used by check.py).
func sqlMode() {
	e := eng.New("d")
	ctx := e.Ctx()
	sc := bufio.NewScanner(os.Stdin)
	sc.Buffer(make([]byte, 1<<20), 1<<20)
	for sc.Scan() {
		q := strings.TrimSpace(sc.Text())
		if q == "" || strings.HasPrefix(q, "#") {
			continue
		}
		r := e.Query(eng.SameSession(ctx), q)
		fmt.Printf("> %s\n  %s", q, r.Class())
		if r.Err != nil {
			fmt.Printf(" %v", r.Err)
		}
		if r.Panic != "" {
			fmt.Printf(" %s", r.Panic)
		}
		fmt.Println()
		for i, row := range r.Rows {
			cells := make([]string, len(row))
			for j, c := range row {
				if r.Null[i][j] {
					cells[j] = "NULL"
				} else {
					cells[j] = c
				}
			}
			fmt.Printf("  | %s\n", strings.Join(cells, " | "))
		}
	}
}
