package main

import (
	"fmt"
	"go/ast"
	"regexp"
	"sort"
	"strings"

	"github.com/dolthub/go-mysql-server/memory"
	"github.com/dolthub/go-mysql-server/sql"
	"github.com/dolthub/go-mysql-server/sql/expression"
	"github.com/dolthub/go-mysql-server/sql/plan"
	"github.com/dolthub/go-mysql-server/sql/planbuilder"
	"github.com/dolthub/go-mysql-server/sql/transform"
	"github.com/dolthub/go-mysql-server/verifharness/hx/eng"
	"github.com/dolthub/go-mysql-server/verifharness/hx"
)

// Facts for C19: the order of the phases of the INSERT and UPDATE row pipelines, the shape of the
// check evaluation, of the NULL adjustment under IGNORE, of the derived-field rule, and the
// run-time fact that a table wrapped for its virtual columns no longer exposes its checks.

var ws = regexp.MustCompile(`\s+`)

func flat(s string) string { return strings.TrimSpace(ws.ReplaceAllString(s, " ")) }

// callOrder lists, in source order, which of the given call texts occur in the function body.
func callOrder(src *hx.Src, fd *ast.FuncDecl, wanted map[string]string) []string {
	type hit struct {
		pos  int
		name string
	}
	var hits []hit
	ast.Inspect(fd.Body, func(n ast.Node) bool {
		ce, ok := n.(*ast.CallExpr)
		if !ok {
			return true
		}
		if name, ok := wanted[flat(src.Text(ce.Fun))]; ok {
			hits = append(hits, hit{int(ce.Pos()), name})
		}
		return true
	})
	sort.Slice(hits, func(i, j int) bool { return hits[i].pos < hits[j].pos })
	var out []string
	for _, h := range hits {
		if len(out) == 0 || out[len(out)-1] != h.name {
			out = append(out, h.name)
		}
	}
	return out
}

func extract(a hx.ExtractArgs) error {
	ins, err := hx.ParseSrc(a.Repo, "sql/rowexec/insert.go")
	if err != nil {
		return err
	}
	upd, err := hx.ParseSrc(a.Repo, "sql/rowexec/update.go")
	if err != nil {
		return err
	}
	dml, err := hx.ParseSrc(a.Repo, "sql/planbuilder/dml.go")
	if err != nil {
		return err
	}
	from, err := hx.ParseSrc(a.Repo, "sql/planbuilder/from.go")
	if err != nil {
		return err
	}
	lf := hx.NewLeanFile("Gms.Generated.C19", ins.Path, upd.Path, dml.Path, from.Path, "sql/plan/virtual_column_table.go (run)")

	fd, err := ins.Func("insertIter", "Next")
	if err != nil {
		return err
	}
	lf.DefStringList("insertPhases", callOrder(ins, fd, map[string]string{
		"i.validateNullability": "nullability", "i.evaluateChecks": "checks", "col.Type.Convert": "convert",
		"typ.ConvertRound": "convert", "i.inserter.Insert": "insert", "i.replacer.Insert": "replace"}))
	fd, err = upd.Func("updateIter", "Next")
	if err != nil {
		return err
	}
	lf.DefStringList("updatePhases", callOrder(upd, fd, map[string]string{
		"oldRow.Equals": "equal?", "sql.EvaluateCondition": "checks", "u.validateNullability": "nullability", "u.updater.Update": "update"}))
	un := flat(upd.Text(fd.Body))
	lf.DefBool("updateSkipsUnchangedRows", strings.Contains(un, "if equals, err := oldRow.Equals(ctx, newRow, u.schema); err == nil { if !equals {"))
	lf.DefBool("updateCheckRejectsOnlyFalse", strings.Contains(un, "if !check.Enforced { continue }") && strings.Contains(un, "if sql.IsFalse(res) { return nil, u.ignoreOrError(ctx, newRow, sql.ErrCheckConstraintViolated.New(check.Name)) }"))

	fd, err = ins.Func("insertIter", "evaluateChecks")
	if err != nil {
		return err
	}
	ec := flat(ins.Text(fd.Body))
	lf.DefBool("insertCheckRejectsOnlyFalse", strings.Contains(ec, "if !check.Enforced { continue }") && strings.Contains(ec, "if sql.IsFalse(res) { return sql.ErrCheckConstraintViolated.New(check.Name) }"))
	fd, err = ins.Func("insertIter", "validateNullability")
	if err != nil {
		return err
	}
	vn := flat(ins.Text(fd.Body))
	lf.DefBool("insertIgnoreZeroesNull", strings.Contains(vn, "if !col.Nullable && row[count] == nil {") && strings.Contains(vn, "row[count] = col.Type.Zero()"))
	fd, err = upd.Func("updateIter", "validateNullability")
	if err != nil {
		return err
	}
	uvn := flat(upd.Text(fd.Body))
	lf.DefBool("updateIgnoreZeroesNull", strings.Contains(uvn, "if u.ignore { row[idx] = col.Type.Zero()"))
	fd, err = upd.Func("", "applyUpdateExpressionsWithIgnore")
	if err != nil {
		return err
	}
	au := flat(upd.Text(fd.Body))
	lf.DefBool("derivedFieldsOnlyWhenChanged", strings.Contains(au, "if updateExprs.HasDerivedUpdates() { if same, err := oldRow.Equals(ctx, row, tableSchema); err != nil { return nil, err } else if !same { for _, updateExpr := range updateExprs.DerivedUpdateExprs() {"))
	lf.DefBool("explicitFieldsLeftToRight", strings.Contains(au, "for _, updateExpr := range updateExprs.ExplicitUpdateExprs() { val, err := updateExpr.Eval(ctx, row)"))

	fd, err = dml.Func("Builder", "loadChecksFromTable")
	if err != nil {
		return err
	}
	lf.DefBool("checksLoadedThroughCheckTable", strings.Contains(flat(dml.Text(fd.Body)), "if checkTable, ok := table.(sql.CheckTable); ok {"))
	fd, err = dml.Func("Builder", "addDependentUpdateExprs")
	if err != nil {
		return err
	}
	lf.DefBool("generatedColumnsGetDerivedSet", strings.Contains(flat(dml.Text(fd.Body)), "if col.Generated != nil { generated = b.resolveColumnDefaultExpression(inScope, col, col.Generated) }"))
	fd, err = dml.Func("Builder", "buildInsertValues")
	if err != nil {
		return err
	}
	lf.DefBool("insertDefaultIsDefaultOrGenerated", strings.Contains(flat(dml.Text(fd.Body)), "columnDefaultValues[i] = destSchema[index].Default if columnDefaultValues[i] == nil && destSchema[index].Generated != nil { columnDefaultValues[i] = destSchema[index].Generated }"))
	wrapped := false
	for _, d := range from.File.Decls {
		if f, ok := d.(*ast.FuncDecl); ok && f.Body != nil {
			if strings.Contains(flat(from.Text(f.Body)), "if tab.Schema(b.ctx).HasVirtualColumns() { tab = b.buildVirtualTableScan(db, tab) }") {
				wrapped = true
			}
		}
	}
	lf.DefBool("virtualTablesAreWrapped", wrapped)

	// run time: does the wrapper expose the checks of the table it wraps?
	db := memory.NewDatabase("x")
	mt := memory.NewTable(sql.NewEmptyContext(), db, "t", sql.NewPrimaryKeySchema(sql.Schema{}), nil)
	var plainTab interface{} = mt
	_, plainIsCheck := plainTab.(sql.CheckTable)
	var wrappedTab interface{} = plan.NewVirtualColumnTable(mt, nil)
	_, wrapperIsCheck := wrappedTab.(sql.CheckTable)
	lf.DefBool("memoryTableIsCheckTable", plainIsCheck)
	lf.DefBool("virtualColumnTableIsCheckTable", wrapperIsCheck)
	// run time: which generated columns does the freshly compiled planner schedule for recomputation (derived SETs)
	// when a statement assigns only the base column of a chain of generated columns / an unrelated column?
	ds, err := derivedSets()
	if err != nil {
		return err
	}
	lf.DefStringList("derivedSetsOfChain", ds)
	return lf.Write(a.Out)
}

// derivedSets plans UPDATE and INSERT … ON DUPLICATE KEY UPDATE statements against
// t(c0 PK, c1, c2, c3 AS (c1*2), c4 AS (c3+1), c5 AS (c4+c2), c6 AS (c2*10)) with the real planbuilder and lists, per
// statement, the targets of the derived (not explicit) SET expressions in plan order.
func derivedSets() ([]string, error) {
	e := eng.New("d")
	ctx := e.Ctx()
	if r := e.Query(ctx, "CREATE TABLE t (c0 INT PRIMARY KEY, c1 INT, c2 INT, c3 INT AS (c1*2) STORED, c4 INT AS (c3+1) STORED, "+
		"c5 INT AS (c4+c2) STORED, c6 INT AS (c2*10) STORED)"); r.Class() != "ok" {
		return nil, fmt.Errorf("derivedSets: create table: %s", r.Class())
	}
	targets := func(ue *plan.UpdateExprs) (string, error) {
		if ue == nil {
			return "", fmt.Errorf("derivedSets: no update expressions in the plan")
		}
		var names []string
		for _, x := range ue.DerivedUpdateExprs() {
			sf, ok := x.(*expression.SetField)
			if !ok {
				return "", fmt.Errorf("derivedSets: derived update expression is a %T, not a SetField", x)
			}
			gf, ok := sf.LeftChild.(*expression.GetField)
			if !ok {
				return "", fmt.Errorf("derivedSets: target of a derived SET is a %T", sf.LeftChild)
			}
			names = append(names, strings.ToLower(gf.Name()))
		}
		return fmt.Sprintf("%d explicit; derived %s", len(ue.ExplicitUpdateExprs()), strings.Join(names, " ")), nil
	}
	var out []string
	for _, q := range []string{
		"UPDATE t SET c1 = 10",
		"UPDATE t SET c2 = 4 WHERE c0 = 1",
		"UPDATE t SET c0 = 7",
		"INSERT INTO t (c0, c1) VALUES (3, 50) ON DUPLICATE KEY UPDATE c1 = 9",
	} {
		qctx := eng.SameSession(ctx)
		qctx.SetCurrentDatabase("d")
		node, _, _, _, err := planbuilder.New(qctx, e.E.Analyzer.Catalog, e.E.EventScheduler).Parse(q, nil, false)
		if err != nil {
			return nil, fmt.Errorf("derivedSets: %s: %v", q, err)
		}
		var got string
		var ierr error
		found := false
		transform.Inspect(node, func(n sql.Node) bool {
			switch n := n.(type) {
			case *plan.UpdateSource:
				got, ierr = targets(n.UpdateExprs)
				found = true
			case *plan.InsertInto:
				got, ierr = targets(n.OnDupExprs)
				found = true
			}
			return !found
		})
		if ierr != nil {
			return nil, ierr
		}
		if !found {
			return nil, fmt.Errorf("derivedSets: %s: no UpdateSource / InsertInto node in the plan", q)
		}
		out = append(out, q+" => "+got)
	}
	return out, nil
}
