package main

import (
	"fmt"
	"go/ast"
	"regexp"
	"sort"
	"strings"

	"github.com/dolthub/go-mysql-server/memory"
	"github.com/dolthub/go-mysql-server/sql"
	"github.com/dolthub/go-mysql-server/sql/plan"
	"github.com/dolthub/go-mysql-server/verifharness/hx"
)

// Facts for C19: the order of the phases of the INSERT and UPDATE row pipelines, the shape of the
// check evaluation, of the NULL adjustment under IGNORE, of the derived-field rule, and the
// run-time fact that a table wrapped for its virtual columns no longer exposes its checks.

var ws = regexp.MustCompile(`\s+`)

func flat(s string) string { return strings.TrimSpace(ws.ReplaceAllString(s, " ")) }

// callOrder lists, in source order, which of the given call texts occur in the function body.
func callOrder(src *hx.Src, fd *ast.FuncDecl, wanted map[string]string) []string {
	type hit struct {
		pos  int
		name string
	}
	var hits []hit
	ast.Inspect(fd.Body, func(n ast.Node) bool {
		ce, ok := n.(*ast.CallExpr)
		if !ok {
			return true
		}
		if name, ok := wanted[flat(src.Text(ce.Fun))]; ok {
			hits = append(hits, hit{int(ce.Pos()), name})
		}
		return true
	})
	sort.Slice(hits, func(i, j int) bool { return hits[i].pos < hits[j].pos })
	var out []string
	for _, h := range hits {
		if len(out) == 0 || out[len(out)-1] != h.name {
			out = append(out, h.name)
		}
	}
	return out
}

func extract(a hx.ExtractArgs) error {
	ins, err := hx.ParseSrc(a.Repo, "sql/rowexec/insert.go")
	if err != nil {
		return err
	}
	upd, err := hx.ParseSrc(a.Repo, "sql/rowexec/update.go")
	if err != nil {
		return err
	}
	dml, err := hx.ParseSrc(a.Repo, "sql/planbuilder/dml.go")
	if err != nil {
		return err
	}
	from, err := hx.ParseSrc(a.Repo, "sql/planbuilder/from.go")
	if err != nil {
		return err
	}
	lf := hx.NewLeanFile("Gms.Generated.C19", ins.Path, upd.Path, dml.Path, from.Path, "sql/plan/virtual_column_table.go (run)")

	fd, err := ins.Func("insertIter", "Next")
	if err != nil {
		return err
	}
	lf.DefStringList("insertPhases", callOrder(ins, fd, map[string]string{
		"i.validateNullability": "nullability", "i.evaluateChecks": "checks", "col.Type.Convert": "convert",
		"typ.ConvertRound": "convert", "i.inserter.Insert": "insert", "i.replacer.Insert": "replace"}))
	fd, err = upd.Func("updateIter", "Next")
	if err != nil {
		return err
	}
	lf.DefStringList("updatePhases", callOrder(upd, fd, map[string]string{
		"oldRow.Equals": "equal?", "sql.EvaluateCondition": "checks", "u.validateNullability": "nullability", "u.updater.Update": "update"}))
	un := flat(upd.Text(fd.Body))
	lf.DefBool("updateSkipsUnchangedRows", strings.Contains(un, "if equals, err := oldRow.Equals(ctx, newRow, u.schema); err == nil { if !equals {"))
	lf.DefBool("updateCheckRejectsOnlyFalse", strings.Contains(un, "if !check.Enforced { continue }") && strings.Contains(un, "if sql.IsFalse(res) { return nil, u.ignoreOrError(ctx, newRow, sql.ErrCheckConstraintViolated.New(check.Name)) }"))

	fd, err = ins.Func("insertIter", "evaluateChecks")
	if err != nil {
		return err
	}
	ec := flat(ins.Text(fd.Body))
	lf.DefBool("insertCheckRejectsOnlyFalse", strings.Contains(ec, "if !check.Enforced { continue }") && strings.Contains(ec, "if sql.IsFalse(res) { return sql.ErrCheckConstraintViolated.New(check.Name) }"))
	fd, err = ins.Func("insertIter", "validateNullability")
	if err != nil {
		return err
	}
	vn := flat(ins.Text(fd.Body))
	lf.DefBool("insertIgnoreZeroesNull", strings.Contains(vn, "if !col.Nullable && row[count] == nil {") && strings.Contains(vn, "row[count] = col.Type.Zero()"))
	fd, err = upd.Func("updateIter", "validateNullability")
	if err != nil {
		return err
	}
	uvn := flat(upd.Text(fd.Body))
	lf.DefBool("updateIgnoreZeroesNull", strings.Contains(uvn, "if u.ignore { row[idx] = col.Type.Zero()"))
	fd, err = upd.Func("", "applyUpdateExpressionsWithIgnore")
	if err != nil {
		return err
	}
	au := flat(upd.Text(fd.Body))
	lf.DefBool("derivedFieldsOnlyWhenChanged", strings.Contains(au, "if updateExprs.HasDerivedUpdates() { if same, err := oldRow.Equals(ctx, row, tableSchema); err != nil { return nil, err } else if !same { for _, updateExpr := range updateExprs.DerivedUpdateExprs() {"))
	lf.DefBool("explicitFieldsLeftToRight", strings.Contains(au, "for _, updateExpr := range updateExprs.ExplicitUpdateExprs() { val, err := updateExpr.Eval(ctx, row)"))

	fd, err = dml.Func("Builder", "loadChecksFromTable")
	if err != nil {
		return err
	}
	lf.DefBool("checksLoadedThroughCheckTable", strings.Contains(flat(dml.Text(fd.Body)), "if checkTable, ok := table.(sql.CheckTable); ok {"))
	fd, err = dml.Func("Builder", "addDependentUpdateExprs")
	if err != nil {
		return err
	}
	lf.DefBool("generatedColumnsGetDerivedSet", strings.Contains(flat(dml.Text(fd.Body)), "if col.Generated != nil { generated = b.resolveColumnDefaultExpression(inScope, col, col.Generated) }"))
	fd, err = dml.Func("Builder", "buildInsertValues")
	if err != nil {
		return err
	}
	lf.DefBool("insertDefaultIsDefaultOrGenerated", strings.Contains(flat(dml.Text(fd.Body)), "columnDefaultValues[i] = destSchema[index].Default if columnDefaultValues[i] == nil && destSchema[index].Generated != nil { columnDefaultValues[i] = destSchema[index].Generated }"))
	wrapped := false
	for _, d := range from.File.Decls {
		if f, ok := d.(*ast.FuncDecl); ok && f.Body != nil {
			if strings.Contains(flat(from.Text(f.Body)), "if tab.Schema(b.ctx).HasVirtualColumns() { tab = b.buildVirtualTableScan(db, tab) }") {
				wrapped = true
			}
		}
	}
	lf.DefBool("virtualTablesAreWrapped", wrapped)

	// run time: does the wrapper expose the checks of the table it wraps?
	db := memory.NewDatabase("x")
	mt := memory.NewTable(sql.NewEmptyContext(), db, "t", sql.NewPrimaryKeySchema(sql.Schema{}), nil)
	var plainTab interface{} = mt
	_, plainIsCheck := plainTab.(sql.CheckTable)
	var wrappedTab interface{} = plan.NewVirtualColumnTable(mt, nil)
	_, wrapperIsCheck := wrappedTab.(sql.CheckTable)
	lf.DefBool("memoryTableIsCheckTable", plainIsCheck)
	lf.DefBool("virtualColumnTableIsCheckTable", wrapperIsCheck)
	_ = fmt.Sprint
	return lf.Write(a.Out)
}
