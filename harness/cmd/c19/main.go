// C19 — CHECK, NOT NULL, defaults and generated columns hold for stored rows
// (sql/planbuilder/dml.go, sql/rowexec/insert.go, sql/rowexec/update.go).
package main

import (
	"fmt"
	"strings"

	"github.com/dolthub/go-mysql-server/sql"
	"github.com/dolthub/go-mysql-server/verifharness/hx"
	"github.com/dolthub/go-mysql-server/verifharness/hx/eng"
)

func main() { hx.Main(extract, run) }

// ---------------------------------------------------------------------------------------------
// Case description (mirrors Gms.RowPipe).

type expr struct { // integer expression
	op   string // col lit add mul
	i    int
	null bool
	v    int
	a, b *expr
}

func col(i int) *expr        { return &expr{op: "col", i: i} }
func lit(v int) *expr        { return &expr{op: "lit", v: v} }
func litNull() *expr         { return &expr{op: "lit", null: true} }
func add(a, b *expr) *expr   { return &expr{op: "add", a: a, b: b} }
func mul(a, b *expr) *expr   { return &expr{op: "mul", a: a, b: b} }

func (e *expr) SQL() string {
	switch e.op {
	case "col":
		return fmt.Sprintf("c%d", e.i)
	case "lit":
		if e.null {
			return "NULL"
		}
		return fmt.Sprintf("%d", e.v)
	case "add":
		return "(" + e.a.SQL() + " + " + e.b.SQL() + ")"
	default:
		return "(" + e.a.SQL() + " * " + e.b.SQL() + ")"
	}
}

func (e *expr) payload() string {
	switch e.op {
	case "col":
		return fmt.Sprintf("(col %d)", e.i)
	case "lit":
		if e.null {
			return "(lit null)"
		}
		return fmt.Sprintf("(lit %d)", e.v)
	default:
		return fmt.Sprintf("(%s %s %s)", e.op, e.a.payload(), e.b.payload())
	}
}

type bexpr struct {
	op   string // lt le eq ne isnull and or not
	a, b *expr
	p, q *bexpr
}

func (b *bexpr) SQL() string {
	switch b.op {
	case "lt":
		return "(" + b.a.SQL() + " < " + b.b.SQL() + ")"
	case "le":
		return "(" + b.a.SQL() + " <= " + b.b.SQL() + ")"
	case "eq":
		return "(" + b.a.SQL() + " = " + b.b.SQL() + ")"
	case "ne":
		return "(" + b.a.SQL() + " <> " + b.b.SQL() + ")"
	case "isnull":
		return "(" + b.a.SQL() + " IS NULL)"
	case "and":
		return "(" + b.p.SQL() + " AND " + b.q.SQL() + ")"
	case "or":
		return "(" + b.p.SQL() + " OR " + b.q.SQL() + ")"
	default:
		return "(NOT " + b.p.SQL() + ")"
	}
}

func (b *bexpr) payload() string {
	switch b.op {
	case "lt", "le", "eq", "ne":
		return fmt.Sprintf("(%s %s %s)", b.op, b.a.payload(), b.b.payload())
	case "isnull":
		return fmt.Sprintf("(isnull %s)", b.a.payload())
	case "and", "or":
		return fmt.Sprintf("(%s %s %s)", b.op, b.p.payload(), b.q.payload())
	default:
		return fmt.Sprintf("(not %s)", b.p.payload())
	}
}

type colSpec struct {
	notNull bool
	dflt    *expr
	gen     *expr
	virtual bool
}

type check struct {
	e        *bexpr
	enforced bool
}

type table struct {
	cols   []colSpec
	checks []check
}

func (t *table) hasVirtual() bool {
	for _, c := range t.cols {
		if c.gen != nil && c.virtual {
			return true
		}
	}
	return false
}

func (t *table) payload() string {
	var b strings.Builder
	b.WriteString("(cols")
	for _, c := range t.cols {
		nn, d, g := 0, "-", "-"
		if c.notNull {
			nn = 1
		}
		if c.dflt != nil {
			d = c.dflt.payload()
		}
		if c.gen != nil {
			k := "s"
			if c.virtual {
				k = "v"
			}
			g = "(" + k + " " + c.gen.payload() + ")"
		}
		fmt.Fprintf(&b, " (%d %s %s)", nn, d, g)
	}
	b.WriteString(") (checks")
	for _, c := range t.checks {
		e := 0
		if c.enforced {
			e = 1
		}
		fmt.Fprintf(&b, " (%d %s)", e, c.e.payload())
	}
	b.WriteString(")")
	return b.String()
}

func (t *table) DDL() string {
	var parts []string
	for i, c := range t.cols {
		switch {
		case i == 0:
			parts = append(parts, "c0 INT PRIMARY KEY")
		case c.gen != nil:
			k := "STORED"
			if c.virtual {
				k = "VIRTUAL"
			}
			parts = append(parts, fmt.Sprintf("c%d INT AS (%s) %s", i, c.gen.SQL(), k))
		default:
			s := fmt.Sprintf("c%d INT", i)
			if c.notNull {
				s += " NOT NULL"
			}
			if c.dflt != nil {
				if c.dflt.op == "lit" {
					s += " DEFAULT " + c.dflt.SQL()
				} else {
					s += " DEFAULT (" + c.dflt.SQL() + ")"
				}
			}
			parts = append(parts, s)
		}
	}
	for i, c := range t.checks {
		s := fmt.Sprintf("CONSTRAINT k%d CHECK %s", i, c.e.SQL())
		if !c.enforced {
			s += " NOT ENFORCED"
		}
		parts = append(parts, s)
	}
	return "CREATE TABLE t (" + strings.Join(parts, ", ") + ")"
}

type src struct {
	kind string // v d e
	null bool
	v    int
	e    *expr
}

func (s src) SQL() string {
	switch s.kind {
	case "d":
		return "DEFAULT"
	case "e":
		return s.e.SQL()
	}
	if s.null {
		return "NULL"
	}
	return fmt.Sprint(s.v)
}

func (s src) payload() string {
	switch s.kind {
	case "d":
		return "(d)"
	case "e":
		return "(e " + s.e.payload() + ")"
	}
	if s.null {
		return "(v null)"
	}
	return fmt.Sprintf("(v %d)", s.v)
}

type stmt struct {
	kind   string // ins upd del odku (INSERT of one tuple … ON DUPLICATE KEY UPDATE sets)
	ignore bool
	cols   []int
	tuples [][]src
	sets   []struct {
		c int
		s src
	}
	hasKey bool
	key    int
}

func (st stmt) SQL() string {
	ig := ""
	if st.ignore {
		ig = " IGNORE"
	}
	switch st.kind {
	case "odku":
		ins := st
		ins.kind = "ins"
		ss := make([]string, len(st.sets))
		for i, s := range st.sets {
			ss[i] = fmt.Sprintf("c%d = %s", s.c, s.s.SQL())
		}
		return ins.SQL() + " ON DUPLICATE KEY UPDATE " + strings.Join(ss, ", ")
	case "ins":
		cs := make([]string, len(st.cols))
		for i, c := range st.cols {
			cs[i] = fmt.Sprintf("c%d", c)
		}
		ts := make([]string, len(st.tuples))
		for i, t := range st.tuples {
			vs := make([]string, len(t))
			for j, v := range t {
				vs[j] = v.SQL()
			}
			ts[i] = "(" + strings.Join(vs, ",") + ")"
		}
		return fmt.Sprintf("INSERT%s INTO t (%s) VALUES %s", ig, strings.Join(cs, ","), strings.Join(ts, ","))
	case "upd":
		ss := make([]string, len(st.sets))
		for i, s := range st.sets {
			ss[i] = fmt.Sprintf("c%d = %s", s.c, s.s.SQL())
		}
		w := ""
		if st.hasKey {
			w = fmt.Sprintf(" WHERE c0 = %d", st.key)
		}
		return fmt.Sprintf("UPDATE%s t SET %s%s", ig, strings.Join(ss, ", "), w)
	default:
		return fmt.Sprintf("DELETE FROM t WHERE c0 = %d", st.key)
	}
}

func b01(b bool) int {
	if b {
		return 1
	}
	return 0
}

func (st stmt) payload() string {
	switch st.kind {
	case "odku":
		cs := make([]string, len(st.cols))
		for i, c := range st.cols {
			cs[i] = fmt.Sprint(c)
		}
		vs := make([]string, len(st.tuples[0]))
		for j, v := range st.tuples[0] {
			vs[j] = v.payload()
		}
		ss := make([]string, len(st.sets))
		for i, s := range st.sets {
			ss[i] = fmt.Sprintf("(%d %s)", s.c, s.s.payload())
		}
		return fmt.Sprintf("(odku (%s) (%s) (%s))", strings.Join(cs, " "), strings.Join(vs, " "), strings.Join(ss, " "))
	case "ins":
		cs := make([]string, len(st.cols))
		for i, c := range st.cols {
			cs[i] = fmt.Sprint(c)
		}
		ts := make([]string, len(st.tuples))
		for i, t := range st.tuples {
			vs := make([]string, len(t))
			for j, v := range t {
				vs[j] = v.payload()
			}
			ts[i] = "(" + strings.Join(vs, " ") + ")"
		}
		return fmt.Sprintf("(ins %d (%s) %s)", b01(st.ignore), strings.Join(cs, " "), strings.Join(ts, " "))
	case "upd":
		ss := make([]string, len(st.sets))
		for i, s := range st.sets {
			ss[i] = fmt.Sprintf("(%d %s)", s.c, s.s.payload())
		}
		k := "all"
		if st.hasKey {
			k = fmt.Sprint(st.key)
		}
		return fmt.Sprintf("(upd %d (%s) %s)", b01(st.ignore), strings.Join(ss, " "), k)
	default:
		return fmt.Sprintf("(del %d)", st.key)
	}
}

// ---------------------------------------------------------------------------------------------
// Real engine.

func class(r *eng.Res) string {
	if r.Err != nil && (sql.ErrCheckConstraintViolated.Is(r.Err) || strings.Contains(r.Err.Error(), "Check constraint")) {
		return "err:check" // the kind is wrapped by the insert iterator; recognise it by its text as well
	}
	return r.Class()
}

type realT struct {
	e   *eng.Eng
	ctx *sql.Context
	t   *table
}

func (d *realT) q(s string) *eng.Res { return d.e.Query(eng.SameSession(d.ctx), s) }

func (d *realT) dump() string {
	r := d.q("SELECT * FROM t ORDER BY c0")
	if r.Class() != "ok" {
		return "dump:" + r.Class()
	}
	var sb strings.Builder
	for i, row := range r.Rows {
		cells := make([]string, len(row))
		for j, c := range row {
			if r.Null[i][j] {
				cells[j] = "null"
			} else {
				cells[j] = c
			}
		}
		sb.WriteString("[" + strings.Join(cells, ",") + "]")
	}
	return sb.String()
}

// storedHolds evaluates the property on the stored rows with the engine's own expression
// evaluator (no model): no enforced CHECK is FALSE, no NOT NULL column is NULL, every generated
// column equals its expression.
func (d *realT) storedHolds() (bool, string) {
	count := func(cond string) int {
		r := d.q("SELECT COUNT(*) FROM t WHERE " + cond)
		if r.Class() != "ok" || len(r.Rows) != 1 {
			return -1
		}
		var n int
		fmt.Sscan(r.Rows[0][0], &n)
		return n
	}
	for i, c := range d.t.checks {
		if c.enforced {
			if n := count("NOT " + c.e.SQL()); n != 0 {
				return false, fmt.Sprintf("check k%d %s is FALSE for %d stored row(s)", i, c.e.SQL(), n)
			}
		}
	}
	for i, c := range d.t.cols {
		if (c.notNull || i == 0) && c.gen == nil {
			if n := count(fmt.Sprintf("c%d IS NULL", i)); n != 0 {
				return false, fmt.Sprintf("NOT NULL column c%d holds NULL in %d row(s)", i, n)
			}
		}
		if c.gen != nil {
			if n := count(fmt.Sprintf("NOT (c%d <=> %s)", i, c.gen.SQL())); n != 0 {
				return false, fmt.Sprintf("generated column c%d differs from %s in %d row(s)", i, c.gen.SQL(), n)
			}
		}
	}
	return true, ""
}

// defaultsHold evaluates "omitted columns get their declared default" with the engine's own
// evaluator for the tuples a successful plain INSERT stored: every plain column the tuple omitted or
// gave as DEFAULT is <=> its DEFAULT expression (NULL when it has none) over the stored row.
func (d *realT) defaultsHold(st stmt) (bool, string) {
	if st.kind != "ins" || st.ignore {
		return true, ""
	}
	for _, tup := range st.tuples {
		given := map[int]bool{}
		key := 0
		for j, c := range st.cols {
			if c == 0 {
				key = tup[j].v
			}
			if tup[j].kind != "d" {
				given[c] = true
			}
		}
		for i, c := range d.t.cols {
			if i == 0 || c.gen != nil || given[i] {
				continue
			}
			want := "NULL"
			if c.dflt != nil {
				want = c.dflt.SQL()
			}
			r := d.q(fmt.Sprintf("SELECT COUNT(*) FROM t WHERE c0 = %d AND (c%d <=> %s)", key, i, want))
			if r.Class() != "ok" || len(r.Rows) != 1 || r.Rows[0][0] != "1" {
				return false, fmt.Sprintf("row %d: omitted column c%d does not hold its default %s", key, i, want)
			}
		}
	}
	return true, ""
}

// ---------------------------------------------------------------------------------------------
// Generators.

func genTable(r *hx.Rand) *table {
	t := &table{}
	t.cols = append(t.cols, colSpec{notNull: true})
	np := 1 + r.Intn(3)
	for i := 1; i <= np; i++ {
		c := colSpec{notNull: r.Chance(1, 3)}
		switch r.Intn(5) {
		case 0:
			c.dflt = lit(r.Intn(9) - 2)
		case 1:
			c.dflt = add(mul(col(0), lit(1+r.Intn(2))), lit(r.Intn(4)))
		case 2:
			if !c.notNull {
				c.dflt = litNull()
			}
		}
		if c.notNull && c.dflt == nil {
			c.dflt = lit(1 + r.Intn(5)) // an omitted NOT NULL column always has a default in this envelope
		}
		t.cols = append(t.cols, c)
	}
	plain := func() *expr { return col(1 + r.Intn(np)) }
	ng := r.Intn(3)
	virtual := r.Chance(1, 4)
	for i := 0; i < ng; i++ {
		var e *expr
		switch r.Intn(3) {
		case 0:
			e = add(plain(), lit(r.Intn(4)))
		case 1:
			e = mul(plain(), lit(2))
		default:
			e = add(plain(), plain())
		}
		t.cols = append(t.cols, colSpec{gen: e, virtual: virtual && r.Chance(2, 3)})
	}
	anyCol := func() *expr { return col(r.Intn(len(t.cols))) }
	nc := r.Intn(3)
	if r.Chance(1, 2) && nc == 0 {
		nc = 1
	}
	for i := 0; i < nc; i++ {
		var b *bexpr
		k := lit(r.Intn(12) - 1)
		switch r.Intn(7) {
		case 0:
			b = &bexpr{op: "lt", a: anyCol(), b: k}
		case 1:
			b = &bexpr{op: "ne", a: anyCol(), b: k}
		case 2:
			b = &bexpr{op: "le", a: k, b: anyCol()}
		case 3:
			b = &bexpr{op: "ne", a: add(anyCol(), anyCol()), b: k}
		case 4:
			x := anyCol()
			b = &bexpr{op: "or", p: &bexpr{op: "lt", a: k, b: x}, q: &bexpr{op: "isnull", a: x}}
		case 5:
			b = &bexpr{op: "not", p: &bexpr{op: "eq", a: anyCol(), b: k}}
		default:
			b = &bexpr{op: "and", p: &bexpr{op: "le", a: anyCol(), b: lit(8 + r.Intn(6))}, q: &bexpr{op: "ne", a: anyCol(), b: k}}
		}
		t.checks = append(t.checks, check{e: b, enforced: !r.Chance(1, 7)})
	}
	return t
}

func genSrcVal(r *hx.Rand) src {
	switch x := r.Intn(12); {
	case x < 2:
		return src{kind: "v", null: true}
	case x < 3:
		return src{kind: "d"}
	}
	return src{kind: "v", v: r.Intn(13) - 2}
}

func (t *table) plainCols() []int {
	var out []int
	for i, c := range t.cols {
		if i > 0 && c.gen == nil {
			out = append(out, i)
		}
	}
	return out
}

func genStmt(r *hx.Rand, t *table, keys []int) stmt {
	plain := t.plainCols()
	pickKey := func() int {
		if len(keys) > 0 && r.Chance(4, 5) {
			return hx.Pick(r, keys)
		}
		return 1 + r.Intn(8)
	}
	switch x := r.Intn(100); {
	case x < 45:
		st := stmt{kind: "ins", ignore: r.Chance(1, 4), cols: []int{0}}
		for _, c := range plain {
			if r.Chance(2, 3) {
				st.cols = append(st.cols, c)
			}
		}
		r2 := r.Intn(len(st.cols)) // shuffle a little: move one column to the end
		st.cols[r2], st.cols[len(st.cols)-1] = st.cols[len(st.cols)-1], st.cols[r2]
		n := 1 + r.Intn(3)
		for i := 0; i < n; i++ {
			var tup []src
			for _, c := range st.cols {
				if c == 0 {
					k := 1 + r.Intn(8)
					if r.Chance(3, 4) { // mostly fresh keys
						for try := 0; try < 5; try++ {
							used := false
							for _, kk := range keys {
								if kk == k {
									used = true
								}
							}
							if !used {
								break
							}
							k = 1 + r.Intn(9)
						}
					}
					tup = append(tup, src{kind: "v", v: k})
				} else {
					tup = append(tup, genSrcVal(r))
				}
			}
			st.tuples = append(st.tuples, tup)
		}
		return st
	case x < 88:
		st := stmt{kind: "upd", ignore: r.Chance(1, 4), hasKey: r.Chance(4, 5), key: pickKey()}
		n := 1 + r.Intn(2)
		for i := 0; i < n; i++ {
			c := 0
			if len(plain) > 0 && !r.Chance(1, 10) {
				c = hx.Pick(r, plain)
			}
			var s src
			switch y := r.Intn(10); {
			case y < 6 || c == 0:
				s = genSrcVal(r)
				if c == 0 && (s.null || s.kind == "d") {
					s = src{kind: "v", v: 1 + r.Intn(9)}
				}
			case y < 8 && len(plain) > 0:
				s = src{kind: "e", e: add(col(hx.Pick(r, plain)), lit(r.Intn(3)))}
			default:
				s = src{kind: "e", e: mul(col(c), lit(2))}
			}
			st.sets = append(st.sets, struct {
				c int
				s src
			}{c, s})
		}
		return st
	default:
		return stmt{kind: "del", hasKey: true, key: pickKey()}
	}
}

// genChainTable: generated columns defined over OTHER generated columns (g1 AS (a*2), g2 AS (g1+1), g3 AS
// (g2+b) …): chains of depth 2-4 whose links mention earlier columns only (the engine rejects forward
// references). Mostly STORED, no IGNORE-sensitive NOT NULL columns, at most one CHECK — so that a stale link is
// not hidden inside one of the two known regions.
func genChainTable(r *hx.Rand) *table {
	t := &table{}
	t.cols = append(t.cols, colSpec{notNull: true})
	np := 1 + r.Intn(2)
	for i := 1; i <= np; i++ {
		c := colSpec{}
		switch r.Intn(4) {
		case 0:
			c.dflt = lit(r.Intn(9) - 2)
		case 1:
			c.dflt = add(mul(col(0), lit(1+r.Intn(2))), lit(r.Intn(4)))
		}
		t.cols = append(t.cols, c)
	}
	ng := 2 + r.Intn(3)
	virtual := r.Chance(1, 8)
	for i := 0; i < ng; i++ {
		n := len(t.cols)
		// the link: the previous generated column (the chain), or any earlier generated / plain column (a side branch)
		link := func() *expr {
			if i > 0 && r.Chance(3, 4) {
				return col(n - 1)
			}
			if i > 0 && r.Chance(1, 3) {
				return col(np + 1 + r.Intn(i))
			}
			return col(1 + r.Intn(np))
		}
		var e *expr
		switch r.Intn(4) {
		case 0:
			e = add(link(), lit(1+r.Intn(3)))
		case 1:
			e = mul(link(), lit(2))
		case 2:
			e = add(link(), col(1+r.Intn(np))) // chain link + a plain column (the demo's tot AS (dbl1+fee))
		default:
			e = add(link(), link())
		}
		t.cols = append(t.cols, colSpec{gen: e, virtual: virtual && r.Chance(1, 2)})
	}
	if r.Chance(1, 3) {
		x := col(r.Intn(len(t.cols)))
		k := lit(r.Intn(12) - 1)
		var b *bexpr
		switch r.Intn(3) {
		case 0:
			b = &bexpr{op: "ne", a: x, b: k}
		case 1:
			b = &bexpr{op: "or", p: &bexpr{op: "lt", a: k, b: x}, q: &bexpr{op: "isnull", a: x}}
		default:
			b = &bexpr{op: "le", a: x, b: lit(20 + r.Intn(30))}
		}
		t.checks = append(t.checks, check{e: b, enforced: true})
	}
	return t
}

// genChainStmt: histories for chain tables: INSERTs to have rows, then mostly UPDATEs that assign ONE base column
// (constant, expression over itself or another plain column, DEFAULT) by key or unrestricted, sometimes two base
// columns, sometimes a generated column = DEFAULT; no IGNORE.
func genChainStmt(r *hx.Rand, t *table, keys []int) stmt {
	plain := t.plainCols()
	if len(keys) == 0 || r.Chance(1, 5) {
		st := stmt{kind: "ins", cols: []int{0}}
		for _, c := range plain {
			if r.Chance(4, 5) {
				st.cols = append(st.cols, c)
			}
		}
		n := 1 + r.Intn(3)
		used := map[int]bool{}
		for _, k := range keys {
			used[k] = true
		}
		for i := 0; i < n; i++ {
			k := 1 + r.Intn(9)
			for try := 0; try < 6 && used[k]; try++ {
				k = 1 + r.Intn(9)
			}
			used[k] = true
			tup := []src{sv(k)}
			for range st.cols[1:] {
				if r.Chance(1, 10) {
					tup = append(tup, snull())
				} else {
					tup = append(tup, sv(r.Intn(13)-2))
				}
			}
			st.tuples = append(st.tuples, tup)
		}
		return st
	}
	if r.Chance(1, 12) {
		return stmt{kind: "del", hasKey: true, key: hx.Pick(r, keys)}
	}
	st := stmt{kind: "upd", hasKey: r.Chance(3, 4), key: hx.Pick(r, keys)}
	if r.Chance(1, 4) {
		// INSERT … ON DUPLICATE KEY UPDATE of a base column: one tuple, mostly with an existing key (the update path),
		// sometimes with a fresh one (the insert path); the tuple always names every plain column with a value
		k := hx.Pick(r, keys)
		if r.Chance(1, 6) {
			k = 1 + r.Intn(9)
		}
		st = stmt{kind: "odku", cols: []int{0}, tuples: [][]src{{sv(k)}}}
		for _, c := range plain {
			st.cols = append(st.cols, c)
			st.tuples[0] = append(st.tuples[0], sv(r.Intn(13)-2))
		}
	}
	n := 1
	if r.Chance(1, 5) {
		n = 2
	}
	for i := 0; i < n; i++ {
		c := hx.Pick(r, plain)
		var s src
		switch y := r.Intn(10); {
		case y < 5:
			s = sv(r.Intn(13) - 2)
		case y < 6:
			s = snull()
		case y < 7:
			s = src{kind: "d"}
		case y < 9:
			s = src{kind: "e", e: add(col(c), lit(1+r.Intn(3)))}
		default:
			s = src{kind: "e", e: add(col(hx.Pick(r, plain)), lit(r.Intn(3)))}
		}
		st.sets = append(st.sets, setT{c, s})
	}
	if st.kind == "upd" && r.Chance(1, 12) { // a generated column assigned DEFAULT beside a base column
		for i, c := range t.cols {
			if c.gen != nil && r.Chance(1, 2) {
				st.sets = append(st.sets, setT{i, src{kind: "d"}})
				break
			}
		}
	}
	return st
}

func (t *table) chainDepth() int {
	depth := make([]int, len(t.cols))
	best := 0
	var walk func(e *expr) int
	walk = func(e *expr) int {
		switch e.op {
		case "col":
			return depth[e.i]
		case "lit":
			return 0
		}
		a, b := walk(e.a), walk(e.b)
		if a > b {
			return a
		}
		return b
	}
	for i, c := range t.cols {
		if c.gen != nil {
			depth[i] = 1 + walk(c.gen)
			if depth[i] > best {
				best = depth[i]
			}
		}
	}
	return best
}

// ---------------------------------------------------------------------------------------------

func runCase(t *table, nst int, next func(i int, keys []int) stmt, out *hx.Out) {
	e := eng.New("d")
	d := &realT{e: e, ctx: e.Ctx(), t: t}
	if r := d.q(t.DDL()); r.Class() != "ok" {
		// every generated table is valid: a rejected DDL is an observation the model does not predict
		out.Stat("ddl-rejected:" + r.Class())
		var ps []string
		for i := 0; i < nst; i++ {
			ps = append(ps, next(i, nil).payload())
		}
		out.Case(t.payload()+" (stmts "+strings.Join(ps, " ")+")", "ddl-rejected:"+r.Class()+" "+t.DDL(), false)
		return
	}
	var sb strings.Builder
	var parts []string
	var failures []string
	rejected, adjusted, chainUpd := false, false, false
	depth := t.chainDepth()
	before := d.dump()
	for i := 0; i < nst; i++ {
		var keys []int
		for _, row := range strings.Split(strings.Trim(before, "[]"), "][") {
			var k int
			if _, err := fmt.Sscan(strings.SplitN(row, ",", 2)[0], &k); err == nil {
				keys = append(keys, k)
			}
		}
		st := next(i, keys)
		parts = append(parts, st.payload())
		r := d.q(st.SQL())
		cl := class(r)
		after := d.dump()
		ok, why := d.storedHolds()
		flag := "1"
		if !ok {
			flag = "0"
			failures = append(failures, fmt.Sprintf("stmt %d (%s): %s; table %s", i, st.SQL(), why, after))
		}
		if cl == "ok" {
			if ok, why := d.defaultsHold(st); !ok {
				failures = append(failures, fmt.Sprintf("stmt %d (%s): %s; table %s", i, st.SQL(), why, after))
			}
		}
		if cl != "ok" && before != after {
			failures = append(failures, fmt.Sprintf("stmt %d (%s) failed with %s but changed the data: %s -> %s", i, st.SQL(), cl, before, after))
		}
		if cl == "err:check" || cl == "err:1048" {
			rejected = true
		}
		if st.ignore && cl == "ok" {
			adjusted = true
		}
		if depth >= 2 && (st.kind == "upd" || st.kind == "odku") && cl == "ok" && before != after {
			chainUpd = true // an UPDATE changed a row whose generated columns form a chain
		}
		out.Stat("stmt:" + st.kind)
		out.Stat("class:" + cl)
		fmt.Fprintf(&sb, "%s;%s;ok=%s|", cl, after, flag)
		before = after
	}
	if t.hasVirtual() {
		out.Stat("table:virtual")
	}
	out.StatN("checks", len(t.checks))
	out.Stat(fmt.Sprintf("gen-chain-depth:%d", depth))
	if chainUpd {
		out.Stat("chain:update-changed-row")
	}
	id := out.Case(t.payload()+" (stmts "+strings.Join(parts, " ")+")", sb.String(), rejected || adjusted || chainUpd)
	for _, f := range failures {
		out.OracleFail(id, "-", f)
	}
}

func sv(v int) src { return src{kind: "v", v: v} }
func snull() src   { return src{kind: "v", null: true} }

type setT = struct {
	c int
	s src
}

func run(a hx.RunArgs) error {
	out := hx.NewOut(a.OutDir)
	defer out.Close()
	out.Rule = "DML histories (INSERT [IGNORE] with column lists, NULL and DEFAULT values, multi-row; UPDATE [IGNORE] with constant, DEFAULT and " +
		"expression assignments, by key or unrestricted; DELETE by key) on generated tables: integer primary key, 1-3 plain columns (NULL / NOT NULL, " +
		"no / literal / expression default), 0-2 generated columns (STORED / VIRTUAL), 0-2 CHECK constraints (comparisons, AND / OR / NOT / IS NULL, " +
		"ENFORCED / NOT ENFORCED); a second stream of tables whose 2-4 generated columns are defined over OTHER generated columns (chains of depth " +
		"2-4, side branches) with histories that mostly UPDATE one base column; after every statement the outcome class, the table and the engine-evaluated Stored predicate are observed; " +
		"non-trivial = a CHECK or NOT NULL rejected a statement, an IGNORE statement ran, or an UPDATE changed a row of a table whose generated columns form a chain of depth >= 2"
	// (hx.NewRand(seed) streams are shifts of one another; derive the generator from an output)
	r0 := hx.NewRand(a.Seed)
	r := hx.NewRand(r0.U64())
	rc := hx.NewRand(r0.U64() ^ 0x9e3779b97f4a7c15) // the chain stream (generated columns over generated columns)
	fixed := func(t *table, stmts []stmt) {
		runCase(t, len(stmts), func(i int, _ []int) stmt { return stmts[i] }, out)
	}
	// corpus ------------------------------------------------------------------------------------
	{ // finding virtual_column_disables_checks (DESIGN §8 F-C19-a)
		t := &table{cols: []colSpec{{notNull: true}, {}, {gen: mul(col(0), lit(2)), virtual: true}},
			checks: []check{{e: &bexpr{op: "lt", a: lit(0), b: col(1)}, enforced: true}}}
		fixed(t, []stmt{{kind: "ins", cols: []int{0, 1}, tuples: [][]src{{sv(1), sv(-1)}}}})
		// the same table with a STORED column rejects the row
		t2 := &table{cols: []colSpec{{notNull: true}, {}, {gen: mul(col(0), lit(2))}}, checks: t.checks}
		fixed(t2, []stmt{{kind: "ins", cols: []int{0, 1}, tuples: [][]src{{sv(1), sv(-1)}}},
			{kind: "ins", cols: []int{0, 1}, tuples: [][]src{{sv(1), sv(1)}}},
			{kind: "upd", sets: []setT{{0, sv(5)}}},
			{kind: "upd", sets: []setT{{1, sv(-2)}}}})
	}
	{ // finding ignore_null_adjustment: INSERT IGNORE / UPDATE IGNORE of NULL into NOT NULL
		t := &table{cols: []colSpec{{notNull: true}, {notNull: true, dflt: lit(3)}, {gen: add(col(1), lit(1))}},
			checks: []check{{e: &bexpr{op: "ne", a: col(1), b: lit(0)}, enforced: true}}}
		fixed(t, []stmt{{kind: "ins", ignore: true, cols: []int{0, 1}, tuples: [][]src{{sv(1), snull()}}}})
		fixed(t, []stmt{{kind: "ins", cols: []int{0, 1}, tuples: [][]src{{sv(2), sv(5)}}},
			{kind: "upd", ignore: true, sets: []setT{{1, snull()}}, hasKey: true, key: 2}})
		// the INSERT IGNORE half (Props/C19.lean wT3/wH3): c2 is computed from the NULL that is adjusted afterwards
		t3 := &table{cols: t.cols}
		fixed(t3, []stmt{{kind: "ins", ignore: true, cols: []int{0, 1}, tuples: [][]src{{sv(1), snull()}}}})
	}
	{ // defaults, DEFAULT keyword, NULL passes a check, NOT ENFORCED is not enforced
		t := &table{cols: []colSpec{{notNull: true}, {dflt: lit(5)}, {dflt: add(col(0), lit(1))}, {notNull: true, dflt: lit(7)}},
			checks: []check{{e: &bexpr{op: "ne", a: col(1), b: lit(6)}, enforced: true}, {e: &bexpr{op: "lt", a: col(2), b: lit(0)}, enforced: false}}}
		fixed(t, []stmt{
			{kind: "ins", cols: []int{0}, tuples: [][]src{{sv(1)}}},
			{kind: "ins", cols: []int{0, 1}, tuples: [][]src{{sv(2), {kind: "d"}}}},
			{kind: "ins", cols: []int{0, 3}, tuples: [][]src{{sv(3), snull()}}},
			{kind: "ins", ignore: true, cols: []int{0, 3}, tuples: [][]src{{sv(4), snull()}}},
			{kind: "ins", ignore: true, cols: []int{0, 1}, tuples: [][]src{{sv(5), sv(6)}, {sv(6), snull()}}},
			{kind: "upd", sets: []setT{{1, sv(6)}}, hasKey: true, key: 1},
			{kind: "upd", ignore: true, sets: []setT{{1, sv(6)}}},
			{kind: "upd", sets: []setT{{3, snull()}}, hasKey: true, key: 1},
			{kind: "upd", sets: []setT{{2, src{kind: "d"}}, {1, src{kind: "e", e: add(col(2), lit(1))}}}},
		})
	}

	{ // generated columns over generated columns: every link of the chain is recomputed when only the base column is assigned
		// (the demo table of seeded/C19-1: qty, fee, dbl AS (qty*2), dbl1 AS (dbl+1), tot AS (dbl1+fee), feex AS (fee*10))
		t := &table{cols: []colSpec{{notNull: true}, {}, {dflt: lit(0)}, {gen: mul(col(1), lit(2))}, {gen: add(col(3), lit(1))},
			{gen: add(col(4), col(2))}, {gen: mul(col(2), lit(10))}}}
		fixed(t, []stmt{
			{kind: "ins", cols: []int{0, 1, 2}, tuples: [][]src{{sv(1), sv(1), sv(1)}, {sv(2), sv(2), sv(0)}, {sv(3), sv(3), sv(5)}}},
			{kind: "upd", sets: []setT{{1, sv(10)}}, hasKey: true, key: 2},
			{kind: "upd", sets: []setT{{2, sv(4)}}, hasKey: true, key: 1},
			{kind: "upd", sets: []setT{{1, src{kind: "e", e: add(col(1), lit(1))}}, {2, src{kind: "e", e: add(col(2), lit(1))}}}},
			{kind: "upd", sets: []setT{{1, snull()}}, hasKey: true, key: 3},
			{kind: "upd", sets: []setT{{1, sv(7)}, {4, src{kind: "d"}}}, hasKey: true, key: 1},
			{kind: "upd", sets: []setT{{1, sv(7)}}}, // rows 1 unchanged: skipped
			{kind: "odku", cols: []int{0, 1}, tuples: [][]src{{sv(3), sv(50)}}, sets: []setT{{1, sv(9)}}},                              // existing key: update path
			{kind: "odku", cols: []int{0, 1}, tuples: [][]src{{sv(4), sv(50)}}, sets: []setT{{1, sv(9)}}},                              // fresh key: insert path
			{kind: "odku", cols: []int{0, 1, 2}, tuples: [][]src{{sv(4), sv(0), sv(0)}}, sets: []setT{{2, src{kind: "e", e: add(col(2), lit(3))}}}}, // c2 = c2 + 3
		})
		// depth 3 with a CHECK on the last link: the CHECK sees the recomputed chain
		t2 := &table{cols: []colSpec{{notNull: true}, {}, {gen: add(col(1), lit(1))}, {gen: mul(col(2), lit(2))}, {gen: add(col(3), col(2))}},
			checks: []check{{e: &bexpr{op: "le", a: col(4), b: lit(30)}, enforced: true}}}
		fixed(t2, []stmt{
			{kind: "ins", cols: []int{0, 1}, tuples: [][]src{{sv(1), sv(1)}, {sv(2), sv(2)}}},
			{kind: "upd", sets: []setT{{1, sv(5)}}, hasKey: true, key: 1},
			{kind: "upd", sets: []setT{{1, sv(10)}}, hasKey: true, key: 2}, // (10+1)*2 + 11 = 33 > 30: rejected
			{kind: "upd", sets: []setT{{1, src{kind: "e", e: add(col(1), lit(4))}}}},
		})
	}

	// random ------------------------------------------------------------------------------------
	n := 900
	if a.Thorough {
		n = 30000
	}
	for i := 0; i < n; i++ {
		t := genTable(r)
		nst := 6 + r.Intn(8)
		runCase(t, nst, func(_ int, keys []int) stmt { return genStmt(r, t, keys) }, out)
	}
	// chains: generated columns over generated columns, UPDATEs of the base columns only ----------
	nchain := 350
	if a.Thorough {
		nchain = 10000
	}
	for i := 0; i < nchain; i++ {
		t := genChainTable(rc)
		nst := 5 + rc.Intn(6)
		runCase(t, nst, func(_ int, keys []int) stmt { return genChainStmt(rc, t, keys) }, out)
	}
	return nil
}
