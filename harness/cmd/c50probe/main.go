package main

import (
	"fmt"
	"os"
	"path/filepath"

	"github.com/dolthub/go-mysql-server/sql"
	"github.com/dolthub/go-mysql-server/verifharness/hx/eng"
)

func main() {
	dir, _ := os.MkdirTemp("", "c50")
	defer os.RemoveAll(dir)
	fmt.Println(sql.SystemVariables.AssignValues(map[string]interface{}{"secure_file_priv": dir}))
	e := eng.New("d")
	ctx := e.Ctx()
	_, v, _ := sql.SystemVariables.GetGlobal("secure_file_priv")
	fmt.Println("sfp", v)
	r := e.Query(ctx, "SELECT 1 INTO OUTFILE '/tmp/c50-outside.txt'")
	fmt.Println("outside:", r.Class(), r.Err)
	cols := []string{"DATETIME", "DATE", "TIME", "BLOB", "VARBINARY(10)", "ENUM('x','y')", "SET('p','q')", "DECIMAL(10,2)", "DOUBLE", "FLOAT", "BIGINT UNSIGNED", "YEAR", "BIT(8)", "JSON", "VARCHAR(20)", "CHAR(5)", "BOOLEAN", "TIMESTAMP"}
	vals := []string{"'2020-01-02 03:04:05'", "'2020-01-02'", "'11:12:13'", "'ab'", "'ab'", "'y'", "'p,q'", "1.50", "1000000.5", "1.5", "18446744073709551615", "2020", "b'101'", "'{\"a\": 1}'", "'vc'", "'ch'", "true", "'2020-01-02 03:04:05'"}
	for i, c := range cols {
		e.MustExec(ctx, "DROP TABLE IF EXISTS s", "DROP TABLE IF EXISTS t", "CREATE TABLE s (a "+c+")", "CREATE TABLE t (a "+c+")", "INSERT INTO s VALUES ("+vals[i]+")")
		f := filepath.Join(dir, fmt.Sprintf("o%d.txt", i))
		r := e.Query(ctx, "SELECT * FROM s INTO OUTFILE '"+f+"'")
		b, _ := os.ReadFile(f)
		r2 := e.Query(ctx, "LOAD DATA INFILE '"+f+"' INTO TABLE t")
		fmt.Printf("%-16s out=%s file=%q load=%s %v | s=%s t=%s\n", c, r.Class(), b, r2.Class(), r2.Err, eng.Canon(e.Query(ctx, "SELECT * FROM s"), true), eng.Canon(e.Query(ctx, "SELECT * FROM t"), true))
	}
	// row order
	e.MustExec(ctx, "DROP TABLE IF EXISTS s", "CREATE TABLE s (a TEXT, b INT)", "INSERT INTO s VALUES ('z',3),('a',1),('m',2),('a',0)")
	fmt.Println(eng.Canon(e.Query(ctx, "SELECT * FROM s"), true))
}
