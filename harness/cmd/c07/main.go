// C07 — Grouping and de-duplication use the same equality as '='.
//
//	extract: the type switches of hash.HashOf / hash.HashOfSimple (Go type → formatting), the
//	         literals "<nil>" / 0x00 / ",", whether ExceptIter hashes the row it got together with
//	         io.EOF, and for every call site of hash.HashOf whether a schema is passed.
//	run:     unit level  — real hash.HashOf / hash.HashOfSimple on generated rows/values; the Lean
//	                       model answers the bit-exact xxhash64 of the modelled pre-hash key;
//	         `=` level   — the engine's own `=` on typed columns vs. the Lean Spec `eqVal`;
//	         engine level — per hashing operator (GROUP BY, DISTINCT, COUNT(DISTINCT), UNION,
//	                       INTERSECT, EXCEPT, IN list, IN subquery, hash join) a query whose result
//	                       is the partition / match set the operator forms, vs. the model's
//	                       partition by key (Impl) and by `=` (Spec); model-free oracle: number of
//	                       classes the operator forms vs. the number of `=`-classes the engine
//	                       itself reports through a cross join projecting `x.c = y.c`.
//
// Envelope (kept out on purpose, defects of other properties): unsigned compare types and floats
// meeting integers/decimals (`=` itself goes through float64 above 2^53: C26) — DOUBLE columns and
// float literals meet each other only, with an edge alphabet around ±2^53, ±2^63, 2^64, 1e19…1e300,
// ±0, fractions —, number-vs-string comparisons (C26), strings
// that are not valid UTF-8 (C30), negative zero decimals, literals on the left of IN (subquery)
// (conversion errors are swallowed: C27), different string types on the two sides.
package main

import (
	"fmt"
	"go/ast"
	"go/token"
	"math"
	"sort"
	"strconv"
	"strings"
	"unicode/utf8"

	"github.com/cockroachdb/apd/v3"
	"github.com/dolthub/vitess/go/sqltypes"

	"github.com/dolthub/go-mysql-server/sql"
	"github.com/dolthub/go-mysql-server/sql/hash"
	"github.com/dolthub/go-mysql-server/sql/types"
	"github.com/dolthub/go-mysql-server/verifharness/hx"
	"github.com/dolthub/go-mysql-server/verifharness/hx/eng"
)

func main() { hx.Main(extract, run) }

// ---------------------------------------------------------------------------------------------
// Facts.

// switchTable renders the last type switch over `v := v.(type)` / `val.(type)` of fn as
// (Go type, formatting) pairs; formatting is the callee of the first call in the clause body.
func switchTable(src *hx.Src, fn *ast.FuncDecl, tag string) ([][2]string, error) {
	var sw *ast.TypeSwitchStmt
	ast.Inspect(fn.Body, func(n ast.Node) bool {
		if s, ok := n.(*ast.TypeSwitchStmt); ok && strings.Contains(src.Text(s.Assign), tag) {
			sw = s
		}
		return true
	})
	if sw == nil {
		return nil, fmt.Errorf("%s: type switch over %q not found in %s", src.Path, tag, fn.Name.Name)
	}
	var out [][2]string
	for _, st := range sw.Body.List {
		cc := st.(*ast.CaseClause)
		var how []string
		for _, b := range cc.Body {
			ast.Inspect(b, func(n ast.Node) bool {
				if c, ok := n.(*ast.CallExpr); ok {
					t := src.Text(c.Fun)
					switch {
					case strings.HasPrefix(t, "strconv."), strings.HasSuffix(t, ".Text"), t == "fmt.Sprintf",
						strings.HasPrefix(t, "strings."):
						s := t
						if strings.HasSuffix(t, ".Text") {
							s = "Text(" + src.Text(c.Args[0]) + ")"
						}
						if t == "strconv.FormatFloat" {
							s = "FormatFloat(" + src.Text(c.Args[1]) + "," + src.Text(c.Args[2]) + ")"
						}
						if t == "fmt.Sprintf" {
							s = "Sprintf(" + src.Text(c.Args[0]) + ")"
						}
						how = append(how, s)
					}
				}
				return true
			})
		}
		if len(how) == 0 {
			how = []string{"raw"}
		}
		if cc.List == nil {
			out = append(out, [2]string{"default", strings.Join(how, ";")})
			continue
		}
		for _, ty := range cc.List {
			out = append(out, [2]string{src.Text(ty), strings.Join(how, ";")})
		}
	}
	return out, nil
}

func leanPairs(name string, ps [][2]string) string {
	var b strings.Builder
	fmt.Fprintf(&b, "def %s : List (String × String) := [\n", name)
	for i, p := range ps {
		sep := ","
		if i == len(ps)-1 {
			sep = ""
		}
		fmt.Fprintf(&b, "  (%s, %s)%s\n", hx.LeanString(p[0]), hx.LeanString(p[1]), sep)
	}
	b.WriteString("]\n")
	return b.String()
}

type site struct {
	file, fn string
	line     int
	schema   bool
}

// hashOfSites lists every call `hash.HashOf(ctx, <sch>, …)` in file with its enclosing function.
func hashOfSites(repo, file string) ([]site, error) {
	src, err := hx.ParseSrc(repo, file)
	if err != nil {
		return nil, err
	}
	var out []site
	for _, d := range src.File.Decls {
		fd, ok := d.(*ast.FuncDecl)
		if !ok || fd.Body == nil {
			continue
		}
		name := fd.Name.Name
		if fd.Recv != nil && len(fd.Recv.List) == 1 {
			name = hx.RecvName(fd.Recv.List[0].Type) + "." + name
		}
		ast.Inspect(fd.Body, func(n ast.Node) bool {
			c, ok := n.(*ast.CallExpr)
			if !ok || src.Text(c.Fun) != "hash.HashOf" || len(c.Args) != 3 {
				return true
			}
			out = append(out, site{file: file, fn: name, line: src.Line(c), schema: src.Text(c.Args[1]) != "nil"})
			return true
		})
	}
	return out, nil
}

func extract(a hx.ExtractArgs) error {
	src, err := hx.ParseSrc(a.Repo, "sql/hash/hash.go")
	if err != nil {
		return err
	}
	lf := hx.NewLeanFile("Gms.Generated.C07", src.Path, "sql/rowexec/agg.go", "sql/plan/distinct.go", "sql/iters/rel_iters.go",
		"sql/plan/insubquery.go", "sql/plan/subquery.go", "sql/plan/hash_lookup.go", "sql/expression/in.go",
		"sql/expression/function/aggregation/unary_agg_buffers.go")

	hof, err := src.Func("", "HashOf")
	if err != nil {
		return err
	}
	t1, err := switchTable(src, hof, "v.(type)")
	if err != nil {
		return err
	}
	lf.Comment(fmt.Sprintf("hash.go:%d HashOf: Go type of the value -> how it is written to the digest", src.Line(hof)))
	lf.Raw(leanPairs("hashOfSwitch", t1))
	hos, err := src.Func("", "HashOfSimple")
	if err != nil {
		return err
	}
	t2, err := switchTable(src, hos, "val.(type)")
	if err != nil {
		return err
	}
	lf.Comment(fmt.Sprintf("hash.go:%d HashOfSimple: Go type of the promoted value -> how it is formatted", src.Line(hos)))
	lf.Raw(leanPairs("hashOfSimpleSwitch", t2))

	// HashOf: the schema switch (which schema column types get a weight string), the nil marker, the separator
	var schemaCases, strLits []string
	sepBytes := []string{}
	ast.Inspect(hof.Body, func(n ast.Node) bool {
		switch x := n.(type) {
		case *ast.TypeSwitchStmt:
			if strings.Contains(src.Text(x.Assign), "sch[i].Type") {
				for _, st := range x.Body.List {
					for _, ty := range st.(*ast.CaseClause).List {
						schemaCases = append(schemaCases, src.Text(ty))
					}
				}
			}
		case *ast.CallExpr:
			t := src.Text(x.Fun)
			if t == "hash.WriteString" && len(x.Args) == 1 {
				if l, ok := x.Args[0].(*ast.BasicLit); ok && l.Kind == token.STRING {
					s, _ := strconv.Unquote(l.Value)
					strLits = append(strLits, s)
				}
			}
			if t == "hash.Write" && len(x.Args) == 1 {
				if cl, ok := x.Args[0].(*ast.CompositeLit); ok {
					var bs []string
					for _, e := range cl.Elts {
						bs = append(bs, src.Text(e))
					}
					sepBytes = append(sepBytes, strings.Join(bs, ","))
				}
			}
		}
		return true
	})
	if len(schemaCases) == 0 {
		return fmt.Errorf("HashOf: switch over sch[i].Type not found")
	}
	lf.DefStringList("hashOfSchemaWeightTypes", schemaCases)
	lf.DefStringList("hashOfLiteralStrings", strLits)
	lf.DefStringList("hashOfSeparators", sepBytes)
	// HashOfSimple: does the text arm hash collation weights?
	textArm := strings.Contains(src.Text(hos.Body), "coll.HashToUint(str)") && strings.Contains(src.Text(hos.Body), "types.IsTextOnly(t)")
	lf.DefBool("hashOfSimpleTextUsesCollation", textArm)
	lf.DefBool("hashOfSimplePromotes", strings.Contains(src.Text(hos.Body), "types.ConvertOrTruncate(ctx, i, t.Promote())"))
	lf.DefBool("hashOfSimpleTrimsDecimalZeros", strings.Contains(src.Text(hos.Body), "strings.TrimRightFunc(str") && strings.Contains(src.Text(hos.Body), `strings.TrimRight(str, ".")`))

	// call sites
	files := []string{"sql/rowexec/agg.go", "sql/plan/distinct.go", "sql/iters/rel_iters.go", "sql/plan/insubquery.go",
		"sql/plan/subquery.go", "sql/plan/hash_lookup.go", "sql/rowexec/join_iters.go", "sql/rowexec/other_iters.go",
		"sql/rowexec/rel_iters.go", "sql/rowexec/update.go", "memory/table_data.go"}
	var sites []site
	for _, f := range files {
		s, err := hashOfSites(a.Repo, f)
		if err != nil {
			return err
		}
		sites = append(sites, s...)
	}
	if len(sites) < 10 {
		return fmt.Errorf("only %d hash.HashOf call sites found", len(sites))
	}
	lf.Comment("every call hash.HashOf(ctx, sch, row): (file, enclosing function, schema argument is not nil)")
	var b strings.Builder
	b.WriteString("def hashOfSites : List (String × String × Bool) := [\n")
	for i, s := range sites {
		sep := ","
		if i == len(sites)-1 {
			sep = ""
		}
		fmt.Fprintf(&b, "  (%s, %s, %v)%s  -- line %d\n", hx.LeanString(s.file), hx.LeanString(s.fn), s.schema, sep, s.line)
	}
	b.WriteString("]\n")
	lf.Raw(b.String())

	// HashOfSimple call sites (IN list, hash join)
	for _, fs := range [][2]string{{"sql/expression/in.go", "inListUsesHashOfSimple"}, {"sql/plan/hash_lookup.go", "hashLookupUsesHashOfSimple"}} {
		s, err := hx.ParseSrc(a.Repo, fs[0])
		if err != nil {
			return err
		}
		n := 0
		ast.Inspect(s.File, func(nd ast.Node) bool {
			if c, ok := nd.(*ast.CallExpr); ok && s.Text(c.Fun) == "hash.HashOfSimple" {
				n++
			}
			return true
		})
		lf.DefNat(fs[1], uint64(n))
	}

	// ExceptIter.Next / IntersectIter.Next: is the row that came with io.EOF hashed?
	ri, err := hx.ParseSrc(a.Repo, "sql/iters/rel_iters.go")
	if err != nil {
		return err
	}
	for _, it := range []string{"ExceptIter", "IntersectIter"} {
		fd, err := ri.Func(it, "Next")
		if err != nil {
			return err
		}
		// first `for` loop of the `if !cached` block: position of the HashOf call vs. the EOF break
		var loop *ast.ForStmt
		ast.Inspect(fd.Body, func(n ast.Node) bool {
			if f, ok := n.(*ast.ForStmt); ok && loop == nil {
				loop = f
			}
			return loop == nil
		})
		if loop == nil {
			return fmt.Errorf("%s.Next: cache loop not found", it)
		}
		hashAt, eofAt := -1, -1
		for i, st := range loop.Body.List {
			t := ri.Text(st)
			if hashAt < 0 && strings.Contains(t, "hash.HashOf(") {
				hashAt = i
			}
			if eofAt < 0 && strings.Contains(t, "io.EOF") && strings.Contains(t, "break") {
				eofAt = i
			}
		}
		if hashAt < 0 || eofAt < 0 {
			return fmt.Errorf("%s.Next: HashOf call (%d) or EOF break (%d) not found in the cache loop", it, hashAt, eofAt)
		}
		lf.DefBool(strings.ToLower(it[:1])+it[1:]+"HashesEofRow", eofAt > hashAt)
	}

	// countDistinctBuffer.Update: key = Text.Convert(val) + <sep>
	ub, err := hx.ParseSrc(a.Repo, "sql/expression/function/aggregation/unary_agg_buffers.go")
	if err != nil {
		return err
	}
	fd, err := ub.Func("countDistinctBuffer", "Update")
	if err != nil {
		return err
	}
	sep := ""
	ast.Inspect(fd.Body, func(n ast.Node) bool {
		as, ok := n.(*ast.AssignStmt)
		if ok && as.Tok == token.ADD_ASSIGN && ub.Text(as.Lhs[0]) == "str" {
			if be, ok := as.Rhs[0].(*ast.BinaryExpr); ok {
				if l, ok := be.Y.(*ast.BasicLit); ok {
					sep, _ = strconv.Unquote(l.Value)
				}
			}
		}
		return true
	})
	if sep == "" {
		return fmt.Errorf("countDistinctBuffer.Update: `str += vv + <sep>` not found")
	}
	lf.DefString("countDistinctSeparator", sep)
	lf.DefBool("countDistinctUsesTextConvert", strings.Contains(ub.Text(fd.Body), "types.Text.Convert(ctx, val)"))
	return lf.Write(a.Out)
}

// ---------------------------------------------------------------------------------------------
// Values.

type val struct {
	k byte // 'n' null, 'i' int, 'd' decimal, 's' string, 'b' bool, 'f' float64
	i int64
	s int    // scale
	t string // string
	f float64
}

func vflt(f float64) val { return val{k: 'f', f: f} }

// fltDecimal is the shortest round-trip decimal of f as (coefficient text, scale) in the normal form
// of Gms.HashEq.Val.flt: scale 0 and every integer digit for integral values, otherwise a coefficient
// that does not end in 0. It is computed from the exponent form ('e'), not from the 'f' form the
// code under test uses, and validated by parsing it back.
func fltDecimal(f float64) (coef string, scale int) {
	e := strconv.FormatFloat(f, 'e', -1, 64) // d.ddddde±xx
	neg := strings.HasPrefix(e, "-")
	e = strings.TrimPrefix(e, "-")
	mant, exps, _ := strings.Cut(e, "e")
	x, _ := strconv.Atoi(exps)
	digits := strings.Replace(mant, ".", "", 1)
	x -= len(digits) - 1 // value = digits * 10^x
	digits = strings.TrimLeft(digits, "0")
	if digits == "" {
		return "0", 0
	}
	for strings.HasSuffix(digits, "0") {
		digits = digits[:len(digits)-1]
		x++
	}
	if x >= 0 {
		digits += strings.Repeat("0", x)
		x = 0
	}
	if neg {
		digits = "-" + digits
	}
	// self-validation: the decimal denotes exactly this double
	chk := digits
	if x < 0 {
		chk += "e" + strconv.Itoa(x)
	}
	if g, err := strconv.ParseFloat(chk, 64); err != nil || g != f {
		panic(fmt.Sprintf("fltDecimal(%v) = %s does not round-trip", f, chk))
	}
	return digits, -x
}

func isNegZero(f float64) bool { return f == 0 && math.Signbit(f) }

func vnull() val          { return val{k: 'n'} }
func vint(i int64) val    { return val{k: 'i', i: i} }
func vdec(c int64, s int) val { return val{k: 'd', i: c, s: s} }
func vstr(s string) val   { return val{k: 's', t: s} }
func vbool(b bool) val {
	if b {
		return val{k: 'b', i: 1}
	}
	return val{k: 'b'}
}

func (v val) sexp() string {
	switch v.k {
	case 'n':
		return "null"
	case 'i':
		return fmt.Sprintf("(i %d)", v.i)
	case 'd':
		return fmt.Sprintf("(d %d %d)", v.i, v.s)
	case 's':
		return "(s " + hx.HexS(v.t) + ")"
	case 'f':
		c, sc := fltDecimal(v.f)
		z := 0
		if isNegZero(v.f) {
			z = 1
		}
		return fmt.Sprintf("(f %s %d %d)", c, sc, z)
	}
	return fmt.Sprintf("(b %d)", v.i)
}

func decString(c int64, s int) string {
	neg := c < 0
	u := uint64(c)
	if neg {
		u = uint64(-c)
	}
	d := strconv.FormatUint(u, 10)
	for len(d) < s+1 {
		d = "0" + d
	}
	if s > 0 {
		d = d[:len(d)-s] + "." + d[len(d)-s:]
	}
	if neg {
		d = "-" + d
	}
	return d
}

// text is the client-visible text of the value (also its SQL literal body for numbers).
func (v val) text() string {
	switch v.k {
	case 'n':
		return "NULL"
	case 'i':
		return strconv.FormatInt(v.i, 10)
	case 'd':
		return decString(v.i, v.s)
	case 's':
		return v.t
	case 'f': // NumberTypeImpl_.SQLFloat64
		return strconv.FormatFloat(v.f, 'g', -1, 64)
	}
	return strconv.FormatInt(v.i, 10)
}

func (v val) lit() string {
	switch v.k {
	case 'f': // exponent form: the parser makes a float64 literal of it
		return strconv.FormatFloat(v.f, 'e', -1, 64)
	case 's':
		return "'" + strings.ReplaceAll(strings.ReplaceAll(v.t, `\`, `\\`), "'", "''") + "'"
	case 'b':
		if v.i == 1 {
			return "TRUE"
		}
		return "FALSE"
	}
	return v.text()
}

func (v val) goValue(r *hx.Rand) interface{} {
	switch v.k {
	case 'n':
		return nil
	case 'i':
		// any Go integer kind that holds the value
		switch r.Intn(6) {
		case 0:
			if v.i >= -128 && v.i <= 127 {
				return int8(v.i)
			}
		case 1:
			if v.i >= -32768 && v.i <= 32767 {
				return int16(v.i)
			}
		case 2:
			if v.i >= -(1<<31) && v.i < 1<<31 {
				return int32(v.i)
			}
		case 3:
			if v.i >= 0 {
				return uint64(v.i)
			}
		case 4:
			if v.i >= 0 && v.i < 1<<32 {
				return uint32(v.i)
			}
		}
		return v.i
	case 'd':
		return apd.New(v.i, int32(-v.s))
	case 's':
		return v.t
	case 'f':
		// float32 when the value is a float32 whose 32-bit shortest text is its 64-bit shortest text
		if f32 := float32(v.f); float64(f32) == v.f && r.Chance(1, 3) &&
			strconv.FormatFloat(v.f, 'f', -1, 32) == strconv.FormatFloat(v.f, 'f', -1, 64) {
			return f32
		}
		return v.f
	}
	return v.i == 1
}

// ---------------------------------------------------------------------------------------------
// Collations.

type collInfo struct {
	id   sql.CollationID
	name string
}

func collations() []collInfo {
	var out []collInfo
	for _, n := range []string{"utf8mb4_0900_ai_ci", "utf8mb4_general_ci", "utf8mb4_unicode_ci", "utf8mb4_0900_as_cs",
		"utf8mb4_unicode_520_ci", "utf8mb4_0900_as_ci", "utf8mb4_bin", "utf8mb4_0900_bin"} {
		id, err := sql.ParseCollation("", n, false)
		if err != nil || id.Sorter() == nil {
			continue
		}
		out = append(out, collInfo{id: id, name: n})
	}
	return out
}

var binColl = sql.Collation_utf8mb4_0900_bin

// weightTable renders `(w (rune wc w0) …)` for every rune of the given strings.
func weightTable(c sql.CollationID, strs []string) string {
	seen := map[rune]bool{}
	var rs []rune
	for _, s := range strs {
		for _, r := range s {
			if !seen[r] {
				seen[r] = true
				rs = append(rs, r)
			}
		}
	}
	sort.Slice(rs, func(i, j int) bool { return rs[i] < rs[j] })
	parts := []string{"w"}
	for _, r := range rs {
		parts = append(parts, fmt.Sprintf("(%d %d %d)", r, c.Sorter()(r), binColl.Sorter()(r)))
	}
	return "(" + strings.Join(parts, " ") + ")"
}

func strsOf(vs ...[]val) []string {
	var out []string
	for _, l := range vs {
		for _, v := range l {
			switch v.k {
			case 's':
				out = append(out, v.t)
			case 'i', 'd', 'b': // ConvertToString under a string-typed schema column
				out = append(out, v.text())
			case 'f':
				out = append(out, "-0123456789.")
			}
		}
	}
	return out
}

// ---------------------------------------------------------------------------------------------
// Generators.

var strPool = []string{"a", "A", "á", "Á", "b", "B", "ab", "AB", "aB", "Ab", "", "<nil>", "<NIL>", "a ", "e", "é", "E", "ss", "ß", "ae", "æ",
	"1", "1.0", "true", "x,", ",", "x", "0", "-1", "ı", "I", "i", "İ", "σ", "ς", "Σ", "😀", "ＡＢ", "a\x01b"}

func genStr(r *hx.Rand) string {
	if r.Chance(3, 4) {
		return hx.Pick(r, strPool)
	}
	alpha := []rune("aAbBáÁeéE ,<>nil.01")
	n := r.Intn(5)
	var b strings.Builder
	for i := 0; i < n; i++ {
		b.WriteRune(alpha[r.Intn(len(alpha))])
	}
	return b.String()
}

func genInt(r *hx.Rand) int64 {
	switch r.Intn(10) {
	case 0:
		return hx.Pick(r, []int64{2147483647, -2147483648, 9007199254740993, -9007199254740993, 1000000000000, 9223372036854775807, -9223372036854775807})
	case 1:
		return int64(r.Range(-1000, 1000))
	}
	return int64(r.Range(-3, 12))
}

// genDec draws a decimal; often an integer or short value written at a larger scale.
func genDec(r *hx.Rand, maxScale int) val {
	s := r.Intn(maxScale + 1)
	c := int64(r.Range(-30, 130))
	if r.Chance(1, 2) { // value representable at a smaller scale
		k := r.Intn(s + 1)
		for j := 0; j < k; j++ {
			c *= 10
		}
	}
	if r.Chance(1, 12) {
		c = hx.Pick(r, []int64{0, 5, -5, 100, 1000, 123456789012, -100})
	}
	return vdec(c, s)
}

// fltPool: the edge alphabet of the float stream — both sides of 2^53 (where doubles stop holding every
// integer), both sides of ±2^63 and 2^64 (where a conversion to int64/uint64 stops being defined),
// far beyond (1e19 … 1e300), ±0, small integers, fractions, the smallest/largest magnitudes.
var fltPool = []float64{0, math.Copysign(0, -1), 1, -1, 2, 5, 0.5, -0.5, 2.5, 0.1, 0.25, 1.5, 100, 1e15, 123456.75,
	9007199254740991, 9007199254740992, 9007199254740994, -9007199254740992,
	9223372036854774784, 9223372036854775808, 9223372036854777856, -9223372036854774784, -9223372036854775808, -9223372036854777856,
	18446744073709549568, 18446744073709551616, 18446744073709555712,
	1e19, 2e19, -1e19, -2e19, 3.5e30, -3.5e30, 1e22, 1e23, 1.7976931348623157e308, 1e300, -1e300, 5e-324, 1e-7, 16777216, 16777217, 3.4028234663852886e38}

func genFlt(r *hx.Rand) float64 {
	switch r.Intn(8) {
	case 0, 1, 2, 3:
		return hx.Pick(r, fltPool)
	case 4: // whole numbers of any magnitude
		m := float64(r.Range(1, 9999))
		f := m * math.Pow(10, float64(r.Range(0, 40)))
		if r.Bool() {
			f = -f
		}
		return f
	case 5: // around ±2^63 / 2^64: neighbours a few ulps away
		base := hx.Pick(r, []float64{9223372036854775808, -9223372036854775808, 18446744073709551616})
		for k := r.Range(-3, 3); k != 0; {
			if k > 0 {
				base = math.Nextafter(base, math.Inf(1))
				k--
			} else {
				base = math.Nextafter(base, math.Inf(-1))
				k++
			}
		}
		return base
	case 6:
		return float64(r.Range(-3, 12))
	}
	return float64(r.Range(-2000, 2000)) / 8
}

func pow10(n int) int64 {
	p := int64(1)
	for i := 0; i < n; i++ {
		p *= 10
	}
	return p
}

// ---------------------------------------------------------------------------------------------
// Unit level.

func schemaCol(kind string, c sql.CollationID) *sql.Column {
	switch kind {
	case "c":
		return &sql.Column{Type: types.MustCreateString(sqltypes.VarChar, 200, c)}
	case "d":
		return &sql.Column{Type: types.MustCreateString(sqltypes.VarChar, 200, binColl)}
	case "r":
		return &sql.Column{Type: types.MustCreateString(sqltypes.VarBinary, 200, sql.Collation_binary)}
	case "nint":
		return &sql.Column{Type: types.Int64}
	case "ndec":
		return &sql.Column{Type: types.InternalDecimalType}
	case "nflt":
		return &sql.Column{Type: types.Float64}
	}
	return nil
}

func cmpType(kind string, c sql.CollationID) sql.Type {
	switch kind {
	case "int64":
		return types.Int64
	case "decimal":
		return types.InternalDecimalType
	case "float64":
		return types.Float64
	case "textc":
		return types.CreateLongText(c)
	case "textd":
		return types.CreateLongText(binColl)
	}
	return types.LongBlob
}

func hashObs(h uint64, err error, p string) string {
	if p != "" {
		return "crash:" + p
	}
	if err != nil {
		return "err"
	}
	return strconv.FormatUint(h, 10)
}

func unitCases(out *hx.Out, r *hx.Rand, colls []collInfo, n int) {
	ctx := sql.NewEmptyContext()
	hashofCase := func(ci collInfo, kinds []string, short int, row []val) {
		// kinds[i] ∈ c d r nint ndec x ("x": beyond the schema — only allowed as a suffix via `short`)
		var sch sql.Schema
		var tags []string
		for i, k := range kinds {
			if i >= short {
				tags = append(tags, "n")
				continue
			}
			sch = append(sch, schemaCol(k, ci.id))
			if k == "nint" || k == "ndec" || k == "nflt" {
				tags = append(tags, "n")
			} else {
				tags = append(tags, k)
			}
		}
		grow := make(sql.Row, len(row))
		for i, v := range row {
			grow[i] = v.goValue(r)
			if i < short && kinds[i] == "r" && v.k == 's' {
				grow[i] = []byte(v.t)
			}
		}
		var h uint64
		var err error
		p := hx.Safe(func() { h, err = hash.HashOf(ctx, sch, grow) })
		payload := hx.List("hashof", weightTable(ci.id, strsOf(row)), "(sch "+strings.Join(tags, " ")+")",
			"(row "+strings.Join(mapVals(row), " ")+")")
		id := out.Case(payload, hashObs(h, err, p), len(row) > 0)
		out.Stat("unit:hashof")
		_ = id
	}
	simpleCase := func(ci collInfo, ty string, v val) {
		var h uint64
		var err error
		p := hx.Safe(func() { h, _, err = hash.HashOfSimple(ctx, v.goValue(r), cmpType(ty, ci.id)) })
		out.Case(hx.List("hsimple", weightTable(ci.id, strsOf([]val{v})), ty, v.sexp()), hashObs(h, err, p), v.k != 'n')
		out.Stat("unit:hsimple:" + ty)
	}
	tupleCase := func(ci collInfo, tys []string, vs []val) {
		tt := make(types.TupleType, len(tys))
		gv := make([]interface{}, len(vs))
		for i := range tys {
			tt[i] = cmpType(tys[i], ci.id)
			gv[i] = vs[i].goValue(r)
		}
		var h uint64
		var err error
		p := hx.Safe(func() { h, _, err = hash.HashOfSimple(ctx, gv, tt) })
		out.Case(hx.List("htuple", weightTable(ci.id, strsOf(vs)), "("+strings.Join(tys, " ")+")", "("+strings.Join(mapVals(vs), " ")+")"),
			hashObs(h, err, p), true)
		out.Stat("unit:htuple")
	}

	// same key ⇔ `=` on a pair of numbers of one family (ty: a compare type of HashOfSimple, or "hashof" =
	// HashOf without schema): the observation is whether the two real hashes are equal
	pairCase := func(ty string, x, y val) {
		h := func(v val) (uint64, error) {
			if ty == "hashof" {
				return hash.HashOf(ctx, nil, sql.Row{v.goValue(r)})
			}
			hv, _, err := hash.HashOfSimple(ctx, v.goValue(r), cmpType(ty, binColl))
			return hv, err
		}
		obs := ""
		p := hx.Safe(func() {
			h1, e1 := h(x)
			h2, e2 := h(y)
			switch {
			case e1 != nil || e2 != nil:
				obs = "err"
			case h1 == h2:
				obs = "1"
			default:
				obs = "0"
			}
		})
		if p != "" {
			obs = "crash:" + p
		}
		out.Case(hx.List("hpair", ty, x.sexp(), y.sexp()), obs, true)
		out.Stat("unit:hpair:" + ty)
	}
	for i, f := range fltPool {
		for _, g := range fltPool[i:] {
			pairCase("float64", vflt(f), vflt(g))
			pairCase("hashof", vflt(f), vflt(g))
		}
	}
	for i := 0; i < n/10; i++ {
		ty := hx.Pick(r, []string{"float64", "hashof", "hashof", "int64"})
		var x, y val
		if ty == "float64" || (ty == "hashof" && r.Bool()) {
			x = vflt(genFlt(r))
			y = vflt(genFlt(r))
			if r.Chance(1, 4) {
				y = x
			}
		} else {
			x = vint(genInt(r))
			y = vint(genInt(r))
			if r.Chance(1, 4) {
				y = x
			}
		}
		pairCase(ty, x, y)
	}

	// corpus: the witnesses of the findings, at the level of the hash functions
	c0 := colls[0]
	hashofCase(c0, []string{"ndec"}, 1, []val{vdec(10, 1)})
	hashofCase(c0, []string{"ndec"}, 1, []val{vdec(100, 2)})
	hashofCase(c0, []string{"c"}, 0, []val{vstr("a")})
	hashofCase(c0, []string{"c"}, 0, []val{vstr("A")})
	hashofCase(c0, []string{"c"}, 1, []val{vstr("a")})
	hashofCase(c0, []string{"c"}, 1, []val{vstr("A")})
	hashofCase(c0, []string{"c"}, 0, []val{vstr("<nil>")})
	hashofCase(c0, []string{"c"}, 0, []val{vnull()})
	hashofCase(c0, []string{"c"}, 0, []val{vstr("")})
	hashofCase(c0, nil, 0, nil)
	hashofCase(c0, []string{"nint"}, 0, []val{vbool(true)})
	hashofCase(c0, []string{"nint"}, 0, []val{vint(1)})
	hashofCase(c0, []string{"c", "c"}, 0, []val{vstr("a\x00b"), vstr("c")})
	hashofCase(c0, []string{"c", "c"}, 0, []val{vstr("a"), vstr("b\x00c")})
	simpleCase(c0, "decimal", vdec(10, 1))
	simpleCase(c0, "decimal", vdec(100, 2))
	simpleCase(c0, "decimal", vint(1))
	simpleCase(c0, "int64", vdec(15, 1))
	simpleCase(c0, "int64", vint(2))
	simpleCase(c0, "textc", vstr("a"))
	simpleCase(c0, "textc", vstr("A"))
	simpleCase(c0, "textd", vstr("A"))
	// floats: whole numbers on both sides of the int64/uint64 range, -0, fractions
	for _, f := range fltPool {
		hashofCase(c0, []string{"nflt"}, 0, []val{vflt(f)})
		hashofCase(c0, []string{"nflt"}, 1, []val{vflt(f)})
		simpleCase(c0, "float64", vflt(f))
	}

	genVal := func(kind string) val {
		if r.Chance(1, 10) {
			return vnull()
		}
		switch kind {
		case "c", "d", "r":
			if r.Chance(1, 12) { // a non-string value under a string-typed schema column: ConvertToString
				switch r.Intn(3) {
				case 0:
					return vint(genInt(r))
				case 1:
					return genDec(r, 3)
				}
				return vbool(r.Bool())
			}
			return vstr(genStr(r))
		case "nint":
			if r.Chance(1, 8) {
				return vbool(r.Bool())
			}
			return vint(genInt(r))
		case "nflt":
			return vflt(genFlt(r))
		}
		if r.Chance(1, 4) {
			return vint(genInt(r))
		}
		return genDec(r, 4)
	}
	for i := 0; i < n; i++ {
		ci := hx.Pick(r, colls)
		switch r.Intn(10) {
		case 0, 1, 2, 3, 4:
			w := r.Range(1, 4)
			kinds := make([]string, w)
			row := make([]val, w)
			for j := range kinds {
				kinds[j] = hx.Pick(r, []string{"c", "c", "d", "r", "nint", "ndec", "nflt"})
				row[j] = genVal(kinds[j])
				if row[j].k == 's' && kinds[j] != "r" && !utf8.ValidString(row[j].t) {
					row[j] = vstr("a")
				}
			}
			short := w
			if r.Chance(1, 3) {
				short = r.Intn(w + 1)
			}
			hashofCase(ci, kinds, short, row)
		case 5, 6, 7, 8:
			ty := hx.Pick(r, []string{"int64", "decimal", "textc", "textd", "float64"})
			var v val
			switch ty {
			case "int64":
				v = vint(genInt(r))
				if r.Chance(1, 4) {
					v = genDec(r, 2)
				}
				if r.Chance(1, 10) {
					v = vbool(r.Bool())
				}
			case "decimal":
				v = genDec(r, 5)
				if r.Chance(1, 4) {
					v = vint(genInt(r))
				}
			case "float64": // integers up to 2^53 and short decimals: 'f'/-1 formatting is the trimmed text
				v = genDec(r, 4)
				if v.i > 100000 || v.i < -100000 {
					v.i %= 100000
				}
				if r.Chance(1, 3) {
					v = vint(int64(r.Range(-100000, 100000)))
				}
				if r.Chance(1, 2) {
					v = vflt(genFlt(r))
				}
			default:
				v = vstr(genStr(r))
			}
			if r.Chance(1, 15) {
				v = vnull()
			}
			simpleCase(ci, ty, v)
		default:
			w := r.Range(2, 3) // a TupleType of width 1 is not a tuple (types.IsTuple)
			tys := make([]string, w)
			vs := make([]val, w)
			for j := range tys {
				tys[j] = hx.Pick(r, []string{"int64", "decimal", "textc"})
				switch tys[j] {
				case "int64":
					vs[j] = vint(genInt(r))
				case "decimal":
					vs[j] = genDec(r, 3)
				default:
					vs[j] = vstr(genStr(r))
				}
				if r.Chance(1, 10) {
					vs[j] = vnull()
				}
			}
			tupleCase(ci, tys, vs)
		}
	}
}

func mapVals(vs []val) []string {
	out := make([]string, len(vs))
	for i, v := range vs {
		out[i] = v.sexp()
	}
	return out
}

// ---------------------------------------------------------------------------------------------
// Engine level.

type colTy string // i d1 d2 sb sc

func (t colTy) ddl(ci collInfo) string {
	switch t {
	case "i":
		return "INT"
	case "d0", "d1", "d2", "d3":
		return "DECIMAL(14," + string(t[1]) + ")"
	case "sb":
		return "VARCHAR(20) COLLATE utf8mb4_0900_bin"
	case "f":
		return "DOUBLE"
	}
	return "VARCHAR(20) COLLATE " + ci.name
}
func (t colTy) isStr() bool { return t == "sb" || t == "sc" }
func (t colTy) scale() int {
	if len(t) == 2 && t[0] == 'd' {
		return int(t[1] - '0')
	}
	return 0
}

func genColVal(r *hx.Rand, t colTy, pool []val) val {
	if r.Chance(1, 7) {
		return vnull()
	}
	if len(pool) > 0 && r.Chance(1, 2) { // repeat / provoke equal values
		p := hx.Pick(r, pool)
		if p.k == 'n' {
			return p
		}
		switch {
		case t.isStr() && p.k == 's':
			if r.Chance(1, 2) {
				return vstr(flipCase(r, p.t))
			}
			return p
		case t == "i" && p.k == 'i':
			return p
		case t == "f" && p.k == 'f':
			return p
		case t == "i" && p.k == 'd' && p.i%pow10(p.s) == 0:
			return vint(p.i / pow10(p.s))
		case t[0] == 'd' && p.k == 'i' && p.i > -1000000 && p.i < 1000000:
			return vdec(p.i*pow10(t.scale()), t.scale())
		case t[0] == 'd' && p.k == 'd' && p.s <= t.scale() && p.i > -1000000 && p.i < 1000000:
			return vdec(p.i*pow10(t.scale()-p.s), t.scale())
		}
	}
	switch {
	case t.isStr():
		return vstr(genStr(r))
	case t == "f":
		f := genFlt(r)
		if isNegZero(f) { // the literal -0e0 is stored as 0: -0.0 is covered at the unit level only
			f = 0
		}
		return vflt(f)
	case t == "i":
		i := genInt(r)
		if i > 2147483647 || i < -2147483648 {
			i = i % 1000
		}
		return vint(i)
	}
	s := t.scale()
	c := int64(r.Range(-30, 130))
	if r.Chance(1, 2) {
		c = int64(r.Range(-3, 13)) * pow10(s)
	}
	return vdec(c, s)
}

func flipCase(r *hx.Rand, s string) string {
	rs := []rune(s)
	for i, c := range rs {
		if r.Chance(1, 2) {
			continue
		}
		u, l := []rune(strings.ToUpper(string(c))), []rune(strings.ToLower(string(c)))
		if len(u) == 1 && u[0] != c {
			rs[i] = u[0]
		} else if len(l) == 1 && l[0] != c {
			rs[i] = l[0]
		}
	}
	return string(rs)
}

type opCase struct {
	op     string
	ci     collInfo
	lt, rt colTy
	xs, ys []val
}

func (c opCase) payload() string {
	return hx.List("op", c.op, weightTable(c.ci.id, strsOf(c.xs, c.ys)), string(c.lt), string(c.rt),
		"("+strings.Join(mapVals(c.xs), " ")+")", "("+strings.Join(mapVals(c.ys), " ")+")")
}

const srcU = "(SELECT pk k, c FROM t1 UNION ALL SELECT pk+100 k, c FROM t2) u"

// query returns the SQL of the case.
func (c opCase) query() string {
	switch c.op {
	case "groupby":
		return "SELECT MIN(k), COUNT(*) FROM " + srcU + " GROUP BY c"
	case "distinct":
		return "SELECT DISTINCT c FROM " + srcU
	case "countdistinct":
		return "SELECT COUNT(DISTINCT c) FROM " + srcU
	case "union":
		return "SELECT c FROM t1 UNION SELECT c FROM t2"
	case "intersect":
		return "SELECT c FROM t1 INTERSECT SELECT c FROM t2"
	case "except":
		return "SELECT c FROM t1 EXCEPT SELECT c FROM t2"
	case "inlist":
		var ls []string
		for _, v := range c.ys {
			ls = append(ls, v.lit())
		}
		return "SELECT pk FROM t1 WHERE c IN (" + strings.Join(ls, ", ") + ")"
	case "insub":
		return "SELECT pk, c IN (SELECT c FROM t2) FROM t1"
	case "hashjoin":
		return "SELECT /*+ JOIN_ORDER(x,y) HASH_JOIN(x,y) */ x.pk, y.pk FROM t1 x JOIN t2 y ON x.c = y.c"
	}
	panic("unknown op " + c.op)
}

// arrived is the client text of a stored value after set-operation type unification.
func arrivedText(v val) string { return v.text() }

type opRunner struct {
	e   *eng.Eng
	out *hx.Out
	err error
}

func (o *opRunner) fail(format string, a ...interface{}) {
	if o.err == nil {
		o.err = fmt.Errorf(format, a...)
	}
}

func insertSQL(tbl string, vs []val) string {
	var rows []string
	for i, v := range vs {
		rows = append(rows, fmt.Sprintf("(%d,%s)", i+1, v.lit()))
	}
	return "INSERT INTO " + tbl + " VALUES " + strings.Join(rows, ",")
}

// posOf maps a result text to the first input position holding a value with that text.
func posOf(all []val, text string, null bool) (int, bool) {
	for i, v := range all {
		if null && v.k == 'n' {
			return i, true
		}
		if !null && v.k != 'n' && v.text() == text {
			return i, true
		}
	}
	return 0, false
}

func joinInts(xs []int) string {
	s := make([]string, len(xs))
	for i, x := range xs {
		s[i] = strconv.Itoa(x)
	}
	return strings.Join(s, " ")
}

// eqMatrix asks the engine for `a = b` of every pair of the case's values (NULL ↦ -1).
func (o *opRunner) eqMatrix(c opCase) (all []val, m [][]int, ok bool) {
	ctx := o.e.Ctx()
	r := o.e.Query(ctx, "SELECT x.k, y.k, x.c = y.c FROM "+strings.Replace(srcU, ") u", ") x", 1)+" CROSS JOIN "+strings.Replace(srcU, ") u", ") y", 1))
	if r.Class() != "ok" {
		return nil, nil, false
	}
	all = append(append([]val{}, c.xs...), c.ys...)
	idx := func(k string) int {
		n, _ := strconv.Atoi(k)
		if n > 100 {
			return len(c.xs) + n - 101
		}
		return n - 1
	}
	m = make([][]int, len(all))
	for i := range m {
		m[i] = make([]int, len(all))
	}
	for i, row := range r.Rows {
		a, b := idx(row[0]), idx(row[1])
		if a < 0 || b < 0 || a >= len(all) || b >= len(all) {
			return nil, nil, false
		}
		switch {
		case r.Null[i][2]:
			m[a][b] = -1
		case row[2] == "1":
			m[a][b] = 1
		default:
			m[a][b] = 0
		}
	}
	return all, m, true
}

// goRegion is the harness's own reading of the defect class of a case (same priority order as
// Gms.HashEq.region): used to tag model-free oracle failures.
func goRegion(c opCase, all []val, m [][]int) string {
	noSchema := map[string]bool{"distinct": true, "union": true, "intersect": true, "except": true}
	hasNull, hasNilText, hasEmptyLeft := false, false, false
	for _, v := range all {
		if v.k == 'n' {
			hasNull = true
		}
		if v.k == 's' && v.t == "<nil>" {
			hasNilText = true
		}
	}
	for _, v := range c.xs {
		if v.k == 's' && v.t == "" {
			hasEmptyLeft = true
		}
	}
	if noSchema[c.op] && hasNull && hasNilText {
		return c.op + "_nil_text"
	}
	if c.op == "except" && hasEmptyLeft {
		return "except_empty_key"
	}
	for i := range all {
		for j := range all {
			if m[i][j] == 1 && all[i].text() != all[j].text() {
				if all[i].k == 's' {
					return c.op + "_collation"
				}
				return c.op + "_decimal_scale"
			}
		}
	}
	return "-"
}

func (o *opRunner) run(c opCase) {
	e := o.e
	ctx := e.Ctx()
	setup := []string{"DROP TABLE IF EXISTS t1", "DROP TABLE IF EXISTS t2",
		"CREATE TABLE t1 (pk INT PRIMARY KEY, c " + c.lt.ddl(c.ci) + ")"}
	if c.op != "inlist" {
		setup = append(setup, "CREATE TABLE t2 (pk INT PRIMARY KEY, c "+c.rt.ddl(c.ci)+")")
	}
	if len(c.xs) > 0 {
		setup = append(setup, insertSQL("t1", c.xs))
	}
	if c.op != "inlist" && len(c.ys) > 0 {
		setup = append(setup, insertSQL("t2", c.ys))
	}
	for _, q := range setup {
		r := e.Query(ctx, q)
		if r.Class() != "ok" {
			o.fail("setup statement failed (harness defect): %s: %s %v %s", q, r.Class(), r.Err, r.Panic)
			return
		}
	}
	// self-validation: the stored values read back with exactly the text the case carries
	for ti, vs := range [][]val{c.xs, c.ys} {
		if ti == 1 && c.op == "inlist" {
			break
		}
		r := e.Query(e.Ctx(), fmt.Sprintf("SELECT c FROM t%d ORDER BY pk", ti+1))
		if r.Class() != "ok" || len(r.Rows) != len(vs) {
			o.fail("read-back of t%d failed: %s", ti+1, r.Class())
			return
		}
		for i, v := range vs {
			if r.Null[i][0] != (v.k == 'n') || (v.k != 'n' && r.Rows[i][0] != v.text()) {
				o.fail("t%d row %d stores %q, the case says %q (harness defect)", ti+1, i+1, r.Rows[i][0], v.text())
				return
			}
		}
	}
	if c.op == "hashjoin" {
		r := e.Query(e.Ctx(), "EXPLAIN FORMAT=TREE "+c.query())
		plan := ""
		for _, row := range r.Rows {
			plan += row[0] + "\n"
		}
		if !strings.Contains(plan, "HashJoin") || !strings.Contains(plan, "HashLookup") {
			o.out.Stat("op:hashjoin:plan-not-hash")
			return
		}
	}
	r := e.Query(e.Ctx(), c.query())
	obs := ""
	nClasses := -1
	all := append(append([]val{}, c.xs...), c.ys...)
	switch {
	case r.Class() != "ok":
		obs = r.Class()
	default:
		switch c.op {
		case "groupby":
			type g struct{ first, n int }
			var gs []g
			for _, row := range r.Rows {
				k, _ := strconv.Atoi(row[0])
				n, _ := strconv.Atoi(row[1])
				if k > 100 {
					k = len(c.xs) + k - 101
				} else {
					k--
				}
				gs = append(gs, g{k, n})
			}
			sort.Slice(gs, func(i, j int) bool { return gs[i].first < gs[j].first })
			var parts []string
			for _, x := range gs {
				parts = append(parts, fmt.Sprintf("(%d %d)", x.first, x.n))
			}
			obs = strings.Join(parts, " ")
			nClasses = len(gs)
		case "distinct", "union", "intersect", "except":
			src := all
			if c.op == "intersect" || c.op == "except" {
				src = c.xs
			}
			var ps []int
			for i, row := range r.Rows {
				p, ok := posOf(src, row[0], r.Null[i][0])
				if !ok {
					obs = "unmapped:" + row[0]
					break
				}
				ps = append(ps, p)
			}
			if obs == "" {
				sort.Ints(ps)
				obs = joinInts(ps)
			}
			nClasses = len(r.Rows)
		case "countdistinct":
			if len(r.Rows) == 1 {
				obs = r.Rows[0][0]
				nClasses, _ = strconv.Atoi(obs)
			} else {
				obs = fmt.Sprintf("rows=%d", len(r.Rows))
			}
		case "inlist":
			var ps []int
			for _, row := range r.Rows {
				k, _ := strconv.Atoi(row[0])
				ps = append(ps, k-1)
			}
			sort.Ints(ps)
			obs = joinInts(ps)
		case "insub":
			res := make([]int, len(c.xs))
			for i := range res {
				res[i] = -1
			}
			for i, row := range r.Rows {
				k, _ := strconv.Atoi(row[0])
				if k < 1 || k > len(res) {
					continue
				}
				switch {
				case r.Null[i][1]:
					res[k-1] = 1
				case row[1] == "1":
					res[k-1] = 2
				default:
					res[k-1] = 0
				}
			}
			obs = joinInts(res)
		case "hashjoin":
			type pr struct{ a, b int }
			var ps []pr
			for _, row := range r.Rows {
				a, _ := strconv.Atoi(row[0])
				b, _ := strconv.Atoi(row[1])
				ps = append(ps, pr{a - 1, b - 1})
			}
			sort.Slice(ps, func(i, j int) bool { return ps[i].a < ps[j].a || (ps[i].a == ps[j].a && ps[i].b < ps[j].b) })
			var parts []string
			for _, p := range ps {
				parts = append(parts, fmt.Sprintf("(%d %d)", p.a, p.b))
			}
			obs = strings.Join(parts, " ")
		}
	}
	nontrivial := len(r.Rows) > 0 && len(all) >= 2
	id := o.out.Case(c.payload(), obs, nontrivial)
	o.out.Stat("op:" + c.op)
	o.out.Stat("op:types:" + string(c.lt) + "/" + string(c.rt))

	// model-free oracle: the number of classes the operator forms = the number of `=`-classes the
	// engine itself reports (single-source operators and UNION)
	if nClasses >= 0 && (c.op == "groupby" || c.op == "distinct" || c.op == "countdistinct" || c.op == "union") {
		_, m, ok := o.eqMatrix(c)
		if !ok {
			return
		}
		// classes of `=` TRUE (the generator only draws values on which `=` is an equivalence)
		rep := make([]int, len(all))
		classes := 0
		nulls := 0
		for i := range all {
			rep[i] = -1
			if all[i].k == 'n' {
				nulls++
				continue
			}
			for j := 0; j < i; j++ {
				if m[j][i] == 1 {
					rep[i] = rep[j]
					break
				}
			}
			if rep[i] < 0 {
				rep[i] = i
				classes++
			}
		}
		if nulls > 0 && c.op != "countdistinct" {
			classes++
		}
		if classes != nClasses {
			o.out.OracleFail(id, goRegion(c, all, m), fmt.Sprintf("%s forms %d classes, `=` forms %d: %s", c.op, nClasses, classes, c.query()))
			o.out.Stat("oracle:classcount-differs")
		}
	}
}

// eqCases: the engine's `=` between two typed columns vs. the Spec.
func (o *opRunner) eqCase(ci collInfo, lt, rt colTy, a, b val) {
	e := o.e
	ctx := e.Ctx()
	for _, q := range []string{"DROP TABLE IF EXISTS t1", "DROP TABLE IF EXISTS t2",
		"CREATE TABLE t1 (pk INT PRIMARY KEY, c " + lt.ddl(ci) + ")", "CREATE TABLE t2 (pk INT PRIMARY KEY, c " + rt.ddl(ci) + ")",
		insertSQL("t1", []val{a}), insertSQL("t2", []val{b})} {
		if r := e.Query(ctx, q); r.Class() != "ok" {
			o.fail("setup statement failed (harness defect): %s: %s %v", q, r.Class(), r.Err)
			return
		}
	}
	r := e.Query(e.Ctx(), "SELECT x.c = y.c FROM t1 x CROSS JOIN t2 y")
	obs := r.Class()
	if obs == "ok" && len(r.Rows) == 1 {
		if r.Null[0][0] {
			obs = "null"
		} else {
			obs = r.Rows[0][0]
		}
	}
	coll := "d"
	if lt == "sc" {
		coll = "c"
	}
	o.out.Case(hx.List("eq", weightTable(ci.id, strsOf([]val{a, b})), coll, a.sexp(), b.sexp()), obs, a.k != 'n' && b.k != 'n')
	o.out.Stat("eq:" + string(lt) + "/" + string(rt))
}

var typePairs = [][2]colTy{{"i", "i"}, {"d1", "d1"}, {"d2", "d2"}, {"d1", "d2"}, {"i", "d2"}, {"i", "d1"}, {"sb", "sb"}, {"sc", "sc"}, {"sc", "sc"}, {"f", "f"}, {"f", "f"}}

var opNames = []string{"groupby", "distinct", "countdistinct", "union", "intersect", "except", "inlist", "insub", "hashjoin"}

func genOpCase(r *hx.Rand, colls []collInfo, op string) opCase {
	c := opCase{op: op, ci: hx.Pick(r, colls)}
	tp := hx.Pick(r, typePairs)
	c.lt, c.rt = tp[0], tp[1]
	if op == "inlist" {
		c.rt = c.lt
	}
	nx, ny := r.Range(0, 5), r.Range(0, 4)
	if op == "inlist" {
		ny = r.Range(1, 4)
	}
	var pool []val
	for i := 0; i < nx; i++ {
		v := genColVal(r, c.lt, pool)
		pool = append(pool, v)
		c.xs = append(c.xs, v)
	}
	for i := 0; i < ny; i++ {
		var v val
		if op == "inlist" {
			// literals: any representation of the column's comparison family
			switch {
			case c.lt.isStr() || c.lt == "f": // DOUBLE column: float literals (exponent form)
				v = genColVal(r, c.lt, pool)
			case r.Chance(1, 2):
				v = genColVal(r, "i", pool)
			default:
				v = genColVal(r, hx.Pick(r, []colTy{"d1", "d2", "d3"}), pool)
			}
			if v.k == 'n' && r.Chance(1, 2) {
				v = genColVal(r, c.lt, nil)
			}
		} else {
			v = genColVal(r, c.rt, pool)
		}
		pool = append(pool, v)
		c.ys = append(c.ys, v)
	}
	// `=` between DECIMAL columns of different scale rounds one side to the other's scale
	// (0.0 = 0.04 is TRUE: a defect of comparison, C26): keep values that need the larger scale out
	if op != "inlist" && c.lt[0] == 'd' && c.rt[0] == 'd' && c.lt != c.rt {
		fix := func(vs []val, t colTy, other colTy) {
			if t.scale() <= other.scale() {
				return
			}
			p := pow10(t.scale() - other.scale())
			for i := range vs {
				if vs[i].k == 'd' {
					vs[i].i -= vs[i].i % p
				}
			}
		}
		fix(c.xs, c.lt, c.rt)
		fix(c.ys, c.rt, c.lt)
	}
	return c
}

func corpus(colls []collInfo) []opCase {
	ci := colls[0]
	a, A, b := vstr("a"), vstr("A"), vstr("b")
	var cs []opCase
	for _, op := range []string{"groupby", "distinct", "countdistinct", "union", "intersect", "except", "insub", "hashjoin"} {
		cs = append(cs, opCase{op: op, ci: ci, lt: "sc", rt: "sc", xs: []val{a, A, b, vnull()}, ys: []val{A, vstr("á")}})
		cs = append(cs, opCase{op: op, ci: ci, lt: "d1", rt: "d2", xs: []val{vdec(10, 1), vdec(25, 1), vnull()}, ys: []val{vdec(100, 2), vdec(250, 2)}})
		cs = append(cs, opCase{op: op, ci: ci, lt: "i", rt: "d2", xs: []val{vint(1), vint(2)}, ys: []val{vdec(100, 2), vdec(250, 2)}})
		cs = append(cs, opCase{op: op, ci: ci, lt: "sb", rt: "sb", xs: []val{vstr("<nil>"), vstr(""), vstr(""), a}, ys: []val{vnull(), a}})
	}
	// DOUBLE: whole numbers beyond the int64 / uint64 range, around 2^53, ±0, fractions
	big := []val{vflt(1e19), vflt(2e19), vflt(-1e19), vflt(3.5e30), vflt(9223372036854775808), vflt(2), vflt(0.5), vflt(0), vnull()}
	for _, op := range []string{"groupby", "distinct", "countdistinct", "union", "intersect", "except", "insub", "hashjoin"} {
		cs = append(cs, opCase{op: op, ci: ci, lt: "f", rt: "f", xs: big, ys: []val{vflt(2e19), vflt(18446744073709551616), vflt(2), vflt(0), vflt(9007199254740992)}})
	}
	cs = append(cs, opCase{op: "inlist", ci: ci, lt: "f", rt: "f", xs: big, ys: []val{vflt(2e19), vflt(5)}})
	cs = append(cs, opCase{op: "inlist", ci: ci, lt: "sc", rt: "sc", xs: []val{a, A, b}, ys: []val{A}})
	cs = append(cs, opCase{op: "inlist", ci: ci, lt: "i", rt: "i", xs: []val{vint(1), vint(2), vint(3)}, ys: []val{vint(1), vdec(15, 1)}})
	cs = append(cs, opCase{op: "inlist", ci: ci, lt: "i", rt: "i", xs: []val{vint(1), vint(2)}, ys: []val{vdec(10, 1), vdec(200, 2)}})
	cs = append(cs, opCase{op: "inlist", ci: ci, lt: "d1", rt: "d1", xs: []val{vdec(10, 1), vdec(25, 1)}, ys: []val{vint(1), vdec(250, 2)}})
	return cs
}

func run(a hx.RunArgs) error {
	out := hx.NewOut(a.OutDir)
	defer out.Close()
	out.Rule = "unit: real hash.HashOf / HashOfSimple on generated rows (1-4 columns; strings from a pool of case/accent variants, '', '<nil>', " +
		"separator bytes; ints of every Go width; decimals of scale 0-5; bools; float64/float32 of every magnitude (whole numbers beyond ±2^63, -0.0, fractions); with a full, partial or no schema) — non-trivial when the row is non-empty / the value non-NULL; " +
		"eq: the engine's `=` between two typed columns; op: per hashing operator a query over two freshly created tables (INT, DECIMAL(14,1|2), " +
		"VARCHAR under utf8mb4_0900_bin or a case-insensitive collation, DOUBLE with values around ±2^53, ±2^63, 2^64, up to 1e300, fractions; 0-5 + 0-4 values drawn so that `=`-equal values with different " +
		"representations occur) — non-trivial when the result is non-empty and at least two values are involved"
	r := hx.NewRand(a.Seed)
	colls := collations()
	if len(colls) < 2 {
		return fmt.Errorf("no collations with a sorter found")
	}
	var ciColls []collInfo
	for _, c := range colls {
		if strings.HasSuffix(c.name, "_ci") {
			ciColls = append(ciColls, c)
		}
	}
	nUnit, nOp, nEq := 6000, 700, 150
	if a.Thorough {
		nUnit, nOp, nEq = 300000, 40000, 6000
	}
	unitCases(out, r.Fork(), colls, nUnit)

	o := &opRunner{e: eng.New("d"), out: out}
	for _, c := range corpus(ciColls) {
		o.run(c)
		if o.err != nil {
			return o.err
		}
	}
	ro := r.Fork()
	for i := 0; i < nOp; i++ {
		c := genOpCase(ro, ciColls, opNames[i%len(opNames)])
		o.run(c)
		if o.err != nil {
			return o.err
		}
	}
	re := r.Fork()
	for i := 0; i < nEq; i++ {
		ci := hx.Pick(re, ciColls)
		tp := hx.Pick(re, typePairs)
		var pool []val
		x := genColVal(re, tp[0], nil)
		pool = append(pool, x)
		y := genColVal(re, tp[1], pool)
		// (same envelope as the op stream: `=` between DECIMAL columns of different scale rounds to the
		// smaller scale — C26 — so the larger-scale side only holds values the smaller scale can hold)
		if tp[0][0] == 'd' && tp[1][0] == 'd' && tp[0] != tp[1] {
			if tp[0].scale() > tp[1].scale() && x.k == 'd' {
				x.i -= x.i % pow10(tp[0].scale()-tp[1].scale())
			}
			if tp[1].scale() > tp[0].scale() && y.k == 'd' {
				y.i -= y.i % pow10(tp[1].scale()-tp[0].scale())
			}
		}
		o.eqCase(ci, tp[0], tp[1], x, y)
		if o.err != nil {
			return o.err
		}
	}
	return nil
}
