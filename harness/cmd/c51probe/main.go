package main

import (
	"fmt"
	"os"
	"strings"

	"github.com/dolthub/go-mysql-server/verifharness/hx/eng"
)

// c51probe: replays SQL statements (one per line on stdin, or the built-in witnesses) on the real engine.
func main() {
	e := eng.New("d")
	ctx := e.Ctx()
	q := func(s string) {
		r := e.Query(ctx, s)
		if len(s) > 150 {
			s = s[:150] + "…"
		}
		fmt.Printf("%s\n  -> %s %v\n", s, r.Class(), r.Err)
		for _, row := range r.Rows {
			x := fmt.Sprint(row)
			if len(x) > 150 {
				x = x[:150] + "…"
			}
			fmt.Println("     ", x)
		}
	}
	if len(os.Args) > 1 && os.Args[1] == "-" {
		b, _ := os.ReadFile("/dev/stdin")
		for _, l := range strings.Split(string(b), "\n") {
			if strings.TrimSpace(l) != "" {
				q(l)
			}
		}
		return
	}
	long := strings.Repeat("w", 86)
	// finding dml_rejected_for_row_with_overlong_word
	q("CREATE TABLE t (id INT PRIMARY KEY, a TEXT, FULLTEXT KEY ft (a))")
	q("INSERT INTO t VALUES (2, 'abc " + long + " pie')")
	q("SELECT * FROM t_ft_0_FTS_DOC_COUNT")
	q("UPDATE t SET a = 'sun' WHERE id = 2")
	q("SELECT id, a FROM t")
	q("DELETE FROM t WHERE id = 2")
	q("SELECT id, a FROM t")
	// finding where_match_repeats_row_per_matched_word
	q("CREATE TABLE w (id INT PRIMARY KEY, a TEXT, FULLTEXT KEY ft (a))")
	q("INSERT INTO w VALUES (1, 'sun pie'), (2, 'sun'), (3, 'moon')")
	q("SELECT id FROM w WHERE MATCH(a) AGAINST ('sun pie')")
	q("SELECT COUNT(*) FROM w WHERE MATCH(a) AGAINST ('sun pie')")
	q("SELECT id FROM (SELECT id, MATCH(a) AGAINST ('sun pie') AS rel FROM w) x WHERE rel > 0")
}
