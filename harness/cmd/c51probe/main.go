package main

import (
	"fmt"
	"strings"

	"github.com/dolthub/go-mysql-server/verifharness/hx/eng"
)

func main() {
	e := eng.New("d")
	ctx := e.Ctx()
	q := func(s string) {
		r := e.Query(ctx, s)
		if len(s) > 150 {
			s = s[:150] + "…"
		}
		fmt.Printf("%s\n  -> %s %v\n", s, r.Class(), r.Err)
		for _, row := range r.Rows {
			x := fmt.Sprint(row)
			if len(x) > 150 {
				x = x[:150] + "…"
			}
			fmt.Println("     ", x)
		}
	}
	long := strings.Repeat("w", 86)
	q("CREATE TABLE t (id INT PRIMARY KEY, a TEXT, FULLTEXT KEY ft (a))")
	q("INSERT INTO t VALUES (2, 'abc " + long + " pie')")
	q("SELECT * FROM t_ft_0_FTS_DOC_COUNT")
	q("UPDATE t SET a = 'sun' WHERE id = 2")
	q("SELECT id, a FROM t")
	q("SELECT * FROM t_ft_0_FTS_DOC_COUNT")
	q("SELECT * FROM t_ft_0_FTS_GLOBAL_COUNT")
	q("SELECT * FROM t_ft_0_FTS_ROW_COUNT")
	q("SELECT id FROM t WHERE MATCH(a) AGAINST ('abc')")
	q("DELETE FROM t WHERE id = 2")
	q("SELECT id, a FROM t")
	q("SELECT * FROM t_ft_0_FTS_DOC_COUNT")
	// WHERE form on a keyed table: one delivery per matched unique search word
	q("CREATE TABLE w (id INT PRIMARY KEY, a TEXT, FULLTEXT KEY ft (a))")
	q("INSERT INTO w VALUES (1, 'sun pie'), (2, 'sun'), (3, 'moon')")
	q("SELECT id FROM w WHERE MATCH(a) AGAINST ('sun pie')")
	q("SELECT COUNT(*) FROM w WHERE MATCH(a) AGAINST ('sun pie')")
	q("SELECT id FROM (SELECT id, MATCH(a) AGAINST ('sun pie') AS rel FROM w) x WHERE rel > 0")
	q("SELECT id FROM w WHERE MATCH(a) AGAINST ('sun pie') AND id > 0")
	// keyless duplicates
	q("CREATE TABLE k (id INT, a TEXT, FULLTEXT KEY ft (a))")
	q("INSERT INTO k VALUES (5, 'don''t')")
	q("INSERT INTO k VALUES (5, 'other')")
	q("INSERT INTO k VALUES (5, 'don''t')")
	q("SELECT * FROM k_ft_0_FTS_ROW_COUNT")
	q("DELETE FROM k WHERE id = 5")
	q("SELECT * FROM k")
	q("SELECT * FROM k_ft_0_FTS_DOC_COUNT")
	q("SELECT * FROM k_ft_0_FTS_GLOBAL_COUNT")
	q("SELECT * FROM k_ft_0_FTS_ROW_COUNT")
}
