package main

import (
	"bufio"
	"fmt"
	"go/ast"
	"go/parser"
	"go/token"
	"os"
	"path/filepath"
	"regexp"
	"runtime"
	"sort"
	"strconv"
	"strings"

	"github.com/dolthub/go-mysql-server/sql"
	"github.com/dolthub/go-mysql-server/sql/expression/function"
	"github.com/dolthub/go-mysql-server/verifharness/hx"
)

// coreCharsets are the RangeMap character sets whose tables are regenerated for the Lean driver.
var coreCharsets = []string{"latin1", "utf16", "utf32"}

// ---------------------------------------------------------------------------------------------
// Witnesses: statements that crash (or crashed) the unchanged engine, each on a fresh engine.

type witness struct {
	name     string
	accounts bool
	setup    []string
	stmt     string
	hang     bool // the statement is expected not to return: short timeout
	fatal    bool // the statement ends in an unrecoverable fatal error (kills the child): run last
}

var witnesses = []witness{
	{name: "F-C10-a convert using latin1", stmt: "SELECT HEX(CONVERT('é' USING latin1))"},
	{name: "F-C10-a length of unrepresentable latin1 column value", setup: []string{"CREATE TABLE cs1 (id INT PRIMARY KEY, c VARCHAR(20) CHARACTER SET latin1)", "INSERT INTO cs1 VALUES (2,'Ā')"}, stmt: "SELECT LENGTH(c) FROM cs1"},
	{name: "F-C10-b create user without persister", accounts: true, stmt: "CREATE USER 'u1'@'localhost' IDENTIFIED BY 'pw'"},
	{name: "C03 in-list outside the column type", setup: []string{"CREATE TABLE tt (pk INT PRIMARY KEY, a TINYINT, KEY ia(a))", "INSERT INTO tt VALUES (1,1),(2,2)"}, stmt: "SELECT pk,a FROM tt WHERE a IN (300)"},
	{name: "C08 rows frame before the partition", stmt: "SELECT id, MIN(a) OVER (PARTITION BY b ORDER BY id ROWS BETWEEN 5 PRECEDING AND 3 PRECEDING) FROM t0 ORDER BY id"},
	{name: "C16 drop index written in another case", setup: []string{"CREATE TABLE ti (id int primary key, v int, w int)", "INSERT INTO ti VALUES (1,10,100),(2,20,200)", "CREATE INDEX KV ON ti (v)", "DROP INDEX KV ON ti"}, stmt: "INSERT INTO ti VALUES (4,40,400)"},
	{name: "C16 rename index", setup: []string{"CREATE TABLE tr (id int primary key, v int, w int, key kv (v))", "INSERT INTO tr VALUES (1,10,100)", "ALTER TABLE tr RENAME INDEX kv TO kw"}, stmt: "INSERT INTO tr VALUES (4,40,400)"},
	{name: "C17/C42 write in a read-only transaction", setup: []string{"START TRANSACTION READ ONLY"}, stmt: "INSERT INTO t2 VALUES (9,9,'z')"},
	{name: "C23 trigger order", setup: []string{"CREATE TABLE tg (a INT)",
		"CREATE TRIGGER g1 BEFORE INSERT ON tg FOR EACH ROW SET @o = 1", "CREATE TRIGGER g2 BEFORE INSERT ON tg FOR EACH ROW PRECEDES g1 SET @o = 2",
		"CREATE TRIGGER g3 BEFORE INSERT ON tg FOR EACH ROW FOLLOWS g2 SET @o = 3", "CREATE TRIGGER g4 BEFORE INSERT ON tg FOR EACH ROW SET @o = 4",
		"CREATE TRIGGER g5 BEFORE INSERT ON tg FOR EACH ROW PRECEDES g4 SET @o = 5", "CREATE TRIGGER g6 BEFORE INSERT ON tg FOR EACH ROW SET @o = 6",
		"CREATE TRIGGER g7 BEFORE INSERT ON tg FOR EACH ROW SET @o = 7"}, stmt: "INSERT INTO tg VALUES (1)"},
	{name: "C32 json_unquote short unicode escape", stmt: `SELECT JSON_UNQUOTE('\\u123')`},
	{name: "C32 json_unquote surrogate escape", stmt: `SELECT JSON_UNQUOTE('\\ud800')`},
	{name: "C32 json_extract index into null", stmt: `SELECT JSON_EXTRACT('{"k1":null,"ab":"y"}', '$.k1[1].ab')`},
	{name: "C34 locate in the empty string", stmt: "SELECT LOCATE('a','',2)"},
	{name: "C34 substring length overflow", stmt: "SELECT SUBSTRING('abc', 2, 9223372036854775807)"},
	{name: "space with a huge count never returns", hang: true, stmt: "SELECT SPACE(9223372036854775807)"},
	{name: "rpad with a huge length", stmt: "SELECT RPAD('a', 1e308, 'b')"},
	{name: "curtime with a column argument", stmt: "SELECT CURTIME(a) FROM t0"},
	{name: "to_vector of an empty binary string", stmt: "SELECT TO_VECTOR(x'')"},
	{name: "truncate with a NULL scale from a column", stmt: "SELECT TRUNCATE(d, a) FROM t0"},
	{name: "json_value with a binary path", stmt: "SELECT JSON_VALUE(j, x'') FROM t0"},
	{name: "json_value with a NULL type argument", stmt: "SELECT JSON_VALUE('a', x'', NULL)"},
	{name: "unix_timestamp of a binary string", stmt: "SELECT UNIX_TIMESTAMP(x'')"},
	{name: "bare DEFAULT in a select list", stmt: "SELECT DEFAULT"},
	{name: "filter over a derived COUNT(*) of a table with a primary key: runaway recursion in the analyzer", fatal: true,
		setup: []string{"CREATE TABLE pkt (id INT PRIMARY KEY, a INT)", "INSERT INTO pkt VALUES (1, 1), (2, NULL)"},
		stmt:  "SELECT c0 FROM (SELECT COUNT(*) AS c0 FROM pkt) AS s2 WHERE c0 = 2"},
	{name: "INTERVAL used as a value", stmt: "SELECT INTERVAL 'a' b > 1 JSON"},
	{name: "CREATE EVENT with a NULL interval", stmt: "CREATE EVENT ev ON SCHEDULE EVERY NULL DAY DO SELECT 1"},
	{name: "DISTINCT inside a scalar function call", stmt: "SELECT DATEDIFF(DISTINCT '2400-01-01', '2000-01-01')"},
	{name: "convert using a character set without an encoder", stmt: "SELECT CONVERT('a' USING ucs2)"},
	{name: "empty ANSI_QUOTES identifier compared with a procedure parameter", setup: []string{"SET sql_mode = 'ANSI_QUOTES'", `CREATE PROCEDURE p3(q VARCHAR(20)) SELECT q = ""`}, stmt: "CALL p3('a')"},
	{name: "date_format of the zero date with a week specifier", stmt: "SELECT DATE_FORMAT(0, '%x')"},
	{name: "cast to a datetime with a precision above 6", stmt: "SELECT CAST('2020-01-01' AS DATETIME(7))"},
	{name: "C52 wkb line string announcing more points than it carries", stmt: "SELECT ST_GeomFromWKB(x'0102000000030000000000000000000000000000000000000000000000000000000000000000000000')"},
}

// ---------------------------------------------------------------------------------------------
// Corpus harvested from the other harnesses (committed snapshot: corpus/C10-statements.txt;
// regenerate with `.build/c10 harvest`).

type corpusFile struct {
	name  string
	stmts []string
}

func verifRoot() string {
	_, file, _, _ := runtime.Caller(0) // …/harness/cmd/c10/gen.go
	return filepath.Dir(filepath.Dir(filepath.Dir(filepath.Dir(file))))
}

func loadCorpus() ([]corpusFile, error) {
	f, err := os.Open(filepath.Join(verifRoot(), "corpus", "C10-statements.txt"))
	if err != nil {
		return nil, err
	}
	defer f.Close()
	var out []corpusFile
	sc := bufio.NewScanner(f)
	sc.Buffer(make([]byte, 1<<20), 1<<24)
	for sc.Scan() {
		ln := sc.Text()
		switch {
		case strings.HasPrefix(ln, "# file "):
			out = append(out, corpusFile{name: ln[7:]})
		case ln == "" || strings.HasPrefix(ln, "#"):
		default:
			if len(out) == 0 {
				return nil, fmt.Errorf("corpus: statement before the first `# file` line")
			}
			q, err := strconv.Unquote(ln)
			if err != nil {
				return nil, fmt.Errorf("corpus: bad line %q", ln)
			}
			out[len(out)-1].stmts = append(out[len(out)-1].stmts, q)
		}
	}
	n := 0
	for _, f := range out {
		n += len(f.stmts)
	}
	if n < 200 {
		return nil, fmt.Errorf("corpus has only %d statements", n)
	}
	return out, nil
}

var sqlStart = regexp.MustCompile(`(?i)^\s*(select|insert|update|delete|create|drop|alter|set|show|call|with|replace|start|commit|rollback|use|explain|prepare|execute|deallocate|grant|revoke|truncate|analyze|describe|table|values|begin|savepoint|release|rename|flush|do|handler|lock|unlock|declare|signal)\b`)
var verb = regexp.MustCompile(`%[-+# 0]*[0-9]*(\.[0-9]+)?[a-zA-Z]`)

func harvest() error {
	root := filepath.Join(verifRoot(), "harness")
	var files []string
	filepath.Walk(root, func(p string, info os.FileInfo, err error) error {
		if err == nil && !info.IsDir() && strings.HasSuffix(p, ".go") && !strings.Contains(p, "/cmd/c10/") && !strings.Contains(p, "/cmd/c36/") {
			files = append(files, p)
		}
		return nil
	})
	sort.Strings(files)
	var b strings.Builder
	b.WriteString("# Statement corpus of C10: SQL-looking string literals of every other harness (harness/**.go), format verbs replaced.\n")
	b.WriteString("# Snapshot written by `.build/c10 harvest`; one Go-quoted statement per line, grouped by source file.\n")
	total := 0
	for _, p := range files {
		fset := token.NewFileSet()
		f, err := parser.ParseFile(fset, p, nil, 0)
		if err != nil {
			continue
		}
		var stmts []string
		seen := map[string]bool{}
		ast.Inspect(f, func(n ast.Node) bool {
			lit, ok := n.(*ast.BasicLit)
			if !ok || lit.Kind != token.STRING {
				return true
			}
			s, err := strconv.Unquote(lit.Value)
			if err != nil || len(s) < 8 || len(s) > 2000 || !sqlStart.MatchString(s) {
				return true
			}
			s = verb.ReplaceAllStringFunc(s, func(v string) string {
				switch v[len(v)-1] {
				case 'd', 'v':
					return "1"
				case 'q':
					return "'a'"
				case 's':
					return "t0"
				}
				return "1"
			})
			s = strings.Join(strings.Fields(s), " ")
			if !strings.Contains(s, " ") || dangerous(s) || seen[s] {
				return true
			}
			seen[s] = true
			stmts = append(stmts, s)
			return true
		})
		if len(stmts) == 0 {
			continue
		}
		rel, _ := filepath.Rel(root, p)
		fmt.Fprintf(&b, "# file %s\n", rel)
		for _, s := range stmts {
			b.WriteString(strconv.Quote(s) + "\n")
			total++
		}
	}
	fmt.Fprintf(os.Stderr, "harvested %d statements from %d files\n", total, len(files))
	return os.WriteFile(filepath.Join(verifRoot(), "corpus", "C10-statements.txt"), []byte(b.String()), 0o644)
}

// ---------------------------------------------------------------------------------------------
// Envelope: statements the generators never send (they block, touch the file system, stop the
// process on purpose, or allocate without bound by design — none of these is a "crash").

var bigNumber = regexp.MustCompile(`(?i)[0-9]{5,}|[0-9]e[0-9]`)
var allocators = []string{"REPEAT", "SPACE", "LPAD", "RPAD", "EXPORT_SET", "RANDOM_BYTES", "MAKE_SET", "INSERT(", "CONCAT_WS", "QUOTE", "TO_BASE64", "HEX(", "CHAR(", "SEQUENCE", "GENERATE", "RECURSIVE", "LIMIT"}

func dangerous(q string) bool {
	u := strings.ToUpper(q)
	for _, k := range []string{"OUTFILE", "DUMPFILE", "INFILE", "LOAD_FILE", "SLEEP", "GET_LOCK", "RELEASE_LOCK", "RELEASE_ALL_LOCKS", "IS_FREE_LOCK", "IS_USED_LOCK",
		"BENCHMARK", "KILL", "SHUTDOWN", "LOAD DATA", "@@GLOBAL", "SET GLOBAL", "SET PERSIST", "SET @@PERSIST", "MAX_MEMORY", "LOCK TABLES"} {
		if strings.Contains(u, k) {
			return true
		}
	}
	if bigNumber.MatchString(u) {
		for _, k := range allocators {
			if strings.Contains(u, k) {
				return true
			}
		}
	}
	return false
}

// ---------------------------------------------------------------------------------------------
// Function grid (seed-independent: the same statements in every run of a tier)

var argPool = []string{"NULL", "0", "1", "-1", "2", "255", "65536", "9223372036854775807", "-9223372036854775808", "18446744073709551615",
	"1.5", "-0.0", "1e308", "''", "'a'", "'abc'", "'é'", "'2020-02-29'", "'0000-00-00'", "'10:11:12'", `'{"a":[1,null]}'`, "'$.a[1]'", "x'00ff'", "x''",
	"'%Y-%m-%d'", "'utf8mb4'", "TRUE", "a", "b", "j", "d"}

var allocatorFuncs = map[string]bool{"space": true, "repeat": true, "lpad": true, "rpad": true, "export_set": true, "make_set": true, "random_bytes": true, "insert": true}
var safeArgs = map[string]bool{"NULL": true, "0": true, "1": true, "-1": true, "2": true, "255": true, "''": true, "'a'": true, "'abc'": true, "'é'": true, "x'00ff'": true, "x''": true, "TRUE": true, "a": true, "b": true}

func grid(sr *sqlRunner, thorough bool) {
	names := map[string]int{} // name -> arity (-1 = variadic)
	for _, f := range function.BuiltIns {
		ar := -1
		switch f.(type) {
		case sql.Function0:
			ar = 0
		case sql.Function1:
			ar = 1
		case sql.Function2:
			ar = 2
		case sql.Function3:
			ar = 3
		case sql.Function4:
			ar = 4
		case sql.Function5:
			ar = 5
		}
		names[strings.ToLower(f.FunctionName())] = ar
	}
	r := hx.NewRand(20260922).Fork() // fixed: the grid does not depend on VERIF_SEED
	n2, n3 := 30, 30
	if thorough {
		n2, n3 = len(argPool)*len(argPool), 600
	}
	call := func(name string, args []string) {
		if allocatorFuncs[name] { // count arguments of unbounded allocators stay small (see `dangerous`)
			for _, a := range args {
				if !safeArgs[a] {
					return
				}
			}
		}
		q := "SELECT " + name + "(" + strings.Join(args, ", ") + ")"
		for _, a := range args {
			if a == "a" || a == "b" || a == "j" || a == "d" {
				q += " FROM t0"
				break
			}
		}
		if dangerous(q) {
			return
		}
		sr.stmt("grid", q)
	}
	for i, name := range sortedKeys(names) {
		if i%40 == 39 {
			sr.w = newWorld(false)
		}
		ar := names[name]
		arities := []int{ar}
		if ar < 0 {
			arities = []int{0, 1, 2, 3}
		}
		for _, k := range arities {
			switch {
			case k == 0:
				call(name, nil)
			case k == 1:
				for _, a := range argPool {
					call(name, []string{a})
				}
			default:
				n := n2
				if k >= 3 {
					n = n3
				}
				for j := 0; j < n; j++ {
					args := make([]string, k)
					for x := range args {
						args[x] = argPool[r.Intn(len(argPool))]
					}
					call(name, args)
				}
			}
		}
	}
}

// ---------------------------------------------------------------------------------------------
// Mutation and noise

var tokenRe = regexp.MustCompile(`'(?:[^'\\]|\\.|'')*'|"(?:[^"\\]|\\.)*"|` + "`[^`]*`" + `|[A-Za-z_@][A-Za-z0-9_@$.]*|[0-9]+(?:\.[0-9]+)?|<=>|<=|>=|<>|!=|:=|\|\||&&|\S`)

var keywords = []string{"SELECT", "FROM", "WHERE", "GROUP", "BY", "HAVING", "ORDER", "LIMIT", "OFFSET", "JOIN", "LEFT", "RIGHT", "ON", "USING", "UNION", "ALL", "DISTINCT",
	"AS", "AND", "OR", "NOT", "IN", "IS", "NULL", "LIKE", "BETWEEN", "EXISTS", "CASE", "WHEN", "THEN", "ELSE", "END", "INSERT", "INTO", "VALUES", "UPDATE", "SET", "DELETE",
	"CREATE", "TABLE", "INDEX", "DROP", "ALTER", "ADD", "COLUMN", "PRIMARY", "KEY", "UNIQUE", "DEFAULT", "CHECK", "WITH", "RECURSIVE", "OVER", "PARTITION", "ROWS", "RANGE",
	"PRECEDING", "FOLLOWING", "CURRENT", "ROW", "UNBOUNDED", "INTERVAL", "DAY", "COLLATE", "utf8mb4_0900_ai_ci", "latin1_swedish_ci", "CHARACTER", "CAST", "CONVERT",
	"SIGNED", "UNSIGNED", "DECIMAL", "CHAR", "BINARY", "DATE", "DATETIME", "JSON", "INT", "VARCHAR", "(", ")", ",", "*", "+", "-", "/", "%", "=", "<", ">", "<=>", ".", ";", "@v", "t0", "t1", "t2", "a", "b", "id", "x", "s", "j"}

func mutate(r *hx.Rand, q string, all []string) string {
	toks := tokenRe.FindAllString(q, -1)
	if len(toks) == 0 {
		return q
	}
	n := r.Range(1, 3)
	for ; n > 0 && len(toks) > 0; n-- {
		i := r.Intn(len(toks))
		switch r.Intn(9) {
		case 0: // delete
			toks = append(toks[:i], toks[i+1:]...)
		case 1: // duplicate
			toks = append(toks[:i+1], append([]string{toks[i]}, toks[i+1:]...)...)
		case 2: // swap
			j := r.Intn(len(toks))
			toks[i], toks[j] = toks[j], toks[i]
		case 3, 4: // replace a literal (or any token) by an edge value
			for k := 0; k < len(toks); k++ {
				t := toks[(i+k)%len(toks)]
				if t[0] == '\'' || (t[0] >= '0' && t[0] <= '9') {
					i = (i + k) % len(toks)
					break
				}
			}
			toks[i] = argPool[r.Intn(len(argPool)-4)]
		case 5: // token of another statement
			o := tokenRe.FindAllString(all[r.Intn(len(all))], -1)
			if len(o) > 0 {
				toks[i] = o[r.Intn(len(o))]
			}
		case 6: // keyword
			toks = append(toks[:i], append([]string{keywords[r.Intn(len(keywords))]}, toks[i:]...)...)
		case 7: // truncate
			toks = toks[:i]
		case 8: // splice the tail of another statement
			o := tokenRe.FindAllString(all[r.Intn(len(all))], -1)
			if len(o) > 0 {
				toks = append(toks[:i], o[r.Intn(len(o)):]...)
			}
		}
	}
	return strings.Join(toks, " ")
}

func noise(r *hx.Rand) string {
	if r.Chance(1, 8) {
		b := make([]byte, r.Range(1, 40))
		for i := range b {
			b[i] = byte(r.Intn(256))
		}
		return string(b)
	}
	n := r.Range(1, 14)
	parts := make([]string, n)
	for i := range parts {
		switch r.Intn(6) {
		case 0:
			parts[i] = argPool[r.Intn(len(argPool))]
		default:
			parts[i] = keywords[r.Intn(len(keywords))]
		}
	}
	if r.Chance(2, 3) {
		parts[0] = "SELECT"
	}
	return strings.Join(parts, " ")
}
