package main

import (
	"fmt"
	"strings"

	"github.com/dolthub/go-mysql-server/verifharness/hx"
)

// Stream `sess` — SESSION-STATE sequences.
//
// Every other statement stream of this harness sends independent statements: the session is in its
// default state and nothing a statement leaves behind is looked at again. This stream runs SCRIPTS on
// one session of a fresh engine:
//
//	settings A  →  stored objects are created  →  settings B  →  the objects are used and listed
//
// The settings are the session variables that change how statement TEXT is read or how statements
// behave (sql_mode incl. ANSI_QUOTES / ANSI / PIPES_AS_CONCAT / NO_BACKSLASH_ESCAPES / strictness,
// character_set_* / collation_connection, autocommit and open transactions, the current database,
// sql_select_limit …). The stored objects keep their source TEXT (procedures, views, triggers, events,
// column defaults, CHECK constraints, generated columns, prepared statements) and the engine parses it
// again whenever the object is used (CALL, SELECT from the view, DML that fires the trigger, INSERT
// that evaluates the default, EXECUTE) or listed (SHOW CREATE …, SHOW … STATUS, information_schema.*),
// with the parser options recorded at CREATE time or — if the code gets that wrong — with the options
// of the session that happens to run the statement. The bodies are built from literal / identifier
// spellings whose meaning depends on those options ("…" string vs identifier, || as OR vs CONCAT,
// backslash escapes, doubled quotes …).
//
// Each statement of a script is a case `(sql sess x<statement> x<history>)`; the history is the list
// of state-changing statements that ran before it on the same session (pure reads are left out).
// A script ends at the first crash (the runner replaces the session, so the state would be gone).

type sessScript struct {
	name  string
	stmts []string
}

// sql_mode values. The first block changes the parser options (ast.ParserOptions has AnsiQuotes and
// PipesAsConcat); the second block changes execution only.
var sessModes = []string{
	"''",
	"'ANSI_QUOTES'",
	"DEFAULT",
	"'ANSI'",
	"'PIPES_AS_CONCAT'",
	"'NO_BACKSLASH_ESCAPES'",
	"'ANSI_QUOTES,PIPES_AS_CONCAT,NO_BACKSLASH_ESCAPES'",
	"'STRICT_ALL_TABLES,NO_ZERO_DATE,NO_ZERO_IN_DATE,ERROR_FOR_DIVISION_BY_ZERO'",
	"'ONLY_FULL_GROUP_BY,IGNORE_SPACE,NO_AUTO_VALUE_ON_ZERO'",
	"'TRADITIONAL'",
	"4", // the bitmask spelling of ANSI_QUOTES
	"CONCAT(@@sql_mode, ',ANSI_QUOTES')",
}

// quick tier: the modes that take part in the full A x B product
const sessCoreModes = 6

// other session state
var sessAux = []string{
	"SET NAMES latin1",
	"SET NAMES utf8mb4 COLLATE utf8mb4_0900_bin",
	"SET NAMES binary",
	"SET NAMES utf16",
	"SET NAMES utf8mb3",
	"SET character_set_results = NULL",
	"SET character_set_results = latin1",
	"SET character_set_results = utf32",
	"SET character_set_client = latin1",
	"SET character_set_connection = utf32",
	"SET character_set_connection = ascii",
	"SET collation_connection = latin1_general_ci",
	"SET collation_connection = utf16_unicode_ci",
	"SET collation_connection = utf8mb4_0900_as_cs",
	"SET collation_connection = 'binary'",
	"SET autocommit = 0",
	"START TRANSACTION",
	"USE d2",
	"USE information_schema",
	"USE mysql",
	"SET sql_select_limit = 1",
	"SET sql_select_limit = 0",
	"SET foreign_key_checks = 0",
	"SET time_zone = '+13:00'",
	"SET sql_safe_updates = 1",
	"SET group_concat_max_len = 4",
	"SET div_precision_increment = 0",
	"SET strict_mysql_compatibility = 1",
	"SET sql_quote_show_create = 0",
	"SET show_external_procedures = 0",
	"SET character_set_database = latin1",
	"SET collation_database = latin1_swedish_ci",
	"SET default_collation_for_utf8mb4 = utf8mb4_general_ci",
	"SET lc_time_names = 'de_DE'",
	"SET sql_auto_is_null = 1",
	"SET @v = 'ȺȺx'",
	"SET @@session.sql_mode = DEFAULT",
	"SET character_set_client = DEFAULT, character_set_results = DEFAULT",
}

// spellings of a value (expression position)
var sessLits = []string{
	`"dq"`,
	`"t%"`,
	`"it's"`,
	`"say ""hi"""`,
	`'sq'`,
	`'it''s'`,
	`'a\'b'`,
	`'a\\'`,
	`"a\"b"`,
	`'a' 'b'`,
	`"a" "b"`,
	`'a' || 'b'`,
	`"a" || "b"`,
	`_utf8mb4'é'`,
	`_latin1"é"`,
	`N'x'`,
	`x'41'`,
	`'ȺȺx'`,
	`"ȺȾ"`,
	`'\%_'`,
	`'a\nb'`,
	"\"`\"",
	"'`b`'",
	`''`,
	`""`,
	`'a' COLLATE utf8mb4_0900_bin`,
	`@v`,
	`@@sql_mode`,
	`b`,
	`"b"`,
	"`b`",
}

func sqlQuote(s string) string { return "'" + strings.ReplaceAll(s, "'", "''") + "'" }

// sessObject: how an object is created from a value spelling L and how it is used / listed later.
type sessObject struct {
	kind   string
	create func(n int, l string) []string
	use    func(n int) []string
}

var sessObjects = []sessObject{
	{kind: "proc-select",
		create: func(n int, l string) []string {
			return []string{fmt.Sprintf("CREATE PROCEDURE p%d() SELECT %s", n, l)}
		},
		use: func(n int) []string {
			return []string{fmt.Sprintf("CALL p%d()", n), fmt.Sprintf("SHOW CREATE PROCEDURE p%d", n), fmt.Sprintf("CALL d.p%d()", n)}
		}},
	{kind: "proc-show",
		create: func(n int, l string) []string {
			return []string{fmt.Sprintf("CREATE PROCEDURE p%d() SHOW TABLES LIKE %s", n, l)}
		},
		use: func(n int) []string {
			return []string{fmt.Sprintf("CALL p%d()", n), "SHOW PROCEDURE STATUS", fmt.Sprintf("SELECT routine_name, sql_mode FROM information_schema.routines WHERE routine_name = 'p%d'", n)}
		}},
	{kind: "proc-ddl",
		create: func(n int, l string) []string {
			return []string{fmt.Sprintf("CREATE PROCEDURE p%d() CREATE TABLE pe%d (id INT PRIMARY KEY, c ENUM(%s, 'z') DEFAULT 'z', s VARCHAR(20) DEFAULT %s)", n, n, l, l)}
		},
		use: func(n int) []string {
			return []string{fmt.Sprintf("CALL p%d()", n), fmt.Sprintf("INSERT INTO pe%d (id) VALUES (1)", n), fmt.Sprintf("SHOW CREATE TABLE pe%d", n), "SELECT * FROM information_schema.parameters"}
		}},
	{kind: "proc-block",
		create: func(n int, l string) []string {
			return []string{fmt.Sprintf("CREATE PROCEDURE p%d(IN q VARCHAR(20), OUT r VARCHAR(40)) BEGIN DECLARE x VARCHAR(20) DEFAULT %s; IF q = %s THEN SET r = CONCAT(x, q); ELSE SET r = x; END IF; INSERT INTO t2 VALUES (%d, 1, r); END", n, l, l, 40+n)}
		},
		use: func(n int) []string {
			return []string{fmt.Sprintf("CALL p%d('dq', @r)", n), "SELECT @r", fmt.Sprintf("SHOW PROCEDURE STATUS LIKE 'p%d'", n), fmt.Sprintf("DROP PROCEDURE p%d", n)}
		}},
	{kind: "proc-setmode", // the routine changes the session state it was parsed under
		create: func(n int, l string) []string {
			return []string{fmt.Sprintf("CREATE PROCEDURE p%d() BEGIN SET @@session.sql_mode = 'ANSI_QUOTES'; SELECT %s; SET @m = @@sql_mode; END", n, l)}
		},
		use: func(n int) []string {
			return []string{fmt.Sprintf("CALL p%d()", n), "SELECT @m, @@sql_mode", "SELECT \"b\" FROM t0", fmt.Sprintf("CALL p%d()", n)}
		}},
	{kind: "proc-nested",
		create: func(n int, l string) []string {
			return []string{fmt.Sprintf("CREATE PROCEDURE q%d(OUT r TEXT) SET r = %s", n, l),
				fmt.Sprintf("CREATE PROCEDURE p%d() BEGIN CALL q%d(@o); SELECT @o, %s; END", n, n, l)}
		},
		use: func(n int) []string {
			return []string{fmt.Sprintf("CALL p%d()", n), fmt.Sprintf("DROP PROCEDURE q%d", n), fmt.Sprintf("CALL p%d()", n)}
		}},
	{kind: "view",
		create: func(n int, l string) []string {
			return []string{fmt.Sprintf("CREATE VIEW v%d AS SELECT id, %s AS c, b FROM t0 WHERE b <> %s OR b IS NULL", n, l, l)}
		},
		use: func(n int) []string {
			return []string{fmt.Sprintf("SELECT * FROM v%d ORDER BY id", n), fmt.Sprintf("SHOW CREATE VIEW v%d", n), fmt.Sprintf("DESCRIBE v%d", n),
				fmt.Sprintf("SELECT table_name, view_definition FROM information_schema.views WHERE table_name = 'v%d'", n),
				fmt.Sprintf("SELECT column_name, data_type, column_default FROM information_schema.columns WHERE table_name = 'v%d'", n),
				fmt.Sprintf("SELECT x.id FROM d.v%d x JOIN d.t0 y ON x.id = y.id WHERE x.c IS NOT NULL", n)}
		}},
	{kind: "view-on-view",
		create: func(n int, l string) []string {
			return []string{fmt.Sprintf("CREATE VIEW w%d AS SELECT CONCAT(b, %s) AS c, a FROM t0", n, l),
				fmt.Sprintf("CREATE VIEW v%d AS SELECT c, %s AS e FROM w%d WHERE c IS NOT NULL", n, l, n)}
		},
		use: func(n int) []string {
			return []string{fmt.Sprintf("SELECT * FROM v%d", n), "SHOW FULL TABLES", fmt.Sprintf("SHOW CREATE TABLE v%d", n),
				fmt.Sprintf("CREATE OR REPLACE VIEW w%d AS SELECT 'r' AS c, 1 AS a", n), fmt.Sprintf("SELECT * FROM v%d", n),
				fmt.Sprintf("DROP VIEW w%d", n), fmt.Sprintf("SELECT * FROM v%d", n), "SELECT * FROM information_schema.views"}
		}},
	{kind: "trigger-set",
		create: func(n int, l string) []string {
			return []string{fmt.Sprintf("CREATE TRIGGER g%d BEFORE INSERT ON t2 FOR EACH ROW SET NEW.v = CONCAT(NEW.v, %s)", n, l)}
		},
		use: func(n int) []string {
			return []string{fmt.Sprintf("INSERT INTO d.t2 VALUES (%d, 7, 'n')", 60+n), fmt.Sprintf("SHOW CREATE TRIGGER g%d", n), "SHOW TRIGGERS",
				fmt.Sprintf("SELECT trigger_name, action_statement, sql_mode FROM information_schema.triggers WHERE trigger_name = 'g%d'", n),
				fmt.Sprintf("SELECT v FROM d.t2 WHERE k1 = %d", 60+n)}
		}},
	{kind: "trigger-block",
		create: func(n int, l string) []string {
			return []string{fmt.Sprintf("CREATE TRIGGER g%d AFTER UPDATE ON t2 FOR EACH ROW BEGIN IF NEW.v = %s THEN INSERT INTO t1 (pk, s) VALUES (OLD.k1 * 10 + OLD.k2 + %d, LEFT(%s, 8)); END IF; SET @tv = %s; END", n, l, 1000*n, l, l)}
		},
		use: func(n int) []string {
			return []string{"UPDATE d.t2 SET v = 'dq' WHERE k1 = 1", "SELECT @tv", "SHOW TRIGGERS FROM d", "SELECT * FROM information_schema.triggers",
				fmt.Sprintf("DROP TRIGGER d.g%d", n), "UPDATE d.t2 SET v = 'u2' WHERE k1 = 2"}
		}},
	{kind: "event",
		create: func(n int, l string) []string {
			return []string{fmt.Sprintf("CREATE EVENT e%d ON SCHEDULE EVERY 1 DAY DISABLE COMMENT 'c' DO INSERT INTO t2 VALUES (%d, 2, %s)", n, 70+n, l)}
		},
		use: func(n int) []string {
			return []string{fmt.Sprintf("SHOW CREATE EVENT e%d", n), "SHOW EVENTS", fmt.Sprintf("SELECT event_name, event_definition, sql_mode FROM information_schema.events WHERE event_name = 'e%d'", n),
				fmt.Sprintf("ALTER EVENT e%d RENAME TO f%d", n, n), fmt.Sprintf("ALTER EVENT f%d ON SCHEDULE EVERY 2 HOUR", n), fmt.Sprintf("SHOW CREATE EVENT f%d", n), fmt.Sprintf("DROP EVENT f%d", n)}
		}},
	{kind: "table-default",
		create: func(n int, l string) []string {
			return []string{fmt.Sprintf("CREATE TABLE s%d (id INT PRIMARY KEY AUTO_INCREMENT, s VARCHAR(40) DEFAULT %s, e VARCHAR(60) DEFAULT (CONCAT(%s, 'k')))", n, l, l)}
		},
		use: func(n int) []string {
			return []string{fmt.Sprintf("INSERT INTO d.s%d () VALUES ()", n), fmt.Sprintf("INSERT INTO d.s%d (id, s) VALUES (0, DEFAULT)", n), fmt.Sprintf("SHOW CREATE TABLE d.s%d", n),
				fmt.Sprintf("SELECT column_name, column_default, extra FROM information_schema.columns WHERE table_name = 's%d'", n),
				fmt.Sprintf("ALTER TABLE d.s%d ADD COLUMN z INT DEFAULT 3", n), fmt.Sprintf("SHOW COLUMNS FROM d.s%d", n), fmt.Sprintf("SELECT * FROM d.s%d", n)}
		}},
	{kind: "table-check",
		create: func(n int, l string) []string {
			return []string{fmt.Sprintf("CREATE TABLE s%d (id INT PRIMARY KEY, s VARCHAR(40), CONSTRAINT ck%d CHECK (s <> %s))", n, n, l)}
		},
		use: func(n int) []string {
			return []string{fmt.Sprintf("INSERT INTO d.s%d VALUES (1, 'ok')", n), fmt.Sprintf("INSERT INTO d.s%d VALUES (2, 'dq')", n), fmt.Sprintf("SHOW CREATE TABLE d.s%d", n),
				"SELECT * FROM information_schema.check_constraints", "SELECT * FROM information_schema.table_constraints WHERE table_schema = 'd'",
				fmt.Sprintf("ALTER TABLE d.s%d DROP CHECK ck%d", n, n), fmt.Sprintf("UPDATE d.s%d SET s = 'dq'", n)}
		}},
	{kind: "table-generated",
		create: func(n int, l string) []string {
			return []string{fmt.Sprintf("CREATE TABLE s%d (id INT PRIMARY KEY, s VARCHAR(40), g VARCHAR(90) AS (CONCAT(s, %s)) STORED, h VARCHAR(90) AS (UPPER(%s)) VIRTUAL, KEY ig (g))", n, l, l)}
		},
		use: func(n int) []string {
			return []string{fmt.Sprintf("INSERT INTO d.s%d (id, s) VALUES (1, 'ȺȺx'), (2, NULL)", n), fmt.Sprintf("SELECT * FROM d.s%d WHERE g > ''", n), fmt.Sprintf("SHOW CREATE TABLE d.s%d", n),
				fmt.Sprintf("SELECT column_name, generation_expression, extra FROM information_schema.columns WHERE table_name = 's%d'", n),
				fmt.Sprintf("UPDATE d.s%d SET s = 'q' WHERE id = 2", n), fmt.Sprintf("ALTER TABLE d.s%d MODIFY s VARCHAR(50)", n)}
		}},
	{kind: "table-enum",
		create: func(n int, l string) []string {
			return []string{fmt.Sprintf("CREATE TABLE s%d (id INT PRIMARY KEY, c ENUM(%s, 'z') DEFAULT 'z', t SET(%s, 'y') COMMENT %s) COMMENT = %s", n, l, l, l, l)}
		},
		use: func(n int) []string {
			return []string{fmt.Sprintf("INSERT INTO d.s%d VALUES (1, 1, 1), (2, 'z', 'y')", n), fmt.Sprintf("SHOW CREATE TABLE d.s%d", n), fmt.Sprintf("SELECT c, t, c + 0 FROM d.s%d ORDER BY c", n),
				fmt.Sprintf("SELECT column_type, column_comment FROM information_schema.columns WHERE table_name = 's%d'", n),
				fmt.Sprintf("SELECT table_comment FROM information_schema.tables WHERE table_name = 's%d'", n), fmt.Sprintf("SHOW FULL COLUMNS FROM d.s%d", n)}
		}},
	{kind: "prepared",
		create: func(n int, l string) []string {
			return []string{"PREPARE ps" + fmt.Sprint(n) + " FROM " + sqlQuote(fmt.Sprintf("SELECT %s, b FROM d.t0 WHERE b = ? OR b = %s", l, l))}
		},
		use: func(n int) []string {
			return []string{"SET @a = 'a'", fmt.Sprintf("EXECUTE ps%d USING @a", n), fmt.Sprintf("EXECUTE ps%d", n), fmt.Sprintf("DEALLOCATE PREPARE ps%d", n), fmt.Sprintf("EXECUTE ps%d USING @a", n)}
		}},
	{kind: "prepared-ddl",
		create: func(n int, l string) []string {
			return []string{"PREPARE ps" + fmt.Sprint(n) + " FROM " + sqlQuote(fmt.Sprintf("CREATE VIEW pv%d AS SELECT %s AS c", n, l))}
		},
		use: func(n int) []string {
			return []string{fmt.Sprintf("EXECUTE ps%d", n), fmt.Sprintf("SELECT * FROM d.pv%d", n), fmt.Sprintf("EXECUTE ps%d", n), fmt.Sprintf("SHOW CREATE VIEW d.pv%d", n)}
		}},
	{kind: "uservar-text", // statement text kept in a user variable and prepared later
		create: func(n int, l string) []string {
			return []string{"SET @q" + fmt.Sprint(n) + " = " + sqlQuote("SELECT "+l+" FROM d.t0 LIMIT 1")}
		},
		use: func(n int) []string {
			return []string{fmt.Sprintf("PREPARE pq%d FROM @q%d", n, n), fmt.Sprintf("EXECUTE pq%d", n)}
		}},
}

// statements whose own behaviour depends on the session state (no stored object involved)
var sessPlain = []string{
	`SELECT "b" FROM t0`,
	`SELECT 'a' || 'b', 0 || 1, NULL || 'x'`,
	`SELECT 'a\'b', 'a\\', 'x''y'`,
	`SELECT 'a' LIKE 'a\\', 'a%' LIKE 'a\%', '\\' LIKE '\\\\'`,
	`SELECT b FROM t0 GROUP BY a`,
	`SELECT COUNT (*) FROM t0`,
	`SELECT 1/0, MOD(1,0), 'x' + 1`,
	`INSERT INTO d.t1 VALUES (9, 300, 'too long for s', NULL, -1)`,
	`INSERT INTO d.t0 (id, d) VALUES (40, '0000-00-00'), (41, '2021-02-30')`,
	`INSERT INTO d.t0 (id, b) VALUES (0, 'ȺȺx'), (NULL, 'zz')`,
	`SELECT 'ȺȺx', UPPER('ȺȺx'), LOWER('İẞ'), LENGTH('é'), CHAR_LENGTH('é'), HEX('é')`,
	`SELECT 'é' = 'É', 'a' = 'A', 'ß' = 'ss', 'é' LIKE 'E'`,
	`SELECT CHARSET('a'), COLLATION('a'), CHARSET(b), COLLATION(CONCAT(b, 'x')) FROM d.t0`,
	`SELECT @@character_set_client, @@character_set_results, @@collation_connection, @@sql_mode, @@autocommit, DATABASE()`,
	`CREATE TABLE cs0 (id INT PRIMARY KEY, s VARCHAR(10), l VARCHAR(10) CHARACTER SET latin1)`,
	`INSERT INTO cs0 VALUES (1, 'é', 'é'), (2, 'Ⱥ', 'x')`,
	`SELECT s, l, HEX(s), HEX(l), s = l FROM cs0`,
	`SHOW CREATE TABLE cs0`,
	`SELECT * FROM t0`,
	`SELECT * FROM d.t0 ORDER BY id`,
	`SELECT GROUP_CONCAT(b), GROUP_CONCAT(id ORDER BY id DESC SEPARATOR '--') FROM d.t0`,
	`SELECT 7/3, NOW() > '2000-01-01', CONVERT_TZ('2020-01-01 00:00:00', @@time_zone, '+00:00')`,
	`UPDATE d.t2 SET v = 'w'`,
	`DELETE FROM d.t2`,
	`ROLLBACK`,
	`COMMIT`,
	`SELECT * FROM d.t2`,
	`SHOW VARIABLES LIKE 'sql_mode'`,
	`SHOW SESSION VARIABLES LIKE 'character_set%'`,
	`SHOW TABLES`,
	`SHOW DATABASES`,
	`SHOW TABLE STATUS`,
	`SELECT table_name FROM information_schema.tables WHERE table_schema = DATABASE()`,
	`SELECT DAYNAME('2020-02-29'), MONTHNAME('2020-02-29'), DATE_FORMAT('2020-02-29', '%W %M')`,
	`SELECT * FROM (SELECT 1 AS id) x WHERE id <=> NULL`,
	`CREATE TABLE ai0 (id INT PRIMARY KEY AUTO_INCREMENT, v INT)`,
	`INSERT INTO ai0 VALUES (0, 1), (NULL, 2), (0, 3)`,
	`SELECT * FROM ai0 WHERE id IS NULL`,
	`CREATE DATABASE IF NOT EXISTS d3`,
	`USE d3`,
	`CREATE TABLE t0 (id INT PRIMARY KEY, b VARCHAR(5))`,
	`DROP DATABASE d3`,
	`SELECT DATABASE()`,
	`SHOW TABLES`,
	`USE d`,
}

func setMode(m string) string { return "SET sql_mode = " + m }

// one script: settings A (+aux) → objects → settings B (+aux) → uses, listings, plain statements
func sessBuild(name string, modeA, modeB, auxA, auxB string, objs []int, lits []string, plain []string, secondSession bool) sessScript {
	var st []string
	if modeA != "" {
		st = append(st, setMode(modeA))
	}
	if auxA != "" {
		st = append(st, auxA)
	}
	for i, o := range objs {
		st = append(st, sessObjects[o].create(i+1, lits[i%len(lits)])...)
	}
	if secondSession {
		st = append(st, "#session")
	}
	if modeB != "" {
		st = append(st, setMode(modeB))
	}
	if auxB != "" {
		st = append(st, auxB)
	}
	for i, o := range objs {
		st = append(st, sessObjects[o].use(i+1)...)
	}
	st = append(st, plain...)
	return sessScript{name: name, stmts: st}
}

// sessProductLits: the spellings whose reading depends on the parser options (indices into sessLits
// are not used: the list is explicit so that adding a spelling above does not move the product).
var sessProductLits = []string{`"dq"`, `"t%"`, `"it's"`, `"say ""hi"""`, `"a\"b"`, `"a" "b"`, `"a" || "b"`, `_latin1"é"`, `"ȺȾ"`, "\"`\"", `""`, `"b"`,
	`'a' || 'b'`, `'a\'b'`, "`b`", `@v`}

// sessScripts: a deterministic core (the same scripts for every seed of a tier — the crash sites the
// unchanged engine has in this region are reached by every seed or by none) followed by random scripts
// drawn from the same building blocks.
func sessScripts(r *hx.Rand, thorough bool) []sessScript {
	var out []sessScript
	nObj, nLit, nAux, nPlain := len(sessObjects), len(sessLits), len(sessAux), len(sessPlain)
	// 1. object kind x option-dependent spelling, stored under '' and used under ANSI_QUOTES and the other
	//    way round (the directions in which a stored text stops being parseable / changes its reading):
	//    one object per script, short histories; the first uses of the object and one listing
	for o := 0; o < nObj; o++ {
		for li, l := range sessProductLits {
			for dir := 0; dir < 2; dir++ {
				a, b := "''", "'ANSI_QUOTES'"
				if dir == 1 {
					a, b = b, a
				}
				sc := sessBuild(fmt.Sprintf("prod-%s-%d-%d", sessObjects[o].kind, li, dir), a, b, "", "", []int{o}, []string{l}, nil, false)
				if !thorough && len(sc.stmts) > 6 {
					sc.stmts = sc.stmts[:6]
				}
				out = append(out, sc)
			}
		}
	}
	// 2. every ordered pair (A, B) of the core modes (thorough: of all modes) x a rotation through the object
	//    kinds and all spellings, three objects per script, every use and listing
	nm := sessCoreModes
	if thorough {
		nm = len(sessModes)
	}
	k := 0
	for a := 0; a < nm; a++ {
		for b := 0; b < nm; b++ {
			per := 3
			objs := make([]int, per)
			lits := make([]string, per)
			for i := range objs {
				objs[i] = (k*per + i) % nObj
				lits[i] = sessLits[(k*7+i*11)%nLit]
			}
			aux := ""
			if k%3 == 2 {
				aux = sessAux[(k/3)%nAux]
			}
			out = append(out, sessBuild(fmt.Sprintf("pair-%d-%d", a, b), sessModes[a], sessModes[b], "", aux, objs, lits,
				[]string{sessPlain[k%nPlain]}, k%5 == 4))
			k++
		}
	}
	// 3. every aux setting before the objects are made and another one before they are used
	for x := 0; x < nAux; x++ {
		objs := []int{x % nObj, (x*5 + 3) % nObj}
		lits := []string{sessLits[(x*3)%nLit], sessLits[(x*5+1)%nLit]}
		plain := []string{sessPlain[(2*x)%nPlain], sessPlain[(2*x+1)%nPlain]}
		out = append(out, sessBuild(fmt.Sprintf("aux-%d", x), "", "", sessAux[x], sessAux[(x*7+3)%nAux], objs, lits, plain, false))
	}
	// 4. the plain statements in file order under every core mode (they build on each other)
	for a := 0; a < nm; a++ {
		st := []string{setMode(sessModes[a]), sessAux[a%nAux]}
		st = append(st, sessPlain...)
		out = append(out, sessScript{name: fmt.Sprintf("plain-%d", a), stmts: st})
	}
	// 5. random scripts
	nRand := 40
	if thorough {
		nRand = 3000
	}
	for i := 0; i < nRand; i++ {
		per := r.Range(1, 4)
		objs := make([]int, per)
		lits := make([]string, per)
		for j := range objs {
			objs[j] = r.Intn(nObj)
			lits[j] = sessLits[r.Intn(nLit)]
		}
		pick := func(xs []string, p int) string {
			if r.Chance(p, 4) {
				return xs[r.Intn(len(xs))]
			}
			return ""
		}
		var plain []string
		for j := r.Intn(4); j > 0; j-- {
			plain = append(plain, sessPlain[r.Intn(nPlain)])
		}
		sc := sessBuild(fmt.Sprintf("rand-%d", i), pick(sessModes, 3), pick(sessModes, 3), pick(sessAux, 2), pick(sessAux, 2), objs, lits, plain, r.Chance(1, 4))
		// a few settings changes in the middle of the uses
		for j := r.Intn(3); j > 0 && len(sc.stmts) > 2; j-- {
			at := r.Range(1, len(sc.stmts)-1)
			ins := setMode(sessModes[r.Intn(len(sessModes))])
			if r.Bool() {
				ins = sessAux[r.Intn(nAux)]
			}
			sc.stmts = append(sc.stmts[:at], append([]string{ins}, sc.stmts[at:]...)...)
		}
		out = append(out, sc)
	}
	return out
}

func isRead(q string) bool {
	u := strings.ToUpper(strings.TrimSpace(q))
	for _, p := range []string{"SELECT", "SHOW", "DESCRIBE", "DESC ", "EXPLAIN"} {
		if strings.HasPrefix(u, p) {
			return true
		}
	}
	return false
}

func runSess(sr *sqlRunner, r *hx.Rand, thorough bool) {
	for _, sc := range sessScripts(r, thorough) {
		sr.w = newWorld(false)
		var hist []string
		for _, q := range sc.stmts {
			if q == "#session" {
				sr.w.newSession()
				hist = append(hist, q)
				continue
			}
			if dangerous(q) {
				continue
			}
			sr.setup = strings.Join(hist, ";\n")
			o := sr.stmt("sess", q)
			if !isRead(q) {
				hist = append(hist, q)
			}
			if o.class == "crash" {
				sr.out.Stat("sess:script-ended-by-crash")
				break
			}
		}
		sr.out.Stat("sess:scripts")
	}
	sr.setup = ""
}
