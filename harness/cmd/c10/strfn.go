package main

import (
	"fmt"
	"strings"
	"time"
	"unicode"
	"unicode/utf8"

	"github.com/dolthub/go-mysql-server/sql"
	"github.com/dolthub/go-mysql-server/sql/expression/function"
	"github.com/dolthub/go-mysql-server/verifharness/hx"
)

// Stream `strfn` — built-in functions over EDGE STRINGS.
//
// The function grid (gen.go) crosses every built-in with a pool of edge VALUES whose strings are
// 'a', 'abc', 'é' …: nothing in it makes byte offsets, character offsets and the offsets in a
// case-mapped copy of a string differ by more than one. This stream crosses every built-in with
// strings over an alphabet of edge CHARACTERS:
//
//   - characters whose case mapping changes the UTF-8 length (Ⱥ U+023A and Ⱦ U+023E: 2 → 3 bytes when
//     lower-cased; İ U+0130: 2 → 1; ẞ U+1E9E: 3 → 2; K U+212A: 3 → 1; ı U+0131 and ſ U+017F: 2 → 1
//     when upper-cased; ⱥ U+2C65: 3 → 2),
//   - characters with a title case / without a simple mapping (ǅ, ﬁ, ß, ς, U+0345),
//   - combining marks, U+FFFD, BOM, line separator, full-width and astral characters (4 bytes, UTF-16
//     surrogate pairs), the last code point,
//
// and, for functions of two or three arguments, with RELATED arguments (the needle occurs in the
// haystack behind two or more such characters, positions lie inside / at the end of the string).
// The same strings are also the rows of table `es`, so that one statement evaluates a function on
// every one of them through column references (no constant folding).
//
// The deterministic part is the same for every seed of a tier; the seed drives the random part.

var edgeRunes = []rune{
	'x', 'A', 0xE9, 0xC9, 0xDF, 0xB5, 0xFF,
	0x130, 0x131, 0x17F, 0x1C5, 0x23A, 0x23E, 0x345, 0x301, 0x3C2, 0x3A3,
	0x1E9E, 0x212A, 0x2126, 0x2C65, 0xFB01, 0x65E5, 0xFFFD, 0x2028, 0xFEFF, 0x1F88, 0xFF21, 0xE01, 0x200D,
	0x1F600, 0x10400, 0x10FFFF, 0x1D400,
}

// the characters that lead the related-argument vectors of the deterministic part
var leadRunes = []rune{0x23A, 0x23E, 0x130, 0x1E9E, 0x212A, 0xFB01, 0x1F600, 0x1C5, 0x131, 0x301}

// caseChanges reports whether a simple case mapping of r changes its UTF-8 length.
func caseChanges(r rune) bool {
	n := utf8.RuneLen(r)
	return utf8.RuneLen(unicode.ToLower(r)) != n || utf8.RuneLen(unicode.ToUpper(r)) != n
}

// edgeStrings: the rows of table `es` (most interesting first: an error on one row ends a statement).
func edgeStrings() []string {
	var out []string
	add := func(s string) { out = append(out, s) }
	for _, r := range leadRunes {
		c := string(r)
		add(c + c + "x")
	}
	add("ȺȾȺȾȺȾ text")
	add("xȺȺ")
	add("İstanbul ıſı")
	add("straẞe STRASSE straße")
	add("ǅungla ǆ Ǆ")
	add("ﬁnal ﬂ")
	add("K K k Ω ω")
	add("😀😀x😀")
	add("𐐀𐐨 \U0010FFFF")
	add("é é ͅ")
	add("\uFEFFbom \u2028 sep")
	add("\uFFFDx\uFFFD")
	add("Ａｂｃ 日本語 กข")
	add("a\u200Db")
	add("ΣΑΣ σας")
	add(" Ⱥ ")
	add("%Ⱥ_")
	add("")
	for _, r := range edgeRunes {
		add(string(r))
	}
	return out
}

func sqlLit(s string) string { return "'" + strings.ReplaceAll(strings.ReplaceAll(s, `\`, `\\`), "'", "''") + "'" }

const strfnSchema = "CREATE TABLE es (id INT PRIMARY KEY, s VARCHAR(64), n INT, t TEXT, KEY ks (s))"

func strfnWorld() (*world, []string) {
	w := newWorld(false)
	var setup []string
	setup = append(setup, strfnSchema)
	var rows []string
	for i, s := range edgeStrings() {
		rows = append(rows, fmt.Sprintf("(%d, %s, %d, %s)", i+1, sqlLit(s), i%5-1, sqlLit(s+s)))
	}
	setup = append(setup, "INSERT INTO es VALUES "+strings.Join(rows, ", "))
	for _, q := range setup {
		if o := w.run(q, sr0timeout); o.class != "ok" {
			panic(harnessBug(fmt.Sprintf("strfn setup failed: %s: %s %s", trunc(q, 200), o.class, o.msg)))
		}
	}
	return w, setup
}

const sr0timeout = time.Minute

func builtinArities() map[string]int {
	names := map[string]int{} // name -> arity (-1 = variadic)
	for _, f := range function.BuiltIns {
		ar := -1
		switch f.(type) {
		case sql.Function0:
			ar = 0
		case sql.Function1:
			ar = 1
		case sql.Function2:
			ar = 2
		case sql.Function3:
			ar = 3
		case sql.Function4:
			ar = 4
		case sql.Function5:
			ar = 5
		}
		names[strings.ToLower(f.FunctionName())] = ar
	}
	return names
}

// operator / clause templates over the rows of es (%s = a string literal)
var strfnTemplates = []string{
	"SELECT id FROM es WHERE s LIKE CONCAT(LEFT(%s, 1), '%%')",
	"SELECT id FROM es WHERE s LIKE %s",
	"SELECT id FROM es WHERE %s LIKE CONCAT('%%', s)",
	"SELECT id FROM es WHERE s LIKE CONCAT('_', %s, '%%') ESCAPE 'Ⱥ'",
	"SELECT id FROM es WHERE s REGEXP CONCAT('^', %s)",
	"SELECT id FROM es WHERE s = %s COLLATE utf8mb4_0900_ai_ci",
	"SELECT id FROM es WHERE s COLLATE utf8mb4_general_ci >= %s",
	"SELECT id FROM es WHERE s COLLATE utf8mb4_unicode_ci BETWEEN %s AND 'z'",
	"SELECT id FROM es WHERE s IN (%s, 'x', UPPER(s))",
	"SELECT id FROM es WHERE s > %s ORDER BY s COLLATE utf8mb4_0900_ai_ci, id",
	"SELECT LOWER(s) k, COUNT(*) FROM es WHERE s <> %s GROUP BY k ORDER BY k",
	"SELECT UPPER(s) k, MIN(s), MAX(s) FROM es WHERE s <> %s GROUP BY k ORDER BY k DESC",
	"SELECT DISTINCT s COLLATE utf8mb4_0900_ai_ci FROM es WHERE s <> %s",
	"SELECT a.id, b.id FROM es a JOIN es b ON LOWER(a.s) = UPPER(b.s) WHERE a.s <> %s",
	"SELECT a.id, b.id FROM es a JOIN es b ON a.s COLLATE utf8mb4_0900_ai_ci = b.t WHERE b.s <> %s",
	"SELECT id, CONVERT(s USING latin1), CONVERT(%s USING latin1) FROM es",
	"SELECT id, CONVERT(s USING utf16), HEX(CONVERT(%s USING utf16)) FROM es",
	"SELECT id, CONVERT(s USING utf32), HEX(CONVERT(%s USING ucs2)) FROM es",
	"SELECT id, CONVERT(s USING ascii), CONVERT(%s USING binary) FROM es",
	"SELECT id, CAST(s AS CHAR(2)), CAST(%s AS CHAR(1)) FROM es",
	"SELECT id, CAST(s AS BINARY(3)), CAST(%s AS BINARY(5)) FROM es",
	"SELECT id, CAST(s AS CHAR CHARACTER SET utf16), CAST(s AS SIGNED), CAST(%s AS DECIMAL(5,2)) FROM es",
	"SELECT id, WEIGHT_STRING(s), WEIGHT_STRING(%s) FROM es",
	"SELECT id, s < %s, s <=> %s, STRCMP(s, UPPER(s)) FROM es",
	"SELECT GROUP_CONCAT(s ORDER BY s SEPARATOR %s) FROM es",
	"SELECT id, JSON_OBJECT(s, %s), JSON_QUOTE(s), JSON_ARRAY(s) FROM es",
	"SELECT id, JSON_EXTRACT(JSON_OBJECT('k', s), CONCAT('$.', 'k')), JSON_UNQUOTE(JSON_QUOTE(%s)) FROM es",
	"SELECT id, ROW_NUMBER() OVER (PARTITION BY LOWER(s) ORDER BY s), LAG(s) OVER (ORDER BY s) FROM es WHERE s <> %s",
	"SELECT id FROM es WHERE MATCH(t) AGAINST (%s)",
	"UPDATE es SET t = CONCAT(UPPER(s), %s) WHERE id > 0",
	"SELECT id, s FROM es WHERE t LIKE CONCAT('%%', LOWER(%s)) ORDER BY t",
	"CREATE TABLE ec AS SELECT LOWER(s) l, UPPER(s) u, %s c FROM es",
	"ALTER TABLE es ADD UNIQUE KEY us (s(2))",
	"ALTER TABLE es MODIFY s VARCHAR(64) COLLATE utf8mb4_0900_ai_ci",
	"SELECT id FROM es WHERE s = %s",
	"ALTER TABLE es MODIFY s VARCHAR(3)",
	"ALTER TABLE es MODIFY s VARCHAR(64) CHARACTER SET utf16",
	"SELECT id, s, LENGTH(s), UPPER(s) FROM es WHERE s >= %s ORDER BY s",
	"ALTER TABLE es MODIFY s VARCHAR(64) CHARACTER SET latin1",
}

func strfn(sr *sqlRunner, r *hx.Rand, thorough bool) {
	// table es is the fixed schema of this stream (like the base schema it is not repeated in the
	// payloads); statements that change it are carried as the history of the cases that follow them
	var hist []string
	fresh := func() {
		w, _ := strfnWorld()
		sr.w = w
		hist = nil
		sr.setup = ""
	}
	fresh()
	defer func() { sr.setup = "" }()
	names := builtinArities()
	es := edgeStrings()
	nLead := len(leadRunes)
	if !thorough {
		nLead = 2 // quick: the other lead characters are reached through the rows of es
	}
	call := func(name string, args ...string) {
		from := ""
		for _, a := range args {
			if a == "s" || a == "n" || a == "t" {
				from = " FROM es"
			}
		}
		q := "SELECT " + name + "(" + strings.Join(args, ", ") + ")" + from
		if dangerous(q) {
			return
		}
		if o := sr.stmt("strfn", q); o.class == "crash" || o.class == "timeout" {
			fresh() // a half-done statement may have left the engine in any state
		}
	}
	// ---- deterministic part ----
	for i, name := range sortedKeys(names) {
		if i%60 == 59 {
			fresh()
		}
		ar := names[name]
		has := func(k int) bool { return ar == k || (ar < 0 && k <= 3) }
		if allocatorFuncs[name] {
			// `s`/`t` never in a count position: columns only as the first argument
			if has(1) {
				call(name, "s")
			}
			if has(2) {
				call(name, "s", "2")
				call(name, "s", sqlLit(es[0]))
			}
			if has(3) {
				call(name, "s", "2", sqlLit(es[0]))
				call(name, "s", "5", "s")
			}
			if has(4) {
				call(name, "s", "2", "2", sqlLit(es[1]))
			}
			continue
		}
		if has(1) {
			call(name, "s")
			for k := 0; k < nLead; k++ {
				call(name, sqlLit(es[k]))
			}
			call(name, sqlLit(es[len(leadRunes)])) // 'ȺȾȺȾȺȾ text'
		}
		if has(2) {
			call(name, "'x'", "s")
			call(name, "s", "'x'")
			call(name, "s", "n")
			call(name, "LOWER(s)", "s")
			if thorough {
				call(name, "n", "s")
				call(name, "s", "UPPER(s)")
			}
			for k := 0; k < nLead; k++ {
				call(name, "'x'", sqlLit(es[k]))
				call(name, sqlLit(es[k]), "'X'")
				if thorough {
					call(name, sqlLit(es[k]), "2")
				}
			}
		}
		if has(3) {
			call(name, "'x'", "s", "n")
			call(name, "s", "'x'", "n")
			call(name, "s", "n", "2")
			call(name, "s", "'x'", "'Ⱥ'")
			call(name, "n", "s", "s")
			if thorough {
				call(name, "s", "2", "n")
				call(name, "s", "'Ⱥ'", "'x'")
			}
			for k := 0; k < nLead; k++ {
				call(name, "'x'", sqlLit(es[k]), "2")
				call(name, sqlLit(es[k]), "'x'", "2")
				if thorough {
					call(name, sqlLit(es[k]), "2", "2")
					call(name, sqlLit(es[k]), "'x'", sqlLit(es[(k+1)%nLead]))
				}
			}
		}
		if has(4) {
			call(name, "s", "2", "1", "'Ⱥ'")
			call(name, "s", "'x'", "s", "n")
		}
		if has(5) {
			call(name, "n", "s", "'x'", "'Ⱥ'", "2")
		}
	}
	// operators and clauses
	fresh()
	for i, t := range strfnTemplates {
		l := sqlLit(es[i%len(es)])
		q := strings.ReplaceAll(strings.ReplaceAll(t, "%s", l), "%%", "%")
		o := sr.stmt("strfn", q)
		if !isRead(q) {
			hist = append(hist, q)
			sr.setup = strings.Join(hist, ";\n")
		}
		if o.class == "crash" {
			fresh()
		}
	}
	// ---- random part ----
	fresh()
	n := 600
	if thorough {
		n = 40000
	}
	keys := sortedKeys(names)
	var pool []string
	for _, s := range es {
		pool = append(pool, sqlLit(s))
	}
	randStr := func() string {
		var b strings.Builder
		for k := r.Range(0, 6); k > 0; k-- {
			switch r.Intn(4) {
			case 0:
				b.WriteRune(leadRunes[r.Intn(len(leadRunes))])
			case 1:
				b.WriteRune(edgeRunes[r.Intn(len(edgeRunes))])
			default:
				b.WriteByte("xXaA z%_1"[r.Intn(9)])
			}
		}
		return b.String()
	}
	arg := func(prev string) string {
		switch r.Intn(12) {
		case 0:
			return "s"
		case 1:
			return "t"
		case 2:
			return "n"
		case 3:
			return hx.Pick(r, []string{"NULL", "0", "1", "2", "3", "-1", "-2", "7", "64", "1.5"})
		case 4, 5:
			return hx.Pick(r, pool)
		case 6: // a piece of the previous argument (a needle that occurs)
			if len(prev) > 2 && prev[0] == '\'' {
				rs := []rune(strings.ReplaceAll(prev[1:len(prev)-1], "''", "'"))
				if len(rs) > 0 {
					i := r.Intn(len(rs))
					j := r.Range(i+1, len(rs))
					return sqlLit(string(rs[i:j]))
				}
			}
			return "'x'"
		case 7:
			return "UPPER(" + hx.Pick(r, pool) + ")"
		case 8:
			return "LOWER(s)"
		default:
			return sqlLit(randStr() + hx.Pick(r, []string{"x", "", "xyz", " "}) + randStr())
		}
	}
	for i := 0; i < n; i++ {
		if i%400 == 399 {
			fresh()
		}
		name := hx.Pick(r, keys)
		ar := names[name]
		if ar < 0 {
			ar = r.Range(1, 4)
		}
		if ar == 0 {
			continue
		}
		args := make([]string, ar)
		prev := ""
		for k := range args {
			args[k] = arg(prev)
			prev = args[k]
		}
		if r.Chance(1, 3) && ar >= 2 { // needle first
			args[0], args[1] = args[1], args[0]
		}
		if allocatorFuncs[name] {
			for k := 1; k < len(args); k++ {
				if args[k] == "s" || args[k] == "t" || args[k] == "n" || args[k] == "64" {
					args[k] = "2"
				}
			}
		}
		call(name, args...)
	}
}
