// C10 — No SQL input crashes the engine.
//
// Two kinds of cases:
//
//  1. function-level cases of the modelled cores (the Lean driver predicts the outcome class):
//     (rm <charset> dec|enc|rep x<bytes>)   encodings.<charset>.Decode / Encode / EncodeReplaceUnknown
//     (unq x<bytes>)                        internal/strings.Unquote
//     (auth <len> <hashOk> <valid>)         MySQLDb.ValidateHash with a response of <len> bytes: accepted | denied | crash
//  2. statement-level cases `(sql <stream> x<text> [x<history>])`: the statement is run through Engine.Query and its
//     rows are read, under recover and a timeout, then `SELECT 1` must still work on the session.
//     The observation is `returns` (a result or an error came back through the API); a panic, a hang
//     or a session that stopped answering is reported to the oracle stream with the crash site (first
//     frame below the panic that is not in the Go runtime) as the defect class.
//
// The work is done by a child process; the parent turns its event file into cases.txt/… and, when
// the child dies (unrecoverable `fatal error`, out of memory), makes the statement that was running a
// failing case.
package main

import (
	"bufio"
	"bytes"
	"context"
	"crypto/sha1"
	"encoding/json"
	"fmt"
	"io"
	"net"
	"os"
	"os/exec"
	"runtime"
	"runtime/debug"
	"sort"
	"strconv"
	"strings"
	"time"

	sqle "github.com/dolthub/go-mysql-server"
	istrings "github.com/dolthub/go-mysql-server/internal/strings"
	"github.com/dolthub/go-mysql-server/memory"
	"github.com/dolthub/go-mysql-server/sql"
	"github.com/dolthub/go-mysql-server/sql/encodings"
	"github.com/dolthub/go-mysql-server/sql/mysql_db"
	"github.com/dolthub/go-mysql-server/verifharness/hx"
	"github.com/dolthub/go-mysql-server/verifharness/sqlgen"
)

func main() {
	if len(os.Args) > 1 && os.Args[1] == "harvest" {
		if err := harvest(); err != nil {
			fmt.Fprintln(os.Stderr, "harvest failed:", err)
			os.Exit(3)
		}
		return
	}
	if len(os.Args) > 1 && os.Args[1] == "script" {
		if err := script(); err != nil {
			fmt.Fprintln(os.Stderr, "script failed:", err)
			os.Exit(3)
		}
		return
	}
	hx.Main(extract, run)
}

// ---------------------------------------------------------------------------------------------
// Running one statement

type world struct {
	e   *sqle.Engine
	pro *memory.DbProvider
	ctx *sql.Context
}

var connID uint32 = 500

// debugging aid: C10_TRACE=1 prints every statement with what came back
var traceStmts = os.Getenv("C10_TRACE") != ""

const baseSchema = `
CREATE TABLE t0 (id INT PRIMARY KEY, a INT, b VARCHAR(20), c DECIMAL(10,2), d DATETIME, j JSON, KEY ia (a));
INSERT INTO t0 VALUES (1, 1, 'a', 1.50, '2020-02-29 10:00:00', '{"k":[1,2,{"x":null}]}'), (2, NULL, NULL, NULL, NULL, NULL), (3, -7, 'Zé', -0.01, '1999-12-31 23:59:59', '[]');
CREATE TABLE t1 (pk BIGINT PRIMARY KEY, x TINYINT, s VARCHAR(8) CHARACTER SET latin1, bl BLOB, u BIGINT UNSIGNED, KEY ix (x));
INSERT INTO t1 VALUES (1, 127, 'x', x'00ff', 18446744073709551615), (2, -128, '', x'', 0), (3, NULL, NULL, NULL, NULL);
CREATE TABLE t2 (k1 INT, k2 INT, v TEXT, PRIMARY KEY (k1, k2));
INSERT INTO t2 VALUES (1,1,'p'),(1,2,'q'),(2,1,NULL);
`

func newEmptyWorld() *world {
	db := memory.NewDatabase("d")
	db2 := memory.NewDatabase("d2")
	pro := memory.NewDBProvider(db, db2)
	e := sqle.NewDefault(pro)
	w := &world{e: e, pro: pro}
	w.newSession()
	return w
}

func newWorld(accounts bool) *world {
	w := newEmptyWorld()
	e := w.e
	for _, q := range strings.Split(baseSchema, ";\n") {
		if strings.TrimSpace(q) == "" {
			continue
		}
		if o := w.run(q, time.Minute); o.class != "ok" {
			panic(harnessBug(fmt.Sprintf("setup statement failed: %s: %s %s", q, o.class, o.msg)))
		}
	}
	if accounts {
		e.Analyzer.Catalog.MySQLDb.AddRootAccount() // adds root@localhost and enables the account tables; no persister is set
	}
	return w
}

func (w *world) newSession() {
	connID++
	bs := sql.NewBaseSessionWithClientServer("localhost:3306", sql.Client{Address: "localhost", User: "root"}, connID)
	sess := memory.NewSession(bs, w.pro)
	w.ctx = sql.NewContext(context.Background(), sql.WithSession(sess))
	w.ctx.SetCurrentDatabase("d")
}

type outcome struct {
	class string // ok | err | crash | timeout
	errno int
	site  string // crash site
	msg   string
	rows  int
}

type harnessBug string

// run executes one statement on the current session: Engine.Query, then every row.
func (w *world) run(q string, timeout time.Duration) outcome {
	done := make(chan outcome, 1)
	ctx := sql.NewContext(context.Background(), sql.WithSession(w.ctx.Session))
	go func() {
		var o outcome
		defer func() {
			if p := recover(); p != nil {
				o = outcome{class: "crash", msg: fmt.Sprint(p), site: crashSite(string(debug.Stack()))}
			}
			done <- o
		}()
		_, it, _, err := w.e.Query(ctx, q)
		if err != nil {
			o = outcome{class: "err", msg: err.Error()}
			return
		}
		n := 0
		for {
			_, err := it.Next(ctx)
			if err == io.EOF {
				break
			}
			if err != nil {
				it.Close(ctx)
				o = outcome{class: "err", msg: err.Error(), rows: n}
				return
			}
			n++
			if n > 200000 {
				break
			}
		}
		if err := it.Close(ctx); err != nil {
			o = outcome{class: "err", msg: err.Error(), rows: n}
			return
		}
		o = outcome{class: "ok", rows: n}
	}()
	select {
	case o := <-done:
		return o
	case <-time.After(timeout):
		return outcome{class: "timeout", site: hangSite()}
	}
}

// hangSite looks for the goroutine of the statement that is still running and returns the engine
// function that occurs most often on its stack (first one on ties), walkers and leaf helpers aside.
func hangSite() string {
	buf := make([]byte, 8<<20)
	buf = buf[:runtime.Stack(buf, true)]
	site := "unknown"
	for _, blk := range strings.Split(string(buf), "\n\n") {
		if strings.Contains(blk, "main.(*world).run.func1") {
			site = frequentSite(strings.Split(blk, "\n")) // the last matching goroutine is the most recent statement
		}
	}
	return site
}

// crashSite returns the first frame below the panic that is not in the Go runtime.
func crashSite(stack string) string {
	lines := strings.Split(stack, "\n")
	start := -1
	for i, ln := range lines {
		if strings.HasPrefix(ln, "panic(") {
			start = i
		}
	}
	if start < 0 {
		return "unknown"
	}
	for i := start + 2; i < len(lines); i += 2 {
		fn := lines[i]
		if strings.HasPrefix(fn, "\t") {
			i--
			continue
		}
		if p := strings.LastIndex(fn, "("); p > 0 {
			fn = fn[:p]
		}
		if strings.HasPrefix(fn, "runtime.") || strings.HasPrefix(fn, "runtime/") || fn == "" ||
			strings.HasPrefix(fn, "strings.") || strings.HasPrefix(fn, "bytes.") || strings.HasPrefix(fn, "unicode/") ||
			strings.HasPrefix(fn, "math/") || strings.HasPrefix(fn, "strconv.") || strings.HasPrefix(fn, "time.") ||
			strings.HasPrefix(fn, "reflect.") || strings.HasPrefix(fn, "sort.") || strings.HasPrefix(fn, "slices.") {
			continue
		}
		// generic tree walkers are skipped: the site is the rule / function that started the walk
		if strings.HasSuffix(fn, "go-mysql-server/sql.Walk") || strings.Contains(fn, "go-mysql-server/sql.inspector") || strings.HasSuffix(fn, "go-mysql-server/sql.Inspect") ||
			strings.Contains(fn, "go-mysql-server/sql/transform.") {
			continue
		}
		fn = strings.TrimPrefix(fn, "github.com/dolthub/go-mysql-server/")
		fn = strings.TrimPrefix(fn, "github.com/dolthub/go-mysql-server.")
		// closures: keep the enclosing function
		for strings.HasSuffix(fn, ".func1") || strings.HasSuffix(fn, ".func2") || strings.HasSuffix(fn, ".func3") {
			fn = fn[:len(fn)-6]
		}
		return fn
	}
	return "unknown"
}

// ---------------------------------------------------------------------------------------------
// Function-level cases

func rmCase(out *sink, cs string, enc encodings.Encoder, op string, in []byte) {
	var class string
	p := hx.Safe(func() {
		switch op {
		case "dec":
			if _, ok := enc.Decode(append([]byte(nil), in...)); ok {
				class = "ok"
			} else {
				class = "fail"
			}
		case "enc":
			// exact-capacity argument: what a Go string converted to []byte has
			if _, ok := enc.Encode(append(make([]byte, 0, len(in)), in...)); ok {
				class = "ok"
			} else {
				class = "fail"
			}
		case "rep":
			enc.EncodeReplaceUnknown(append(make([]byte, 0, len(in)), in...))
			class = "ok"
		}
	})
	if p != "" {
		class = "crash"
	}
	id := out.Case(hx.List("rm", cs, op, hx.Hex(in)), class, class != "ok")
	out.Stat("core:rm:" + op + ":" + class)
	if class == "crash" {
		tag := "-"
		if op == "enc" {
			tag = "rangemap_encode_unguarded_tail"
		}
		out.OracleFail(id, tag, fmt.Sprintf("encodings %s.%s(% x) panics: %s", cs, op, in, p))
	}
}

func unqCase(out *sink, in []byte) {
	var class string
	p := hx.Safe(func() {
		if _, err := istrings.Unquote(string(in)); err != nil {
			class = "err"
		} else {
			class = "ok"
		}
	})
	if p != "" {
		class = "crash"
	}
	id := out.Case(hx.List("unq", hx.Hex(in)), class, class != "ok")
	out.Stat("core:unq:" + class)
	if class == "crash" {
		out.OracleFail(id, "unquote_bad_unicode_escape", fmt.Sprintf("strings.Unquote(%q) panics: %s", in, p))
	}
}

type fakeAddr struct{}

func (fakeAddr) Network() string { return "tcp" }
func (fakeAddr) String() string  { return "127.0.0.1:3306" }

var _ net.Addr = fakeAddr{}

// authCase: MySQLDb.ValidateHash for account np (password "secret") with a response of n bytes.
// valid: the response starts with the correct token (SHA1(pw) XOR SHA1(salt ‖ SHA1(SHA1(pw)))),
// cut or zero-extended to n bytes. Observation: accepted | denied | crash.
func authCase(out *sink, db *mysql_db.MySQLDb, user string, valid bool, n int) {
	salt := []byte("01234567890123456789")
	h1 := sha1.Sum([]byte("secret"))
	h2 := sha1.Sum(h1[:])
	scr := sha1.Sum(append(append([]byte(nil), salt...), h2[:]...))
	resp := make([]byte, n)
	for i := range resp {
		switch {
		case valid && i < 20:
			resp[i] = h1[i] ^ scr[i]
		case valid:
			resp[i] = 0
		default:
			resp[i] = byte(i*7 + 1)
		}
	}
	var class string
	p := hx.Safe(func() {
		if _, err := db.ValidateHash(salt, user, resp, fakeAddr{}); err != nil {
			class = "denied"
		} else {
			class = "accepted"
		}
	})
	if p != "" {
		class = "crash"
	}
	b := "0"
	if valid {
		b = "1"
	}
	id := out.Case(hx.List("auth", strconv.Itoa(n), "1", b), class, class != "denied")
	out.Stat("core:auth:" + class)
	if class == "crash" {
		// (was the listed region native_password_short_response until the repair d3c438db7)
		out.OracleFail(id, "-", fmt.Sprintf("MySQLDb.ValidateHash with a %d-byte mysql_native_password response panics: %s", n, p))
	}
	if valid && n == 20 && class != "accepted" {
		out.OracleFail(id, "-", "the correct 20-byte token is not accepted (harness or engine defect)")
	}
	if class == "accepted" && !(valid && n == 20) {
		out.OracleFail(id, "-", fmt.Sprintf("a %d-byte response (valid token prefix: %v) is accepted", n, valid))
	}
}

// ---------------------------------------------------------------------------------------------
// Statement-level cases

type sqlRunner struct {
	out     *sink
	w       *world
	timeout time.Duration
	setup   string // statements that built the tables of the current engine beyond the base schema (part of the payload)
}

// stmt runs one statement as a case. setup statements are not cases.
func (r *sqlRunner) stmt(stream, q string) outcome {
	payload := hx.List("sql", stream, hx.HexS(q))
	if r.setup != "" {
		payload = hx.List("sql", stream, hx.HexS(q), hx.HexS(r.setup))
	}
	r.out.Pending(payload)
	o := r.w.run(q, r.timeout)
	if traceStmts {
		fmt.Fprintf(os.Stderr, "TRACE %s\t%s\t%s\t%s\n", stream, o.class, trunc(hx.OneLine(o.msg), 150), hx.OneLine(q))
	}
	obs := "returns"
	id := r.out.Case(payload, obs, o.class == "ok" && o.rows > 0)
	r.out.Pending("")
	r.out.Stat("sql:" + stream)
	r.out.Stat("class:" + o.class)
	switch o.class {
	case "crash":
		r.out.OracleFail(id, "panic:"+o.site, fmt.Sprintf("panic out of Engine.Query / the row iterator: %s [at %s] statement: %s", trunc(o.msg, 160), o.site, trunc(q, 300)))
		r.out.Stat("crash-site:" + o.site)
		r.w.newSession()
	case "timeout":
		r.out.OracleFail(id, "hang:"+o.site, fmt.Sprintf("statement did not finish within %s [running in %s]: %s", r.timeout, o.site, trunc(q, 300)))
		r.out.Stat("hang-site:" + o.site)
		r.w = newWorld(false)
		if stream != "witness" {
			// the statement is still running in this process (a runaway recursion ends in an unrecoverable
			// stack overflow minutes later): stop here rather than blame a later statement
			r.out.Stat("aborted-after-hang")
			r.out.Close()
			os.Exit(0)
		}
		return o
	}
	// the session stays usable
	if p := r.w.run("SELECT 1", r.timeout); p.class != "ok" || p.rows != 1 {
		if stillBroken := r.w.run("SELECT 1", r.timeout); stillBroken.class != "ok" {
			r.out.OracleFail(id, "-", fmt.Sprintf("after %q the session no longer answers SELECT 1: %s %s", trunc(q, 200), stillBroken.class, stillBroken.msg))
			r.w.newSession()
		}
	}
	return o
}

func trunc(s string, n int) string {
	if len(s) > n {
		return s[:n] + "…"
	}
	return s
}

// ---------------------------------------------------------------------------------------------

func run(a hx.RunArgs) (err error) {
	if os.Getenv("C10_CHILD") == "" {
		return parent(a)
	}
	out := newSink(a.OutDir)
	defer func() {
		if p := recover(); p != nil {
			err = fmt.Errorf("harness defect: %v", p)
		}
		out.Close()
	}()
	// a runaway recursion should kill this child while its statement is still the pending one, not
	// minutes later (the default limit is 1 GB)
	debug.SetMaxStack(48 << 20)
	r := hx.NewRand(a.Seed).Fork()
	rc, rm, rn, rg := r.Fork(), r.Fork(), r.Fork(), r.Fork()
	only := os.Getenv("C10_ONLY") // debugging aid: run a single statement stream
	want := func(stream string) bool { return only == "" || strings.Contains(","+only+",", ","+stream+",") }

	// ---- 1. modelled cores ------------------------------------------------------------------
	encs := map[string]encodings.Encoder{}
	it := sql.NewCharacterSetsIterator()
	for cs, ok := it.Next(); ok; cs, ok = it.Next() {
		if cs.Encoder != nil {
			encs[cs.Name] = cs.Encoder
		}
	}
	var rmNames []string
	for _, n := range coreCharsets {
		if _, ok := encs[n]; !ok {
			return fmt.Errorf("character set %s has no encoder any more", n)
		}
		rmNames = append(rmNames, n)
	}
	coreCorpus := [][]byte{{}, {0xE9}, {0xC4, 0x80}, {'a', 0xC4, 0x80, 'b'}, {0xC4, 0x80, 'a', 'b', 'c'}, {0xC3}, {0xC3, 0xA9}, {'h', 0xC3, 0xA9, 'l', 'l', 'o'},
		{0xF0, 0x9F, 0x98, 0x80}, {0xF0, 0x9F, 0x98}, {0xED, 0xA0, 0x80}, {0xF4, 0x90, 0x80, 0x80}, {0xFF}, {0, 0x41}, {0xD8, 0x00}, {0, 0, 0, 0x41}, {0x80}}
	for _, cs := range rmNames {
		for _, op := range []string{"dec", "enc", "rep"} {
			for _, in := range coreCorpus {
				rmCase(out, cs, encs[cs], op, in)
			}
		}
	}
	nCore := 3000
	if a.Thorough {
		nCore = 200000
	}
	alphabet := []byte{0, 'a', 'z', 0x7f, 0x80, 0xA9, 0xBF, 0xC2, 0xC3, 0xC4, 0xDF, 0xE0, 0xE2, 0xED, 0xEF, 0xF0, 0xF4, 0xF5, 0xFF, 0x82, 0xAC, 0x9F, 0x98}
	randBytes := func(max int) []byte {
		n := rc.Intn(max + 1)
		b := make([]byte, n)
		for i := range b {
			if rc.Chance(3, 4) {
				b[i] = alphabet[rc.Intn(len(alphabet))]
			} else {
				b[i] = byte(rc.Intn(256))
			}
		}
		return b
	}
	for i := 0; i < nCore; i++ {
		cs := hx.Pick(rc, rmNames)
		rmCase(out, cs, encs[cs], hx.Pick(rc, []string{"dec", "enc", "enc", "rep"}), randBytes(7))
	}
	// Unquote: corpus, every string over a small alphabet up to length 7 around `\u`, random
	for _, s := range []string{"", `"`, `""`, `"a"`, `\`, `\\`, `\u123`, `\u1234`, `\ud800`, `\udfff`, `\u12`, `\u`, `a\u00e9b`, `"\u0041"`, `\n\t\"`, `\u12g4`, "\\u12\x00"} {
		unqCase(out, []byte(s))
	}
	ualpha := []byte{'\\', 'u', 'd', '8', '0', 'a', '"'}
	maxU := 4
	if a.Thorough {
		maxU = 6
	}
	var enumU func(prefix []byte)
	enumU = func(prefix []byte) {
		if len(prefix) > 0 {
			unqCase(out, prefix)
		}
		if len(prefix) == maxU {
			return
		}
		for _, c := range ualpha {
			enumU(append(append([]byte(nil), prefix...), c))
		}
	}
	enumU(nil)
	for i := 0; i < nCore/2; i++ {
		b := randBytes(10)
		for k := range b {
			if rc.Chance(1, 3) {
				b[k] = ualpha[rc.Intn(len(ualpha))]
			}
		}
		unqCase(out, b)
	}
	// mysql_native_password: every response length 0..40, with a valid and an invalid stored hash
	{
		w := newWorld(true)
		w.e.Analyzer.Catalog.MySQLDb.SetPersister(&mysql_db.NoopPersister{})
		w.e.Analyzer.Catalog.MySQLDb.SetPlugins(nil)
		for _, q := range []string{"CREATE USER 'np'@'%' IDENTIFIED WITH mysql_native_password BY 'secret'", "CREATE USER 'nopw'@'%'"} {
			if o := w.run(q, time.Minute); o.class != "ok" {
				return fmt.Errorf("setup %s: %s %s", q, o.class, o.msg)
			}
		}
		for n := 0; n <= 40; n++ {
			authCase(out, w.e.Analyzer.Catalog.MySQLDb, "np", false, n)
			authCase(out, w.e.Analyzer.Catalog.MySQLDb, "np", true, n)
		}
	}

	// Locate.Eval over strings whose case mapping changes the length; stored-procedure histories (cores2.go)
	locCases(out, hx.NewRand(a.Seed*1000003+0xc10c).Fork(), a.Thorough)
	rpCases(out, hx.NewRand(a.Seed*1000003+0xc10d).Fork(), a.Thorough)

	// ---- 2. statements ----------------------------------------------------------------------
	sr := &sqlRunner{out: out, w: newWorld(false), timeout: 30 * time.Second}
	// 2a. witnesses of the listed findings (and of other properties' crash findings), each on a fresh engine
	for _, wt := range witnesses {
		if !want("witness") {
			break
		}
		if wt.fatal || wt.hang {
			continue // run at the very end: a fatal witness kills this process, a hanging one keeps burning CPU and memory in its goroutine
		}
		sr.w = newWorld(wt.accounts)
		for _, q := range wt.setup {
			if o := sr.w.run(q, sr.timeout); o.class == "crash" || o.class == "timeout" {
				return fmt.Errorf("witness setup %q: %s %s", q, o.class, o.msg)
			}
		}
		sr.stmt("witness", wt.stmt)
	}
	// 2b. the statement corpus harvested from the other harnesses, in file order, one engine per file
	corpus, err := loadCorpus()
	if err != nil {
		return err
	}
	var flat []string
	for _, f := range corpus {
		sr.w = newWorld(false)
		for _, q := range f.stmts {
			if want("corpus") {
				sr.stmt("corpus", q)
			}
			flat = append(flat, q)
		}
	}
	// 2c. function grid: every built-in function x argument vectors from a pool of edge values
	sr.w = newWorld(false)
	if want("grid") {
		grid(sr, a.Thorough)
	}
	// 2d. token-level mutations of corpus statements
	nMut, nNoise, nGen := 1200, 500, 240
	if a.Thorough {
		nMut, nNoise, nGen = 60000, 20000, 10000
	}
	sr.w = newWorld(false)
	for i := 0; i < nMut && want("mutant"); i++ {
		if i%500 == 499 {
			sr.w = newWorld(false)
		}
		q := mutate(rm, hx.Pick(rm, flat), flat)
		if dangerous(q) {
			continue
		}
		sr.stmt("mutant", q)
	}
	// 2e. noise: keyword soup and raw bytes
	sr.w = newWorld(false)
	for i := 0; i < nNoise && want("noise"); i++ {
		q := noise(rn)
		if dangerous(q) {
			continue
		}
		sr.stmt("noise", q)
	}
	// 2f. generated queries over generated databases (harness/sqlgen)
	g := sqlgen.NewGen(rg, sqlgen.Default())
	for i := 0; i < nGen && want("sqlgen"); {
		db := g.GenDb()
		sr.w = newEmptyWorld()
		for _, q := range db.Setup() {
			if o := sr.w.run(q, sr.timeout); o.class != "ok" {
				return fmt.Errorf("sqlgen setup %q: %s %s", q, o.class, o.msg)
			}
		}
		sr.setup = strings.Join(db.Setup(), ";\n")
		for k := 0; k < 12 && i < nGen; k, i = k+1, i+1 {
			q, tys := g.Query(g.R.Range(1, 4))
			if g.R.Chance(1, 3) {
				q = g.OrderLimit(q, tys, true)
			}
			p := &sqlgen.Printer{Db: db, NoFuse: g.R.Chance(1, 8), CTE: g.R.Chance(1, 8), AllowSetopOffset: g.R.Chance(1, 4), AllowDistinctOrdinal: g.R.Chance(1, 4),
				AllowHavingOverJoin: g.R.Chance(1, 4), AllowMixedJoinChains: g.R.Chance(1, 4), FuseGroupProject: g.R.Chance(1, 4)}
			sr.stmt("sqlgen", p.SQL(q))
		}
		sr.setup = ""
	}
	// 2h. built-in functions and operators over edge strings (strfn.go); own generator so that the
	//     older streams keep their sample
	if want("strfn") {
		strfn(sr, hx.NewRand(a.Seed*1000003+0xc10a).Fork(), a.Thorough)
	}
	// 2i. session-state sequences: settings, stored objects, settings, uses and listings (sess.go)
	if want("sess") {
		runSess(sr, hx.NewRand(a.Seed*1000003+0xc10b).Fork(), a.Thorough)
	}
	// 2g'. witnesses that are expected not to return (short timeout; their goroutine goes on running)
	for _, wt := range witnesses {
		if !wt.hang || wt.fatal || !want("witness") {
			continue
		}
		sr.w = newWorld(wt.accounts)
		for _, q := range wt.setup {
			if o := sr.w.run(q, sr.timeout); o.class == "crash" || o.class == "timeout" {
				return fmt.Errorf("witness setup %q: %s %s", q, o.class, o.msg)
			}
		}
		sr.timeout = 8 * time.Second
		sr.stmt("witness", wt.stmt)
		sr.timeout = 30 * time.Second
	}
	// 2g. witnesses that end in an unrecoverable fatal error: last, the parent reports them
	for _, wt := range witnesses {
		if !wt.fatal || !want("witness") {
			continue
		}
		sr.w = newEmptyWorld()
		for _, q := range wt.setup {
			if o := sr.w.run(q, sr.timeout); o.class != "ok" {
				return fmt.Errorf("witness setup %q: %s %s", q, o.class, o.msg)
			}
		}
		sr.setup = strings.Join(wt.setup, ";\n")
		out.w.Flush()
		sr.stmt("witness", wt.stmt)
		sr.setup = ""
	}
	return nil
}

// ---------------------------------------------------------------------------------------------
// Parent / child plumbing (see harness/cmd/c36 for the same scheme).

type event struct {
	T       string `json:"t"`
	Payload string `json:"payload,omitempty"`
	Obs     string `json:"obs,omitempty"`
	NT      bool   `json:"nt,omitempty"`
	ID      string `json:"id,omitempty"`
	Tag     string `json:"tag,omitempty"`
	Desc    string `json:"desc,omitempty"`
	Key     string `json:"key,omitempty"`
	N       int    `json:"n,omitempty"`
}

type sink struct {
	f       *os.File
	w       *bufio.Writer
	n       int
	pending *os.File
}

func newSink(dir string) *sink {
	os.MkdirAll(dir, 0o755)
	f, err := os.Create(dir + "/events.jsonl")
	if err != nil {
		panic(err)
	}
	p, err := os.Create(dir + "/pending.txt")
	if err != nil {
		panic(err)
	}
	return &sink{f: f, w: bufio.NewWriterSize(f, 1<<20), pending: p}
}

func (s *sink) put(e event) {
	b, _ := json.Marshal(e)
	s.w.Write(append(b, '\n'))
}
func (s *sink) Case(payload, obs string, nt bool) string {
	s.n++
	s.put(event{T: "case", Payload: payload, Obs: obs, NT: nt})
	return strconv.Itoa(s.n)
}
func (s *sink) OracleFail(id, tag, desc string) {
	s.put(event{T: "fail", ID: id, Tag: tag, Desc: desc})
}
func (s *sink) Stat(key string) { s.put(event{T: "stat", Key: key, N: 1}) }

// Pending records the statement that is about to run (one small overwritten file; survives the death
// of the process without any flush of the event stream being needed for it).
func (s *sink) Pending(payload string) {
	s.pending.Truncate(0)
	s.pending.WriteAt([]byte(payload), 0)
}
func (s *sink) Close() { s.w.Flush(); s.f.Close(); s.pending.Close() }

func parent(a hx.RunArgs) error {
	os.MkdirAll(a.OutDir, 0o755)
	cmd := exec.Command(os.Args[0], os.Args[1:]...)
	cmd.Env = append(os.Environ(), "C10_CHILD=1")
	var errBuf bytes.Buffer
	cmd.Stdout, cmd.Stderr = os.Stdout, io.MultiWriter(os.Stderr, &errBuf)
	runErr := cmd.Run()

	out := hx.NewOut(a.OutDir)
	defer out.Close()
	out.Rule = "function-level cases of the modelled cores (RangeMap Decode/Encode/EncodeReplaceUnknown of latin1/utf16/utf32 on corpus + random byte strings, " +
		"strings.Unquote on every string over {\\,u,d,8,0,a,\"} up to a length bound + random, MySQLDb.ValidateHash for every response length 0..40) and " +
		"statement-level cases through Engine.Query + row iteration + `SELECT 1` afterwards: witnesses of listed crash findings, the statement corpus harvested from " +
		"every other harness (corpus/C10-statements.txt), every built-in function x argument vectors over a pool of edge values, token-level mutants of corpus " +
		"statements, keyword/byte noise, sqlgen queries with all printer options, stream strfn (every built-in function and a list of string operators / clauses over " +
		"edge STRINGS — characters whose case mapping changes the UTF-8 length, title-case / combining / astral characters — as literals and as the rows of a table, " +
		"with related needle / haystack / position arguments; deterministic part + seeded random part), stream sess (scripts on one session: sql_mode / character set / " +
		"autocommit / current-database settings, stored objects of 18 kinds built from option-dependent spellings, other settings, uses and information_schema / SHOW " +
		"listings; deterministic product + seeded random scripts; each case carries the state-changing statements that ran before it); further function-level cores: " +
		"Locate.Eval on literals over an alphabet of length-changing characters (every haystack up to a length bound x needles taken from it x positions) and " +
		"stored-procedure histories SET sql_mode / CREATE PROCEDURE / CALL / information_schema.routines (every mode pair x body + random); a function-level case is " +
		"non-trivial when the outcome is not `ok` (loc: not 0; rp: a CREATE failed), a statement-level case when the statement returned at least one row"
	f, err := os.Open(a.OutDir + "/events.jsonl")
	if err != nil {
		return fmt.Errorf("child wrote no events: %v / %v", err, runErr)
	}
	defer f.Close()
	sc := bufio.NewScanner(f)
	sc.Buffer(make([]byte, 1<<20), 1<<28)
	for sc.Scan() {
		var e event
		if err := json.Unmarshal(sc.Bytes(), &e); err != nil {
			continue
		}
		switch e.T {
		case "case":
			out.Case(e.Payload, e.Obs, e.NT)
		case "fail":
			out.OracleFail(e.ID, e.Tag, e.Desc)
		case "stat":
			out.StatN(e.Key, e.N)
		}
	}
	if runErr == nil {
		return nil
	}
	pb, _ := os.ReadFile(a.OutDir + "/pending.txt")
	pending := strings.TrimRight(string(pb), "\x00")
	if pending == "" || strings.Contains(errBuf.String(), "harness defect:") {
		return fmt.Errorf("child failed (not while a statement was running, or by a harness defect): %v", runErr)
	}
	msg := "process died"
	for _, ln := range strings.Split(errBuf.String(), "\n") {
		if strings.HasPrefix(ln, "fatal error:") || strings.HasPrefix(ln, "panic:") || strings.HasPrefix(ln, "runtime:") {
			msg = strings.TrimSpace(ln)
			break
		}
	}
	region := "-"
	if strings.Contains(errBuf.String(), "stack overflow") || strings.Contains(errBuf.String(), "goroutine stack exceeds") {
		region = "fatal:stack-overflow:" + overflowSite(errBuf.String())
	}
	// NOTE: the events the child had buffered but not flushed are lost; the dying statement is kept.
	id := out.Case(pending, "returns", true)
	out.OracleFail(id, region, "the process died while this statement was running: "+msg)
	out.Stat("child-died")
	return nil
}

// overflowSite: the engine function that occurs most often on the overflowing goroutine's stack
// (the recursion cycle), generic tree walkers and leaf helpers aside.
func overflowSite(stderr string) string {
	i := strings.Index(stderr, "[running]:")
	if i < 0 {
		return "unknown"
	}
	blk := stderr[i:]
	if j := strings.Index(blk, "\n\n"); j > 0 {
		blk = blk[:j]
	}
	return frequentSite(strings.Split(blk, "\n"))
}

func frequentSite(lines []string) string {
	count := map[string]int{}
	var order []string
	for _, ln := range lines {
		if strings.HasPrefix(ln, "\t") || !strings.Contains(ln, "go-mysql-server") {
			continue
		}
		fn := ln
		if p := strings.LastIndex(fn, "("); p > 0 {
			fn = fn[:p]
		}
		if strings.Contains(fn, "go-mysql-server/sql.Walk") || strings.Contains(fn, "go-mysql-server/sql.inspector") || strings.Contains(fn, "go-mysql-server/sql.Inspect") ||
			strings.Contains(fn, "go-mysql-server/sql.ColSet") || strings.Contains(fn, "go-mysql-server/sql/sets.") ||
			strings.Contains(fn, "go-mysql-server/sql/expression.") || strings.Contains(fn, "go-mysql-server/sql/transform.") || strings.Contains(fn, "go-mysql-server/sql/types.") ||
			strings.Contains(fn, "verifharness") {
			continue
		}
		fn = strings.TrimPrefix(fn, "github.com/dolthub/go-mysql-server/")
		fn = strings.TrimPrefix(fn, "github.com/dolthub/go-mysql-server.")
		for strings.HasSuffix(fn, ".func1") || strings.HasSuffix(fn, ".func2") || strings.HasSuffix(fn, ".func3") {
			fn = fn[:len(fn)-6]
		}
		if count[fn] == 0 {
			order = append(order, fn)
		}
		count[fn]++
	}
	best := "unknown"
	for _, fn := range order {
		if best == "unknown" || count[fn] > count[best] {
			best = fn
		}
	}
	return best
}

func sortedKeys[V any](m map[string]V) []string {
	ks := make([]string, 0, len(m))
	for k := range m {
		ks = append(ks, k)
	}
	sort.Strings(ks)
	return ks
}
