package main

import (
	"fmt"
	"go/ast"
	"go/token"
	"os"
	"sort"
	"strings"

	"github.com/dolthub/go-mysql-server/sql"
	"github.com/dolthub/go-mysql-server/sql/encodings"
	"github.com/dolthub/go-mysql-server/verifharness/hx"
)

func selText(e ast.Expr) string {
	switch t := e.(type) {
	case *ast.Ident:
		return t.Name
	case *ast.SelectorExpr:
		return selText(t.X) + "." + t.Sel.Name
	case *ast.CallExpr:
		return selText(t.Fun) + "()"
	}
	return "?"
}

// isLenGuard reports whether st is `if <ident> > len(str) { …; return … }`.
func isLenGuard(st ast.Stmt) bool {
	is, ok := st.(*ast.IfStmt)
	if !ok || is.Init != nil || is.Else != nil {
		return false
	}
	be, ok := is.Cond.(*ast.BinaryExpr)
	if !ok || be.Op != token.GTR {
		return false
	}
	if _, ok := be.X.(*ast.Ident); !ok {
		return false
	}
	call, ok := be.Y.(*ast.CallExpr)
	if !ok || len(call.Args) != 1 || selText(call.Fun) != "len" || selText(call.Args[0]) != "str" {
		return false
	}
	for _, s := range is.Body.List {
		if _, ok := s.(*ast.ReturnStmt); ok {
			return true
		}
	}
	return false
}

// hasLenGuard: the inner search loop (`for ; n <= …; n++`) checks `if n > len(str) { return … }`
// before the first statement that slices `str`. ok=false: no such loop found.
func hasLenGuard(fd *ast.FuncDecl) (guard, ok bool) {
	ast.Inspect(fd.Body, func(n ast.Node) bool {
		fs, isFor := n.(*ast.ForStmt)
		if !isFor || fs.Cond == nil || fs.Post == nil {
			return true
		}
		ok = true
		for _, st := range fs.Body.List {
			if isLenGuard(st) {
				guard = true
				return false
			}
			slices := false
			ast.Inspect(st, func(m ast.Node) bool {
				if se, isSl := m.(*ast.SliceExpr); isSl && selText(se.X) == "str" {
					slices = true
				}
				return true
			})
			if slices {
				return false
			}
		}
		return false
	})
	return guard, ok
}

func leanBounds(b [][2]byte) string {
	parts := make([]string, len(b))
	for i, x := range b {
		parts[i] = fmt.Sprintf("(%d,%d)", x[0], x[1])
	}
	return "[" + strings.Join(parts, ",") + "]"
}
func leanInts(v []int) string {
	parts := make([]string, len(v))
	for i, x := range v {
		if x < 0 {
			x = 0
		}
		parts[i] = fmt.Sprintf("%d", x)
	}
	return "[" + strings.Join(parts, ",") + "]"
}
func leanTable(t [][]encodings.VerifEntry) string {
	var b strings.Builder
	b.WriteString("[")
	for i, es := range t {
		if i > 0 {
			b.WriteString(",")
		}
		b.WriteString("\n    [")
		for j, e := range es {
			if j > 0 {
				b.WriteString(",\n     ")
			}
			fmt.Fprintf(&b, "⟨%s,%s,%s,%s⟩", leanBounds(e.InR), leanBounds(e.OutR), leanInts(e.InM), leanInts(e.OutM))
		}
		b.WriteString("]")
	}
	b.WriteString("]")
	return b.String()
}

// recoverCases lists, for every `recover()` in the function, the types its type switch handles
// ("*" when the recovered value is handled whatever it is).
func recoverCases(src *hx.Src, fd *ast.FuncDecl) []string {
	var out []string
	ast.Inspect(fd.Body, func(n ast.Node) bool {
		fl, ok := n.(*ast.FuncLit)
		if !ok {
			return true
		}
		has := false
		ast.Inspect(fl.Body, func(m ast.Node) bool {
			if ce, ok := m.(*ast.CallExpr); ok && selText(ce.Fun) == "recover" {
				has = true
			}
			return true
		})
		if !has {
			return true
		}
		typed := false
		ast.Inspect(fl.Body, func(m ast.Node) bool {
			ts, ok := m.(*ast.TypeSwitchStmt)
			if !ok {
				return true
			}
			typed = true
			for _, c := range ts.Body.List {
				cc := c.(*ast.CaseClause)
				if cc.List == nil {
					rethrows := false
					ast.Inspect(cc, func(x ast.Node) bool {
						if ce, ok := x.(*ast.CallExpr); ok && selText(ce.Fun) == "panic" {
							rethrows = true
						}
						return true
					})
					if !rethrows {
						out = append(out, "*")
					}
					continue
				}
				for _, t := range cc.List {
					out = append(out, src.Text(t))
				}
			}
			return false
		})
		if !typed {
			out = append(out, "*")
		}
		return false
	})
	sort.Strings(out)
	return out
}

func extract(a hx.ExtractArgs) error {
	var b strings.Builder
	b.WriteString("/- GENERATED on every run by the harness extractor (c10 extract) from /repo's working tree. Do not edit.\n")
	b.WriteString("   Sources: sql/encodings/rangemap.go, engine.go, sql/planbuilder/parse.go, sql/analyzer/indexed_joins.go, sql/mysql_db/auth.go,\n")
	b.WriteString("   internal/strings/unquote.go, sql/expression/function/locate.go, sql/planbuilder/proc.go, create_ddl.go (go/ast);\n")
	b.WriteString("   case mappings and parser options computed by the compiled code; RangeMap tables of latin1/utf16/utf32 dumped from the compiled code -/\n")
	b.WriteString("import Gms.Model.RangeMap\nnamespace Gms.Generated.C10\nopen Gms.RangeMap\n\n")

	// 1. length guards of the conversion loops
	src, err := hx.ParseSrc(a.Repo, "sql/encodings/rangemap.go")
	if err != nil {
		return err
	}
	for _, n := range []string{"Decode", "Encode"} {
		fd, err := src.Func("RangeMap", n)
		if err != nil {
			return err
		}
		g, ok := hasLenGuard(fd)
		if !ok {
			return fmt.Errorf("RangeMap.%s: inner search loop not found", n)
		}
		fmt.Fprintf(&b, "def %sHasLengthGuard : Bool := %v\n", strings.ToLower(n), g)
	}
	// EncodeReplaceUnknown bounds its search loop by len(str) in the loop condition
	fd, err := src.Func("RangeMap", "EncodeReplaceUnknown")
	if err != nil {
		return err
	}
	replBound := false
	ast.Inspect(fd.Body, func(n ast.Node) bool {
		if fs, ok := n.(*ast.ForStmt); ok && fs.Cond != nil && fs.Post != nil && strings.Contains(src.Text(fs.Cond), "<= len(str)") {
			replBound = true
		}
		return true
	})
	fmt.Fprintf(&b, "def replaceLoopBoundedByLen : Bool := %v\n\n", replBound)

	// 2. which panics the query path turns into errors
	for _, x := range []struct{ file, recv, fn, name string }{
		{"engine.go", "Engine", "QueryWithBindings", "recoverQueryWithBindings"},
		{"engine.go", "Engine", "Query", "recoverQuery"},
		{"sql/planbuilder/parse.go", "Builder", "Parse", "recoverParse"},
		{"sql/planbuilder/parse.go", "Builder", "bindOnly", "recoverBindOnly"},
		{"sql/analyzer/indexed_joins.go", "", "replanJoin", "recoverReplanJoin"},
	} {
		s, err := hx.ParseSrc(a.Repo, x.file)
		if err != nil {
			return err
		}
		f, err := s.Func(x.recv, x.fn)
		if err != nil {
			return err
		}
		rc := recoverCases(s, f)
		q := make([]string, len(rc))
		for i, c := range rc {
			q[i] = hx.LeanString(c)
		}
		fmt.Fprintf(&b, "def %s : List String := [%s]\n", x.name, strings.Join(q, ", "))
	}
	b.WriteString("\n")

	// 3. mysql_native_password: the early returns before the byte loop and the loop itself
	au, err := hx.ParseSrc(a.Repo, "sql/mysql_db/auth.go")
	if err != nil {
		return err
	}
	vf, err := au.Func("", "validateMysqlNativePassword")
	if err != nil {
		return err
	}
	var guards []string
	loop := ""
	for _, st := range vf.Body.List {
		if rs, ok := st.(*ast.RangeStmt); ok {
			loop = "range " + au.Text(rs.X) + ": " + strings.Join(strings.Fields(au.Text(rs.Body)), " ")
			break
		}
		if is, ok := st.(*ast.IfStmt); ok {
			for _, s := range is.Body.List {
				if r, ok := s.(*ast.ReturnStmt); ok && len(r.Results) == 1 && au.Text(r.Results[0]) == "false" {
					guards = append(guards, au.Text(is.Cond))
				}
			}
		}
	}
	if loop == "" {
		return fmt.Errorf("validateMysqlNativePassword: byte loop not found")
	}
	q := make([]string, len(guards))
	for i, g := range guards {
		q[i] = hx.LeanString(g)
	}
	fmt.Fprintf(&b, "def nativePasswordEarlyReturns : List String := [%s]\n", strings.Join(q, ", "))
	fmt.Fprintf(&b, "def nativePasswordLoop : String := %s\n\n", hx.LeanString(loop))

	// 4. Unquote: the guard in front of s[i+1 : i+5]
	uq, err := hx.ParseSrc(a.Repo, "internal/strings/unquote.go")
	if err != nil {
		return err
	}
	uf, err := uq.Func("", "Unquote")
	if err != nil {
		return err
	}
	uguard := ""
	ast.Inspect(uf.Body, func(n ast.Node) bool {
		cc, ok := n.(*ast.CaseClause)
		if !ok || len(cc.List) != 1 || uq.Text(cc.List[0]) != "'u'" {
			return true
		}
		for _, st := range cc.Body {
			if is, ok := st.(*ast.IfStmt); ok && uguard == "" {
				uguard = uq.Text(is.Cond)
			}
		}
		return false
	})
	if uguard == "" {
		return fmt.Errorf("Unquote: case 'u' guard not found")
	}
	fmt.Fprintf(&b, "def unquoteUnicodeGuard : String := %s\n\n", hx.LeanString(uguard))

	// 4b. Locate.Eval, case mappings, BuildProcedureHelper, parser options of the modes (extract2.go)
	if err := extractMore(a, &b); err != nil {
		return err
	}

	// 5. tables
	have := map[string]bool{}
	it := sql.NewCharacterSetsIterator()
	for cs, ok := it.Next(); ok; cs, ok = it.Next() {
		if cs.Encoder == nil {
			continue
		}
		for _, want := range coreCharsets {
			if cs.Name == want {
				d, isRM := encodings.VerifDumpRangeMap(cs.Encoder)
				if !isRM {
					return fmt.Errorf("%s is no longer a RangeMap", want)
				}
				fmt.Fprintf(&b, "def %s : RangeMap :=\n  { inE := %s,\n    outE := %s }\n\n", want, leanTable(d.In), leanTable(d.Out))
				have[want] = true
			}
		}
	}
	for _, want := range coreCharsets {
		if !have[want] {
			return fmt.Errorf("character set %s not found", want)
		}
	}
	b.WriteString("def tables : List (String × RangeMap) := [(\"latin1\", latin1), (\"utf16\", utf16), (\"utf32\", utf32)]\n")
	b.WriteString("\nend Gms.Generated.C10\n")
	return os.WriteFile(a.Out, []byte(b.String()), 0o644)
}
