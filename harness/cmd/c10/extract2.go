package main

import (
	"context"
	"fmt"
	"go/ast"
	"strings"
	"time"
	"unicode"

	"github.com/dolthub/go-mysql-server/sql"
	"github.com/dolthub/go-mysql-server/verifharness/hx"
)

// extractMore: the regenerated facts of the two cores added with the strfn / sess streams.
//
//  1. Locate.Eval (sql/expression/function/locate.go): the conditions of the edge-case switch, every
//     slice expression of the function and the expression it returns after strings.Index;
//  2. the simple case mappings of the harness alphabet as the compiled code computes them
//     (unicode.ToLower / ToUpper — what strings.ToLower / ToUpper apply rune by rune);
//  3. BuildProcedureHelper (sql/planbuilder/proc.go): where the parser options of the re-parse come from
//     (unconditional statements in front of ParseWithOptions vs. statements nested in a branch), what is
//     done with the parse error, whether the type assertion on the statement is checked; and what CREATE
//     PROCEDURE records as the routine's mode (sql/planbuilder/create_ddl.go);
//  4. the parser options of the sql_mode settings used by the rp cases, computed twice by the compiled
//     code: from the session (planbuilder.New) and from the recorded string (BuildProcedureHelper).
func extractMore(a hx.ExtractArgs, b *strings.Builder) error {
	// ---- 1. Locate.Eval
	src, err := hx.ParseSrc(a.Repo, "sql/expression/function/locate.go")
	if err != nil {
		return err
	}
	fd, err := src.Func("Locate", "Eval")
	if err != nil {
		return err
	}
	var guards, slices []string
	result := ""
	ast.Inspect(fd.Body, func(n ast.Node) bool {
		switch t := n.(type) {
		case *ast.SwitchStmt:
			if t.Tag == nil && t.Init == nil {
				for _, c := range t.Body.List {
					cc := c.(*ast.CaseClause)
					for _, e := range cc.List {
						guards = append(guards, strings.Join(strings.Fields(src.Text(e)), " "))
					}
				}
			}
		case *ast.SliceExpr:
			slices = append(slices, strings.Join(strings.Fields(src.Text(t)), " "))
		}
		return true
	})
	if last, ok := fd.Body.List[len(fd.Body.List)-1].(*ast.ReturnStmt); ok && len(last.Results) == 2 {
		result = strings.Join(strings.Fields(src.Text(last.Results[0])), " ")
	}
	if len(guards) == 0 || result == "" {
		return fmt.Errorf("Locate.Eval: edge-case switch / final return not found")
	}
	fmt.Fprintf(b, "def locateGuards : List String := %s\n", leanStrings(guards))
	fmt.Fprintf(b, "def locateSlices : List String := %s\n", leanStrings(slices))
	fmt.Fprintf(b, "def locateResult : String := %s\n\n", hx.LeanString(result))

	// ---- 2. case mappings
	b.WriteString("/-- (rune, unicode.ToLower, unicode.ToUpper) of the harness alphabet, from the compiled code -/\n")
	b.WriteString("def caseTable : List (Nat × Nat × Nat) := [")
	for i, r := range caseTableRunes() {
		if i > 0 {
			b.WriteString(", ")
		}
		fmt.Fprintf(b, "(%d, %d, %d)", r, unicode.ToLower(r), unicode.ToUpper(r))
	}
	b.WriteString("]\n\n")

	// ---- 3. BuildProcedureHelper
	ps, err := hx.ParseSrc(a.Repo, "sql/planbuilder/proc.go")
	if err != nil {
		return err
	}
	bh, err := ps.Func("", "BuildProcedureHelper")
	if err != nil {
		return err
	}
	var optsTop, optsNested, parseLhs []string
	assertChecked, sawParse, sawAssert := false, false, false
	callsSetOpts := func(n ast.Node) (string, bool) {
		var arg string
		found := false
		ast.Inspect(n, func(m ast.Node) bool {
			if ce, ok := m.(*ast.CallExpr); ok {
				if se, ok := ce.Fun.(*ast.SelectorExpr); ok && se.Sel.Name == "SetParserOptions" && len(ce.Args) == 1 {
					arg, found = strings.Join(strings.Fields(ps.Text(ce.Args[0])), " "), true
				}
			}
			if as, ok := m.(*ast.AssignStmt); ok && len(as.Lhs) == 1 && strings.HasSuffix(ps.Text(as.Lhs[0]), ".parserOpts") {
				arg, found = strings.Join(strings.Fields(ps.Text(as.Rhs[0])), " "), true
			}
			return true
		})
		return arg, found
	}
	for _, st := range bh.Body.List {
		if as, ok := st.(*ast.AssignStmt); ok && len(as.Rhs) == 1 {
			if ce, ok := as.Rhs[0].(*ast.CallExpr); ok && strings.HasSuffix(selText(ce.Fun), "ParseWithOptions") {
				sawParse = true
				for _, l := range as.Lhs {
					parseLhs = append(parseLhs, ps.Text(l))
				}
				continue
			}
			if ta, ok := as.Rhs[0].(*ast.TypeAssertExpr); ok && sawParse && !sawAssert && selText(ta.X) == "stmt" {
				sawAssert = true
				assertChecked = len(as.Lhs) == 2
				continue
			}
		}
		if sawParse {
			continue
		}
		if _, isDefer := st.(*ast.DeferStmt); isDefer {
			continue
		}
		if arg, ok := callsSetOpts(st); ok {
			if _, plain := st.(*ast.ExprStmt); plain {
				optsTop = append(optsTop, arg)
			} else if _, plain := st.(*ast.AssignStmt); plain {
				optsTop = append(optsTop, arg)
			} else {
				optsNested = append(optsNested, arg)
			}
		}
	}
	if !sawParse || !sawAssert {
		return fmt.Errorf("BuildProcedureHelper: ParseWithOptions / the type assertion on its statement not found at the top level of the function")
	}
	fmt.Fprintf(b, "def procReparseOptions : List String := %s\n", leanStrings(optsTop))
	fmt.Fprintf(b, "def procReparseOptionsInBranches : List String := %s\n", leanStrings(optsNested))
	fmt.Fprintf(b, "def procReparseLhs : List String := %s\n", leanStrings(parseLhs))
	fmt.Fprintf(b, "def procReparseAssertChecked : Bool := %v\n", assertChecked)
	cs, err := hx.ParseSrc(a.Repo, "sql/planbuilder/create_ddl.go")
	if err != nil {
		return err
	}
	recorded := ""
	for _, d := range cs.File.Decls {
		ast.Inspect(d, func(n ast.Node) bool {
			cl, ok := n.(*ast.CompositeLit)
			if !ok || !strings.HasSuffix(cs.Text(cl.Type), "StoredProcedureDetails") {
				return true
			}
			for _, el := range cl.Elts {
				if kv, ok := el.(*ast.KeyValueExpr); ok && cs.Text(kv.Key) == "SqlMode" {
					recorded = strings.Join(strings.Fields(cs.Text(kv.Value)), " ")
				}
			}
			return true
		})
	}
	if recorded == "" {
		return fmt.Errorf("create_ddl.go: StoredProcedureDetails{… SqlMode: …} not found")
	}
	fmt.Fprintf(b, "def procRecordedMode : String := %s\n\n", hx.LeanString(recorded))

	// ---- 4. parser options of the rp modes, from the session and from the recorded string
	w := newEmptyWorld()
	b.WriteString("/-- (mode names, recorded string is empty, AnsiQuotes/PipesAsConcat from the session, the same from the recorded string) -/\n")
	b.WriteString("def modeTable : List (List String × Bool × (Bool × Bool) × (Bool × Bool)) := [")
	for i, m := range rpModes {
		if o := w.run("SET sql_mode = '"+strings.Join(m, ",")+"'", time.Minute); o.class != "ok" {
			return fmt.Errorf("SET sql_mode %v: %s %s", m, o.class, o.msg)
		}
		ctx := sql.NewContext(context.Background(), sql.WithSession(w.ctx.Session))
		sm := sql.LoadSqlMode(ctx)
		so := sm.ParserOptions()
		rec := sm.String()
		ro := sql.NewSqlModeFromString(rec).ParserOptions()
		if i > 0 {
			b.WriteString(",\n  ")
		}
		fmt.Fprintf(b, "(%s, %v, (%v, %v), (%v, %v))", leanStrings(m), rec == "", so.AnsiQuotes, so.PipesAsConcat, ro.AnsiQuotes, ro.PipesAsConcat)
	}
	b.WriteString("]\n\n")
	return nil
}

func leanStrings(xs []string) string {
	q := make([]string, len(xs))
	for i, x := range xs {
		q[i] = hx.LeanString(x)
	}
	return "[" + strings.Join(q, ", ") + "]"
}
