package main

import (
	"fmt"
	"sort"
	"strconv"
	"strings"
	"time"
	"unicode"

	"github.com/dolthub/go-mysql-server/sql"
	"github.com/dolthub/go-mysql-server/sql/expression"
	"github.com/dolthub/go-mysql-server/sql/expression/function"
	"github.com/dolthub/go-mysql-server/sql/types"
	"github.com/dolthub/go-mysql-server/verifharness/hx"
)

// Two more modelled cores (Gms/Model/SliceMap.lean, Gms/Model/StoredReparse.lean):
//
//	(loc x<needle> x<haystack> [<pos>])   function.Locate.Eval on literals: the value, `null`, `err`, or `crash`
//	(rp <step> …)                         a history of SET sql_mode / CREATE PROCEDURE / CALL / listing on one
//	                                      session: one outcome class per step
//
// The Lean driver predicts both exactly (Impl models with the Go panic as an explicit outcome); the
// property itself (no panic) is evaluated here on the real code and reported through the oracle stream.

// locRunes: the alphabet of the loc cases — ASCII plus characters whose simple case mapping changes the
// UTF-8 length in either direction, a plain two-byte letter and an astral character. The driver lower-cases
// with the regenerated table `caseTable`, which lists these runes.
var locRunes = []rune{'x', 'A', 'b', 0x23A, 0x23E, 0x130, 0x1E9E, 0x212A, 0xE9, 0x1F600}

// caseTableRunes: every rune the loc cases can contain (and U+FFFD, which a slice that starts inside a
// character produces).
func caseTableRunes() []rune {
	seen := map[rune]bool{}
	var out []rune
	add := func(r rune) {
		if !seen[r] {
			seen[r] = true
			out = append(out, r)
		}
	}
	for _, r := range locRunes {
		add(r)
		add(unicode.ToLower(r))
		add(unicode.ToUpper(r))
	}
	for _, r := range edgeRunes {
		add(r)
	}
	add(0xFFFD)
	sort.Slice(out, func(i, j int) bool { return out[i] < out[j] })
	return out
}

func locCase(out *sink, ctx *sql.Context, sub, str string, pos *int64) {
	args := []sql.Expression{expression.NewLiteral(sub, types.LongText), expression.NewLiteral(str, types.LongText)}
	items := []string{"loc", hx.HexS(sub), hx.HexS(str)}
	if pos != nil {
		args = append(args, expression.NewLiteral(*pos, types.Int64))
		items = append(items, strconv.FormatInt(*pos, 10))
	}
	var obs string
	p := hx.Safe(func() {
		f, err := function.NewLocate(ctx, args...)
		if err != nil {
			obs = "err"
			return
		}
		v, err := f.Eval(ctx, nil)
		switch {
		case err != nil:
			obs = "err"
		case v == nil:
			obs = "null"
		default:
			obs = fmt.Sprint(v)
		}
	})
	if p != "" {
		obs = "crash"
	}
	id := out.Case(hx.List(items...), obs, obs != "0")
	out.Stat("core:loc:" + map[bool]string{true: "crash", false: "returns"}[obs == "crash"])
	if obs == "crash" {
		ps := "-"
		if pos != nil {
			ps = strconv.FormatInt(*pos, 10)
		}
		out.OracleFail(id, "-", fmt.Sprintf("Locate.Eval panics: LOCATE(%q, %q, %s): %s", sub, str, ps, trunc(p, 160)))
	}
}

func locCases(out *sink, r *hx.Rand, thorough bool) {
	ctx := sql.NewEmptyContext()
	positions := func(n int) []*int64 {
		ps := []*int64{nil}
		for _, p := range []int64{-1, 0, 1, 2, 3, 4, int64(n), int64(n) + 1, int64(n) + 2} {
			v := p
			ps = append(ps, &v)
		}
		return ps
	}
	needlesOf := func(hay []rune) []string {
		seen := map[string]bool{}
		var ns []string
		add := func(s string) {
			if !seen[s] {
				seen[s] = true
				ns = append(ns, s)
			}
		}
		add("")
		add("x")
		for i, c := range hay {
			add(string(c))
			add(string(unicode.ToLower(c)))
			add(string(unicode.ToUpper(c)))
			if i+1 < len(hay) {
				add(string(hay[i : i+2]))
			}
		}
		return ns
	}
	one := func(hay []rune) {
		h := string(hay)
		for _, n := range needlesOf(hay) {
			for _, p := range positions(len(h)) {
				locCase(out, ctx, n, h, p)
			}
		}
	}
	// corpus: the haystacks of the README-style examples and of the listed / repaired findings
	for _, h := range []string{"", "a", "abc", "café au lait", "日本語 text", "ȺȺx", "ȺȾȺȾȺȾ text", "ȺȺȺȺz", "İİx", "KKx", "ẞẞx", "😀😀x", "xȺ"} {
		one([]rune(h))
	}
	// every haystack of one or two characters over the alphabet (thorough: three)
	maxLen := 2
	if thorough {
		maxLen = 3
	}
	var enum func(prefix []rune)
	enum = func(prefix []rune) {
		if len(prefix) > 0 {
			one(prefix)
		}
		if len(prefix) == maxLen {
			return
		}
		for _, c := range locRunes {
			enum(append(append([]rune(nil), prefix...), c))
		}
	}
	enum(nil)
	// random longer haystacks
	n := 150
	if thorough {
		n = 2500
	}
	for i := 0; i < n; i++ {
		hay := make([]rune, r.Range(3, 7))
		for k := range hay {
			hay[k] = locRunes[r.Intn(len(locRunes))]
		}
		one(hay)
	}
}

// ---------------------------------------------------------------------------------------------
// (rp …): stored routine text re-parsed under the recorded mode

// rpModes: the sql_mode settings of the rp histories, as lists of mode names (the model's `Mode`).
var rpModes = [][]string{
	{},
	{"ANSI_QUOTES"},
	{"ANSI"},
	{"PIPES_AS_CONCAT"},
	{"NO_ENGINE_SUBSTITUTION", "ONLY_FULL_GROUP_BY", "STRICT_TRANS_TABLES"},
	{"ANSI_QUOTES", "NO_BACKSLASH_ESCAPES"},
}

// rpBodies: routine bodies; the model's `parses` knows for each of them under which parser options the
// CREATE PROCEDURE text is grammatical (body 1 only without ANSI_QUOTES: a double-quoted token where only
// a string is grammatical).
var rpBodies = []string{
	`SELECT 1`,
	`SHOW TABLES LIKE "t%"`,
	`SELECT "b" FROM t0 LIMIT 1`,
	`SELECT 'a' || 'b'`,
	`CREATE TABLE IF NOT EXISTS rpe (c ENUM("on", "off"))`,
}

type rpStep struct {
	op   string // m | c | k | l
	mode int
	name int
	body int
}

func (s rpStep) sexp() string {
	switch s.op {
	case "m":
		names := make([]string, len(rpModes[s.mode]))
		for i, n := range rpModes[s.mode] {
			names[i] = n // plain atoms: [A-Z_]+
		}
		return hx.List(append([]string{"m"}, names...)...)
	case "c":
		return hx.List("c", strconv.Itoa(s.name), strconv.Itoa(s.body))
	case "k":
		return hx.List("k", strconv.Itoa(s.name))
	}
	return hx.List("l")
}

func (s rpStep) sql() string {
	switch s.op {
	case "m":
		return "SET sql_mode = '" + strings.Join(rpModes[s.mode], ",") + "'"
	case "c":
		return fmt.Sprintf("CREATE PROCEDURE rp%d() %s", s.name, rpBodies[s.body])
	case "k":
		return fmt.Sprintf("CALL rp%d()", s.name)
	}
	// the analyzer loads every stored procedure of the database for this statement
	return "SELECT routine_name FROM information_schema.routines"
}

func rpCase(out *sink, hist []rpStep) {
	w := newWorld(false)
	var obs, sexps, sqls []string
	crashed := ""
	for _, st := range hist {
		q := st.sql()
		o := w.run(q, 30*time.Second)
		c := "ok"
		switch o.class {
		case "err":
			c = "err"
		case "crash", "timeout":
			c = "crash"
			if crashed == "" {
				crashed = fmt.Sprintf("%s → %s [at %s]", q, trunc(o.msg, 120), o.site)
			}
		}
		if st.op == "k" || st.op == "l" {
			// a CALL / listing either comes back (result or error) or panics
			if c == "err" {
				c = "ok"
			}
		}
		obs = append(obs, c)
		sexps = append(sexps, st.sexp())
		sqls = append(sqls, q)
	}
	id := out.Case(hx.List(append([]string{"rp"}, sexps...)...), strings.Join(obs, ","), strings.Contains(strings.Join(obs, ","), "err"))
	out.Stat("core:rp")
	if crashed != "" {
		out.OracleFail(id, "-", fmt.Sprintf("a stored procedure history panics: %s; history: %s", crashed, strings.Join(sqls, "; ")))
	}
}

func rpCases(out *sink, r *hx.Rand, thorough bool) {
	// every (mode at CREATE, body, mode at use): SET A; CREATE; SET B; CALL; list
	for a := range rpModes {
		for b := range rpModes {
			for body := range rpBodies {
				rpCase(out, []rpStep{{op: "m", mode: a}, {op: "c", name: 1, body: body}, {op: "m", mode: b}, {op: "k", name: 1}, {op: "l"}})
			}
		}
	}
	// without any SET in front of the CREATE (the session default), unknown names, re-creation
	for b := range rpModes {
		rpCase(out, []rpStep{{op: "c", name: 1, body: 1}, {op: "m", mode: b}, {op: "k", name: 1}, {op: "k", name: 2}, {op: "c", name: 1, body: 0}, {op: "l"}})
	}
	// random longer histories over two names
	n := 60
	if thorough {
		n = 3000
	}
	for i := 0; i < n; i++ {
		var h []rpStep
		for k := r.Range(3, 9); k > 0; k-- {
			switch r.Intn(5) {
			case 0, 1:
				h = append(h, rpStep{op: "m", mode: r.Intn(len(rpModes))})
			case 2:
				h = append(h, rpStep{op: "c", name: r.Range(1, 2), body: r.Intn(len(rpBodies))})
			case 3:
				h = append(h, rpStep{op: "k", name: r.Range(1, 2)})
			default:
				h = append(h, rpStep{op: "l"})
			}
		}
		rpCase(out, h)
	}
}
