package main

import (
	"bufio"
	"fmt"
	"os"
	"strings"
	"time"
)

// script: `.build/c10 script < file` — replays statements (one per line) on one session of a fresh
// engine with the base schema and prints what came back for each of them. Directives: `#world`
// (fresh engine), `#session` (new session on the same engine), other `#` lines are comments.
// Used to replay the witnesses of the listed findings by hand (testdata/*.sql).
func script() error {
	w := newWorld(false)
	sc := bufio.NewScanner(os.Stdin)
	sc.Buffer(make([]byte, 1<<20), 1<<24)
	for sc.Scan() {
		q := strings.TrimSpace(sc.Text())
		switch {
		case q == "":
			continue
		case q == "#world":
			w = newWorld(false)
			fmt.Println("-- fresh engine")
			continue
		case q == "#session" || q == "#session;":
			w.newSession()
			fmt.Println("-- new session")
			continue
		case strings.HasPrefix(q, "#"):
			continue
		}
		o := w.run(q, 20*time.Second)
		switch o.class {
		case "ok":
			fmt.Printf("ok rows=%d\t%s\n", o.rows, q)
		case "err":
			fmt.Printf("err %s\t%s\n", trunc(o.msg, 140), q)
		case "crash":
			fmt.Printf("CRASH [%s] %s\t%s\n", o.site, trunc(o.msg, 140), q)
		default:
			fmt.Printf("%s [%s]\t%s\n", strings.ToUpper(o.class), o.site, q)
			return nil
		}
	}
	return nil
}
