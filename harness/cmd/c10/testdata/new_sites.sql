# Witnesses of the crash findings listed with the strfn / sess streams (known_findings/C10.jsonl).
# Replay: .build/c10 script < harness/cmd/c10/testdata/new_sites.sql   (every CRASH line is a listed region)
SELECT CONVERT('a' USING ucs2)
SELECT CONVERT('a' USING utf16le)
SELECT CONVERT(b USING ucs2) FROM t0
SELECT DATE_FORMAT(0, '%x')
SELECT DATE_FORMAT('0000-00-00', '%V')
SELECT YEARWEEK(0), WEEK(0), DATE_FORMAT(0, '%Y %j')
#world
SET sql_mode = 'ANSI_QUOTES'
CREATE PROCEDURE p3(q VARCHAR(20)) SELECT q = ""
CALL p3('a')
SET sql_mode = ''
CALL p3('a')
SELECT q = "" FROM (SELECT 'a' AS q) x
#world
SELECT CAST('2020-01-01' AS DATETIME(7))
SELECT CONVERT('2020-01-01', DATETIME(7))
SELECT CAST('2020-01-01' AS DATETIME(6))
