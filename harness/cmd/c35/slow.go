// C35 — stream "slow": unscripted concurrent clients over real TCP whose server-side handlers are parked in the
// socket write of their (single, final) batch of rows.
//
// Every client reads only its own table; all values of that table consist of one letter, so any other byte in a
// received row is a row that is not the engine's row for that statement. The results are several MB (more than the
// socket buffers), and the clients start reading late: each connection's handler goroutine blocks in the middle of
// writing the final batch while the other connections spool their rows — the moment at which the rows that are still
// to be written must not share storage with anything another connection writes.
package main

import (
	"context"
	dsql "database/sql"
	"fmt"
	"strings"
	"sync"
	"time"

	"github.com/dolthub/go-mysql-server/verifharness/hx"
	"github.com/dolthub/go-mysql-server/verifharness/hx/eng"
)

const nBig = 6
const bigRows = 48
const bigPad = 65536

func setupBig(e *eng.Eng) {
	ctx := e.Ctx()
	for k := 0; k < nBig; k++ {
		e.MustExec(ctx, fmt.Sprintf("create table big%d (id int primary key, pad longtext)", k))
		for lo := 0; lo < bigRows; lo += 12 {
			var vals []string
			for i := lo; i < lo+12; i++ {
				vals = append(vals, fmt.Sprintf("(%d, repeat('%c', %d))", i, rune('a'+k), bigPad))
			}
			e.MustExec(ctx, fmt.Sprintf("insert into big%d values %s", k, strings.Join(vals, ",")))
		}
	}
}

// slowRead: client k reads its table, starting late; returns a description of the first wrong row ("" = all right).
func slowRead(db *dsql.DB, k, n int, delay time.Duration) string {
	ctx, cancel := context.WithTimeout(context.Background(), 60*time.Second)
	defer cancel()
	rs, err := db.QueryContext(ctx, fmt.Sprintf("select id, pad from big%d where id < %d order by id", k, n))
	if err != nil {
		return "error: " + wireErr(err)
	}
	defer rs.Close()
	time.Sleep(delay)
	want := byte('a' + k)
	i := 0
	for rs.Next() {
		var id int
		var pad dsql.RawBytes
		if err := rs.Scan(&id, &pad); err != nil {
			return "scan: " + wireErr(err)
		}
		if id != i {
			return fmt.Sprintf("row %d has id %d", i, id)
		}
		if len(pad) != bigPad {
			return fmt.Sprintf("row %d: pad has %d bytes, want %d", i, len(pad), bigPad)
		}
		for j, c := range pad {
			if c != want {
				return fmt.Sprintf("row %d of big%d: byte %d of pad is %q, every byte of this table is %q", i, k, j, c, want)
			}
		}
		i++
	}
	if err := rs.Err(); err != nil {
		return "rows: " + wireErr(err)
	}
	if i != n {
		return fmt.Sprintf("received %d rows, want %d", i, n)
	}
	return ""
}

func runSlow(en *env, out *hx.Out, r *hx.Rand, rounds int) {
	for round := 0; round < rounds; round++ {
		k := nBig
		ns := make([]int, k)
		delays := make([]int, k)
		for j := range ns {
			ns[j] = bigRows - r.Intn(8)
			delays[j] = 5 + r.Intn(40)
		}
		bad := make([]string, k)
		var wg sync.WaitGroup
		for j := 0; j < k; j++ {
			wg.Add(1)
			go func(j int) {
				defer wg.Done()
				// two statements per client, so that spooling and parked writes of different connections overlap
				for rep := 0; rep < 2 && bad[j] == ""; rep++ {
					bad[j] = slowRead(en.db, j, ns[j], time.Duration(delays[j])*time.Millisecond)
				}
			}(j)
		}
		wg.Wait()
		obs := "eq"
		first := ""
		for j, b := range bad {
			if b != "" {
				obs = "diff"
				if first == "" {
					first = fmt.Sprintf("client %d (select id, pad from big%d where id < %d order by id, starts reading after %d ms): %s", j, j, ns[j], delays[j], b)
				}
			}
		}
		id := out.Case(fmt.Sprintf("(slow %d %d (%s))", k, round, strings.Trim(fmt.Sprint(ns), "[]")), obs, true)
		out.Stat("slow")
		if first != "" {
			out.OracleFail(id, "-", "a client whose handler was parked in the socket write received bytes that are not its statement's rows while other clients were running: "+first)
		}
	}
}
