// C35 — regenerated facts about the life time of the wire-format scratch buffer and about the spooling dispatch of
// Handler.doQuery (server/handler.go), read with go/ast.
//
// The rows of a *sqltypes.Result alias the scratch buffer (sql.ByteBufPool). What the Lean memory model
// (Gms/Model/BufPool.lean) needs to know about the source is WHERE the buffer is borrowed and returned relative to the
// callback invocations: it must be borrowed by the function that makes the final callback, before any spooling helper
// runs, and returned by a function-level defer of that same function (i.e. after the final callback has consumed the
// rows).
package main

import (
	"fmt"
	"go/ast"
	"sort"
	"strings"

	"github.com/dolthub/go-mysql-server/verifharness/hx"
)

var spoolers = map[string]bool{"resultForOkIter": true, "resultForEmptyIter": true, "resultForMax1RowIter": true,
	"resultForValueRowIter": true, "resultForDefaultIter": true}

func calleeName(src *hx.Src, c *ast.CallExpr) string {
	switch f := c.Fun.(type) {
	case *ast.Ident:
		return f.Name
	case *ast.SelectorExpr:
		if _, ok := f.X.(*ast.Ident); ok {
			return f.Sel.Name // h.resultForDefaultIter
		}
	}
	return ""
}

// walkFunc visits every node of fd.Body and tells the visitor whether the node is inside a function literal and whether
// it is inside a defer statement that is a top-level statement of the function body.
func walkFunc(fd *ast.FuncDecl, visit func(n ast.Node, inLit bool, inTopDefer bool)) {
	var rec func(n ast.Node, inLit, inTopDefer bool)
	rec = func(n ast.Node, inLit, inTopDefer bool) {
		ast.Inspect(n, func(m ast.Node) bool {
			if m == nil || m == n {
				return true
			}
			switch x := m.(type) {
			case *ast.FuncLit:
				visit(x, inLit, inTopDefer)
				rec(x.Body, true, inTopDefer)
				return false
			}
			visit(m, inLit, inTopDefer)
			return true
		})
	}
	for _, st := range fd.Body.List {
		if d, ok := st.(*ast.DeferStmt); ok {
			visit(d, false, true)
			if lit, ok := d.Call.Fun.(*ast.FuncLit); ok {
				rec(lit.Body, true, true)
			} else {
				visit(d.Call, false, true)
				rec(d.Call, false, true)
			}
			continue
		}
		visit(st, false, false)
		rec(st, false, false)
	}
}

func extractBufferFacts(src *hx.Src, lf *hx.LeanFile) error {
	var getFuncs, putFuncs, finalCb, spoolCallers, bufParam []string
	putDeferredTop := true
	getBeforeSpool := true
	var chain []string
	for _, d := range src.File.Decls {
		fd, ok := d.(*ast.FuncDecl)
		if !ok || fd.Body == nil {
			continue
		}
		name := fd.Name.Name
		// parameters of type *sql.ByteBuffer / a parameter called callback
		hasCallbackParam := false
		for _, p := range fd.Type.Params.List {
			if src.Text(p.Type) == "*sql.ByteBuffer" {
				bufParam = append(bufParam, name)
			}
			for _, n := range p.Names {
				if n.Name == "callback" {
					hasCallbackParam = true
				}
			}
		}
		getPos, firstSpoolPos := -1, -1
		callsSpooler := false
		directCallback := false
		walkFunc(fd, func(n ast.Node, inLit, inTopDefer bool) {
			c, ok := n.(*ast.CallExpr)
			if !ok {
				return
			}
			switch src.Text(c.Fun) {
			case "sql.ByteBufPool.Get":
				getFuncs = append(getFuncs, name)
				if getPos < 0 {
					getPos = int(c.Pos())
				}
			case "sql.ByteBufPool.Put":
				putFuncs = append(putFuncs, name)
				if !inTopDefer {
					putDeferredTop = false
				}
			}
			cn := calleeName(src, c)
			if spoolers[cn] {
				callsSpooler = true
				if firstSpoolPos < 0 || int(c.Pos()) < firstSpoolPos {
					firstSpoolPos = int(c.Pos())
				}
			}
			if id, ok := c.Fun.(*ast.Ident); ok && id.Name == "callback" && hasCallbackParam && !inLit {
				directCallback = true
			}
		})
		if callsSpooler {
			spoolCallers = append(spoolCallers, name)
			if getPos < 0 || getPos > firstSpoolPos {
				getBeforeSpool = false
			}
			// the dispatch chain: if <cond> { r = resultForOkIter } else if … else { … }
			ast.Inspect(fd.Body, func(n ast.Node) bool {
				is, ok := n.(*ast.IfStmt)
				if !ok || chain != nil {
					return true
				}
				if firstSpoolerIn(src, is.Body) != "resultForOkIter" {
					return true
				}
				var cur ast.Stmt = is
				for cur != nil {
					switch x := cur.(type) {
					case *ast.IfStmt:
						cond := src.Text(x.Cond)
						if x.Init != nil {
							cond = src.Text(x.Init) + "; " + cond
						}
						chain = append(chain, hx.OneLine(cond)+" => "+firstSpoolerIn(src, x.Body))
						cur = x.Else
					case *ast.BlockStmt:
						chain = append(chain, "else => "+firstSpoolerIn(src, x))
						cur = nil
					default:
						cur = nil
					}
				}
				return false
			})
		}
		if directCallback {
			finalCb = append(finalCb, name)
		}
	}
	if len(getFuncs) == 0 || len(putFuncs) == 0 {
		return fmt.Errorf("%s: sql.ByteBufPool.Get/Put call sites not found", src.Path)
	}
	if len(spoolCallers) == 0 || len(chain) == 0 {
		return fmt.Errorf("%s: spooling dispatch (if-chain over resultForOkIter … resultForDefaultIter) not found", src.Path)
	}
	sort.Strings(bufParam)
	lf.Comment("scratch buffer life time: where sql.ByteBufPool.Get / Put are called, which function invokes its callback parameter directly (the final callback), which function dispatches to the spooling helpers")
	lf.DefStringList("bufGetFuncs", getFuncs)
	lf.DefStringList("bufPutFuncs", putFuncs)
	lf.DefBool("bufPutDeferredTopLevel", putDeferredTop)
	lf.DefBool("bufGetBeforeSpool", getBeforeSpool)
	lf.DefStringList("finalCallbackFuncs", finalCb)
	lf.DefStringList("spoolCallers", spoolCallers)
	lf.DefStringList("bufParamFuncs", bufParam)
	lf.Comment("the spooling dispatch of doQuery: condition => helper, in order")
	lf.DefStringList("dispatchChain", chain)
	// the max-1-row helper: the error it raises on a second row
	m1, err := src.Func("", "resultForMax1RowIter")
	if err != nil {
		return err
	}
	msg := ""
	ast.Inspect(m1.Body, func(n ast.Node) bool {
		if c, ok := n.(*ast.CallExpr); ok && src.Text(c.Fun) == "fmt.Errorf" && len(c.Args) == 1 {
			msg = strings.Trim(src.Text(c.Args[0]), "\"")
		}
		return true
	})
	lf.DefString("max1RowError", msg)
	return nil
}

func firstSpoolerIn(src *hx.Src, b *ast.BlockStmt) string {
	res := ""
	ast.Inspect(b, func(n ast.Node) bool {
		if c, ok := n.(*ast.CallExpr); ok && res == "" {
			if cn := calleeName(src, c); spoolers[cn] {
				res = cn
			}
		}
		return true
	})
	return res
}
