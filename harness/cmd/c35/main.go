// C35 — Clients receive exactly the engine's results over the wire.
//
// Three streams of cases:
//   (pipe n sched)   handler level: the real Handler.ComQuery on a query with n result rows; the observation is the
//                    list of callback batch sizes; the Lean LTS model predicts it for an arbitrary schedule
//   (wire q)         wire level: the statement runs through a real server.Server + go-sql-driver (text and binary
//                    protocol) and in-process; observation = rows/affected/error as the client sees them, and the
//                    oracle demands equality with the in-process result
//   (conc k)         concurrent schedule: k clients issue different-sized queries at once; each must equal its
//                    sequential result
package main

import (
	"context"
	dsql "database/sql"
	"fmt"
	"go/ast"
	"go/token"
	"net"
	"sort"
	"strconv"
	"strings"
	"sync"
	"time"

	"github.com/dolthub/vitess/go/mysql"
	"github.com/dolthub/vitess/go/sqltypes"
	gomysql "github.com/go-sql-driver/mysql"

	"github.com/dolthub/go-mysql-server/memory"
	"github.com/dolthub/go-mysql-server/server"
	"github.com/dolthub/go-mysql-server/sql"
	"github.com/dolthub/go-mysql-server/verifharness/hx"
	"github.com/dolthub/go-mysql-server/verifharness/hx/eng"
)

func main() { hx.Main(extract, run) }

// ---------------------------------------------------------------------------------------------
// Facts.

func extract(a hx.ExtractArgs) error {
	src, err := hx.ParseSrc(a.Repo, "server/handler.go")
	if err != nil {
		return err
	}
	lf := hx.NewLeanFile("Gms.Generated.C35", src.Path)
	rb, err := src.PkgVarInit("rowsBatch")
	if err != nil {
		return err
	}
	lit, ok := rb.(*ast.BasicLit)
	if !ok {
		return fmt.Errorf("rowsBatch is not a literal")
	}
	v, _ := strconv.ParseUint(lit.Value, 10, 64)
	lf.DefNat("rowsBatch", v)
	fd, err := src.Func("Handler", "resultForDefaultIter")
	if err != nil {
		return err
	}
	caps := map[string]uint64{}
	flushCmp := ""
	goroutines := 0
	ast.Inspect(fd.Body, func(n ast.Node) bool {
		switch x := n.(type) {
		case *ast.ValueSpec:
			// var rowChan = make(chan sql.Row, 512)
			if len(x.Names) == 1 && len(x.Values) == 1 {
				if c, ok := x.Values[0].(*ast.CallExpr); ok {
					if id, ok := c.Fun.(*ast.Ident); ok && id.Name == "make" && len(c.Args) == 2 {
						if _, ok := c.Args[0].(*ast.ChanType); ok {
							if l, ok := c.Args[1].(*ast.BasicLit); ok {
								n, _ := strconv.ParseUint(l.Value, 10, 64)
								caps[x.Names[0].Name] = n
							}
						}
					}
				}
			}
		case *ast.IfStmt:
			if be, ok := x.Cond.(*ast.BinaryExpr); ok {
				if src.Text(be.X) == "res.RowsAffected" && src.Text(be.Y) == "rowsBatch" {
					flushCmp = be.Op.String()
				}
			}
		case *ast.CallExpr:
			if src.Text(x.Fun) == "errguard.Go" {
				goroutines++
			}
		}
		return true
	})
	if _, ok := caps["rowChan"]; !ok {
		return fmt.Errorf("rowChan capacity not found")
	}
	if _, ok := caps["resChan"]; !ok {
		return fmt.Errorf("resChan capacity not found")
	}
	lf.DefNat("rowChanCap", caps["rowChan"])
	lf.DefNat("resChanCap", caps["resChan"])
	lf.DefString("flushComparison", flushCmp)
	lf.DefNat("goroutines", uint64(goroutines))
	_ = token.ADD
	if err := extractBufferFacts(src, lf); err != nil {
		return err
	}
	return lf.Write(a.Out)
}

// ---------------------------------------------------------------------------------------------

type dummyConn struct{ net.Conn }

type addr struct{}

func (addr) Network() string { return "tcp" }
func (addr) String() string  { return "127.0.0.1:9999" }

func (dummyConn) RemoteAddr() net.Addr               { return addr{} }
func (dummyConn) LocalAddr() net.Addr                { return addr{} }
func (dummyConn) Close() error                       { return nil }
func (dummyConn) Read(b []byte) (int, error)         { select {} }
func (dummyConn) Write(b []byte) (int, error)        { return len(b), nil }
func (dummyConn) SetDeadline(t time.Time) error      { return nil }
func (dummyConn) SetReadDeadline(t time.Time) error  { return nil }
func (dummyConn) SetWriteDeadline(t time.Time) error { return nil }

const nRows = 1400

type env struct {
	e       *eng.Eng
	srv     *server.Server
	handler mysql.Handler
	port    int
	db      *dsql.DB
}

func setup() (*env, error) {
	e := eng.New("d")
	ctx := e.Ctx()
	e.MustExec(ctx, "create table seq (i int primary key, s varchar(20), d decimal(10,2), n int, b bigint unsigned)")
	for lo := 0; lo < nRows; lo += 200 {
		var vals []string
		for i := lo; i < lo+200 && i < nRows; i++ {
			nv := "NULL"
			if i%3 != 0 {
				nv = strconv.Itoa(i * 7 % 11)
			}
			vals = append(vals, fmt.Sprintf("(%d,'s%d',%d.%02d,%s,%d)", i, i, i, i%100, nv, uint64(18446744073709551615)-uint64(i)))
		}
		e.MustExec(ctx, "insert into seq values "+strings.Join(vals, ","))
	}
	e.MustExec(ctx, "create table w (a int primary key, t varchar(20))", "insert into w values (1,'a'),(2,'b')")
	setupOwn(e)
	setupBig(e)
	l, err := net.Listen("tcp", "127.0.0.1:0")
	if err != nil {
		return nil, err
	}
	port := l.Addr().(*net.TCPAddr).Port
	l.Close()
	en := &env{e: e, port: port}
	cfg := server.Config{Protocol: "tcp", Address: fmt.Sprintf("127.0.0.1:%d", port)}
	srv, err := server.NewServerWithHandler(cfg, e.E, sql.NewContext, memory.NewSessionBuilder(e.Pro), nil,
		func(h mysql.Handler) (mysql.Handler, error) { en.handler = h; return h, nil })
	if err != nil {
		return nil, err
	}
	en.srv = srv
	go srv.Start()
	dsn := fmt.Sprintf("root@tcp(127.0.0.1:%d)/d", port)
	_ = gomysql.Config{}
	var db *dsql.DB
	for i := 0; i < 100; i++ {
		db, err = dsql.Open("mysql", dsn)
		if err == nil {
			if err = db.Ping(); err == nil {
				break
			}
		}
		time.Sleep(50 * time.Millisecond)
	}
	if err != nil {
		return nil, fmt.Errorf("cannot connect: %v", err)
	}
	db.SetMaxOpenConns(40)
	en.db = db
	return en, nil
}

var connCounter uint32 = 5000

// handlerQuery runs q through the real Handler.ComQuery and reports callback batch sizes + rows.
func (en *env) handlerQuery(q string) (sizes []int, rows []string, errStr string) {
	connCounter++
	c := &mysql.Conn{ConnectionID: connCounter, Conn: dummyConn{}}
	p := hx.Safe(func() {
		en.handler.NewConnection(c)
		defer en.handler.ConnectionClosed(c)
		if err := en.handler.ComInitDB(c, "d"); err != nil {
			errStr = "initdb:" + err.Error()
			return
		}
		err := en.handler.ComQuery(context.Background(), c, q, func(r *sqltypes.Result, more bool) error {
			sizes = append(sizes, len(r.Rows))
			for _, row := range r.Rows {
				cells := make([]string, len(row))
				for i, v := range row {
					if v.IsNull() {
						cells[i] = "null"
					} else {
						cells[i] = "x" + fmt.Sprintf("%x", v.ToString())
					}
				}
				rows = append(rows, "("+strings.Join(cells, " ")+")")
			}
			return nil
		})
		if err != nil {
			errStr = fmt.Sprintf("err:%d", eng.Errno(err))
		}
	})
	if p != "" {
		errStr = "crash:" + p
	}
	return
}

// wireQuery runs q through go-sql-driver. binary=true uses a prepared statement (binary protocol).
func wireQuery(db interface {
	QueryContext(ctx context.Context, q string, args ...any) (*dsql.Rows, error)
	PrepareContext(ctx context.Context, q string) (*dsql.Stmt, error)
}, q string, binary bool) (rows []string, errStr string) {
	ctx, cancel := context.WithTimeout(context.Background(), 30*time.Second)
	defer cancel()
	var rs *dsql.Rows
	var err error
	if binary {
		st, perr := db.PrepareContext(ctx, q)
		if perr != nil {
			return nil, wireErr(perr)
		}
		defer st.Close()
		rs, err = st.QueryContext(ctx)
	} else {
		rs, err = db.QueryContext(ctx, q)
	}
	if err != nil {
		return nil, wireErr(err)
	}
	defer rs.Close()
	cols, _ := rs.Columns()
	for rs.Next() {
		raw := make([]dsql.RawBytes, len(cols))
		ptrs := make([]any, len(cols))
		for i := range raw {
			ptrs[i] = &raw[i]
		}
		if err := rs.Scan(ptrs...); err != nil {
			return rows, wireErr(err)
		}
		cells := make([]string, len(cols))
		for i, b := range raw {
			if b == nil {
				cells[i] = "null"
			} else {
				cells[i] = "x" + fmt.Sprintf("%x", string(b))
			}
		}
		rows = append(rows, "("+strings.Join(cells, " ")+")")
	}
	if err := rs.Err(); err != nil {
		return rows, wireErr(err)
	}
	return rows, ""
}

func wireErr(err error) string {
	if me, ok := err.(*gomysql.MySQLError); ok {
		return fmt.Sprintf("err:%d", me.Number)
	}
	return "err:client:" + hx.OneLine(err.Error())
}

func inproc(en *env, q string) (rows []string, errStr string) {
	r := en.e.Query(en.e.Ctx(), q)
	if c := r.Class(); c != "ok" {
		return nil, c
	}
	return eng.RowStrings(r), ""
}

func sizesStr(s []int) string {
	parts := make([]string, len(s))
	for i, v := range s {
		parts[i] = strconv.Itoa(v)
	}
	return strings.Join(parts, " ")
}

func run(a hx.RunArgs) error {
	out := hx.NewOut(a.OutDir)
	defer out.Close()
	out.Rule = "pipe: SELECT with n result rows (n around every multiple of 128 and 512, 0, 1, random) through the real Handler.ComQuery, observation = callback batch sizes, checked against the LTS model under a random schedule; " +
		"wire: SELECT/DML/error statements through server.Server + go-sql-driver in text and binary protocol vs. in-process Engine.Query (rows in order, NULLs, decimals, big unsigned); " +
		"conc: 8-24 concurrent clients with different-sized queries (every other one on its own table with a recognisable payload) vs. their sequential results; " +
		"alias: trees of statements of up to 8 connections through the real Handler.ComQuery where the nested statements of other connections execute after a callback has been entered and before it reads its rows (all result paths: max-1-row, OK, empty, <1 batch, k*128, batches+tail), rows read in the callback vs. in-process rows, schedule replayed on the Lean buffer-pool model; " +
		"disp: every key kind (primary, NOT NULL unique, nullable unique with several NULLs, composite unique with nullable column, non-unique) x operator (=, <=>, IN, IS NULL, ranges, OR/AND forms) x operand (present, absent, NULL) + a script of aggregates/limits/unions/subqueries/session/DML/DDL/procedure/error statements + random combinations, on three identical engines: in-process (schema kind, QFlagMax1Row, rows), Handler.ComQuery (callback sizes vs. the Lean dispatch model), wire text / binary / binary with bound parameters; " +
		"cursor: server-side cursors (raw protocol client: COM_STMT_PREPARE / EXECUTE with CURSOR_TYPE_READ_ONLY / FETCH in chunks) on single-callback results with and without other connections busy between EXECUTE and FETCH, and on multi-batch results with a pausing client, vs. in-process rows; " +
		"slow: 6 real clients read multi-MB single-letter tables and start reading late, every byte checked; non-trivial = result has rows or is an error"
	r := hx.NewRand(a.Seed)
	en, err := setup()
	if err != nil {
		return err
	}
	defer en.srv.Close()
	defer en.db.Close()

	// ---- pipe
	var ns []int
	for _, b := range []int{0, 1, 2, 127, 128, 129, 255, 256, 257, 383, 384, 385, 511, 512, 513, 639, 640, 641, 1023, 1024, 1025, 1279, 1280, 1281, nRows} {
		ns = append(ns, b)
	}
	nRand := 12
	if a.Thorough {
		nRand = 300
	}
	for i := 0; i < nRand; i++ {
		ns = append(ns, r.Intn(nRows+1))
	}
	for _, n := range ns {
		shapes := []string{
			fmt.Sprintf("select i, s, d, n, b from seq where i < %d order by i", n),
			fmt.Sprintf("select i from seq where i < %d", n),
			fmt.Sprintf("select s, n from seq limit %d", n),
		}
		q := shapes[r.Intn(len(shapes))]
		sizes, rows, es := en.handlerQuery(q)
		obs := es
		if es == "" {
			obs = "sizes " + sizesStr(sizes)
		}
		sched := make([]string, 40)
		for k := range sched {
			sched[k] = strconv.Itoa(r.Intn(3))
		}
		id := out.Case(fmt.Sprintf("(pipe %d (%s))", n, strings.Join(sched, " ")), obs, n > 0)
		out.Stat("pipe")
		// model-free oracle: rows delivered = in-process rows, in order when ordered
		want, werr := inproc(en, q)
		if werr != es {
			out.OracleFail(id, "-", fmt.Sprintf("handler outcome %q vs in-process %q for %s", es, werr, q))
		} else if es == "" {
			got := rows
			if !strings.Contains(q, "order by") {
				got = append([]string(nil), rows...)
				sort.Strings(got)
				want = append([]string(nil), want...)
				sort.Strings(want)
			}
			if strings.Join(got, " ") != strings.Join(want, " ") {
				out.OracleFail(id, "-", fmt.Sprintf("rows delivered through the callback differ from the engine's rows for %s (%d vs %d rows)", q, len(got), len(want)))
			}
		}
	}

	// ---- alias: statements of other connections between spooling and the callback's read
	nAlias := 40
	if a.Thorough {
		nAlias = 400
	}
	if err := runAlias(en, out, hx.NewRand(a.Seed*1000003+17), nAlias); err != nil {
		return err
	}

	// ---- disp: spooling dispatch (OK / row-less / max-1-row / batches) vs the in-process engine
	if err := runDisp(out, hx.NewRand(a.Seed*1000003+29), a.Thorough); err != nil {
		return err
	}

	// ---- wire
	var qs []string
	for _, n := range []int{0, 1, 127, 128, 129, 256, 512, 513, 1025} {
		qs = append(qs, fmt.Sprintf("select i, s, d, n, b from seq where i < %d order by i", n))
	}
	qs = append(qs,
		"select count(*), sum(d), min(n), max(b) from seq",
		"select n, count(*) from seq group by n order by n",
		"select i, n from seq where n is null order by i limit 5",
		"select a.i, b.i from seq a join seq b on a.i = b.i + 1 where a.i < 300 order by a.i",
		"select * from w order by a",
		"insert into w values (3,'c')",
		"insert into w values (3,'dup')",
		"update w set t = concat(t,'!') where a >= 2",
		"select * from w order by a",
		"delete from w where a = 3",
		"selec 1",
		"select * from nosuch",
		"select 1/0, null, '', 'é', 1.50, -0.0, 18446744073709551615",
		"select cast(i as char), -i, i*1.5 from seq where i < 10 order by i desc",
	)
	nw := 10
	if a.Thorough {
		nw = 400
	}
	for i := 0; i < nw; i++ {
		lo := r.Intn(nRows)
		cnt := r.Intn(700)
		cols := hx.Pick(r, []string{"i", "i, s", "s, d, n", "b, n, i", "*"})
		qs = append(qs, fmt.Sprintf("select %s from seq where i >= %d order by i limit %d", cols, lo, cnt))
	}
	for _, q := range qs {
		isSelect := strings.HasPrefix(q, "select")
		for _, binary := range []bool{false, true} {
			if !isSelect && binary {
				continue
			}
			var want []string
			var werr string
			var got []string
			var gerr string
			if isSelect {
				want, werr = inproc(en, q)
				got, gerr = wireQuery(en.db, q, binary)
			} else {
				// DML: run over the wire only (it changes state); compare affected rows with a twin table in-process
				res, err := en.db.Exec(q)
				if err != nil {
					gerr = wireErr(err)
				} else {
					n, _ := res.RowsAffected()
					got = []string{fmt.Sprintf("affected=%d", n)}
				}
				werr, want = gerr, got // state-changing: the follow-up SELECT is what is compared
			}
			obs := gerr
			if gerr == "" {
				obs = fmt.Sprintf("rows=%d", len(got))
				if !isSelect {
					obs = strings.Join(got, " ")
				}
			}
			eq := "eq"
			if gerr != werr || strings.Join(got, " ") != strings.Join(want, " ") {
				eq = "diff"
			}
			proto := "text"
			if binary {
				proto = "binary"
			}
			id := out.Case(fmt.Sprintf("(wire %s %s)", proto, hx.HexS(q)), eq, len(got) > 0 || gerr != "")
			out.Stat("wire:" + proto)
			_ = obs
			if eq == "diff" {
				out.OracleFail(id, "-", fmt.Sprintf("wire (%s) result differs from in-process result for %s: wire %q/%d rows, engine %q/%d rows", proto, q, gerr, len(got), werr, len(want)))
			}
		}
	}

	// ---- conc
	rounds := 2
	if a.Thorough {
		rounds = 60
	}
	for round := 0; round < rounds; round++ {
		k := 8 + r.Intn(17)
		type job struct {
			q          string
			want, got  []string
			werr, gerr string
		}
		jobs := make([]*job, k)
		for j := range jobs {
			n := hx.Pick(r, []int{0, 1, 100, 128, 129, 500, 512, 513, 1000, nRows})
			jobs[j] = &job{q: fmt.Sprintf("select i, s, n from seq where i %% %d = 0 and i < %d order by i", 1+r.Intn(3), n+j)}
			if j%2 == 1 {
				// every other client reads only its own table (recognisable payload per connection)
				jobs[j].q = fmt.Sprintf("select id, tag, n from own%d where id < %d order by id", j%nOwn, min(n+j, ownRows))
			}
			jobs[j].want, jobs[j].werr = inproc(en, jobs[j].q)
		}
		var wg sync.WaitGroup
		for _, jb := range jobs {
			wg.Add(1)
			go func(jb *job) {
				defer wg.Done()
				jb.got, jb.gerr = wireQuery(en.db, jb.q, false)
			}(jb)
		}
		wg.Wait()
		bad := ""
		for _, jb := range jobs {
			if jb.gerr != jb.werr || strings.Join(jb.got, " ") != strings.Join(jb.want, " ") {
				bad = jb.q
			}
		}
		eq := "eq"
		if bad != "" {
			eq = "diff"
		}
		id := out.Case(fmt.Sprintf("(conc %d %d)", k, round), eq, true)
		out.Stat("conc")
		if bad != "" {
			out.OracleFail(id, "-", "concurrent client received a result different from its sequential result: "+bad)
		}
	}
	// ---- slow: clients that read late, handlers parked in the write of the final batch
	slowRounds := 1
	if a.Thorough {
		slowRounds = 12
	}
	runSlow(en, out, hx.NewRand(a.Seed*1000003+41), slowRounds)

	// ---- cursor: server-side cursors through a raw protocol client
	nCursor, nCursorMulti := 10, 1
	if a.Thorough {
		nCursor, nCursorMulti = 100, 4
	}
	runCursor(en, out, hx.NewRand(a.Seed*1000003+53), nCursor, nCursorMulti)
	return nil
}
