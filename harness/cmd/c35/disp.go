// C35 — stream "disp": the spooling dispatch of Handler.doQuery against the in-process engine.
//
// doQuery picks one of five spooling strategies from the result schema and from a flag the ANALYZER computed
// (QFlagMax1Row: "this statement returns at most one row"); the in-process engine ignores that flag. The stream drives
// statements that reach every strategy — OK results (DML, DDL, SET, USE), row-less results, the max-1-row fast path
// (strict-key point lookups, global aggregates) and the batching pipeline — and, above all, statements that sit on the
// border of the flag's soundness: every comparison operator (=, <=>, IN, IS NULL, ranges) with present / absent / NULL
// operands over a primary key, a NOT NULL unique key, a NULLABLE unique key holding several NULLs, a composite unique
// key with a nullable column and a non-unique key.
//
// Three identical engines execute the same statement sequence: `ref` in-process (Engine.QueryWithBindings: schema
// kind, the analyzer's flag, the rows), `h` through the real Handler.ComQuery (callback sizes = the observation the
// Lean dispatch model Gms/Model/Spool.lean predicts from kind/flag/row count), `w` through server.Server +
// go-sql-driver (text protocol; binary protocol with and without bound parameters for SELECTs). Oracle: what the
// clients receive (rows, affected rows, error class) equals the in-process result.
package main

import (
	"context"
	dsql "database/sql"
	"fmt"
	"io"
	"net"
	"sort"
	"strings"
	"time"

	"github.com/dolthub/vitess/go/mysql"
	"github.com/dolthub/vitess/go/sqltypes"

	"github.com/dolthub/go-mysql-server/memory"
	"github.com/dolthub/go-mysql-server/server"
	"github.com/dolthub/go-mysql-server/sql"
	"github.com/dolthub/go-mysql-server/sql/types"
	"github.com/dolthub/go-mysql-server/verifharness/hx"
	"github.com/dolthub/go-mysql-server/verifharness/hx/eng"
)

var dispSetup = []string{
	"create table p (id int primary key, v varchar(20), x int)",
	"insert into p values (1,'one',10),(2,'two',20),(3,'three',30),(4,'four',NULL),(5,'five',50),(6,'six',20)",
	"create table u1 (id int primary key, u int, v varchar(20), unique key uk (u))",
	"insert into u1 values (1,10,'anvil'),(2,NULL,'bolt'),(3,NULL,'chisel'),(4,20,'drill'),(5,NULL,'edger'),(6,30,'file')",
	"create table u2 (id int primary key, a int not null, u int, v varchar(10), unique key uk2 (a, u))",
	"insert into u2 values (1,1,NULL,'r1'),(2,1,NULL,'r2'),(3,1,5,'r3'),(4,2,NULL,'r4'),(5,2,7,'r5'),(6,1,6,'r6'),(7,1,NULL,'r7')",
	"create table u3 (id int primary key, k int not null, v varchar(10), unique key uk3 (k))",
	"insert into u3 values (1,5,'a'),(2,6,'b'),(3,7,'c'),(4,8,'d')",
	"create table nk (id int primary key, a int, b int, key ia (a))",
	"insert into nk values (1,1,1),(2,1,2),(3,NULL,3),(4,NULL,4),(5,2,5),(6,1,6)",
	"create table e0 (id int primary key, v int)",
	"create table sc (id int primary key, v int, w varchar(10))",
	"insert into sc values (1,1,'x'),(2,2,'y')",
}

type dispEnv struct {
	ref    *eng.Eng
	refCtx *sql.Context
	hEng   *eng.Eng
	hSrv   *server.Server
	h      mysql.Handler
	hConn  *mysql.Conn
	wEng   *eng.Eng
	wSrv   *server.Server
	wdb    *dsql.DB
	wConn  *dsql.Conn
}

func freePort() (int, error) {
	l, err := net.Listen("tcp", "127.0.0.1:0")
	if err != nil {
		return 0, err
	}
	defer l.Close()
	return l.Addr().(*net.TCPAddr).Port, nil
}

func newServer(e *eng.Eng, start bool) (*server.Server, mysql.Handler, int, error) {
	port, err := freePort()
	if err != nil {
		return nil, nil, 0, err
	}
	var h mysql.Handler
	cfg := server.Config{Protocol: "tcp", Address: fmt.Sprintf("127.0.0.1:%d", port)}
	srv, err := server.NewServerWithHandler(cfg, e.E, sql.NewContext, memory.NewSessionBuilder(e.Pro), nil,
		func(in mysql.Handler) (mysql.Handler, error) { h = in; return in, nil })
	if err != nil {
		return nil, nil, 0, err
	}
	if start {
		go srv.Start()
	}
	return srv, h, port, nil
}

func newDispEnv() (*dispEnv, error) {
	de := &dispEnv{}
	mk := func() *eng.Eng {
		e := eng.New("d")
		e.MustExec(e.Ctx(), dispSetup...)
		return e
	}
	de.ref, de.hEng, de.wEng = mk(), mk(), mk()
	de.refCtx = de.ref.Ctx()
	var err error
	if de.hSrv, de.h, _, err = newServer(de.hEng, false); err != nil {
		return nil, err
	}
	connCounter++
	de.hConn = &mysql.Conn{ConnectionID: connCounter, Conn: dummyConn{}}
	de.h.NewConnection(de.hConn)
	if err := de.h.ComInitDB(de.hConn, "d"); err != nil {
		return nil, err
	}
	var port int
	if de.wSrv, _, port, err = newServer(de.wEng, true); err != nil {
		return nil, err
	}
	dsn := fmt.Sprintf("root@tcp(127.0.0.1:%d)/d", port)
	for i := 0; i < 100; i++ {
		de.wdb, err = dsql.Open("mysql", dsn)
		if err == nil {
			if err = de.wdb.Ping(); err == nil {
				break
			}
		}
		time.Sleep(50 * time.Millisecond)
	}
	if err != nil {
		return nil, fmt.Errorf("disp: cannot connect: %v", err)
	}
	if de.wConn, err = de.wdb.Conn(context.Background()); err != nil {
		return nil, err
	}
	return de, nil
}

func (de *dispEnv) close() {
	de.h.ConnectionClosed(de.hConn)
	de.wConn.Close()
	de.wdb.Close()
	de.wSrv.Close()
	de.hSrv.Close()
}

type refRes struct {
	kind     string // ok | none | rows
	max1     bool
	n        int // rows the iterator yielded (an OkResult row counts)
	rows     []string
	errClass string
	affected uint64
}

// refQuery: the statement on the in-process engine, on the pinned reference session.
func (de *dispEnv) refQuery(q string) (res refRes) {
	ctx := eng.SameSession(de.refCtx)
	done := make(chan refRes, 1)
	go func() {
		var r refRes
		defer func() {
			if p := recover(); p != nil {
				r.errClass = "crash"
			}
			done <- r
		}()
		sch, it, flags, err := de.ref.E.QueryWithBindings(ctx, q, nil, nil, &sql.QueryFlags{})
		if err != nil {
			r.errClass = fmt.Sprintf("err:%d", eng.Errno(err))
			return
		}
		switch {
		case types.IsOkResultSchema(sch):
			r.kind = "ok"
		case sch == nil:
			r.kind = "none"
		default:
			r.kind = "rows"
		}
		r.max1 = flags != nil && flags.IsSet(sql.QFlagMax1Row)
		for {
			row, err := it.Next(ctx)
			if err == io.EOF {
				break
			}
			if err != nil {
				r.errClass = fmt.Sprintf("err:%d", eng.Errno(err))
				it.Close(ctx)
				return
			}
			r.n++
			if types.IsOkResult(row) {
				r.affected = types.GetOkResult(row).RowsAffected
				continue
			}
			cells := make([]string, len(row))
			for i, v := range row {
				if i < len(sch) {
					s, null := eng.Text(ctx, sch[i].Type, v)
					if null {
						cells[i] = "null"
					} else {
						cells[i] = "x" + fmt.Sprintf("%x", s)
					}
				} else {
					cells[i] = "x" + fmt.Sprintf("%x", fmt.Sprint(v))
				}
			}
			r.rows = append(r.rows, "("+strings.Join(cells, " ")+")")
		}
		if err := it.Close(ctx); err != nil {
			r.errClass = fmt.Sprintf("err:%d", eng.Errno(err))
		}
	}()
	select {
	case res = <-done:
	case <-time.After(20 * time.Second):
		res.errClass = "timeout"
	}
	return
}

// hQuery: the statement through the real Handler.ComQuery on the pinned handler-level connection.
func (de *dispEnv) hQuery(q string) (sizes []int, rows []string, affected uint64, errStr string) {
	p := hx.Safe(func() {
		err := de.h.ComQuery(context.Background(), de.hConn, q, func(r *sqltypes.Result, more bool) error {
			sizes = append(sizes, len(r.Rows))
			for _, row := range r.Rows {
				rows = append(rows, renderRow(row))
			}
			if len(r.Rows) == 0 {
				affected = r.RowsAffected
			}
			return nil
		})
		if err != nil {
			errStr = fmt.Sprintf("err:%d", eng.Errno(err))
		}
	})
	if p != "" {
		errStr = "crash:" + hx.OneLine(p)
	}
	return
}

type dStmt struct {
	q    string // the statement with literals
	tmpl string // the same with ? placeholders (binary protocol with bound parameters), or ""
	args []any
	tag  string // generator class, for the distribution
}

func lit(v any) string {
	if v == nil {
		return "NULL"
	}
	return fmt.Sprint(v)
}

// keyCols: the indexed columns the point/range predicates are built over.
type keyCol struct {
	table, col string
	prefix     string // conjunct that pins the leading index columns (composite keys)
	vals       []any  // present (several NULLs where nullable), absent, NULL
}

var keyCols = []keyCol{
	{"p", "id", "", []any{2, 99, nil}},
	{"u1", "u", "", []any{10, 99, nil}},
	{"u1", "id", "", []any{3, 99, nil}},
	{"u3", "k", "", []any{6, 99, nil}},
	{"nk", "a", "", []any{1, 99, nil}},
	{"u2", "u", "a = 1 and ", []any{5, 99, nil}},
	{"u2", "u", "a <=> 2 and ", []any{7, 99, nil}},
}

type predOp struct {
	name string
	mk   func(col string, v, v2 any) (sqlText string, tmpl string, args []any)
}

var predOps = []predOp{
	{"eq", func(c string, v, _ any) (string, string, []any) { return c + " = " + lit(v), c + " = ?", []any{v} }},
	{"nseq", func(c string, v, _ any) (string, string, []any) { return c + " <=> " + lit(v), c + " <=> ?", []any{v} }},
	{"in1", func(c string, v, _ any) (string, string, []any) { return c + " in (" + lit(v) + ")", c + " in (?)", []any{v} }},
	{"in2", func(c string, v, v2 any) (string, string, []any) {
		return c + " in (" + lit(v) + ", " + lit(v2) + ")", c + " in (?, ?)", []any{v, v2}
	}},
	{"isnull", func(c string, _, _ any) (string, string, []any) { return c + " is null", "", nil }},
	{"notnull", func(c string, _, _ any) (string, string, []any) { return c + " is not null", "", nil }},
	{"lt", func(c string, v, _ any) (string, string, []any) { return c + " < " + lit(v), c + " < ?", []any{v} }},
	{"ge", func(c string, v, _ any) (string, string, []any) { return c + " >= " + lit(v), c + " >= ?", []any{v} }},
	{"between", func(c string, v, v2 any) (string, string, []any) {
		return c + " between " + lit(v) + " and " + lit(v2), c + " between ? and ?", []any{v, v2}
	}},
	{"ne", func(c string, v, _ any) (string, string, []any) { return c + " <> " + lit(v), c + " <> ?", []any{v} }},
	{"eq-or", func(c string, v, v2 any) (string, string, []any) {
		return "(" + c + " = " + lit(v) + " or " + c + " <=> " + lit(v2) + ")", "", nil
	}},
	{"eq-and-nseq", func(c string, v, _ any) (string, string, []any) {
		return c + " <=> " + lit(v) + " and " + c + " <=> " + lit(v), "", nil
	}},
}

func pointStmt(kc keyCol, op predOp, v, v2 any, list, suffix string) dStmt {
	pred, tmpl, args := op.mk(kc.col, v, v2)
	q := fmt.Sprintf("select %s from %s where %s%s%s", list, kc.table, kc.prefix, pred, suffix)
	t := ""
	if tmpl != "" {
		t = fmt.Sprintf("select %s from %s where %s%s%s", list, kc.table, kc.prefix, tmpl, suffix)
	}
	return dStmt{q: q, tmpl: t, args: args, tag: "key:" + op.name}
}

// dispCore: every key column x operator x operand class, plain select list.
func dispCore() []dStmt {
	var out []dStmt
	for _, kc := range keyCols {
		for _, op := range predOps {
			for i, v := range kc.vals {
				v2 := kc.vals[(i+1)%len(kc.vals)]
				if (op.name == "isnull" || op.name == "notnull") && i > 0 {
					continue
				}
				out = append(out, pointStmt(kc, op, v, v2, "*", " order by id"))
			}
		}
	}
	return out
}

// dispScript: the row-less and single-row paths, statement kinds in a fixed order (state changing ones included; all
// three engines execute the same sequence).
var dispScript = []string{
	// global aggregates (max-1-row through replaceCountStar) and their neighbours
	"select count(*) from p", "select count(*), max(v), min(x), sum(x) from p", "select count(*) from e0",
	"select max(x) from e0", "select count(*) from p where x > 100", "select count(x), count(distinct x) from p",
	"select x, count(*) from p group by x order by x", "select count(*) from p group by x order by 1",
	"select count(*) from p having count(*) > 100", "select count(*) from p having count(*) > 1",
	"select any_value(v), count(*) from p", "select distinct count(*) from p", "select count(*) from p limit 0",
	"select count(*) from p union select count(*) from u1", "select count(*) from p union all select count(*) from u1",
	"select count(*) from u1 union all select id from p where id = 2",
	"select count(*) c from p order by c", "select count(*) + 1, 'k' from nk where a = 1",
	"select c from (select count(*) c from p) d", "select * from (select count(*) c from p) d, (select id from u3) e order by 2",
	"select (select count(*) from p), id from u3 order by id", "select id from p where x = (select max(x) from p)",
	"select id from p where id = (select min(id) from p)", "select id from p where id in (select max(id) from u1)",
	"select count(*) over () from u3", "select id, count(*) over (order by id) from u3 order by id",
	"select p.id, u1.v from p join u1 on p.id = u1.id where p.id = 2", "select count(*) from p join u3 on p.id = u3.id",
	"select p.id from p, u3 where p.id = 1 order by u3.id", "select u1.id from u1 join u2 on u1.id = u2.id where u1.u <=> NULL order by 1",
	"with c as (select count(*) n from p) select n from c", "with c as (select id from p where id = 1) select * from c, u3 order by 2",
	"select 1", "select 1 from dual where 1 = 0", "select null", "select 1 union select 2 order by 1", "select id from p order by id limit 1", "select id from p order by id limit 1 offset 2",
	"select id from p where id = 3 limit 0", "select id from p where false", "select id from u1 where u = 10 and v = 'nope'",
	"select id from u1 where u = 10 or id = 2 order by id", "select id from u1 where u <=> NULL and v = 'bolt'",
	"select id from u1 where u <=> NULL order by id limit 1", "select id from u1 where u <=> NULL order by id desc limit 2", "select id from u1 where not (u <=> NULL) order by id",
	"select id from u1 where u <=> NULL or u <=> 10 order by id", "select id from u2 where a = 1 and u <=> NULL and v <> 'r2' order by id",
	"select id from u2 where (a, u) = (1, 5)", "select id from u2 where a = 1 and u in (5, 6) order by id", "select id from u2 where a in (1, 2) and u = 5",
	"select id from u2 where a = 1 order by id", "select id from u2 where u <=> NULL order by id", "select id from u2 where a = 2 and u is null",
	// session / row-less statements
	"set @a = 5", "select @a, @a + 1", "set @b = (select count(*) from p)", "select @b", "set autocommit = 1", "set names utf8mb4",
	"select id from p where id = @a", "select id from u1 where u <=> @nosuch order by id",
	"use d", "show tables", "show create table u1", "describe u1", "show variables like 'autocommit'", "show warnings",
	"show indexes from u2", "select database(), version() is not null",
	// (EXPLAIN is kept out: its `id` column is declared unsigned but carries the text "NULL", which go-sql-driver refuses to parse —
	// a result-metadata matter of the EXPLAIN node (C09/C28 territory), not of the spooling path)

	"begin", "select count(*) from sc", "rollback", "start transaction", "commit",
	// DML / DDL: OK results
	"insert into sc values (3,3,'z')", "insert into sc values (3,9,'dup')", "insert into sc values (4,4,'a'),(5,5,'b')",
	"select * from sc order by id", "update sc set v = v + 10 where id >= 3", "update sc set v = v where id = 1", "update sc set v = 0 where id = 99",
	"select * from sc where id = 3", "delete from sc where id = 5", "delete from sc where id = 99", "replace into sc values (4,40,'r')",
	"insert into sc values (1,7,'q') on duplicate key update v = v + 100", "insert ignore into sc values (1,0,'ign')",
	"insert into sc select id + 100, x, v from p where id <= 2", "select count(*), sum(v) from sc", "select * from sc order by id",
	"create table t9 (a int primary key, b int, unique key ub (b))", "insert into t9 values (1,NULL),(2,NULL),(3,3)",
	"select a from t9 where b <=> NULL order by a", "select a from t9 where b <=> 3", "select a from t9 where b is null order by a",
	"alter table t9 add column c int", "create index ic on t9 (c)", "select * from t9 where c <=> NULL order by a", "drop index ic on t9",
	"update t9 set c = 1 where b <=> NULL", "select a, c from t9 where b <=> NULL order by a", "delete from t9 where b <=> NULL", "select count(*) from t9",
	"drop table t9", "select * from t9", "drop table t9", "create table sc (id int)", "truncate table e0",
	"create view vw as select id, u from u1 where u <=> NULL", "select * from vw order by id", "select count(*) from vw", "drop view vw",
	"create procedure pr1() select id from p order by id", "call pr1()", "create procedure pr2() select count(*) from p", "call pr2()",
	"create procedure pr3(in k int) select id from u1 where u <=> k order by id", "call pr3(NULL)", "call pr3(10)",
	"drop procedure pr1", "drop procedure pr2", "drop procedure pr3", "call pr1()",
	// errors
	"selec 1", "select * from nosuch", "select nosuch from p", "insert into p values (1,'dup',0)", "select id from p where id = (select id from p)",
	"select 1/0, null, '', 'é', 1.50, 18446744073709551615",
}

func genDisp(r *hx.Rand, thorough bool) []dStmt {
	out := dispCore()
	for _, q := range dispScript {
		out = append(out, dStmt{q: q, tag: "script"})
	}
	lists := []string{"*", "id", "id, v", "count(*)", "max(id), count(*)", "v, id"}
	suffixes := []string{"", " order by id", " order by id desc", " order by id limit 1", " order by id desc limit 2", " order by id limit 1 offset 1", " and id > 0 order by id", " and v is not null order by id", " or id = 1 order by id", " group by id order by id"}
	n := 60
	if thorough {
		n = 1500
	}
	for i := 0; i < n; i++ {
		kc := hx.Pick(r, keyCols)
		op := hx.Pick(r, predOps)
		vi := r.Intn(len(kc.vals))
		list := hx.Pick(r, lists)
		suffix := hx.Pick(r, suffixes)
		if strings.Contains(list, "count") && !strings.Contains(list, "id,") && strings.Contains(suffix, "order by id") && !strings.Contains(suffix, "group by") {
			suffix = strings.Split(suffix, " order by")[0] // an aggregate without GROUP BY cannot be ordered by id (and has one row)
		}
		st := pointStmt(kc, op, kc.vals[vi], kc.vals[(vi+1)%len(kc.vals)], list, suffix)
		st.tag = "rand:" + op.name
		out = append(out, st)
	}
	return out
}

func ordered(q string) bool { return strings.Contains(q, "order by") }

func sameRows(a, b []string, ord bool) bool {
	if len(a) != len(b) {
		return false
	}
	if !ord {
		a = append([]string(nil), a...)
		b = append([]string(nil), b...)
		sort.Strings(a)
		sort.Strings(b)
	}
	for i := range a {
		if a[i] != b[i] {
			return false
		}
	}
	return true
}

func showRows(rows []string) string {
	var out []string
	for i, r := range rows {
		if i == 4 {
			out = append(out, "…")
			break
		}
		out = append(out, unhexRow(r))
	}
	return fmt.Sprintf("%d rows [%s]", len(rows), strings.Join(out, "; "))
}

func runDisp(out *hx.Out, r *hx.Rand, thorough bool) error {
	de, err := newDispEnv()
	if err != nil {
		return err
	}
	defer de.close()
	for _, st := range genDisp(r, thorough) {
		ref := de.refQuery(st.q)
		sizes, hrows, haff, herr := de.hQuery(st.q)
		obs := herr
		if herr == "" {
			obs = "sizes " + sizesStr(sizes)
		}
		var payload string
		if ref.errClass != "" {
			payload = fmt.Sprintf("(disp-err %s %s)", hx.HexS(ref.errClass), hx.HexS(st.q))
		} else {
			m := 0
			if ref.max1 {
				m = 1
			}
			payload = fmt.Sprintf("(disp %s %d %d %s)", ref.kind, m, ref.n, hx.HexS(st.q))
		}
		id := out.Case(payload, obs, ref.errClass != "" || ref.n > 0)
		out.Stat("disp:" + st.tag)
		if ref.errClass == "" {
			out.Stat(fmt.Sprintf("disp-path:%s:max1=%v:n=%s", ref.kind, ref.max1, bucket(ref.n)))
		} else {
			out.Stat("disp-path:error")
		}
		ord := ordered(st.q)
		// handler level vs in-process
		if herr != ref.errClass {
			out.OracleFail(id, "-", fmt.Sprintf("Handler.ComQuery outcome %q, in-process engine %q (%s, QFlagMax1Row=%v, %s) for: %s", herr, ref.errClass, ref.kind, ref.max1, showRows(ref.rows), st.q))
		} else if herr == "" {
			if ref.kind == "rows" && !sameRows(hrows, ref.rows, ord) {
				out.OracleFail(id, "-", fmt.Sprintf("rows handed to the callback differ from the engine's: handler %s, engine %s for: %s", showRows(hrows), showRows(ref.rows), st.q))
			} else if ref.kind == "ok" && haff != ref.affected {
				out.OracleFail(id, "-", fmt.Sprintf("affected rows: handler %d, engine %d for: %s", haff, ref.affected, st.q))
			}
		}
		// wire level vs in-process
		type wrun struct {
			proto string
			rows  []string
			err   string
			aff   uint64
		}
		var runs []wrun
		if ref.errClass == "" && ref.kind == "ok" {
			res, err := de.wConn.ExecContext(context.Background(), st.q)
			w := wrun{proto: "text"}
			if err != nil {
				w.err = wireErr(err)
			} else {
				n, _ := res.RowsAffected()
				w.aff = uint64(n)
			}
			runs = append(runs, w)
		} else {
			rows, e := wireQuery(de.wConn, st.q, false)
			runs = append(runs, wrun{proto: "text", rows: rows, err: e})
			if ref.errClass == "" && ref.kind == "rows" && strings.HasPrefix(st.q, "select") {
				rows, e := wireQuery(de.wConn, st.q, true)
				runs = append(runs, wrun{proto: "binary", rows: rows, err: e})
				if st.tmpl != "" {
					rows, e := wireQueryArgs(de.wConn, st.tmpl, st.args)
					runs = append(runs, wrun{proto: "binary-args", rows: rows, err: e})
				}
			}
		}
		for _, w := range runs {
			out.Stat("disp-wire:" + w.proto)
			if w.err != ref.errClass {
				out.OracleFail(id, "-", fmt.Sprintf("wire (%s) outcome %q, in-process engine %q (%s, QFlagMax1Row=%v, %s) for: %s", w.proto, w.err, ref.errClass, ref.kind, ref.max1, showRows(ref.rows), st.q))
			} else if w.err == "" {
				if ref.kind == "ok" {
					if w.aff != ref.affected {
						out.OracleFail(id, "-", fmt.Sprintf("wire (%s) affected rows %d, engine %d for: %s", w.proto, w.aff, ref.affected, st.q))
					}
				} else if !sameRows(w.rows, ref.rows, ord) {
					out.OracleFail(id, "-", fmt.Sprintf("wire (%s) rows differ from the engine's: wire %s, engine %s for: %s", w.proto, showRows(w.rows), showRows(ref.rows), st.q))
				}
			}
		}
	}
	return nil
}

func bucket(n int) string {
	switch {
	case n == 0:
		return "0"
	case n == 1:
		return "1"
	default:
		return "2+"
	}
}

// wireQueryArgs: binary protocol with bound parameters (COM_STMT_PREPARE / COM_STMT_EXECUTE).
func wireQueryArgs(c *dsql.Conn, tmpl string, args []any) (rows []string, errStr string) {
	ctx, cancel := context.WithTimeout(context.Background(), 30*time.Second)
	defer cancel()
	st, err := c.PrepareContext(ctx, tmpl)
	if err != nil {
		return nil, wireErr(err)
	}
	defer st.Close()
	rs, err := st.QueryContext(ctx, args...)
	if err != nil {
		return nil, wireErr(err)
	}
	defer rs.Close()
	return scanRows(rs)
}

func scanRows(rs *dsql.Rows) (rows []string, errStr string) {
	cols, _ := rs.Columns()
	for rs.Next() {
		raw := make([]dsql.RawBytes, len(cols))
		ptrs := make([]any, len(cols))
		for i := range raw {
			ptrs[i] = &raw[i]
		}
		if err := rs.Scan(ptrs...); err != nil {
			return rows, wireErr(err)
		}
		cells := make([]string, len(cols))
		for i, b := range raw {
			if b == nil {
				cells[i] = "null"
			} else {
				cells[i] = "x" + fmt.Sprintf("%x", string(b))
			}
		}
		rows = append(rows, "("+strings.Join(cells, " ")+")")
	}
	if err := rs.Err(); err != nil {
		return rows, wireErr(err)
	}
	return rows, ""
}
