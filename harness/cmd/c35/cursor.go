// C35 — stream "cursor": server-side cursors (COM_STMT_EXECUTE with CURSOR_TYPE_READ_ONLY, rows pulled with
// COM_STMT_FETCH), which go-sql-driver never opens, through a minimal raw MySQL protocol client.
//
// With a cursor the vitess connection does NOT serialise a result inside the handler's callback: the callback only
// hands the *sqltypes.Result over to the connection's command loop, which keeps it as the cursor's pending result and
// writes its rows when the client fetches them — possibly long after Handler.doQuery has returned. The rows of that
// result alias the pooled scratch buffer (Gms/Model/BufPool.lean): the stream opens a cursor on connection A, lets other
// connections run statements, then fetches A's rows and compares them with the in-process engine's.
package main

import (
	"bufio"
	"encoding/binary"
	"fmt"
	"io"
	"net"
	"strconv"
	"strings"
	"sync"
	"time"

	"github.com/dolthub/go-mysql-server/verifharness/hx"
)

type rawConn struct {
	c   net.Conn
	r   *bufio.Reader
	seq byte
}

func (rc *rawConn) readPacket() ([]byte, error) {
	var out []byte
	for {
		var hdr [4]byte
		if _, err := io.ReadFull(rc.r, hdr[:]); err != nil {
			return nil, err
		}
		n := int(hdr[0]) | int(hdr[1])<<8 | int(hdr[2])<<16
		rc.seq = hdr[3] + 1
		buf := make([]byte, n)
		if _, err := io.ReadFull(rc.r, buf); err != nil {
			return nil, err
		}
		out = append(out, buf...)
		if n < 0xffffff {
			return out, nil
		}
	}
}

func (rc *rawConn) writePacket(p []byte) error {
	hdr := []byte{byte(len(p)), byte(len(p) >> 8), byte(len(p) >> 16), rc.seq}
	rc.seq++
	_, err := rc.c.Write(append(hdr, p...))
	return err
}

func (rc *rawConn) command(p []byte) error {
	rc.seq = 0
	return rc.writePacket(p)
}

func lenencInt(b []byte) (v uint64, n int) {
	switch {
	case len(b) == 0:
		return 0, 0
	case b[0] < 0xfb:
		return uint64(b[0]), 1
	case b[0] == 0xfc:
		return uint64(binary.LittleEndian.Uint16(b[1:])), 3
	case b[0] == 0xfd:
		return uint64(b[1]) | uint64(b[2])<<8 | uint64(b[3])<<16, 4
	case b[0] == 0xfe:
		return binary.LittleEndian.Uint64(b[1:]), 9
	}
	return 0, 1 // 0xfb: NULL
}

func lenencStr(b []byte) (s []byte, n int) {
	l, k := lenencInt(b)
	return b[k : k+int(l)], k + int(l)
}

func errPacket(p []byte) error {
	if len(p) > 0 && p[0] == 0xff {
		code := binary.LittleEndian.Uint16(p[1:])
		return fmt.Errorf("err:%d", code)
	}
	return nil
}

const (
	capLongPassword   = 0x1
	capConnectWithDB  = 0x8
	capProtocol41     = 0x200
	capTransactions   = 0x2000
	capSecureConn     = 0x8000
	capPluginAuth     = 0x80000
	comStmtPrepare    = 0x16
	comStmtExecute    = 0x17
	comStmtClose      = 0x19
	comStmtFetch      = 0x1c
	cursorReadOnly    = 0x01
	statusCursorExist = 0x0040
	statusLastRowSent = 0x0080
)

func rawDial(port int, db string) (*rawConn, error) {
	c, err := net.DialTimeout("tcp", fmt.Sprintf("127.0.0.1:%d", port), 5*time.Second)
	if err != nil {
		return nil, err
	}
	c.SetDeadline(time.Now().Add(60 * time.Second))
	rc := &rawConn{c: c, r: bufio.NewReaderSize(c, 1<<16)}
	if _, err := rc.readPacket(); err != nil { // server greeting (contents not needed: empty password)
		return nil, err
	}
	caps := uint32(capLongPassword | capConnectWithDB | capProtocol41 | capTransactions | capSecureConn | capPluginAuth)
	var p []byte
	p = binary.LittleEndian.AppendUint32(p, caps)
	p = binary.LittleEndian.AppendUint32(p, 1<<24)
	p = append(p, 45) // utf8mb4_general_ci
	p = append(p, make([]byte, 23)...)
	p = append(p, "root\x00"...)
	p = append(p, 0) // empty auth response
	p = append(p, db...)
	p = append(p, 0)
	p = append(p, "mysql_native_password\x00"...)
	if err := rc.writePacket(p); err != nil {
		return nil, err
	}
	for {
		r, err := rc.readPacket()
		if err != nil {
			return nil, err
		}
		if e := errPacket(r); e != nil {
			return nil, fmt.Errorf("handshake: %v", e)
		}
		if len(r) > 0 && r[0] == 0xfe { // auth switch: answer with the (empty) password scramble
			if err := rc.writePacket(nil); err != nil {
				return nil, err
			}
			continue
		}
		return rc, nil
	}
}

type rawCol struct {
	typ      byte
	unsigned bool
}

func parseColDef(p []byte) rawCol {
	off := 0
	for i := 0; i < 6; i++ { // catalog, schema, table, org_table, name, org_name
		_, n := lenencStr(p[off:])
		off += n
	}
	off++ // 0x0c
	off += 2 + 4
	typ := p[off]
	flags := binary.LittleEndian.Uint16(p[off+1:])
	return rawCol{typ: typ, unsigned: flags&0x20 != 0}
}

func isEOF(p []byte) bool { return len(p) > 0 && p[0] == 0xfe && len(p) < 9 }

// readColDefs reads n column definitions and the EOF packet that follows; returns the EOF's status flags.
func (rc *rawConn) readColDefs(n int) ([]rawCol, uint16, error) {
	var cols []rawCol
	for i := 0; i < n; i++ {
		p, err := rc.readPacket()
		if err != nil {
			return nil, 0, err
		}
		cols = append(cols, parseColDef(p))
	}
	p, err := rc.readPacket()
	if err != nil {
		return nil, 0, err
	}
	if !isEOF(p) {
		return nil, 0, fmt.Errorf("expected EOF after column definitions, got %x", p[:min(len(p), 8)])
	}
	return cols, binary.LittleEndian.Uint16(p[3:]), nil
}

func (rc *rawConn) prepare(q string) (stmtID uint32, err error) {
	if err = rc.command(append([]byte{comStmtPrepare}, q...)); err != nil {
		return
	}
	p, err := rc.readPacket()
	if err != nil {
		return
	}
	if e := errPacket(p); e != nil {
		return 0, e
	}
	stmtID = binary.LittleEndian.Uint32(p[1:])
	ncols := int(binary.LittleEndian.Uint16(p[5:]))
	nparams := int(binary.LittleEndian.Uint16(p[7:]))
	if nparams > 0 {
		if _, _, err = rc.readColDefs(nparams); err != nil {
			return
		}
	}
	if ncols > 0 {
		if _, _, err = rc.readColDefs(ncols); err != nil {
			return
		}
	}
	return
}

// executeCursor: COM_STMT_EXECUTE asking for a read-only cursor. Returns the result columns.
func (rc *rawConn) executeCursor(stmtID uint32) ([]rawCol, uint16, error) {
	p := []byte{comStmtExecute}
	p = binary.LittleEndian.AppendUint32(p, stmtID)
	p = append(p, cursorReadOnly)
	p = binary.LittleEndian.AppendUint32(p, 1)
	if err := rc.command(p); err != nil {
		return nil, 0, err
	}
	r, err := rc.readPacket()
	if err != nil {
		return nil, 0, err
	}
	if e := errPacket(r); e != nil {
		return nil, 0, e
	}
	if r[0] == 0x00 {
		return nil, 0, nil // OK packet: no result set, no cursor
	}
	n, _ := lenencInt(r)
	return rc.readColDefs(int(n))
}

func decodeBinaryRow(p []byte, cols []rawCol) (string, error) {
	if len(p) == 0 || p[0] != 0x00 {
		return "", fmt.Errorf("not a binary row: %x", p[:min(len(p), 8)])
	}
	nb := (len(cols) + 7 + 2) / 8
	bitmap := p[1 : 1+nb]
	off := 1 + nb
	cells := make([]string, len(cols))
	for i, c := range cols {
		if bitmap[(i+2)/8]&(1<<uint((i+2)%8)) != 0 {
			cells[i] = "null"
			continue
		}
		var s string
		switch c.typ {
		case 1: // TINY
			if c.unsigned {
				s = strconv.FormatUint(uint64(p[off]), 10)
			} else {
				s = strconv.FormatInt(int64(int8(p[off])), 10)
			}
			off++
		case 2, 13: // SHORT, YEAR
			v := binary.LittleEndian.Uint16(p[off:])
			if c.unsigned {
				s = strconv.FormatUint(uint64(v), 10)
			} else {
				s = strconv.FormatInt(int64(int16(v)), 10)
			}
			off += 2
		case 3, 9: // LONG, INT24
			v := binary.LittleEndian.Uint32(p[off:])
			if c.unsigned {
				s = strconv.FormatUint(uint64(v), 10)
			} else {
				s = strconv.FormatInt(int64(int32(v)), 10)
			}
			off += 4
		case 8: // LONGLONG
			v := binary.LittleEndian.Uint64(p[off:])
			if c.unsigned {
				s = strconv.FormatUint(v, 10)
			} else {
				s = strconv.FormatInt(int64(v), 10)
			}
			off += 8
		case 0, 15, 246, 249, 250, 251, 252, 253, 254, 245: // DECIMAL, VARCHAR, NEWDECIMAL, BLOBs, VAR_STRING, STRING, JSON
			b, n := lenencStr(p[off:])
			s = string(b)
			off += n
		default:
			return "", fmt.Errorf("column type %d not supported by the raw client", c.typ)
		}
		cells[i] = "x" + fmt.Sprintf("%x", s)
	}
	return "(" + strings.Join(cells, " ") + ")", nil
}

// fetch: COM_STMT_FETCH of up to n rows. done = the server reported the last row.
func (rc *rawConn) fetch(stmtID uint32, n uint32, cols []rawCol) (rows []string, done bool, err error) {
	p := []byte{comStmtFetch}
	p = binary.LittleEndian.AppendUint32(p, stmtID)
	p = binary.LittleEndian.AppendUint32(p, n)
	if err = rc.command(p); err != nil {
		return
	}
	for {
		var r []byte
		if r, err = rc.readPacket(); err != nil {
			return
		}
		if e := errPacket(r); e != nil {
			return rows, true, e
		}
		if isEOF(r) {
			status := binary.LittleEndian.Uint16(r[3:])
			return rows, status&statusLastRowSent != 0, nil
		}
		var row string
		if row, err = decodeBinaryRow(r, cols); err != nil {
			return
		}
		rows = append(rows, row)
	}
}

func (rc *rawConn) closeStmt(stmtID uint32) {
	p := []byte{comStmtClose}
	p = binary.LittleEndian.AppendUint32(p, stmtID)
	rc.command(p)
}

// cursorRun opens a cursor for q on a fresh raw connection, lets `between` run (statements of other connections, or a
// pause), then fetches everything in chunks of `chunk` rows. The whole exchange must finish within `limit`.
func cursorRun(port int, q string, chunk uint32, limit time.Duration, between func()) (rows []string, errStr string) {
	rc, err := rawDial(port, "d")
	if err != nil {
		return nil, "client:" + hx.OneLine(err.Error())
	}
	defer rc.c.Close()
	rc.c.SetDeadline(time.Now().Add(limit))
	id, err := rc.prepare(q)
	if err != nil {
		return nil, hx.OneLine(err.Error())
	}
	cols, _, err := rc.executeCursor(id)
	if err != nil {
		return nil, hx.OneLine(err.Error())
	}
	if cols == nil {
		return nil, ""
	}
	first := true
	for {
		if between != nil {
			between()
		}
		part, done, err := rc.fetch(id, chunk, cols)
		rows = append(rows, part...)
		if err != nil {
			if ne, ok := err.(net.Error); ok && ne.Timeout() {
				return rows, fmt.Sprintf("no answer to COM_STMT_FETCH within %v", limit)
			}
			return rows, hx.OneLine(err.Error())
		}
		if done || (len(part) == 0 && !first) {
			rc.closeStmt(id)
			return rows, ""
		}
		first = false
	}
}

// Regions of the two known findings of this stream, decided on the case:
//   cursor_pending_result_outlives_buffer       the statement runs through a server-side cursor, its result needs a
//                                               single callback, and other connections execute statements between
//                                               COM_STMT_EXECUTE and the last COM_STMT_FETCH
//   cursor_multibatch_cancelled_by_conn_watcher the statement runs through a server-side cursor and its result needs more
//                                               than one callback (> rowsBatch rows): the handler is still inside doQuery
//                                               (parked in the callback) when the client's COM_STMT_FETCH arrives; once
//                                               the statement is older than the connection watcher's start delay, the
//                                               watcher takes the FETCH for "client wrote while a query was executing"
//                                               and cancels the statement — the client gets no answer. Whether it
//                                               manifests is a matter of timing (always, when the client pauses for more
//                                               than ~60 ms before a FETCH). There is no Lean model of the watcher.
const regionCursorAlias = "cursor_pending_result_outlives_buffer"
const regionCursorWatcher = "cursor_multibatch_cancelled_by_conn_watcher"

func runCursor(en *env, out *hx.Out, r *hx.Rand, n int, nMulti int) {
	for i := 0; i < n+nMulti; i++ {
		k := r.Intn(nOwn)
		multi := i >= n
		var q string
		chunk := uint32(hx.Pick(r, []int{1, 10, 50, 128, 1000}))
		others := false
		pause := 0
		limit := 30 * time.Second
		if multi {
			q = fmt.Sprintf("select id, tag, n from own%d where id < %d order by id", k, hx.Pick(r, []int{129, 200, 256, 300}))
			chunk = uint32(hx.Pick(r, []int{10, 50}))
			pause = 150
			limit = 2 * time.Second
		} else {
			q = fmt.Sprintf("select id, tag, n from own%d where id < %d order by id", k, hx.Pick(r, []int{0, 1, 5, 40, 100, 127, 128}))
			if r.Chance(1, 6) {
				q = fmt.Sprintf("select count(*), max(tag) from own%d", k)
			}
			others = r.Chance(2, 3)
		}
		want, werr := inproc(en, q)
		nb := 0
		between := func() {
			if pause > 0 {
				time.Sleep(time.Duration(pause) * time.Millisecond)
			}
			if !others || nb >= 2 {
				return
			}
			nb++
			// let the handler goroutine of the cursor statement finish, then keep the other connections busy
			time.Sleep(5 * time.Millisecond)
			var wg sync.WaitGroup
			for j := 0; j < 8; j++ {
				wg.Add(1)
				go func(j int) {
					defer wg.Done()
					o := (k + 1 + j%(nOwn-1)) % nOwn
					for rep := 0; rep < 4; rep++ {
						wireQuery(en.db, fmt.Sprintf("select id, tag, n from own%d where id < %d order by id", o, 40+rep*50), false)
					}
				}(j)
			}
			wg.Wait()
		}
		got, gerr := cursorRun(en.port, q, chunk, limit, between)
		oth := 0
		if others {
			oth = 1
		}
		id := out.Case(fmt.Sprintf("(cursor %d %d %d %d %s)", len(want), chunk, oth, pause, hx.HexS(q)), "ran", len(want) > 0)
		out.Stat(fmt.Sprintf("cursor:multi=%v:others=%v", multi, others))
		region := "-"
		if multi {
			region = regionCursorWatcher
		} else if others {
			region = regionCursorAlias
		}
		how := fmt.Sprintf("server-side cursor (COM_STMT_EXECUTE with a read-only cursor, COM_STMT_FETCH %d rows at a time, other connections busy in between: %v, client pauses %d ms before each fetch)", chunk, others, pause)
		if gerr != werr {
			out.OracleFail(id, region, fmt.Sprintf("%s: outcome %q after %d of %d rows, in-process engine %q for %s", how, gerr, len(got), len(want), werr, q))
			continue
		}
		if len(got) != len(want) {
			out.OracleFail(id, region, fmt.Sprintf("%s: fetched %d rows, the engine has %d for %s", how, len(got), len(want), q))
			continue
		}
		for j := range got {
			if got[j] != want[j] {
				out.OracleFail(id, region, fmt.Sprintf("%s: row %d fetched %q, engine %q for %s", how, j, unhexRow(got[j]), unhexRow(want[j]), q))
				break
			}
		}
	}
}
