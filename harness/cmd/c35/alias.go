// C35 — stream "alias": the bytes handed to a connection's callback must still be that connection's rows when the
// callback reads them, whatever other connections execute in the meantime.
//
// The rows of the *sqltypes.Result that Handler.doQuery hands to the callback are slices into a pooled scratch buffer
// (sql.ByteBufPool). A case is a small tree of statements of different client connections: the root statement runs
// through the real Handler.ComQuery; when its callback number `at` has been entered — i.e. the rows are spooled and are
// about to be serialised onto the client's socket — the nested statements of OTHER connections execute (through the
// same real handler, on the same goroutine: the schedule in which the first connection's goroutine is descheduled at
// that moment), and only then the callback reads its rows, exactly as vitess would when writing the packets. Every
// connection only reads its own table whose payload is recognisable, and every row read inside a callback is compared
// with the in-process engine's result for that statement.
//
// The Lean memory model (Gms/Model/BufPool.lean) executes the same schedule (`compile`) and predicts `intact` for the
// buffer discipline of the source (regenerated facts: borrowed and returned by the function that makes the final
// callback).
package main

import (
	"context"
	"fmt"
	"strings"

	"github.com/dolthub/vitess/go/mysql"
	"github.com/dolthub/vitess/go/sqltypes"

	"github.com/dolthub/go-mysql-server/verifharness/hx"
	"github.com/dolthub/go-mysql-server/verifharness/hx/eng"
)

const nOwn = 8    // connections / own tables
const ownRows = 300

func ownTag(k, i int) string {
	return fmt.Sprintf("%s-%04d-%s", strings.Repeat(string(rune('a'+k)), 12), i, strings.Repeat(string(rune('A'+k)), 10))
}

func setupOwn(e *eng.Eng) {
	ctx := e.Ctx()
	for k := 0; k < nOwn; k++ {
		e.MustExec(ctx, fmt.Sprintf("create table own%d (id int primary key, tag varchar(64), n bigint)", k))
		for lo := 0; lo < ownRows; lo += 100 {
			var vals []string
			for i := lo; i < lo+100; i++ {
				vals = append(vals, fmt.Sprintf("(%d,'%s',%d)", i, ownTag(k, i), (k+1)*1000000+i))
			}
			e.MustExec(ctx, fmt.Sprintf("insert into own%d values %s", k, strings.Join(vals, ",")))
		}
	}
}

type aStmt struct {
	conn   int
	q      string
	want   []string // in-process rows
	werr   string   // in-process outcome class ("" = ok)
	cols   int
	nested []aNest
	// filled while running
	sizes   []int
	errStr  string
	bad     string // first difference
	ran     bool
	midStmt []string
}

type aNest struct {
	at int
	st *aStmt
}

func nCallbacks(n int) int {
	full := n / 128
	if n%128 != 0 || full == 0 {
		return full + 1
	}
	return full
}

// genStmt draws one statement for connection k. path selects the handler's result path.
func genAliasStmt(en *env, r *hx.Rand, k int, leaf bool) *aStmt {
	t := fmt.Sprintf("own%d", k)
	var q string
	cols := 3
	switch r.Intn(10) {
	case 0: // max-1-row fast path: primary key lookup
		q = fmt.Sprintf("select id, tag, n from %s where id = %d", t, r.Intn(ownRows))
	case 1: // max-1-row fast path: global aggregate
		q = fmt.Sprintf("select count(*), max(tag), min(n) from %s", t)
	case 2: // OK result (no row is converted)
		if leaf && r.Bool() {
			q = fmt.Sprintf("update %s set n = n where id < %d", t, r.Intn(4))
		} else {
			q = fmt.Sprintf("set @v%d = %d", k, r.Intn(100))
		}
		cols = 0
	case 3: // empty result
		q = fmt.Sprintf("select id, tag, n from %s where id < 0", t)
	case 4: // exactly k*128 rows: no final partial batch
		q = fmt.Sprintf("select id, tag, n from %s order by id limit %d", t, 128*(1+r.Intn(2)))
	case 5, 6: // a partial last batch after full ones
		q = fmt.Sprintf("select id, tag, n from %s where id < %d order by id", t, 129+r.Intn(ownRows-129))
	default: // less than one batch
		if r.Bool() {
			q = fmt.Sprintf("select id, tag, n from %s where id < %d order by id", t, 1+r.Intn(127))
		} else {
			q = fmt.Sprintf("select tag, n from %s order by id limit %d", t, 1+r.Intn(127))
			cols = 2
		}
	}
	st := &aStmt{conn: k, q: q, cols: cols}
	st.want, st.werr = inproc(en, q)
	return st
}

// genAliasTree: the root statement of connection 0 and, at some of its callbacks, statements of other connections
// (which may in turn have a nested statement at their own final callback).
func genAliasTree(en *env, r *hx.Rand) *aStmt {
	next := 1
	var build func(k, depth int) *aStmt
	build = func(k, depth int) *aStmt {
		st := genAliasStmt(en, r, k, depth >= 2)
		if st.werr != "" || depth >= 2 {
			return st
		}
		ncb := nCallbacks(len(st.want))
		nn := 1 + r.Intn(2)
		if depth == 1 {
			nn = r.Intn(2)
		}
		for i := 0; i < nn && next < nOwn; i++ {
			at := ncb - 1 // the final callback is where a returned-too-early buffer shows
			if r.Chance(1, 4) {
				at = r.Intn(ncb)
			}
			c := next
			next++
			st.nested = append(st.nested, aNest{at: at, st: build(c, depth+1)})
		}
		return st
	}
	return build(0, 0)
}

func (st *aStmt) sexp() string {
	var ns []string
	for _, n := range st.nested {
		ns = append(ns, fmt.Sprintf("(%d %s)", n.at, n.st.sexp()))
	}
	w := st.cols
	if w == 0 {
		w = 1
	}
	return fmt.Sprintf("(stmt %d %d %d %d %s (%s))", st.conn, (st.conn+1)*100000, len(st.want), w, hx.HexS(st.q), strings.Join(ns, " "))
}

func (st *aStmt) describe(indent string) string {
	s := fmt.Sprintf("%sconn %d: %s  [%d rows]", indent, st.conn, st.q, len(st.want))
	for _, n := range st.nested {
		s += fmt.Sprintf(" { at callback %d: %s }", n.at, n.st.describe(""))
	}
	return s
}

func renderRow(row []sqltypes.Value) string {
	cells := make([]string, len(row))
	for i, v := range row {
		if v.IsNull() {
			cells[i] = "null"
		} else {
			cells[i] = "x" + fmt.Sprintf("%x", v.ToString())
		}
	}
	return "(" + strings.Join(cells, " ") + ")"
}

func unhexRow(s string) string {
	s = strings.Trim(s, "()")
	var out []string
	for _, c := range strings.Fields(s) {
		if c == "null" {
			out = append(out, "NULL")
			continue
		}
		b := make([]byte, 0, len(c)/2)
		for i := 1; i+1 < len(c); i += 2 {
			var v byte
			fmt.Sscanf(c[i:i+2], "%02x", &v)
			b = append(b, v)
		}
		out = append(out, string(b))
	}
	return strings.Join(out, "|")
}

// aliasConns are the handler-level client connections of the alias stream (one session each).
type aliasConns struct {
	en    *env
	conns []*mysql.Conn
}

func newAliasConns(en *env) (*aliasConns, error) {
	ac := &aliasConns{en: en}
	for k := 0; k < nOwn; k++ {
		connCounter++
		c := &mysql.Conn{ConnectionID: connCounter, Conn: dummyConn{}}
		en.handler.NewConnection(c)
		if err := en.handler.ComInitDB(c, "d"); err != nil {
			return nil, err
		}
		ac.conns = append(ac.conns, c)
	}
	return ac, nil
}

func (ac *aliasConns) close() {
	for _, c := range ac.conns {
		ac.en.handler.ConnectionClosed(c)
	}
}

// exec runs st through the real Handler.ComQuery. Inside every callback the nested statements scheduled there run
// first; then the rows are read and compared with the engine's.
func (ac *aliasConns) exec(st *aStmt, executed *int) {
	st.ran = true
	*executed++
	cb := 0
	off := 0
	p := hx.Safe(func() {
		err := ac.en.handler.ComQuery(context.Background(), ac.conns[st.conn], st.q, func(res *sqltypes.Result, more bool) error {
			for _, n := range st.nested {
				if n.at == cb {
					ac.exec(n.st, executed)
				}
			}
			// this is the point where the server serialises the rows into packets for the client
			st.sizes = append(st.sizes, len(res.Rows))
			for i, row := range res.Rows {
				got := renderRow(row)
				if st.bad == "" {
					if off+i >= len(st.want) {
						st.bad = fmt.Sprintf("row %d: the engine has only %d rows, handed %q", off+i, len(st.want), unhexRow(got))
					} else if got != st.want[off+i] {
						st.bad = fmt.Sprintf("row %d: engine %q, handed to the client %q", off+i, unhexRow(st.want[off+i]), unhexRow(got))
					}
				}
			}
			off += len(res.Rows)
			cb++
			return nil
		})
		if err != nil {
			st.errStr = fmt.Sprintf("err:%d", eng.Errno(err))
		}
	})
	if p != "" {
		st.errStr = "crash:" + p
	}
	if st.errStr == "" && st.bad == "" && off != len(st.want) {
		st.bad = fmt.Sprintf("the client was handed %d rows, the engine has %d", off, len(st.want))
	}
}

func (st *aStmt) walk(f func(*aStmt)) {
	f(st)
	for _, n := range st.nested {
		n.st.walk(f)
	}
}

func runAlias(en *env, out *hx.Out, r *hx.Rand, n int) error {
	ac, err := newAliasConns(en)
	if err != nil {
		return err
	}
	defer ac.close()
	for i := 0; i < n; i++ {
		root := genAliasTree(en, r)
		executed := 0
		ac.exec(root, &executed)
		obs := root.errStr
		if obs == "" {
			obs = "sizes " + sizesStr(root.sizes)
		}
		state := "intact"
		var firstBad *aStmt
		root.walk(func(s *aStmt) {
			if s.ran && (s.bad != "" || s.errStr != s.werr) && firstBad == nil {
				firstBad = s
				state = "corrupt"
			}
		})
		obs += fmt.Sprintf(" ; ran %d ; %s", executed, state)
		id := out.Case(fmt.Sprintf("(alias %s)", root.sexp()), obs, len(root.nested) > 0 && len(root.want) > 0)
		out.Stat("alias")
		out.Stat(fmt.Sprintf("alias:nested=%d", executed-1))
		if firstBad != nil {
			what := firstBad.bad
			if what == "" {
				what = fmt.Sprintf("outcome %q, in-process %q", firstBad.errStr, firstBad.werr)
			}
			out.OracleFail(id, "-", fmt.Sprintf("connection %d was handed rows that are not the engine's rows for its statement %q — %s; schedule (statements of other connections run after the rows were spooled and before the callback consumed them): %s",
				firstBad.conn, firstBad.q, what, root.describe("")))
		}
	}
	return nil
}
