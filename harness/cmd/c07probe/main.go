// c07probe — scratch SQL probe for C07/C09 development: statements from stdin (one per line),
// one session; prints declared schema and returned rows (with Go types of the raw values).
package main

import (
	"bufio"
	"fmt"
	"os"
	"strings"

	"github.com/dolthub/go-mysql-server/verifharness/hx/eng"
)

func main() {
	e := eng.New("d")
	ctx := e.Ctx()
	sc := bufio.NewScanner(os.Stdin)
	sc.Buffer(make([]byte, 1<<20), 1<<20)
	for sc.Scan() {
		q := strings.TrimSpace(sc.Text())
		if q == "" || strings.HasPrefix(q, "--") {
			continue
		}
		r := e.Query(eng.SameSession(ctx), q)
		fmt.Printf("%s\n", q)
		if r.Class() != "ok" {
			fmt.Printf("   => %s panic=%q err=%v\n", r.Class(), r.Panic, r.Err)
			continue
		}
		var sch []string
		for i := range r.Cols {
			n := "NOT NULL"
			if r.Nullable[i] {
				n = "NULL"
			}
			sch = append(sch, fmt.Sprintf("%s %s %s", r.Cols[i], r.Types[i], n))
		}
		fmt.Printf("   schema: %s\n", strings.Join(sch, " | "))
		for i, row := range r.Rows {
			var cells []string
			for j, c := range row {
				cells = append(cells, fmt.Sprintf("%s:%T", c, r.Raw[i][j]))
			}
			fmt.Printf("   row: %s\n", strings.Join(cells, " | "))
		}
	}
}
