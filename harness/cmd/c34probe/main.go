// c34probe — ad-hoc SQL probe for C34/C33 (not part of any check).
package main

import (
	"bufio"
	"fmt"
	"os"

	"github.com/dolthub/go-mysql-server/verifharness/hx/eng"
)

func main() {
	e := eng.New("d")
	ctx := e.Ctx()
	qs := os.Args[1:]
	if len(qs) == 0 {
		sc := bufio.NewScanner(os.Stdin)
		for sc.Scan() {
			if sc.Text() != "" {
				qs = append(qs, sc.Text())
			}
		}
	}
	for _, q := range qs {
		r := e.Query(eng.SameSession(ctx), q)
		fmt.Printf("%-70s => %s %q %v %s\n", q, r.Class(), r.Rows, r.Err, r.Panic)
	}
}
