// C42 — Read-only modes block every write and nothing else.
package main

import (
	"fmt"
	"os"

	"github.com/dolthub/go-mysql-server/verifharness/hx"
)

func main() {
	if len(os.Args) > 2 && os.Args[1] == "kinds" {
		ix, err := buildIndex(os.Args[2])
		if err != nil {
			panic(err)
		}
		nodes, others := kindTable(ix)
		for _, e := range nodes {
			fmt.Printf("%-45s %s\n", e.kind, e.c.lean())
		}
		fmt.Println("others:", others)
		return
	}
	hx.Main(extract, run)
}
