// C42 — extractor: the per-node-kind IsReadOnly table and the shape of the three gates, re-read from the source text.
package main

import (
	"fmt"
	"go/ast"
	"go/parser"
	"go/printer"
	"go/token"
	"os"
	"path/filepath"
	"sort"
	"strings"

	"github.com/dolthub/go-mysql-server/verifharness/hx"
)

// ---------------------------------------------------------------------------------------------
// package index (go/ast)

type typeInfo struct {
	pkg, name string
	file      string
	isStruct  bool
	embeds    []string          // embedded type names (same package, "*" stripped; qualified ones keep their qualifier)
	embedName map[string]bool   // field names that are embedded structs (used to drop them from selector paths)
	fields    map[string]string // named field -> type text
	methods   map[string]*ast.FuncDecl
	fset      *token.FileSet
}

type index struct {
	types map[string]*typeInfo // key "pkg.Name"
}

func text(fset *token.FileSet, n ast.Node) string {
	var b strings.Builder
	printer.Fprint(&b, fset, n)
	return strings.Join(strings.Fields(b.String()), " ")
}

func buildIndex(repo string) (*index, error) {
	ix := &index{types: map[string]*typeInfo{}}
	skip := map[string]bool{".git": true, "_example": true, "_integration": true, "enginetest": true, "testdata": true, "_scripts": true}
	var dirs []string
	err := filepath.Walk(repo, func(p string, info os.FileInfo, err error) error {
		if err != nil {
			return err
		}
		if info.IsDir() {
			if skip[info.Name()] && p != repo {
				return filepath.SkipDir
			}
			dirs = append(dirs, p)
		}
		return nil
	})
	if err != nil {
		return nil, err
	}
	for _, d := range dirs {
		// only packages that declare an `IsReadOnly() bool` method can declare a node kind
		// (sql.Node requires the method); skipping the rest keeps the big generated tables unparsed
		ents, _ := os.ReadDir(d)
		has := false
		for _, en := range ents {
			if en.IsDir() || !strings.HasSuffix(en.Name(), ".go") || strings.HasSuffix(en.Name(), "_test.go") {
				continue
			}
			if b, err := os.ReadFile(filepath.Join(d, en.Name())); err == nil && strings.Contains(string(b), "IsReadOnly() bool") {
				has = true
				break
			}
		}
		if !has {
			continue
		}
		fset := token.NewFileSet()
		pkgs, err := parser.ParseDir(fset, d, func(fi os.FileInfo) bool {
			return !strings.HasSuffix(fi.Name(), "_test.go")
		}, 0)
		if err != nil {
			// the emptied sql/types file does not parse; every other parse error is fatal
			if !strings.Contains(err.Error(), "spatial_reference_systems.go") {
				return nil, err
			}
		}
		for pname, pkg := range pkgs {
			if strings.HasSuffix(pname, "_test") || pname == "main" {
				continue
			}
			for fname, f := range pkg.Files {
				rel, _ := filepath.Rel(repo, fname)
				for _, decl := range f.Decls {
					switch dd := decl.(type) {
					case *ast.GenDecl:
						for _, sp := range dd.Specs {
							ts, ok := sp.(*ast.TypeSpec)
							if !ok {
								continue
							}
							ti := ix.get(pname, ts.Name.Name)
							ti.file, ti.fset = rel, fset
							if st, ok := ts.Type.(*ast.StructType); ok {
								ti.isStruct = true
								for _, fl := range st.Fields.List {
									tt := text(fset, fl.Type)
									if len(fl.Names) == 0 {
										e := strings.TrimPrefix(tt, "*")
										ti.embeds = append(ti.embeds, e)
										short := e
										if i := strings.LastIndex(short, "."); i >= 0 {
											short = short[i+1:]
										}
										ti.embedName[short] = true
									} else {
										for _, n := range fl.Names {
											ti.fields[n.Name] = tt
										}
									}
								}
							}
						}
					case *ast.FuncDecl:
						if dd.Recv == nil || len(dd.Recv.List) != 1 {
							continue
						}
						rn := hx.RecvName(dd.Recv.List[0].Type)
						if rn == "" {
							continue
						}
						ti := ix.get(pname, rn)
						if ti.fset == nil {
							ti.fset = fset
						}
						ti.methods[dd.Name.Name] = dd
						if ti.file == "" {
							ti.file = rel
						}
						// remember the fset of the method for printing
						ti.methodFset(dd.Name.Name, fset)
					}
				}
			}
		}
	}
	return ix, nil
}

var methodFsets = map[*ast.FuncDecl]*token.FileSet{}

func (t *typeInfo) methodFset(name string, fs *token.FileSet) { methodFsets[t.methods[name]] = fs }

func (ix *index) get(pkg, name string) *typeInfo {
	k := pkg + "." + name
	if t, ok := ix.types[k]; ok {
		return t
	}
	t := &typeInfo{pkg: pkg, name: name, embedName: map[string]bool{}, fields: map[string]string{}, methods: map[string]*ast.FuncDecl{}}
	ix.types[k] = t
	return t
}

// findMethod resolves a method through the embedding chain (same package only). It returns the
// declaring type.
func (ix *index) findMethod(t *typeInfo, m string, depth int) (*typeInfo, *ast.FuncDecl) {
	if fd, ok := t.methods[m]; ok {
		return t, fd
	}
	if depth > 4 {
		return nil, nil
	}
	for _, e := range t.embeds {
		if strings.Contains(e, ".") {
			continue
		}
		et, ok := ix.types[t.pkg+"."+e]
		if !ok {
			continue
		}
		if dt, fd := ix.findMethod(et, m, depth+1); fd != nil {
			return dt, fd
		}
	}
	return nil, nil
}

// isNodeKind: the type has Children() []sql.Node (own or promoted) and IsReadOnly() bool.
func (ix *index) isNodeKind(t *typeInfo) bool {
	_, ch := ix.findMethod(t, "Children", 0)
	if ch == nil || ch.Type.Results == nil || len(ch.Type.Results.List) != 1 {
		return false
	}
	rt := text(methodFsets[ch], ch.Type.Results.List[0].Type)
	if rt != "[]sql.Node" && rt != "[]Node" {
		return false
	}
	_, ro := ix.findMethod(t, "IsReadOnly", 0)
	return ro != nil
}

// ---------------------------------------------------------------------------------------------
// classification of an IsReadOnly body

type cls struct {
	tag    string   // const | fields | optField | ifSet | attr | panics | embed | via | complex
	b      bool     // const / ifSet default
	fs     []string // fields / via: the inner fields
	f      string   // optField / ifSet / via: the field; embed: the declaring kind; attr: selector text
	k      string   // via: kind of the node in field f
	src    string
	line   int
	file   string
}

func (c cls) lean() string {
	q := hx.LeanString
	list := func(xs []string) string {
		p := make([]string, len(xs))
		for i, x := range xs {
			p[i] = q(x)
		}
		return "[" + strings.Join(p, ", ") + "]"
	}
	switch c.tag {
	case "const":
		return fmt.Sprintf(".const %v", c.b)
	case "fields":
		return ".fields " + list(c.fs)
	case "optField":
		return ".optField " + q(c.f)
	case "ifSet":
		return fmt.Sprintf(".ifSet %s %v", q(c.f), c.b)
	case "attr":
		return ".attr"
	case "panics":
		return ".panics"
	case "embed":
		return ".embed " + q(c.f)
	case "via":
		return fmt.Sprintf(".via %s %s %s", q(c.f), q(c.k), list(c.fs))
	}
	return ".complex " + q(c.src)
}

// selPath returns the selector path of `recv.a.b.c` without the receiver and without embedded
// struct names (resolved against the declaring types), or nil when e is not such a path.
func (ix *index) selPath(t *typeInfo, recv string, e ast.Expr) []string {
	var raw []string
	for {
		switch x := e.(type) {
		case *ast.SelectorExpr:
			raw = append([]string{x.Sel.Name}, raw...)
			e = x.X
			continue
		case *ast.Ident:
			if x.Name != recv {
				return nil
			}
		default:
			return nil
		}
		break
	}
	// drop embedded-struct hops, tracking the current static type where we can
	var out []string
	cur := t
	for _, name := range raw {
		if cur != nil && cur.embedName[name] {
			if nt, ok := ix.types[cur.pkg+"."+name]; ok {
				cur = nt
			}
			continue
		}
		out = append(out, name)
		if cur != nil {
			// follow the field's static type when it is a pointer to a type of the same package
			ft := ix.fieldType(cur, name)
			ft = strings.TrimPrefix(ft, "*")
			if nt, ok := ix.types[cur.pkg+"."+ft]; ok && ft != "" {
				cur = nt
			} else {
				cur = nil
			}
		}
	}
	return out
}

func (ix *index) fieldType(t *typeInfo, name string) string {
	if ft, ok := t.fields[name]; ok {
		return ft
	}
	for _, e := range t.embeds {
		if et, ok := ix.types[t.pkg+"."+e]; ok {
			if ft := ix.fieldType(et, name); ft != "" {
				return ft
			}
		}
	}
	return ""
}

// conjunct parses `recv.path.IsReadOnly()` and returns the path.
func (ix *index) roCall(t *typeInfo, recv string, e ast.Expr) []string {
	call, ok := e.(*ast.CallExpr)
	if !ok || len(call.Args) != 0 {
		return nil
	}
	sel, ok := call.Fun.(*ast.SelectorExpr)
	if !ok || sel.Sel.Name != "IsReadOnly" {
		return nil
	}
	return ix.selPath(t, recv, sel.X)
}

func (ix *index) conjPaths(t *typeInfo, recv string, e ast.Expr) [][]string {
	if be, ok := e.(*ast.BinaryExpr); ok && be.Op == token.LAND {
		l := ix.conjPaths(t, recv, be.X)
		r := ix.conjPaths(t, recv, be.Y)
		if l == nil || r == nil {
			return nil
		}
		return append(l, r...)
	}
	if p := ix.roCall(t, recv, e); len(p) > 0 {
		return [][]string{p}
	}
	return nil
}

func boolLit(e ast.Expr) (bool, bool) {
	id, ok := e.(*ast.Ident)
	if !ok {
		return false, false
	}
	switch id.Name {
	case "true":
		return true, true
	case "false":
		return false, true
	}
	return false, false
}

// rangeAllLoop recognises `for _, x := range recv.f { if !x.IsReadOnly() { return false } }`.
func (ix *index) rangeAllLoop(t *typeInfo, recv string, s ast.Stmt) []string {
	rs, ok := s.(*ast.RangeStmt)
	if !ok || rs.Value == nil || len(rs.Body.List) != 1 {
		return nil
	}
	v, ok := rs.Value.(*ast.Ident)
	if !ok {
		return nil
	}
	ifs, ok := rs.Body.List[0].(*ast.IfStmt)
	if !ok || ifs.Init != nil || ifs.Else != nil || len(ifs.Body.List) != 1 {
		return nil
	}
	un, ok := ifs.Cond.(*ast.UnaryExpr)
	if !ok || un.Op != token.NOT {
		return nil
	}
	call, ok := un.X.(*ast.CallExpr)
	if !ok {
		return nil
	}
	sel, ok := call.Fun.(*ast.SelectorExpr)
	if !ok || sel.Sel.Name != "IsReadOnly" {
		return nil
	}
	if id, ok := sel.X.(*ast.Ident); !ok || id.Name != v.Name {
		return nil
	}
	ret, ok := ifs.Body.List[0].(*ast.ReturnStmt)
	if !ok || len(ret.Results) != 1 {
		return nil
	}
	if b, ok := boolLit(ret.Results[0]); !ok || b {
		return nil
	}
	return ix.selPath(t, recv, rs.X)
}

func (ix *index) classify(t *typeInfo, fd *ast.FuncDecl) cls {
	fset := methodFsets[fd]
	c := cls{src: text(fset, fd.Body), line: fset.Position(fd.Pos()).Line, file: t.file}
	recv := ""
	if len(fd.Recv.List[0].Names) == 1 {
		recv = fd.Recv.List[0].Names[0].Name
	}
	stmts := fd.Body.List
	complex := func() cls { c.tag = "complex"; return c }
	if len(stmts) == 0 {
		return complex()
	}
	// panic(...)
	if es, ok := stmts[0].(*ast.ExprStmt); ok && len(stmts) == 1 {
		if call, ok := es.X.(*ast.CallExpr); ok {
			if id, ok := call.Fun.(*ast.Ident); ok && id.Name == "panic" {
				c.tag = "panics"
				return c
			}
		}
		return complex()
	}
	last, ok := stmts[len(stmts)-1].(*ast.ReturnStmt)
	if !ok || len(last.Results) != 1 {
		return complex()
	}
	// leading `for … range` all-loops
	var loopFields []string
	i := 0
	for ; i < len(stmts)-1; i++ {
		p := ix.rangeAllLoop(t, recv, stmts[i])
		if len(p) != 1 {
			break
		}
		loopFields = append(loopFields, p[0])
	}
	rest := stmts[i : len(stmts)-1]
	if len(rest) == 0 {
		if b, ok := boolLit(last.Results[0]); ok {
			if len(loopFields) == 0 {
				c.tag, c.b = "const", b
				return c
			}
			if !b {
				return complex()
			}
			c.tag, c.fs = "fields", loopFields
			return c
		}
		if paths := ix.conjPaths(t, recv, last.Results[0]); paths != nil {
			// all paths of length 1 → fields; all of the form [f, g] with the same f → via
			all1, all2 := true, true
			for _, p := range paths {
				if len(p) != 1 {
					all1 = false
				}
				if len(p) != 2 || p[0] != paths[0][0] {
					all2 = false
				}
			}
			switch {
			case all1:
				c.tag = "fields"
				c.fs = loopFields
				for _, p := range paths {
					c.fs = append(c.fs, p[0])
				}
				return c
			case all2 && len(loopFields) == 0:
				c.tag, c.f = "via", paths[0][0]
				ft := strings.TrimPrefix(ix.fieldType(t, c.f), "*")
				c.k = t.pkg + "." + ft
				for _, p := range paths {
					c.fs = append(c.fs, p[1])
				}
				return c
			}
			return complex()
		}
		// return recv.path (a boolean attribute)
		if len(loopFields) == 0 {
			if p := ix.selPath(t, recv, last.Results[0]); len(p) > 0 {
				c.tag, c.f = "attr", strings.Join(p, ".")
				return c
			}
		}
		return complex()
	}
	// `if recv.f == nil { return true } return recv.f.IsReadOnly()`  /  `if recv.f != nil { return recv.f.IsReadOnly() } return <const>`
	if len(rest) == 1 && len(loopFields) == 0 {
		ifs, ok := rest[0].(*ast.IfStmt)
		if !ok || ifs.Init != nil || ifs.Else != nil || len(ifs.Body.List) != 1 {
			return complex()
		}
		be, ok := ifs.Cond.(*ast.BinaryExpr)
		if !ok {
			return complex()
		}
		if id, ok := be.Y.(*ast.Ident); !ok || id.Name != "nil" {
			return complex()
		}
		fp := ix.selPath(t, recv, be.X)
		ret, ok := ifs.Body.List[0].(*ast.ReturnStmt)
		if len(fp) != 1 || !ok || len(ret.Results) != 1 {
			return complex()
		}
		switch be.Op {
		case token.EQL:
			b, ok := boolLit(ret.Results[0])
			p := ix.roCall(t, recv, last.Results[0])
			if ok && b && len(p) == 1 && p[0] == fp[0] {
				c.tag, c.f = "optField", fp[0]
				return c
			}
		case token.NEQ:
			p := ix.roCall(t, recv, ret.Results[0])
			b, ok := boolLit(last.Results[0])
			if ok && len(p) == 1 && p[0] == fp[0] {
				c.tag, c.f, c.b = "ifSet", fp[0], b
				return c
			}
		}
	}
	return complex()
}

// ---------------------------------------------------------------------------------------------
// kind table

type kindEntry struct {
	kind string
	c    cls
}

func kindTable(ix *index) (nodes []kindEntry, others []string) {
	var keys []string
	for k := range ix.types {
		keys = append(keys, k)
	}
	sort.Strings(keys)
	for _, k := range keys {
		t := ix.types[k]
		dt, fd := ix.findMethod(t, "IsReadOnly", 0)
		if fd == nil || fd.Type.Results == nil || len(fd.Type.Results.List) != 1 || text(methodFsets[fd], fd.Type.Results.List[0].Type) != "bool" || len(fd.Type.Params.List) != 0 {
			continue
		}
		if !ix.isNodeKind(t) {
			if dt == t {
				others = append(others, k)
			}
			continue
		}
		if dt != t {
			nodes = append(nodes, kindEntry{k, cls{tag: "embed", f: dt.pkg + "." + dt.name, file: t.file}})
			continue
		}
		nodes = append(nodes, kindEntry{k, ix.classify(t, fd)})
	}
	return
}

// ---------------------------------------------------------------------------------------------
// gates

// typeSwitchArms returns, for the first type switch inside fn whose scrutinee is the identifier
// `on`, the list of arms: each arm is the list of case types ("plan.X"); default is ["default"].
type arm struct {
	types []string
	body  *ast.CaseClause
}

func caseTypes(src *hx.Src, pkg string, cc *ast.CaseClause) []string {
	if cc.List == nil {
		return []string{"default"}
	}
	var out []string
	for _, e := range cc.List {
		s := strings.TrimPrefix(src.Text(e), "*")
		if !strings.Contains(s, ".") {
			s = pkg + "." + s
		}
		out = append(out, s)
	}
	return out
}

func findTypeSwitches(body ast.Node) []*ast.TypeSwitchStmt {
	var out []*ast.TypeSwitchStmt
	ast.Inspect(body, func(n ast.Node) bool {
		if ts, ok := n.(*ast.TypeSwitchStmt); ok {
			out = append(out, ts)
		}
		return true
	})
	return out
}

func switchScrutinee(src *hx.Src, ts *ast.TypeSwitchStmt) string {
	var e ast.Expr
	switch a := ts.Assign.(type) {
	case *ast.AssignStmt:
		e = a.Rhs[0]
	case *ast.ExprStmt:
		e = a.X
	}
	if ta, ok := e.(*ast.TypeAssertExpr); ok {
		return src.Text(ta.X)
	}
	return "?"
}

func leanStrList(xs []string) string {
	p := make([]string, len(xs))
	for i, x := range xs {
		p[i] = hx.LeanString(x)
	}
	return "[" + strings.Join(p, ", ") + "]"
}

func extract(a hx.ExtractArgs) error {
	ix, err := buildIndex(a.Repo)
	if err != nil {
		return err
	}
	nodes, others := kindTable(ix)
	if len(nodes) < 100 {
		return fmt.Errorf("only %d node kinds with IsReadOnly found: the source layout changed", len(nodes))
	}
	lf := hx.NewLeanFile("Gms.Generated.C42", "sql/plan/*.go (+ every other package declaring a sql.Node)", "sql/plan/process.go", "engine.go", "sql/analyzer/validation_rules.go")
	// the import must precede the namespace: rebuild the header
	var b strings.Builder
	b.WriteString("open Gms.ReadOnly\n\n")
	b.WriteString("/-- node kind ↦ how its `IsReadOnly()` body computes the result (go/ast classification) -/\n")
	b.WriteString("def kinds : List (String × Cls) := [\n")
	for i, e := range nodes {
		sep := ","
		if i == len(nodes)-1 {
			sep = ""
		}
		fmt.Fprintf(&b, "  (%s, %s)%s  -- %s:%d\n", hx.LeanString(e.kind), e.c.lean(), sep, e.c.file, e.c.line)
	}
	b.WriteString("]\n\n")
	fmt.Fprintf(&b, "/-- types with an `IsReadOnly() bool` method that are not plan nodes (no `Children() []sql.Node`) -/\ndef otherIsReadOnly : List String := %s\n\n", leanStrList(others))

	// registry completeness: the harness's list of constructible kinds vs. the source
	reg := map[string]bool{}
	for _, k := range registryKinds() {
		reg[k] = true
	}
	var missing, extra []string
	src := map[string]bool{}
	for _, e := range nodes {
		src[e.kind] = true
		t := ix.types[e.kind]
		if !reg[e.kind] && ast.IsExported(t.name) {
			missing = append(missing, e.kind)
		}
	}
	for k := range reg {
		if !src[k] {
			extra = append(extra, k)
		}
	}
	sort.Strings(extra)
	fmt.Fprintf(&b, "/-- exported node kinds of the source the harness registry cannot construct / registry kinds that vanished -/\ndef registryMissing : List String := %s\ndef registryVanished : List String := %s\n\n", leanStrList(missing), leanStrList(extra))

	// plan.IsReadOnly(node) = node.IsReadOnly()
	ps, err := hx.ParseSrc(a.Repo, "sql/plan/process.go")
	if err != nil {
		return err
	}
	fd, err := ps.Func("", "IsReadOnly")
	if err != nil {
		return err
	}
	fmt.Fprintf(&b, "def planIsReadOnlyBody : String := %s\n", hx.LeanString(text(ps.Fset, fd.Body)))
	// IsDDLNode
	fd, err = ps.Func("", "IsDDLNode")
	if err != nil {
		return err
	}
	tss := findTypeSwitches(fd.Body)
	if len(tss) != 1 {
		return fmt.Errorf("IsDDLNode: expected one type switch")
	}
	var ddl []string
	ddlShape := true
	for _, st := range tss[0].Body.List {
		cc := st.(*ast.CaseClause)
		ret, ok := cc.Body[0].(*ast.ReturnStmt)
		if len(cc.Body) != 1 || !ok {
			ddlShape = false
			continue
		}
		bv, ok := boolLit(ret.Results[0])
		if !ok || (cc.List == nil) == bv {
			ddlShape = false
		}
		if cc.List != nil {
			ddl = append(ddl, caseTypes(ps, "plan", cc)...)
		}
	}
	if !ddlShape {
		return fmt.Errorf("IsDDLNode: unexpected shape")
	}
	fmt.Fprintf(&b, "def ddlKinds : List String := %s\n\n", leanStrList(ddl))

	// engine.readOnlyCheck: sequence of `if e.<cond> && !plan.IsReadOnly(node) { return sql.<Err>.New() }`
	es, err := hx.ParseSrc(a.Repo, "engine.go")
	if err != nil {
		return err
	}
	fd, err = es.Func("Engine", "readOnlyCheck")
	if err != nil {
		return err
	}
	var gate []string
	for _, st := range fd.Body.List {
		switch s := st.(type) {
		case *ast.IfStmt:
			be, ok := s.Cond.(*ast.BinaryExpr)
			if !ok || be.Op != token.LAND || text(es.Fset, be.Y) != "!plan.IsReadOnly(node)" || len(s.Body.List) != 1 || s.Else != nil {
				return fmt.Errorf("readOnlyCheck: unexpected if: %s", text(es.Fset, s))
			}
			ret, ok := s.Body.List[0].(*ast.ReturnStmt)
			if !ok {
				return fmt.Errorf("readOnlyCheck: unexpected body")
			}
			gate = append(gate, text(es.Fset, be.X)+" => "+text(es.Fset, ret.Results[0]))
		case *ast.ReturnStmt:
			gate = append(gate, "return "+text(es.Fset, s.Results[0]))
		default:
			return fmt.Errorf("readOnlyCheck: unexpected statement %s", text(es.Fset, st))
		}
	}
	fmt.Fprintf(&b, "def engineGate : List String := %s\n", leanStrList(gate))
	// call sites of readOnlyCheck: every one must be followed (not preceded) by the ExecBuilder.Build call
	for _, fn := range []string{"QueryWithBindings", "PrepQueryPlanForExecution"} {
		f, err := es.Func("Engine", fn)
		if err != nil {
			return err
		}
		posCheck, posBuild := -1, -1
		for i, st := range f.Body.List {
			s := text(es.Fset, st)
			if strings.Contains(s, "e.readOnlyCheck(") && posCheck < 0 {
				posCheck = i
			}
			if strings.Contains(s, "ExecBuilder.Build(") && posBuild < 0 {
				posBuild = i
			}
		}
		fmt.Fprintf(&b, "def gateBeforeBuild_%s : Bool := %v\n", fn, posCheck >= 0 && posBuild > posCheck)
	}
	b.WriteString("\n")

	// the two analyzer rules
	vs, err := hx.ParseSrc(a.Repo, "sql/analyzer/validation_rules.go")
	if err != nil {
		return err
	}
	for _, rule := range []string{"validateReadOnlyTransaction", "validateReadOnlyDatabase"} {
		fd, err := vs.Func("", rule)
		if err != nil {
			return err
		}
		rootParam := fd.Type.Params.List[2].Names[0].Name
		var main *ast.TypeSwitchStmt
		for _, ts := range findTypeSwitches(fd.Body) {
			if len(ts.Body.List) >= 3 {
				main = ts
			}
		}
		if main == nil {
			return fmt.Errorf("%s: kind switch not found", rule)
		}
		on := switchScrutinee(vs, main)
		what := "visited"
		if on == rootParam {
			what = "root"
		}
		short := "Tx"
		if rule == "validateReadOnlyDatabase" {
			short = "Db"
		}
		fmt.Fprintf(&b, "/-- %s: the kind switch inside the traversal callback scrutinises the %s node (`%s`) -/\ndef ro%sSwitchOn : String := %s\n", rule, what, on, short, hx.LeanString(what))
		fmt.Fprintf(&b, "def ro%sArms : List (List String × String) := [\n", short)
		for i, st := range main.Body.List {
			cc := st.(*ast.CaseClause)
			var acts []string
			for _, s := range cc.Body {
				acts = append(acts, armAction(vs, s))
			}
			sep := ","
			if i == len(main.Body.List)-1 {
				sep = ""
			}
			fmt.Fprintf(&b, "  (%s, %s)%s\n", leanStrList(caseTypes(vs, "plan", cc)), hx.LeanString(strings.Join(acts, "; ")), sep)
		}
		b.WriteString("]\n")
	}
	// temporaryTableSearch / isTempTable / readOnlyDBSearch bodies (normalised text: the model transliterates them)
	for _, rule := range []string{"validateReadOnlyTransaction", "validateReadOnlyDatabase"} {
		fd, _ := vs.Func("", rule)
		ast.Inspect(fd.Body, func(n ast.Node) bool {
			as, ok := n.(*ast.AssignStmt)
			if !ok || len(as.Lhs) != 1 || len(as.Rhs) != 1 {
				return true
			}
			id, ok := as.Lhs[0].(*ast.Ident)
			fl, ok2 := as.Rhs[0].(*ast.FuncLit)
			if ok && ok2 && (id.Name == "isTempTable" || id.Name == "temporaryTableSearch" || id.Name == "readOnlyDBSearch") {
				fmt.Fprintf(&b, "def body_%s : String := %s\n", id.Name, hx.LeanString(text(vs.Fset, fl.Body)))
			}
			return true
		})
	}
	// the early exits of validateReadOnlyTransaction
	fd, _ = vs.Func("", "validateReadOnlyTransaction")
	var early []string
	for _, st := range fd.Body.List {
		if ifs, ok := st.(*ast.IfStmt); ok {
			early = append(early, text(vs.Fset, ifs.Cond))
		}
	}
	fmt.Fprintf(&b, "def roTxGuards : List String := %s\n", leanStrList(early))

	// write: the Lean header needs an import before the namespace
	lf.Raw(b.String())
	if err := lf.Write(a.Out); err != nil {
		return err
	}
	raw, err := os.ReadFile(a.Out)
	if err != nil {
		return err
	}
	s := string(raw)
	i := strings.Index(s, "namespace Gms.Generated.C42")
	s = s[:i] + "import Gms.Model.ReadOnly\n" + s[i:]
	return os.WriteFile(a.Out, []byte(s), 0o644)
}

// armAction summarises one statement of a switch arm as a small normalised action string.
func armAction(src *hx.Src, s ast.Stmt) string {
	t := strings.Join(strings.Fields(src.Text(s)), " ")
	switch {
	case strings.HasPrefix(t, "transform.InspectWithOpaque(ctx, node, "):
		return "search node " + strings.TrimSuffix(strings.TrimPrefix(t, "transform.InspectWithOpaque(ctx, node, "), ")")
	case strings.HasPrefix(t, "transform.InspectWithOpaque(ctx, n.Destination, "):
		return "search n.Destination " + strings.TrimSuffix(strings.TrimPrefix(t, "transform.InspectWithOpaque(ctx, n.Destination, "), ")")
	case strings.HasPrefix(t, "transform.InspectWithOpaque(ctx, n, "):
		return "search n " + strings.TrimSuffix(strings.TrimPrefix(t, "transform.InspectWithOpaque(ctx, n, "), ")")
	}
	return t
}
