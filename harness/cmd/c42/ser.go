// C42 — reflection helpers: serialise a real plan tree for the Lean model, build synthetic trees out of real plan nodes.
package main

import (
	"fmt"
	"reflect"
	"regexp"
	"sort"
	"strings"
	"unsafe"

	"github.com/dolthub/go-mysql-server/memory"
	"github.com/dolthub/go-mysql-server/sql"
	"github.com/dolthub/go-mysql-server/sql/plan"
	"github.com/dolthub/go-mysql-server/verifharness/hx"
)

var nodeIface = reflect.TypeOf((*sql.Node)(nil)).Elem()

func kindOf(n sql.Node) string {
	return strings.TrimPrefix(reflect.TypeOf(n).String(), "*")
}

// access returns a settable/readable view of a (possibly unexported) struct field.
func access(f reflect.Value) reflect.Value {
	if f.CanAddr() {
		return reflect.NewAt(f.Type(), unsafe.Pointer(f.UnsafeAddr())).Elem()
	}
	return f
}

func addressable(n sql.Node) reflect.Value {
	v := reflect.ValueOf(n)
	if v.Kind() == reflect.Ptr {
		return v.Elem()
	}
	p := reflect.New(v.Type())
	p.Elem().Set(v)
	return p.Elem()
}

type nodeField struct {
	name  string
	val   reflect.Value // the field (accessible)
	slice bool
}

func isNodeType(t reflect.Type) bool {
	if t.Kind() == reflect.Interface {
		return t == nodeIface || t.Implements(nodeIface)
	}
	if t.Kind() == reflect.Ptr || t.Kind() == reflect.Struct || t.Kind() == reflect.Slice {
		return t.Implements(nodeIface)
	}
	return false
}

// nodeFields lists the node-valued fields of a struct value in declaration order, flattening
// embedded structs (and embedded pointers to structs; alloc allocates nil ones).
func nodeFields(v reflect.Value, alloc bool) []nodeField {
	var out []nodeField
	if v.Kind() != reflect.Struct {
		return nil
	}
	t := v.Type()
	for i := 0; i < t.NumField(); i++ {
		sf := t.Field(i)
		fv := access(v.Field(i))
		if sf.Anonymous {
			switch {
			case sf.Type.Kind() == reflect.Struct:
				out = append(out, nodeFields(fv, alloc)...)
				continue
			case sf.Type.Kind() == reflect.Ptr && sf.Type.Elem().Kind() == reflect.Struct:
				if fv.IsNil() {
					if !alloc {
						continue
					}
					fv.Set(reflect.New(sf.Type.Elem()))
				}
				out = append(out, nodeFields(fv.Elem(), alloc)...)
				continue
			}
		}
		switch {
		case sf.Type.Kind() == reflect.Slice && sf.Type != reflect.TypeOf(plan.ShowWarnings{}) && isNodeType(sf.Type.Elem()):
			out = append(out, nodeField{sf.Name, fv, true})
		case sf.Type.Kind() != reflect.Slice && sf.Type.Kind() != reflect.Struct && isNodeType(sf.Type):
			out = append(out, nodeField{sf.Name, fv, false})
		}
	}
	return out
}

func isNilValue(v reflect.Value) bool {
	switch v.Kind() {
	case reflect.Interface, reflect.Ptr, reflect.Slice, reflect.Map:
		return v.IsNil()
	}
	return false
}

func sameNode(a, b sql.Node) (same bool) {
	defer func() {
		if recover() != nil {
			same = false
		}
	}()
	if a == nil || b == nil {
		return false
	}
	va, vb := reflect.ValueOf(a), reflect.ValueOf(b)
	if va.Kind() == reflect.Ptr && vb.Kind() == reflect.Ptr {
		return va.Pointer() == vb.Pointer() && va.Type() == vb.Type()
	}
	return a == b
}

var writeWord = regexp.MustCompile(`(?i)\b(insert|update|delete|replace|truncate|create|drop|alter|rename|grant|revoke|load|call)\b`)

// attrOf computes the five attribute bits the model looks at (see Gms.ReadOnly.Attr).
func attrOf(n sql.Node) string {
	var flag, tempIface, temp, roIface, roDb bool
	dbBits := func(db sql.Database) {
		if ro, ok := db.(sql.ReadOnlyDatabase); ok {
			roIface = true
			roDb = ro.IsReadOnly()
		}
	}
	// any node that names its database (sql.Databaser): is that database read-only?
	if d, ok := n.(sql.Databaser); ok {
		hx.Safe(func() {
			if db := d.Database(); db != nil {
				dbBits(db)
			}
		})
	}
	switch x := n.(type) {
	case *plan.ExternalProcedure:
		flag = x.ReadOnly
	case *plan.Procedure:
		// the body (interpreter operations) is not part of the tree: "contains no writing statement"
		body := x.CreateProcedureString
		if i := strings.Index(strings.ToLower(body), ")"); i >= 0 {
			body = body[i:]
		}
		flag = !writeWord.MatchString(body)
	case *plan.CreateTable:
		flag = x.Temporary()
		dbBits(x.Database())
	case *plan.ResolvedTable:
		if tt, ok := x.Table.(sql.TemporaryTable); ok {
			tempIface = true
			temp = tt.IsTemporary()
		}
		dbBits(x.SqlDatabase)
	}
	b := func(x bool) string {
		if x {
			return "1"
		}
		return "0"
	}
	return b(flag) + b(tempIface) + b(temp) + b(roIface) + b(roDb)
}

func safeChildren(n sql.Node) (cs []sql.Node, ok bool) {
	defer func() {
		if recover() != nil {
			cs, ok = nil, false
		}
	}()
	return n.Children(), true
}

// serFlags records, for the last serialisation, features the model does not describe: a node whose
// Children() panics (zero-valued placeholder kinds), and a typed nil pointer stored in a field of
// concrete pointer type (it behaves like a node for the traversals, unlike an untyped nil).
var serChildrenPanic, serTypedNil bool

func containsNode(kids []sql.Node, x sql.Node) bool {
	for _, k := range kids {
		if sameNode(k, x) {
			return true
		}
	}
	return false
}

// ser renders the tree rooted at n: (n <field> <kind> <ischild> <attr> child*).
//
// isChild of a field node: it is an element of the parent's Children(); or ("transparent") it is not,
// but all of its own children are (RecursiveCte.union: Children() returns the union's operands), so a
// Children()-traversal reaches exactly the same nodes through it.
func ser(field string, n sql.Node, isChild bool, depth int) string {
	c := "0"
	if isChild {
		c = "1"
	}
	if n == nil || isNilValue(reflect.ValueOf(n)) || depth > 40 {
		return "(n " + hx.HexS(field) + " " + hx.HexS("<nil>") + " " + c + " 00000)"
	}
	type part struct {
		idx int
		s   string
	}
	var parts []part
	kids, okc := safeChildren(n)
	if !okc {
		serChildrenPanic = true
	}
	used := make([]bool, len(kids))
	// index of x in Children() (first unused match); nil matches a nil entry
	indexOf := func(x sql.Node) int {
		for i, k := range kids {
			if used[i] {
				continue
			}
			if sameNode(k, x) || (x == nil && (k == nil || isNilValue(reflect.ValueOf(k)))) {
				return i
			}
		}
		return -1
	}
	seq := 0
	for _, f := range nodeFields(addressable(n), false) {
		emit := func(v reflect.Value) {
			var child sql.Node
			if !isNilValue(v) {
				child, _ = v.Interface().(sql.Node)
			} else if v.Kind() != reflect.Interface {
				serTypedNil = true
			}
			idx := indexOf(child)
			if idx >= 0 {
				used[idx] = true
			} else if child != nil {
				// transparent: all of the node's own children are children of n
				if gk, ok := safeChildren(child); ok && len(gk) > 0 {
					first, all := -1, true
					for _, g := range gk {
						j := indexOf(g)
						if j < 0 {
							all = false
							break
						}
						if first < 0 {
							first = j
						}
					}
					if all {
						idx = first
						for _, g := range gk {
							if j := indexOf(g); j >= 0 {
								used[j] = true
							}
						}
					}
				}
			}
			seq++
			order := len(kids) + seq
			if idx >= 0 {
				order = idx
			}
			parts = append(parts, part{order, ser(f.name, child, idx >= 0, depth+1)})
		}
		if f.slice {
			for i := 0; i < f.val.Len(); i++ {
				emit(access(f.val.Index(i)))
			}
		} else {
			emit(f.val)
		}
	}
	// children in Children() order (the traversals of the rules follow it), other field nodes after
	sort.SliceStable(parts, func(i, j int) bool { return parts[i].idx < parts[j].idx })
	s := "(n " + hx.HexS(field) + " " + hx.HexS(kindOf(n)) + " " + c + " " + attrOf(n)
	for _, p := range parts {
		s += " " + p.s
	}
	return s + ")"
}

// ---------------------------------------------------------------------------------------------
// synthetic trees

type fieldSpec struct {
	name  string
	slice bool
	typ   reflect.Type // static type of the field / slice element
}

type kindSpec struct {
	kind   string
	typ    reflect.Type // struct type
	fields []fieldSpec
}

func kindSpecs() map[string]*kindSpec {
	out := map[string]*kindSpec{}
	for k, zero := range registry() {
		t := reflect.TypeOf(zero).Elem()
		ks := &kindSpec{kind: k, typ: t}
		if t.Kind() == reflect.Struct {
			v := reflect.New(t).Elem()
			for _, f := range nodeFields(v, true) {
				ft := f.val.Type()
				if f.slice {
					ft = ft.Elem()
				}
				ks.fields = append(ks.fields, fieldSpec{f.name, f.slice, ft})
			}
		}
		out[k] = ks
	}
	return out
}

type tnode struct {
	kind string
	// attribute choices (only meaningful for some kinds)
	flag     bool
	tblClass int // ResolvedTable: 0 plain memory table, 1 TemporaryTable{false}, 2 TemporaryTable{true}
	dbClass  int // ResolvedTable / CreateTable: 0 plain, 1 ReadOnlyDatabase{true}, 2 ReadOnlyDatabase{false}
	kids     map[string][]*tnode // nil entry in the slice = nil node
}

type tempTable struct {
	*memory.Table
	temp bool
}

func (t tempTable) IsTemporary() bool { return t.temp }

type roFalseDb struct{ *memory.Database }

func (roFalseDb) IsReadOnly() bool { return false }

type world struct {
	tables [3]sql.Table
	dbs    [3]sql.Database
}

func setField(v reflect.Value, path string, val reflect.Value) bool {
	cur := v
	for _, p := range strings.Split(path, ".") {
		if cur.Kind() == reflect.Ptr {
			if cur.IsNil() {
				cur.Set(reflect.New(cur.Type().Elem()))
			}
			cur = cur.Elem()
		}
		f := cur.FieldByName(p)
		if !f.IsValid() {
			return false
		}
		cur = access(f)
	}
	if !val.Type().AssignableTo(cur.Type()) {
		return false
	}
	cur.Set(val)
	return true
}

// build constructs the real node tree. It returns an error when a child cannot be stored in
// the field's static type (generator bug).
func build(specs map[string]*kindSpec, w *world, t *tnode) (sql.Node, error) {
	ks, ok := specs[t.kind]
	if !ok {
		return nil, fmt.Errorf("unknown kind %s", t.kind)
	}
	pv := reflect.New(ks.typ)
	if ks.typ.Kind() == reflect.Struct {
		fields := nodeFields(pv.Elem(), true)
		for _, f := range fields {
			kids, ok := t.kids[f.name]
			if !ok {
				continue
			}
			if f.slice {
				sl := reflect.MakeSlice(f.val.Type(), 0, len(kids))
				for _, k := range kids {
					ev := reflect.New(f.val.Type().Elem()).Elem()
					if k != nil {
						child, err := build(specs, w, k)
						if err != nil {
							return nil, err
						}
						cv := reflect.ValueOf(child)
						if !cv.Type().AssignableTo(ev.Type()) {
							return nil, fmt.Errorf("%s.%s: cannot hold %s", t.kind, f.name, k.kind)
						}
						ev.Set(cv)
					}
					sl = reflect.Append(sl, ev)
				}
				f.val.Set(sl)
			} else if len(kids) == 1 && kids[0] != nil {
				child, err := build(specs, w, kids[0])
				if err != nil {
					return nil, err
				}
				cv := reflect.ValueOf(child)
				if !cv.Type().AssignableTo(f.val.Type()) {
					return nil, fmt.Errorf("%s.%s: cannot hold %s", t.kind, f.name, kids[0].kind)
				}
				f.val.Set(cv)
			}
		}
		switch t.kind {
		case "plan.ExternalProcedure":
			if !setField(pv.Elem(), "ExternalStoredProcedureDetails.ReadOnly", reflect.ValueOf(t.flag)) {
				return nil, fmt.Errorf("ExternalProcedure.ReadOnly not settable")
			}
		case "plan.CreateTable":
			if !setField(pv.Elem(), "temporary", reflect.ValueOf(t.flag)) || !setField(pv.Elem(), "Db", reflect.ValueOf(&w.dbs[t.dbClass]).Elem()) {
				return nil, fmt.Errorf("CreateTable attributes not settable")
			}
		default:
			// every other kind that embeds ddlNode names its database too
			if t.dbClass != 0 {
				setField(pv.Elem(), "Db", reflect.ValueOf(&w.dbs[t.dbClass]).Elem())
			}
		case "plan.ResolvedTable":
			if !setField(pv.Elem(), "Table", reflect.ValueOf(&w.tables[t.tblClass]).Elem()) || !setField(pv.Elem(), "SqlDatabase", reflect.ValueOf(&w.dbs[t.dbClass]).Elem()) {
				return nil, fmt.Errorf("ResolvedTable attributes not settable")
			}
		}
	}
	n, ok := pv.Interface().(sql.Node)
	if !ok {
		return nil, fmt.Errorf("%s is not a node", t.kind)
	}
	return n, nil
}
