// C42 — run: real IsReadOnly / readOnlyCheck / validation rules on synthetic plan trees and on a SQL catalogue under each read-only mode.
package main

import (
	"fmt"
	"reflect"
	"regexp"
	"sort"
	"strings"
	"time"

	sqle "github.com/dolthub/go-mysql-server"
	"github.com/dolthub/go-mysql-server/memory"
	"github.com/dolthub/go-mysql-server/sql"
	"github.com/dolthub/go-mysql-server/sql/analyzer"
	"github.com/dolthub/go-mysql-server/sql/analyzer/analyzererrors"
	"github.com/dolthub/go-mysql-server/sql/mysql_db"
	"github.com/dolthub/go-mysql-server/sql/plan"
	"github.com/dolthub/go-mysql-server/sql/types"
	"github.com/dolthub/go-mysql-server/verifharness/hx"
	"github.com/dolthub/go-mysql-server/verifharness/hx/eng"
)

// ---------------------------------------------------------------------------------------------
// engines

func newEng() *eng.Eng {
	d := memory.NewDatabase("d")
	rod := memory.NewReadOnlyDatabase("rod")
	pro := memory.NewDBProvider(d, rod)
	e := &eng.Eng{E: sqle.NewDefault(pro), Pro: pro, DBs: []*memory.Database{d}}
	e.E.Analyzer.Catalog.MySQLDb.SetPersister(&mysql_db.NoopPersister{})
	e.E.Analyzer.Catalog.MySQLDb.AddRootAccount()
	ctx := e.Ctx()
	e.MustExec(ctx,
		"CREATE TABLE t (a INT PRIMARY KEY, b INT)",
		"INSERT INTO t VALUES (1,10),(2,20)",
		"CREATE TABLE u (a INT PRIMARY KEY, b INT)",
		"INSERT INTO u VALUES (1,100)",
		"CREATE VIEW v AS SELECT a FROM t",
		"CREATE PROCEDURE pr() SELECT 1",
		"CREATE PROCEDURE pw() INSERT INTO t VALUES (77,77)",
		"CREATE TABLE par (a INT PRIMARY KEY)",
		"INSERT INTO par VALUES (1),(2),(3)",
		"CREATE TABLE chi (a INT PRIMARY KEY, p INT, FOREIGN KEY (p) REFERENCES par(a))",
		"INSERT INTO chi VALUES (1,1)",
		"CREATE TABLE trg (a INT PRIMARY KEY)",
		"CREATE TABLE lg (a INT)",
		"CREATE TRIGGER tr1 BEFORE INSERT ON trg FOR EACH ROW INSERT INTO lg VALUES (NEW.a)",
		"CREATE USER tester@localhost",
		// tables that carry triggers (the analyzed root of DML on them is a TriggerExecutor / the DML
		// node wraps one): ta = AFTER triggers whose body writes nothing, tb = BEFORE triggers that only
		// touch NEW / a user variable, tw = AFTER triggers that write to another table, tc = two chained
		// AFTER INSERT triggers with harmless bodies, tm = harmless BEFORE + harmless AFTER
		"CREATE TABLE ta (a INT PRIMARY KEY, b INT)",
		"INSERT INTO ta VALUES (1,10),(2,20),(3,30)",
		"CREATE TRIGGER ta_ai AFTER INSERT ON ta FOR EACH ROW SET @last = NEW.a",
		"CREATE TRIGGER ta_au AFTER UPDATE ON ta FOR EACH ROW SET @last = OLD.a + NEW.b",
		"CREATE TRIGGER ta_ad AFTER DELETE ON ta FOR EACH ROW SET @last = OLD.a",
		"CREATE TABLE tb (a INT PRIMARY KEY, b INT)",
		"INSERT INTO tb VALUES (1,10),(2,20),(3,30)",
		"CREATE TRIGGER tb_bi BEFORE INSERT ON tb FOR EACH ROW SET NEW.b = NEW.b + 1",
		"CREATE TRIGGER tb_bu BEFORE UPDATE ON tb FOR EACH ROW SET NEW.b = OLD.b + 1",
		"CREATE TRIGGER tb_bd BEFORE DELETE ON tb FOR EACH ROW SET @last = OLD.a",
		"CREATE TABLE tw (a INT PRIMARY KEY, b INT)",
		"INSERT INTO tw VALUES (1,10),(2,20),(3,30)",
		"CREATE TRIGGER tw_ai AFTER INSERT ON tw FOR EACH ROW INSERT INTO lg VALUES (NEW.a)",
		"CREATE TRIGGER tw_au AFTER UPDATE ON tw FOR EACH ROW INSERT INTO lg VALUES (NEW.a)",
		"CREATE TRIGGER tw_ad AFTER DELETE ON tw FOR EACH ROW DELETE FROM lg WHERE a = OLD.a",
		"CREATE TABLE tc (a INT PRIMARY KEY, b INT)",
		"INSERT INTO tc VALUES (1,10)",
		"CREATE TRIGGER tc_ai1 AFTER INSERT ON tc FOR EACH ROW SET @c1 = NEW.a",
		"CREATE TRIGGER tc_ai2 AFTER INSERT ON tc FOR EACH ROW BEGIN IF NEW.a < 0 THEN SIGNAL SQLSTATE '45000' SET MESSAGE_TEXT = 'neg'; END IF; SET @c2 = NEW.b; END",
		"CREATE TABLE tm (a INT PRIMARY KEY, b INT)",
		"INSERT INTO tm VALUES (1,10),(2,20)",
		"CREATE TRIGGER tm_bi BEFORE INSERT ON tm FOR EACH ROW SET NEW.b = 7",
		"CREATE TRIGGER tm_ai AFTER INSERT ON tm FOR EACH ROW SET @m = NEW.b",
		"CREATE TRIGGER tm_bu BEFORE UPDATE ON tm FOR EACH ROW SET NEW.b = 7",
		"CREATE TRIGGER tm_au AFTER UPDATE ON tm FOR EACH ROW SET @m = NEW.b",
	)
	sch := sql.NewPrimaryKeySchema(sql.Schema{{Name: "a", Type: types.Int64, Source: "rt", PrimaryKey: true}, {Name: "b", Type: types.Int64, Source: "rt", Nullable: true}})
	tbl := memory.NewTable(ctx, rod.HistoryDatabase.Database, "rt", sch, nil)
	rod.HistoryDatabase.AddTable("rt", tbl)
	return e
}

// digest: data and schema of database d as seen by a fresh session.
func digest(e *eng.Eng) string {
	ctx := e.Ctx()
	var parts []string
	r := e.Query(ctx, "SHOW DATABASES")
	parts = append(parts, "dbs:"+eng.Canon(r, false))
	r = e.Query(ctx, "SHOW FULL TABLES")
	parts = append(parts, "tables:"+eng.Canon(r, false))
	for _, row := range r.Rows {
		if len(row) == 0 {
			continue
		}
		c := e.Query(ctx, "SHOW CREATE TABLE `"+row[0]+"`")
		parts = append(parts, eng.Canon(c, false))
		if len(row) > 1 && row[1] == "BASE TABLE" {
			d := e.Query(ctx, "SELECT * FROM `"+row[0]+"`")
			parts = append(parts, eng.Canon(d, false))
		}
	}
	for _, q := range []string{"SHOW TRIGGERS", "SHOW PROCEDURE STATUS", "SHOW EVENTS", "SELECT user, host FROM mysql.user", "SHOW GRANTS FOR tester@localhost"} {
		x := e.Query(ctx, q)
		// drop timestamps: keep the first three columns only
		var rows []string
		for _, row := range x.Rows {
			if len(row) > 3 {
				row = row[:3]
			}
			rows = append(rows, strings.Join(row, "|"))
		}
		sort.Strings(rows)
		parts = append(parts, q+":"+x.Class()+":"+strings.Join(rows, ";"))
	}
	return strings.Join(parts, "\n")
}

// rodDigest: what exists in the read-only database `rod` (and whether it still exists).
func rodDigest(e *eng.Eng) string {
	ctx := e.Ctx()
	var parts []string
	for _, q := range []string{"SHOW DATABASES", "SHOW FULL TABLES FROM rod", "SHOW EVENTS FROM rod", "SELECT routine_name FROM information_schema.routines WHERE routine_schema = 'rod'"} {
		parts = append(parts, resultText(e.Query(ctx, q)))
	}
	return strings.Join(parts, "\n")
}

func errClass(err error, panicMsg string) string {
	switch {
	case panicMsg != "":
		return "crash"
	case err == nil:
		return "ok"
	case sql.ErrReadOnly.Is(err):
		return "blocked:ro"
	case sql.ErrDatabaseWriteLocked.Is(err):
		return "blocked:locked"
	case sql.ErrReadOnlyTransaction.Is(err):
		return "blocked:rotx"
	case analyzererrors.ErrReadOnlyDatabase.Is(err):
		return "blocked:rodb"
	case sql.ErrProcedureCallAsOfReadOnly.Is(err):
		return "blocked:asof"
	}
	return fmt.Sprintf("err:%d", eng.Errno(err))
}

// ---------------------------------------------------------------------------------------------
// observations on a node

func obsRO(n sql.Node) string {
	var b bool
	if p := hx.Safe(func() { b = plan.IsReadOnly(n) }); p != "" {
		return "panic"
	}
	if b {
		return "T"
	}
	return "F"
}

func obsGate(e *sqle.Engine, n sql.Node) string {
	var parts []string
	for _, m := range [][2]bool{{false, false}, {false, true}, {true, false}, {true, true}} {
		e.ReadOnly.Store(m[0])
		e.IsServerLocked = m[1]
		var err error
		p := hx.Safe(func() { err = e.VerifReadOnlyCheck(n) })
		switch {
		case p != "":
			parts = append(parts, "panic")
		case err == nil:
			parts = append(parts, "pass")
		case sql.ErrReadOnly.Is(err):
			parts = append(parts, "errReadOnly")
		case sql.ErrDatabaseWriteLocked.Is(err):
			parts = append(parts, "errLocked")
		default:
			parts = append(parts, "err?")
		}
	}
	e.ReadOnly.Store(false)
	e.IsServerLocked = false
	return strings.Join(parts, ",")
}

type ruleEnv struct {
	e    *eng.Eng
	ctxs [3]*sql.Context // tx none, rw, ro
}

func newRuleEnv() *ruleEnv {
	re := &ruleEnv{e: newEng()}
	for i := range re.ctxs {
		ctx := re.e.Ctx()
		switch i {
		case 0:
			ctx.SetTransaction(nil)
		case 1:
			tx, _ := ctx.Session.(sql.TransactionSession).StartTransaction(ctx, sql.ReadWrite)
			ctx.SetTransaction(tx)
		case 2:
			tx, _ := ctx.Session.(sql.TransactionSession).StartTransaction(ctx, sql.ReadOnly)
			ctx.SetTransaction(tx)
		}
		re.ctxs[i] = ctx
	}
	return re
}

func ruleOutcome(err error, p string) string {
	switch {
	case p != "":
		return "panic"
	case err == nil:
		return "pass"
	case sql.ErrReadOnlyTransaction.Is(err):
		return "reject"
	case analyzererrors.ErrReadOnlyDatabase.Is(err):
		return "rodb"
	case sql.ErrProcedureCallAsOfReadOnly.Is(err):
		return "asof"
	}
	return "err?"
}

func (re *ruleEnv) obsTx(n sql.Node) string {
	var parts []string
	for i := 0; i < 3; i++ {
		for _, enforce := range []bool{false, true} {
			var scope *plan.Scope
			if enforce {
				scope = &plan.Scope{EnforceReadOnly: true}
			}
			var err error
			p := hx.Safe(func() { err = analyzer.VerifValidateReadOnlyTransaction(re.ctxs[i], re.e.E.Analyzer, n, scope) })
			parts = append(parts, ruleOutcome(err, p))
		}
	}
	return strings.Join(parts, ",")
}

func (re *ruleEnv) obsDb(n sql.Node) string {
	var parts []string
	for _, enforce := range []bool{false, true} {
		var scope *plan.Scope
		if enforce {
			scope = &plan.Scope{EnforceReadOnly: true}
		}
		var err error
		p := hx.Safe(func() { err = analyzer.VerifValidateReadOnlyDatabase(re.ctxs[0], re.e.E.Analyzer, n, scope) })
		parts = append(parts, ruleOutcome(err, p))
	}
	return strings.Join(parts, ",")
}

// ---------------------------------------------------------------------------------------------
// synthetic tree generator

type gen struct {
	r       *hx.Rand
	specs   map[string]*kindSpec
	kinds   []string                 // sorted registry kinds
	assign  map[reflect.Type][]string // static field type -> kinds that can be stored
	leaves  []string
	comps   []string
	writers []string
	budget  int
}

func newGen(r *hx.Rand, specs map[string]*kindSpec, classes map[string]cls) *gen {
	g := &gen{r: r, specs: specs, assign: map[reflect.Type][]string{}}
	for k := range specs {
		g.kinds = append(g.kinds, k)
	}
	sort.Strings(g.kinds)
	for _, k := range g.kinds {
		if len(specs[k].fields) == 0 {
			g.leaves = append(g.leaves, k)
		} else {
			g.comps = append(g.comps, k)
		}
		if c, ok := classes[k]; ok && c.tag == "const" && !c.b {
			g.writers = append(g.writers, k)
		}
	}
	return g
}

func (g *gen) assignable(t reflect.Type) []string {
	if ks, ok := g.assign[t]; ok {
		return ks
	}
	var out []string
	for _, k := range g.kinds {
		if reflect.PtrTo(g.specs[k].typ).AssignableTo(t) {
			out = append(out, k)
		}
	}
	g.assign[t] = out
	return out
}

var favComps = []string{"plan.Project", "plan.Filter", "plan.Limit", "plan.Sort", "plan.JoinNode", "plan.SetOp", "plan.SubqueryAlias", "plan.TableAlias",
	"plan.Block", "plan.BeginEndBlock", "plan.IfElseBlock", "plan.IfConditional", "plan.CaseStatement", "plan.TriggerExecutor", "plan.ForeignKeyHandler",
	"plan.Call", "plan.Procedure", "plan.RecursiveCte", "plan.Into", "plan.DeclareCursor", "plan.InsertInto", "plan.Update", "plan.DeleteFrom", "plan.InsertDestination",
	"plan.UpdateSource", "plan.UpdateJoin", "plan.While", "plan.Loop", "plan.Distinct", "plan.GroupBy", "plan.Window", "plan.CachedResults", "plan.Concat"}
var favLeaves = []string{"plan.ResolvedTable", "plan.ResolvedTable", "plan.ResolvedTable", "plan.Values", "plan.EmptyTable", "plan.ExternalProcedure", "plan.CreateTable",
	"plan.Truncate", "plan.Set", "plan.ShowTables", "plan.Commit", "plan.AnalyzeTable", "plan.LockTables", "plan.UnlockTables"}

func (g *gen) pickKind(t reflect.Type, depth int) string {
	cands := g.assignable(t)
	if len(cands) == 0 {
		return ""
	}
	if len(cands) == 1 {
		return cands[0]
	}
	// interface-typed field: bias towards interesting kinds
	x := g.r.Intn(100)
	switch {
	case depth > 0 && g.budget > 0 && x < 45:
		return hx.Pick(g.r, favComps)
	case depth > 0 && g.budget > 0 && x < 55:
		return hx.Pick(g.r, g.comps)
	case x < 80:
		return hx.Pick(g.r, favLeaves)
	case x < 90:
		return hx.Pick(g.r, g.writers)
	default:
		return hx.Pick(g.r, g.kinds)
	}
}

func (g *gen) tree(t reflect.Type, depth int, nilPct int) *tnode {
	if g.r.Intn(100) < nilPct {
		return nil
	}
	k := g.pickKind(t, depth)
	if k == "" {
		return nil
	}
	if !reflect.PtrTo(g.specs[k].typ).AssignableTo(t) {
		// a favourite that does not fit this field's static type
		cands := g.assignable(t)
		k = hx.Pick(g.r, cands)
	}
	return g.node(k, depth, nilPct)
}

func (g *gen) node(k string, depth int, nilPct int) *tnode {
	g.budget--
	n := &tnode{kind: k, kids: map[string][]*tnode{}}
	n.flag = g.r.Bool()
	n.tblClass = g.r.Intn(3)
	n.dbClass = g.r.Intn(3)
	if g.r.Chance(2, 3) {
		n.dbClass = 0
	}
	for _, f := range g.specs[k].fields {
		if f.slice {
			cnt := g.r.Intn(4)
			if depth <= 0 || g.budget <= 0 {
				cnt = g.r.Intn(2)
			}
			for i := 0; i < cnt; i++ {
				n.kids[f.name] = append(n.kids[f.name], g.tree(f.typ, depth-1, nilPct))
			}
		} else {
			n.kids[f.name] = []*tnode{g.tree(f.typ, depth-1, nilPct)}
		}
	}
	return n
}

func countKinds(t *tnode, acc map[string]bool) int {
	if t == nil {
		return 0
	}
	acc[t.kind] = true
	n := 1
	for _, ks := range t.kids {
		for _, k := range ks {
			n += countKinds(k, acc)
		}
	}
	return n
}

// ---------------------------------------------------------------------------------------------
// SQL catalogue. label: R = read-only statement (must pass with its normal result), W = modifies data
// or schema (must be rejected, state unchanged), X = the property is silent. class: dml | ddl | other.

type stmt struct {
	q, label, class string
}

var catalogue = []stmt{
	{"SELECT * FROM t", "R", "other"},
	{"SELECT a FROM v", "R", "other"},
	{"SELECT (SELECT max(a) FROM u) FROM t", "R", "other"},
	{"SELECT * FROM t WHERE a IN (SELECT a FROM u) ORDER BY a LIMIT 1", "R", "other"},
	{"SELECT t.a, u.b FROM t JOIN u ON t.a = u.a", "R", "other"},
	{"SELECT a, count(*) FROM t GROUP BY a HAVING count(*) > 0", "R", "other"},
	{"SELECT DISTINCT b FROM t", "R", "other"},
	{"SELECT a, row_number() OVER (ORDER BY a) FROM t", "R", "other"},
	{"SELECT * FROM t UNION SELECT * FROM u", "R", "other"},
	{"SELECT * FROM t EXCEPT SELECT * FROM u", "R", "other"},
	{"WITH c AS (SELECT a FROM t) SELECT * FROM c", "R", "other"},
	{"WITH RECURSIVE c(n) AS (SELECT 1 UNION ALL SELECT n+1 FROM c WHERE n < 3) SELECT * FROM c", "R", "other"},
	{"TABLE t", "R", "other"},
	{"VALUES ROW(1,2)", "R", "other"},
	{"SELECT * FROM JSON_TABLE('[1,2]', '$[*]' COLUMNS (x INT PATH '$')) jt", "R", "other"},
	{"SELECT 1", "R", "other"},
	{"SELECT a INTO @x FROM t WHERE a = 1", "R", "other"},
	{"SHOW TABLES", "R", "other"},
	{"SHOW FULL TABLES", "R", "other"},
	{"SHOW DATABASES", "R", "other"},
	{"SHOW CREATE TABLE t", "R", "other"},
	{"SHOW CREATE VIEW v", "R", "other"},
	{"SHOW CREATE PROCEDURE pr", "R", "other"},
	{"SHOW CREATE TRIGGER tr1", "R", "other"},
	{"SHOW CREATE DATABASE d", "R", "other"},
	{"SHOW COLUMNS FROM t", "R", "other"},
	{"SHOW INDEXES FROM t", "R", "other"},
	{"SHOW TRIGGERS", "R", "other"},
	{"SHOW EVENTS", "R", "other"},
	{"SHOW VARIABLES LIKE 'autocommit'", "R", "other"},
	{"SHOW STATUS LIKE 'Threads%'", "R", "other"},
	{"SHOW PROCESSLIST", "X", "other"},
	{"SHOW WARNINGS", "R", "other"},
	{"SHOW CHARSET", "R", "other"},
	{"SHOW COLLATION LIKE 'utf8mb4_0900_bin'", "R", "other"},
	{"SHOW GRANTS", "R", "other"},
	{"SHOW PRIVILEGES", "R", "other"},
	{"DESCRIBE t", "R", "other"},
	{"EXPLAIN SELECT * FROM t", "R", "other"},
	{"EXPLAIN INSERT INTO t VALUES (9,9)", "R", "dml"},
	{"USE d", "R", "other"},
	{"SET @x = 1", "R", "other"},
	{"SET SESSION sql_mode = ''", "R", "other"},
	{"PREPARE s FROM 'INSERT INTO t VALUES (8,8)'", "R", "other"},
	{"BEGIN", "R", "other"},
	{"COMMIT", "R", "other"},
	{"ROLLBACK", "R", "other"},
	{"START TRANSACTION READ ONLY", "R", "other"},
	{"KILL QUERY 99999", "X", "other"},
	{"CALL pr()", "R", "other"},
	{"ANALYZE TABLE t", "X", "other"},
	{"ANALYZE TABLE t UPDATE HISTOGRAM ON a USING DATA '{\"row_count\": 2}'", "X", "other"},
	{"LOCK TABLES t WRITE", "X", "other"},
	{"LOCK TABLES t READ", "X", "other"},
	{"UNLOCK TABLES", "X", "other"},
	{"SET GLOBAL max_connections = 200", "X", "other"},
	{"FLUSH PRIVILEGES", "X", "other"},
	{"CALL pw()", "W", "call"},
	{"INSERT INTO t VALUES (5,5)", "W", "dml"},
	{"INSERT INTO t (a) VALUES (6)", "W", "dml"},
	{"INSERT INTO t SELECT a+10,b FROM u", "W", "dml"},
	{"INSERT INTO t VALUES (1,1) ON DUPLICATE KEY UPDATE b = 99", "W", "dml"},
	{"INSERT IGNORE INTO t VALUES (1,1),(9,9)", "W", "dml"},
	{"REPLACE INTO t VALUES (1,11)", "W", "dml"},
	{"INSERT INTO chi VALUES (2,2)", "W", "dml"},
	{"INSERT INTO trg VALUES (1)", "W", "dml"},
	// DML on tables with triggers: the write must be seen through the trigger executor
	{"INSERT INTO ta VALUES (4,40)", "W", "dml"},
	{"INSERT INTO ta SELECT a+10, b FROM t", "W", "dml"},
	{"REPLACE INTO ta VALUES (3,0)", "W", "dml"},
	{"INSERT INTO ta VALUES (1,1) ON DUPLICATE KEY UPDATE b = 99", "W", "dml"},
	{"UPDATE ta SET b = 0 WHERE a = 1", "W", "dml"},
	{"UPDATE ta SET b = b + 1", "W", "dml"},
	{"DELETE FROM ta WHERE a = 2", "W", "dml"},
	{"DELETE FROM ta", "W", "dml"},
	{"INSERT INTO tb VALUES (4,40)", "W", "dml"},
	{"REPLACE INTO tb VALUES (3,0)", "W", "dml"},
	{"UPDATE tb SET b = 0 WHERE a = 1", "W", "dml"},
	{"DELETE FROM tb WHERE a = 2", "W", "dml"},
	{"DELETE FROM tb", "W", "dml"},
	{"INSERT INTO tw VALUES (4,40)", "W", "dml"},
	{"REPLACE INTO tw VALUES (3,0)", "W", "dml"},
	{"UPDATE tw SET b = 0 WHERE a = 1", "W", "dml"},
	{"DELETE FROM tw WHERE a = 2", "W", "dml"},
	{"INSERT INTO tc VALUES (2,20)", "W", "dml"},
	{"INSERT INTO tm VALUES (3,30)", "W", "dml"},
	{"UPDATE tm SET b = 0 WHERE a = 1", "W", "dml"},
	{"UPDATE ta JOIN u ON ta.a = u.a SET ta.b = u.b", "W", "dml"},
	{"SELECT * FROM ta", "R", "other"},
	{"SHOW CREATE TRIGGER ta_ai", "R", "other"},
	{"UPDATE t SET b = 1", "W", "dml"},
	{"UPDATE t SET b = b + 1 WHERE a = 1", "W", "dml"},
	{"UPDATE t JOIN u ON t.a = u.a SET t.b = u.b", "W", "dml"},
	{"UPDATE t SET b = (SELECT max(b) FROM u)", "W", "dml"},
	{"UPDATE chi SET p = 2", "W", "dml"},
	{"UPDATE par SET a = 5 WHERE a = 3", "W", "dml"},
	{"DELETE FROM t", "W", "dml"},
	{"DELETE FROM t WHERE a = 1", "W", "dml"},
	{"DELETE FROM t WHERE a IN (SELECT a FROM u)", "W", "dml"},
	{"DELETE t FROM t JOIN u ON t.a = u.a", "W", "dml"},
	{"DELETE FROM par WHERE a = 3", "W", "dml"},
	{"WITH c AS (SELECT a FROM u) DELETE FROM t WHERE a IN (SELECT a FROM c)", "W", "dml"},
	{"TRUNCATE TABLE t", "W", "ddl"},
	{"CREATE TABLE n (a INT)", "W", "ddl"},
	{"CREATE TABLE n (a INT PRIMARY KEY, b INT, FOREIGN KEY (b) REFERENCES par(a))", "W", "ddl"},
	{"CREATE TABLE n AS SELECT * FROM t", "W", "ddl"},
	{"CREATE TABLE n LIKE t", "W", "ddl"},
	{"CREATE TABLE IF NOT EXISTS t (a INT)", "X", "ddl"},
	{"DROP TABLE u", "W", "ddl"},
	{"DROP TABLE IF EXISTS nosuch", "X", "ddl"},
	{"ALTER TABLE t ADD COLUMN c INT", "W", "ddl"},
	{"ALTER TABLE t DROP COLUMN b", "W", "ddl"},
	{"ALTER TABLE t MODIFY COLUMN b BIGINT", "W", "ddl"},
	{"ALTER TABLE t CHANGE COLUMN b c BIGINT", "W", "ddl"},
	{"ALTER TABLE t RENAME COLUMN b TO c", "W", "ddl"},
	{"ALTER TABLE t ALTER COLUMN b SET DEFAULT 5", "W", "ddl"},
	{"ALTER TABLE t ALTER COLUMN b DROP DEFAULT", "X", "ddl"},
	{"ALTER TABLE t AUTO_INCREMENT = 10", "X", "ddl"},
	{"ALTER TABLE t ADD INDEX ib (b)", "W", "ddl"},
	{"ALTER TABLE t ADD UNIQUE INDEX ub (b)", "W", "ddl"},
	{"CREATE INDEX ib ON t (b)", "W", "ddl"},
	{"ALTER TABLE t DROP PRIMARY KEY", "W", "ddl"},
	{"ALTER TABLE t ADD CONSTRAINT ck CHECK (b > 0)", "W", "ddl"},
	{"ALTER TABLE chi DROP FOREIGN KEY chi_ibfk_1", "X", "ddl"},
	{"ALTER TABLE u ADD CONSTRAINT fku FOREIGN KEY (b) REFERENCES par(a)", "X", "ddl"},
	{"ALTER TABLE t COMMENT = 'x'", "W", "ddl"},
	{"ALTER TABLE t COLLATE utf8mb4_bin", "X", "ddl"},
	{"ALTER TABLE t ADD COLUMN c INT, ADD COLUMN e INT", "W", "ddl"},
	{"ALTER TABLE t RENAME TO w", "W", "ddl"},
	{"RENAME TABLE u TO w", "W", "ddl"},
	{"CREATE VIEW v2 AS SELECT 1", "W", "ddl"},
	{"CREATE OR REPLACE VIEW v AS SELECT b FROM t", "W", "ddl"},
	{"DROP VIEW v", "W", "ddl"},
	{"CREATE DATABASE dd", "W", "ddl"},
	{"CREATE SCHEMA dd", "W", "ddl"},
	{"DROP DATABASE d", "W", "ddl"},
	{"ALTER DATABASE d COLLATE utf8mb4_bin", "X", "ddl"},
	{"CREATE PROCEDURE p2() SELECT 2", "W", "ddl"},
	{"DROP PROCEDURE pr", "W", "ddl"},
	{"CREATE TRIGGER tr2 BEFORE INSERT ON t FOR EACH ROW SET NEW.b = 1", "W", "ddl"},
	{"DROP TRIGGER tr1", "W", "ddl"},
	{"CREATE EVENT ev ON SCHEDULE EVERY 1 DAY DO SELECT 1", "W", "ddl"},
	{"CREATE USER foo@localhost", "W", "acct"},
	{"DROP USER tester@localhost", "W", "acct"},
	{"ALTER USER tester@localhost IDENTIFIED BY 'pw'", "X", "acct"},
	{"RENAME USER tester@localhost TO tester2@localhost", "W", "acct"},
	{"GRANT SELECT ON *.* TO tester@localhost", "W", "acct"},
	{"REVOKE SELECT ON *.* FROM tester@localhost", "X", "acct"},
	{"CREATE ROLE r1", "W", "acct"},
	{"GRANT SELECT ON d.t TO tester@localhost", "W", "acct"},
}

// statements addressing the read-only database `rod` (analysis outcome only: the in-memory session
// cannot execute against memory.ReadOnlyDatabase at all)
var rodCatalogue = []stmt{
	{"SELECT * FROM rod.rt", "R", "other"},
	{"SELECT * FROM t JOIN rod.rt r ON t.a = r.a", "R", "other"},
	{"INSERT INTO t SELECT * FROM rod.rt", "R", "other"}, // writes d, reads rod: not a write to the read-only database
	{"CREATE TABLE n AS SELECT * FROM rod.rt", "R", "other"},
	{"CREATE TABLE n LIKE rod.rt", "R", "other"},
	{"SHOW CREATE TABLE rod.rt", "R", "other"},
	{"INSERT INTO rod.rt VALUES (1,1)", "W", "dml"},
	{"INSERT INTO rod.rt SELECT * FROM t", "W", "dml"},
	{"REPLACE INTO rod.rt VALUES (1,1)", "W", "dml"},
	{"UPDATE rod.rt SET b = 1", "W", "dml"},
	{"UPDATE rod.rt r JOIN t ON t.a = r.a SET r.b = 1", "W", "dml"},
	{"DELETE FROM rod.rt", "W", "dml"},
	{"DELETE FROM rod.rt WHERE a = 1", "W", "dml"},
	{"TRUNCATE TABLE rod.rt", "W", "ddl"},
	{"CREATE TABLE rod.n (a INT)", "W", "ddl"},
	{"DROP TABLE rod.rt", "W", "ddl"},
	{"ALTER TABLE rod.rt ADD COLUMN c INT", "W", "ddl"},
	{"ALTER TABLE rod.rt DROP COLUMN b", "W", "ddl"},
	{"ALTER TABLE rod.rt MODIFY COLUMN b BIGINT", "W", "ddl"},
	{"ALTER TABLE rod.rt RENAME COLUMN b TO c", "W", "ddl"},
	{"CREATE INDEX ib ON rod.rt (b)", "W", "ddl"},
	{"ALTER TABLE rod.rt ADD CONSTRAINT ck CHECK (b > 0)", "W", "ddl"},
	{"RENAME TABLE rod.rt TO rod.w", "W", "ddlx"},
	{"CREATE VIEW rod.v AS SELECT 1", "W", "ddlx"},
	{"CREATE PROCEDURE rod.p() SELECT 1", "W", "ddlx"},
	{"CREATE EVENT rod.ev ON SCHEDULE EVERY 1 DAY DO SELECT 1", "W", "ddlx"},
	{"DROP DATABASE rod", "W", "ddlx"},
	{"ALTER TABLE rod.rt AUTO_INCREMENT = 10", "W", "ddlx"},
	{"CREATE TRIGGER rod.trx BEFORE INSERT ON rod.rt FOR EACH ROW SET NEW.b = 1", "W", "ddl"},
	{"LOCK TABLES rod.rt WRITE", "X", "other"},
}

// ---------------------------------------------------------------------------------------------

func run(a hx.RunArgs) error {
	out := hx.NewOut(a.OutDir)
	defer out.Close()
	out.Rule = "ro/tx/db: synthetic plan trees built from zero values of every registered node kind (truth tables of every kind's consulted fields with read-only / writing / nil children, then random trees up to depth 6 with resolved tables of 3 table classes x 3 database classes); " +
		"observed: plan.IsReadOnly + Engine.readOnlyCheck under the 4 (ReadOnly, IsServerLocked) settings; validateReadOnlyTransaction under tx in {none, rw, ro} x EnforceReadOnly; validateReadOnlyDatabase x EnforceReadOnly. " +
		"sql: a catalogue of statements of every kind (incl. DML on tables carrying harmless AFTER triggers, BEFORE triggers, AFTER triggers that write elsewhere, chained and mixed triggers: the analyzed root is then a TriggerExecutor or wraps one), each on a fresh engine, under engine read-only and server-locked (outcome, state digest of data+schema+accounts before/after, result vs. the read-write twin), " +
		"START TRANSACTION READ ONLY, and against a read-only database. A case is non-trivial when the tree contains a writing kind or a resolved table in a read-only database / the statement is labelled W"
	r := hx.NewRand(a.Seed)
	t0 := time.Now()

	ix, err := buildIndex(a.Repo)
	if err != nil {
		return err
	}
	out.Extra["seconds_index"] = int(time.Since(t0).Seconds())
	nodes, _ := kindTable(ix)
	classes := map[string]cls{}
	for _, e := range nodes {
		classes[e.kind] = e.c
	}
	resolveCls := func(k string) cls {
		c := classes[k]
		for i := 0; i < 4 && c.tag == "embed"; i++ {
			c = classes[c.f]
		}
		return c
	}
	specs := kindSpecs()
	re := newRuleEnv()
	// world: three table classes, three database classes
	w := &world{}
	{
		ctx := re.e.Ctx()
		db := re.e.DBs[0]
		sch := sql.NewPrimaryKeySchema(sql.Schema{{Name: "a", Type: types.Int64, Source: "w", PrimaryKey: true}})
		mt := memory.NewTable(ctx, db, "w", sch, nil)
		w.tables = [3]sql.Table{mt, tempTable{mt, false}, tempTable{mt, true}}
		w.dbs = [3]sql.Database{db, memory.NewReadOnlyDatabase("rox"), roFalseDb{memory.NewDatabase("rof")}}
	}

	writerKind := func(k string) bool {
		c := resolveCls(k)
		return c.tag == "const" && !c.b
	}
	var nontrivialTree func(t *tnode) bool
	nontrivialTree = func(t *tnode) bool {
		if t == nil {
			return false
		}
		if writerKind(t.kind) || (t.kind == "plan.ResolvedTable" && (t.dbClass == 1 || t.tblClass > 0)) {
			return true
		}
		for _, ks := range t.kids {
			for _, k := range ks {
				if nontrivialTree(k) {
					return true
				}
			}
		}
		return false
	}
	kindsSeen := map[string]bool{}
	treeCase := func(t *tnode, tag string) {
		n, err := build(specs, w, t)
		if err != nil {
			out.Stat("build-error:" + err.Error())
			return
		}
		serChildrenPanic, serTypedNil = false, false
		payload := ser("", n, false, 0)
		nt := nontrivialTree(t)
		countKinds(t, kindsSeen)
		ro := obsRO(n)
		out.Case("(ro "+payload+")", ro+" "+obsGate(re.e.E, n), nt)
		if serChildrenPanic || serTypedNil {
			// the traversals of the rules are not modelled on such trees (zero-value artefacts)
			out.Stat("tree:ro-only")
		} else {
			out.Case("(tx "+payload+")", re.obsTx(n), nt)
			out.Case("(db "+payload+")", re.obsDb(n), nt)
		}
		out.Stat("tree:" + tag)
		out.Stat("ro:" + ro)
	}
	leaf := func(k string) *tnode { return &tnode{kind: k, kids: map[string][]*tnode{}} }

	// corpus: witnesses of the listed findings first
	{
		// CALL of a stored (non-external) procedure whose body only reads
		treeCase(&tnode{kind: "plan.Call", kids: map[string][]*tnode{"Procedure": {leaf("plan.Procedure")}}}, "corpus")
		// DML on a table that does not implement sql.TemporaryTable, in a READ ONLY transaction
		treeCase(&tnode{kind: "plan.InsertInto", kids: map[string][]*tnode{"Destination": {{kind: "plan.InsertDestination", kids: map[string][]*tnode{"Child": {{kind: "plan.ResolvedTable", tblClass: 0, kids: map[string][]*tnode{}}}}}}}}, "corpus")
		// TRUNCATE in a READ ONLY transaction
		treeCase(&tnode{kind: "plan.Truncate", kids: map[string][]*tnode{"Child": {{kind: "plan.ResolvedTable", tblClass: 1, kids: map[string][]*tnode{}}}}}, "corpus")
		// UPDATE perm JOIN temp: the last resolved table decides
		treeCase(&tnode{kind: "plan.Update", kids: map[string][]*tnode{"Child": {{kind: "plan.JoinNode", kids: map[string][]*tnode{
			"left":  {{kind: "plan.ResolvedTable", tblClass: 1, kids: map[string][]*tnode{}}},
			"right": {{kind: "plan.ResolvedTable", tblClass: 2, kids: map[string][]*tnode{}}}}}}}}, "corpus")
	}

	// Stream A: truth table of every kind
	var kinds []string
	for k := range specs {
		kinds = append(kinds, k)
	}
	sort.Strings(kinds)
	g := newGen(r, specs, classes)
	for _, k := range kinds {
		ks := specs[k]
		treeCase(leaf(k), "kind-zero")
		if len(ks.fields) == 0 {
			continue
		}
		// every field filled with: a read-only leaf / a writing leaf / nil; slices with 0-2 elements
		options := func(f fieldSpec) [][]*tnode {
			var opts [][]*tnode
			cands := g.assignable(f.typ)
			var roLeaf, wrLeaf *tnode
			if f.typ == nodeIface {
				roLeaf, wrLeaf = leaf("plan.Values"), leaf("plan.Truncate")
			} else if len(cands) > 0 {
				roLeaf = leaf(cands[0])
			}
			if f.slice {
				opts = append(opts, []*tnode{})
				if roLeaf != nil {
					opts = append(opts, []*tnode{roLeaf}, []*tnode{roLeaf, roLeaf})
				}
				if wrLeaf != nil {
					opts = append(opts, []*tnode{wrLeaf}, []*tnode{roLeaf, wrLeaf}, []*tnode{wrLeaf, nil})
				}
				opts = append(opts, []*tnode{nil})
			} else {
				opts = append(opts, []*tnode{nil})
				if roLeaf != nil {
					opts = append(opts, []*tnode{roLeaf})
				}
				if wrLeaf != nil {
					opts = append(opts, []*tnode{wrLeaf})
				}
			}
			return opts
		}
		var rec func(i int, cur map[string][]*tnode)
		count := 0
		rec = func(i int, cur map[string][]*tnode) {
			if count > 60 {
				return
			}
			if i == len(ks.fields) {
				kids := map[string][]*tnode{}
				for k2, v := range cur {
					kids[k2] = v
				}
				for _, fl := range []bool{false, true} {
					if k != "plan.ExternalProcedure" && k != "plan.CreateTable" && fl {
						continue
					}
					treeCase(&tnode{kind: k, kids: kids, flag: fl}, "kind-table")
				}
				count++
				return
			}
			f := ks.fields[i]
			for _, o := range options(f) {
				cur[f.name] = o
				rec(i+1, cur)
			}
			delete(cur, f.name)
		}
		rec(0, map[string][]*tnode{})
		// nested once: consulted field holds a composite that itself holds a writer
		for _, f := range ks.fields {
			if f.typ != nodeIface {
				continue
			}
			inner := &tnode{kind: "plan.Project", kids: map[string][]*tnode{"Child": {leaf("plan.DeleteFrom")}}}
			t := &tnode{kind: k, kids: map[string][]*tnode{}}
			for _, f2 := range ks.fields {
				if f2.name == f.name {
					t.kids[f2.name] = []*tnode{inner}
				} else if f2.typ == nodeIface {
					t.kids[f2.name] = []*tnode{leaf("plan.Values")}
				} else if !f2.slice {
					if c := g.assignable(f2.typ); len(c) > 0 {
						t.kids[f2.name] = []*tnode{leaf(c[0])}
					}
				}
			}
			treeCase(t, "kind-nested")
		}
	}
	// ExternalProcedure / resolved table / create table attribute grids under the rule roots
	for _, root := range []string{"plan.DeleteFrom", "plan.Update", "plan.UnlockTables", "plan.LockTables", "plan.InsertInto", "plan.Truncate", "plan.DropTable", "plan.Project", "plan.AddColumn", "plan.CreateIndex", "plan.Block", "plan.TableCopier", "plan.LoadData"} {
		for tc := 0; tc < 3; tc++ {
			for dc := 0; dc < 3; dc++ {
				rt := &tnode{kind: "plan.ResolvedTable", tblClass: tc, dbClass: dc, kids: map[string][]*tnode{}}
				t := &tnode{kind: root, kids: map[string][]*tnode{}}
				for _, f := range specs[root].fields {
					if f.typ == nodeIface {
						if f.slice {
							t.kids[f.name] = []*tnode{rt}
						} else {
							t.kids[f.name] = []*tnode{{kind: "plan.Filter", kids: map[string][]*tnode{"Child": {rt}}}}
						}
					}
				}
				treeCase(t, "attr-grid")
			}
		}
	}
	for _, fl := range []bool{false, true} {
		for dc := 0; dc < 3; dc++ {
			treeCase(&tnode{kind: "plan.CreateTable", flag: fl, dbClass: dc, kids: map[string][]*tnode{}}, "attr-grid")
		}
	}

	out.Extra["seconds_kind_tables"] = int(time.Since(t0).Seconds())
	// Stream B: random trees
	nRand := 2500
	if a.Thorough {
		nRand = 150000
	}
	ruleRoots := []string{"plan.DeleteFrom", "plan.Update", "plan.UnlockTables", "plan.LockTables", "plan.InsertInto", "plan.CreateTable", "plan.Truncate", "plan.DropTable",
		"plan.AddColumn", "plan.Block", "plan.CreateView", "plan.AlterIndex", "plan.Call", "plan.Project", "plan.TriggerExecutor"}
	for i := 0; i < nRand; i++ {
		g.budget = 25
		nilPct := 0
		if r.Chance(1, 5) {
			nilPct = 8
		}
		depth := 2 + r.Intn(5)
		var t *tnode
		if r.Chance(1, 2) {
			t = g.node(hx.Pick(r, ruleRoots), depth, nilPct)
		} else {
			t = g.tree(nodeIface, depth, 0)
		}
		if t == nil {
			continue
		}
		treeCase(t, "random")
	}
	out.Extra["kinds_in_trees"] = len(kindsSeen)
	out.Extra["kinds_registered"] = len(specs)

	// Stream C: SQL catalogue
	tTrees := time.Since(t0)
	runSQL(out, a)
	out.Extra["seconds_trees"] = int(tTrees.Seconds())
	out.Extra["seconds_sql"] = int((time.Since(t0) - tTrees).Seconds())
	return nil
}

var tsRe = regexp.MustCompile(`\d{4}-\d\d-\d\d \d\d:\d\d:\d\d(\.\d+)?`)

// resultText: outcome class and rows, with timestamps masked (SHOW TRIGGERS / SHOW CREATE TRIGGER print creation times).
func resultText(r *eng.Res) string {
	var rows []string
	for _, row := range r.Rows {
		rows = append(rows, strings.Join(row, "|"))
	}
	return r.Class() + "|" + tsRe.ReplaceAllString(strings.Join(rows, "\n"), "TS")
}

func runSQL(out *hx.Out, a hx.RunArgs) {
	before := digest(newEng())
	for _, st := range catalogue {
		// read-write twin: the statement's normal outcome, whether it changes the state, and its analyzed plan
		tw := newEng()
		ctx := tw.Ctx()
		var planNode sql.Node
		var aerr error
		if p := hx.Safe(func() { planNode, aerr = tw.E.AnalyzeQuery(ctx, st.q) }); p != "" || aerr != nil {
			out.Stat("sql:skipped-analysis-fails")
			continue
		}
		payloadTree := ser("", planNode, false, 0)
		rw := tw.Query(tw.Ctx(), st.q)
		changes := digest(tw) != before
		if st.label == "W" && !changes {
			// the catalogue claims a write, the read-write engine shows none: catalogue bug
			out.Stat("sql:label-W-without-effect:" + st.q)
		}
		for _, mode := range []string{"ro", "locked"} {
			e := newEng()
			switch mode {
			case "ro":
				e.E.ReadOnly.Store(true)
			case "locked":
				e.E.IsServerLocked = true
			}
			r := e.Query(e.Ctx(), st.q)
			cl := errClass(r.Err, r.Panic)
			same := digest(e) == before
			obs := ""
			switch {
			case strings.HasPrefix(cl, "blocked:"):
				obs = cl
				if same {
					obs += " same"
				} else {
					obs += " changed"
				}
			case resultText(r) == resultText(rw):
				obs = "pass"
			default:
				obs = "differs:" + cl
			}
			id := out.Case(hx.List("sql", mode, st.label, hx.HexS(st.q), payloadTree), obs, st.label == "W")
			out.Stat("sql:" + mode + ":" + strings.SplitN(obs, " ", 2)[0])
			// model-free oracle from the catalogue label
			switch st.label {
			case "W":
				if obs != "blocked:"+mode+" same" {
					out.OracleFail(id, "-", fmt.Sprintf("%s under %s: a statement that modifies data or schema was not rejected without effect: %s", st.q, mode, obs))
				}
			case "R":
				if obs != "pass" {
					tag := "-"
					if strings.HasPrefix(strings.ToUpper(st.q), "CALL ") {
						tag = "stored_procedure_call_rejected"
					}
					out.OracleFail(id, tag, fmt.Sprintf("%s under %s: a read-only statement did not succeed with its normal result: %s", st.q, mode, obs))
				}
			}
			if !same && !changes {
				out.OracleFail(id, "-", fmt.Sprintf("%s under %s changed the state although it changes nothing in read-write mode", st.q, mode))
			}
		}
		// READ ONLY transaction (no model prediction from the final plan: the rule runs mid-analysis)
		{
			e := newEng()
			ctx := e.Ctx()
			e.MustExec(ctx, "START TRANSACTION READ ONLY")
			r := e.Query(eng.SameSession(ctx), st.q)
			cl := errClass(r.Err, r.Panic)
			// make the session's work visible to the digest
			e.Query(eng.SameSession(ctx), "COMMIT")
			same := digest(e) == before
			obs := ""
			switch {
			case cl == "crash":
				obs = "crash"
			case strings.HasPrefix(cl, "blocked:"):
				obs = cl
			case resultText(r) == resultText(rw):
				obs = "pass"
			default:
				obs = "differs:" + cl
			}
			if same {
				obs += " same"
			} else {
				obs += " changed"
			}
			out.Case(hx.List("sqltx", st.label, st.class, hx.HexS(st.q), hx.HexS(obs)), obs, st.label == "W")
			out.Stat("sqltx:" + st.class + ":" + obs)
		}
	}
	// read-only database: analysis outcome
	for _, st := range rodCatalogue {
		e := newEng()
		ctx := e.Ctx()
		var aerr error
		p := hx.Safe(func() { _, aerr = e.E.AnalyzeQuery(ctx, st.q) })
		cl := errClass(aerr, p)
		obs := cl
		if cl == "ok" {
			obs = "pass"
			if st.label == "W" {
				// analysis let a write through: execute it and look at the read-only database
				b4 := rodDigest(e)
				r := e.Query(e.Ctx(), st.q)
				obs += " exec:" + errClass(r.Err, r.Panic)
				if rodDigest(e) == b4 {
					obs += " same"
				} else {
					obs += " changed"
				}
			}
		}
		out.Case(hx.List("sqldb", st.label, st.class, hx.HexS(st.q), hx.HexS(obs)), obs, st.label == "W")
		out.Stat("sqldb:" + obs)
	}
}
