// C03 — Index lookups return exactly the rows a full scan would.
//
// extract: facts regenerated from the source / the compiled code
//   - scanOpSwitch: IndexScanOp ↦ builder method(s) called by rangeBuildDefaultLeaf (go/ast)
//   - boundSwitch: for GreaterThan/GreaterOrEqual/LessThan/LessOrEqual: rounding function applied to the key
//     and the column range built for Overflow / Underflow / in range (go/ast)
//   - rangeTypeTable: MySQLRangeColumnExpr.Type() on all 25 pairs of cut kinds (run time)
//   - andNilTests: the `== nil` tests of rangeBuildAnd (the nil collection is its "no OR group applied yet" sentinel) and
//     what each of them does (go/ast)
//   - intersectTable: MySQLRangeCollection.Intersect on a grid of one-column collections — disjoint, overlapping, nested,
//     with NULL, empty — with the result and whether it is nil (run time)
//
// run:
//
//	(a) unit level: the real MySQLIndexBuilder on conjunctions of leaf predicates over 1-3 integer columns
//	    (TINYINT, TINYINT UNSIGNED, BIGINT; integer, decimal and out-of-type-range literals) vs the Lean Impl model,
//	    plus a model-free oracle: a key tuple is in the produced ranges iff every predicate is TRUE on it;
//	(b) the backend's range → filter expression (expression.NewRangeFilterExpr) evaluated on column values vs
//	    the model and vs range membership;
//	(c) engine level (property oracle): the same WHERE on an indexed table and on an index-free copy;
//	(d) unit level: the analyzer's own filter → range collection path (indexCoster.buildRoot,
//	    indexScanRangeBuilder.buildRangeCollection: rangeBuildAnd / rangeBuildOr / MySQLRangeCollection.Intersect, through the
//	    overlay accessor analyzer.VerifC03ScanRanges) on AND / OR trees of leaf predicates vs the Lean Impl model
//	    (Gms/Model/IndexScan.lean), plus the model-free oracle: a key tuple is in the ranges iff the filter is TRUE on it;
//	(e) engine level: conjunctions of OR groups on an index prefix (mutually exclusive, adjacent, overlapping, nested
//	    groups, OR of ANDs) plus plain comparisons, indexed table vs index-free copy.
package main

import (
	"fmt"
	"go/ast"
	"math"
	"math/big"
	"sort"
	"strconv"
	"strings"

	"github.com/cockroachdb/apd/v3"

	"github.com/dolthub/go-mysql-server/sql"
	"github.com/dolthub/go-mysql-server/sql/analyzer"
	"github.com/dolthub/go-mysql-server/sql/expression"
	"github.com/dolthub/go-mysql-server/sql/types"
	"github.com/dolthub/go-mysql-server/verifharness/hx"
	"github.com/dolthub/go-mysql-server/verifharness/hx/eng"
)

func main() { hx.Main(extract, run) }

// ---------------------------------------------------------------------------------------------
// canonical text of cuts / ranges (same as cmd/c46)

func keyOf(v interface{}) *big.Int {
	switch x := v.(type) {
	case int64:
		return big.NewInt(x)
	case int:
		return big.NewInt(int64(x))
	case int32:
		return big.NewInt(int64(x))
	case int16:
		return big.NewInt(int64(x))
	case int8:
		return big.NewInt(int64(x))
	case uint8:
		return big.NewInt(int64(x))
	case uint16:
		return big.NewInt(int64(x))
	case uint32:
		return big.NewInt(int64(x))
	case uint64:
		return new(big.Int).SetUint64(x)
	}
	panic(fmt.Sprintf("unexpected key %T %v", v, v))
}

func cutStr(c sql.MySQLRangeCut) string {
	switch c := c.(type) {
	case sql.BelowNull:
		return "bn"
	case sql.AboveNull:
		return "an"
	case sql.Below:
		return "b" + keyOf(c.Key).String()
	case sql.Above:
		return "a" + keyOf(c.Key).String()
	case sql.AboveAll:
		return "aa"
	case nil:
		return "nil"
	}
	return "?"
}

func colStr(c sql.MySQLRangeColumnExpr) string {
	return "(" + cutStr(c.LowerBound) + " " + cutStr(c.UpperBound) + ")"
}
func rangeStr(r sql.MySQLRange) string     { return hx.ListOf([]sql.MySQLRangeColumnExpr(r), colStr) }
func rangesStr(rs []sql.MySQLRange) string { return hx.ListOf(rs, rangeStr) }

// membership of a real key (nil = NULL), straight from the meaning of the cuts
func cutBelow(c sql.MySQLRangeCut, x *big.Int) bool {
	switch c := c.(type) {
	case sql.BelowNull:
		return true
	case sql.AboveNull:
		return x != nil
	case sql.Below:
		return x != nil && keyOf(c.Key).Cmp(x) <= 0
	case sql.Above:
		return x != nil && keyOf(c.Key).Cmp(x) < 0
	}
	return false
}

func colMember(c sql.MySQLRangeColumnExpr, x *big.Int) bool {
	return cutBelow(c.LowerBound, x) && !cutBelow(c.UpperBound, x)
}

// ---------------------------------------------------------------------------------------------
// literals, predicates

type lit struct {
	coeff *big.Int
	scale int // 0 and !dec: integer literal
	dec   bool
}

func (l lit) String() string {
	if !l.dec {
		return hx.List("i", l.coeff.String())
	}
	return hx.List("d", l.coeff.String(), strconv.Itoa(l.scale))
}

func (l lit) rat() *big.Rat {
	den := new(big.Int).Exp(big.NewInt(10), big.NewInt(int64(l.scale)), nil)
	return new(big.Rat).SetFrac(l.coeff, den)
}

// goValue: the Go value and key type the analyzer hands to the builder
func (l lit) goValue() (interface{}, sql.Type) {
	if !l.dec {
		return l.coeff.Int64(), types.Int64
	}
	d := apd.NewWithBigInt(new(apd.BigInt).SetMathBigInt(l.coeff), int32(-l.scale))
	return d, types.InternalDecimalType
}

func (l lit) sqlText() string {
	if !l.dec {
		return l.coeff.String()
	}
	s := new(big.Int).Abs(l.coeff).String()
	for len(s) <= l.scale {
		s = "0" + s
	}
	s = s[:len(s)-l.scale] + "." + s[len(s)-l.scale:]
	if l.coeff.Sign() < 0 {
		s = "-" + s
	}
	return s
}

type pred struct {
	op  string // eq in neq notin gt ge lt le isnull isnotnull
	col int
	ks  []lit
}

func (p pred) String() string {
	switch p.op {
	case "isnull", "isnotnull":
		return hx.List(p.op, strconv.Itoa(p.col))
	case "in", "notin", "eq":
		if p.op == "eq" {
			return hx.List(p.op, strconv.Itoa(p.col), hx.ListOf(p.ks, lit.String))
		}
		return hx.List(p.op, strconv.Itoa(p.col), hx.ListOf(p.ks, lit.String))
	}
	return hx.List(p.op, strconv.Itoa(p.col), p.ks[0].String())
}

// holds: SQL TRUE of the predicate on a column value (nil = NULL), exact arithmetic
func (p pred) holds(x *big.Int) bool {
	switch p.op {
	case "isnull":
		return x == nil
	case "isnotnull":
		return x != nil
	}
	if x == nil {
		return false
	}
	xr := new(big.Rat).SetInt(x)
	switch p.op {
	case "eq", "in":
		for _, k := range p.ks {
			if xr.Cmp(k.rat()) == 0 {
				return true
			}
		}
		return false
	case "neq", "notin":
		for _, k := range p.ks {
			if xr.Cmp(k.rat()) == 0 {
				return false
			}
		}
		return true
	}
	c := xr.Cmp(p.ks[0].rat())
	switch p.op {
	case "gt":
		return c > 0
	case "ge":
		return c >= 0
	case "lt":
		return c < 0
	case "le":
		return c <= 0
	}
	panic(p.op)
}

// ---------------------------------------------------------------------------------------------
// a minimal sql.Index over n integer columns

type fakeIndex struct {
	n   int
	typ sql.Type
}

func (f fakeIndex) colName(i int) string { return fmt.Sprintf("t.c%d", i) }
func (f fakeIndex) ID() string           { return "idx" }
func (f fakeIndex) Database() string     { return "d" }
func (f fakeIndex) Table() string        { return "t" }
func (f fakeIndex) Expressions() []string {
	out := make([]string, f.n)
	for i := range out {
		out[i] = f.colName(i)
	}
	return out
}
func (f fakeIndex) IsUnique() bool    { return false }
func (f fakeIndex) IsSpatial() bool   { return false }
func (f fakeIndex) IsFullText() bool  { return false }
func (f fakeIndex) IsVector() bool    { return false }
func (f fakeIndex) Comment() string   { return "" }
func (f fakeIndex) IndexType() string { return "BTREE" }
func (f fakeIndex) IsGenerated() bool { return false }
func (f fakeIndex) ColumnExpressionTypes(*sql.Context) []sql.ColumnExpressionType {
	out := make([]sql.ColumnExpressionType, f.n)
	for i := range out {
		out[i] = sql.ColumnExpressionType{Expression: f.colName(i), Type: f.typ}
	}
	return out
}
func (f fakeIndex) CanSupport(*sql.Context, ...sql.Range) bool { return true }
func (f fakeIndex) CanSupportOrderBy(sql.Expression) bool      { return false }
func (f fakeIndex) CoversColumns([]string) bool                { return false }
func (f fakeIndex) PrefixLengths() []uint16                    { return nil }

type colType struct {
	name     string
	typ      sql.Type
	min, max *big.Int
	sqlName  string
}

var colTypes = []colType{
	{"int8", types.Int8, big.NewInt(math.MinInt8), big.NewInt(math.MaxInt8), "TINYINT"},
	{"uint8", types.Uint8, big.NewInt(0), big.NewInt(math.MaxUint8), "TINYINT UNSIGNED"},
	{"int64", types.Int64, big.NewInt(math.MinInt64), big.NewInt(math.MaxInt64), "BIGINT"},
}

// ---------------------------------------------------------------------------------------------
// Facts

func extract(a hx.ExtractArgs) error {
	lf := hx.NewLeanFile("Gms.Generated.C03", "sql/analyzer/costed_index_scan.go (rangeBuildDefaultLeaf, rangeBuildAnd)", "sql/index_builder.go (bound switches)", "sql/range_column_expr.go (Type, run-time table)", "sql/range_mysql.go (MySQLRangeCollection.Intersect, run-time table)")

	// 1. IndexScanOp ↦ builder calls
	src, err := hx.ParseSrc(a.Repo, "sql/analyzer/costed_index_scan.go")
	if err != nil {
		return err
	}
	fd, err := src.Func("indexScanRangeBuilder", "rangeBuildDefaultLeaf")
	if err != nil {
		return err
	}
	var sw *ast.SwitchStmt
	ast.Inspect(fd.Body, func(n ast.Node) bool {
		if s, ok := n.(*ast.SwitchStmt); ok && sw == nil {
			sw = s
		}
		return true
	})
	if sw == nil || src.Text(sw.Tag) != "f.Op()" {
		return fmt.Errorf("rangeBuildDefaultLeaf: switch f.Op() not found")
	}
	var rows []string
	for _, st := range sw.Body.List {
		cc := st.(*ast.CaseClause)
		if cc.List == nil {
			continue
		}
		var calls []string
		for _, b := range cc.Body {
			ast.Inspect(b, func(n ast.Node) bool {
				if call, ok := n.(*ast.CallExpr); ok {
					if sel, ok := call.Fun.(*ast.SelectorExpr); ok {
						if id, ok := sel.X.(*ast.Ident); ok && id.Name == "bb" {
							cond := ""
							// record the guard of NullSafeEq
							calls = append(calls, cond+sel.Sel.Name)
						}
					}
				}
				return true
			})
		}
		for _, e := range cc.List {
			parts := make([]string, len(calls))
			for i, c := range calls {
				parts[i] = hx.LeanString(c)
			}
			rows = append(rows, fmt.Sprintf("  (%s, [%s])", hx.LeanString(strings.TrimPrefix(src.Text(e), "sql.IndexScanOp")), strings.Join(parts, ", ")))
		}
	}
	lf.Raw("/-- `case sql.IndexScanOp<X>:` of rangeBuildDefaultLeaf ↦ the MySQLIndexBuilder methods called -/\ndef scanOpSwitch : List (String × List String) := [\n" + strings.Join(rows, ",\n") + "]\n\n")

	// 2. the bound builders
	src2, err := hx.ParseSrc(a.Repo, "sql/index_builder.go")
	if err != nil {
		return err
	}
	rows = nil
	for _, m := range []string{"GreaterThan", "GreaterOrEqual", "LessThan", "LessOrEqual"} {
		fd, err := src2.Func("MySQLIndexBuilder", m)
		if err != nil {
			return err
		}
		round := ""
		ast.Inspect(fd.Body, func(n ast.Node) bool {
			if call, ok := n.(*ast.CallExpr); ok {
				if id, ok := call.Fun.(*ast.Ident); ok && (id.Name == "floor" || id.Name == "ceil") {
					if round != "" && round != id.Name {
						round = "mixed"
					} else {
						round = id.Name
					}
				}
			}
			return true
		})
		var bsw *ast.SwitchStmt
		ast.Inspect(fd.Body, func(n ast.Node) bool {
			if s, ok := n.(*ast.SwitchStmt); ok && s.Tag != nil && src2.Text(s.Tag) == "inRange" {
				bsw = s
			}
			return true
		})
		if bsw == nil {
			return fmt.Errorf("%s: switch inRange not found", m)
		}
		ctors := map[string][]string{}
		for _, st := range bsw.Body.List {
			cc := st.(*ast.CaseClause)
			key := "default"
			if cc.List != nil {
				key = src2.Text(cc.List[0])
			}
			for _, b := range cc.Body {
				ast.Inspect(b, func(n ast.Node) bool {
					if call, ok := n.(*ast.CallExpr); ok {
						if id, ok := call.Fun.(*ast.Ident); ok && strings.HasSuffix(id.Name, "RangeColumnExpr") {
							ctors[key] = append(ctors[key], strings.TrimSuffix(id.Name, "RangeColumnExpr"))
						}
					}
					return true
				})
			}
		}
		q := func(xs []string) string {
			parts := make([]string, len(xs))
			for i, x := range xs {
				parts[i] = hx.LeanString(x)
			}
			return "[" + strings.Join(parts, ", ") + "]"
		}
		rows = append(rows, fmt.Sprintf("  (%s, %s, %s, %s, %s)", hx.LeanString(m), hx.LeanString(round), q(ctors["Overflow"]), q(ctors["Underflow"]), q(ctors["default"])))
	}
	lf.Raw("/-- builder method ↦ (rounding applied to the key, range for Overflow, for Underflow, for an in-range key [exclude, include]) -/\ndef boundSwitch : List (String × String × List String × List String × List String) := [\n" + strings.Join(rows, ",\n") + "]\n\n")

	// 3. RangeType table from the compiled code
	kinds := []sql.MySQLRangeCut{sql.BelowNull{}, sql.AboveNull{}, sql.Below{Key: int64(1), Typ: types.Int64}, sql.Above{Key: int64(1), Typ: types.Int64}, sql.AboveAll{}}
	names := map[sql.RangeType]string{
		sql.RangeType_Invalid: "Invalid", sql.RangeType_Empty: "Empty", sql.RangeType_All: "All", sql.RangeType_GreaterThan: "GreaterThan",
		sql.RangeType_GreaterOrEqual: "GreaterOrEqual", sql.RangeType_LessThanOrNull: "LessThanOrNull", sql.RangeType_LessOrEqualOrNull: "LessOrEqualOrNull",
		sql.RangeType_ClosedClosed: "ClosedClosed", sql.RangeType_OpenOpen: "OpenOpen", sql.RangeType_OpenClosed: "OpenClosed",
		sql.RangeType_ClosedOpen: "ClosedOpen", sql.RangeType_EqualNull: "EqualNull",
	}
	rows = nil
	for i, lo := range kinds {
		for j, hi := range kinds {
			t := sql.MySQLRangeColumnExpr{LowerBound: lo, UpperBound: hi, Typ: types.Int64}.Type()
			n, ok := names[t]
			if !ok {
				return fmt.Errorf("unknown RangeType %d", t)
			}
			rows = append(rows, fmt.Sprintf("  (%d, %d, %s)", i, j, hx.LeanString(n)))
		}
	}
	lf.Raw("/-- (kind of lower cut, kind of upper cut, real `Type()`); kinds: 0 BelowNull, 1 AboveNull, 2 Below, 3 Above, 4 AboveAll -/\ndef rangeTypeTable : List (Nat × Nat × String) := [\n" + strings.Join(rows, ",\n") + "]\n\n")

	// 4. rangeBuildAnd: the nil tests on the accumulated collection `ret` / on an OR group's `ranges`
	fa, err := src.Func("indexScanRangeBuilder", "rangeBuildAnd")
	if err != nil {
		return err
	}
	rows = nil
	ast.Inspect(fa.Body, func(n ast.Node) bool {
		ifs, ok := n.(*ast.IfStmt)
		if !ok {
			return true
		}
		be, ok := ifs.Cond.(*ast.BinaryExpr)
		if !ok || be.Op.String() != "==" || src.Text(be.Y) != "nil" {
			return true
		}
		if x := src.Text(be.X); x != "ret" && x != "ranges" {
			return true
		}
		var stmts []string
		for _, st := range ifs.Body.List {
			stmts = append(stmts, strings.Join(strings.Fields(src.Text(st)), " "))
		}
		rows = append(rows, fmt.Sprintf("  (%s, %s)", hx.LeanString(src.Text(ifs.Cond)), hx.LeanString(strings.Join(stmts, "; "))))
		return true
	})
	if len(rows) == 0 {
		return fmt.Errorf("rangeBuildAnd: no `ret == nil` / `ranges == nil` test found")
	}
	lf.Raw("/-- the `== nil` tests of rangeBuildAnd on `ret` (accumulated collection) and `ranges` (one OR group), in source order ↦ body -/\ndef andNilTests : List (String × String) := [\n" + strings.Join(rows, ",\n") + "]\n\n")

	// 5. MySQLRangeCollection.Intersect on a grid of one-column collections, from the compiled code
	ctx := sql.NewEmptyContext()
	closed := func(l, u int64) sql.MySQLRange {
		return sql.MySQLRange{sql.ClosedRangeColumnExpr(l, u, types.Int64)}
	}
	grid := []sql.MySQLRangeCollection{
		{closed(1, 1), closed(2, 2)},
		{closed(5, 5), closed(6, 6)},
		{closed(1, 3)},
		{closed(2, 5), closed(7, 9)},
		{sql.MySQLRange{sql.NullRangeColumnExpr(types.Int64)}, sql.MySQLRange{sql.LessThanRangeColumnExpr(int64(2), types.Int64)}},
		{sql.MySQLRange{sql.EmptyRangeColumnExpr(types.Int64)}},
	}
	leanCut := func(c sql.MySQLRangeCut) (string, error) {
		switch c := c.(type) {
		case sql.BelowNull:
			return "(0, 0)", nil
		case sql.AboveNull:
			return "(1, 0)", nil
		case sql.Below:
			return fmt.Sprintf("(2, %s)", hx.LeanInt(keyOf(c.Key).Int64())), nil
		case sql.Above:
			return fmt.Sprintf("(3, %s)", hx.LeanInt(keyOf(c.Key).Int64())), nil
		case sql.AboveAll:
			return "(4, 0)", nil
		}
		return "", fmt.Errorf("unexpected cut %T", c)
	}
	leanColl := func(rs sql.MySQLRangeCollection) (string, error) {
		var parts []string
		for _, r := range rs {
			var cols []string
			for _, c := range r {
				lo, err := leanCut(c.LowerBound)
				if err != nil {
					return "", err
				}
				hi, err := leanCut(c.UpperBound)
				if err != nil {
					return "", err
				}
				cols = append(cols, "("+lo+", "+hi+")")
			}
			parts = append(parts, "["+strings.Join(cols, ", ")+"]")
		}
		return "[" + strings.Join(parts, ", ") + "]", nil
	}
	rows = nil
	for _, xs := range grid {
		for _, ys := range grid {
			var res sql.MySQLRangeCollection
			var ierr error
			if p := hx.Safe(func() { res, ierr = xs.Intersect(ctx, ys) }); p != "" || ierr != nil {
				return fmt.Errorf("MySQLRangeCollection.Intersect(%s, %s) failed: %s %v", rangesStr(xs), rangesStr(ys), p, ierr)
			}
			lx, err := leanColl(xs)
			if err != nil {
				return err
			}
			ly, err := leanColl(ys)
			if err != nil {
				return err
			}
			lr, err := leanColl(res)
			if err != nil {
				return err
			}
			rows = append(rows, fmt.Sprintf("  (%s, %s, %v, %s)", lx, ly, res == nil, lr))
		}
	}
	lf.Raw("/-- (xs, ys, `xs.Intersect(ys) == nil`, xs.Intersect(ys)) on one-column collections; a column range is (lower cut, upper cut), a cut is\n(kind, key) with kinds 0 BelowNull, 1 AboveNull, 2 Below, 3 Above, 4 AboveAll -/\ndef intersectTable : List (List (List ((Nat × Int) × (Nat × Int))) × List (List ((Nat × Int) × (Nat × Int))) × Bool × List (List ((Nat × Int) × (Nat × Int)))) := [\n" + strings.Join(rows, ",\n") + "]\n")
	return lf.Write(a.Out)
}

// ---------------------------------------------------------------------------------------------

type harness struct {
	out *hx.Out
	ctx *sql.Context
	r   *hx.Rand
}

func (h *harness) litNear(ct colType) lit {
	r := h.r
	var base *big.Int
	switch r.Intn(4) {
	case 0:
		base = new(big.Int).Add(ct.min, big.NewInt(int64(r.Range(-2, 2))))
	case 1:
		base = new(big.Int).Add(ct.max, big.NewInt(int64(r.Range(-2, 2))))
	default:
		base = big.NewInt(int64(r.Range(-3, 3)))
	}
	switch r.Intn(5) {
	case 0, 1: // integer literal (must fit int64 to be an int64 literal)
		if base.IsInt64() {
			return lit{coeff: base}
		}
		return lit{coeff: base, dec: true}
	case 2: // integral decimal, e.g. 2.0
		sc := r.Range(1, 2)
		p := new(big.Int).Exp(big.NewInt(10), big.NewInt(int64(sc)), nil)
		return lit{coeff: new(big.Int).Mul(base, p), scale: sc, dec: true}
	default: // fractional decimal around base
		sc := r.Range(1, 2)
		p := new(big.Int).Exp(big.NewInt(10), big.NewInt(int64(sc)), nil)
		c := new(big.Int).Mul(base, p)
		c.Add(c, big.NewInt(int64(r.Range(-int(p.Int64())+1, int(p.Int64())-1))))
		return lit{coeff: c, scale: sc, dec: true}
	}
}

func (h *harness) randPred(ct colType, ncols int) pred {
	r := h.r
	col := r.Intn(ncols)
	ops := []string{"eq", "neq", "gt", "ge", "lt", "le", "in", "notin", "isnull", "isnotnull", "gt", "ge", "lt", "le", "eq"}
	op := hx.Pick(r, ops)
	p := pred{op: op, col: col}
	switch op {
	case "isnull", "isnotnull":
	case "in", "notin":
		for k := 1 + r.Intn(3); k > 0; k-- {
			p.ks = append(p.ks, h.litNear(ct))
		}
	default:
		p.ks = []lit{h.litNear(ct)}
	}
	return p
}

func testPoints(ct colType, ps []pred, col int) []*big.Int {
	set := map[string]*big.Int{}
	add := func(x *big.Int) {
		if x.Cmp(ct.min) < 0 {
			x = ct.min
		}
		if x.Cmp(ct.max) > 0 {
			x = ct.max
		}
		set[x.String()] = new(big.Int).Set(x)
	}
	add(ct.min)
	add(new(big.Int).Add(ct.min, big.NewInt(1)))
	add(ct.max)
	add(new(big.Int).Sub(ct.max, big.NewInt(1)))
	for d := int64(-4); d <= 4; d++ {
		add(big.NewInt(d))
	}
	for _, p := range ps {
		if p.col != col {
			continue
		}
		for _, k := range p.ks {
			f := new(big.Int)
			den := new(big.Int).Exp(big.NewInt(10), big.NewInt(int64(k.scale)), nil)
			f.Div(k.coeff, den) // Euclidean = floor for positive divisor
			for d := int64(-1); d <= 2; d++ {
				add(new(big.Int).Add(f, big.NewInt(d)))
			}
		}
	}
	keys := make([]string, 0, len(set))
	for k := range set {
		keys = append(keys, k)
	}
	sort.Strings(keys)
	out := []*big.Int{nil}
	for _, k := range keys {
		out = append(out, set[k])
	}
	return out
}

func (h *harness) buildCase(ct colType, ncols int, ps []pred) {
	idx := fakeIndex{n: ncols, typ: ct.typ}
	var rs sql.MySQLRangeCollection
	var buildErr error
	p := hx.Safe(func() {
		b := sql.NewMySQLIndexBuilder(h.ctx, idx)
		for _, pr := range ps {
			name := idx.colName(pr.col)
			switch pr.op {
			case "eq":
				v, t := pr.ks[0].goValue()
				b = b.Equals(h.ctx, name, t, v)
			case "neq":
				v, t := pr.ks[0].goValue()
				b = b.NotEquals(h.ctx, name, t, v)
			case "in", "notin":
				var vs []interface{}
				var ts []sql.Type
				for _, k := range pr.ks {
					v, t := k.goValue()
					vs, ts = append(vs, v), append(ts, t)
				}
				if pr.op == "in" {
					b = b.In(h.ctx, name, ts, vs)
				} else {
					b = b.NotIn(h.ctx, name, ts, vs)
				}
			case "gt":
				v, t := pr.ks[0].goValue()
				b = b.GreaterThan(h.ctx, name, t, v)
			case "ge":
				v, t := pr.ks[0].goValue()
				b = b.GreaterOrEqual(h.ctx, name, t, v)
			case "lt":
				v, t := pr.ks[0].goValue()
				b = b.LessThan(h.ctx, name, t, v)
			case "le":
				v, t := pr.ks[0].goValue()
				b = b.LessOrEqual(h.ctx, name, t, v)
			case "isnull":
				b = b.IsNull(h.ctx, name)
			case "isnotnull":
				b = b.IsNotNull(h.ctx, name)
			}
		}
		_, buildErr = b.Build(h.ctx)
		rs = b.Ranges(h.ctx)
	})
	obs := rangesStr(rs)
	if p != "" {
		obs = "crash"
	} else if buildErr != nil {
		obs = "err"
	}
	payload := hx.List("build", ct.min.String(), ct.max.String(), strconv.Itoa(ncols), hx.ListOf(ps, pred.String))
	// non-trivial: some tuple satisfies the conjunction and some does not
	pts := make([][]*big.Int, ncols)
	total := 1
	for c := range pts {
		pts[c] = testPoints(ct, ps, c)
		total *= len(pts[c])
	}
	sat, unsat := 0, 0
	bad := ""
	if p == "" && buildErr == nil && total <= 20000 {
		tup := make([]*big.Int, ncols)
		var rec func(i int)
		rec = func(i int) {
			if i == ncols {
				want := true
				for _, pr := range ps {
					want = want && pr.holds(tup[pr.col])
				}
				n := 0
				for _, r := range rs {
					in := len(r) == ncols
					for c := 0; in && c < ncols; c++ {
						in = colMember(r[c], tup[c])
					}
					if in {
						n++
					}
				}
				if want {
					sat++
				} else {
					unsat++
				}
				// (the builder may repeat a range, e.g. for IN (1, 1.0); overlap removal is the caller's job: C46)
				if (want && n < 1) || (!want && n != 0) {
					if bad == "" {
						bad = fmt.Sprintf("key tuple %v: the conjunction is %v, the tuple lies in %d of the ranges %s", tupStr(tup), want, n, obs)
					}
				}
				return
			}
			for _, x := range pts[i] {
				tup[i] = x
				rec(i + 1)
			}
		}
		rec(0)
	}
	id := h.out.Case(payload, obs, sat > 0 && unsat > 0)
	h.out.Stat("build:" + ct.name + ":" + strconv.Itoa(ncols) + "col")
	for _, pr := range ps {
		h.out.Stat("pred:" + pr.op)
	}
	if p != "" || buildErr != nil {
		h.out.OracleFail(id, "-", fmt.Sprintf("MySQLIndexBuilder failed on %s: %s %v", payload, obs, buildErr))
	} else if bad != "" {
		h.out.OracleFail(id, "-", bad)
	}
}

func tupStr(t []*big.Int) string {
	parts := make([]string, len(t))
	for i, x := range t {
		if x == nil {
			parts[i] = "NULL"
		} else {
			parts[i] = x.String()
		}
	}
	return "(" + strings.Join(parts, ",") + ")"
}

// filterCases: expression.NewRangeFilterExpr for one column range, evaluated on column values.
func (h *harness) filterCases() {
	cuts := []sql.MySQLRangeCut{sql.BelowNull{}, sql.AboveNull{}, sql.AboveAll{}}
	for k := int64(0); k <= 2; k++ {
		cuts = append(cuts, sql.Below{Key: k, Typ: types.Int64}, sql.Above{Key: k, Typ: types.Int64})
	}
	names := map[sql.RangeType]string{
		sql.RangeType_Invalid: "Invalid", sql.RangeType_Empty: "Empty", sql.RangeType_All: "All", sql.RangeType_GreaterThan: "GreaterThan",
		sql.RangeType_GreaterOrEqual: "GreaterOrEqual", sql.RangeType_LessThanOrNull: "LessThanOrNull", sql.RangeType_LessOrEqualOrNull: "LessOrEqualOrNull",
		sql.RangeType_ClosedClosed: "ClosedClosed", sql.RangeType_OpenOpen: "OpenOpen", sql.RangeType_OpenClosed: "OpenClosed",
		sql.RangeType_ClosedOpen: "ClosedOpen", sql.RangeType_EqualNull: "EqualNull",
	}
	gf := expression.NewGetField(0, types.Int64, "c0", true)
	vals := []interface{}{nil, int64(-1), int64(0), int64(1), int64(2), int64(3)}
	for _, lo := range cuts {
		for _, hi := range cuts {
			c := sql.MySQLRangeColumnExpr{LowerBound: lo, UpperBound: hi, Typ: types.Int64}
			h.out.Case(hx.List("rtype", colStr(c)), names[c.Type()], true)
			h.out.Stat("rtype")
			var e sql.Expression
			var err error
			p := hx.Safe(func() { e, err = expression.NewRangeFilterExpr(h.ctx, []sql.Expression{gf}, []sql.MySQLRange{{c}}) })
			for _, v := range vals {
				obs := ""
				var x *big.Int
				vs := "null"
				if v != nil {
					x = big.NewInt(v.(int64))
					vs = x.String()
				}
				switch {
				case p != "":
					obs = "crash"
				case err != nil:
					obs = "err"
				case e == nil:
					obs = "nil"
				default:
					var res interface{}
					var eerr error
					pp := hx.Safe(func() { res, eerr = e.Eval(h.ctx, sql.Row{v}) })
					switch {
					case pp != "":
						obs = "crash"
					case eerr != nil:
						obs = "err"
					case res == true:
						obs = "t"
					default:
						obs = "f"
					}
				}
				id := h.out.Case(hx.List("filter", colStr(c), vs), obs, true)
				h.out.Stat("filter")
				// oracle: on non-inverted ranges with a valid type the filter is TRUE exactly on the members
				inverted := false
				if cc, _ := lo.Compare(h.ctx, hi, types.Int64); cc > 0 {
					inverted = true
				}
				if !inverted && c.Type() != sql.RangeType_Invalid {
					want := "f"
					if colMember(c, x) {
						want = "t"
					}
					if obs != want {
						h.out.OracleFail(id, "-", fmt.Sprintf("NewRangeFilterExpr(%s) on value %s is %s, membership says %s", colStr(c), vs, obs, want))
					}
				}
			}
		}
	}
}

// ---------------------------------------------------------------------------------------------
// (d) the analyzer's filter → range collection path on AND / OR trees

// expr: a filter tree; leaf != nil, or op ("and" / "or") with two children
type expr struct {
	op   string
	l, r *expr
	leaf *pred
}

func (e *expr) String() string {
	if e.leaf != nil {
		return e.leaf.String()
	}
	return hx.List(e.op, e.l.String(), e.r.String())
}

func (e *expr) holds(tup []*big.Int) bool {
	switch {
	case e.leaf != nil:
		return e.leaf.holds(tup[e.leaf.col])
	case e.op == "and":
		return e.l.holds(tup) && e.r.holds(tup)
	}
	return e.l.holds(tup) || e.r.holds(tup)
}

func (e *expr) leaves(acc []pred) []pred {
	if e.leaf != nil {
		return append(acc, *e.leaf)
	}
	return e.r.leaves(e.l.leaves(acc))
}

// shape features of the tree (distribution → evidence)
func (e *expr) orGroupsUnderAnd() int {
	if e.leaf != nil || e.op == "or" {
		return 0
	}
	n := 0
	for _, c := range []*expr{e.l, e.r} {
		if c.leaf == nil && c.op == "or" {
			n++
		} else {
			n += c.orGroupsUnderAnd()
		}
	}
	return n
}

func colName(i int) string { return fmt.Sprintf("c%d", i) }

// sqlExpr: the expression the planner hands to the index coster (GetField on the left, literal on the right)
func (e *expr) sqlExpr(ct colType) sql.Expression {
	if e.leaf == nil {
		if e.op == "and" {
			return expression.NewAnd(e.l.sqlExpr(ct), e.r.sqlExpr(ct))
		}
		return expression.NewOr(e.l.sqlExpr(ct), e.r.sqlExpr(ct))
	}
	p := e.leaf
	gf := expression.NewGetField(p.col, ct.typ, colName(p.col), true)
	litE := func(l lit) sql.Expression {
		v, t := l.goValue()
		return expression.NewLiteral(v, t)
	}
	tuple := func() sql.Expression {
		es := make([]sql.Expression, len(p.ks))
		for i, k := range p.ks {
			es[i] = litE(k)
		}
		return expression.NewTuple(es...)
	}
	switch p.op {
	case "eq":
		return expression.NewEquals(gf, litE(p.ks[0]))
	case "neq":
		return expression.NewNot(expression.NewEquals(gf, litE(p.ks[0])))
	case "in":
		return expression.NewInTuple(gf, tuple())
	case "notin":
		return expression.NewNot(expression.NewInTuple(gf, tuple()))
	case "gt":
		return expression.NewGreaterThan(gf, litE(p.ks[0]))
	case "ge":
		return expression.NewGreaterThanOrEqual(gf, litE(p.ks[0]))
	case "lt":
		return expression.NewLessThan(gf, litE(p.ks[0]))
	case "le":
		return expression.NewLessThanOrEqual(gf, litE(p.ks[0]))
	case "isnull":
		return expression.NewIsNull(gf)
	case "isnotnull":
		return expression.NewNot(expression.NewIsNull(gf))
	}
	panic(p.op)
}

// scanIndex: the fake index as the analyzer addresses it (`<table>.<column>` expressions)
type scanIndex struct{ fakeIndex }

func (f scanIndex) Expressions() []string {
	out := make([]string, f.n)
	for i := range out {
		out[i] = "t." + colName(i)
	}
	return out
}
func (f scanIndex) ColumnExpressionTypes(*sql.Context) []sql.ColumnExpressionType {
	out := make([]sql.ColumnExpressionType, f.n)
	for i, e := range f.Expressions() {
		out[i] = sql.ColumnExpressionType{Expression: e, Type: f.typ}
	}
	return out
}

func (h *harness) scanCase(ct colType, ncols int, e *expr) {
	idx := scanIndex{fakeIndex{n: ncols, typ: ct.typ}}
	var rs sql.MySQLRangeCollection
	var ok bool
	var err error
	p := hx.Safe(func() { _, rs, _, ok, err = analyzer.VerifC03ScanRanges(h.ctx, idx, "t", e.sqlExpr(ct)) })
	obs := rangesStr(rs)
	switch {
	case p != "":
		obs = "crash"
	case !ok:
		obs = "no-tree"
	case err != nil && strings.Contains(err.Error(), "overlapping ranges"):
		obs = "err:overlap"
	case err != nil && strings.Contains(err.Error(), "invalid index to merge"):
		obs = "err:merge"
	case err != nil:
		obs = "err"
	}
	payload := hx.List("scan", ct.min.String(), ct.max.String(), strconv.Itoa(ncols), e.String())
	ps := e.leaves(nil)
	pts := make([][]*big.Int, ncols)
	total := 1
	for c := range pts {
		pts[c] = testPoints(ct, ps, c)
		total *= len(pts[c])
	}
	sat, unsat := 0, 0
	bad := ""
	if p == "" && ok && err == nil && total <= 20000 {
		tup := make([]*big.Int, ncols)
		var rec func(i int)
		rec = func(i int) {
			if i == ncols {
				want := e.holds(tup)
				n := 0
				for _, r := range rs {
					in := len(r) == ncols
					for c := 0; in && c < ncols; c++ {
						in = colMember(r[c], tup[c])
					}
					if in {
						n++
					}
				}
				if want {
					sat++
				} else {
					unsat++
				}
				// the collection went through RemoveOverlappingRanges: a tuple lies in at most one range
				if (want && n != 1) || (!want && n != 0) {
					if bad == "" {
						bad = fmt.Sprintf("key tuple %v: the filter is %v, the tuple lies in %d of the ranges %s", tupStr(tup), want, n, obs)
					}
				}
				return
			}
			for _, x := range pts[i] {
				tup[i] = x
				rec(i + 1)
			}
		}
		rec(0)
	}
	id := h.out.Case(payload, obs, sat > 0 && unsat > 0)
	h.out.Stat("scan:" + ct.name + ":" + strconv.Itoa(ncols) + "col")
	h.out.Stat(fmt.Sprintf("scan:or-groups-under-and:%d", e.orGroupsUnderAnd()))
	if sat == 0 && p == "" && ok && err == nil {
		h.out.Stat("scan:unsatisfiable-filter")
	}
	switch {
	case p != "" || !ok || obs == "err" || obs == "err:merge":
		h.out.OracleFail(id, "-", fmt.Sprintf("the analyzer failed to build ranges for %s: %s %s %v", payload, obs, p, err))
	case obs == "err:overlap":
		// RemoveOverlappingRanges rejected a well-formed input: C46's listed finding ror_tree_missed_connection (the
		// heap model reproduces it; the driver answers `?` as Spec). Not a C03 region: kept out of the oracle.
		h.out.Stat("scan:err-overlap(C46)")
	case len(rs) == 0:
		h.out.OracleFail(id, "-", fmt.Sprintf("buildRangeCollection returned a nil / empty collection for %s (integrators need at least one range)", payload))
	case bad != "":
		h.out.OracleFail(id, "-", bad)
	}
}

// litSmall: mostly small integers (so that OR groups are disjoint, adjacent and overlapping with comparable frequency)
func (h *harness) litSmall(ct colType) lit {
	r := h.r
	switch r.Intn(10) {
	case 0, 1:
		return h.litNear(ct)
	case 2:
		return lit{coeff: new(big.Int).Add(ct.min, big.NewInt(int64(r.Range(0, 2))))}
	case 3:
		return lit{coeff: new(big.Int).Sub(ct.max, big.NewInt(int64(r.Range(0, 2))))}
	}
	return lit{coeff: big.NewInt(int64(r.Range(-1, 6)))}
}

func (h *harness) leafExpr(ct colType, ncols int, col int) *expr {
	r := h.r
	ops := []string{"eq", "eq", "eq", "in", "gt", "ge", "lt", "le", "neq", "notin", "isnull", "isnotnull", "gt", "lt"}
	p := pred{op: hx.Pick(r, ops), col: col}
	switch p.op {
	case "isnull", "isnotnull":
	case "in", "notin":
		for k := 1 + r.Intn(3); k > 0; k-- {
			p.ks = append(p.ks, h.litSmall(ct))
		}
	default:
		p.ks = []lit{h.litSmall(ct)}
	}
	return &expr{leaf: &p}
}

func joinExpr(r *hx.Rand, op string, es []*expr) *expr {
	// binary nodes in a random association (left-deep, right-deep, balanced): the analyzer flattens nested ANDs / ORs
	for len(es) > 1 {
		i := r.Intn(len(es) - 1)
		n := &expr{op: op, l: es[i], r: es[i+1]}
		es = append(append(append([]*expr{}, es[:i]...), n), es[i+2:]...)
	}
	return es[0]
}

// conjExpr: a conjunction of OR groups (each: 2-3 disjuncts, a disjunct is a leaf or a conjunction of two leaves or, at
// depth, a nested conjunction of OR groups) and plain leaves, mostly on the leading column
func (h *harness) conjExpr(ct colType, ncols int, depth int) *expr {
	r := h.r
	pickCol := func() int {
		if ncols == 1 || r.Chance(3, 4) {
			return 0
		}
		return 1 + r.Intn(ncols-1)
	}
	var parts []*expr
	for g := r.Range(1, 3); g > 0; g-- {
		col := pickCol()
		var ds []*expr
		for k := r.Range(2, 3); k > 0; k-- {
			switch {
			case depth > 0 && r.Chance(1, 8):
				ds = append(ds, h.conjExpr(ct, ncols, depth-1))
			case r.Chance(1, 5):
				ds = append(ds, joinExpr(r, "and", []*expr{h.leafExpr(ct, ncols, col), h.leafExpr(ct, ncols, pickCol())}))
			default:
				ds = append(ds, h.leafExpr(ct, ncols, col))
			}
		}
		parts = append(parts, joinExpr(r, "or", ds))
	}
	for k := r.Range(0, 2); k > 0; k-- {
		parts = append(parts, h.leafExpr(ct, ncols, pickCol()))
	}
	// shuffle
	for i := len(parts) - 1; i > 0; i-- {
		j := r.Intn(i + 1)
		parts[i], parts[j] = parts[j], parts[i]
	}
	return joinExpr(r, "and", parts)
}

// randExpr: unstructured AND / OR tree
func (h *harness) randExpr(ct colType, ncols int, depth int) *expr {
	r := h.r
	if depth == 0 || r.Chance(1, 3) {
		return h.leafExpr(ct, ncols, r.Intn(ncols))
	}
	return &expr{op: hx.Pick(r, []string{"and", "or"}), l: h.randExpr(ct, ncols, depth-1), r: h.randExpr(ct, ncols, depth-1)}
}

func (h *harness) scanCases(n int) {
	// corpus: mutually exclusive OR groups with a further restriction, adjacent / overlapping / nested groups
	il := func(v int64) lit { return lit{coeff: big.NewInt(v)} }
	lf := func(op string, col int, vs ...int64) *expr {
		p := pred{op: op, col: col}
		for _, v := range vs {
			p.ks = append(p.ks, il(v))
		}
		return &expr{leaf: &p}
	}
	or := func(a, b *expr) *expr { return &expr{op: "or", l: a, r: b} }
	and := func(a, b *expr) *expr { return &expr{op: "and", l: a, r: b} }
	g12, g56, g78, g26 := or(lf("eq", 0, 1), lf("eq", 0, 2)), or(lf("eq", 0, 5), lf("eq", 0, 6)), or(lf("eq", 0, 7), lf("eq", 0, 8)), or(lf("eq", 0, 2), lf("eq", 0, 6))
	for _, ct := range colTypes {
		for _, e := range []*expr{
			and(g12, g56),
			and(and(g12, g56), lf("gt", 0, 0)),
			and(lf("gt", 0, 0), and(g12, g56)),
			and(and(g12, g56), g78),
			and(g12, and(g56, g78)),
			and(and(g12, g26), lf("gt", 0, 0)),
			and(and(or(lf("lt", 0, 2), lf("isnull", 0)), or(lf("eq", 0, 4), lf("gt", 0, 6))), lf("neq", 0, 3)),
			and(g12, lf("gt", 0, 5)),
			or(and(lf("gt", 0, 1), lf("lt", 0, 1)), g56),
			or(and(g12, g56), lf("eq", 0, 3)),
		} {
			h.scanCase(ct, 1, e)
		}
		h.scanCase(ct, 2, and(and(and(g12, g56), lf("isnotnull", 0)), lf("eq", 1, 1)))
		h.scanCase(ct, 2, and(and(g12, or(lf("eq", 1, 1), lf("eq", 1, 2))), or(lf("eq", 1, 3), lf("eq", 0, 2))))
	}
	for i := 0; i < n; i++ {
		ct := hx.Pick(h.r, colTypes)
		ncols := 1 + h.r.Intn(2)
		if h.r.Chance(1, 8) {
			ncols = 3
		}
		e := h.randExpr(ct, ncols, 3)
		if e.leaf != nil || h.r.Chance(3, 4) {
			// (a root leaf is the `build` stream's business; the one-column IN fast path is not modelled)
			e = h.conjExpr(ct, ncols, 1)
		}
		h.scanCase(ct, ncols, e)
	}
}

// ---------------------------------------------------------------------------------------------
// engine level

type tableShape struct {
	name    string
	ddl     string // column list + keys of the indexed table
	cols    []string
	notNull bool
}

func (h *harness) engineCases(n, nOr int) {
	r := h.r
	shapes := []string{
		"KEY ia (a)",
		"KEY iab (a, b)",
		"KEY iabc (a, b, c)",
		"KEY ib (b), KEY ica (c, a)",
		"UNIQUE KEY uab (a, b)",
	}
	vals := []string{"NULL", "-128", "-127", "-3", "-2", "-1", "0", "1", "2", "3", "126", "127"}
	cvals := []string{"NULL", "0", "1", "2", "3", "254", "255"}
	e := eng.New("d")
	ctx := e.Ctx()
	type tbl struct {
		t, u string
		idx  [][]string // the columns of each secondary index
	}
	shapeIdx := [][][]string{{{"a"}}, {{"a", "b"}}, {{"a", "b", "c"}}, {{"b"}, {"c", "a"}}, {{"a", "b"}}}
	var tbls []tbl
	for i, sh := range shapes {
		t, u := fmt.Sprintf("t%d", i), fmt.Sprintf("u%d", i)
		e.MustExec(ctx, fmt.Sprintf("CREATE TABLE %s (pk INT PRIMARY KEY, a TINYINT, b TINYINT, c TINYINT UNSIGNED, %s)", t, sh))
		e.MustExec(ctx, fmt.Sprintf("CREATE TABLE %s (pk INT, a TINYINT, b TINYINT, c TINYINT UNSIGNED)", u))
		seen := map[string]bool{}
		nrows := 25 + r.Intn(25)
		var rows []string
		for k := 0; k < nrows; k++ {
			a, b, c := hx.Pick(r, vals), hx.Pick(r, vals), hx.Pick(r, cvals)
			if strings.HasPrefix(sh, "UNIQUE") {
				if a != "NULL" && b != "NULL" && seen[a+","+b] {
					continue
				}
				seen[a+","+b] = true
			}
			rows = append(rows, fmt.Sprintf("(%d,%s,%s,%s)", k, a, b, c))
		}
		ins := strings.Join(rows, ",")
		e.MustExec(ctx, fmt.Sprintf("INSERT INTO %s VALUES %s", t, ins), fmt.Sprintf("INSERT INTO %s VALUES %s", u, ins))
		tbls = append(tbls, tbl{t, u, shapeIdx[i]})
	}
	typeOf := func(col string) colType {
		if col == "c" {
			return colTypes[1]
		}
		return colTypes[0]
	}
	litFor := func(col string) lit { return h.litNear(typeOf(col)) }
	// features of the generated query that put it into a listed defect region (decided here, on the case)
	feats := map[string]bool{}
	fractional := func(l lit) bool {
		if !l.dec {
			return false
		}
		den := new(big.Int).Exp(big.NewInt(10), big.NewInt(int64(l.scale)), nil)
		return new(big.Int).Mod(l.coeff, den).Sign() != 0
	}
	outOfType := func(l lit, ct colType) bool {
		v := l.rat()
		return v.Cmp(new(big.Rat).SetInt(ct.min)) < 0 || v.Cmp(new(big.Rat).SetInt(ct.max)) > 0
	}
	inList := func(col string, k int, negated bool) string {
		ls := make([]lit, k)
		parts := make([]string, k)
		anyFrac, allDropped := false, true
		for i := range ls {
			ls[i] = litFor(col)
			parts[i] = ls[i].sqlText()
			anyFrac = anyFrac || fractional(ls[i])
			allDropped = allDropped && (fractional(ls[i]) || outOfType(ls[i], typeOf(col)))
		}
		if !ls[0].dec && anyFrac {
			feats["scan_in_list_rounds_fractional"] = true
		}
		if !negated && allDropped {
			feats["in_list_all_values_dropped"] = true
		}
		not := ""
		if negated {
			not = "NOT "
		}
		return fmt.Sprintf("%s %sIN (%s)", col, not, strings.Join(parts, ", "))
	}
	var genPred func(depth int) string
	genPred = func(depth int) string {
		if depth > 0 && r.Chance(1, 2) {
			k := 2 + r.Intn(2)
			parts := make([]string, k)
			for i := range parts {
				parts[i] = genPred(depth - 1)
			}
			op := " AND "
			if r.Bool() {
				op = " OR "
			}
			s := "(" + strings.Join(parts, op) + ")"
			if r.Chance(1, 10) {
				s = "NOT " + s
			}
			return s
		}
		col := hx.Pick(r, []string{"a", "a", "b", "c"})
		switch r.Intn(12) {
		case 0:
			return col + " IS NULL"
		case 1:
			return col + " IS NOT NULL"
		case 2:
			return inList(col, 1+r.Intn(3), false)
		case 3:
			return inList(col, 1+r.Intn(3), true)
		case 4:
			return fmt.Sprintf("%s BETWEEN %s AND %s", col, litFor(col).sqlText(), litFor(col).sqlText())
		case 5:
			return fmt.Sprintf("%s <=> %s", col, hx.Pick(r, []string{"NULL", litFor(col).sqlText()}))
		default:
			return fmt.Sprintf("%s %s %s", col, hx.Pick(r, []string{"=", "<>", "<", "<=", ">", ">=", "=", "<", ">"}), litFor(col).sqlText())
		}
	}
	runQuery := func(kind string, tb tbl, where string) {
		var fl []string
		for f := range feats {
			fl = append(fl, f)
		}
		sort.Strings(fl)
		qt := fmt.Sprintf("SELECT pk, a, b, c FROM %s WHERE %s", tb.t, where)
		qu := fmt.Sprintf("SELECT pk, a, b, c FROM %s WHERE %s", tb.u, where)
		rt := e.Query(e.Ctx(), qt)
		ru := e.Query(e.Ctx(), qu)
		ct, cu := eng.Canon(rt, false), eng.Canon(ru, false)
		ex := e.Query(e.Ctx(), "EXPLAIN FORMAT=TREE "+qt)
		usesIndex := false
		for _, row := range ex.Raw { // (plan text; Rows holds canonical hex text)
			for _, c := range row {
				if strings.Contains(fmt.Sprint(c), "IndexedTableAccess") {
					usesIndex = true
				}
			}
		}
		res := "same"
		if ct != cu {
			res = "differ"
		}
		if rt.Class() == "crash" || rt.Class() == "timeout" {
			res = rt.Class()
		}
		// inside a listed region the outcome is not predictable from the case: the observation is neutral and a
		// difference is reported through the oracle with the region decided above
		obs := res
		if len(fl) > 0 {
			obs = "region"
		}
		id := h.out.Case(hx.List("engq", hx.HexS(qt), hx.ListOf(fl, func(s string) string { return s })), obs, usesIndex && (len(rt.Rows) > 0 || kind == "engor"))
		h.out.Stat(kind)
		if usesIndex {
			h.out.Stat(kind + ":index-used")
			if len(rt.Rows) == 0 {
				h.out.Stat(kind + ":index-used:no-rows")
			}
		}
		if rt.Class() != "ok" {
			h.out.Stat(kind + ":" + rt.Class())
		}
		for _, f := range fl {
			h.out.Stat(kind + ":feature:" + f)
		}
		if res != "same" {
			region := "-"
			switch {
			case res == "crash" && feats["in_list_all_values_dropped"]:
				region = "in_list_all_values_dropped"
			case res == "differ" && feats["scan_in_list_rounds_fractional"]:
				region = "scan_in_list_rounds_fractional"
			}
			h.out.OracleFail(id, region, fmt.Sprintf("%s → %s %s; the index-free copy → %s", qt, trunc(ct), rt.Panic, trunc(cu)))
		}
	}
	for i := 0; i < n; i++ {
		tb := hx.Pick(r, tbls)
		feats = map[string]bool{}
		runQuery("engq", tb, genPred(2))
	}

	// (e) conjunctions of OR groups on an index prefix + plain comparisons: the rangeBuildAnd / Intersect path of the
	// analyzer with mutually exclusive, adjacent, overlapping and nested groups. Integer literals of the column's value
	// domain ±1 (IN lists: in-type integers only, so none of the listed IN regions applies).
	dom := func(col string) []int {
		if col == "c" {
			return []int{0, 1, 2, 3, 4, 253, 254, 255}
		}
		return []int{-128, -127, -4, -3, -2, -1, 0, 1, 2, 3, 4, 125, 126, 127}
	}
	val := func(col string) string { return strconv.Itoa(hx.Pick(r, dom(col))) }
	cmp := func(col string) string {
		switch r.Intn(12) {
		case 0:
			return col + " IS NULL"
		case 1:
			a, b := hx.Pick(r, dom(col)), hx.Pick(r, dom(col))
			if a > b {
				a, b = b, a
			}
			return fmt.Sprintf("%s BETWEEN %d AND %d", col, a, b)
		case 2:
			return fmt.Sprintf("%s IN (%s, %s)", col, val(col), val(col))
		case 3:
			// fractional bound (not in an IN list)
			return fmt.Sprintf("%s %s %s.5", col, hx.Pick(r, []string{"<", "<=", ">", ">="}), val(col))
		case 4, 5, 6, 7:
			return fmt.Sprintf("%s = %s", col, val(col))
		default:
			return fmt.Sprintf("%s %s %s", col, hx.Pick(r, []string{"<", "<=", ">", ">="}), val(col))
		}
	}
	plain := func(col string) string {
		switch r.Intn(6) {
		case 0:
			return col + " IS NOT NULL"
		case 1:
			return fmt.Sprintf("%s <> %s", col, val(col))
		case 2:
			return fmt.Sprintf("%s NOT IN (%s, %s)", col, val(col), val(col))
		default:
			return cmp(col)
		}
	}
	for i := 0; i < nOr; i++ {
		tb := hx.Pick(r, tbls)
		ix := hx.Pick(r, tb.idx)
		lead := ix[0]
		other := func() string {
			if len(ix) > 1 && r.Chance(2, 3) {
				return ix[1+r.Intn(len(ix)-1)]
			}
			return hx.Pick(r, []string{"a", "b", "c"})
		}
		pickCol := func() string {
			if r.Chance(3, 4) {
				return lead
			}
			return other()
		}
		var parts []string
		for g := r.Range(2, 3); g > 0; g-- {
			col := pickCol()
			var ds []string
			for k := r.Range(2, 3); k > 0; k-- {
				if r.Chance(1, 6) {
					ds = append(ds, "("+cmp(col)+" AND "+cmp(pickCol())+")")
				} else {
					ds = append(ds, cmp(col))
				}
			}
			parts = append(parts, "("+strings.Join(ds, " OR ")+")")
		}
		for k := r.Range(0, 2); k > 0; k-- {
			parts = append(parts, plain(pickCol()))
		}
		for i := len(parts) - 1; i > 0; i-- {
			j := r.Intn(i + 1)
			parts[i], parts[j] = parts[j], parts[i]
		}
		feats = map[string]bool{}
		runQuery("engor", tb, strings.Join(parts, " AND "))
	}
}

func trunc(s string) string {
	if len(s) > 400 {
		return s[:400] + "…"
	}
	return s
}

func run(a hx.RunArgs) error {
	out := hx.NewOut(a.OutDir)
	defer out.Close()
	out.Rule = "build: conjunctions of 1-5 leaf predicates (= <> < <= > >= IN NOT IN IS [NOT] NULL) over 1-3 columns of type TINYINT / TINYINT UNSIGNED / BIGINT, " +
		"literals near 0 and near the type bounds ±2, integer, whole decimal (2.0) and fractional decimal (2.5, -0.25); single leaves over a literal grid first; " +
		"filter/rtype: every pair of cuts over keys 0..2 × values NULL,-1..3; engq: random WHERE trees (depth ≤ 2, AND/OR/NOT, BETWEEN, <=>) on five index shapes vs an index-free copy; " +
		"engq(engor): conjunctions of 2-3 OR groups (2-3 disjuncts: = < <= > >= BETWEEN IN IS NULL, fractional bounds, OR of ANDs) mostly on the leading column of an index + 0-2 plain comparisons, integer literals of the column's value domain; " +
		"scan: the analyzer's buildRoot + buildRangeCollection on AND/OR trees over 1-3 columns (corpus of mutually exclusive / overlapping OR groups first, conjunctions of OR groups, random trees of depth ≤ 3); " +
		"non-trivial: some test tuple satisfies the conjunction / filter and some does not (build, scan), the plan uses IndexedTableAccess and returns rows (engq), the plan uses IndexedTableAccess (engor)"
	// (hx.NewRand(s+1) is hx.NewRand(s) shifted by one draw: fork, so that different seeds give unrelated streams)
	h := &harness{out: out, ctx: sql.NewEmptyContext(), r: hx.NewRand(a.Seed).Fork()}

	// corpus / exhaustive single leaves over a literal grid
	for _, ct := range colTypes {
		var lits []lit
		for _, base := range []*big.Int{ct.min, ct.max, big.NewInt(0), big.NewInt(2), big.NewInt(-2)} {
			for d := int64(-2); d <= 2; d++ {
				b := new(big.Int).Add(base, big.NewInt(d))
				if b.IsInt64() {
					lits = append(lits, lit{coeff: b})
				}
				b10 := new(big.Int).Mul(b, big.NewInt(10))
				lits = append(lits, lit{coeff: b10, scale: 1, dec: true})
				lits = append(lits, lit{coeff: new(big.Int).Add(b10, big.NewInt(5)), scale: 1, dec: true})
				lits = append(lits, lit{coeff: new(big.Int).Sub(b10, big.NewInt(3)), scale: 1, dec: true})
			}
		}
		for _, op := range []string{"eq", "neq", "gt", "ge", "lt", "le", "in", "notin"} {
			for _, l := range lits {
				h.buildCase(ct, 1, []pred{{op: op, col: 0, ks: []lit{l}}})
			}
		}
		h.buildCase(ct, 1, []pred{{op: "isnull", col: 0}})
		h.buildCase(ct, 1, []pred{{op: "isnotnull", col: 0}})
		h.buildCase(ct, 2, []pred{{op: "isnull", col: 1}, {op: "isnotnull", col: 1}})
	}
	h.filterCases()

	nBuild, nEng := 6000, 1200
	if a.Thorough {
		nBuild, nEng = 300000, 30000
	}
	for i := 0; i < nBuild; i++ {
		ct := hx.Pick(h.r, colTypes)
		ncols := 1 + h.r.Intn(3)
		np := 1 + h.r.Intn(5)
		ps := make([]pred, np)
		for k := range ps {
			ps[k] = h.randPred(ct, ncols)
		}
		h.buildCase(ct, ncols, ps)
	}
	nScan, nEngOr := 2500, 1200
	if a.Thorough {
		nScan, nEngOr = 60000, 30000
	}
	h.engineCases(nEng, nEngOr)
	h.scanCases(nScan)
	return nil
}
