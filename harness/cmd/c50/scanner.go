// C50 — the streaming side of LOAD DATA: facts about the scanner set-up and the split function,
// and the case kinds that exercise the split function on growing buffers (sp), the real
// bufio.Scanner with the real split function over arbitrary chunkings (sc), the engine's own
// scanner over an arbitrary chunking (lc: LOAD DATA LOCAL with a reader that delivers the
// chunks one per Read), and round trips through files larger than the scanner's buffer whose
// terminators land on every offset around the refill boundaries (big).
package main

import (
	"bufio"
	"context"
	"fmt"
	"go/ast"
	"io"
	"os"
	"strconv"
	"strings"

	"github.com/dolthub/go-mysql-server/sql"
	"github.com/dolthub/go-mysql-server/sql/plan"
	"github.com/dolthub/go-mysql-server/sql/types"
	"github.com/dolthub/go-mysql-server/verifharness/hx"
)

// extractScanner: how buildLoadData sets the scanner up and the shape of LoadData.SplitLines.
func extractScanner(a hx.ExtractArgs, lf *hx.LeanFile, ld *hx.Src) error {
	ddl, err := hx.ParseSrc(a.Repo, "sql/rowexec/ddl.go")
	if err != nil {
		return err
	}
	bl, err := ddl.Func("BaseBuilder", "buildLoadData")
	if err != nil {
		return err
	}
	var splitArgs, bufArgs []string
	nSplit, nBuf := 0, 0
	ast.Inspect(bl.Body, func(n ast.Node) bool {
		ce, ok := n.(*ast.CallExpr)
		if !ok {
			return true
		}
		switch ddl.Text(ce.Fun) {
		case "scanner.Split":
			nSplit++
			for _, x := range ce.Args {
				splitArgs = append(splitArgs, ddl.Text(x))
			}
		case "scanner.Buffer":
			nBuf++
			for _, x := range ce.Args {
				bufArgs = append(bufArgs, ddl.Text(x))
			}
		}
		return true
	})
	if nSplit != 1 || len(splitArgs) != 1 {
		return fmt.Errorf("buildLoadData: expected exactly one scanner.Split(f) call, found %d", nSplit)
	}
	lf.DefString("scannerSplitArg", splitArgs[0])
	lf.DefStringList("scannerBufferArgs", bufArgs)

	sl, err := ld.Func("LoadData", "SplitLines")
	if err != nil {
		return err
	}
	var indexArgs, returns, conds, assigned []string
	funcLits := 0
	seen := map[string]bool{}
	ast.Inspect(sl.Body, func(n ast.Node) bool {
		switch x := n.(type) {
		case *ast.CallExpr:
			if ld.Text(x.Fun) == "bytes.Index" {
				for _, y := range x.Args {
					indexArgs = append(indexArgs, ld.Text(y))
				}
			}
		case *ast.ReturnStmt:
			var rs []string
			for _, y := range x.Results {
				rs = append(rs, ld.Text(y))
			}
			returns = append(returns, strings.Join(rs, ", "))
		case *ast.IfStmt:
			conds = append(conds, ld.Text(x.Cond))
		case *ast.AssignStmt:
			for _, l := range x.Lhs {
				t := ld.Text(l)
				if !seen[t] {
					seen[t] = true
					assigned = append(assigned, t)
				}
			}
		case *ast.IncDecStmt:
			t := ld.Text(x.X)
			if !seen[t] {
				seen[t] = true
				assigned = append(assigned, t)
			}
		case *ast.FuncLit:
			funcLits++
		}
		return true
	})
	lf.DefStringList("splitLinesIndexArgs", indexArgs)
	lf.DefStringList("splitLinesReturns", returns)
	lf.DefStringList("splitLinesConds", conds)
	lf.DefStringList("splitLinesAssigned", assigned)
	lf.DefNat("splitLinesFuncLits", uint64(funcLits))
	return nil
}

// ---------------------------------------------------------------------------------------------
// sp: the real split function on (data, atEOF)

func spObs(adv int, tok []byte, err error) string {
	if err != nil {
		return "err"
	}
	if tok == nil {
		return strconv.Itoa(adv) + " nil"
	}
	return strconv.Itoa(adv) + " " + hx.Hex(tok)
}

func (r *runner) splitCase(lt, data string, atEOF bool) {
	l := &plan.LoadData{LinesTerminatedBy: lt}
	var obs string
	if p := hx.Safe(func() {
		adv, tok, err := l.SplitLines([]byte(data), atEOF)
		obs = spObs(adv, tok, err)
	}); p != "" {
		obs = "crash"
	}
	e := "0"
	if atEOF {
		e = "1"
	}
	r.out.Case(hx.List("sp", hx.HexS(lt), hx.HexS(data), e), obs, false)
	r.out.Stat("sp")
}

// ---------------------------------------------------------------------------------------------
// chunked readers

// chunkReader delivers one chunk per Read (cut when the caller's buffer is smaller) and records
// what it really delivered.
type chunkReader struct {
	chunks    [][]byte
	delivered [][]byte
}

func (c *chunkReader) Read(p []byte) (int, error) {
	if len(c.chunks) == 0 {
		return 0, io.EOF
	}
	n := copy(p, c.chunks[0])
	c.delivered = append(c.delivered, append([]byte(nil), c.chunks[0][:n]...))
	if n == len(c.chunks[0]) {
		c.chunks = c.chunks[1:]
	} else {
		c.chunks[0] = c.chunks[0][n:]
	}
	return n, nil
}

func (c *chunkReader) Close() error { return nil }

func cut(data string, sizes []int) [][]byte {
	var out [][]byte
	b := []byte(data)
	for i := 0; len(b) > 0; i++ {
		n := len(b)
		if i < len(sizes) && sizes[i] < n {
			n = sizes[i]
		}
		out = append(out, b[:n])
		b = b[n:]
	}
	return out
}

func chunksSexp(cs [][]byte) string {
	items := []string{"chunks"}
	// long runs of one byte inside a chunk are split off so that the payload stays small; the
	// model is told the real chunk boundaries with (j …) = "these pieces are one chunk"
	for _, c := range cs {
		items = append(items, chunkPieces(c))
	}
	return hx.List(items...)
}

func chunkPieces(c []byte) string {
	var pieces []string
	i := 0
	for i < len(c) {
		j := i
		for j < len(c) && c[j] == c[i] {
			j++
		}
		if j-i >= 32 {
			pieces = append(pieces, hx.List("r", hx.Hex(c[i:i+1]), strconv.Itoa(j-i)))
			i = j
			continue
		}
		// literal piece up to the next long run
		k := i
		for k < len(c) {
			m := k
			for m < len(c) && c[m] == c[k] {
				m++
			}
			if m-k >= 32 {
				break
			}
			k = m
		}
		pieces = append(pieces, hx.Hex(c[i:k]))
		i = k
	}
	if len(pieces) == 1 {
		return pieces[0]
	}
	if len(pieces) == 0 {
		return "x"
	}
	return hx.List(append([]string{"j"}, pieces...)...)
}

// scanCase: the real bufio.Scanner (same set-up as buildLoadData) + the real SplitLines.
func (r *runner) scanCase(lt, data string, sizes []int) {
	cr := &chunkReader{chunks: cut(data, sizes)}
	l := &plan.LoadData{LinesTerminatedBy: lt}
	var toks []string
	obs := ""
	if p := hx.Safe(func() {
		sc := bufio.NewScanner(cr)
		sc.Buffer(nil, int(types.LongTextBlobMax))
		sc.Split(l.SplitLines)
		for sc.Scan() {
			toks = append(toks, hx.Hex(sc.Bytes()))
		}
		if sc.Err() != nil {
			obs = "err"
		}
	}); p != "" {
		obs = "crash"
	}
	if obs == "" {
		obs = "(" + strings.Join(toks, " ") + ")"
	}
	r.out.Case(hx.List("sc", hx.HexS(lt), chunksSexp(cr.delivered)), obs, len(toks) > 1)
	r.out.Stat("sc")
	r.out.StatN("sc:chunks", len(cr.delivered))
}

// loadChunked: the engine's own scanner and split function over a chosen chunking — LOAD DATA
// LOCAL INFILE, the session's LoadInfile service hands out the chunk reader.
func (r *runner) loadChunked(o opts, ncols int, data string, sizes []int) {
	kinds := make([]bool, ncols)
	for i := range kinds {
		kinds[i] = true
	}
	r.setSchema(kinds)
	cr := &chunkReader{chunks: cut(data, sizes)}
	ctx := sql.NewContext(context.Background(), sql.WithSession(r.ctx.Session),
		sql.WithServices(sql.Services{LoadInfile: func(string) (io.ReadCloser, error) { return cr, nil }}))
	ld := r.e.Query(ctx, "LOAD DATA LOCAL INFILE 'client.txt' INTO TABLE g"+o.clause())
	tobs := ld.Class()
	if tobs == "ok" {
		tobs = tableObs(r.e.Query(r.ctx, "SELECT * FROM g"))
	}
	r.out.Case(hx.List("lc", o.sexp(), strconv.Itoa(ncols), chunksSexp(cr.delivered)), "t="+tobs, len(cr.delivered) > 1)
	r.out.Stat("lc")
	r.out.StatN("lc:chunks", len(cr.delivered))
}

// ---------------------------------------------------------------------------------------------
// generators

func genSizes(rnd *hx.Rand, n int) []int {
	var sizes []int
	switch rnd.Intn(4) {
	case 0: // one byte at a time
		for i := 0; i < n; i++ {
			sizes = append(sizes, 1)
		}
	case 1: // small chunks
		for t := 0; t < n; {
			k := rnd.Range(1, 4)
			sizes = append(sizes, k)
			t += k
		}
	case 2: // two or three chunks
		for i := 0; i < 2; i++ {
			sizes = append(sizes, rnd.Range(1, n+1))
		}
	default: // mixed, occasionally large
		for t := 0; t < n; {
			k := rnd.Range(1, 9)
			if rnd.Chance(1, 6) {
				k = rnd.Range(1, n+1)
			}
			sizes = append(sizes, k)
			t += k
		}
	}
	return sizes
}

// genFileBytes: a small file made of plain bytes, the terminators (whole and in pieces) and the
// other option bytes.
func genFileBytes(rnd *hx.Rand, o opts, n int) string {
	var b strings.Builder
	for k := 0; k < n; k++ {
		switch rnd.Intn(10) {
		case 0, 1:
			b.WriteString(o.ft)
		case 2, 3:
			b.WriteString(o.lt)
		case 4:
			b.WriteString(o.lt[:rnd.Intn(len(o.lt)+1)]) // a proper prefix of the terminator
		case 5:
			b.WriteString(o.enc + o.esc + o.ls)
		default:
			b.WriteString(hx.Pick(rnd, plainAlpha))
		}
	}
	return b.String()
}

var multiLT = []string{"\r\n", "\r\n", ";\n", "\n\n", "<|>", "\r\r\n", "abab", "\n"}

// streamCases: sp / sc / lc streams.
func (r *runner) streamCases(rnd *hx.Rand, n int) {
	for i := 0; i < n; i++ {
		lt := hx.Pick(rnd, multiLT)
		o := opts{ft: hx.Pick(rnd, []string{",", "\t", "||"}), esc: "\\", lt: lt}
		if rnd.Chance(1, 3) {
			o.enc, o.encOpt = "\"", rnd.Bool()
		}
		if rnd.Chance(1, 5) {
			o.ls = ">>"
		}
		data := genFileBytes(rnd, o, rnd.Intn(16))
		// the split function on every prefix of the file, as bufio calls it with a growing buffer
		if i%4 == 0 {
			for k := 0; k <= len(data); k++ {
				r.splitCase(lt, data[:k], false)
			}
			r.splitCase(lt, data, true)
		}
		r.scanCase(lt, data, genSizes(rnd, len(data)))
		r.loadChunked(o, rnd.Range(1, 3), data, genSizes(rnd, len(data)))
	}
}

// bigFiles: exports larger than the scanner's buffer. The length of one long text value is
// chosen so that the line terminator that follows it starts at every offset around a refill
// boundary of bufio.Scanner over an os.File (4096 for the first read; 8192 when the pending line
// itself is longer than 4096 bytes and the buffer is doubled). The offsets are measured on the
// file the engine really writes for the rows up to the long one, not computed.
func (r *runner) bigFiles(rnd *hx.Rand, nSets int, thorough bool) {
	T := func(s string) val { return val{text: true, s: s} }
	I := func(i int) val { return val{s: strconv.Itoa(i)} }
	// a line longer than bufio.MaxScanTokenSize (64 KiB): LOAD DATA lifts the scanner's token limit
	r.out.Stat("big:line>64KiB")
	r.roundTrip(opts{ft: ",", enc: "\"", encOpt: true, esc: "\\", lt: "\r\n"}, []bool{false, true, true},
		[][]val{{I(1), T(strings.Repeat("x", 40000)), T(strings.Repeat("y", 40000))}, {I(2), T("a"), T("")}})
	for s := 0; s < nSets; s++ {
		o := opts{ft: hx.Pick(rnd, []string{",", "\t", "||", ", "}), esc: "\\", lt: hx.Pick(rnd, multiLT)}
		if rnd.Chance(1, 2) {
			o.enc, o.encOpt = hx.Pick(rnd, []string{"\"", "'"}), rnd.Bool()
		}
		if rnd.Chance(1, 4) {
			o.ls = hx.Pick(rnd, []string{">", ">>"})
		}
		if !o.wf() {
			s--
			continue
		}
		// schema: INT, TEXT, [INT], the long value is in the last or in a middle column
		kinds := []bool{false, true}
		if rnd.Bool() {
			kinds = append(kinds, false)
		}
		fill := hx.Pick(rnd, []string{"x", "x", "a", "é", " "})
		mk := func(i int, txt string) []val {
			row := []val{I(i), T(txt)}
			if len(kinds) == 3 {
				if rnd.Chance(1, 4) {
					row = append(row, val{null: true})
				} else {
					row = append(row, I(10*i))
				}
			}
			return row
		}
		nBefore := rnd.Intn(3)
		var rows [][]val
		for i := 0; i < nBefore; i++ {
			rows = append(rows, mk(i+1, genText(rnd, o, false)))
		}
		long := len(rows)
		rows = append(rows, mk(long+1, ""))
		nAfter := rnd.Range(1, 3)
		for i := 0; i < nAfter; i++ {
			rows = append(rows, mk(long+2+i, genText(rnd, o, false)))
		}
		// which terminator is to straddle: the long row's own or that of a later row
		target := long + rnd.Intn(nAfter+1)
		// refill boundaries of bufio.Scanner over an os.File: the first read ends at 4096; when the
		// pending line is the first of the buffer and longer than it, the buffer is doubled and the
		// next read ends at 8192; when complete lines (sizeBefore bytes) were consumed from the
		// buffer first, the pending bytes are moved down and the next read ends at 4096+sizeBefore
		boundary := 4096
		if target == long && rnd.Chance(1, 3) {
			if long == 0 {
				boundary = 8192
			} else if sizeBefore := r.measure(o, kinds, rows[:long]); sizeBefore > 0 && sizeBefore < 2048 {
				boundary = 4096 + sizeBefore
			}
		}
		// measure: end offset of row `target` when the long value is empty
		base := r.measure(o, kinds, rows[:target+1])
		if base < 0 {
			continue
		}
		termStart0 := base - len(o.lt)
		unit := len(fill)
		lo, hi := -len(o.lt)-1, 1
		if thorough {
			lo, hi = -len(o.lt)-3, 3
		}
		for d := lo; d <= hi; d++ {
			want := boundary + d - termStart0 // bytes the long value has to add
			if want <= 0 || want%unit != 0 {
				continue
			}
			rows[long][1] = val{text: true, s: strings.Repeat(fill, want/unit)}
			bname := "4096"
			if boundary == 8192 {
				bname = "8192"
			} else if boundary != 4096 {
				bname = "4096+sizeBefore"
			}
			r.out.Stat(fmt.Sprintf("big:term-start=%s%+d", bname, d))
			r.out.Stat("big")
			r.roundTrip(o, kinds, rows)
		}
	}
}

// measure exports rows and returns the file size (-1 if the export failed).
func (r *runner) measure(o opts, kinds []bool, rows [][]val) int {
	r.setSchema(kinds)
	var tuples []string
	for _, row := range rows {
		ls := make([]string, len(row))
		for i, v := range row {
			ls[i] = v.lit()
		}
		tuples = append(tuples, "("+strings.Join(ls, ",")+")")
	}
	r.e.MustExec(r.ctx, "INSERT INTO s VALUES "+strings.Join(tuples, ","))
	f := r.newFile()
	defer os.Remove(f)
	if exp := r.e.Query(r.ctx, "SELECT * FROM s INTO OUTFILE "+sqlStr(f)+o.clause()); exp.Class() != "ok" {
		return -1
	}
	st, err := os.Stat(f)
	if err != nil {
		return -1
	}
	return int(st.Size())
}
