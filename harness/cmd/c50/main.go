// C50 — Data exported with INTO OUTFILE loads back identically.
//
// extract: defaults of plan.Into / plan.LoadData, the escape-sequence switch of
// loadDataIter.parseFields, the NULL spellings and the Replace call of buildInto (go/ast).
// run: real engine (in-memory backend, secure_file_priv → scratch dir): INSERT rows into `s`,
// SELECT … INTO OUTFILE, read the file bytes, LOAD DATA INFILE with the same options into an
// all-TEXT staging table `g` (compared with the Lean reader model) and into `t` (same schema as
// `s`; model-free oracle: SELECT before export = SELECT after load).
package main

import (
	"fmt"
	"go/ast"
	"go/token"
	"os"
	"path/filepath"
	"sort"
	"strconv"
	"strings"
	"unicode/utf8"

	"github.com/dolthub/go-mysql-server/sql"
	"github.com/dolthub/go-mysql-server/verifharness/hx"
	"github.com/dolthub/go-mysql-server/verifharness/hx/eng"
)

func main() { hx.Main(extract, run) }

// ---------------------------------------------------------------------------------------------
// Facts

func strConst(src *hx.Src, name string) (string, error) {
	e, err := src.PkgVarInit(name)
	if err != nil {
		return "", err
	}
	lit, ok := e.(*ast.BasicLit)
	if !ok || lit.Kind != token.STRING {
		return "", fmt.Errorf("%s: %s is not a string literal", src.Path, name)
	}
	return strconv.Unquote(lit.Value)
}

func leanBytes(s string) string {
	parts := make([]string, len(s))
	for i := 0; i < len(s); i++ {
		parts[i] = strconv.Itoa(int(s[i]))
	}
	return "[" + strings.Join(parts, ", ") + "]"
}

func extract(a hx.ExtractArgs) error {
	into, err := hx.ParseSrc(a.Repo, "sql/plan/into.go")
	if err != nil {
		return err
	}
	iters, err := hx.ParseSrc(a.Repo, "sql/rowexec/ddl_iters.go")
	if err != nil {
		return err
	}
	rel, err := hx.ParseSrc(a.Repo, "sql/rowexec/rel.go")
	if err != nil {
		return err
	}
	ld, err := hx.ParseSrc(a.Repo, "sql/plan/load_data.go")
	if err != nil {
		return err
	}
	lf := hx.NewLeanFile("Gms.Generated.C50", into.Path, iters.Path, rel.Path, ld.Path)

	// 1. defaults (shared by NewInto and NewLoadData)
	for _, n := range []string{"defaultFieldsTerminatedBy", "defaultFieldsEnclosedBy", "defaultFieldsEscapedBy", "defaultLinesStartingBy", "defaultLinesTerminatedBy"} {
		v, err := strConst(into, n)
		if err != nil {
			return err
		}
		lf.Raw(fmt.Sprintf("def %s : List UInt8 := %s\n", n, leanBytes(v)))
	}
	e, err := into.PkgVarInit("defaultFieldsEnclosedByOpt")
	if err != nil {
		return err
	}
	id, ok := e.(*ast.Ident)
	if !ok || (id.Name != "true" && id.Name != "false") {
		return fmt.Errorf("defaultFieldsEnclosedByOpt is not a boolean literal")
	}
	lf.DefBool("defaultFieldsEnclosedByOpt", id.Name == "true")
	// NewLoadData must use the same default constants
	nl, err := ld.Func("", "NewLoadData")
	if err != nil {
		return err
	}
	var ldDefaults []string
	ast.Inspect(nl.Body, func(n ast.Node) bool {
		kv, ok := n.(*ast.KeyValueExpr)
		if !ok {
			return true
		}
		k, _ := kv.Key.(*ast.Ident)
		v, _ := kv.Value.(*ast.Ident)
		if k != nil && v != nil && strings.HasPrefix(v.Name, "default") {
			ldDefaults = append(ldDefaults, k.Name+"="+v.Name)
		}
		return true
	})
	sort.Strings(ldDefaults)
	lf.DefStringList("loadDataDefaults", ldDefaults)

	// 2. escape switch of parseFields: `switch line[i] { case 'N': WriteString("NULL") … default: WriteByte(line[i]) }`
	pf, err := iters.Func("loadDataIter", "parseFields")
	if err != nil {
		return err
	}
	var table []string
	defaultIsIdentity := false
	found := 0
	ast.Inspect(pf.Body, func(n ast.Node) bool {
		sw, ok := n.(*ast.SwitchStmt)
		if !ok || iters.Text(sw.Tag) != "line[i]" {
			return true
		}
		found++
		for _, st := range sw.Body.List {
			cc := st.(*ast.CaseClause)
			if len(cc.Body) != 1 {
				table = append(table, "(999, [])")
				continue
			}
			call, _ := cc.Body[0].(*ast.ExprStmt)
			var ce *ast.CallExpr
			if call != nil {
				ce, _ = call.X.(*ast.CallExpr)
			}
			if ce == nil || len(ce.Args) != 1 {
				table = append(table, "(999, [])")
				continue
			}
			fn := iters.Text(ce.Fun)
			arg := ce.Args[0]
			var out string
			okOut := false
			switch fn {
			case "currentField.WriteString":
				if l, ok := arg.(*ast.BasicLit); ok && l.Kind == token.STRING {
					s, _ := strconv.Unquote(l.Value)
					out, okOut = leanBytes(s), true
				}
			case "currentField.WriteByte":
				if l, ok := arg.(*ast.BasicLit); ok {
					switch l.Kind {
					case token.INT:
						v, _ := strconv.ParseUint(l.Value, 0, 8)
						out, okOut = fmt.Sprintf("[%d]", v), true
					case token.CHAR:
						r, _, _, _ := strconv.UnquoteChar(l.Value[1:len(l.Value)-1], '\'')
						out, okOut = fmt.Sprintf("[%d]", r), true
					}
				} else if iters.Text(arg) == "line[i]" && cc.List == nil {
					defaultIsIdentity = true
					continue
				}
			}
			if cc.List == nil || !okOut {
				table = append(table, "(999, [])")
				continue
			}
			for _, c := range cc.List {
				l, ok := c.(*ast.BasicLit)
				if !ok || l.Kind != token.CHAR {
					table = append(table, "(999, [])")
					continue
				}
				r, _, _, _ := strconv.UnquoteChar(l.Value[1:len(l.Value)-1], '\'')
				table = append(table, fmt.Sprintf("(%d, %s)", r, out))
			}
		}
		return true
	})
	if found != 1 {
		return fmt.Errorf("parseFields: expected exactly one `switch line[i]`, found %d", found)
	}
	lf.Raw("def unescTable : List (UInt8 × List UInt8) := [" + strings.Join(table, ", ") + "]\n")
	lf.DefBool("unescDefaultIsIdentity", defaultIsIdentity)

	// 3. `switch field { case "": … case "NULL": … }` → the spellings with a special meaning
	var fieldCases []string
	ast.Inspect(pf.Body, func(n ast.Node) bool {
		sw, ok := n.(*ast.SwitchStmt)
		if !ok || iters.Text(sw.Tag) != "field" {
			return true
		}
		for _, st := range sw.Body.List {
			for _, c := range st.(*ast.CaseClause).List {
				if l, ok := c.(*ast.BasicLit); ok && l.Kind == token.STRING {
					s, _ := strconv.Unquote(l.Value)
					fieldCases = append(fieldCases, s)
				} else {
					fieldCases = append(fieldCases, "?"+iters.Text(c))
				}
			}
		}
		return true
	})
	lf.DefStringList("fieldSpecialSpellings", fieldCases)

	// 4. buildInto: string literals written for NULL and the Replace call
	bi, err := rel.Func("BaseBuilder", "buildInto")
	if err != nil {
		return err
	}
	var replaceArgs []string
	var nullWrites []string
	ast.Inspect(bi.Body, func(n ast.Node) bool {
		switch x := n.(type) {
		case *ast.CallExpr:
			if rel.Text(x.Fun) == "strings.Replace" || rel.Text(x.Fun) == "strings.ReplaceAll" {
				for _, a := range x.Args {
					replaceArgs = append(replaceArgs, rel.Text(a))
				}
			}
		case *ast.IfStmt:
			if rel.Text(x.Cond) == "val == nil" {
				ast.Inspect(x.Body, func(m ast.Node) bool {
					if l, ok := m.(*ast.BasicLit); ok && l.Kind == token.STRING {
						s, _ := strconv.Unquote(l.Value)
						nullWrites = append(nullWrites, s)
					}
					return true
				})
			}
		}
		return true
	})
	lf.DefStringList("writerReplaceArgs", replaceArgs)
	lf.DefStringList("writerNullSpellings", nullWrites)
	if err := extractScanner(a, lf, ld); err != nil {
		return err
	}
	return lf.Write(a.Out)
}

// ---------------------------------------------------------------------------------------------
// Cases

type opts struct {
	ft, enc, esc, lt, ls string
	encOpt               bool
}

func (o opts) sexp() string {
	eo := "0"
	if o.encOpt {
		eo = "1"
	}
	return hx.List("opts", hx.HexS(o.ft), hx.HexS(o.enc), eo, hx.HexS(o.esc), hx.HexS(o.lt), hx.HexS(o.ls))
}

// sqlStr renders a MySQL string literal whose value is exactly s.
func sqlStr(s string) string {
	var b strings.Builder
	b.WriteByte('\'')
	for i := 0; i < len(s); i++ {
		switch c := s[i]; c {
		case '\'':
			b.WriteString("''")
		case '\\':
			b.WriteString("\\\\")
		case '\n':
			b.WriteString("\\n")
		case '\r':
			b.WriteString("\\r")
		case 0:
			b.WriteString("\\0")
		case 26:
			b.WriteString("\\Z")
		default:
			b.WriteByte(c)
		}
	}
	b.WriteByte('\'')
	return b.String()
}

func (o opts) clause() string {
	var b strings.Builder
	b.WriteString(" FIELDS TERMINATED BY " + sqlStr(o.ft))
	if o.encOpt {
		b.WriteString(" OPTIONALLY")
	}
	b.WriteString(" ENCLOSED BY " + sqlStr(o.enc))
	b.WriteString(" ESCAPED BY " + sqlStr(o.esc))
	b.WriteString(" LINES STARTING BY " + sqlStr(o.ls))
	b.WriteString(" TERMINATED BY " + sqlStr(o.lt))
	return b.String()
}

// optsWF mirrors Gms.Outfile.optsWF (only used to steer the generator / statistics).
func (o opts) wf() bool {
	if o.ft == "" || o.lt == "" || len(o.enc) > 1 || len(o.esc) > 1 {
		return false
	}
	d := []byte{o.lt[0], o.ft[0]}
	d = append(d, o.enc...)
	d = append(d, o.esc...)
	for i := range d {
		for j := i + 1; j < len(d); j++ {
			if d[i] == d[j] {
				return false
			}
		}
		if strings.IndexByte("NULL", d[i]) >= 0 {
			return false
		}
	}
	return strings.IndexByte(o.ft, o.lt[0]) < 0 && strings.IndexByte(o.ls, o.lt[0]) < 0
}

type val struct {
	null bool
	text bool // column kind: TEXT (true) or INT (false)
	s    string
}

func (v val) sexp() string {
	switch {
	case v.null:
		return "null"
	case v.text:
		// a long run of one character is sent as (tr <hex of the character> <count>)
		if len(v.s) >= 64 {
			_, w := utf8.DecodeRuneInString(v.s)
			if len(v.s)%w == 0 && v.s == strings.Repeat(v.s[:w], len(v.s)/w) {
				return hx.List("tr", hx.HexS(v.s[:w]), strconv.Itoa(len(v.s)/w))
			}
		}
		return hx.List("t", hx.HexS(v.s))
	}
	return hx.List("n", hx.HexS(v.s))
}

func (v val) lit() string {
	switch {
	case v.null:
		return "NULL"
	case v.text:
		return sqlStr(v.s)
	}
	return v.s
}

// regionOf mirrors Gms.Outfile.region for the tags of model-free oracle failures.
func regionOf(o opts, rows [][]val) string {
	anyv := func(p func(string) bool) bool {
		for _, r := range rows {
			for _, v := range r {
				if !v.null && p(v.s) {
					return true
				}
			}
		}
		return false
	}
	has := func(c string) func(string) bool {
		return func(s string) bool { return c != "" && strings.IndexByte(s, c[0]) >= 0 }
	}
	switch {
	case anyv(func(s string) bool { return s == "NULL" }):
		return "value_is_null_spelling"
	case anyv(has(o.lt)):
		return "value_contains_line_terminator"
	case anyv(has(o.esc)):
		return "value_contains_escape"
	case anyv(has(o.enc)):
		return "value_contains_enclosure"
	}
	for _, r := range rows {
		for _, v := range r {
			enclosed := o.enc != "" && (v.text || !o.encOpt)
			if !v.null && !enclosed && strings.IndexByte(v.s, o.ft[0]) >= 0 {
				return "value_contains_field_terminator"
			}
		}
	}
	return "-"
}

type runner struct {
	e    *eng.Eng
	ctx  *sql.Context
	dir  string
	out  *hx.Out
	nf   int
	kind string // current schema signature
}

func (r *runner) setSchema(kinds []bool) {
	sig := ""
	for _, k := range kinds {
		if k {
			sig += "t"
		} else {
			sig += "i"
		}
	}
	if sig == r.kind {
		r.e.MustExec(r.ctx, "DELETE FROM s", "DELETE FROM t", "DELETE FROM g")
		return
	}
	r.kind = sig
	var cs, cg []string
	for i, k := range kinds {
		ty := "INT"
		if k {
			ty = "TEXT"
		}
		cs = append(cs, fmt.Sprintf("c%d %s", i, ty))
		cg = append(cg, fmt.Sprintf("c%d TEXT", i))
	}
	r.e.MustExec(r.ctx, "DROP TABLE IF EXISTS s", "DROP TABLE IF EXISTS t", "DROP TABLE IF EXISTS g",
		"CREATE TABLE s ("+strings.Join(cs, ", ")+")", "CREATE TABLE t ("+strings.Join(cs, ", ")+")",
		"CREATE TABLE g ("+strings.Join(cg, ", ")+")")
}

func tableObs(res *eng.Res) string {
	if c := res.Class(); c != "ok" {
		return c
	}
	return "(" + strings.Join(eng.RowStrings(res), " ") + ")"
}

func (r *runner) newFile() string {
	r.nf++
	return filepath.Join(r.dir, fmt.Sprintf("f%d.txt", r.nf))
}

// roundTrip runs one (options, rows) case.
func (r *runner) roundTrip(o opts, kinds []bool, rows [][]val) {
	r.setSchema(kinds)
	if len(rows) > 0 {
		var tuples []string
		for _, row := range rows {
			ls := make([]string, len(row))
			for i, v := range row {
				ls[i] = v.lit()
			}
			tuples = append(tuples, "("+strings.Join(ls, ",")+")")
		}
		r.e.MustExec(r.ctx, "INSERT INTO s VALUES "+strings.Join(tuples, ","))
	}
	f := r.newFile()
	defer os.Remove(f)
	before := r.e.Query(r.ctx, "SELECT * FROM s")
	exp := r.e.Query(r.ctx, "SELECT * FROM s INTO OUTFILE "+sqlStr(f)+o.clause())
	var fobs, tobs string
	if exp.Class() != "ok" {
		fobs, tobs = "export:"+exp.Class(), "export:"+exp.Class()
	} else {
		data, err := os.ReadFile(f)
		if err != nil {
			panic(err)
		}
		ld := r.e.Query(r.ctx, "LOAD DATA INFILE "+sqlStr(f)+" INTO TABLE g"+o.clause())
		tobs = ld.Class()
		if tobs == "ok" {
			tobs = tableObs(r.e.Query(r.ctx, "SELECT * FROM g"))
		}
		fobs, tobs = "f="+hx.Hex(data), "t="+tobs
	}
	rowsS := hx.List(append([]string{"rows"}, rowsSexp(rows)...)...)
	nontriv := false
	for _, row := range rows {
		for _, v := range row {
			if !v.null && v.s != "" {
				nontriv = true
			}
		}
	}
	// two protocol cases: the writer alone (file bytes; no Spec), then the round trip (table; Spec = the rows)
	r.out.Case(hx.List("wr", o.sexp(), rowsS), fobs, false)
	id := r.out.Case(hx.List("rt", o.sexp(), strconv.Itoa(len(kinds)), rowsS), tobs, nontriv && o.wf())
	reg := regionOf(o, rows)
	r.out.Stat("rt")
	if o.wf() {
		r.out.Stat("rt:opts-wf")
		r.out.Stat("rt:region:" + reg)
	} else {
		r.out.Stat("rt:opts-ambiguous")
	}
	r.out.StatN("rt:rows", len(rows))
	// model-free oracle: same-schema table after LOAD = table before export
	if exp.Class() == "ok" && o.wf() {
		ld := r.e.Query(r.ctx, "LOAD DATA INFILE "+sqlStr(f)+" INTO TABLE t"+o.clause())
		after := r.e.Query(r.ctx, "SELECT * FROM t")
		b, a := tableObs(before), tableObs(after)
		if ld.Class() != "ok" {
			a = "load:" + ld.Class()
		}
		if a != b {
			r.out.OracleFail(id, reg, fmt.Sprintf("options%s: SELECT before export %s, after LOAD DATA %s", o.clause(), b, a))
		}
	}
}

func rowsSexp(rows [][]val) []string {
	out := make([]string, len(rows))
	for i, row := range rows {
		out[i] = hx.ListOf(row, func(v val) string { return v.sexp() })
	}
	return out
}

// readOnly runs the reader alone on arbitrary file bytes (malformed stream).
func (r *runner) readOnly(o opts, ncols int, data string) {
	kinds := make([]bool, ncols)
	for i := range kinds {
		kinds[i] = true
	}
	r.setSchema(kinds)
	f := r.newFile()
	defer os.Remove(f)
	if err := os.WriteFile(f, []byte(data), 0o644); err != nil {
		panic(err)
	}
	ld := r.e.Query(r.ctx, "LOAD DATA INFILE "+sqlStr(f)+" INTO TABLE g"+o.clause())
	tobs := ld.Class()
	if tobs == "ok" {
		tobs = tableObs(r.e.Query(r.ctx, "SELECT * FROM g"))
	}
	r.out.Case(hx.List("rd", o.sexp(), strconv.Itoa(ncols), hx.HexS(data)), "t="+tobs, false)
	r.out.Stat("rd")
}

// typed: non-string column types are written with Go's %v. Oracle only (no model of %v): the
// case is reported through OracleFail with the column-type class as region.
func (r *runner) typed(colType, lit, region string) {
	r.kind = ""
	r.e.MustExec(r.ctx, "DROP TABLE IF EXISTS s", "DROP TABLE IF EXISTS t", "DROP TABLE IF EXISTS g",
		"CREATE TABLE s (c0 "+colType+")", "CREATE TABLE t (c0 "+colType+")", "CREATE TABLE g (c0 TEXT)",
		"INSERT INTO s VALUES ("+lit+")")
	f := r.newFile()
	defer os.Remove(f)
	before := r.e.Query(r.ctx, "SELECT * FROM s")
	exp := r.e.Query(r.ctx, "SELECT * FROM s INTO OUTFILE "+sqlStr(f))
	ld := r.e.Query(r.ctx, "LOAD DATA INFILE "+sqlStr(f)+" INTO TABLE t")
	after := r.e.Query(r.ctx, "SELECT * FROM t")
	b, a := tableObs(before), tableObs(after)
	if exp.Class() != "ok" || ld.Class() != "ok" {
		a = "export:" + exp.Class() + " load:" + ld.Class()
	}
	r.out.Stat("typed:" + region)
	r.out.Extra["typed "+colType+" "+lit] = map[string]string{"before": b, "after": a}
	// the model does not predict %v renderings: constant observation, the verdict comes from the oracle
	id := r.out.Case(hx.List("typed", hx.HexS(colType), hx.HexS(lit)), "typed", false)
	if a != b {
		r.out.OracleFail(id, region, fmt.Sprintf("%s value %s: SELECT before export %s, after LOAD DATA %s", colType, lit, b, a))
	}
}

var plainAlpha = []string{"a", "b", "c", "N", "U", "L", "1", "0", " ", "x", "é", "-", "_"}
var specialAlpha = []string{",", "\t", "\n", "\r", "\"", "'", "\\", "|", ";", "#", "$", ">", "N"}

func genText(r *hx.Rand, o opts, special bool) string {
	n := r.Intn(7)
	var b strings.Builder
	for i := 0; i < n; i++ {
		if special && r.Chance(1, 3) {
			switch r.Intn(6) {
			case 0:
				b.WriteString(o.ft)
			case 1:
				b.WriteString(o.lt)
			case 2:
				b.WriteString(o.enc)
			case 3:
				b.WriteString(o.esc)
			case 4:
				b.WriteString(o.ls)
			default:
				b.WriteString(hx.Pick(r, specialAlpha))
			}
		} else {
			b.WriteString(hx.Pick(r, plainAlpha))
		}
	}
	return b.String()
}

func genOpts(r *hx.Rand) opts {
	for {
		o := opts{
			ft:  hx.Pick(r, []string{"\t", "\t", ",", ",", ";", "|", "||", ", ", "ab", "\n"}),
			enc: hx.Pick(r, []string{"", "", "\"", "\"", "'", "$", "\\"}),
			esc: hx.Pick(r, []string{"\\", "\\", "\\", "", "#", "\"", "$"}),
			lt:  hx.Pick(r, []string{"\n", "\n", "\n", "\r\n", ";\n", "|", "\n\n", ","}),
			ls:  hx.Pick(r, []string{"", "", "", ">", "xx", ">>", "a\n"}),
		}
		o.encOpt = o.enc != "" && r.Chance(1, 2)
		if o.wf() || r.Chance(1, 8) {
			return o
		}
	}
}

func genRows(r *hx.Rand, o opts) ([]bool, [][]val) {
	ncols := r.Range(1, 4)
	kinds := make([]bool, ncols)
	for i := range kinds {
		kinds[i] = r.Chance(2, 3)
	}
	special := r.Chance(2, 5) // 60% of the cases have no special byte in any value
	nrows := r.Intn(5)
	rows := make([][]val, nrows)
	for i := range rows {
		row := make([]val, ncols)
		for j := range row {
			switch {
			case r.Chance(1, 7):
				row[j] = val{null: true, text: kinds[j]}
			case kinds[j]:
				s := genText(r, o, special)
				if special && r.Chance(1, 12) {
					s = hx.Pick(r, []string{"NULL", "\\N", "null", "NUL"})
				}
				row[j] = val{text: true, s: s}
			default:
				row[j] = val{s: strconv.Itoa(hx.Pick(r, []int{0, 1, -1, 7, 42, -305, 2147483647, -2147483648, r.Intn(100000)}))}
			}
		}
		rows[i] = row
	}
	return kinds, rows
}

func run(a hx.RunArgs) error {
	dir, err := os.MkdirTemp("", "verif-c50-")
	if err != nil {
		return err
	}
	defer os.RemoveAll(dir)
	if err := sql.SystemVariables.AssignValues(map[string]interface{}{"secure_file_priv": dir, "local_infile": 1}); err != nil {
		return err
	}
	out := hx.NewOut(a.OutDir)
	defer out.Close()
	out.Rule = "rt: random option sets (terminators of 1-2 bytes, enclosure, OPTIONALLY, escape, line prefix; 1/8 ambiguous sets for the " +
		"correspondence only) x 0-4 rows of 1-4 TEXT/INT columns (NULLs, empty strings, 40% of the cases with delimiter/quote/escape/newline bytes or the " +
		"NULL spelling inside values); rd: the reader alone on random bytes built from the delimiters; typed: one value per non-string column type " +
		"(oracle only); big: round trips through files larger than bufio.Scanner's 4096-byte buffer — the length of one long text value is swept so " +
		"that a (1-4 byte) line terminator starts at every offset around the 4096 / 8192 / 4096+(bytes of the lines before) refill boundary (offsets measured on the file the engine writes); " +
		"sp: the real SplitLines on every prefix of a small file (atEOF false) and on the file (atEOF true); sc: real bufio.Scanner + real SplitLines over " +
		"random chunkings (1 byte at a time, 1-4 bytes, 2-3 chunks, mixed) of files built from whole and partial terminators; lc: LOAD DATA LOCAL through " +
		"the engine with the same kind of chunked reader (the engine's own scanner and split function). A case is non-trivial when the options are " +
		"unambiguous and some value is a non-empty string (rt), or more than one token / chunk was involved (sc, lc)"
	e := eng.New("d")
	r := &runner{e: e, ctx: e.Ctx(), dir: dir, out: out}
	rnd := hx.NewRand(a.Seed)

	// secure_file_priv is in force (files outside the scratch dir are refused)
	if res := e.Query(r.ctx, "SELECT 1 INTO OUTFILE "+sqlStr(filepath.Join(os.TempDir(), "verif-c50-outside.txt"))); res.Class() == "ok" {
		os.Remove(filepath.Join(os.TempDir(), "verif-c50-outside.txt"))
		return fmt.Errorf("secure_file_priv not in force")
	}

	def := opts{ft: "\t", esc: "\\", lt: "\n"}
	csv := opts{ft: ",", enc: "\"", encOpt: true, esc: "\\", lt: "\n"}
	T := func(s string) val { return val{text: true, s: s} }
	I := func(i int) val { return val{s: strconv.Itoa(i)} }
	Nt, Ni := val{null: true, text: true}, val{null: true}
	ti := []bool{false, true, false}
	// corpus: regression / witness cases first (DESIGN §8 F-C50-a and one per region)
	r.roundTrip(csv, ti, [][]val{{I(1), T("x"), Ni}, {I(3), Nt, I(3)}, {I(6), T(""), I(6)}})
	r.roundTrip(def, ti, [][]val{{I(1), T("x"), Ni}, {I(3), Nt, I(3)}, {I(6), T(""), I(6)}})
	r.roundTrip(csv, ti, [][]val{{I(2), T("q\"uote"), Ni}})
	r.roundTrip(csv, ti, [][]val{{I(2), T("x\",y"), Ni}})
	r.roundTrip(csv, ti, [][]val{{I(4), T("back\\slash"), I(4)}})
	r.roundTrip(csv, ti, [][]val{{I(5), T("line\nbreak"), I(5)}})
	r.roundTrip(def, ti, [][]val{{I(5), T("line\nbreak"), I(5)}})
	r.roundTrip(def, ti, [][]val{{I(7), T("NULL"), I(7)}})
	r.roundTrip(opts{ft: ",", esc: "\\", lt: "\n"}, ti, [][]val{{I(8), T("a,b"), I(8)}})
	r.roundTrip(csv, ti, [][]val{{I(8), T("a,b"), I(8)}})
	r.roundTrip(def, []bool{true}, [][]val{{T("")}, {Nt}, {T("a")}})
	r.roundTrip(opts{ft: "||", enc: "'", esc: "#", lt: "\r\n", ls: ">>"}, []bool{true, false}, [][]val{{T("a b"), I(-5)}, {Nt, Ni}})
	r.readOnly(def, 2, "a\tb\nc\n\nd\te\tf")
	r.readOnly(csv, 2, "\"a,b\",\"c\nd\"\n\"x\"\"y\",z")
	r.readOnly(opts{ft: ",", enc: "\"", esc: "\"", lt: "\n"}, 2, "\"a\"\"b\",\"c\n\"d")

	for _, t := range [][3]string{
		{"BLOB", "'ab'", "binary_column_go_slice_format"}, {"VARBINARY(10)", "'ab'", "binary_column_go_slice_format"},
		{"SET('p','q')", "'p,q'", "set_column_bitmask"}, {"BIT(8)", "b'101'", "bit_column_number"},
		{"DATETIME", "'2020-01-02 03:04:05'", "-"}, {"DECIMAL(10,2)", "1.50", "-"}, {"DOUBLE", "1000000.5", "-"},
		{"ENUM('x','y')", "'y'", "-"}, {"BIGINT UNSIGNED", "18446744073709551615", "-"}, {"VARCHAR(20)", "'vc'", "-"},
	} {
		r.typed(t[0], t[1], t[2])
	}

	// streaming corpus: a CRLF cut in two by a read boundary, one byte at a time, unterminated last line
	crlf := opts{ft: ",", enc: "\"", encOpt: true, esc: "\\", lt: "\r\n"}
	r.loadChunked(crlf, 1, "a\r\nb\r\n", []int{2, 5})
	r.loadChunked(crlf, 2, "1,\"a\"\r\n2,\\N\r\n3,\"c\"", []int{6})
	r.loadChunked(crlf, 2, "1,\"a\"\r\n2,\\N\r\n3,\"c\"", []int{1, 1, 1, 1, 1, 1, 1, 1, 1, 1, 1, 1, 1, 1, 1, 1, 1, 1, 1, 1})
	r.scanCase("\r\n", "a\r\nb\r\nc", []int{2, 1, 1, 1, 1})
	r.scanCase("\r\n", strings.Repeat("x", 4095)+"\r\nb\r\n", []int{4096})
	r.splitCase("\r\n", "a\r", false)
	r.splitCase("\r\n", "a\r", true)
	r.splitCase("\r\n", "", true)

	nRT, nRD, nStream, nBig := 5000, 2000, 400, 40
	if a.Thorough {
		nRT, nRD, nStream, nBig = 150000, 50000, 20000, 300
	}
	// the streams that exercise the scanner come first: a change of the streaming reader is the
	// cheapest to find and its failing inputs are the smallest
	r.streamCases(rnd.Fork(), nStream)
	r.bigFiles(rnd.Fork(), nBig, a.Thorough)
	for i := 0; i < nRT; i++ {
		o := genOpts(rnd)
		kinds, rows := genRows(rnd, o)
		r.roundTrip(o, kinds, rows)
	}
	for i := 0; i < nRD; i++ {
		o := genOpts(rnd)
		n := rnd.Intn(14)
		var b strings.Builder
		for k := 0; k < n; k++ {
			switch rnd.Intn(9) {
			case 0, 1:
				b.WriteString(o.ft)
			case 2:
				b.WriteString(o.lt)
			case 3:
				b.WriteString(o.enc)
			case 4:
				b.WriteString(o.esc)
			case 5:
				b.WriteString(o.ls)
			case 6:
				b.WriteString(hx.Pick(rnd, specialAlpha))
			default:
				b.WriteString(hx.Pick(rnd, plainAlpha))
			}
		}
		r.readOnly(o, rnd.Range(1, 3), b.String())
	}
	return nil
}
