// C46 — Index range operations preserve the set of keys they denote (package sql: range_cut.go,
// range_column_expr.go, range_mysql.go, range_tree.go).
//
// extract: facts regenerated from the source / from the freshly compiled code
//   - compareTable: the real Cut.Compare on all 5x5 kind pairs x {k<k', k=k', k>k'}
//   - subtractSwitch: the nine-case switch of MySQLRangeColumnExpr.Subtract (go/ast)
//   - intersectRangesAssignsResult: does the loop of IntersectRanges assign to `rang`? (F-C46-a)
//   - constructor table: the cuts the exported column-range constructors produce
//
// run: correspondence of every range operation with the Lean Impl model (exact outputs, tree
// shapes included) + a model-free point-membership oracle over a small key domain.
package main

import (
	"fmt"
	"go/ast"
	"go/token"
	"sort"
	"strconv"
	"strings"
	"time"

	"github.com/dolthub/go-mysql-server/sql"
	"github.com/dolthub/go-mysql-server/sql/types"
	"github.com/dolthub/go-mysql-server/verifharness/hx"
)

func main() { hx.Main(extract, run) }

var typ = types.Int64

// ---------------------------------------------------------------------------------------------
// Cuts, canonical text

const (
	kBelowNull = iota
	kAboveNull
	kBelow
	kAbove
	kAboveAll
)

func mkCut(kind int, k int64) sql.MySQLRangeCut {
	switch kind {
	case kBelowNull:
		return sql.BelowNull{}
	case kAboveNull:
		return sql.AboveNull{}
	case kBelow:
		return sql.Below{Key: k, Typ: typ}
	case kAbove:
		return sql.Above{Key: k, Typ: typ}
	}
	return sql.AboveAll{}
}

func keyOf(v interface{}) int64 {
	switch x := v.(type) {
	case int64:
		return x
	case int:
		return int64(x)
	case int32:
		return int64(x)
	case int8:
		return int64(x)
	case int16:
		return int64(x)
	}
	panic(fmt.Sprintf("unexpected key %T %v", v, v))
}

func cutStr(c sql.MySQLRangeCut) string {
	switch c := c.(type) {
	case sql.BelowNull:
		return "bn"
	case sql.AboveNull:
		return "an"
	case sql.Below:
		return "b" + strconv.FormatInt(keyOf(c.Key), 10)
	case sql.Above:
		return "a" + strconv.FormatInt(keyOf(c.Key), 10)
	case sql.AboveAll:
		return "aa"
	case nil:
		return "nil"
	}
	return "?"
}

func colStr(c sql.MySQLRangeColumnExpr) string {
	return "(" + cutStr(c.LowerBound) + " " + cutStr(c.UpperBound) + ")"
}
func colsStr(cs []sql.MySQLRangeColumnExpr) string { return hx.ListOf(cs, colStr) }
func rangeStr(r sql.MySQLRange) string              { return hx.ListOf([]sql.MySQLRangeColumnExpr(r), colStr) }
func rangesStr(rs []sql.MySQLRange) string          { return hx.ListOf(rs, rangeStr) }
func boolStr(b bool) string {
	if b {
		return "t"
	}
	return "f"
}

// position of a cut on a doubled integer line (independent of Compare): key k sits at 4k,
// Below k at 4k-1, Above k at 4k+1.
func cutPos(c sql.MySQLRangeCut) int64 {
	switch c := c.(type) {
	case sql.BelowNull:
		return -1 << 60
	case sql.AboveNull:
		return -1<<60 + 2
	case sql.Below:
		return 4*keyOf(c.Key) - 1
	case sql.Above:
		return 4*keyOf(c.Key) + 1
	}
	return 1 << 60
}

// test points of one column: NULL and every integer and half-integer position of the domain
// (a point p stands for the key p/2; odd p lie strictly between two integer keys).
const nullPt = int64(-1 << 50)

func ptPos(p int64) int64 {
	if p == nullPt {
		return -1<<60 + 1
	}
	return 2 * p // key p/2 sits at 4*(p/2)
}

func colMember(c sql.MySQLRangeColumnExpr, p int64) bool {
	return cutPos(c.LowerBound) < ptPos(p) && ptPos(p) < cutPos(c.UpperBound)
}

func points(maxKey int64) []int64 {
	ps := []int64{nullPt}
	for p := int64(-1); p <= 2*maxKey+1; p++ {
		ps = append(ps, p)
	}
	return ps
}

func rangeMember(r sql.MySQLRange, pt []int64) bool {
	if len(r) != len(pt) {
		return false
	}
	for i := range r {
		if !colMember(r[i], pt[i]) {
			return false
		}
	}
	return true
}

// forTuples enumerates all tuples of n points; stops when f returns false.
func forTuples(ps []int64, n int, f func(pt []int64) bool) bool {
	pt := make([]int64, n)
	var rec func(i int) bool
	rec = func(i int) bool {
		if i == n {
			return f(pt)
		}
		for _, p := range ps {
			pt[i] = p
			if !rec(i + 1) {
				return false
			}
		}
		return true
	}
	return rec(0)
}

func ptStr(pt []int64) string {
	parts := make([]string, len(pt))
	for i, p := range pt {
		if p == nullPt {
			parts[i] = "NULL"
		} else if p%2 == 0 {
			parts[i] = strconv.FormatInt(p/2, 10)
		} else {
			parts[i] = strconv.FormatFloat(float64(p)/2, 'f', 1, 64)
		}
	}
	return "(" + strings.Join(parts, ",") + ")"
}

// ---------------------------------------------------------------------------------------------
// Facts

func extract(a hx.ExtractArgs) error {
	ctx := sql.NewEmptyContext()
	lf := hx.NewLeanFile("Gms.Generated.C46", "sql/range_cut.go (Compare, run-time table)", "sql/range_column_expr.go (Subtract switch)", "sql/range_mysql.go (IntersectRanges)")

	// 1. Compare table from the freshly compiled code.
	var b strings.Builder
	b.WriteString("/-- (kind a, key a, kind b, key b, real `a.Compare(b)`); kinds: 0 BelowNull, 1 AboveNull, 2 Below, 3 Above, 4 AboveAll -/\n")
	b.WriteString("def compareTable : List (Nat × Int × Nat × Int × Int) := [\n")
	first := true
	for ka := 0; ka < 5; ka++ {
		for kb := 0; kb < 5; kb++ {
			for _, keys := range [][2]int64{{1, 2}, {2, 2}, {3, 2}, {-5, 7}, {7, -5}} {
				var c int
				var err error
				p := hx.Safe(func() { c, err = mkCut(ka, keys[0]).Compare(ctx, mkCut(kb, keys[1]), typ) })
				if p != "" || err != nil {
					return fmt.Errorf("Compare(%d,%d) failed: %v %v", ka, kb, p, err)
				}
				if !first {
					b.WriteString(",\n")
				}
				first = false
				fmt.Fprintf(&b, "  (%d, %s, %d, %s, %s)", ka, hx.LeanInt(keys[0]), kb, hx.LeanInt(keys[1]), hx.LeanInt(int64(c)))
			}
		}
	}
	b.WriteString("]\n\n")
	lf.Raw(b.String())

	// 2. Subtract's switch.
	src, err := hx.ParseSrc(a.Repo, "sql/range_column_expr.go")
	if err != nil {
		return err
	}
	fd, err := src.Func("MySQLRangeColumnExpr", "Subtract")
	if err != nil {
		return err
	}
	var sw *ast.SwitchStmt
	ast.Inspect(fd.Body, func(n ast.Node) bool {
		if s, ok := n.(*ast.SwitchStmt); ok && sw == nil {
			sw = s
		}
		return true
	})
	if sw == nil || sw.Tag == nil {
		return fmt.Errorf("Subtract: switch with a tag not found")
	}
	lf.DefString("subtractSwitchTag", src.Text(sw.Tag))
	// lComp / uComp definitions
	comps := map[string]string{}
	ast.Inspect(fd.Body, func(n ast.Node) bool {
		as, ok := n.(*ast.AssignStmt)
		if !ok || len(as.Lhs) != 2 || len(as.Rhs) != 1 {
			return true
		}
		if id, ok := as.Lhs[0].(*ast.Ident); ok && (id.Name == "lComp" || id.Name == "uComp") {
			if call, ok := as.Rhs[0].(*ast.CallExpr); ok && len(call.Args) >= 2 {
				comps[id.Name] = src.Text(call.Fun) + " " + src.Text(call.Args[1])
			}
		}
		return true
	})
	lf.DefString("subtractLComp", comps["lComp"])
	lf.DefString("subtractUComp", comps["uComp"])
	type piece struct{ lo, hi string }
	cases := map[int64][]piece{}
	hasDefaultPanic := false
	for _, st := range sw.Body.List {
		cc := st.(*ast.CaseClause)
		if cc.List == nil {
			if len(cc.Body) == 1 {
				if es, ok := cc.Body[0].(*ast.ExprStmt); ok {
					if call, ok := es.X.(*ast.CallExpr); ok && src.Text(call.Fun) == "panic" {
						hasDefaultPanic = true
					}
				}
			}
			continue
		}
		if len(cc.Body) != 1 {
			return fmt.Errorf("Subtract: case with %d statements", len(cc.Body))
		}
		ret, ok := cc.Body[0].(*ast.ReturnStmt)
		if !ok || len(ret.Results) != 2 || src.Text(ret.Results[1]) != "nil" {
			return fmt.Errorf("Subtract: unexpected case body %s", src.Text(cc.Body[0]))
		}
		var ps []piece
		switch r := ret.Results[0].(type) {
		case *ast.Ident:
			if r.Name != "nil" {
				return fmt.Errorf("Subtract: unexpected result %s", r.Name)
			}
		case *ast.CompositeLit:
			for _, el := range r.Elts {
				cl, ok := el.(*ast.CompositeLit)
				if !ok || len(cl.Elts) != 3 || src.Text(cl.Elts[2]) != "r.Typ" {
					return fmt.Errorf("Subtract: unexpected piece %s", src.Text(el))
				}
				ps = append(ps, piece{src.Text(cl.Elts[0]), src.Text(cl.Elts[1])})
			}
		default:
			return fmt.Errorf("Subtract: unexpected result %s", src.Text(ret.Results[0]))
		}
		for _, e := range cc.List {
			lit, ok := e.(*ast.BasicLit)
			if !ok || lit.Kind != token.INT {
				return fmt.Errorf("Subtract: non-literal case %s", src.Text(e))
			}
			n, _ := strconv.ParseInt(lit.Value, 10, 64)
			if _, dup := cases[n]; dup {
				return fmt.Errorf("Subtract: duplicate case %d", n)
			}
			if ps == nil {
				ps = []piece{}
			}
			cases[n] = ps
		}
	}
	var keys []int64
	for k := range cases {
		keys = append(keys, k)
	}
	sort.Slice(keys, func(i, j int) bool { return keys[i] < keys[j] })
	b.Reset()
	b.WriteString("/-- `case n:` of the switch in `Subtract` ↦ pieces returned (lower bound, upper bound) -/\n")
	b.WriteString("def subtractSwitch : List (Int × List (String × String)) := [\n")
	for i, k := range keys {
		parts := make([]string, len(cases[k]))
		for j, p := range cases[k] {
			parts[j] = "(" + hx.LeanString(p.lo) + ", " + hx.LeanString(p.hi) + ")"
		}
		sep := ","
		if i == len(keys)-1 {
			sep = ""
		}
		fmt.Fprintf(&b, "  (%s, [%s])%s\n", hx.LeanInt(k), strings.Join(parts, ", "), sep)
	}
	b.WriteString("]\n")
	lf.Raw(b.String())
	lf.DefBool("subtractDefaultPanics", hasDefaultPanic)

	// 3. IntersectRanges: is the intersection assigned back to `rang` inside the second loop?
	src2, err := hx.ParseSrc(a.Repo, "sql/range_mysql.go")
	if err != nil {
		return err
	}
	fi, err := src2.Func("", "IntersectRanges")
	if err != nil {
		return err
	}
	var loops []*ast.ForStmt
	for _, st := range fi.Body.List {
		if f, ok := st.(*ast.ForStmt); ok {
			loops = append(loops, f)
		}
	}
	if len(loops) != 2 {
		return fmt.Errorf("IntersectRanges: expected two top-level for loops, found %d", len(loops))
	}
	assigns, computes := false, false
	ast.Inspect(loops[1].Body, func(n ast.Node) bool {
		as, ok := n.(*ast.AssignStmt)
		if !ok {
			return true
		}
		for _, l := range as.Lhs {
			if id, ok := l.(*ast.Ident); ok && id.Name == "rang" {
				assigns = true
			}
		}
		for _, r := range as.Rhs {
			if strings.HasPrefix(src2.Text(r), "rang.Intersect(") {
				computes = true
			}
		}
		return true
	})
	if !computes {
		return fmt.Errorf("IntersectRanges: call rang.Intersect(...) not found in the second loop")
	}
	lf.DefBool("intersectRangesAssignsResult", assigns)

	// 4. Constructors, from the compiled code.
	cons := []struct {
		name string
		c    sql.MySQLRangeColumnExpr
	}{
		{"open", sql.OpenRangeColumnExpr(int64(1), int64(2), typ)},
		{"closed", sql.ClosedRangeColumnExpr(int64(1), int64(2), typ)},
		{"lessThan", sql.LessThanRangeColumnExpr(int64(2), typ)},
		{"lessOrEqual", sql.LessOrEqualRangeColumnExpr(int64(2), typ)},
		{"greaterThan", sql.GreaterThanRangeColumnExpr(int64(1), typ)},
		{"greaterOrEqual", sql.GreaterOrEqualRangeColumnExpr(int64(1), typ)},
		{"all", sql.AllRangeColumnExpr(typ)},
		{"empty", sql.EmptyRangeColumnExpr(typ)},
		{"null", sql.NullRangeColumnExpr(typ)},
		{"notNull", sql.NotNullRangeColumnExpr(typ)},
		{"open-nil", sql.OpenRangeColumnExpr(nil, int64(2), typ)},
		{"closed-nil", sql.ClosedRangeColumnExpr(int64(1), nil, typ)},
		{"lessThan-nil", sql.LessThanRangeColumnExpr(nil, typ)},
		{"greaterOrEqual-nil", sql.GreaterOrEqualRangeColumnExpr(nil, typ)},
	}
	b.Reset()
	b.WriteString("/-- exported constructors called with lower key 1 / upper key 2 ↦ (lower cut, upper cut) -/\n")
	b.WriteString("def constructors : List (String × String × String) := [\n")
	for i, c := range cons {
		sep := ","
		if i == len(cons)-1 {
			sep = ""
		}
		fmt.Fprintf(&b, "  (%s, %s, %s)%s\n", hx.LeanString(c.name), hx.LeanString(cutStr(c.c.LowerBound)), hx.LeanString(cutStr(c.c.UpperBound)), sep)
	}
	b.WriteString("]\n")
	lf.Raw(b.String())
	return lf.Write(a.Out)
}

// ---------------------------------------------------------------------------------------------
// Tree shape (overlay accessor) in the model's text form

func shapeStr(tree *sql.MySQLRangeColumnExprTree) string {
	size, nodes := tree.VerifShape()
	return shapeNodes(size, nodes)
}

func shapeNodes(size int, nodes []sql.VerifTreeNode) string {
	var b strings.Builder
	fmt.Fprintf(&b, "[%d", size)
	for _, n := range nodes {
		col := "b"
		if n.Red {
			col = "r"
		}
		inner := "-"
		if n.Inner != nil {
			inner = shapeNodes(n.InnerSize, n.Inner)
		}
		fmt.Fprintf(&b, "(%c%s %s %s %s %s)", n.Side, col, cutStr(n.LowerBound), cutStr(n.UpperBound), cutStr(n.MaxUpperbound), inner)
	}
	b.WriteString("]")
	return b.String()
}

// stored ranges of the tree, from the shape dump (set semantics oracle)
func storedOf(nodes []sql.VerifTreeNode) []sql.MySQLRange {
	var out []sql.MySQLRange
	for _, n := range nodes {
		c := sql.MySQLRangeColumnExpr{LowerBound: n.LowerBound, UpperBound: n.UpperBound, Typ: typ}
		if n.Inner == nil {
			out = append(out, sql.MySQLRange{c})
		} else {
			for _, r := range storedOf(n.Inner) {
				out = append(out, append(sql.MySQLRange{c}, r...))
			}
		}
	}
	return out
}

// ---------------------------------------------------------------------------------------------
// Generators

type gen struct {
	r      *hx.Rand
	cuts   []sql.MySQLRangeCut
	maxKey int64
}

func newGen(r *hx.Rand, maxKey int64) *gen {
	g := &gen{r: r, maxKey: maxKey}
	g.cuts = []sql.MySQLRangeCut{sql.BelowNull{}, sql.AboveNull{}}
	for k := int64(0); k <= maxKey; k++ {
		g.cuts = append(g.cuts, sql.Below{Key: k, Typ: typ}, sql.Above{Key: k, Typ: typ})
	}
	g.cuts = append(g.cuts, sql.AboveAll{})
	return g
}

func (g *gen) allCols() []sql.MySQLRangeColumnExpr {
	var out []sql.MySQLRangeColumnExpr
	for _, lo := range g.cuts {
		for _, hi := range g.cuts {
			out = append(out, sql.MySQLRangeColumnExpr{LowerBound: lo, UpperBound: hi, Typ: typ})
		}
	}
	return out
}

// col: a well-formed column range: non-empty (lo < hi), or — with small probability — the
// canonical empty range (AboveAll, AboveAll) the code itself produces.
func (g *gen) col() sql.MySQLRangeColumnExpr {
	if g.r.Chance(1, 25) {
		return sql.EmptyRangeColumnExpr(typ)
	}
	for {
		lo, hi := hx.Pick(g.r, g.cuts), hx.Pick(g.r, g.cuts)
		if cutPos(lo) < cutPos(hi) {
			return sql.MySQLRangeColumnExpr{LowerBound: lo, UpperBound: hi, Typ: typ}
		}
	}
}

// anyCol: any pair of cuts, inverted ones included (malformed stream).
func (g *gen) anyCol() sql.MySQLRangeColumnExpr {
	return sql.MySQLRangeColumnExpr{LowerBound: hx.Pick(g.r, g.cuts), UpperBound: hx.Pick(g.r, g.cuts), Typ: typ}
}

func (g *gen) rng(n int, wf bool) sql.MySQLRange {
	out := make(sql.MySQLRange, n)
	for i := range out {
		if wf {
			out[i] = g.col()
		} else {
			out[i] = g.anyCol()
		}
	}
	return out
}

// near: a range that shares most columns with base (so that merges / single-column differences occur)
func (g *gen) near(base sql.MySQLRange, wf bool) sql.MySQLRange {
	out := base.Copy()
	for k := 1 + g.r.Intn(2); k > 0; k-- {
		i := g.r.Intn(len(out))
		if wf {
			out[i] = g.col()
		} else {
			out[i] = g.anyCol()
		}
	}
	return out
}

func (g *gen) ranges(n, cnt int, wf bool) []sql.MySQLRange {
	out := make([]sql.MySQLRange, 0, cnt)
	for i := 0; i < cnt; i++ {
		if i > 0 && g.r.Chance(1, 3) {
			out = append(out, g.near(out[g.r.Intn(len(out))], wf))
		} else {
			out = append(out, g.rng(n, wf))
		}
	}
	return out
}

func isWF(rs []sql.MySQLRange) bool {
	for _, r := range rs {
		if len(r) == 0 || len(r) != len(rs[0]) {
			return false
		}
		for _, c := range r {
			lo, hi := cutPos(c.LowerBound), cutPos(c.UpperBound)
			if lo > hi || (lo == hi && lo != 1<<60) {
				return false
			}
		}
	}
	return true
}

// ---------------------------------------------------------------------------------------------

type harness struct {
	out *hx.Out
	ctx *sql.Context
	pts []int64
}

func (h *harness) fail(id, desc string) { h.out.OracleFail(id, "-", desc) }

func (h *harness) unionMember(rs []sql.MySQLRange, pt []int64) int {
	n := 0
	for _, r := range rs {
		if rangeMember(r, pt) {
			n++
		}
	}
	return n
}

func (h *harness) cmpCase(a, b sql.MySQLRangeCut) {
	var c int
	var err error
	p := guard("cmp", func() { c, err = a.Compare(h.ctx, b, typ) })
	obs := strconv.Itoa(c)
	if p != "" {
		obs = p
	} else if err != nil {
		obs = "err"
	}
	id := h.out.Case(hx.List("cmp", cutStr(a), cutStr(b)), obs, cutStr(a) != cutStr(b))
	h.out.Stat("cmp")
	want := 0
	if cutPos(a) < cutPos(b) {
		want = -1
	} else if cutPos(a) > cutPos(b) {
		want = 1
	}
	if obs != strconv.Itoa(want) {
		h.fail(id, fmt.Sprintf("%s.Compare(%s) = %s, the cuts' positions give %d", cutStr(a), cutStr(b), obs, want))
	}
}

func (h *harness) colCases(r, o sql.MySQLRangeColumnExpr) {
	if skip("ce") {
		return
	}
	ctx := h.ctx
	nt := colStr(r) != colStr(o)
	emit := func(op string, f func() string) string {
		var obs string
		if g := guard("ce", func() { obs = f() }); g != "" {
			obs = g
		}
		h.out.Stat("ce:" + op)
		return h.out.Case(hx.List("ce", op, colStr(r), colStr(o)), obs, nt)
	}
	memAll := func(f func(p int64) bool) (bool, int64) {
		for _, p := range h.pts {
			if !f(p) {
				return false, p
			}
		}
		return true, 0
	}
	var eq bool
	emit("equals", func() string { e, _ := r.Equals(ctx, o); eq = e; return boolStr(e) })
	_ = eq
	var conn bool
	id := emit("isconn", func() string { c, _ := r.IsConnected(ctx, o); conn = c; return boolStr(c) })
	// connected ⇔ no point strictly between them and they are not separated
	wantConn := cutPos(r.LowerBound) <= cutPos(o.UpperBound) && cutPos(o.LowerBound) <= cutPos(r.UpperBound)
	if conn != wantConn {
		h.fail(id, fmt.Sprintf("IsConnected(%s,%s)=%v, positions say %v", colStr(r), colStr(o), conn, wantConn))
	}
	var ov sql.MySQLRangeColumnExpr
	var ovOk bool
	id = emit("overlaps", func() string {
		x, ok, _ := r.Overlaps(ctx, o)
		ov, ovOk = x, ok
		if ok {
			return "(t " + colStr(x) + ")"
		}
		return "f"
	})
	if ok, p := memAll(func(p int64) bool {
		both := colMember(r, p) && colMember(o, p)
		if ovOk {
			return colMember(ov, p) == both
		}
		return !both
	}); !ok {
		h.fail(id, fmt.Sprintf("Overlaps(%s,%s)=%v %s is not the intersection at point %s", colStr(r), colStr(o), ovOk, colStr(ov), ptStr([]int64{p})))
	}
	var sub []sql.MySQLRangeColumnExpr
	subCrash := false
	id = emit("subtract", func() string {
		subCrash = true
		s, _ := r.Subtract(ctx, o)
		sub = s
		subCrash = false
		return colsStr(s)
	})
	if !subCrash && cutPos(o.LowerBound) <= cutPos(o.UpperBound) { // precondition: the subtrahend is not inverted
		if ok, p := memAll(func(p int64) bool {
			n := 0
			for _, s := range sub {
				if colMember(s, p) {
					n++
				}
			}
			want := 0
			if colMember(r, p) && !colMember(o, p) {
				want = 1
			}
			return n == want
		}); !ok {
			h.fail(id, fmt.Sprintf("Subtract(%s,%s)=%s is not the difference at point %s", colStr(r), colStr(o), colsStr(sub), ptStr([]int64{p})))
		}
	}
	var isSub bool
	id = emit("subset", func() string { s, _ := r.IsSubsetOf(ctx, o); isSub = s; return boolStr(s) })
	rEmpty := cutPos(r.LowerBound) >= cutPos(r.UpperBound)
	if ok, _ := memAll(func(p int64) bool { return !colMember(r, p) || colMember(o, p) }); (isSub && !ok) || (!isSub && ok && !rEmpty) {
		h.fail(id, fmt.Sprintf("IsSubsetOf(%s,%s)=%v contradicts point membership", colStr(r), colStr(o), isSub))
	}
	var ti sql.MySQLRangeColumnExpr
	var tiOk bool
	id = emit("tryint", func() string {
		x, ok, _ := r.TryIntersect(ctx, o)
		ti, tiOk = x, ok
		if ok {
			return "(t " + colStr(x) + ")"
		}
		return "f"
	})
	if ok, p := memAll(func(p int64) bool { return colMember(ti, p) == (colMember(r, p) && colMember(o, p)) }); !ok {
		h.fail(id, fmt.Sprintf("TryIntersect(%s,%s)=%v %s is not the intersection at point %s", colStr(r), colStr(o), tiOk, colStr(ti), ptStr([]int64{p})))
	}
	var tu sql.MySQLRangeColumnExpr
	var tuOk bool
	id = emit("tryunion", func() string {
		x, ok, _ := r.TryUnion(ctx, o)
		tu, tuOk = x, ok
		if ok {
			return "(t " + colStr(x) + ")"
		}
		return "f"
	})
	if tuOk {
		if ok, p := memAll(func(p int64) bool { return colMember(tu, p) == (colMember(r, p) || colMember(o, p)) }); !ok {
			h.fail(id, fmt.Sprintf("TryUnion(%s,%s)=%s is not the union at point %s", colStr(r), colStr(o), colStr(tu), ptStr([]int64{p})))
		}
	} else if wantConn {
		h.fail(id, fmt.Sprintf("TryUnion(%s,%s) refused although the ranges touch", colStr(r), colStr(o)))
	}
}

func (h *harness) simplifyCase(cs []sql.MySQLRangeColumnExpr) {
	if skip("simplify") {
		return
	}
	var res []sql.MySQLRangeColumnExpr
	var err error
	p := guard("simplify", func() { res, err = sql.SimplifyRangeColumn(h.ctx, cs...) })
	obs := colsStr(res)
	if p != "" {
		obs = p
	} else if err != nil {
		obs = "err"
	}
	id := h.out.Case(hx.List("simplify", colsStr(cs)), obs, len(res) > 0 && len(res) < len(cs))
	h.out.Stat("simplify")
	if p != "" || err != nil {
		h.fail(id, "SimplifyRangeColumn failed: "+obs)
		return
	}
	for _, pt := range h.pts {
		in := false
		for _, c := range cs {
			in = in || colMember(c, pt)
		}
		n := 0
		for _, c := range res {
			if colMember(c, pt) {
				n++
			}
		}
		if (in && n != 1) || (!in && n != 0) {
			h.fail(id, fmt.Sprintf("SimplifyRangeColumn(%s)=%s: point %s is in %d result ranges, in the input: %v", colsStr(cs), obs, ptStr([]int64{pt}), n, in))
			return
		}
	}
	for i := range res {
		if cutPos(res[i].LowerBound) >= cutPos(res[i].UpperBound) || (i > 0 && cutPos(res[i-1].UpperBound) >= cutPos(res[i].LowerBound)) {
			h.fail(id, fmt.Sprintf("SimplifyRangeColumn(%s)=%s is not sorted / separated / non-empty", colsStr(cs), obs))
			return
		}
	}
}

func (h *harness) rangePairCases(a, b sql.MySQLRange) {
	if skip("rg") {
		return
	}
	ctx := h.ctx
	nt := rangeStr(a) != rangeStr(b)
	n := len(a)
	emit := func(op string, f func() string) string {
		var obs string
		if g := guard("rg", func() { obs = f() }); g != "" {
			obs = g
		}
		h.out.Stat("rg:" + op)
		return h.out.Case(hx.List("rg", op, rangeStr(a), rangeStr(b)), obs, nt)
	}
	emit("equals", func() string { e, _ := a.Equals(ctx, b); return boolStr(e) })
	emit("compare", func() string {
		c, err := a.Compare(ctx, b)
		if err != nil {
			return "err"
		}
		return strconv.Itoa(c)
	})
	var inter sql.MySQLRange
	id := emit("intersect", func() string { x, _ := a.Intersect(ctx, b); inter = x; return rangeStr(x) })
	if len(a) == len(b) && n > 0 {
		forTuples(h.pts, n, func(pt []int64) bool {
			if rangeMember(inter, pt) != (rangeMember(a, pt) && rangeMember(b, pt)) {
				h.fail(id, fmt.Sprintf("Intersect(%s,%s)=%s wrong at %s", rangeStr(a), rangeStr(b), rangeStr(inter), ptStr(pt)))
				return false
			}
			return true
		})
	}
	var merged sql.MySQLRange
	var mergedOk bool
	id = emit("trymerge", func() string {
		m, ok, err := a.TryMerge(ctx, b)
		if err != nil {
			return "err"
		}
		merged, mergedOk = m, ok
		if ok {
			return "(yes " + rangeStr(m) + ")"
		}
		return "no"
	})
	if mergedOk {
		forTuples(h.pts, n, func(pt []int64) bool {
			if rangeMember(merged, pt) != (rangeMember(a, pt) || rangeMember(b, pt)) {
				h.fail(id, fmt.Sprintf("TryMerge(%s,%s)=%s wrong at %s", rangeStr(a), rangeStr(b), rangeStr(merged), ptStr(pt)))
				return false
			}
			return true
		})
	}
	emit("subset", func() string { s, _ := a.IsSubsetOf(ctx, b); return boolStr(s) })
	var ovl bool
	id = emit("overlaps", func() string { s, _ := a.Overlaps(ctx, b); ovl = s; return boolStr(s) })
	if len(a) == len(b) && n > 0 && isWF([]sql.MySQLRange{a, b}) { // precondition: no inverted / degenerate column range
		common := !forTuples(h.pts, n, func(pt []int64) bool { return !(rangeMember(a, pt) && rangeMember(b, pt)) })
		if common != ovl {
			h.fail(id, fmt.Sprintf("Overlaps(%s,%s)=%v but a common point exists: %v", rangeStr(a), rangeStr(b), ovl, common))
		}
	}
	var ro []sql.MySQLRange
	roFine, roOk := false, false
	id = emit("removeoverlap", func() string {
		rs, ok, err := a.RemoveOverlap(ctx, b)
		if err != nil {
			return "err"
		}
		ro = rs
		roFine, roOk = true, ok
		return "(" + boolStr(ok) + " " + rangesStr(rs) + ")"
	})
	if roFine && len(a) == len(b) && n > 0 && isWF([]sql.MySQLRange{a, b}) {
		forTuples(h.pts, n, func(pt []int64) bool {
			in := rangeMember(a, pt) || rangeMember(b, pt)
			both := rangeMember(a, pt) && rangeMember(b, pt)
			k := h.unionMember(ro, pt)
			okCount := (in && k == 1) || (!in && k == 0)
			if !roOk && both { // returned unchanged (not overlapping): cannot happen with a common point
				okCount = false
			}
			if !okCount {
				h.fail(id, fmt.Sprintf("RemoveOverlap(%s,%s)=%s: point %s lies in %d pieces, in the inputs: %v", rangeStr(a), rangeStr(b), rangesStr(ro), ptStr(pt), k, in))
				return false
			}
			return true
		})
	}
}

func (h *harness) intersectRangesCase(rs []sql.MySQLRange) {
	if skip("intersectranges") {
		return
	}
	var res sql.MySQLRange
	p := guard("intersectranges", func() { res = sql.IntersectRanges(h.ctx, rs...) })
	obs := rangeStr(res)
	if p != "" {
		obs = p
	}
	nonNil := 0
	for _, r := range rs {
		if len(r) > 0 {
			nonNil++
		}
	}
	id := h.out.Case(hx.List("intersectranges", rangesStr(rs)), obs, nonNil >= 2)
	h.out.Stat("intersectranges")
	if p != "" || nonNil == 0 {
		return
	}
	var n int
	for _, r := range rs {
		if len(r) > 0 {
			n = len(r)
			break
		}
	}
	for _, r := range rs {
		if len(r) > 0 && len(r) != n {
			return // mixed lengths: no denotation
		}
	}
	forTuples(h.pts, n, func(pt []int64) bool {
		all := true
		for _, r := range rs {
			if len(r) > 0 && !rangeMember(r, pt) {
				all = false
			}
		}
		if rangeMember(res, pt) != all {
			h.fail(id, fmt.Sprintf("IntersectRanges(%s)=%s: point %s in the result: %v, in every input range: %v", rangesStr(rs), obs, ptStr(pt), !all, all))
			return false
		}
		return true
	})
}

func (h *harness) sortCase(rs []sql.MySQLRange) {
	if skip("sort") {
		return
	}
	var res []sql.MySQLRange
	var err error
	p := guard("sort", func() { res, err = sql.SortRanges(h.ctx, rs...) })
	obs := rangesStr(res)
	if p != "" {
		obs = p
	} else if err != nil {
		obs = "err"
	}
	id := h.out.Case(hx.List("sort", rangesStr(rs)), obs, len(rs) > 1)
	h.out.Stat("sort")
	if p != "" || err != nil {
		return
	}
	// sorted lexicographically by cut positions, and a permutation
	key := func(r sql.MySQLRange) []int64 {
		var k []int64
		for _, c := range r {
			k = append(k, cutPos(c.LowerBound), cutPos(c.UpperBound))
		}
		return k
	}
	less := func(a, b []int64) bool {
		for i := range a {
			if a[i] != b[i] {
				return a[i] < b[i]
			}
		}
		return false
	}
	for i := 1; i < len(res); i++ {
		if less(key(res[i]), key(res[i-1])) {
			h.fail(id, "SortRanges result is not sorted: "+obs)
			return
		}
	}
	cnt := map[string]int{}
	for _, r := range rs {
		cnt[rangeStr(r)]++
	}
	for _, r := range res {
		cnt[rangeStr(r)]--
	}
	for _, v := range cnt {
		if v != 0 {
			h.fail(id, "SortRanges result is not a permutation: "+obs)
			return
		}
	}
}

func (h *harness) validateCase(rs []sql.MySQLRange) {
	if skip("validate") {
		return
	}
	var err error
	p := guard("validate", func() { err = sql.VerifValidateRangeCollection(h.ctx, rs) })
	obs := boolStr(err == nil)
	if p != "" {
		obs = p
	}
	h.out.Case(hx.List("validate", rangesStr(rs)), obs, len(rs) > 1)
	h.out.Stat("validate")
}

// withTimeout runs f in a goroutine (RemoveOverlappingRanges is a worklist whose termination is not obvious;
// under a broken Compare any of the loops may spin).
func withTimeout(f func()) (panicMsg string, timedOut bool) {
	done := make(chan string, 1)
	go func() { done <- hx.Safe(f) }()
	timer := time.NewTimer(3 * time.Second)
	defer timer.Stop()
	select {
	case p := <-done:
		return p, false
	case <-timer.C:
		return "", true
	}
}

// hung counts the calls that did not return, per operation family; after two of them the family is
// skipped for the rest of the run (the leaked goroutines keep spinning, the run must still end in time).
var hung = map[string]int{}

func guard(family string, f func()) string {
	p, to := withTimeout(f)
	if to {
		hung[family]++
		return "timeout"
	}
	if p != "" {
		return "crash"
	}
	return ""
}

func skip(family string) bool { return hung[family] >= 2 }

func rorObs(res sql.MySQLRangeCollection, err error, p string, timedOut bool) string {
	switch {
	case timedOut:
		return "timeout"
	case p != "":
		return "crash"
	case err != nil:
		if strings.Contains(err.Error(), "overlapping ranges") {
			return "err:overlap"
		}
		return "err:merge"
	}
	return "(ok " + rangesStr(res) + ")"
}

// checkCollection: the model-free property oracle for a produced collection.
func (h *harness) checkCollection(id, what string, in []sql.MySQLRange, memberIn func(pt []int64) bool, res []sql.MySQLRange, n int) {
	bad := ""
	forTuples(h.pts, n, func(pt []int64) bool {
		want := memberIn(pt)
		k := h.unionMember(res, pt)
		if (want && k != 1) || (!want && k != 0) {
			bad = fmt.Sprintf("%s: point %s lies in %d result ranges, in the input: %v; result %s", what, ptStr(pt), k, want, rangesStr(res))
			return false
		}
		return true
	})
	if bad != "" {
		h.fail(id, bad)
		return
	}
	for i := 1; i < len(res); i++ {
		c, err := res[i-1].Compare(h.ctx, res[i])
		if err != nil || c >= 0 {
			h.fail(id, fmt.Sprintf("%s: result is not sorted: %s", what, rangesStr(res)))
			return
		}
	}
}

func (h *harness) rorCase(rs []sql.MySQLRange) {
	var res sql.MySQLRangeCollection
	var err error
	if skip("ror") {
		return
	}
	in := make([]sql.MySQLRange, len(rs))
	copy(in, rs)
	g := guard("ror", func() { res, err = sql.RemoveOverlappingRanges(h.ctx, in...) })
	p, to := "", g == "timeout"
	if g == "crash" {
		p = g
	}
	obs := rorObs(res, err, p, to)
	wf := isWF(rs)
	id := h.out.Case(hx.List("ror", rangesStr(rs)), obs, len(rs) > 1 && len(res) != len(rs))
	h.out.Stat(fmt.Sprintf("ror:%dcol", len(rs[0])))
	if !wf {
		h.out.Stat("ror:malformed")
		return
	}
	if p != "" || to || err != nil {
		h.out.Stat("ror:" + obs)
		h.fail(id, fmt.Sprintf("RemoveOverlappingRanges(%s) failed on well-formed input: %s %v", rangesStr(rs), obs, err))
		return
	}
	h.checkCollection(id, "RemoveOverlappingRanges("+rangesStr(rs)+")", rs, func(pt []int64) bool { return h.unionMember(rs, pt) > 0 }, res, len(rs[0]))
}

func (h *harness) collIntCase(xs, ys []sql.MySQLRange) {
	var res sql.MySQLRangeCollection
	var err error
	if skip("ror") {
		return
	}
	g := guard("ror", func() { res, err = sql.MySQLRangeCollection(xs).Intersect(h.ctx, sql.MySQLRangeCollection(ys)) })
	p, to := "", g == "timeout"
	if g == "crash" {
		p = g
	}
	obs := rorObs(res, err, p, to)
	id := h.out.Case(hx.List("collint", rangesStr(xs), rangesStr(ys)), obs, len(res) > 0)
	h.out.Stat("collint")
	if !isWF(xs) || !isWF(ys) || len(xs[0]) != len(ys[0]) {
		return
	}
	if p != "" || to || err != nil {
		h.out.Stat("collint:" + obs)
		h.fail(id, fmt.Sprintf("Intersect(%s,%s) failed on well-formed input: %s", rangesStr(xs), rangesStr(ys), obs))
		return
	}
	h.checkCollection(id, "Intersect("+rangesStr(xs)+","+rangesStr(ys)+")", nil, func(pt []int64) bool {
		return h.unionMember(xs, pt) > 0 && h.unionMember(ys, pt) > 0
	}, res, len(xs[0]))
}

// treeCase drives the real tree with an operation sequence; the observation is the shape after
// every mutation and the exact result of every lookup. Oracle: the stored ranges are the set the
// operations describe; lookups return only stored ranges connected to the probe.
func (h *harness) treeCase(g *gen, n, nops int) {
	if skip("tree") {
		return
	}
	ctx := h.ctx
	first := g.rng(n, true)
	tys := make([]sql.Type, n)
	for i := range tys {
		tys[i] = typ
	}
	var ops, obs []string
	var fails []string
	var tree *sql.MySQLRangeColumnExprTree
	set := map[string]sql.MySQLRange{}
	p := guard("tree", func() {
		t, err := sql.NewMySQLRangeColumnExprTree(first, tys)
		if err != nil {
			panic(err)
		}
		tree = t
	})
	ops = append(ops, hx.List("new", rangeStr(first)))
	if p != "" {
		obs = append(obs, "crash")
	} else {
		obs = append(obs, shapeStr(tree))
		set[rangeStr(first)] = first
	}
	dead := p != ""
	pool := []sql.MySQLRange{first}
	// inside RemoveOverlappingRanges the stored ranges never overlap; half of the sequences keep to that
	disjointOnly := g.r.Bool()
	for i := 0; i < nops; i++ {
		var rg sql.MySQLRange
		if g.r.Chance(1, 3) {
			rg = g.near(hx.Pick(g.r, pool), true)
		} else {
			rg = g.rng(n, true)
		}
		kind := g.r.Intn(10)
		var op, ob string
		switch {
		case kind < 4:
			if disjointOnly {
				clash := false
				for _, s := range set {
					if o, _ := s.Overlaps(ctx, rg); o {
						clash = true
					}
				}
				if clash {
					continue
				}
			}
			op = hx.List("ins", rangeStr(rg))
			if !dead {
				p = guard("tree", func() {
					if err := tree.Insert(ctx, rg); err != nil {
						panic(err)
					}
				})
				pool = append(pool, rg)
				set[rangeStr(rg)] = rg
			}
		case kind < 6:
			if g.r.Chance(2, 3) {
				rg = hx.Pick(g.r, pool)
			}
			op = hx.List("rem", rangeStr(rg))
			if !dead {
				p = guard("tree", func() {
					if err := tree.Remove(ctx, rg); err != nil {
						panic(err)
					}
				})
				delete(set, rangeStr(rg))
			}
		case kind < 9:
			op = hx.List("find", rangeStr(rg))
			if !dead {
				var got sql.MySQLRangeCollection
				p = guard("tree", func() {
					r, err := tree.FindConnections(ctx, rg, 0)
					if err != nil {
						panic(err)
					}
					got = r
				})
				if p == "" {
					ob = rangesStr(got)
					for _, x := range got {
						s, ok := set[rangeStr(x)]
						conn := ok
						if ok {
							for c := range s {
								cc, _ := s[c].IsConnected(ctx, rg[c])
								conn = conn && cc
							}
						}
						if !conn {
							fails = append(fails, fmt.Sprintf("FindConnections(%s) returned %s which is not a stored connected range", rangeStr(rg), rangeStr(x)))
						}
					}
					miss := 0
					for _, s := range set {
						conn := true
						for c := range s {
							cc, _ := s[c].IsConnected(ctx, rg[c])
							conn = conn && cc
						}
						found := false
						for _, x := range got {
							found = found || rangeStr(x) == rangeStr(s)
						}
						if conn && !found {
							miss++
						}
					}
					if miss > 0 {
						h.out.Stat("tree:find-missed-connection")
					}
				}
			}
		default:
			op = "(coll)"
			if !dead {
				var got sql.MySQLRangeCollection
				var err error
				p = guard("tree", func() { got, err = tree.GetRangeCollection(ctx) })
				if p == "" {
					if err != nil {
						ob = "err:merge"
					} else {
						ob = rangesStr(got)
					}
				}
			}
		}
		ops = append(ops, op)
		switch {
		case dead:
			obs = append(obs, "dead")
		case p != "":
			obs = append(obs, "crash")
			dead = true
		case ob != "":
			obs = append(obs, ob)
		default:
			obs = append(obs, shapeStr(tree))
			// set oracle
			_, nodes := tree.VerifShape()
			st := storedOf(nodes)
			if len(st) != len(set) {
				fails = append(fails, fmt.Sprintf("after %s the tree stores %d ranges, the set of inserted ranges has %d", op, len(st), len(set)))
			} else {
				for _, s := range st {
					if _, ok := set[rangeStr(s)]; !ok {
						fails = append(fails, fmt.Sprintf("after %s the tree stores %s which is not in the set", op, rangeStr(s)))
					}
				}
			}
		}
	}
	id := h.out.Case("(tree "+strings.Join(ops, " ")+")", strings.Join(obs, ";"), len(set) > 2)
	h.out.Stat(fmt.Sprintf("tree:%dcol", n))
	if dead {
		h.out.Stat("tree:crash")
		fails = append(fails, "the tree code panicked")
	}
	if len(fails) > 0 {
		h.fail(id, fails[0])
	}
}

func run(a hx.RunArgs) error {
	out := hx.NewOut(a.OutDir)
	defer out.Close()
	out.Rule = "cuts over keys 0..K (K=2 quick, 3 thorough) plus NULL; cmp/ce: every pair of cuts / of column ranges (exhaustive, inverted ones included); " +
		"simplify, rg (1-3 columns), intersectranges, sort, validate, ror (1-3 columns, 1-7 ranges, near-duplicates favoured), collint, tree (operation sequences): seeded random; " +
		"a case is non-trivial when the operands differ (pair ops), the result has fewer ranges than the input (simplify, ror), at least two non-nil ranges (intersectranges), more than two stored ranges (tree)"
	r := hx.NewRand(a.Seed)
	maxKey := int64(2)
	if a.Thorough {
		maxKey = 3
	}
	g := newGen(r, maxKey)
	h := &harness{out: out, ctx: sql.NewEmptyContext(), pts: points(3)}

	// corpus: witnesses first
	h.intersectRangesCase([]sql.MySQLRange{
		{sql.ClosedRangeColumnExpr(int64(1), int64(5), typ)},
		{sql.ClosedRangeColumnExpr(int64(3), int64(9), typ)}})
	h.rorCase(witnessRorMissed())

	// exhaustive: cuts and column ranges
	bigCuts := append([]sql.MySQLRangeCut{}, g.cuts...)
	bigCuts = append(bigCuts, sql.Below{Key: int64(-3), Typ: typ}, sql.Above{Key: int64(-3), Typ: typ}, sql.Below{Key: int64(1 << 40), Typ: typ}, sql.Above{Key: int64(-1 << 40), Typ: typ})
	for _, x := range bigCuts {
		for _, y := range bigCuts {
			h.cmpCase(x, y)
		}
	}
	cols := g.allCols()
	for _, c := range cols {
		var e bool
		p := guard("ce1", func() { e, _ = c.IsEmpty(h.ctx) })
		obs := boolStr(e)
		if p != "" {
			obs = p
		}
		id := out.Case(hx.List("ce1", "isempty", colStr(c)), obs, true)
		out.Stat("ce1:isempty")
		any := false
		for _, pt := range h.pts {
			any = any || colMember(c, pt)
		}
		if any == e {
			h.fail(id, fmt.Sprintf("IsEmpty(%s)=%v but a member point exists: %v", colStr(c), e, any))
		}
	}
	for _, x := range cols {
		for _, y := range cols {
			h.colCases(x, y)
		}
	}

	scale := 1
	if a.Thorough {
		scale = 20
	}
	for i := 0; i < 3000*scale; i++ {
		n := r.Intn(7)
		cs := make([]sql.MySQLRangeColumnExpr, n)
		for k := range cs {
			if r.Chance(1, 10) {
				cs[k] = g.anyCol()
			} else {
				cs[k] = g.col()
			}
		}
		h.simplifyCase(cs)
	}
	for i := 0; i < 2500*scale; i++ {
		n := 1 + r.Intn(3)
		wf := !r.Chance(1, 8)
		x := g.rng(n, wf)
		var y sql.MySQLRange
		switch {
		case r.Chance(1, 2):
			y = g.near(x, wf)
		case r.Chance(1, 20):
			y = g.rng(1+r.Intn(3), wf) // possibly another length
		default:
			y = g.rng(n, wf)
		}
		h.rangePairCases(x, y)
		if r.Chance(1, 10) {
			var e bool
			hx.Safe(func() { e, _ = x.IsEmpty(h.ctx) })
			out.Case(hx.List("rg1", "isempty", rangeStr(x)), boolStr(e), true)
		}
	}
	for i := 0; i < 1500*scale; i++ {
		n := 1 + r.Intn(3)
		rs := g.ranges(n, 1+r.Intn(4), true)
		if r.Chance(1, 5) {
			rs = append([]sql.MySQLRange{nil}, rs...)
		}
		if r.Chance(1, 5) && len(rs) > 1 {
			rs[1+r.Intn(len(rs)-1)] = nil
		}
		h.intersectRangesCase(rs)
	}
	for i := 0; i < 500*scale; i++ {
		n := 1 + r.Intn(3)
		rs := g.ranges(n, r.Intn(6), true)
		h.sortCase(rs)
		h.validateCase(rs)
	}
	for i := 0; i < 4000*scale; i++ {
		n := 1 + r.Intn(3)
		// inverted column ranges (lo > hi) are outside the envelope here: RemoveOverlappingRanges does not
		// terminate on some of them (real code and model alike); the pair operations above do cover them
		h.rorCase(g.ranges(n, 1+r.Intn(7), true))
	}
	if a.Thorough {
		for i := 0; i < 20000; i++ { // larger sets: deeper trees
			h.rorCase(g.ranges(2+r.Intn(2), 6+r.Intn(10), true))
		}
	}
	for i := 0; i < 800*scale; i++ {
		n := 1 + r.Intn(3)
		h.collIntCase(g.ranges(n, 1+r.Intn(3), true), g.ranges(n, 1+r.Intn(3), true))
	}
	for i := 0; i < 1200*scale; i++ {
		h.treeCase(g, 1+r.Intn(3), 4+r.Intn(14))
	}
	return nil
}

func col(lo, hi sql.MySQLRangeCut) sql.MySQLRangeColumnExpr {
	return sql.MySQLRangeColumnExpr{LowerBound: lo, UpperBound: hi, Typ: typ}
}

// witnessRorMissed: a well-formed input on which RemoveOverlappingRanges returns "overlapping ranges"
// (found by this harness; see known_findings/C46.jsonl).
func witnessRorMissed() []sql.MySQLRange {
	B := func(k int64) sql.MySQLRangeCut { return sql.Below{Key: k, Typ: typ} }
	A := func(k int64) sql.MySQLRangeCut { return sql.Above{Key: k, Typ: typ} }
	bn, an, aa := sql.BelowNull{}, sql.AboveNull{}, sql.AboveAll{}
	return []sql.MySQLRange{
		{col(B(0), B(2)), col(B(1), A(2)), col(an, A(1))},
		{col(an, A(0)), col(B(0), A(2)), col(A(0), aa)},
		{col(B(1), B(2)), col(bn, A(1)), col(bn, A(2))},
		{col(B(1), A(2)), col(B(1), A(1)), col(B(3), A(3))},
		{col(B(1), aa), col(B(0), A(3)), col(B(2), B(3))},
		{col(bn, A(1)), col(A(2), B(3)), col(B(0), A(3))},
	}
}
