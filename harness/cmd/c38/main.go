// C38 — Named locks give mutual exclusion and are linearizable (sql/lock_subsystem.go, GET_LOCK family).
package main

import (
	"context"
	"fmt"
	"go/ast"
	"go/token"
	"runtime"
	"sort"
	"strconv"
	"strings"
	"sync"
	"sync/atomic"
	"time"

	"github.com/dolthub/go-mysql-server/memory"
	"github.com/dolthub/go-mysql-server/sql"
	"github.com/dolthub/go-mysql-server/verifharness/hx"
	"github.com/dolthub/go-mysql-server/verifharness/hx/eng"
)

func main() { hx.Main(extract, run) }

// ---------------------------------------------------------------------------------------------
// Facts.

func selText(e ast.Expr) string {
	switch t := e.(type) {
	case *ast.Ident:
		return t.Name
	case *ast.SelectorExpr:
		return selText(t.X) + "." + t.Sel.Name
	}
	return "?"
}

func extract(a hx.ExtractArgs) error {
	src, err := hx.ParseSrc(a.Repo, "sql/lock_subsystem.go")
	if err != nil {
		return err
	}
	lf := hx.NewLeanFile("Gms.Generated.C38", src.Path)
	type kv struct {
		k string
		v string
	}
	type kn struct {
		k string
		n uint64
	}
	values := map[string][]string{}
	var cas, load []kn
	var setCalls, conds []kv
	for _, fn := range []string{"tryLock", "Unlock", "ReleaseAll", "GetLockState"} {
		fd, err := src.Func("LockSubsystem", fn)
		if err != nil {
			return err
		}
		nCas, nLoad := uint64(0), uint64(0)
		ast.Inspect(fd.Body, func(n ast.Node) bool {
			switch t := n.(type) {
			case *ast.CompositeLit:
				if id, ok := t.Type.(*ast.Ident); ok && id.Name == "ownedLock" {
					values[fn] = append(values[fn], src.Text(t))
				}
			case *ast.CallExpr:
				switch f := selText(t.Fun); f {
				case "atomic.CompareAndSwapPointer":
					nCas++
				case "atomic.LoadPointer":
					nLoad++
				case "ctx.Session.AddLock", "ctx.Session.DelLock", "ctx.Session.IterLocks":
					setCalls = append(setCalls, kv{fn, strings.TrimPrefix(f, "ctx.Session.")})
				}
			case *ast.IfStmt:
				c := src.Text(t.Cond)
				if strings.Contains(c, "currLock.") || strings.Contains(c, "newVal.") {
					conds = append(conds, kv{fn, c})
				}
			}
			return true
		})
		if nCas > 0 {
			cas = append(cas, kn{fn, nCas})
		}
		if nLoad > 0 {
			load = append(load, kn{fn, nLoad})
		}
	}
	if len(values["tryLock"]) == 0 || len(values["Unlock"]) == 0 || len(values["ReleaseAll"]) == 0 {
		return fmt.Errorf("ownedLock composite literals not found in tryLock/Unlock/ReleaseAll")
	}
	lf.DefStringList("acquireValues", values["tryLock"])
	lf.DefStringList("unlockValues", values["Unlock"])
	lf.DefStringList("releaseAllValues", values["ReleaseAll"])
	pairsN := func(name string, xs []kn) {
		sort.SliceStable(xs, func(i, j int) bool { return xs[i].k < xs[j].k })
		parts := make([]string, len(xs))
		for i, x := range xs {
			parts[i] = fmt.Sprintf("(%s, %d)", hx.LeanString(x.k), x.n)
		}
		lf.Raw(fmt.Sprintf("def %s : List (String × Nat) := [%s]\n", name, strings.Join(parts, ", ")))
	}
	pairsS := func(name string, xs []kv) {
		sort.SliceStable(xs, func(i, j int) bool { return xs[i].k < xs[j].k })
		parts := make([]string, len(xs))
		for i, x := range xs {
			parts[i] = fmt.Sprintf("(%s, %s)", hx.LeanString(x.k), hx.LeanString(x.v))
		}
		lf.Raw(fmt.Sprintf("def %s : List (String × String) := [%s]\n", name, strings.Join(parts, ", ")))
	}
	pairsN("casSites", cas)
	pairsN("loadSites", load)
	pairsS("sessionSetCalls", setCalls)
	pairsS("conditions", conds)
	// LockState constants (iota block)
	var states []kn
	for _, d := range src.File.Decls {
		gd, ok := d.(*ast.GenDecl)
		if !ok || gd.Tok != token.CONST {
			continue
		}
		isBlock := false
		for i, sp := range gd.Specs {
			vs := sp.(*ast.ValueSpec)
			if i == 0 {
				if id, ok := vs.Type.(*ast.Ident); ok && id.Name == "LockState" && len(vs.Values) == 1 && src.Text(vs.Values[0]) == "iota" {
					isBlock = true
				}
			}
			if isBlock {
				for _, n := range vs.Names {
					states = append(states, kn{n.Name, uint64(i)})
				}
			}
		}
	}
	if len(states) == 0 {
		return fmt.Errorf("LockState iota block not found")
	}
	parts := make([]string, len(states))
	for i, x := range states {
		parts[i] = fmt.Sprintf("(%s, %d)", hx.LeanString(x.k), x.n)
	}
	lf.Raw(fmt.Sprintf("def lockStates : List (String × Nat) := [%s]\n", strings.Join(parts, ", ")))
	return lf.Write(a.Out)
}

// ---------------------------------------------------------------------------------------------
// Operations.

type op struct {
	k string // try lock unl rall st
	u uint32
	n int
}

func (o op) String() string {
	switch o.k {
	case "rall":
		return fmt.Sprintf("(rall %d)", o.u)
	case "st":
		return fmt.Sprintf("(st %d)", o.n)
	}
	return fmt.Sprintf("(%s %d %d)", o.k, o.u, o.n)
}

func lockName(n int) string { return fmt.Sprintf("n%d", n) }

// apiWorld drives one real LockSubsystem directly.
type apiWorld struct {
	ls   *sql.LockSubsystem
	mu   sync.Mutex
	sess map[uint32]*sql.BaseSession
}

func newAPIWorld() *apiWorld { return &apiWorld{ls: sql.NewLockSubsystem(), sess: map[uint32]*sql.BaseSession{}} }

func (w *apiWorld) ctx(u uint32) *sql.Context {
	w.mu.Lock()
	s, ok := w.sess[u]
	if !ok {
		s = sql.NewBaseSessionWithClientServer("srv:3306", sql.Client{Address: "client", User: "u"}, u)
		w.sess[u] = s
	}
	w.mu.Unlock()
	return sql.NewContext(context.Background(), sql.WithSession(s))
}

// apply returns the result in the driver's alphabet and as the numeric code of the conc protocol.
func (w *apiWorld) apply(o op, lockTimeout time.Duration) (string, int) {
	res, code := "", 0
	p := hx.Safe(func() {
		switch o.k {
		case "try":
			ok, err := w.ls.TryLock(w.ctx(o.u), lockName(o.n))
			if err != nil {
				res = "err:" + err.Error()
			} else if ok {
				res, code = "1", 1
			} else {
				res, code = "0", 0
			}
		case "lock":
			err := w.ls.Lock(w.ctx(o.u), lockName(o.n), lockTimeout)
			switch {
			case err == nil:
				res, code = "1", 1
			case sql.ErrLockTimeout.Is(err):
				res, code = "T", 0
			default:
				res = "err:" + err.Error()
			}
		case "unl":
			err := w.ls.Unlock(w.ctx(o.u), lockName(o.n))
			switch {
			case err == nil:
				res, code = "ok", 0
			case sql.ErrLockDoesNotExist.Is(err):
				res, code = "NE", 1
			case sql.ErrLockNotOwned.Is(err):
				res, code = "NO", 2
			default:
				res = "err:" + err.Error()
			}
		case "rall":
			k, err := w.ls.ReleaseAll(w.ctx(o.u))
			if err != nil {
				res = "err:" + err.Error()
			} else {
				res, code = fmt.Sprintf("r%d", k), k
			}
		case "st":
			st, owner := w.ls.GetLockState(lockName(o.n))
			switch st {
			case sql.LockDoesNotExist:
				res, code = "E", 0
			case sql.LockFree:
				res, code = "F", 1
			case sql.LockInUse:
				res, code = fmt.Sprintf("U%d", owner), int(owner)+2
			default:
				res = fmt.Sprintf("state?%d", st)
			}
		}
	})
	if p != "" {
		return "crash:" + p, -1
	}
	return res, code
}

func (w *apiWorld) dump(names int, sessions []uint32) string {
	parts := make([]string, names)
	for n := 1; n <= names; n++ {
		ex, o, c := w.ls.VerifLockRecord(lockName(n))
		switch {
		case !ex:
			parts[n-1] = fmt.Sprintf("%d:E", n)
		case o == 0:
			parts[n-1] = fmt.Sprintf("%d:F%d", n, c)
		default:
			parts[n-1] = fmt.Sprintf("%d:U%dx%d", n, o, c)
		}
	}
	sets := make([]string, len(sessions))
	for i, u := range sessions {
		w.ctx(u)
		var ns []int
		w.sess[u].IterLocks(func(name string) error {
			k, _ := strconv.Atoi(strings.TrimPrefix(name, "n"))
			ns = append(ns, k)
			return nil
		})
		sort.Ints(ns)
		ss := make([]string, len(ns))
		for j, k := range ns {
			ss[j] = strconv.Itoa(k)
		}
		sets[i] = fmt.Sprintf("%d:%s", u, strings.Join(ss, ","))
	}
	return strings.Join(parts, ",") + "|" + strings.Join(sets, ";")
}

// holders is the model-free mutual-exclusion bookkeeping: who was told it got the lock and has
// not given it back.
type holders map[int]map[uint32]int

func (h holders) update(o op, res string) {
	switch {
	case (o.k == "try" || o.k == "lock") && res == "1":
		if h[o.n] == nil {
			h[o.n] = map[uint32]int{}
		}
		h[o.n][o.u]++
	case o.k == "unl" && res == "ok":
		if h[o.n] != nil && h[o.n][o.u] > 0 {
			h[o.n][o.u]--
		}
	case o.k == "rall":
		for _, m := range h {
			delete(m, o.u)
		}
	}
}

// violation: two sessions hold the same name; tag says whether session id 0 is involved.
func (h holders) violation() (string, string) {
	for n, m := range h {
		var hs []uint32
		for u, c := range m {
			if c > 0 {
				hs = append(hs, u)
			}
		}
		if len(hs) > 1 {
			sort.Slice(hs, func(i, j int) bool { return hs[i] < hs[j] })
			tag := "-"
			if hs[0] == 0 {
				tag = "session_id_zero"
			}
			return fmt.Sprintf("lock %s is held by sessions %v at the same time", lockName(n), hs), tag
		}
	}
	return "", ""
}

func payloadSeq(mode string, names int, sessions []uint32, ops []op) string {
	ss := make([]string, len(sessions))
	for i, u := range sessions {
		ss[i] = strconv.Itoa(int(u))
	}
	parts := make([]string, len(ops))
	for i, o := range ops {
		parts[i] = o.String()
	}
	return fmt.Sprintf("(seq %s (names %d) (sessions %s) %s)", mode, names, strings.Join(ss, " "), strings.Join(parts, " "))
}

func runSeqAPI(names int, sessions []uint32, ops []op) (obs, viol, tag string) {
	w := newAPIWorld()
	h := holders{}
	var parts []string
	for i, o := range ops {
		r, _ := w.apply(o, time.Nanosecond)
		parts = append(parts, r+"|"+w.dump(names, sessions))
		h.update(o, r)
		if viol == "" {
			if m, t := h.violation(); m != "" {
				viol, tag = fmt.Sprintf("after op %d %s: %s", i+1, o, m), t
			}
		}
	}
	return strings.Join(parts, ";"), viol, tag
}

// SQL level: the same operations through the engine's GET_LOCK family.
type sqlWorld struct {
	e      *eng.Eng
	sess   map[uint32]sql.Session
	prefix string
}

var (
	sharedEng *eng.Eng
	sqlWorlds int
)

// newSQLWorld: one engine for the whole run (building one costs ~50 ms); every history gets fresh
// sessions and its own lock-name prefix, so no state is shared between histories.
func newSQLWorld() *sqlWorld {
	if sharedEng == nil {
		sharedEng = eng.New("d")
	}
	sqlWorlds++
	return &sqlWorld{e: sharedEng, sess: map[uint32]sql.Session{}, prefix: fmt.Sprintf("h%d_", sqlWorlds)}
}

func (w *sqlWorld) name(n int) string { return w.prefix + lockName(n) }

func (w *sqlWorld) ctx(u uint32) *sql.Context {
	s, ok := w.sess[u]
	if !ok {
		bs := sql.NewBaseSessionWithClientServer("srv:3306", sql.Client{Address: "client", User: "root"}, u)
		s = memory.NewSession(bs, w.e.Pro)
		w.sess[u] = s
	}
	c := sql.NewContext(context.Background(), sql.WithSession(s))
	c.SetCurrentDatabase("d")
	return c
}

func (w *sqlWorld) scalar(u uint32, q string) []string {
	r := w.e.Query(w.ctx(u), q)
	if c := r.Class(); c != "ok" {
		return []string{c}
	}
	if len(r.Rows) != 1 {
		return []string{fmt.Sprintf("rows=%d", len(r.Rows))}
	}
	return r.Rows[0]
}

func (w *sqlWorld) state(u uint32, n int) string {
	v := w.scalar(u, fmt.Sprintf("SELECT IS_FREE_LOCK('%s'), IS_USED_LOCK('%s')", w.name(n), w.name(n)))
	switch {
	case len(v) == 2 && v[0] == "1" && v[1] == "NULL":
		return "F"
	case len(v) == 2 && v[0] == "0" && v[1] != "NULL":
		return "U" + v[1]
	}
	return "?" + strings.Join(v, "/")
}

func (w *sqlWorld) apply(o op) string {
	switch o.k {
	case "try":
		return w.scalar(o.u, fmt.Sprintf("SELECT GET_LOCK('%s', 0)", w.name(o.n)))[0]
	case "unl":
		switch v := w.scalar(o.u, fmt.Sprintf("SELECT RELEASE_LOCK('%s')", w.name(o.n)))[0]; v {
		case "1":
			return "ok"
		case "0":
			return "NO"
		case "NULL":
			return "NE"
		default:
			return "?" + v
		}
	case "rall":
		return "r" + w.scalar(o.u, "SELECT RELEASE_ALL_LOCKS()")[0]
	case "st":
		return w.state(1, o.n)
	}
	return "?"
}

func runSeqSQL(names int, sessions []uint32, ops []op) (obs, viol, tag string) {
	w := newSQLWorld()
	h := holders{}
	var parts []string
	for i, o := range ops {
		r := w.apply(o)
		st := make([]string, names)
		for n := 1; n <= names; n++ {
			st[n-1] = fmt.Sprintf("%d:%s", n, w.state(sessions[0], n))
		}
		parts = append(parts, r+"|"+strings.Join(st, ",")+"|-")
		h.update(o, r)
		if viol == "" {
			if m, t := h.violation(); m != "" {
				viol, tag = fmt.Sprintf("after op %d %s: %s", i+1, o, m), t
			}
		}
	}
	return strings.Join(parts, ";"), viol, tag
}

// ---------------------------------------------------------------------------------------------
// Concurrent histories.

type hop struct {
	o         op
	res       int
	inv, resp int64
}

// runConc: one goroutine per session; a spin barrier before every round makes the calls of a round
// start together. Returns the completed calls with logical invocation / response stamps.
func runConc(streams map[uint32][]op, rounds int, barrier bool) ([]hop, string) {
	w := newAPIWorld()
	var clock atomic.Int64
	var arrived atomic.Int64
	ng := int64(len(streams))
	var mu sync.Mutex
	var hist []hop
	bad := ""
	var wg sync.WaitGroup
	for u, st := range streams {
		wg.Add(1)
		go func(u uint32, st []op) {
			defer wg.Done()
			for i := 0; i < rounds; i++ {
				if barrier || i == 0 {
					arrived.Add(1)
					for arrived.Load() < ng*int64(i+1) {
						runtime.Gosched()
					}
				}
				if i >= len(st) {
					continue
				}
				o := st[i]
				inv := clock.Add(1)
				r, code := w.apply(o, 300*time.Microsecond)
				resp := clock.Add(1)
				mu.Lock()
				if code < 0 || strings.HasPrefix(r, "err:") {
					bad = fmt.Sprintf("%s by session %d: %s", o, u, r)
				}
				hist = append(hist, hop{o, code, inv, resp})
				mu.Unlock()
			}
		}(u, st)
	}
	wg.Wait()
	sort.Slice(hist, func(i, j int) bool { return hist[i].inv < hist[j].inv })
	return hist, bad
}

func payloadConc(names int, hist []hop) string {
	parts := make([]string, len(hist))
	for i, h := range hist {
		parts[i] = fmt.Sprintf("(o %s %d %d %d %d %d)", h.o.k, h.o.u, h.o.n, h.res, h.inv, h.resp)
	}
	return fmt.Sprintf("(conc (names %d) %s)", names, strings.Join(parts, " "))
}

// ---------------------------------------------------------------------------------------------

func randOp(r *hx.Rand, sessions []uint32, names int, withLock bool) op {
	u := hx.Pick(r, sessions)
	n := r.Range(1, names)
	switch r.Intn(12) {
	case 0, 1, 2, 3:
		return op{"try", u, n}
	case 4:
		if withLock {
			return op{"lock", u, n}
		}
		return op{"try", u, n}
	case 5, 6, 7:
		return op{"unl", u, n}
	case 8:
		return op{"rall", u, 0}
	default:
		return op{"st", 0, n}
	}
}

func run(a hx.RunArgs) error {
	out := hx.NewOut(a.OutDir)
	defer out.Close()
	out.Rule = "(1) witness corpus; (2) every op sequence up to a length bound over 2 sessions x 1 name on the real sql.LockSubsystem; " +
		"(3) random sequential multi-session sequences (1-4 sessions, 1-3 names; try/lock/unlock/release-all/state) with the record (owner,count) of every name " +
		"and every session's lock set observed after each op; (4) the same with a session whose id is 0; (5) the same ops through the engine's GET_LOCK family; " +
		"(6) concurrent histories (2-5 goroutines, calls of a round released together by a spin barrier) recorded with invocation/response stamps and checked for " +
		"linearizability against the Lean Spec. Non-trivial: a lock was acquired re-entrantly or refused (sequential), or two calls overlapped on one name (concurrent)"
	r := hx.NewRand(a.Seed)
	t0 := time.Now()

	seqCase := func(kind, mode string, names int, sessions []uint32, ops []op) {
		var obs, viol, tag string
		if mode == "sql" {
			obs, viol, tag = runSeqSQL(names, sessions, ops)
		} else {
			obs, viol, tag = runSeqAPI(names, sessions, ops)
		}
		nontriv := strings.Contains(obs, "x2") || strings.Contains(obs, ";0|") || strings.Contains(obs, ";NO|") || strings.Contains(obs, ";T|")
		id := out.Case(payloadSeq(mode, names, sessions, ops), obs, nontriv)
		out.Stat(kind)
		out.StatN("ops", len(ops))
		if viol != "" {
			out.OracleFail(id, tag, viol)
		}
	}

	// (1) corpus
	seqCase("corpus", "api", 1, []uint32{0, 5}, []op{{"try", 0, 1}, {"st", 0, 1}, {"try", 5, 1}})
	seqCase("corpus", "api", 2, []uint32{1, 2}, []op{{"try", 1, 1}, {"try", 2, 1}, {"try", 1, 1}, {"unl", 2, 1}, {"unl", 1, 1}, {"st", 0, 1},
		{"rall", 1, 0}, {"st", 0, 1}, {"unl", 1, 2}, {"lock", 2, 1}, {"lock", 1, 1}, {"rall", 2, 0}, {"rall", 2, 0}})
	seqCase("corpus", "api", 2, []uint32{4}, []op{{"try", 4, 1}, {"try", 4, 2}, {"rall", 4, 0}, {"try", 4, 1}, {"rall", 4, 0}})
	seqCase("corpus", "sql", 2, []uint32{1, 2}, []op{{"try", 1, 1}, {"try", 2, 1}, {"try", 1, 1}, {"unl", 2, 1}, {"unl", 1, 1}, {"st", 0, 1},
		{"rall", 1, 0}, {"st", 0, 1}, {"unl", 1, 2}, {"try", 2, 1}})
	seqCase("corpus", "sql", 1, []uint32{0, 5}, []op{{"try", 0, 1}, {"st", 0, 1}, {"try", 5, 1}})

	// (2) exhaustive short sequences
	var alphabet []op
	for _, u := range []uint32{1, 2} {
		alphabet = append(alphabet, op{"try", u, 1}, op{"unl", u, 1}, op{"rall", u, 0}, op{"lock", u, 1})
	}
	alphabet = append(alphabet, op{"st", 0, 1})
	maxLen := 4
	if a.Thorough {
		maxLen = 5
	}
	var enum func(prefix []op, depth int)
	enum = func(prefix []op, depth int) {
		if len(prefix) > 0 {
			seqCase("exhaustive", "api", 1, []uint32{1, 2}, append([]op(nil), prefix...))
		}
		if depth == 0 {
			return
		}
		for _, o := range alphabet {
			enum(append(prefix, o), depth-1)
		}
	}
	enum(nil, maxLen)

	nSeq, nZero, nSQL, nConc := 3000, 300, 120, 1000
	if a.Thorough {
		nSeq, nZero, nSQL, nConc = 100000, 10000, 2500, 60000
	}
	// (3) random sequential
	for i := 0; i < nSeq; i++ {
		ns := r.Range(1, 4)
		base := uint32(1)
		if r.Chance(1, 6) {
			base = uint32(r.Range(2, 4000000000))
		}
		sessions := make([]uint32, ns)
		for j := range sessions {
			sessions[j] = base + uint32(j)
		}
		names := r.Range(1, 3)
		ops := make([]op, r.Range(3, 30))
		for j := range ops {
			ops[j] = randOp(r, sessions, names, true)
		}
		seqCase("sequential", "api", names, sessions, ops)
	}
	// (4) with session id 0
	for i := 0; i < nZero; i++ {
		sessions := []uint32{0, 1, 2}[:r.Range(2, 3)]
		names := r.Range(1, 2)
		ops := make([]op, r.Range(2, 14))
		for j := range ops {
			ops[j] = randOp(r, sessions, names, true)
		}
		seqCase("sequential+session0", "api", names, sessions, ops)
	}
	// (5) SQL level
	for i := 0; i < nSQL; i++ {
		sessions := []uint32{1, 2, 3}[:r.Range(1, 3)]
		names := r.Range(1, 2)
		ops := make([]op, r.Range(3, 12))
		for j := range ops {
			ops[j] = randOp(r, sessions, names, false)
		}
		seqCase("sql", "sql", names, sessions, ops)
	}
	// (6) concurrent
	overlaps := 0
	for i := 0; i < nConc; i++ {
		ng := r.Range(2, 5)
		names := r.Range(1, 2)
		rounds := r.Range(1, 4)
		if ng*rounds > 14 {
			rounds = 14 / ng
		}
		streams := map[uint32][]op{}
		for g := 1; g <= ng; g++ {
			st := make([]op, rounds)
			for j := range st {
				st[j] = randOp(r, []uint32{uint32(g)}, names, true)
			}
			streams[uint32(g)] = st
		}
		hist, bad := runConc(streams, rounds, r.Chance(3, 4))
		nontriv := false
		for x := 0; x < len(hist) && !nontriv; x++ {
			for y := x + 1; y < len(hist); y++ {
				if hist[y].inv < hist[x].resp && hist[x].o.n == hist[y].o.n && hist[x].o.k != "st" && hist[y].o.k != "st" {
					nontriv = true
					break
				}
			}
		}
		if nontriv {
			overlaps++
		}
		id := out.Case(payloadConc(names, hist), "observed", nontriv)
		out.Stat("concurrent")
		out.StatN("concurrent-calls", len(hist))
		if bad != "" {
			out.OracleFail(id, "-", "unexpected error or panic in a concurrent call: "+bad)
		}
	}
	out.Extra["concurrent_histories_with_overlapping_calls_on_one_name"] = overlaps
	out.Extra["wall_s"] = time.Since(t0).Seconds()
	return nil
}
