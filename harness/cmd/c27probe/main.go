package main

import (
	"fmt"
	"os"

	"github.com/dolthub/go-mysql-server/verifharness/hx/eng"
)

func main() {
	e := eng.New("d")
	ctx := e.Ctx()
	for _, q := range os.Args[1:] {
		r := e.Query(ctx, q)
		fmt.Printf("%s\n  -> %s %v\n", q, r.Class(), r.Rows)
	}
}
