// C48 — Guarded goroutines turn panics into errors (errguard).
package main

import (
	"bufio"
	"context"
	"errors"
	"fmt"
	"go/ast"
	"io"
	"os"
	"os/exec"
	"strconv"
	"strings"
	"time"

	"golang.org/x/sync/errgroup"

	"github.com/dolthub/go-mysql-server/errguard"
	"github.com/dolthub/go-mysql-server/verifharness/hx"
)

func main() {
	if len(os.Args) > 1 && os.Args[1] == "child" {
		child()
		return
	}
	hx.Main(extract, run)
}

// ---------------------------------------------------------------------------------------------
// Facts: the shape of errguard.Go / RecoverAndLog.

func extract(a hx.ExtractArgs) error {
	src, err := hx.ParseSrc(a.Repo, "errguard/errguard.go")
	if err != nil {
		return err
	}
	lf := hx.NewLeanFile("Gms.Generated.C48", src.Path)
	fd, err := src.Func("", "Go")
	if err != nil {
		return err
	}
	// body must be exactly: g.Go(func() (err error) { defer func(){ if r := recover(); r != nil { err = ... } }(); return fn() })
	var lit *ast.FuncLit
	goCalls := false
	if len(fd.Body.List) == 1 {
		if es, ok := fd.Body.List[0].(*ast.ExprStmt); ok {
			if call, ok := es.X.(*ast.CallExpr); ok {
				if sel, ok := call.Fun.(*ast.SelectorExpr); ok && sel.Sel.Name == "Go" && len(call.Args) == 1 {
					if x, ok := sel.X.(*ast.Ident); ok && len(fd.Type.Params.List) > 0 && x.Name == fd.Type.Params.List[0].Names[0].Name {
						goCalls = true
						lit, _ = call.Args[0].(*ast.FuncLit)
					}
				}
			}
		}
	}
	lf.DefBool("goCallsGroupGo", goCalls && lit != nil)
	named := ""
	firstDefer, assigns, lastRet, noRepanic := false, false, false, true
	nstmts := 0
	if lit != nil {
		if lit.Type.Results != nil && len(lit.Type.Results.List) == 1 && len(lit.Type.Results.List[0].Names) == 1 {
			named = lit.Type.Results.List[0].Names[0].Name
		}
		nstmts = len(lit.Body.List)
		if nstmts > 0 {
			if ds, ok := lit.Body.List[0].(*ast.DeferStmt); ok {
				if dl, ok := ds.Call.Fun.(*ast.FuncLit); ok && len(dl.Body.List) == 1 {
					if ifs, ok := dl.Body.List[0].(*ast.IfStmt); ok && ifs.Else == nil {
						// if r := recover(); r != nil { err = ... }
						if as, ok := ifs.Init.(*ast.AssignStmt); ok && len(as.Rhs) == 1 {
							if c, ok := as.Rhs[0].(*ast.CallExpr); ok {
								if id, ok := c.Fun.(*ast.Ident); ok && id.Name == "recover" {
									cond := src.Text(ifs.Cond)
									rname := src.Text(as.Lhs[0])
									if cond == rname+" != nil" {
										firstDefer = true
									}
								}
							}
						}
						for _, st := range ifs.Body.List {
							if as, ok := st.(*ast.AssignStmt); ok && len(as.Lhs) == 1 && src.Text(as.Lhs[0]) == named && as.Tok.String() == "=" {
								if strings.HasPrefix(src.Text(as.Rhs[0]), "fmt.Errorf(") {
									assigns = true
								}
							}
						}
						ast.Inspect(dl.Body, func(n ast.Node) bool {
							if c, ok := n.(*ast.CallExpr); ok {
								if id, ok := c.Fun.(*ast.Ident); ok && (id.Name == "panic") {
									noRepanic = false
								}
								if s := src.Text(c.Fun); s == "os.Exit" || s == "log.Fatal" || s == "logrus.Fatal" || s == "logrus.Panic" {
									noRepanic = false
								}
							}
							return true
						})
					}
				}
			}
			if rs, ok := lit.Body.List[nstmts-1].(*ast.ReturnStmt); ok && len(rs.Results) == 1 {
				if c, ok := rs.Results[0].(*ast.CallExpr); ok && len(c.Args) == 0 {
					if id, ok := c.Fun.(*ast.Ident); ok && len(fd.Type.Params.List) > 1 && id.Name == fd.Type.Params.List[1].Names[0].Name {
						lastRet = true
					}
				}
			}
		}
	}
	lf.DefString("namedResult", named)
	lf.DefBool("firstStmtIsDeferRecover", firstDefer)
	lf.DefBool("recoverAssignsNamedResult", assigns)
	lf.DefBool("lastStmtReturnsFn", lastRet)
	lf.DefNat("closureStmtCount", uint64(nstmts))
	lf.DefBool("noRepanic", noRepanic)
	rl, err := src.Func("", "RecoverAndLog")
	if err != nil {
		return err
	}
	body := src.Text(rl.Body)
	lf.DefBool("recoverAndLogRecovers", strings.Contains(body, "recover()") && !strings.Contains(body, "panic(") && !strings.Contains(body, "Fatal"))
	return lf.Write(a.Out)
}

// ---------------------------------------------------------------------------------------------
// Case language. A group is a list of functions; a function is
//   n            return nil
//   e<k>         return the k-th distinct error value
//   p<kind>      panic with a value of that kind
//   N(<group>)   run a nested guarded group and return its Wait()
// optionally suffixed by @1 (the failing function that completes first) or @2 (acts only after the group recorded its first error).

type fnSpec struct {
	kind   string // n | e | p | N
	arg    string
	delay  int
	nested []fnSpec
}

var panicKinds = []string{"nil", "err", "str", "int", "struct", "rtidx", "rtnilmap", "stringer", "errnilptr", "baderror", "badstringer", "eof", "badptrstringer"}

// badErr / badStringer: values whose own Error()/String() method panics (fmt's %v verb protects against that).
type badErr struct{ p *int }

func (b *badErr) Error() string { return fmt.Sprint(*b.p) }

type badStringer struct{ m map[string]*int }

func (b badStringer) String() string { return fmt.Sprint(*b.m["missing"]) }

// ptrStringer: a non-nil pointer whose String() method panics with a value of its own. (A nil pointer
// with a panicking method prints as "<nil>" under %v — that text class is already covered by
// baderror, and two kinds with one text could not be told apart in Wait()'s message.)
type ptrStringer struct{ x int }

func (p *ptrStringer) String() string { panic("ptr-stringer-panic") }

func panicValue(kind string) any {
	switch kind {
	case "err":
		return errors.New("boom-error")
	case "str":
		return "boom string"
	case "int":
		return 42
	case "struct":
		return struct{ A, B int }{1, 2}
	case "stringer":
		return myStringer{7}
	case "errnilptr":
		var e *ptrErr
		return error(e)
	case "baderror":
		var b *badErr
		return error(b)
	case "badstringer":
		return badStringer{}
	case "eof":
		return io.EOF
	case "badptrstringer":
		return &ptrStringer{x: 3}
	}
	return nil
}

type myStringer struct{ a int }

func (m myStringer) String() string { return fmt.Sprintf("stringer-%d", m.a) }

type ptrErr struct{}

func (*ptrErr) Error() string { return "ptrErr" }

var errVals = []error{errors.New("E0"), errors.New("E1"), errors.New("E2"), fmt.Errorf("wrapped: %w", errors.New("inner")),
	io.EOF, fmt.Errorf("read failed: %w", io.EOF), errors.Join(errors.New("first"), io.EOF), context.Canceled, io.ErrUnexpectedEOF,
	context.DeadlineExceeded, &ptrErr{}, error((*ptrErr)(nil))}

func doPanic(kind string) {
	switch kind {
	case "nil":
		panic(nil)
	case "rtidx":
		var s []int
		i := 3
		_ = s[i]
	case "rtnilmap":
		var m map[string]int
		m["x"] = 1
	default:
		panic(panicValue(kind))
	}
	panic("unknown kind")
}

func expectedPanicText(kind string) string {
	switch kind {
	case "nil":
		return "panic called with nil argument"
	case "rtidx":
		return "runtime error: index out of range [3] with length 0"
	case "rtnilmap":
		return "assignment to entry in nil map"
	case "rtidx2":
		return "?"
	}
	// what fmt's %v verb prints for the value (fmt recovers from panicking Error/String methods)
	return fmt.Sprintf("%v", panicValue(kind))
}

func (f fnSpec) String() string {
	s := ""
	switch f.kind {
	case "n":
		s = "n"
	case "e":
		s = "e" + f.arg
	case "p":
		s = "p" + f.arg
	case "N":
		parts := make([]string, len(f.nested))
		for i, x := range f.nested {
			parts[i] = x.String()
		}
		s = "(N " + strings.Join(parts, " ") + ")"
	}
	if f.delay > 0 {
		s += "@" + strconv.Itoa(f.delay)
	}
	return s
}

func parseGroup(toks []string, pos int) ([]fnSpec, int) {
	var out []fnSpec
	for pos < len(toks) {
		t := toks[pos]
		if t == ")" {
			return out, pos + 1
		}
		if t == "(" {
			// ( N ... )
			inner, np := parseGroup(toks, pos+2)
			f := fnSpec{kind: "N", nested: inner}
			pos = np
			if pos < len(toks) && strings.HasPrefix(toks[pos], "@") {
				f.delay, _ = strconv.Atoi(toks[pos][1:])
				pos++
			}
			out = append(out, f)
			continue
		}
		f := fnSpec{}
		if i := strings.Index(t, "@"); i >= 0 {
			f.delay, _ = strconv.Atoi(t[i+1:])
			t = t[:i]
		}
		f.kind = t[:1]
		f.arg = t[1:]
		out = append(out, f)
		pos++
	}
	return out, pos
}

func tokenize(s string) []string {
	s = strings.ReplaceAll(s, "(", " ( ")
	s = strings.ReplaceAll(s, ")", " ) ")
	s = strings.ReplaceAll(s, ") @", ")@")
	fs := strings.Fields(s)
	// re-attach "@n" following ")" as its own token
	var out []string
	for _, f := range fs {
		if strings.HasPrefix(f, ")@") {
			out = append(out, ")", f[1:])
		} else {
			out = append(out, f)
		}
	}
	return out
}

// runGroup executes the group with the real errguard.Go and returns Wait()'s result.
func runGroup(fns []fnSpec) error {
	g, gctx := errgroup.WithContext(context.Background())
	for _, f := range fns {
		f := f
		errguard.Go(g, func() error {
			if f.delay >= 2 {
				// "later" function: acts only after the group has recorded its first error
				// (errgroup cancels the context right after storing it), so the completion order is forced
				<-gctx.Done()
			}
			switch f.kind {
			case "n":
				return nil
			case "e":
				k, _ := strconv.Atoi(f.arg)
				return errVals[k]
			case "p":
				doPanic(f.arg)
				return nil
			case "N":
				return runGroup(f.nested)
			}
			return nil
		})
	}
	return g.Wait()
}

// classify renders Wait()'s result canonically, relative to the group's functions.
func classify(err error, fns []fnSpec) string {
	if err == nil {
		return "nil"
	}
	for k, e := range errVals {
		if err == e {
			return "same:e" + strconv.Itoa(k)
		}
	}
	msg := err.Error()
	if strings.HasPrefix(msg, "panic recovered: ") {
		rest := strings.TrimPrefix(msg, "panic recovered: ")
		for _, kind := range panicKinds {
			if strings.HasPrefix(rest, expectedPanicText(kind)+"\n") {
				return "recovered:" + kind
			}
		}
		return "recovered:?" + hx.OneLine(rest[:min(len(rest), 40)])
	}
	return "other:" + hx.OneLine(msg[:min(len(msg), 40)])
}

func hasPanic(fns []fnSpec) bool {
	for _, f := range fns {
		if f.kind == "p" || (f.kind == "N" && hasPanic(f.nested)) {
			return true
		}
	}
	return false
}

// child: read group specs from stdin, one per line; print "<line#> <class>" after each.
func child() {
	sc := bufio.NewScanner(os.Stdin)
	sc.Buffer(make([]byte, 1<<20), 1<<20)
	w := bufio.NewWriter(os.Stdout)
	sawPanic := false
	for sc.Scan() {
		line := sc.Text()
		i := strings.Index(line, "\t")
		id, spec := line[:i], line[i+1:]
		fns, _ := parseGroup(tokenize(spec), 0)
		sawPanic = sawPanic || hasPanic(fns)
		err := runGroup(fns)
		fmt.Fprintf(w, "%s\t%s\n", id, classify(err, fns))
		w.Flush()
	}
	if sawPanic {
		// A panic that was not recovered kills the process only after the panicking goroutine's
		// deferred calls ran — including errgroup's done(), which releases Wait(). Stay alive long
		// enough for the runtime to do so, so that a crash caused by the last cases is not lost by
		// exiting normally first. (runBatch re-runs the cases around a crash one per process to
		// attribute it.)
		time.Sleep(400 * time.Millisecond)
	}
}

func runChild(specs []string, from, to int) string {
	cmd := exec.Command(os.Args[0], "child")
	var in strings.Builder
	for i := from; i < to; i++ {
		fmt.Fprintf(&in, "%d\t%s\n", i, specs[i])
	}
	cmd.Stdin = strings.NewReader(in.String())
	outb, _ := cmd.Output() // a crash leaves partial output and a non-zero exit status
	if cmd.ProcessState == nil || !cmd.ProcessState.Success() {
		return string(outb) + "\nCRASHED\n"
	}
	return string(outb)
}

// crashWindow: how many cases before the one a dying child was working on are re-run alone.
const crashWindow = 16

// runBatch feeds specs to child processes. When a child dies, the case it was on and the few
// before it (whose unrecovered panic may have taken a moment to bring the process down) are re-run
// one per process; every case that kills its own process is a crash, and if none does the crash is
// still recorded against the case the child was on.
func runBatch(specs []string) []string {
	res := make([]string, len(specs))
	start := 0
	for start < len(specs) {
		out := runChild(specs, start, len(specs))
		done := start
		for _, l := range strings.Split(out, "\n") {
			parts := strings.SplitN(l, "\t", 2)
			if len(parts) != 2 {
				continue
			}
			idx, err := strconv.Atoi(parts[0])
			if err != nil || idx != done {
				continue
			}
			res[idx] = parts[1]
			done++
		}
		if !strings.HasSuffix(out, "\nCRASHED\n") && done == len(specs) {
			break
		}
		if done == len(specs) {
			done-- // died after answering every case: the culprit is among the last ones
		}
		attributed := false
		for k := max(start, done-crashWindow); k <= done; k++ {
			one := runChild(specs, k, k+1)
			if strings.HasSuffix(one, "\nCRASHED\n") {
				res[k] = "crash"
				attributed = true
			} else if k == done {
				if parts := strings.SplitN(strings.TrimSpace(one), "\t", 2); len(parts) == 2 {
					res[k] = parts[1]
				}
			}
		}
		if !attributed {
			res[done] = "crash"
		}
		start = done + 1
	}
	return res
}

func genFn(r *hx.Rand, depth int) fnSpec {
	x := r.Intn(100)
	switch {
	case x < 40:
		return fnSpec{kind: "n"}
	case x < 60:
		return fnSpec{kind: "e", arg: strconv.Itoa(r.Intn(len(errVals)))}
	case x < 90 || depth == 0:
		return fnSpec{kind: "p", arg: hx.Pick(r, panicKinds)}
	default:
		n := 1 + r.Intn(3)
		f := fnSpec{kind: "N"}
		for i := 0; i < n; i++ {
			f.nested = append(f.nested, genFn(r, depth-1))
		}
		return f
	}
}

func failing(f fnSpec) bool {
	switch f.kind {
	case "n":
		return false
	case "N":
		for _, x := range f.nested {
			if failing(x) {
				return true
			}
		}
		return false
	}
	return true
}

func run(a hx.RunArgs) error {
	out := hx.NewOut(a.OutDir)
	defer out.Close()
	out.Rule = "groups of 1-5 functions run through the real errguard.Go + errgroup.Wait in child processes (a process crash is an observation): " +
		fmt.Sprintf("each function returns nil / one of %d error values (plain, wrapped, joined, sentinel, pointer and typed-nil errors) / panics with one of %d value kinds (nil, error, string, int, struct, runtime errors, Stringer, typed-nil error, values whose Error/String method itself panics) / runs a nested guarded group; ", len(errVals), len(panicKinds)) +
		"unstaggered groups have at most one failing function (order-independent result); ordered groups force which failing function completes first (the others wait on the group's context); non-trivial = some function fails"
	// self-check of the harness: Wait()'s message must identify the panic kind, so the texts of the
	// kinds must be pairwise distinct (classify matches "<text>\n" at the start of the message).
	for i, k1 := range panicKinds {
		for _, k2 := range panicKinds[:i] {
			if expectedPanicText(k1) == expectedPanicText(k2) {
				return fmt.Errorf("harness defect: panic kinds %s and %s have the same %%v text %q", k1, k2, expectedPanicText(k1))
			}
		}
	}
	r := hx.NewRand(a.Seed)
	var specs []string
	var groups [][]fnSpec
	var bad error
	var wellFormed func(fns []fnSpec) bool
	wellFormed = func(fns []fnSpec) bool {
		for _, f := range fns {
			switch f.kind {
			case "n", "e", "p":
			case "N":
				if !wellFormed(f.nested) {
					return false
				}
			default:
				return false
			}
		}
		return len(fns) > 0
	}
	add := func(fns []fnSpec) {
		if !wellFormed(fns) && bad == nil {
			bad = fmt.Errorf("harness defect: generated a malformed group %+v", fns)
		}
		parts := make([]string, len(fns))
		for i, f := range fns {
			parts[i] = f.String()
		}
		specs = append(specs, strings.Join(parts, " "))
		groups = append(groups, fns)
	}
	// corpus: every panic kind alone, every error alone, nil
	add([]fnSpec{{kind: "n"}})
	for _, k := range panicKinds {
		add([]fnSpec{{kind: "p", arg: k}})
		add([]fnSpec{{kind: "n"}, {kind: "p", arg: k}, {kind: "n"}})
	}
	for k := range errVals {
		add([]fnSpec{{kind: "e", arg: strconv.Itoa(k)}})
	}
	add([]fnSpec{{kind: "N", nested: []fnSpec{{kind: "p", arg: "str"}, {kind: "n"}}}})
	n, nStag := 1500, 400
	if a.Thorough {
		n, nStag = 60000, 20000
	}
	for i := 0; i < n; i++ {
		cnt := 1 + r.Intn(5)
		fns := make([]fnSpec, cnt)
		failAt := -1
		if r.Chance(4, 5) {
			failAt = r.Intn(cnt)
		}
		for j := range fns {
			fns[j] = fnSpec{kind: "n"}
			if j == failAt {
				for !failing(fns[j]) {
					fns[j] = genFn(r, 2)
				}
				// a nested group must itself have at most one failing member to stay order independent
				if fns[j].kind == "N" {
					fns[j] = fnSpec{kind: "N", nested: []fnSpec{{kind: "n"}, genFn(r, 0), {kind: "n"}}}
				}
			} else if r.Chance(1, 6) {
				fns[j] = fnSpec{kind: "N", nested: []fnSpec{{kind: "n"}, {kind: "n"}}}
			}
		}
		add(fns)
	}
	for i := 0; i < nStag; i++ {
		// forced completion order: exactly one failing function acts first (@1); every other failing
		// function (@2) waits until the group has recorded its first error; nil-returning ones are free
		cnt := 2 + r.Intn(4)
		first := r.Intn(cnt)
		fns := make([]fnSpec, cnt)
		for j := range fns {
			if j == first {
				fns[j] = fnSpec{kind: "n"}
				for !failing(fns[j]) {
					fns[j] = genFn(r, 0)
				}
				fns[j].delay = 1
			} else {
				fns[j] = genFn(r, 0)
				if failing(fns[j]) {
					fns[j].delay = 2
				}
			}
		}
		add(fns)
	}
	if bad != nil {
		return bad
	}
	res := runBatch(specs)
	for i, spec := range specs {
		nontriv := false
		for _, f := range groups[i] {
			if failing(f) {
				nontriv = true
			}
		}
		id := out.Case("(group "+spec+")", res[i], nontriv)
		out.Stat("fns:" + strconv.Itoa(len(groups[i])))
		if strings.Contains(spec, "@") {
			out.Stat("staggered")
		}
		if strings.Contains(spec, "(N") {
			out.Stat("nested")
		}
		// model-free oracle: never a crash; nil iff no function fails
		if res[i] == "crash" {
			out.OracleFail(id, "-", "process crashed running group "+spec)
		} else if (res[i] == "nil") == nontriv {
			out.OracleFail(id, "-", "Wait()="+res[i]+" for group "+spec)
		}
	}
	return nil
}
