// C02 — Query results match the SQL definition of the query (engine vs. reference semantics).
//
//	c02 extract   truth tables of the engine's own 3VL operators, comparison operators, IN-list and
//	              BETWEEN, dumped by running the freshly compiled sql/expression code on the
//	              domain {NULL,0,1,2} → Gms/Generated/C02.lean (closed by `decide` against M1);
//	              per-row values of correlated IN / EXISTS / scalar subqueries over 24 outer rows
//	              in 72 scan orders, dumped by running the engine (corrfacts.go)
//	c02 run       generated databases + query terms: SQL text on the real engine, the term on the
//	              Lean reference semantics (drv_c02), canonical result multisets/sequences diffed
//	c02 sql       run the statements on stdin on a fresh engine (manual replay of witnesses)
package main

import (
	"bufio"
	"fmt"
	"os"
	"strings"

	"github.com/dolthub/go-mysql-server/sql"
	"github.com/dolthub/go-mysql-server/sql/expression"
	"github.com/dolthub/go-mysql-server/sql/types"
	"github.com/dolthub/go-mysql-server/verifharness/hx"
	"github.com/dolthub/go-mysql-server/verifharness/hx/eng"
	"github.com/dolthub/go-mysql-server/verifharness/sqlgen"
)

func main() {
	if len(os.Args) > 1 && os.Args[1] == "sql" {
		sqlMode()
		return
	}
	hx.Main(extract, run)
}

// sqlMode: run the statements read from stdin (one per line) on a fresh engine and print the
// canonical observation of each — used to replay witnesses by hand.
func sqlMode() {
	e := eng.New("d")
	ctx := e.Ctx()
	sc := bufio.NewScanner(os.Stdin)
	sc.Buffer(make([]byte, 1<<20), 1<<24)
	for sc.Scan() {
		q := strings.TrimSpace(sc.Text())
		if q == "" || strings.HasPrefix(q, "--") {
			continue
		}
		r := e.Query(ctx, q)
		fmt.Printf("%s\n  => %s  types=%v", q, r.Class(), r.Types)
		if r.Err != nil {
			fmt.Printf(" err=%v", r.Err)
		}
		if r.Panic != "" {
			fmt.Printf(" panic=%v", r.Panic)
		}
		var txt []string
		for _, row := range r.Rows {
			txt = append(txt, "["+strings.Join(row, ",")+"]")
		}
		fmt.Printf("\n  rows: %s\n", strings.Join(txt, " "))
	}
}

// ---------------------------------------------------------------------------------------------
// Facts

var dom = []interface{}{nil, int64(0), int64(1), int64(2)}

func lit(v interface{}) sql.Expression {
	if v == nil {
		return expression.NewLiteral(nil, types.Null)
	}
	return expression.NewLiteral(v, types.Int64)
}

func leanOpt(v interface{}) (string, error) {
	switch x := v.(type) {
	case nil:
		return "none", nil
	case bool:
		if x {
			return "some 1", nil
		}
		return "some 0", nil
	case int8:
		return fmt.Sprintf("some %d", x), nil
	case int64:
		return fmt.Sprintf("some %d", x), nil
	case int:
		return fmt.Sprintf("some %d", x), nil
	}
	return "", fmt.Errorf("unexpected result %T %v", v, v)
}

func extract(a hx.ExtractArgs) error {
	ctx := sql.NewEmptyContext()
	lf := hx.NewLeanFile("Gms.Generated.C02", "sql/expression/logic.go", "sql/expression/boolean.go", "sql/expression/comparison.go",
		"sql/expression/in.go", "sql/expression/between.go", "sql/expression/isnull.go", "sql/expression/istrue.go",
		"sql/plan/insubquery.go", "sql/plan/subquery.go", "sql/rowexec (correlated subqueries run on the engine)")
	lf.Comment("Truth tables obtained by RUNNING the freshly compiled sql/expression operators on {NULL,0,1,2}.")
	lf.Comment("Entry: (operands…, result); NULL = none; TRUE/FALSE = some 1 / some 0.")
	eval := func(e sql.Expression) (string, error) {
		var v interface{}
		var err error
		if p := hx.Safe(func() { v, err = e.Eval(ctx, nil) }); p != "" {
			return "", fmt.Errorf("panic evaluating %s: %s", e, p)
		}
		if err != nil {
			return "", fmt.Errorf("error evaluating %s: %v", e, err)
		}
		return leanOpt(v)
	}
	opt := func(v interface{}) string { s, _ := leanOpt(v); return s }

	bin := func(name string, mk func(l, r sql.Expression) sql.Expression) error {
		var rows []string
		for _, x := range dom {
			for _, y := range dom {
				r, err := eval(mk(lit(x), lit(y)))
				if err != nil {
					return err
				}
				rows = append(rows, fmt.Sprintf("(%s, %s, %s)", opt(x), opt(y), r))
			}
		}
		lf.Raw(fmt.Sprintf("def %s : List (Option Int × Option Int × Option Int) := [\n  %s]\n", name, strings.Join(rows, ",\n  ")))
		return nil
	}
	un := func(name string, mk func(c sql.Expression) sql.Expression) error {
		var rows []string
		for _, x := range dom {
			r, err := eval(mk(lit(x)))
			if err != nil {
				return err
			}
			rows = append(rows, fmt.Sprintf("(%s, %s)", opt(x), r))
		}
		lf.Raw(fmt.Sprintf("def %s : List (Option Int × Option Int) := [%s]\n", name, strings.Join(rows, ", ")))
		return nil
	}
	tern := func(name string, mk func(a, b, c sql.Expression) sql.Expression) error {
		var rows []string
		for _, x := range dom {
			for _, y := range dom {
				for _, z := range dom {
					r, err := eval(mk(lit(x), lit(y), lit(z)))
					if err != nil {
						return err
					}
					rows = append(rows, fmt.Sprintf("(%s, %s, %s, %s)", opt(x), opt(y), opt(z), r))
				}
			}
		}
		lf.Raw(fmt.Sprintf("def %s : List (Option Int × Option Int × Option Int × Option Int) := [\n  %s]\n", name, strings.Join(rows, ",\n  ")))
		return nil
	}
	steps := []error{
		bin("andTable", expression.NewAnd),
		bin("orTable", expression.NewOr),
		bin("xorTable", expression.NewXor),
		bin("eqTable", func(l, r sql.Expression) sql.Expression { return expression.NewEquals(l, r) }),
		bin("neTable", func(l, r sql.Expression) sql.Expression { return expression.NewNot(expression.NewEquals(l, r)) }),
		bin("ltTable", func(l, r sql.Expression) sql.Expression { return expression.NewLessThan(l, r) }),
		bin("leTable", func(l, r sql.Expression) sql.Expression { return expression.NewLessThanOrEqual(l, r) }),
		bin("gtTable", func(l, r sql.Expression) sql.Expression { return expression.NewGreaterThan(l, r) }),
		bin("geTable", func(l, r sql.Expression) sql.Expression { return expression.NewGreaterThanOrEqual(l, r) }),
		bin("nseqTable", func(l, r sql.Expression) sql.Expression { return expression.NewNullSafeEquals(l, r) }),
		un("notTable", func(c sql.Expression) sql.Expression { return expression.NewNot(c) }),
		un("isNullTable", func(c sql.Expression) sql.Expression { return expression.NewIsNull(c) }),
		un("isTrueTable", func(c sql.Expression) sql.Expression { return expression.NewIsTrue(c) }),
		un("isFalseTable", func(c sql.Expression) sql.Expression { return expression.NewIsFalse(c) }),
		tern("inTable", func(x, y, z sql.Expression) sql.Expression { return expression.NewInTuple(x, expression.NewTuple(y, z)) }),
		tern("notInTable", func(x, y, z sql.Expression) sql.Expression { return expression.NewNotInTuple(x, expression.NewTuple(y, z)) }),
		tern("betweenTable", func(x, y, z sql.Expression) sql.Expression { return expression.NewBetween(x, y, z) }),
	}
	for _, err := range steps {
		if err != nil {
			return err
		}
	}
	if err := corrFacts(lf); err != nil {
		return err
	}
	return lf.Write(a.Out)
}

// ---------------------------------------------------------------------------------------------
// Correspondence

// Cell canonicalises one result cell by the statically known type of the output column.
func Cell(text string, isNull bool, ty sqlgen.Ty) string {
	if isNull {
		return "null"
	}
	if ty == sqlgen.TStr {
		return hx.HexS(text)
	}
	return sqlgen.CanonInt(text)
}

func run(a hx.RunArgs) error {
	out := hx.NewOut(a.OutDir)
	defer out.Close()
	out.Rule = "a generated database (1-3 tables, <=3 columns, <=6 rows, NULLs, duplicate rows, int and varchar columns, optional secondary index) " +
		"and a type-directed random query term (depth <=4) printed as SQL for the engine and as an s-expression for the Lean reference semantics; " +
		"a case is non-trivial when the engine returned at least one row, the query has at least two relational operators and the data has a NULL; " +
		"plus a correlated-subquery stream: outer table t0(probe, key, x) and inner tables t1/t2(member, key, x) whose key groups differ in emptiness, NULL-ness and " +
		"containing the probe value, probed by [NOT] IN / [NOT] EXISTS / scalar aggregates correlated on the key, as WHERE predicate or select item, in random scan orders"
	r := hx.NewRand(a.Seed).Fork() // (hx.NewRand(s+1) is hx.NewRand(s) advanced by one draw: fork to decorrelate seeds)
	nDb, perDb := 60, 12
	if a.Thorough {
		nDb, perDb = 900, 16
	}
	rn := sqlgen.Runner{Out: out, Tag: "c02"}
	// corpus first
	for _, c := range sqlgen.Corpus() {
		rn.Open(c.Db)
		for _, q := range c.Queries {
			rn.Case(q.Q, q.Tys, q.Ordered, &sqlgen.Printer{Db: c.Db})
		}
		for _, w := range c.Witnesses {
			p := w.Opt
			p.Db = c.Db
			rn.Case(w.Q, w.Tys, w.Ordered, &p)
			out.Stat("known-finding-witness")
		}
	}
	g := sqlgen.NewGen(r, sqlgen.Default())
	for i := 0; i < nDb; i++ {
		db := g.GenDb()
		rn.Open(db)
		for k := 0; k < perDb; k++ {
			q, tys := g.Query(r.Range(1, 4))
			ordered := false
			if r.Chance(1, 3) {
				q = g.OrderLimit(q, tys, r.Chance(1, 3))
				ordered = true
			}
			p := &sqlgen.Printer{Db: db, NoFuse: r.Chance(1, 10), CTE: r.Chance(1, 8), FuseGroupProject: false}
			rn.Case(q, tys, ordered, p)
		}
	}
	for k, v := range g.Stats {
		out.StatN(k, v)
	}
	// correlated-subquery stream (corr.go): its own generator state, so that the stream above is
	// the same sample with and without it
	nCorrDb, perCorrDb := 40, 10
	if a.Thorough {
		nCorrDb, perCorrDb = 500, 12
	}
	corrStream(&rn, hx.NewRand(a.Seed+0x5bd1e995).Fork(), out, nCorrDb, perCorrDb)
	return nil
}
