// C02 — Query results match the SQL definition of the query (engine vs. reference semantics).
package main

import (
	"bufio"
	"fmt"
	"os"
	"strings"

	"github.com/dolthub/go-mysql-server/verifharness/hx"
	"github.com/dolthub/go-mysql-server/verifharness/hx/eng"
)

func main() {
	if len(os.Args) > 1 && os.Args[1] == "sql" {
		sqlMode()
		return
	}
	hx.Main(nil, nil)
}

// sqlMode: run the statements read from stdin (one per line) on a fresh engine and print the
// canonical observation of each — used to replay witnesses by hand.
func sqlMode() {
	e := eng.New("d")
	ctx := e.Ctx()
	sc := bufio.NewScanner(os.Stdin)
	sc.Buffer(make([]byte, 1<<20), 1<<24)
	for sc.Scan() {
		q := strings.TrimSpace(sc.Text())
		if q == "" || strings.HasPrefix(q, "--") {
			continue
		}
		r := e.Query(ctx, q)
		fmt.Printf("%s\n  => %s  types=%v", q, eng.Canon(r, true), r.Types)
		if r.Err != nil {
			fmt.Printf(" err=%v", r.Err)
		}
		if r.Panic != "" {
			fmt.Printf(" panic=%v", r.Panic)
		}
		var txt []string
		for _, row := range r.Rows {
			txt = append(txt, "["+strings.Join(row, ",")+"]")
		}
		fmt.Printf("\n  text: %s\n", strings.Join(txt, " "))
	}
}
