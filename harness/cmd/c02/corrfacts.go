// Regenerated fact of C02: per-row values of correlated subquery expressions are independent of
// the rows evaluated before them.
//
// The table is obtained by RUNNING the freshly compiled engine. 24 outer rows (id, a, b) — every
// combination of a probe value a ∈ {NULL,0,1} with one of 8 groups b of the inner table u(a,b),
// whose member sets are every subset-with-NULL shape over {NULL,0,1}: {} {NULL} {0} {1} {NULL,0}
// {NULL,1} {0,1} {NULL,0,1} — are stored in 72 different insertion (= scan) orders: every rotation
// of the strides 1, 5 and 23, so that every row is the first one evaluated in some order and many
// different pairs are adjacent. For each order four statements are run on the same tables:
//
//	SELECT id, a IN (SELECT u.a FROM u WHERE u.b = t.b) FROM t
//	SELECT id, EXISTS (SELECT u.a FROM u WHERE u.b = t.b AND u.a = t.a) FROM t
//	SELECT id, (SELECT MAX(u.a) FROM u WHERE u.b = t.b) FROM t
//	SELECT id FROM t WHERE a NOT IN (SELECT u.a FROM u WHERE u.b = t.b)
//
// Gms/Props/C02.lean proves (`facts_corr_rows_independent`) that in every order every row carries
// exactly the value the SQL definition gives to that row ALONE (Gms.Rel.evalE with only that row on
// the environment) and that the WHERE keeps exactly the rows whose own NOT IN is TRUE: one
// expression object evaluated on successive rows keeps nothing from one row to the next.
package main

import (
	"fmt"
	"strconv"
	"strings"

	"github.com/dolthub/go-mysql-server/verifharness/hx"
	"github.com/dolthub/go-mysql-server/verifharness/hx/eng"
)

var corrX = []*int{nil, ip(0), ip(1)}
var corrSets = [][]*int{{}, {nil}, {ip(0)}, {ip(1)}, {nil, ip(0)}, {nil, ip(1)}, {ip(0), ip(1)}, {nil, ip(0), ip(1)}}

func ip(i int) *int { return &i }

func sqlOpt(p *int) string {
	if p == nil {
		return "NULL"
	}
	return strconv.Itoa(*p)
}

func leanOptP(p *int) string {
	if p == nil {
		return "none"
	}
	return fmt.Sprintf("some %d", *p)
}

// leanCell: client-visible text of an integer / boolean cell as `Option Int`.
func leanCell(text string, isNull bool) (string, error) {
	if isNull {
		return "none", nil
	}
	switch text {
	case "true":
		return "some 1", nil
	case "false":
		return "some 0", nil
	}
	i, err := strconv.ParseInt(text, 10, 64)
	if err != nil {
		return "", fmt.Errorf("unexpected cell %q", text)
	}
	if i < 0 {
		return fmt.Sprintf("some (%d)", i), nil
	}
	return fmt.Sprintf("some %d", i), nil
}

func corrFacts(lf *hx.LeanFile) error {
	nx, ns := len(corrX), len(corrSets)
	n := nx * ns
	e := eng.New("d")
	ctx := e.Ctx()
	exec := func(q string) error {
		if r := e.Query(ctx, q); r.Class() != "ok" {
			return fmt.Errorf("%s: %s %v %s", q, r.Class(), r.Err, r.Panic)
		}
		return nil
	}
	if err := exec("CREATE TABLE u (a int, b int)"); err != nil {
		return err
	}
	var urows []string
	for b, s := range corrSets {
		for _, a := range s {
			urows = append(urows, fmt.Sprintf("(%s, %d)", sqlOpt(a), b))
		}
	}
	if err := exec("INSERT INTO u VALUES " + strings.Join(urows, ", ")); err != nil {
		return err
	}
	var orders [][]int
	for _, stride := range []int{1, 5, 23} {
		for rot := 0; rot < n; rot++ {
			o := make([]int, n)
			for i := range o {
				o[i] = (rot + i*stride) % n
			}
			orders = append(orders, o)
		}
	}
	const sub = "(SELECT u.a FROM u WHERE u.b = t.b)"
	var runs []string
	for k, o := range orders {
		if err := exec("DROP TABLE IF EXISTS t"); err != nil {
			return err
		}
		if err := exec("CREATE TABLE t (id int, a int, b int)"); err != nil {
			return err
		}
		rows := make([]string, n)
		for i, id := range o {
			rows[i] = fmt.Sprintf("(%d, %s, %d)", id, sqlOpt(corrX[id/ns]), id%ns)
		}
		if err := exec("INSERT INTO t VALUES " + strings.Join(rows, ", ")); err != nil {
			return err
		}
		// id → value, and the order in which the ids came back
		col := func(q string) (map[int]string, []int, error) {
			r := e.Query(ctx, q)
			if r.Class() != "ok" {
				return nil, nil, fmt.Errorf("%s: %s %v %s", q, r.Class(), r.Err, r.Panic)
			}
			m := map[int]string{}
			var ids []int
			for i, row := range r.Rows {
				id, err := strconv.Atoi(row[0])
				if err != nil || id < 0 || id >= n || len(row) != 2 {
					return nil, nil, fmt.Errorf("%s: unexpected row %v", q, row)
				}
				c, err := leanCell(row[1], r.Null[i][1])
				if err != nil {
					return nil, nil, fmt.Errorf("%s: %v", q, err)
				}
				if _, dup := m[id]; dup {
					return nil, nil, fmt.Errorf("%s: id %d returned twice", q, id)
				}
				m[id] = c
				ids = append(ids, id)
			}
			if len(ids) != n {
				return nil, nil, fmt.Errorf("%s: %d rows, want %d", q, len(ids), n)
			}
			return m, ids, nil
		}
		in, ids, err := col("SELECT id, a IN " + sub + " FROM t")
		if err != nil {
			return err
		}
		ex, _, err := col("SELECT id, EXISTS (SELECT u.a FROM u WHERE u.b = t.b AND u.a = t.a) FROM t")
		if err != nil {
			return err
		}
		mx, _, err := col("SELECT id, (SELECT MAX(u.a) FROM u WHERE u.b = t.b) FROM t")
		if err != nil {
			return err
		}
		r := e.Query(ctx, "SELECT id FROM t WHERE a NOT IN "+sub)
		if r.Class() != "ok" {
			return fmt.Errorf("run %d: NOT IN filter: %s %v", k, r.Class(), r.Err)
		}
		var kept []string
		for _, row := range r.Rows {
			if _, err := strconv.Atoi(row[0]); err != nil {
				return fmt.Errorf("run %d: NOT IN filter: unexpected row %v", k, row)
			}
			kept = append(kept, row[0])
		}
		cells := make([]string, len(ids))
		for i, id := range ids {
			cells[i] = fmt.Sprintf("(%d, %s, %s, %s)", id, in[id], ex[id], mx[id])
		}
		runs = append(runs, fmt.Sprintf("  ([%s],\n   [%s])", strings.Join(cells, ", "), strings.Join(kept, ", ")))
	}
	lf.Comment("Correlated subqueries evaluated by the freshly compiled ENGINE over 24 outer rows in 72 scan orders (see harness/cmd/c02/corrfacts.go).")
	lf.Comment("corrX: probe values; corrSets: member sets of the 8 inner groups; outer row id = (index into corrX) * 8 + group.")
	xs := make([]string, nx)
	for i, x := range corrX {
		xs[i] = leanOptP(x)
	}
	lf.Raw(fmt.Sprintf("def corrX : List (Option Int) := [%s]\n", strings.Join(xs, ", ")))
	ss := make([]string, ns)
	for i, s := range corrSets {
		ms := make([]string, len(s))
		for j, a := range s {
			ms[j] = leanOptP(a)
		}
		ss[i] = "[" + strings.Join(ms, ", ") + "]"
	}
	lf.Raw(fmt.Sprintf("def corrSets : List (List (Option Int)) := [%s]\n", strings.Join(ss, ", ")))
	lf.Comment("One entry per scan order: rows (id, a IN (…), EXISTS (…), (SELECT MAX …)) in the order the engine returned them, and the ids kept by WHERE a NOT IN (…).")
	lf.Raw(fmt.Sprintf("def corrRuns : List (List (Nat × Option Int × Option Int × Option Int) × List Nat) := [\n%s]\n", strings.Join(runs, ",\n")))
	return nil
}
