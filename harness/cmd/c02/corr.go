// Correlated-subquery stream of C02.
//
// Class covered: an expression node that contains a subquery (IN / NOT IN / EXISTS / scalar) is ONE
// object evaluated once per outer row; when the subquery is correlated its result set is a
// function of the outer row. Anything the node (or the Subquery below it) keeps between two calls —
// a memoised "the set contains a NULL", a cached result set, a cached hash table, a cached scalar —
// is wrong as soon as two outer rows see different sets. The SQL definition (Gms.Rel.evalQ: `filter`
// and `project` evaluate the expression on every row with that row pushed on the environment) makes
// the per-row values independent of each other and of the scan order.
//
// To expose such state the stream builds databases in which the inner table is partitioned into
// GROUPS by a key column, the groups differ in exactly the features the IN / EXISTS / aggregate
// semantics depends on (empty / NULL-free / contains NULL / only NULL / contains the probe value),
// and the outer rows — in a random scan order — each select one group through the correlation
// predicate. Every case is an ordinary C02 case: the term goes to the Lean reference semantics, the
// SQL text to the engine.
package main

import (
	"github.com/dolthub/go-mysql-server/verifharness/hx"
	"github.com/dolthub/go-mysql-server/verifharness/sqlgen"
)

type corrGen struct {
	r     *hx.Rand
	str   bool // the probed column is a varchar column
	outer []sqlgen.Ty
	inner []sqlgen.Ty
	stat  func(string)
}

var corrStrPool = []string{"a", "b", "B", "ab"}

func (g *corrGen) val(nullNum, nullDen int) sqlgen.Value {
	if g.r.Chance(nullNum, nullDen) {
		return sqlgen.Null()
	}
	if g.str {
		return sqlgen.Str(hx.Pick(g.r, corrStrPool))
	}
	return sqlgen.Int(int64(g.r.Range(0, 3)))
}

// db: t0 = outer (c0 probe value, c1 group key, c2 int), t1 = inner (c0 member value, c1 group key,
// c2 int), t2 = second inner table of the same shape (often empty). Group keys are 0..3 (a key
// without inner rows selects the empty set), rarely NULL.
func (g *corrGen) db() *sqlgen.Db {
	vt := sqlgen.TInt
	if g.str {
		vt = sqlgen.TStr
	}
	g.outer = []sqlgen.Ty{vt, sqlgen.TInt, sqlgen.TInt}
	g.inner = []sqlgen.Ty{vt, sqlgen.TInt, sqlgen.TInt}
	key := func() sqlgen.Value {
		if g.r.Chance(1, 12) {
			return sqlgen.Null()
		}
		return sqlgen.Int(int64(g.r.Range(0, 3)))
	}
	t0 := &sqlgen.Table{Tys: g.outer, NotNull: []bool{false, false, false}}
	for i, n := 0, g.r.Range(2, 6); i < n; i++ {
		t0.Rows = append(t0.Rows, []sqlgen.Value{g.val(1, 6), key(), sqlgen.Int(int64(g.r.Range(-1, 2)))})
	}
	mkInner := func(lo, hi int) *sqlgen.Table {
		t := &sqlgen.Table{Tys: g.inner, NotNull: []bool{false, false, false}}
		// per group: a NULL-ness profile, so that groups differ
		prof := [4]int{g.r.Intn(4), g.r.Intn(4), g.r.Intn(4), g.r.Intn(4)}
		for i, n := 0, g.r.Range(lo, hi); i < n; i++ {
			k := key()
			var v sqlgen.Value
			p := 0
			if !k.Null {
				p = prof[k.I]
			}
			switch p {
			case 0: // NULL-free group
				v = g.val(0, 1)
			case 1: // mostly NULL
				v = g.val(3, 4)
			default:
				v = g.val(1, 3)
			}
			t.Rows = append(t.Rows, []sqlgen.Value{v, k, sqlgen.Int(int64(g.r.Range(-1, 2)))})
		}
		return t
	}
	t1 := mkInner(2, 9)
	t2 := mkInner(0, 4)
	return &sqlgen.Db{Tables: []*sqlgen.Table{t0, t1, t2}}
}

// corrPred: the correlation predicate of a subquery over inner table rows (scope: depth 0 = inner
// row, depth 1 = outer row). Every top-level conjunct mentions the inner row (see sqlgen.subBlock).
func (g *corrGen) corrPred() *sqlgen.Expr {
	c := sqlgen.Col
	eq := sqlgen.Cmp("eq", c(0, 1), c(1, 1))
	switch g.r.Intn(12) {
	case 0:
		g.stat("corr:key-nseq")
		return sqlgen.Cmp("nseq", c(0, 1), c(1, 1))
	case 1:
		g.stat("corr:key-range")
		return sqlgen.Cmp(hx.Pick(g.r, []string{"le", "lt", "ge", "ne"}), c(0, 1), c(1, 1))
	case 2:
		g.stat("corr:key-and-local")
		return sqlgen.Bin("and", eq, sqlgen.Cmp(hx.Pick(g.r, []string{"ge", "le", "ne"}), c(0, 2), sqlgen.Lit(sqlgen.Int(int64(g.r.Range(-1, 1))))))
	case 3:
		g.stat("corr:key-and-outer2")
		return sqlgen.Bin("and", eq, sqlgen.Cmp(hx.Pick(g.r, []string{"ge", "le", "ne", "eq"}), c(0, 2), c(1, 2)))
	case 4:
		g.stat("corr:key-swapped")
		return sqlgen.Cmp("eq", c(1, 1), c(0, 1))
	}
	g.stat("corr:key-eq")
	return eq
}

func (g *corrGen) innerTable() int {
	if g.r.Chance(1, 6) {
		return 2
	}
	return 1
}

// left operand of IN / the comparison with a scalar subquery (type of the probed column).
func (g *corrGen) left() *sqlgen.Expr {
	switch g.r.Intn(8) {
	case 0:
		g.stat("corr:left-literal")
		return sqlgen.Lit(g.val(0, 1))
	case 1:
		if !g.str {
			g.stat("corr:left-arith")
			return sqlgen.Arith("add", sqlgen.Col(0, 0), sqlgen.Lit(sqlgen.Int(int64(g.r.Range(0, 1)))))
		}
	}
	return sqlgen.Col(0, 0)
}

// subPred draws one predicate over the outer row that contains a correlated subquery.
func (g *corrGen) subPred() *sqlgen.Expr {
	c := sqlgen.Col
	tab := g.innerTable()
	switch k := g.r.Intn(11); {
	case k == 10: // EXISTS over the inner table whose rows are tested by an IN-subquery correlated to the OUTERMOST row
		deep := sqlgen.Project([]*sqlgen.Expr{c(0, 0)}, sqlgen.Filter(sqlgen.Cmp("eq", c(0, 1), c(2, 1)), sqlgen.TableQ(2)))
		in := sqlgen.InSub(c(0, 0), deep)
		var t *sqlgen.Expr = in
		if g.r.Bool() {
			n := sqlgen.Not(in)
			n.Alt = true
			t = n
		}
		e := sqlgen.Exists(sqlgen.Filter(sqlgen.Bin("and", g.corrPred(), t), sqlgen.TableQ(1)))
		g.stat("corr:nested-depth2")
		return e
	case k < 6: // [NOT] IN
		sub := sqlgen.Project([]*sqlgen.Expr{c(0, 0)}, sqlgen.Filter(g.corrPred(), sqlgen.TableQ(tab)))
		e := sqlgen.InSub(g.left(), sub)
		g.stat("corr:in")
		if g.r.Chance(1, 2) {
			n := sqlgen.Not(e)
			n.Alt = g.r.Chance(3, 4)
			g.stat("corr:not-in")
			return n
		}
		return e
	case k < 8: // [NOT] EXISTS with the probe inside
		p := sqlgen.Bin("and", g.corrPred(), sqlgen.Cmp(hx.Pick(g.r, []string{"eq", "eq", "ne", "nseq"}), c(0, 0), c(1, 0)))
		e := sqlgen.Exists(sqlgen.Filter(p, sqlgen.TableQ(tab)))
		g.stat("corr:exists")
		if g.r.Chance(1, 2) {
			n := sqlgen.Not(e)
			n.Alt = g.r.Chance(3, 4)
			return n
		}
		return e
	default: // comparison with a correlated scalar aggregate
		fns := []string{"max", "min", "count", "countstar"}
		if !g.str {
			fns = append(fns, "sum")
		}
		fn := hx.Pick(g.r, fns)
		arg := c(0, 0)
		if fn == "countstar" {
			arg = sqlgen.Lit(sqlgen.Int(1))
		}
		sc := sqlgen.Scalar(sqlgen.Group(nil, []string{fn}, []*sqlgen.Expr{arg}, sqlgen.Filter(g.corrPred(), sqlgen.TableQ(tab))))
		g.stat("corr:scalar-" + fn)
		var l *sqlgen.Expr
		if fn == "max" || fn == "min" {
			l = g.left()
		} else {
			l = c(0, 2)
		}
		return sqlgen.Cmp(hx.Pick(g.r, []string{"eq", "ne", "le", "ge", "nseq"}), l, sc)
	}
}

// wrap puts p into a context that observes its three truth values differently.
func (g *corrGen) wrap(p *sqlgen.Expr) *sqlgen.Expr {
	switch g.r.Intn(10) {
	case 0:
		g.stat("corr:wrap-isnull")
		return sqlgen.Un("isnull", p)
	case 1:
		g.stat("corr:wrap-istruth")
		e := sqlgen.Un(hx.Pick(g.r, []string{"istrue", "isfalse"}), p)
		if g.r.Bool() {
			n := sqlgen.Not(e)
			n.Alt = true
			return n
		}
		return e
	case 2:
		g.stat("corr:wrap-not")
		return sqlgen.Not(p)
	case 3:
		g.stat("corr:wrap-or-local")
		return sqlgen.Bin("or", p, sqlgen.Cmp("lt", sqlgen.Col(0, 2), sqlgen.Lit(sqlgen.Int(0))))
	case 4:
		g.stat("corr:wrap-and-local")
		return sqlgen.Bin("and", sqlgen.Cmp("ge", sqlgen.Col(0, 2), sqlgen.Lit(sqlgen.Int(0))), p)
	}
	return p
}

// query: the predicate in a WHERE clause or as a select item of the outer table.
func (g *corrGen) query() (*sqlgen.Query, []sqlgen.Ty, bool) {
	base := sqlgen.TableQ(0)
	var q *sqlgen.Query
	tys := g.outer
	p := g.wrap(g.subPred())
	switch g.r.Intn(8) {
	case 0, 1, 2, 3:
		g.stat("corr:where")
		q = sqlgen.Filter(p, base)
	case 4, 5:
		g.stat("corr:select-item")
		q = sqlgen.Project([]*sqlgen.Expr{sqlgen.Col(0, 0), sqlgen.Col(0, 1), p}, base)
		tys = []sqlgen.Ty{g.outer[0], sqlgen.TInt, sqlgen.TBool}
	case 6:
		g.stat("corr:select-case")
		e := sqlgen.Ite(p, sqlgen.Lit(sqlgen.Int(10)), sqlgen.Bin("coalesce", p.Clone(), sqlgen.Lit(sqlgen.Int(20))))
		q = sqlgen.Project([]*sqlgen.Expr{sqlgen.Col(0, 0), sqlgen.Col(0, 1), e}, base)
		tys = []sqlgen.Ty{g.outer[0], sqlgen.TInt, sqlgen.TInt}
	default:
		g.stat("corr:where-and-select-item")
		q = sqlgen.Project([]*sqlgen.Expr{sqlgen.Col(0, 0), sqlgen.Col(0, 1), g.subPred()}, sqlgen.Filter(sqlgen.Bin("or", p, sqlgen.Un("isnull", p.Clone())), base))
		tys = []sqlgen.Ty{g.outer[0], sqlgen.TInt, sqlgen.TBool}
	}
	ordered := false
	if g.r.Chance(1, 4) {
		keys := []*sqlgen.Expr{sqlgen.Col(0, 1), sqlgen.Col(0, 0), sqlgen.Col(0, 2)}
		desc := []bool{g.r.Bool(), g.r.Bool(), g.r.Bool()}
		q = sqlgen.OrderBy(keys, desc, q)
		ordered = true
		g.stat("corr:ordered")
	}
	return q, tys, ordered
}

// corrCorpus: the canonical instance of the class — four groups {5,6} {NULL,7} {3} {} probed by
// four outer rows (miss without NULL, miss with NULL, hit, empty), in two scan orders.
func corrCorpus(rn *sqlgen.Runner, out *hx.Out) {
	I, N := func(i int) sqlgen.Value { return sqlgen.Int(int64(i)) }, sqlgen.Null()
	tys := []sqlgen.Ty{sqlgen.TInt, sqlgen.TInt, sqlgen.TInt}
	nn := []bool{false, false, false}
	inner := &sqlgen.Table{Tys: tys, NotNull: nn, Rows: [][]sqlgen.Value{{I(5), I(10), I(0)}, {I(6), I(10), I(0)}, {N, I(20), I(0)}, {I(7), I(20), I(0)}, {I(3), I(30), I(0)}}}
	rows := [][]sqlgen.Value{{I(1), I(10), I(0)}, {I(2), I(20), I(0)}, {I(3), I(30), I(0)}, {I(4), I(40), I(0)}, {N, I(40), I(0)}, {N, I(10), I(0)}}
	orders := [][]int{{0, 1, 2, 3, 4, 5}, {1, 0, 2, 3, 5, 4}, {3, 2, 1, 0, 4, 5}}
	c := sqlgen.Col
	sub := func() *sqlgen.Query {
		return sqlgen.Project([]*sqlgen.Expr{c(0, 0)}, sqlgen.Filter(sqlgen.Cmp("eq", c(0, 1), c(1, 1)), sqlgen.TableQ(1)))
	}
	for _, ord := range orders {
		t0 := &sqlgen.Table{Tys: tys, NotNull: nn}
		for _, i := range ord {
			t0.Rows = append(t0.Rows, rows[i])
		}
		db := &sqlgen.Db{Tables: []*sqlgen.Table{t0, inner, {Tys: tys, NotNull: nn}}}
		rn.Open(db)
		notIn := sqlgen.Not(sqlgen.InSub(c(0, 0), sub()))
		notIn.Alt = true
		qs := []struct {
			q   *sqlgen.Query
			tys []sqlgen.Ty
		}{
			{sqlgen.Filter(notIn, sqlgen.TableQ(0)), tys},
			{sqlgen.Filter(sqlgen.InSub(c(0, 0), sub()), sqlgen.TableQ(0)), tys},
			{sqlgen.Project([]*sqlgen.Expr{c(0, 0), c(0, 1), sqlgen.InSub(c(0, 0), sub())}, sqlgen.TableQ(0)), []sqlgen.Ty{sqlgen.TInt, sqlgen.TInt, sqlgen.TBool}},
			{sqlgen.Filter(sqlgen.Un("isnull", sqlgen.InSub(c(0, 0), sub())), sqlgen.TableQ(0)), tys},
			{sqlgen.Project([]*sqlgen.Expr{c(0, 0), sqlgen.Scalar(sqlgen.Group(nil, []string{"max"}, []*sqlgen.Expr{c(0, 0)}, sqlgen.Filter(sqlgen.Cmp("eq", c(0, 1), c(1, 1)), sqlgen.TableQ(1))))}, sqlgen.TableQ(0)), []sqlgen.Ty{sqlgen.TInt, sqlgen.TInt}},
			{sqlgen.Filter(sqlgen.Exists(sqlgen.Filter(sqlgen.Bin("and", sqlgen.Cmp("eq", c(0, 1), c(1, 1)), sqlgen.Un("isnull", c(0, 0))), sqlgen.TableQ(1))), sqlgen.TableQ(0)), tys},
		}
		for _, x := range qs {
			rn.Case(x.q, x.tys, false, &sqlgen.Printer{Db: db})
			out.Stat("corr:corpus")
		}
	}
}

// corrStream runs nDb grouped databases with perDb correlated-subquery cases each.
func corrStream(rn *sqlgen.Runner, r *hx.Rand, out *hx.Out, nDb, perDb int) {
	corrCorpus(rn, out)
	for i := 0; i < nDb; i++ {
		g := &corrGen{r: r, str: r.Chance(1, 5), stat: out.Stat}
		db := g.db()
		rn.Open(db)
		for k := 0; k < perDb; k++ {
			q, tys, ordered := g.query()
			rn.Case(q, tys, ordered, &sqlgen.Printer{Db: db})
			out.Stat("corr:cases")
		}
	}
}
