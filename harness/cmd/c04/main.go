// C04 — ORDER BY output is ordered and LIMIT/OFFSET select the right slice.
//
//	c04 extract   go/ast: the decision points of sorters.RowSorter.CompareRows (DESC swap, both-NULL
//	              skip, NullsFirst returns), IsLesserRow, maxRowsHeap.Less (tie-break by arrival
//	              number), GetTopNRows (pop when Len > n), topRowIter (strict IsLesserRow(row, top)),
//	              sortIter (sort.Stable), insertTopNNodes (TopN limit = limit + offset), buildTopN
//	              (limit == 1 ⇒ topRowIter); run time: the zero NullOrdering is NullsFirst
//	              → Gms/Generated/C04.lean
//	c04 run       (a) unit correspondence, exact sequences: the REAL RowSorter.CompareRows, iters.sortIter,
//	              sorters.GetTopNRows and iters.topRowIter on generated rows / sort conditions (ties,
//	              NULLs, mixed ASC/DESC, heap-boundary sizes) vs. the Lean Impl models (cmpRowsImpl,
//	              sortL2R, topN, top1) and the Spec (stable reference sort, take);
//	              (b) engine level: generated tables (PK / secondary / composite indexes, NULLs,
//	              duplicates) and ORDER BY [LIMIT [OFFSET]] queries (1-3 keys, mixed directions, key
//	              expressions, over filters and joins), the plan recorded (Sort / TopN / index order), the
//	              row sequence against the Lean reference semantics in one of three observation modes:
//	              exact (total order), ties (tie groups canonicalised), keys (key sequence only, for
//	              LIMIT cutting through a tie group); model-free oracles: adjacent rows ordered under an
//	              independent comparator, LIMIT/OFFSET result = slice of the unlimited query.
//	c04 sql       statements on stdin → result + plan
package main

import (
	"bufio"
	"fmt"
	"go/ast"
	"go/token"
	"io"
	"os"
	"sort"
	"strconv"
	"strings"

	"github.com/dolthub/go-mysql-server/sql"
	"github.com/dolthub/go-mysql-server/sql/expression"
	"github.com/dolthub/go-mysql-server/sql/iters"
	"github.com/dolthub/go-mysql-server/sql/sorters"
	"github.com/dolthub/go-mysql-server/sql/types"
	"github.com/dolthub/go-mysql-server/verifharness/hx"
	"github.com/dolthub/go-mysql-server/verifharness/hx/eng"
	"github.com/dolthub/go-mysql-server/verifharness/sqlgen"
)

func main() {
	if len(os.Args) > 1 && os.Args[1] == "sql" {
		sqlMode()
		return
	}
	hx.Main(extract, run)
}

func planOf(e *eng.Eng, ctx *sql.Context, q string) string {
	text := ""
	p := hx.Safe(func() {
		n, err := e.E.AnalyzeQuery(ctx, q)
		if err == nil {
			text = n.String()
		} else {
			text = "analyze-error"
		}
	})
	if p != "" {
		return "analyze-panic"
	}
	return text
}

func sqlMode() {
	e := eng.New("d")
	ctx := e.Ctx()
	sc := bufio.NewScanner(os.Stdin)
	sc.Buffer(make([]byte, 1<<20), 1<<24)
	for sc.Scan() {
		q := strings.TrimSpace(sc.Text())
		if q == "" || strings.HasPrefix(q, "--") {
			continue
		}
		if strings.HasPrefix(strings.ToUpper(q), "SELECT") {
			fmt.Println(planOf(e, ctx, q))
		}
		r := e.Query(ctx, q)
		fmt.Printf("%s\n  => %s", q, r.Class())
		if r.Err != nil {
			fmt.Printf(" err=%v", r.Err)
		}
		var txt []string
		for _, row := range r.Rows {
			txt = append(txt, "["+strings.Join(row, ",")+"]")
		}
		fmt.Printf("\n  rows: %s\n", strings.Join(txt, " "))
	}
}

// ---------------------------------------------------------------------------------------------
// Facts

func findFunc(src *hx.Src, recv, name string) (*ast.FuncDecl, error) { return src.Func(recv, name) }

func extract(a hx.ExtractArgs) error {
	lf := hx.NewLeanFile("Gms.Generated.C04", "sql/sorters/row_sorter.go", "sql/sorters/rows_heap.go", "sql/iters/top_rows_iters.go",
		"sql/iters/rel_iters.go", "sql/analyzer/topn.go", "sql/rowexec/rel.go")

	rs, err := hx.ParseSrc(a.Repo, "sql/sorters/row_sorter.go")
	if err != nil {
		return err
	}
	cr, err := findFunc(rs, "RowSorter", "CompareRows")
	if err != nil {
		return err
	}
	// CompareRows: the statements of the loop body, classified
	var steps []string
	var nullReturns []string
	var loop *ast.RangeStmt
	ast.Inspect(cr.Body, func(n ast.Node) bool {
		if r, ok := n.(*ast.RangeStmt); ok && loop == nil {
			loop = r
		}
		return true
	})
	if loop == nil {
		return fmt.Errorf("CompareRows: range loop not found")
	}
	for _, st := range loop.Body.List {
		is, ok := st.(*ast.IfStmt)
		if !ok {
			continue
		}
		cond := rs.Text(is.Cond)
		switch {
		case cond == "err != nil":
			// error plumbing
		case cond == "sc.Order == sql.Descending":
			body := ""
			if len(is.Body.List) == 1 {
				body = rs.Text(is.Body.List[0])
			}
			steps = append(steps, "desc-swap:"+body)
		case cond == "av == nil && bv == nil":
			body := ""
			if len(is.Body.List) == 1 {
				body = rs.Text(is.Body.List[0])
			}
			steps = append(steps, "both-null:"+body)
		case cond == "sc.NullOrdering == sql.NullsFirst":
			steps = append(steps, "nulls-first")
			for _, in := range is.Body.List {
				ii, ok := in.(*ast.IfStmt)
				if !ok || len(ii.Body.List) != 1 {
					return fmt.Errorf("CompareRows: unexpected statement in the NullsFirst block")
				}
				ret, ok := ii.Body.List[0].(*ast.ReturnStmt)
				if !ok || len(ret.Results) != 1 {
					return fmt.Errorf("CompareRows: NullsFirst block does not return")
				}
				nullReturns = append(nullReturns, rs.Text(ii.Cond)+" => "+rs.Text(ret.Results[0]))
			}
		case cond == "cmp != 0":
			body := ""
			if len(is.Body.List) == 1 {
				body = rs.Text(is.Body.List[0])
			}
			steps = append(steps, "decided:"+body)
		default:
			steps = append(steps, "?"+cond)
		}
	}
	lf.Comment("RowSorter.CompareRows: decision points of the per-condition loop body, in order")
	lf.DefStringList("compareRowsSteps", steps)
	lf.DefStringList("nullsFirstReturns", nullReturns)
	il, err := findFunc(rs, "RowSorter", "IsLesserRow")
	if err != nil {
		return err
	}
	lesser := ""
	ast.Inspect(il.Body, func(n ast.Node) bool {
		if r, ok := n.(*ast.ReturnStmt); ok && len(r.Results) == 1 {
			lesser = rs.Text(r.Results[0])
		}
		return true
	})
	lf.DefString("isLesserRow", lesser)

	// maxRowsHeap.Less and GetTopNRows
	hs, err := hx.ParseSrc(a.Repo, "sql/sorters/rows_heap.go")
	if err != nil {
		return err
	}
	less, err := findFunc(hs, "maxRowsHeap", "Less")
	if err != nil {
		return err
	}
	var lessParts []string
	ast.Inspect(less.Body, func(n ast.Node) bool {
		switch x := n.(type) {
		case *ast.IfStmt:
			lessParts = append(lessParts, "if "+hs.Text(x.Cond))
		case *ast.ReturnStmt:
			if len(x.Results) == 1 {
				lessParts = append(lessParts, "return "+hs.Text(x.Results[0]))
			}
		}
		return true
	})
	lf.Comment("maxRowsHeap.Less: a max-heap on (CompareRows, arrival number)")
	lf.DefStringList("heapLess", lessParts)
	gt, err := findFunc(hs, "", "GetTopNRows")
	if err != nil {
		return err
	}
	var popCond []string
	ast.Inspect(gt.Body, func(n ast.Node) bool {
		is, ok := n.(*ast.IfStmt)
		if !ok || len(is.Body.List) != 1 {
			return true
		}
		if es, ok := is.Body.List[0].(*ast.ExprStmt); ok && hs.Text(es.X) == "heap.Pop(rowsHeap)" {
			popCond = append(popCond, hs.Text(is.Cond))
		}
		return true
	})
	lf.DefStringList("topNPopCondition", popCond)
	fill := ""
	ast.Inspect(gt.Body, func(n ast.Node) bool {
		fs, ok := n.(*ast.ForStmt)
		if !ok || fs.Init == nil || fs.Post == nil {
			return true
		}
		fill = hs.Text(fs.Init) + "; " + hs.Text(fs.Cond) + "; " + hs.Text(fs.Post)
		return true
	})
	lf.Comment("GetTopNRows fills the result back to front from successive heap.Pop calls")
	lf.DefString("topNFillLoop", fill)

	// topRowIter
	ts, err := hx.ParseSrc(a.Repo, "sql/iters/top_rows_iters.go")
	if err != nil {
		return err
	}
	tn, err := findFunc(ts, "topRowIter", "Next")
	if err != nil {
		return err
	}
	var top1Cond []string
	ast.Inspect(tn.Body, func(n ast.Node) bool {
		is, ok := n.(*ast.IfStmt)
		if ok && strings.Contains(ts.Text(is.Cond), "IsLesserRow") {
			body := ""
			if len(is.Body.List) == 1 {
				body = ts.Text(is.Body.List[0])
			}
			top1Cond = append(top1Cond, ts.Text(is.Cond)+" => "+body)
		}
		return true
	})
	lf.DefStringList("top1Update", top1Cond)

	// sortIter: which sort
	is2, err := hx.ParseSrc(a.Repo, "sql/iters/rel_iters.go")
	if err != nil {
		return err
	}
	cs, err := findFunc(is2, "sortIter", "computeSortedRows")
	if err != nil {
		return err
	}
	var sortCalls []string
	ast.Inspect(cs.Body, func(n ast.Node) bool {
		c, ok := n.(*ast.CallExpr)
		if !ok {
			return true
		}
		if sel, ok := c.Fun.(*ast.SelectorExpr); ok {
			if id, ok := sel.X.(*ast.Ident); ok && id.Name == "sort" {
				sortCalls = append(sortCalls, "sort."+sel.Sel.Name)
			}
		}
		return true
	})
	lf.DefStringList("sortIterCalls", sortCalls)

	// insertTopNNodes: the TopN limit expressions
	as, err := hx.ParseSrc(a.Repo, "sql/analyzer/topn.go")
	if err != nil {
		return err
	}
	it, err := findFunc(as, "", "insertTopNNodes")
	if err != nil {
		return err
	}
	var topnLimits []string
	ast.Inspect(it.Body, func(n ast.Node) bool {
		c, ok := n.(*ast.CallExpr)
		if !ok || as.Text(c.Fun) != "plan.NewTopN" || len(c.Args) != 3 {
			return true
		}
		topnLimits = append(topnLimits, as.Text(c.Args[1]))
		return true
	})
	lf.Comment("insertTopNNodes: limit argument of NewTopN with and without an Offset node")
	lf.DefStringList("topNLimitArgs", topnLimits)

	// buildTopN: limit == 1 special case
	rs2, err := hx.ParseSrc(a.Repo, "sql/rowexec/rel.go")
	if err != nil {
		return err
	}
	bt, err := findFunc(rs2, "BaseBuilder", "buildTopN")
	if err != nil {
		return err
	}
	var dispatch []string
	ast.Inspect(bt.Body, func(n ast.Node) bool {
		is, ok := n.(*ast.IfStmt)
		if !ok || !strings.Contains(rs2.Text(is.Cond), "limit") {
			return true
		}
		callee := func(b *ast.BlockStmt) string {
			if b == nil || len(b.List) != 1 {
				return "?"
			}
			asg, ok := b.List[0].(*ast.AssignStmt)
			if !ok || len(asg.Rhs) != 1 {
				return "?"
			}
			if c, ok := asg.Rhs[0].(*ast.CallExpr); ok {
				return rs2.Text(c.Fun)
			}
			return "?"
		}
		el, _ := is.Else.(*ast.BlockStmt)
		dispatch = append(dispatch, rs2.Text(is.Cond), callee(is.Body), callee(el))
		return false
	})
	lf.DefStringList("buildTopNDispatch", dispatch)

	// run time: the zero value of NullOrdering (what the planner leaves in every SortField)
	var zero sql.SortCondition
	lf.DefBool("zeroNullOrderingIsNullsFirst", zero.NullOrdering == sql.NullsFirst)
	lf.DefBool("ascendingIsZeroOrder", zero.Order == sql.Ascending)
	_ = token.ADD
	return lf.Write(a.Out)
}

// ---------------------------------------------------------------------------------------------
// (a) unit correspondence with the real sorters

type ucol struct{ str bool }

func genRows(r *hx.Rand, cols []ucol, n int, domain int) [][]sqlgen.Value {
	rows := make([][]sqlgen.Value, n)
	pool := []string{"a", "b", "B", "ab", "a ", "", "A"}
	for i := range rows {
		if i > 0 && r.Chance(1, 6) {
			rows[i] = append([]sqlgen.Value(nil), rows[r.Intn(i)]...)
			continue
		}
		row := make([]sqlgen.Value, len(cols))
		for j, c := range cols {
			switch {
			case r.Chance(1, 6):
				row[j] = sqlgen.Null()
			case c.str:
				row[j] = sqlgen.Str(pool[r.Intn(len(pool))])
			default:
				row[j] = sqlgen.Int(int64(r.Intn(domain)) - int64(domain/2))
			}
		}
		rows[i] = row
	}
	return rows
}

func toSQLRow(row []sqlgen.Value) sql.Row {
	out := make(sql.Row, len(row))
	for i, v := range row {
		switch {
		case v.Null:
			out[i] = nil
		case v.IsStr:
			out[i] = v.S
		default:
			out[i] = v.I
		}
	}
	return out
}

func rowSexp(row []sqlgen.Value) string {
	parts := make([]string, len(row))
	for i, v := range row {
		parts[i] = v.Sexp()
	}
	return "(" + strings.Join(parts, " ") + ")"
}

func rowsSexp(rows [][]sqlgen.Value) string {
	parts := make([]string, len(rows))
	for i, r := range rows {
		parts[i] = rowSexp(r)
	}
	return "(" + strings.Join(parts, " ") + ")"
}

func fromSQLRow(row sql.Row) string {
	parts := make([]string, len(row))
	for i, v := range row {
		switch x := v.(type) {
		case nil:
			parts[i] = "null"
		case int64:
			parts[i] = strconv.FormatInt(x, 10)
		case string:
			parts[i] = hx.HexS(x)
		default:
			parts[i] = fmt.Sprintf("?%v", x)
		}
	}
	return "(" + strings.Join(parts, " ") + ")"
}

func seqObs(rows []sql.Row) string {
	parts := make([]string, len(rows))
	for i, r := range rows {
		parts[i] = fromSQLRow(r)
	}
	return "rows " + strings.Join(parts, " ")
}

func drain(ctx *sql.Context, it sql.RowIter) ([]sql.Row, error) {
	var out []sql.Row
	for {
		r, err := it.Next(ctx)
		if err == io.EOF {
			return out, nil
		}
		if err != nil {
			return out, err
		}
		out = append(out, r)
	}
}

func unitCases(out *hx.Out, r *hx.Rand, thorough bool) {
	ctx := sql.NewEmptyContext()
	nSort, nTop := 250, 500
	if thorough {
		nSort, nTop = 20000, 60000
	}
	mk := func() ([]ucol, []int, []bool, sql.SortConditions) {
		nc := r.Range(1, 3)
		cols := make([]ucol, nc)
		for j := range cols {
			cols[j] = ucol{str: r.Chance(1, 4)}
		}
		nk := r.Range(1, nc)
		perm := r.Intn(nc)
		var keys []int
		var desc []bool
		var conds sql.SortConditions
		for k := 0; k < nk; k++ {
			j := (perm + k) % nc
			keys = append(keys, j)
			d := r.Chance(2, 5)
			desc = append(desc, d)
			var ty sql.Type = types.Int64
			if cols[j].str {
				ty = types.Text
			}
			o := sql.Ascending
			if d {
				o = sql.Descending
			}
			conds = append(conds, sql.SortCondition{Expr: expression.NewGetField(j, ty, fmt.Sprintf("c%d", j), true), Order: o})
		}
		return cols, keys, desc, conds
	}
	dirs := func(desc []bool) string {
		p := make([]string, len(desc))
		for i, d := range desc {
			p[i] = "a"
			if d {
				p[i] = "d"
			}
		}
		return "(" + strings.Join(p, " ") + ")"
	}
	ints := func(xs []int) string {
		p := make([]string, len(xs))
		for i, x := range xs {
			p[i] = strconv.Itoa(x)
		}
		return "(" + strings.Join(p, " ") + ")"
	}
	// CompareRows
	for i := 0; i < nSort; i++ {
		cols, keys, desc, conds := mk()
		rows := genRows(r, cols, 2, 3)
		var c int
		s := sorters.NewRowSorter(ctx, conds)
		p := hx.Safe(func() { c = s.CompareRows(toSQLRow(rows[0]), toSQLRow(rows[1])) })
		obs := "eq"
		switch {
		case p != "":
			obs = "crash:" + p
		case s.GetError() != nil:
			obs = "error"
		case c < 0:
			obs = "lt"
		case c > 0:
			obs = "gt"
		}
		out.Case(fmt.Sprintf("(cmp %s %s %s %s)", dirs(desc), ints(keys), rowSexp(rows[0]), rowSexp(rows[1])), obs, obs != "eq")
		out.Stat("unit:cmp")
	}
	sizes := []int{0, 1, 2, 3, 5, 8}
	for i := 0; i < nSort; i++ {
		cols, keys, desc, conds := mk()
		n := sizes[r.Intn(len(sizes))] + r.Intn(3)
		rows := genRows(r, cols, n, 4)
		in := make([]sql.Row, len(rows))
		for k, row := range rows {
			in[k] = toSQLRow(row)
		}
		var res []sql.Row
		var err error
		p := hx.Safe(func() { res, err = drain(ctx, iters.NewSortIter(conds, sql.RowsToRowIter(in...))) })
		obs := seqObs(res)
		if p != "" {
			obs = "crash:" + p
		} else if err != nil {
			obs = "error"
		}
		out.Case(fmt.Sprintf("(sort %s %s %s)", dirs(desc), ints(keys), rowsSexp(rows)), obs, len(rows) >= 3)
		out.Stat("unit:sort")
	}
	for i := 0; i < nTop; i++ {
		cols, keys, desc, conds := mk()
		n := r.Intn(14)
		if thorough && r.Chance(1, 40) {
			n = 1020 + r.Intn(12) // around initHeapSize
		}
		rows := genRows(r, cols, n, 4)
		lim := r.Intn(n + 3)
		if r.Chance(1, 4) {
			lim = hx.Pick(r, []int{0, 1, 2, n - 1, n, n + 1})
			if lim < 0 {
				lim = 0
			}
		}
		if thorough && n > 1000 && r.Bool() {
			lim = 1022 + r.Intn(6)
		}
		in := make([]sql.Row, len(rows))
		for k, row := range rows {
			in[k] = toSQLRow(row)
		}
		var res []sql.Row
		var err error
		kind := "topn"
		p := hx.Safe(func() {
			if lim == 1 && r.Bool() {
				kind = "top1"
				res, err = drain(ctx, iters.NewTopRowIter(conds, false, sql.RowsToRowIter(in...)))
			} else {
				res, _, err = sorters.GetTopNRows(ctx, sql.RowsToRowIter(in...), conds, int64(lim))
			}
		})
		obs := seqObs(res)
		if p != "" {
			obs = "crash:" + p
		} else if err != nil {
			obs = "error"
		}
		out.Case(fmt.Sprintf("(%s %d %s %s %s)", kind, lim, dirs(desc), ints(keys), rowsSexp(rows)), obs, lim > 0 && lim < len(rows))
		out.Stat("unit:" + kind)
		if lim > 0 && lim < len(rows) {
			out.Stat("unit:topn-cuts")
		}
	}
}

// ---------------------------------------------------------------------------------------------
// (b) engine level

type gen struct {
	r  *hx.Rand
	g  *sqlgen.Gen
	db *sqlgen.Db
}

func (x *gen) genDb() *sqlgen.Db {
	db := &sqlgen.Db{}
	nt := x.r.Range(1, 2)
	for n := 0; n < nt; n++ {
		t := &sqlgen.Table{}
		nc := x.r.Range(2, 3)
		for j := 0; j < nc; j++ {
			ty := sqlgen.TInt
			if j > 0 && x.r.Chance(1, 4) {
				ty = sqlgen.TStr
			}
			t.Tys = append(t.Tys, ty)
			t.NotNull = append(t.NotNull, false)
		}
		layout := x.r.Intn(6)
		pk := layout == 0
		if pk {
			t.NotNull[0] = true
		}
		nr := x.r.Range(0, 12)
		used := map[int64]bool{}
		for i := 0; i < nr; i++ {
			if !pk && i > 0 && x.r.Chance(1, 6) {
				t.Rows = append(t.Rows, append([]sqlgen.Value(nil), t.Rows[x.r.Intn(i)]...))
				continue
			}
			row := make([]sqlgen.Value, nc)
			for j := range row {
				if x.r.Chance(1, 6) {
					row[j] = sqlgen.Null()
				} else if t.Tys[j] == sqlgen.TStr {
					row[j] = sqlgen.Str(hx.Pick(x.r, []string{"a", "b", "B", "ab", "a ", "A"}))
				} else {
					row[j] = sqlgen.Int(int64(x.r.Range(-2, 3)))
				}
			}
			if pk {
				v := int64(x.r.Range(-3, 8))
				for used[v] {
					v++
				}
				used[v] = true
				row[0] = sqlgen.Int(v)
			}
			t.Rows = append(t.Rows, row)
		}
		switch layout {
		case 0:
			t.Extra = ", PRIMARY KEY (c0)"
			x.g.Stats["db:pk"]++
		case 1:
			t.Extra = ", KEY k0 (c0)"
			x.g.Stats["db:key"]++
		case 2:
			t.Extra = ", KEY k1 (c1)"
			x.g.Stats["db:key"]++
		case 3:
			t.Extra = ", KEY k01 (c0, c1)"
			x.g.Stats["db:composite"]++
		}
		db.Tables = append(db.Tables, t)
	}
	x.db = db
	x.g.Db = db
	return db
}

type ocase struct {
	q       *sqlgen.Query // complete term incl. orderby / limit
	base    *sqlgen.Query // the same without the limit node
	tys     []sqlgen.Ty
	mode    string // exact | ties | keys
	keycols []int
	desc    []bool
	lim     int // -1 = none
	off     int
}

func (x *gen) query() ocase {
	t := x.r.Intn(len(x.db.Tables))
	var q *sqlgen.Query = sqlgen.TableQ(t)
	tys := append([]sqlgen.Ty(nil), x.db.Tables[t].Tys...)
	src := "table"
	switch x.r.Intn(8) {
	case 0, 1:
		p := x.g.Pred(x.r.Intn(2), [][]sqlgen.Ty{tys})
		if sqlgen.HasCol(p) {
			q = sqlgen.Filter(p, q)
			src = "filter"
		}
	case 2:
		m := x.r.Intn(len(x.db.Tables))
		rt := x.db.Tables[m].Tys
		all := append(append([]sqlgen.Ty(nil), tys...), rt...)
		on := sqlgen.Cmp("eq", sqlgen.Col(0, 0), sqlgen.Col(0, len(tys)))
		q = sqlgen.Join(hx.Pick(x.r, []string{"inner", "left"}), on, q, sqlgen.TableQ(m))
		tys = all
		src = "join"
	}
	x.g.Stats["src:"+src]++
	n := len(tys)
	oc := ocase{tys: tys, lim: -1}
	mode := hx.Pick(x.r, []string{"exact", "exact", "ties", "keys"})
	nk := x.r.Range(1, 2)
	if nk > n {
		nk = n
	}
	perm := make([]int, n)
	for i := range perm {
		perm[i] = i
	}
	for i := n - 1; i > 0; i-- {
		j := x.r.Intn(i + 1)
		perm[i], perm[j] = perm[j], perm[i]
	}
	var keys []*sqlgen.Expr
	var desc []bool
	if mode == "exact" {
		// leading keys: plain columns or expressions; then every column, so that the order is total
		for i := 0; i < nk; i++ {
			c := perm[i]
			var k *sqlgen.Expr = sqlgen.Col(0, c)
			if tys[c] == sqlgen.TInt && x.r.Chance(1, 4) {
				switch x.r.Intn(3) {
				case 0:
					k = sqlgen.Un("neg", sqlgen.Col(0, c))
				case 1:
					k = sqlgen.Arith("mul", sqlgen.Col(0, c), sqlgen.Col(0, c))
				case 2:
					k = sqlgen.Bin("coalesce", sqlgen.Col(0, c), sqlgen.Lit(sqlgen.Int(1)))
				}
				x.g.Stats["key:expression"]++
			}
			keys = append(keys, k)
			desc = append(desc, x.r.Chance(2, 5))
		}
		for _, c := range perm {
			keys = append(keys, sqlgen.Col(0, c))
			desc = append(desc, x.r.Chance(1, 3))
		}
	} else {
		for i := 0; i < nk; i++ {
			keys = append(keys, sqlgen.Col(0, perm[i]))
			desc = append(desc, x.r.Chance(2, 5))
			oc.keycols = append(oc.keycols, perm[i])
		}
	}
	oc.desc = desc
	oc.base = sqlgen.OrderBy(keys, desc, q)
	oc.q = oc.base
	oc.mode = mode
	wantLimit := mode == "keys" || (mode == "exact" && x.r.Chance(2, 3))
	if wantLimit {
		total := 0
		for _, tb := range x.db.Tables[:1] {
			total = len(tb.Rows)
		}
		total = len(x.db.Tables[t].Rows)
		cand := []int{0, 1, 2, 3, total - 1, total, total + 1}
		oc.lim = hx.Pick(x.r, cand)
		if oc.lim < 0 {
			oc.lim = 0
		}
		if x.r.Bool() {
			oc.off = hx.Pick(x.r, []int{0, 1, 2, total - 1, total, total + 1})
			if oc.off < 0 {
				oc.off = 0
			}
		}
		oc.q = sqlgen.Limit(oc.lim, oc.off, oc.base)
	}
	if mode == "ties" {
		oc.lim = -1
	}
	return oc
}

// cell text of an engine result in the observation syntax
func cells(res *eng.Res, tys []sqlgen.Ty) [][]string {
	out := make([][]string, len(res.Rows))
	for i, row := range res.Rows {
		cs := make([]string, len(row))
		for j, c := range row {
			switch {
			case res.Null[i][j]:
				cs[j] = "null"
			case j < len(tys) && tys[j] == sqlgen.TStr:
				cs[j] = hx.HexS(c)
			default:
				cs[j] = sqlgen.CanonInt(c)
			}
		}
		out[i] = cs
	}
	return out
}

func renderRow(cs []string) string { return "(" + strings.Join(cs, " ") + ")" }

// observe renders the engine's row sequence in the observation mode of the case (mirrored by
// lean/Drivers/C04.lean).
func observe(res *eng.Res, oc ocase) string {
	if c := res.Class(); c != "ok" {
		return c
	}
	rows := cells(res, oc.tys)
	for _, r := range rows {
		if len(r) != len(oc.tys) {
			return fmt.Sprintf("width:%d", len(r))
		}
	}
	key := func(r []string) string {
		p := make([]string, len(oc.keycols))
		for i, c := range oc.keycols {
			p[i] = r[c]
		}
		return "(" + strings.Join(p, " ") + ")"
	}
	switch oc.mode {
	case "exact":
		out := make([]string, len(rows))
		for i, r := range rows {
			out[i] = renderRow(r)
		}
		return "rows " + strings.Join(out, " ")
	case "keys":
		out := make([]string, len(rows))
		for i, r := range rows {
			out[i] = key(r)
		}
		return "keys " + strings.Join(out, " ")
	default: // ties: sort the rows inside every maximal run of equal keys
		var out []string
		i := 0
		for i < len(rows) {
			j := i
			for j < len(rows) && key(rows[j]) == key(rows[i]) {
				j++
			}
			grp := make([]string, 0, j-i)
			for _, r := range rows[i:j] {
				grp = append(grp, renderRow(r))
			}
			sort.Strings(grp)
			out = append(out, grp...)
			i = j
		}
		return "rows " + strings.Join(out, " ")
	}
}

// cmpCell: independent comparator on rendered cells: NULL lowest, integers numerically, strings bytewise.
func cmpCell(a, b string, isStr bool) int {
	switch {
	case a == "null" && b == "null":
		return 0
	case a == "null":
		return -1
	case b == "null":
		return 1
	}
	if isStr {
		return strings.Compare(a, b) // hex of equal-length prefix order = byte order (lower-case hex, fixed 2 chars per byte)
	}
	x, _ := strconv.ParseInt(a, 10, 64)
	y, _ := strconv.ParseInt(b, 10, 64)
	switch {
	case x < y:
		return -1
	case x > y:
		return 1
	}
	return 0
}

var planWords = []string{"TopN", "Sort", "Limit", "Offset", "MergeJoin", "IndexedTableAccess", "Table"}

func planShape(pt string) string {
	var out []string
	for _, w := range planWords {
		if strings.Contains(pt, w+"(") || strings.Contains(pt, w+"\n") || strings.Contains(pt, w+" ") {
			out = append(out, w)
		}
	}
	if strings.Contains(pt, "reverse: true") || strings.Contains(pt, "Reverse") {
		out = append(out, "reverse")
	}
	return strings.Join(out, "+")
}

// region mirrors lean/Drivers/C04.lean: decided on the case (plan skeleton + data), not on the outcome.
func region(shape string, hasNull bool) string {
	if strings.Contains(shape, "MergeJoin") && strings.Contains(shape, "reverse") && hasNull {
		return "reverse_merge_join_null_peek"
	}
	return "-"
}

// witnesses of the known findings, run first.
type witness struct {
	db *sqlgen.Db
	oc ocase
}

func iv(vs ...interface{}) []sqlgen.Value {
	out := make([]sqlgen.Value, len(vs))
	for i, v := range vs {
		switch x := v.(type) {
		case nil:
			out[i] = sqlgen.Null()
		case int:
			out[i] = sqlgen.Int(int64(x))
		}
	}
	return out
}

func corpus() []witness {
	ii := []sqlgen.Ty{sqlgen.TInt, sqlgen.TInt}
	// reverse_merge_join_null_peek: ORDER BY s1.c0 DESC over a join on two indexed columns is planned as
	// a MergeJoin over two REVERSE index scans; in reverse order the NULL keys come last, and
	// mergeJoinIter.peekMatch treats the nil-operand comparison of a peeked NULL-key row as a match
	// (res stays 0): the block (-1,-2,-1,7) is emitted once more per trailing NULL-key left row.
	db := &sqlgen.Db{Tables: []*sqlgen.Table{
		{Tys: ii, NotNull: []bool{false, false}, Extra: ", KEY k0 (c0)", Rows: [][]sqlgen.Value{iv(-1, -2), iv(nil, 5), iv(nil, 6)}},
		{Tys: ii, NotNull: []bool{false, false}, Extra: ", KEY k0 (c0)", Rows: [][]sqlgen.Value{iv(-1, 7), iv(3, 8)}},
	}}
	base := sqlgen.OrderBy([]*sqlgen.Expr{sqlgen.Col(0, 0)}, []bool{true},
		sqlgen.Join("inner", sqlgen.Cmp("eq", sqlgen.Col(0, 0), sqlgen.Col(0, 2)), sqlgen.TableQ(0), sqlgen.TableQ(1)))
	return []witness{{db: db, oc: ocase{q: base, base: base, tys: append(append([]sqlgen.Ty{}, ii...), ii...), mode: "ties", keycols: []int{0}, desc: []bool{true}, lim: -1}}}
}

func run(a hx.RunArgs) error {
	out := hx.NewOut(a.OutDir)
	defer out.Close()
	out.Rule = "unit: random rows (1-3 int/varchar columns, NULLs, duplicates) and sort conditions (1-3 keys, mixed ASC/DESC) fed to the real CompareRows / sortIter / " +
		"GetTopNRows / topRowIter, limits around 0,1,2,n-1,n,n+1 (and the 1024 heap capacity in the thorough tier); engine: generated tables (<=12 rows, PK / KEY / composite KEY) and " +
		"ORDER BY [LIMIT [OFFSET]] statements over tables, filters and joins; a case is non-trivial when the limit cuts the input (unit) or the result has >= 2 rows and the data a NULL or a tie (engine)"
	r := hx.NewRand(a.Seed).Fork()
	unitCases(out, r.Fork(), a.Thorough)

	nDb, perDb := 40, 10
	if a.Thorough {
		nDb, perDb = 1500, 12
	}
	cfg := sqlgen.Default()
	cfg.Subqueries = false
	cfg.Xor = false
	g := sqlgen.NewGen(r.Fork(), cfg)
	x := &gen{r: r.Fork(), g: g}
	runOne := func(e *eng.Eng, ctx *sql.Context, db *sqlgen.Db, dbS, setupS string, oc ocase, hint string) {
		p := &sqlgen.Printer{Db: db}
		text := p.SQL(oc.q)
		if hint != "" {
			text = strings.Replace(text, "SELECT ", "SELECT /*+ "+hint+" */ ", 1)
		}
		pt := planOf(e, ctx, text)
		res := e.Query(ctx, text)
		obs := observe(res, oc)
		kc := make([]string, len(oc.keycols))
		for i, c := range oc.keycols {
			kc[i] = strconv.Itoa(c)
		}
		shape := planShape(pt)
		reg := region(shape, db.HasNull())
		payload := fmt.Sprintf("(c04 (mode %s) (keycols %s) %s (q %s) (plan %s) (obs %s) (sql %s) %s)", oc.mode, strings.Join(kc, " "), dbS, oc.q.Sexp(),
			hx.HexS(shape), hx.HexS(obs), hx.HexS(text), setupS)
		nontrivial := len(res.Rows) >= 2 && db.HasNull()
		id := out.Case(payload, obs, nontrivial)
		out.Stat("engine:cases")
		out.Stat("mode:" + oc.mode)
		out.Stat("plan:" + shape)
		if res.Class() != "ok" {
			out.Stat("engine:" + res.Class())
			return
		}
		if oc.lim >= 0 {
			out.Stat("limit")
			if oc.off > 0 {
				out.Stat("offset")
			}
		}
		// oracle 1 (model free): adjacent rows are ordered under the independent comparator (plain-column keys)
		if oc.mode != "exact" {
			rows := cells(res, oc.tys)
			for i := 0; i+1 < len(rows); i++ {
				c := 0
				for ki, col := range oc.keycols {
					c = cmpCell(rows[i][col], rows[i+1][col], oc.tys[col] == sqlgen.TStr)
					if oc.desc[ki] {
						c = -c
					}
					if c != 0 {
						break
					}
				}
				if c > 0 {
					out.OracleFail(id, reg, fmt.Sprintf("rows %d and %d are out of order: %s", i, i+1, text))
					break
				}
			}
		}
		// oracle 2 (model free): LIMIT n OFFSET m = the slice of the unlimited statement (total orders)
		if oc.lim >= 0 && oc.mode == "exact" {
			full := e.Query(ctx, p.SQL(oc.base))
			if full.Class() == "ok" {
				fc := cells(full, oc.tys)
				lo := oc.off
				if lo > len(fc) {
					lo = len(fc)
				}
				hi := lo + oc.lim
				if hi > len(fc) {
					hi = len(fc)
				}
				want := make([]string, 0, hi-lo)
				for _, r := range fc[lo:hi] {
					want = append(want, renderRow(r))
				}
				if w := "rows " + strings.Join(want, " "); w != obs {
					out.OracleFail(id, reg, fmt.Sprintf("LIMIT %d OFFSET %d returns %s, the slice of the unlimited statement is %s: %s", oc.lim, oc.off, obs, w, text))
				}
			}
		}
		// oracle 3 (keys mode): every returned row is a row of the unlimited result (bag inclusion), count is right
		if oc.mode == "keys" && oc.lim >= 0 {
			full := e.Query(ctx, p.SQL(oc.base))
			if full.Class() == "ok" {
				bag := map[string]int{}
				for _, r := range cells(full, oc.tys) {
					bag[renderRow(r)]++
				}
				bad := false
				for _, r := range cells(res, oc.tys) {
					k := renderRow(r)
					if bag[k] == 0 {
						bad = true
					}
					bag[k]--
				}
				wantN := len(full.Rows) - oc.off
				if wantN < 0 {
					wantN = 0
				}
				if wantN > oc.lim {
					wantN = oc.lim
				}
				if bad || len(res.Rows) != wantN {
					out.OracleFail(id, reg, fmt.Sprintf("LIMIT %d OFFSET %d returns %d rows (want %d) / rows not from the unlimited result: %s", oc.lim, oc.off, len(res.Rows), wantN, text))
				}
			}
		}
	}
	open := func(db *sqlgen.Db) (*eng.Eng, *sql.Context, string, string) {
		e := eng.New("d")
		ctx := e.Ctx()
		e.MustExec(ctx, db.Setup()...)
		setupS := hx.ListOf(append([]string{"setup"}, db.Setup()...), func(s string) string {
			if s == "setup" {
				return s
			}
			return hx.HexS(s)
		})
		return e, ctx, db.Sexp(), setupS
	}
	for _, w := range corpus() {
		e, ctx, dbS, setupS := open(w.db)
		runOne(e, ctx, w.db, dbS, setupS, w.oc, "MERGE_JOIN(s1,s2)")
		out.Stat("corpus")
	}
	for i := 0; i < nDb; i++ {
		db := x.genDb()
		e, ctx, dbS, setupS := open(db)
		for k := 0; k < perDb; k++ {
			runOne(e, ctx, db, dbS, setupS, x.query(), "")
		}
	}
	for k, v := range g.Stats {
		out.StatN(k, v)
	}
	return nil
}
