// C17 — Transactions commit or roll back exactly their own changes.
//
// extract: shape facts of the transaction code (go/ast): what CommitTransaction publishes, what
// StartTransaction/Rollback clear, the commit condition of TransactionCommittingIter.Close, the
// flag handling of buildStartTransaction/buildCommit/buildRollback, beginTransaction's guard.
// run: multi-session histories (3 sessions, 2 tables) of SELECT / INSERT / DELETE / BEGIN / START
// TRANSACTION [READ ONLY] / COMMIT / ROLLBACK / SET autocommit / DDL executed by one goroutine in
// generated order against the real engine; after every statement the committed state is read
// through a fresh observer session. Model-free oracle: visibility of marker rows.
package main

import (
	"context"
	"fmt"
	"go/ast"
	"sort"
	"strconv"
	"strings"
	"sync"
	"sync/atomic"

	"github.com/dolthub/go-mysql-server/memory"
	"github.com/dolthub/go-mysql-server/sql"
	"github.com/dolthub/go-mysql-server/verifharness/hx"
	"github.com/dolthub/go-mysql-server/verifharness/hx/eng"
)

func main() { hx.Main(extract, run) }

// ---------------------------------------------------------------------------------------------
// Facts

func txt(src *hx.Src, n ast.Node) string { return strings.Join(strings.Fields(src.Text(n)), " ") }

// stmtsOf lists the top-level statements of a function body as one-line texts; nested blocks are
// summarised by their header.
func stmtsOf(src *hx.Src, body *ast.BlockStmt) []string {
	var out []string
	for _, st := range body.List {
		switch x := st.(type) {
		case *ast.IfStmt:
			out = append(out, "if "+txt(src, x.Cond))
		case *ast.RangeStmt:
			out = append(out, "for range "+txt(src, x.X))
		default:
			out = append(out, txt(src, st))
		}
	}
	return out
}

func extract(a hx.ExtractArgs) error {
	lf := hx.NewLeanFile("Gms.Generated.C17", "memory/session.go", "engine.go", "sql/rowexec/transaction_iters.go", "sql/rowexec/transaction.go")
	ses, err := hx.ParseSrc(a.Repo, "memory/session.go")
	if err != nil {
		return err
	}
	for _, fn := range []string{"StartTransaction", "Rollback"} {
		fd, err := ses.Func("Session", fn)
		if err != nil {
			return err
		}
		lf.DefStringList("session"+fn, stmtsOf(ses, fd.Body))
	}
	// CommitTransaction: range expression of the loop and the put call
	ct, err := ses.Func("Session", "CommitTransaction")
	if err != nil {
		return err
	}
	var commitShape []string
	ast.Inspect(ct.Body, func(n ast.Node) bool {
		switch x := n.(type) {
		case *ast.RangeStmt:
			commitShape = append(commitShape, "for range "+txt(ses, x.X))
		case *ast.CallExpr:
			if sel, ok := x.Fun.(*ast.SelectorExpr); ok && sel.Sel.Name == "putTable" {
				commitShape = append(commitShape, txt(ses, x))
			}
		}
		return true
	})
	lf.DefStringList("commitTransactionShape", commitShape)
	td, err := ses.Func("Session", "tableData")
	if err != nil {
		return err
	}
	lf.DefStringList("sessionTableData", stmtsOf(ses, td.Body))

	en, err := hx.ParseSrc(a.Repo, "engine.go")
	if err != nil {
		return err
	}
	bt, err := en.Func("Engine", "beginTransaction")
	if err != nil {
		return err
	}
	var beginConds []string
	for _, st := range bt.Body.List {
		if is, ok := st.(*ast.IfStmt); ok {
			beginConds = append(beginConds, txt(en, is.Cond))
		}
	}
	lf.DefStringList("beginTransactionGuards", beginConds)

	ti, err := hx.ParseSrc(a.Repo, "sql/rowexec/transaction_iters.go")
	if err != nil {
		return err
	}
	cl, err := ti.Func("TransactionCommittingIter", "Close")
	if err != nil {
		return err
	}
	var closeConds []string
	for _, st := range cl.Body.List {
		if is, ok := st.(*ast.IfStmt); ok {
			c := txt(ti, is.Cond)
			if is.Init != nil {
				c = txt(ti, is.Init) + "; " + c
			}
			closeConds = append(closeConds, c)
		}
	}
	lf.DefStringList("committingIterCloseConds", closeConds)
	ad, err := ti.Func("", "AddTransactionCommittingIter")
	if err != nil {
		return err
	}
	implicit := ""
	ast.Inspect(ad.Body, func(n ast.Node) bool {
		if as, ok := n.(*ast.AssignStmt); ok && len(as.Lhs) == 1 {
			if id, ok := as.Lhs[0].(*ast.Ident); ok && id.Name == "implicitCommit" {
				implicit = txt(ti, as.Rhs[0])
			}
		}
		return true
	})
	lf.DefString("implicitCommitCond", implicit)

	tr, err := hx.ParseSrc(a.Repo, "sql/rowexec/transaction.go")
	if err != nil {
		return err
	}
	for _, fn := range []string{"buildStartTransaction", "buildCommit", "buildRollback"} {
		fd, err := tr.Func("BaseBuilder", fn)
		if err != nil {
			return err
		}
		// the session-level calls in order
		var calls []string
		ast.Inspect(fd.Body, func(n ast.Node) bool {
			if ce, ok := n.(*ast.CallExpr); ok {
				if sel, ok := ce.Fun.(*ast.SelectorExpr); ok {
					switch sel.Sel.Name {
					case "CommitTransaction", "StartTransaction", "Rollback", "SetTransaction", "SetIgnoreAutoCommit":
						args := make([]string, len(ce.Args))
						for i, a := range ce.Args {
							args[i] = txt(tr, a)
						}
						calls = append(calls, sel.Sel.Name+"("+strings.Join(args, ", ")+")")
					}
				}
			}
			return true
		})
		lf.DefStringList(fn+"Calls", calls)
	}
	return lf.Write(a.Out)
}

// ---------------------------------------------------------------------------------------------
// Histories

type op struct {
	kind string // r i d b bro c rb ac ddl
	s    int
	t    int
	n    int
	form int
}

func (o op) payload() string {
	switch o.kind {
	case "r":
		return fmt.Sprintf("(r %d %d)", o.s, o.t)
	case "i", "d":
		return fmt.Sprintf("(%s %d %d %d)", o.kind, o.s, o.t, o.n)
	case "ac":
		return fmt.Sprintf("(ac %d %d)", o.s, o.n)
	}
	return fmt.Sprintf("(%s %d)", o.kind, o.s)
}

func (o op) sql(idx int) string {
	switch o.kind {
	case "r":
		return fmt.Sprintf("SELECT a FROM t%d", o.t)
	case "i":
		return fmt.Sprintf("INSERT INTO t%d VALUES (%d)", o.t, o.n)
	case "d":
		return fmt.Sprintf("DELETE FROM t%d WHERE a = %d", o.t, o.n)
	case "b":
		if o.form%2 == 0 {
			return "BEGIN"
		}
		return "START TRANSACTION"
	case "bro":
		return "START TRANSACTION READ ONLY"
	case "c":
		return "COMMIT"
	case "rb":
		return "ROLLBACK"
	case "ac":
		return []string{"SET autocommit = ", "SET @@autocommit = ", "SET SESSION autocommit = "}[o.form%3] + strconv.Itoa(o.n)
	}
	return fmt.Sprintf("CREATE TABLE z%d (a INT PRIMARY KEY)", idx)
}

var connSeq atomic.Uint32

func newCtx(e *eng.Eng) *sql.Context {
	id := 5000 + connSeq.Add(1)
	bs := sql.NewBaseSessionWithClientServer("localhost:3306", sql.Client{Address: "localhost", User: "root"}, id)
	sess := memory.NewSession(bs, e.Pro)
	ctx := sql.NewContext(context.Background(), sql.WithSession(sess))
	ctx.SetCurrentDatabase(e.DBs[0].Name())
	return ctx
}

func sortedInts(rows [][]string) ([]int, bool) {
	out := make([]int, 0, len(rows))
	for _, r := range rows {
		v, err := strconv.Atoi(r[0])
		if err != nil {
			return nil, false
		}
		out = append(out, v)
	}
	sort.Ints(out)
	return out, true
}

func joinInts(v []int) string {
	p := make([]string, len(v))
	for i, x := range v {
		p[i] = strconv.Itoa(x)
	}
	return strings.Join(p, ",")
}

func has(v []int, n int) bool {
	for _, x := range v {
		if x == n {
			return true
		}
	}
	return false
}

type key struct{ t, n int }

// sessTrack is the oracle's syntactic bookkeeping for one session (MySQL's rules, not the engine's).
type sessTrack struct {
	explicit   bool // between BEGIN/START TRANSACTION and COMMIT/ROLLBACK/DDL/BEGIN
	readOnly   bool
	autocommit bool
	pending    map[key]bool // fresh rows inserted in the open transaction
	pendingDel map[key]bool
	touched    map[int]bool // for tagging only: tables read / written since the engine-level begin
	wrote      map[int]bool
	ddlInTxn   bool // a DDL statement ran inside an explicit transaction that was not ended since
}

func (s *sessTrack) open() bool { return s.explicit || !s.autocommit }

func (s *sessTrack) reset() {
	s.pending, s.pendingDel = map[key]bool{}, map[key]bool{}
}

func runHist(e *eng.Eng, seq int, ops []op) (obs string, fails [][2]string, feats map[string]bool) {
	feats = map[string]bool{}
	setup := newCtx(e)
	e.MustExec(eng.SameSession(setup), "DROP TABLE IF EXISTS t0", "DROP TABLE IF EXISTS t1",
		"CREATE TABLE t0 (a INT PRIMARY KEY)", "CREATE TABLE t1 (a INT PRIMARY KEY)")
	ctxs := []*sql.Context{newCtx(e), newCtx(e), newCtx(e)}
	tr := make([]*sessTrack, 3)
	for i := range tr {
		tr[i] = &sessTrack{autocommit: true, touched: map[int]bool{}, wrote: map[int]bool{}}
		tr[i].reset()
	}
	live := map[key]bool{}
	fresh := map[key]bool{} // (t,n) inserted exactly once in the history: usable as markers
	cnt := map[key]int{}
	for _, o := range ops {
		if o.kind == "i" {
			cnt[key{o.t, o.n}]++
		}
	}
	for k, c := range cnt {
		if c == 1 {
			fresh[k] = true
		}
	}
	fail := func(tag, desc string) { fails = append(fails, [2]string{tag, desc}) }
	var parts []string
	var zTables []string
	for idx, o := range ops {
		text := o.sql(seq*1000 + idx)
		if o.kind == "ddl" {
			zTables = append(zTables, fmt.Sprintf("z%d", seq*1000+idx))
		}
		r := e.Query(eng.SameSession(ctxs[o.s]), text)
		res := ""
		var readRows []int
		switch {
		case r.Class() == "crash":
			res = "crash"
		case r.Class() != "ok":
			res = "err"
		case o.kind == "r":
			v, ok := sortedInts(r.Rows)
			if !ok {
				res = "rows:?"
			} else {
				readRows = v
				res = "rows:" + joinInts(v)
			}
		case r.IsOk:
			res = fmt.Sprintf("ok:%d", r.Affected)
		default:
			res = "done"
		}
		// committed state through a fresh observer session
		var dump [2][]int
		dumpTxt := make([]string, 2)
		for t := 0; t < 2; t++ {
			dr := e.Query(newCtx(e), fmt.Sprintf("SELECT a FROM t%d", t))
			v, ok := sortedInts(dr.Rows)
			if dr.Class() != "ok" || !ok {
				dumpTxt[t] = "?" + dr.Class()
			} else {
				dump[t] = v
				dumpTxt[t] = joinInts(v)
			}
		}
		parts = append(parts, res+"|"+dumpTxt[0]+"|"+dumpTxt[1])

		// ----- model-free oracle
		me := tr[o.s]
		commitEvent := false // the statement ends (commits) a transaction of session o.s by MySQL's rules
		switch o.kind {
		case "r":
			me.touched[o.t] = true
			if res != "crash" && res != "err" {
				for s2, other := range tr {
					for k := range other.pending {
						if k.t != o.t {
							continue
						}
						if s2 != o.s && has(readRows, k.n) {
							fail("-", fmt.Sprintf("op %d `%s` (session %d) sees row %d of t%d that session %d has not committed", idx, text, o.s, k.n, k.t, s2))
						}
						if s2 == o.s && !has(readRows, k.n) && !other.ddlInTxn {
							fail("-", fmt.Sprintf("op %d `%s` (session %d) does not see its own uncommitted row %d", idx, text, o.s, k.n))
						}
					}
				}
			}
			commitEvent = !me.open()
		case "i", "d":
			if res == "crash" {
				tag := "-"
				if me.explicit && me.readOnly {
					tag = "readonly_txn_write_panics"
					// validateReadOnlyTransaction runs on the resolved plan: the table's snapshot is already
					// registered in Session.tables (as by a read), so a later commit of this session that erases
					// foreign rows of o.t is the listed commit_overwrites_read_table, not something new
					me.touched[o.t] = true
				}
				fail(tag, fmt.Sprintf("op %d `%s` (session %d) panicked: %s", idx, text, o.s, r.Panic))
				feats["crash"] = true
				break
			}
			me.touched[o.t] = true
			k := key{o.t, o.n}
			if strings.HasPrefix(res, "ok") {
				me.wrote[o.t] = true
				if o.kind == "i" && fresh[k] {
					if me.open() {
						me.pending[k] = true
						feats["uncommitted-write"] = true
					} else if has(dump[o.t], o.n) {
						live[k] = true
					} else {
						tag := "-"
						if me.ddlInTxn {
							tag = "ddl_keeps_explicit_mode"
						}
						fail(tag, fmt.Sprintf("op %d `%s` (session %d, autocommit) succeeded but the row is not committed", idx, text, o.s))
					}
				}
				if o.kind == "d" && r.Affected == 1 {
					if me.open() {
						if me.pending[k] {
							delete(me.pending, k)
						} else {
							me.pendingDel[k] = true
						}
					} else {
						delete(live, k)
					}
				}
			} else {
				feats["failed-write"] = true
			}
			commitEvent = !me.open()
		case "b", "bro":
			commitEvent = true
			feats["begin"] = true
		case "c":
			commitEvent = true
			feats["commit"] = true
		case "rb":
			feats["rollback"] = true
			for k := range me.pending {
				if has(dump[k.t], k.n) {
					fail("-", fmt.Sprintf("op %d ROLLBACK (session %d): row %d of t%d written in the transaction is committed", idx, o.s, k.n, k.t))
				}
			}
			me.reset()
			me.explicit, me.readOnly, me.ddlInTxn = false, false, false
			me.touched, me.wrote = map[int]bool{}, map[int]bool{}
		case "ac":
			me.autocommit = o.n == 1
			commitEvent = o.n == 1
			feats["set-autocommit"] = true
		case "ddl":
			commitEvent = true
			feats["ddl"] = true
			if me.explicit {
				me.ddlInTxn = true
				feats["ddl-in-txn"] = true
			}
		}
		if commitEvent {
			for k := range me.pending {
				if has(dump[k.t], k.n) {
					live[k] = true
				} else {
					fail("-", fmt.Sprintf("op %d `%s` (session %d) commits, but row %d of t%d written in the transaction is not committed", idx, text, o.s, k.n, k.t))
				}
			}
			for k := range me.pendingDel {
				delete(live, k)
			}
			me.reset()
		}
		// committed rows stay until a committed delete; uncommitted rows are not in the committed state
		for k := range live {
			if !has(dump[k.t], k.n) {
				tag := "-"
				switch {
				case me.touched[k.t] && !me.wrote[k.t]:
					tag = "commit_overwrites_read_table"
				case me.wrote[k.t]:
					tag = "" // overlapping writers of one table: last commit wins (documented, outside the property)
				}
				if tag != "" {
					fail(tag, fmt.Sprintf("op %d `%s` (session %d): committed row %d of t%d disappeared", idx, text, o.s, k.n, k.t))
				}
				delete(live, k)
				feats["lost-row"] = true
			}
		}
		for s2, other := range tr {
			for k := range other.pending {
				if has(dump[k.t], k.n) {
					fail("-", fmt.Sprintf("op %d `%s`: uncommitted row %d of t%d (session %d) is visible in the committed state", idx, text, k.n, k.t, s2))
					delete(other.pending, k)
				}
			}
		}
		// end-of-statement bookkeeping of the explicit flag (MySQL rules) and of the tagging sets
		switch o.kind {
		case "b", "bro":
			me.explicit, me.readOnly, me.ddlInTxn = true, o.kind == "bro", false
			me.touched, me.wrote = map[int]bool{}, map[int]bool{}
		case "c":
			me.explicit, me.readOnly, me.ddlInTxn = false, false, false
			me.touched, me.wrote = map[int]bool{}, map[int]bool{}
		case "ddl":
			me.explicit, me.readOnly = false, false
		default:
			if commitEvent && !me.ddlInTxn {
				me.touched, me.wrote = map[int]bool{}, map[int]bool{}
			}
		}
	}
	if len(zTables) > 0 {
		c := newCtx(e)
		for _, z := range zTables {
			e.Query(eng.SameSession(c), "DROP TABLE IF EXISTS "+z)
		}
	}
	return strings.Join(parts, ";"), fails, feats
}

// ---------------------------------------------------------------------------------------------
// Generators

// genInterleaved: arbitrary interleaving of three sessions.
func genInterleaved(r *hx.Rand, thorough bool) []op {
	n := r.Range(4, 14)
	if thorough {
		n = r.Range(4, 22)
	}
	explicit := make([]bool, 3)
	nextFresh := 100
	var ops []op
	allowRO := r.Chance(1, 4)
	allowDDL := r.Chance(1, 3)
	allowAC := r.Chance(1, 3)
	for i := 0; i < n; i++ {
		s := r.Intn(3)
		if r.Chance(1, 2) {
			s = r.Intn(2) // two busy sessions
		}
		o := op{s: s, t: r.Intn(2), form: r.Intn(6)}
		x := r.Intn(100)
		switch {
		case x < 22:
			o.kind = "r"
		case x < 50:
			o.kind = "i"
			if r.Chance(2, 3) {
				o.n = nextFresh
				nextFresh++
			} else {
				o.n = 1 + r.Intn(5)
			}
		case x < 58:
			o.kind = "d"
			o.n = 1 + r.Intn(5)
			if r.Chance(1, 2) && nextFresh > 100 {
				o.n = 100 + r.Intn(nextFresh-100)
			}
		case x < 70:
			o.kind = "b"
			if allowRO && r.Chance(1, 3) {
				o.kind = "bro"
			}
			explicit[s] = true
		case x < 80:
			o.kind = "c"
			explicit[s] = false
		case x < 89:
			o.kind = "rb"
			explicit[s] = false
		case x < 94 && allowAC && !explicit[s]:
			o.kind = "ac"
			o.n = r.Intn(2)
		case x < 98 && allowDDL:
			o.kind = "ddl"
			explicit[s] = false
		default:
			o.kind = "r"
		}
		ops = append(ops, o)
	}
	return ops
}

// genSerial: transactions that do not overlap in time (blocks of one session each).
func genSerial(r *hx.Rand, thorough bool) []op {
	blocks := r.Range(2, 5)
	if thorough {
		blocks = r.Range(2, 8)
	}
	nextFresh := 100
	var ops []op
	for b := 0; b < blocks; b++ {
		s := r.Intn(3)
		inTxn := r.Chance(3, 4)
		if inTxn {
			ops = append(ops, op{kind: "b", s: s, form: r.Intn(2)})
		}
		for k := r.Range(1, 4); k > 0; k-- {
			o := op{s: s, t: r.Intn(2)}
			switch x := r.Intn(10); {
			case x < 3:
				o.kind = "r"
			case x < 8:
				o.kind = "i"
				if r.Chance(2, 3) {
					o.n = nextFresh
					nextFresh++
				} else {
					o.n = 1 + r.Intn(4)
				}
			default:
				o.kind = "d"
				o.n = 1 + r.Intn(4)
				if r.Chance(1, 2) && nextFresh > 100 {
					o.n = 100 + r.Intn(nextFresh-100)
				}
			}
			ops = append(ops, o)
		}
		if inTxn {
			if r.Chance(2, 3) {
				ops = append(ops, op{kind: "c", s: s})
			} else {
				ops = append(ops, op{kind: "rb", s: s})
			}
		}
	}
	return ops
}

// genReadOnly: a READ ONLY transaction of one session in which writes are attempted (they panic after
// having resolved — i.e. registered — their table), interleaved with committed writes of the other
// sessions, ended by COMMIT / BEGIN / START TRANSACTION READ ONLY / DDL / ROLLBACK and followed by reads.
// Densifies the combination readonly_txn_write_panics × commit_overwrites_read_table (1 history in
// 40 000 of the interleaved stream reached it).
func genReadOnly(r *hx.Rand, thorough bool) []op {
	ro := r.Intn(3)
	nextFresh := 100
	fresh := func() int { nextFresh++; return nextFresh - 1 }
	var ops []op
	for k := r.Range(0, 2); k > 0; k-- {
		ops = append(ops, op{kind: "i", s: r.Intn(3), t: r.Intn(2), n: fresh()})
	}
	ops = append(ops, op{kind: "bro", s: ro})
	n := r.Range(3, 8)
	if thorough {
		n = r.Range(3, 12)
	}
	for i := 0; i < n; i++ {
		o := op{s: ro, t: r.Intn(2), form: r.Intn(6)}
		switch x := r.Intn(10); {
		case x < 3: // attempted write in the READ ONLY transaction
			o.kind = "i"
			o.n = fresh()
			if r.Chance(1, 3) {
				o.kind = "d"
				o.n = 100 + r.Intn(nextFresh-100)
			}
		case x < 5:
			o.kind = "r"
		case x < 9: // committed write of another session
			o.s = (ro + 1 + r.Intn(2)) % 3
			o.kind = "i"
			o.n = fresh()
			if r.Chance(1, 4) {
				o.kind = "d"
				o.n = 100 + r.Intn(nextFresh-100)
			}
		default:
			o.s = (ro + 1 + r.Intn(2)) % 3
			o.kind = "r"
		}
		ops = append(ops, o)
	}
	end := []string{"c", "c", "b", "bro", "ddl", "rb"}[r.Intn(6)]
	ops = append(ops, op{kind: end, s: ro, form: r.Intn(2)})
	for k := r.Range(1, 3); k > 0; k-- {
		o := op{s: r.Intn(3), t: r.Intn(2)}
		switch x := r.Intn(4); {
		case x < 2:
			o.kind = "r"
		case x < 3:
			o.kind = "i"
			o.n = fresh()
		default:
			o.kind = []string{"c", "rb"}[r.Intn(2)]
			o.s = ro
		}
		ops = append(ops, o)
	}
	return ops
}

// genImplicit: a session with autocommit = 0 — its statements accumulate in an implicit transaction —
// whose pending work is then ended by BEGIN / START TRANSACTION [READ ONLY] (commit the pending work),
// COMMIT, ROLLBACK, DDL (implicit commit) or SET autocommit = 1 (commit), interleaved with reads and
// committed writes of the other sessions. The interleaved stream reaches "pending implicit work, then
// BEGIN" in only 0-5 of 1200 histories.
func genImplicit(r *hx.Rand, thorough bool) []op {
	me := r.Intn(3)
	nextFresh := 100
	fresh := func() int { nextFresh++; return nextFresh - 1 }
	other := func() int { return (me + 1 + r.Intn(2)) % 3 }
	var ops []op
	for k := r.Range(0, 2); k > 0; k-- {
		ops = append(ops, op{kind: "i", s: r.Intn(3), t: r.Intn(2), n: fresh()})
	}
	ops = append(ops, op{kind: "ac", s: me, n: 0, form: r.Intn(3)})
	rounds := r.Range(1, 2)
	if thorough {
		rounds = r.Range(1, 3)
	}
	explicit := false
	for ; rounds > 0; rounds-- {
		for k := r.Range(2, 5); k > 0; k-- {
			o := op{s: me, t: r.Intn(2), form: r.Intn(6)}
			switch x := r.Intn(10); {
			case x < 4:
				o.kind = "i"
				o.n = fresh()
				if r.Chance(1, 4) {
					o.n = 1 + r.Intn(3)
				}
			case x < 5:
				o.kind = "d"
				o.n = 100 + r.Intn(nextFresh-100)
			case x < 6:
				o.kind = "r"
			case x < 8:
				o.s = other()
				o.kind = "r"
			default: // committed write of another session
				o.s = other()
				o.kind = "i"
				o.n = fresh()
			}
			ops = append(ops, o)
		}
		end := op{s: me, form: r.Intn(6)}
		switch x := r.Intn(12); {
		case x < 4:
			end.kind = "b"
			explicit = true
		case x < 5:
			end.kind = "bro"
			explicit = true
		case x < 7:
			end.kind = "c"
			explicit = false
		case x < 9:
			end.kind = "rb"
			explicit = false
		case x < 10:
			end.kind = "ddl"
			explicit = false
		default:
			if explicit { // SET autocommit inside an explicit transaction is outside the envelope
				end.kind = "c"
				explicit = false
			} else {
				end.kind = "ac"
				end.n = r.Intn(2)
			}
		}
		ops = append(ops, end, op{kind: "r", s: other(), t: r.Intn(2)})
	}
	if r.Chance(1, 2) {
		ops = append(ops, op{kind: []string{"c", "rb"}[r.Intn(2)], s: me})
	}
	ops = append(ops, op{kind: "r", s: other(), t: r.Intn(2)}, op{kind: "r", s: me, t: r.Intn(2)})
	return ops
}

func corpus() [][]op {
	r := func(s, t int) op { return op{kind: "r", s: s, t: t} }
	i := func(s, t, n int) op { return op{kind: "i", s: s, t: t, n: n} }
	d := func(s, t, n int) op { return op{kind: "d", s: s, t: t, n: n} }
	k := func(kind string, s int) op { return op{kind: kind, s: s} }
	ac := func(s, n int) op { return op{kind: "ac", s: s, n: n} }
	return [][]op{
		// a transaction that only read t0 erases a row committed to t0 meanwhile
		{i(0, 0, 1), k("b", 0), r(0, 0), i(1, 0, 2), i(0, 1, 5), k("c", 0), r(1, 0)},
		// DDL inside a transaction: later statements are not autocommitted
		{k("b", 1), i(1, 0, 7), k("ddl", 1), i(1, 0, 8), r(2, 0), k("rb", 1), r(2, 0)},
		// DML in a READ ONLY transaction
		{i(0, 0, 1), k("bro", 2), r(2, 0), i(2, 0, 9), d(2, 0, 1), k("c", 2), r(2, 0)},
		// regular: rollback discards, commit publishes, no dirty read, autocommit
		{i(0, 0, 1), k("b", 0), i(0, 0, 2), d(0, 0, 1), r(0, 0), r(1, 0), k("rb", 0), r(0, 0), k("b", 1), i(1, 1, 3), r(0, 1), k("c", 1), r(0, 1)},
		{op{kind: "ac", s: 0, n: 0}, i(0, 0, 1), r(1, 0), i(0, 0, 2), k("c", 0), r(1, 0), i(0, 0, 3), k("rb", 0), i(0, 0, 4), op{kind: "ac", s: 0, n: 1}, r(1, 0)},
		{k("b", 0), i(0, 0, 1), k("b", 0), r(1, 0), i(0, 0, 2), k("rb", 0), r(1, 0), i(0, 0, 1), i(0, 0, 1), r(0, 0)},
		// sweep alarm (seed 1, thorough, old seeding, case 522): the INSERT that panics in a READ ONLY transaction has
		// already resolved its table, i.e. registered the snapshot in Session.tables; the next BEGIN of that session
		// (implicit commit) writes the stale snapshot back and erases row 101 committed by session 0 meanwhile
		{r(0, 0), k("bro", 2), i(2, 0, 100), r(1, 1), k("bro", 1), i(2, 1, 2), r(1, 1), r(1, 0), d(0, 1, 1), r(0, 0), r(1, 0),
			i(0, 1, 101), k("b", 0), k("rb", 0), k("bro", 2), i(1, 0, 102), k("rb", 1), r(2, 0), k("rb", 0), d(1, 1, 1), r(1, 1)},
		// the same, minimal: panicking write on t1 in a READ ONLY transaction, foreign commit to t1, COMMIT of the session
		{k("bro", 2), i(2, 1, 2), i(0, 1, 101), r(2, 1), k("c", 2), r(0, 1)},
		// … and with ROLLBACK instead (the registered snapshot is discarded, row 101 stays)
		{k("bro", 2), d(2, 1, 2), i(0, 1, 101), k("rb", 2), r(0, 1), r(2, 1)},
		// autocommit = 0: the pending implicit transaction is committed by BEGIN, by DDL, by SET autocommit = 1
		{ac(0, 0), i(0, 0, 1), r(1, 0), k("b", 0), r(1, 0), i(0, 0, 2), k("rb", 0), r(1, 0)},
		{ac(1, 0), i(1, 1, 3), r(0, 1), k("ddl", 1), r(0, 1), i(1, 1, 4), k("rb", 1), r(0, 1)},
		{ac(2, 0), i(2, 0, 5), d(2, 0, 5), i(2, 1, 6), r(0, 1), ac(2, 1), r(0, 1), r(0, 0)},
	}
}

func run(a hx.RunArgs) error {
	out := hx.NewOut(a.OutDir)
	defer out.Close()
	out.Rule = "one case = one history of 4-22 statements over 3 sessions and 2 tables (SELECT, INSERT of marker/recurring keys, DELETE, BEGIN/START TRANSACTION [READ ONLY], COMMIT, ROLLBACK, SET autocommit, CREATE TABLE), " +
		"either arbitrarily interleaved, or as non-overlapping transaction blocks, or centred on a READ ONLY transaction with attempted writes and foreign commits, or on an autocommit=0 session whose pending work is ended in every possible way; after each statement the committed tables are read through a new session; " +
		"non-trivial = some write was made inside an open transaction and a COMMIT or ROLLBACK followed"
	r := hx.NewRand(a.Seed)
	n := 1200
	if a.Thorough {
		n = 40000
	}
	hs := corpus()
	kinds := make([]string, len(hs))
	for i := range kinds {
		kinds[i] = "corpus"
	}
	for i := 0; i < n; i++ {
		if r.Chance(1, 16) {
			hs = append(hs, genReadOnly(r, a.Thorough))
			kinds = append(kinds, "readonly")
		} else if r.Chance(1, 12) {
			hs = append(hs, genImplicit(r, a.Thorough))
			kinds = append(kinds, "implicit")
		} else if r.Chance(1, 3) {
			hs = append(hs, genSerial(r, a.Thorough))
			kinds = append(kinds, "serial")
		} else {
			hs = append(hs, genInterleaved(r, a.Thorough))
			kinds = append(kinds, "interleaved")
		}
	}
	type result struct {
		obs   string
		fails [][2]string
		feats map[string]bool
	}
	results := make([]result, len(hs))
	var wg sync.WaitGroup
	var next atomic.Int64
	for w := 0; w < 4; w++ {
		wg.Add(1)
		go func() {
			defer wg.Done()
			e := eng.New("d")
			for {
				i := int(next.Add(1)) - 1
				if i >= len(hs) {
					return
				}
				var res result
				if p := hx.Safe(func() { res.obs, res.fails, res.feats = runHist(e, i, hs[i]) }); p != "" {
					res = result{obs: "crash:" + p, feats: map[string]bool{}}
					e = eng.New("d")
				}
				results[i] = res
			}
		}()
	}
	wg.Wait()
	for i, h := range hs {
		parts := make([]string, len(h))
		for j, o := range h {
			parts[j] = o.payload()
		}
		res := results[i]
		nontriv := res.feats["uncommitted-write"] && (res.feats["commit"] || res.feats["rollback"])
		id := out.Case("(hist "+strings.Join(parts, " ")+")", res.obs, nontriv)
		out.Stat("stream:" + kinds[i])
		out.StatN("statements", len(h))
		for f := range res.feats {
			out.Stat("feature:" + f)
		}
		seen := map[string]bool{}
		for _, f := range res.fails {
			if !seen[f[0]] {
				seen[f[0]] = true
				out.OracleFail(id, f[0], f[1])
				out.Stat("oracle-fail:" + f[0])
			}
		}
	}
	return nil
}
