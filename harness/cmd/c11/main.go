// C11 — Repeated queries reflect the current data; no stale results.
//
//	c11 extract   facts (go/ast): the cache cells of the executor (plan.CachedResults, plan.Subquery, plan.HashLookup), when
//	              buildCachedResults serves from the cell and when cachedResultsIter fills it, the only call site of
//	              NewCachedResults, that QueryWithBindings plans afresh (bindQuery) and that the session's prepared cache
//	              holds a parsed statement; the early returns and calls of the code that starts / ends a transaction and the
//	              methods that fill / reset memory.Session.tables; where the plan builder marks trigger-body subqueries and the
//	              cacheable flag of every subquery in the analyzed plans of probe statements (facts2.go)
//	c11 run       (1) histories of DML, repeated queries and transaction control (txhist.go) on one engine, issued from two
//	              sessions, each query as plain text and as a re-executed PREPARE/EXECUTE, twice in a row; the Lean driver predicts
//	              every observation from the reference state (`runFresh` = `runSpec`, Gms.C11.cache_scoped; session bookkeeping
//	              `TxSnapshot.runImpl` = `runSpec`, Gms.C11.tx_snapshot_scoped);
//	              (3) multi-row statements firing a trigger whose body has subqueries over a table the body writes (trig.go),
//	              predicted by Gms.TrigCache (Gms.C11.trigger_rows_current);
//	              (2) model-free: a pool of cache-prone query shapes (uncorrelated IN / scalar subqueries, derived tables joined
//	              through CachedResults + HashLookup, EXISTS, a view, CTEs, a stored procedure with a loop) is run after every
//	              write of a history on the live engine (twice) and on a fresh engine loaded with a dump of the current data.
//	The term language and printer are those of harness/cmd/c12 (copied: one binary per property).
package main

import (
	"fmt"
	"go/ast"
	"io"
	"sort"
	"strconv"
	"strings"
	"time"

	"github.com/dolthub/go-mysql-server/sql"
	"github.com/dolthub/go-mysql-server/sql/types"
	"github.com/dolthub/go-mysql-server/verifharness/hx"
	"github.com/dolthub/go-mysql-server/verifharness/hx/eng"
)

var _ = io.EOF
var _ = time.Second
var _ = types.Int64
var _ sql.Row

func main() { hx.Main(extract, run) }

// ---------------------------------------------------------------------------------------------
// Terms (mirror of Gms/Model/Prepared.lean)

type value struct {
	kind string // null | int | str
	i    int64
	s    string
}

func vnull() value         { return value{kind: "null"} }
func vint(i int64) value   { return value{kind: "int", i: i} }
func vstr(s string) value  { return value{kind: "str", s: s} }
func (v value) sexp() string {
	switch v.kind {
	case "int":
		return fmt.Sprintf("(i %d)", v.i)
	case "str":
		return "(s " + hx.HexS(v.s) + ")"
	}
	return "null"
}

// lit renders the value as a literal of the statement text.
func (v value) lit() string {
	switch v.kind {
	case "int":
		return strconv.FormatInt(v.i, 10)
	case "str":
		s := strings.ReplaceAll(v.s, "\\", "\\\\")
		s = strings.ReplaceAll(s, "'", "''")
		return "'" + s + "'"
	}
	return "NULL"
}

func (v value) goVal() interface{} {
	switch v.kind {
	case "int":
		return v.i
	case "str":
		return v.s
	}
	return nil
}

type atom struct {
	param int // -1: literal
	v     value
}

type pexpr struct {
	op    string // a col neg ar cmp and or not isnull in btw
	sub   string // arithmetic / comparison operator
	at    atom
	col   int
	args  []*pexpr
	items []atom
}

type stmt struct {
	kind string // select insert update delete
	proj []*pexpr
	w    *pexpr
	lim  *atom
	vals []atom
	col  int
	e    *pexpr
}

var colNames = []string{"id", "k", "s"}

// render modes
type mode struct {
	inline bool    // write bound values as literals
	sigma  []value // values per placeholder (inline mode)
	n      *int    // running placeholder counter (for :vN names nothing is needed: positional ?)
}

func (a atom) sexp() string {
	if a.param >= 0 {
		return fmt.Sprintf("(p %d)", a.param)
	}
	return "(lit " + a.v.sexp() + ")"
}

func (a atom) text(m mode) string {
	if a.param >= 0 {
		if m.inline {
			return m.sigma[a.param].lit()
		}
		return "?"
	}
	return a.v.lit()
}

func (e *pexpr) sexp() string {
	switch e.op {
	case "a":
		return "(a " + e.at.sexp() + ")"
	case "col":
		return fmt.Sprintf("(col %d)", e.col)
	case "neg", "not", "isnull":
		return "(" + e.op + " " + e.args[0].sexp() + ")"
	case "ar", "cmp":
		return fmt.Sprintf("(%s %s %s %s)", e.op, e.sub, e.args[0].sexp(), e.args[1].sexp())
	case "and", "or":
		return fmt.Sprintf("(%s %s %s)", e.op, e.args[0].sexp(), e.args[1].sexp())
	case "in":
		return fmt.Sprintf("(in %s %s)", e.args[0].sexp(), hx.ListOf(e.items, atom.sexp))
	case "btw":
		return fmt.Sprintf("(btw %s %s %s)", e.args[0].sexp(), e.args[1].sexp(), e.args[2].sexp())
	}
	panic("harness: bad pexpr " + e.op)
}

var arithSQL = map[string]string{"add": "+", "sub": "-", "mul": "*"}
var cmpSQL = map[string]string{"eq": "=", "ne": "<>", "lt": "<", "le": "<=", "gt": ">", "ge": ">=", "nseq": "<=>"}

func (e *pexpr) text(m mode) string {
	switch e.op {
	case "a":
		return e.at.text(m)
	case "col":
		return colNames[e.col]
	case "neg":
		return "(- " + e.args[0].text(m) + ")"
	case "not":
		return "(NOT " + e.args[0].text(m) + ")"
	case "isnull":
		return "(" + e.args[0].text(m) + " IS NULL)"
	case "ar":
		return "(" + e.args[0].text(m) + " " + arithSQL[e.sub] + " " + e.args[1].text(m) + ")"
	case "cmp":
		return "(" + e.args[0].text(m) + " " + cmpSQL[e.sub] + " " + e.args[1].text(m) + ")"
	case "and":
		return "(" + e.args[0].text(m) + " AND " + e.args[1].text(m) + ")"
	case "or":
		return "(" + e.args[0].text(m) + " OR " + e.args[1].text(m) + ")"
	case "in":
		parts := make([]string, len(e.items))
		for i, it := range e.items {
			parts[i] = it.text(m)
		}
		return "(" + e.args[0].text(m) + " IN (" + strings.Join(parts, ", ") + "))"
	case "btw":
		return "(" + e.args[0].text(m) + " BETWEEN " + e.args[1].text(m) + " AND " + e.args[2].text(m) + ")"
	}
	panic("harness: bad pexpr " + e.op)
}

func (s *stmt) sexp() string {
	switch s.kind {
	case "select":
		lim := "nolim"
		if s.lim != nil {
			lim = s.lim.sexp()
		}
		return fmt.Sprintf("(select %s %s %s)", hx.ListOf(s.proj, (*pexpr).sexp), s.w.sexp(), lim)
	case "insert":
		return "(insert " + hx.ListOf(s.vals, atom.sexp) + ")"
	case "update":
		return fmt.Sprintf("(update %d %s %s)", s.col, s.e.sexp(), s.w.sexp())
	case "delete":
		return "(delete " + s.w.sexp() + ")"
	}
	panic("harness: bad stmt")
}

func (s *stmt) text(m mode) string {
	switch s.kind {
	case "select":
		cols := []string{"id"}
		for _, p := range s.proj {
			cols = append(cols, p.text(m))
		}
		q := "SELECT " + strings.Join(cols, ", ") + " FROM t WHERE " + s.w.text(m) + " ORDER BY id"
		if s.lim != nil {
			q += " LIMIT " + s.lim.text(m)
		}
		return q
	case "insert":
		parts := make([]string, len(s.vals))
		for i, a := range s.vals {
			parts[i] = a.text(m)
		}
		return "INSERT INTO t VALUES (" + strings.Join(parts, ", ") + ")"
	case "update":
		return "UPDATE t SET " + colNames[s.col] + " = " + s.e.text(m) + " WHERE " + s.w.text(m)
	case "delete":
		return "DELETE FROM t WHERE " + s.w.text(m)
	}
	panic("harness: bad stmt")
}

// ---------------------------------------------------------------------------------------------
// Generator: type-directed, placeholders numbered in textual order (as the parser numbers `?`)

type gen struct {
	r     *hx.Rand
	next  int    // next placeholder number
	types []string // type of each placeholder: int | str | lim | key
}

func (g *gen) newParam(ty string) atom {
	a := atom{param: g.next}
	g.next++
	g.types = append(g.types, ty)
	return a
}

var strPool = []string{"a", "b", "ab", "", "it's", "back\\slash", "q\"uote", "é", "A", "x y"}

func (g *gen) intVal() value {
	if g.r.Chance(1, 10) {
		return vnull()
	}
	return vint(int64(g.r.Intn(12) - 3))
}
func (g *gen) strVal() value {
	if g.r.Chance(1, 10) {
		return vnull()
	}
	return vstr(hx.Pick(g.r, strPool))
}

func (g *gen) intAtom() atom {
	if g.r.Chance(1, 2) {
		return g.newParam("int")
	}
	return atom{param: -1, v: g.intVal()}
}
func (g *gen) strAtom() atom {
	if g.r.Chance(1, 2) {
		return g.newParam("str")
	}
	return atom{param: -1, v: g.strVal()}
}

func (g *gen) intExpr(d int) *pexpr {
	switch c := g.r.Intn(10); {
	case d <= 0 || c < 3:
		return &pexpr{op: "a", at: g.intAtom()}
	case c < 6:
		return &pexpr{op: "col", col: g.r.Intn(2)}
	case c < 7:
		return &pexpr{op: "neg", args: []*pexpr{g.intExpr(d - 1)}}
	default:
		a := g.intExpr(d - 1)
		b := g.intExpr(d - 1)
		return &pexpr{op: "ar", sub: hx.Pick(g.r, []string{"add", "sub", "mul"}), args: []*pexpr{a, b}}
	}
}

func (g *gen) strExpr() *pexpr {
	if g.r.Chance(1, 2) {
		return &pexpr{op: "col", col: 2}
	}
	return &pexpr{op: "a", at: g.strAtom()}
}

var cmpOps = []string{"eq", "ne", "lt", "le", "gt", "ge", "nseq"}

func (g *gen) pred(d int) *pexpr {
	switch c := g.r.Intn(12); {
	case d <= 0 || c < 4:
		if g.r.Chance(1, 3) {
			a := g.strExpr()
			b := g.strExpr()
			return &pexpr{op: "cmp", sub: hx.Pick(g.r, cmpOps), args: []*pexpr{a, b}}
		}
		a := g.intExpr(1)
		b := g.intExpr(1)
		return &pexpr{op: "cmp", sub: hx.Pick(g.r, cmpOps), args: []*pexpr{a, b}}
	case c < 6:
		a := g.pred(d - 1)
		b := g.pred(d - 1)
		return &pexpr{op: hx.Pick(g.r, []string{"and", "or"}), args: []*pexpr{a, b}}
	case c < 7:
		return &pexpr{op: "not", args: []*pexpr{g.pred(d - 1)}}
	case c < 8:
		if g.r.Bool() {
			return &pexpr{op: "isnull", args: []*pexpr{g.intExpr(1)}}
		}
		return &pexpr{op: "isnull", args: []*pexpr{g.strExpr()}}
	case c < 10:
		isStr := g.r.Chance(1, 3)
		var e *pexpr
		if isStr {
			e = g.strExpr()
		} else {
			e = g.intExpr(1)
		}
		n := 1 + g.r.Intn(3)
		items := make([]atom, n)
		for i := range items {
			if isStr {
				items[i] = g.strAtom()
			} else {
				items[i] = g.intAtom()
			}
		}
		return &pexpr{op: "in", args: []*pexpr{e}, items: items}
	default:
		e := g.intExpr(1)
		lo := g.intExpr(0)
		hi := g.intExpr(0)
		return &pexpr{op: "btw", args: []*pexpr{e, lo, hi}}
	}
}

// genStmt builds a statement; placeholders are created in the order they are printed.
func genStmt(r *hx.Rand) (*stmt, []string) {
	g := &gen{r: r}
	s := &stmt{}
	switch c := r.Intn(10); {
	case c < 5:
		s.kind = "select"
		for i := r.Intn(3); i > 0; i-- {
			switch r.Intn(3) {
			case 0:
				s.proj = append(s.proj, g.intExpr(2))
			case 1:
				s.proj = append(s.proj, g.strExpr())
			default:
				s.proj = append(s.proj, g.pred(1))
			}
		}
		s.w = g.pred(2)
		if r.Chance(1, 3) {
			var a atom
			if r.Bool() {
				a = g.newParam("lim")
			} else {
				a = atom{param: -1, v: vint(int64(r.Intn(4)))}
			}
			s.lim = &a
		}
	case c < 7:
		s.kind = "insert"
		var id atom
		if r.Chance(2, 3) {
			id = g.newParam("key")
		} else {
			id = atom{param: -1, v: vint(int64(r.Intn(14)))}
		}
		s.vals = []atom{id, g.intAtom(), g.strAtom()}
	case c < 9:
		s.kind = "update"
		if r.Bool() {
			s.col = 1
			s.e = g.intExpr(2)
		} else {
			s.col = 2
			s.e = g.strExpr()
		}
		s.w = g.pred(2)
	default:
		s.kind = "delete"
		s.w = g.pred(2)
	}
	return s, g.types
}

func genSigma(r *hx.Rand, tys []string) []value {
	g := &gen{r: r}
	out := make([]value, len(tys))
	for i, ty := range tys {
		switch ty {
		case "int":
			out[i] = g.intVal()
		case "str":
			out[i] = g.strVal()
		case "lim":
			out[i] = vint(int64(r.Intn(4)))
		case "key":
			out[i] = vint(int64(r.Intn(14)))
			if r.Chance(1, 25) {
				out[i] = vnull()
			}
		}
	}
	return out
}

// ---------------------------------------------------------------------------------------------
// Observations

type res struct {
	class    string // ok | err:… | crash | timeout
	rows     []string
	isOk     bool
	affected uint64
}

func (r res) obs() string {
	if r.class != "ok" {
		return r.class
	}
	if r.isOk {
		return fmt.Sprintf("ok %d", r.affected)
	}
	return strings.TrimSpace("rows " + strings.Join(r.rows, " "))
}

func cell(txt string, isNull bool) string {
	if isNull {
		return "null"
	}
	if _, err := strconv.ParseInt(txt, 10, 64); err == nil {
		return txt
	}
	switch txt { // boolean result columns
	case "true":
		return "1"
	case "false":
		return "0"
	}
	return hx.HexS(txt)
}

func classOfErr(err error) string {
	msg := err.Error()
	switch {
	case strings.Contains(msg, "bind variable not provided"):
		return "err:missing"
	case strings.Contains(msg, "invalid arguments. expected"):
		return "err:unused"
	}
	return fmt.Sprintf("err:%d", eng.Errno(err))
}

func fromEng(r *eng.Res) res {
	switch {
	case r.Panic != "":
		return res{class: "crash"}
	case r.Timeout:
		return res{class: "timeout"}
	case r.Err != nil:
		return res{class: classOfErr(r.Err)}
	}
	out := res{class: "ok", isOk: r.IsOk && len(r.Rows) == 0, affected: r.Affected}
	for i, row := range r.Rows {
		cells := make([]string, len(row))
		for j, c := range row {
			cells[j] = cell(c, r.Null[i][j])
		}
		out.rows = append(out.rows, "("+strings.Join(cells, " ")+")")
	}
	return out
}


// ---------------------------------------------------------------------------------------------
// Facts

func structFields(src *hx.Src, name string) ([]string, error) {
	for _, d := range src.File.Decls {
		gd, ok := d.(*ast.GenDecl)
		if !ok {
			continue
		}
		for _, sp := range gd.Specs {
			ts, ok := sp.(*ast.TypeSpec)
			if !ok || ts.Name.Name != name {
				continue
			}
			st, ok := ts.Type.(*ast.StructType)
			if !ok {
				return nil, fmt.Errorf("%s is not a struct", name)
			}
			var out []string
			for _, f := range st.Fields.List {
				if len(f.Names) == 0 {
					out = append(out, src.Text(f.Type))
				}
				for _, n := range f.Names {
					out = append(out, n.Name)
				}
			}
			return out, nil
		}
	}
	return nil, fmt.Errorf("struct %s not found", name)
}

// enclosingConds returns the conditions of the if statements enclosing the first call of `callee` in fd.
func enclosingConds(src *hx.Src, fd *ast.FuncDecl, callee string) []string {
	var out []string
	var walk func(n ast.Node, conds []string) bool
	walk = func(n ast.Node, conds []string) bool {
		found := false
		ast.Inspect(n, func(m ast.Node) bool {
			if found || m == nil {
				return false
			}
			switch x := m.(type) {
			case *ast.IfStmt:
				if x != n {
					if walk(x.Body, append(append([]string(nil), conds...), src.Text(x.Cond))) {
						found = true
						return false
					}
					if x.Else != nil && walk(x.Else, append(append([]string(nil), conds...), "!("+src.Text(x.Cond)+")")) {
						found = true
					}
					return false
				}
			case *ast.CallExpr:
				if strings.HasSuffix(src.Text(x.Fun), callee) {
					out = conds
					found = true
					return false
				}
			}
			return true
		})
		return found
	}
	walk(fd.Body, nil)
	return out
}

func assignsTo(src *hx.Src, fd *ast.FuncDecl, lhsPrefix string) bool {
	hit := false
	ast.Inspect(fd.Body, func(n ast.Node) bool {
		if as, ok := n.(*ast.AssignStmt); ok {
			for _, l := range as.Lhs {
				if strings.HasPrefix(src.Text(l), lhsPrefix) {
					hit = true
				}
			}
		}
		return true
	})
	return hit
}

func calls(src *hx.Src, fd *ast.FuncDecl, sub string) bool {
	hit := false
	ast.Inspect(fd.Body, func(n ast.Node) bool {
		if ce, ok := n.(*ast.CallExpr); ok && strings.Contains(src.Text(ce.Fun), sub) {
			hit = true
		}
		return true
	})
	return hit
}

func extract(a hx.ExtractArgs) error {
	lf := hx.NewLeanFile("Gms.Generated.C11", "sql/plan/cached_results.go", "sql/rowexec/cache.go", "sql/plan/subquery.go",
		"sql/plan/hash_lookup.go", "sql/analyzer/resolve_subqueries.go", "engine.go", "sql/base_session.go",
		"sql/rowexec/transaction.go", "sql/rowexec/transaction_iters.go", "memory/session.go", "sql/planbuilder/scalar.go",
		"analyzed plans of probe statements (run)")
	cr, err := hx.ParseSrc(a.Repo, "sql/plan/cached_results.go")
	if err != nil {
		return err
	}
	f, err := structFields(cr, "CachedResults")
	if err != nil {
		return err
	}
	lf.DefStringList("cachedResultsFields", f)
	wc, err := cr.Func("CachedResults", "WithChildren")
	if err != nil {
		return err
	}
	lf.DefBool("withChildrenCopiesNode", strings.Contains(cr.Text(wc.Body), "nn := *n"))
	rc, err := hx.ParseSrc(a.Repo, "sql/rowexec/cache.go")
	if err != nil {
		return err
	}
	bc, err := rc.Func("BaseBuilder", "buildCachedResults")
	if err != nil {
		return err
	}
	lf.DefStringList("serveFromCellWhen", enclosingConds(rc, bc, "RowsToRowIter"))
	lf.DefStringList("buildChildWhen", enclosingConds(rc, bc, "buildNodeExec"))
	nx, err := rc.Func("cachedResultsIter", "Next")
	if err != nil {
		return err
	}
	lf.DefStringList("saveCellWhen", enclosingConds(rc, nx, "saveResultsInNode"))
	sv, err := rc.Func("cachedResultsIter", "saveResultsInNode")
	if err != nil {
		return err
	}
	lf.DefBool("saveSetsCachedResults", calls(rc, sv, "SetCachedResults"))
	sq, err := hx.ParseSrc(a.Repo, "sql/plan/subquery.go")
	if err != nil {
		return err
	}
	sf, err := structFields(sq, "Subquery")
	if err != nil {
		return err
	}
	var cacheFields []string
	for _, x := range sf {
		if strings.Contains(strings.ToLower(x), "cache") {
			cacheFields = append(cacheFields, x)
		}
	}
	sort.Strings(cacheFields)
	lf.DefStringList("subqueryCacheFields", cacheFields)
	sd, err := sq.Func("Subquery", "Dispose")
	if err != nil {
		return err
	}
	lf.DefBool("subqueryDisposeClearsCache", assignsTo(sq, sd, "s.resultsCached") || assignsTo(sq, sd, "s.cache"))
	cc, err := sq.Func("Subquery", "canCacheResults")
	if err != nil {
		return err
	}
	ret := ""
	ast.Inspect(cc.Body, func(n ast.Node) bool {
		if r, ok := n.(*ast.ReturnStmt); ok && len(r.Results) == 1 {
			ret = sq.Text(r.Results[0])
		}
		return true
	})
	lf.DefString("subqueryCacheableWhen", ret)
	hl, err := hx.ParseSrc(a.Repo, "sql/plan/hash_lookup.go")
	if err != nil {
		return err
	}
	hd, err := hl.Func("HashLookup", "Dispose")
	if err != nil {
		return err
	}
	lf.DefBool("hashLookupDisposeClears", assignsTo(hl, hd, "n.Lookup"))
	// call sites of NewCachedResults in sql/ (non-test)
	var sites []string
	for _, rel := range []string{"sql/analyzer/resolve_subqueries.go", "sql/analyzer/optimization_rules.go", "sql/planbuilder/from.go", "sql/memo/exec_builder.go", "sql/rowexec/join_iters.go"} {
		s, err := hx.ParseSrc(a.Repo, rel)
		if err != nil {
			continue
		}
		n := 0
		ast.Inspect(s.File, func(m ast.Node) bool {
			if ce, ok := m.(*ast.CallExpr); ok && strings.HasSuffix(s.Text(ce.Fun), "NewCachedResults") {
				n++
			}
			return true
		})
		if n > 0 {
			sites = append(sites, fmt.Sprintf("%s:%d", rel, n))
		}
	}
	lf.DefStringList("newCachedResultsSites", sites)
	en, err := hx.ParseSrc(a.Repo, "engine.go")
	if err != nil {
		return err
	}
	qb, err := en.Func("Engine", "QueryWithBindings")
	if err != nil {
		return err
	}
	lf.DefBool("queryPlansAfresh", calls(en, qb, "e.bindQuery") && calls(en, qb, "e.analyzeNode"))
	bs, err := hx.ParseSrc(a.Repo, "sql/base_session.go")
	if err != nil {
		return err
	}
	pq, err := bs.Func("BaseSession", "PrepareQuery")
	if err != nil {
		return err
	}
	var ptypes []string
	for _, p := range pq.Type.Params.List {
		ptypes = append(ptypes, bs.Text(p.Type))
	}
	lf.DefStringList("sessionPrepareQueryParamTypes", ptypes)
	if err := txFacts(a, lf); err != nil {
		return err
	}
	if err := subqueryFacts(a, lf); err != nil {
		return err
	}
	return lf.Write(a.Out)
}

// ---------------------------------------------------------------------------------------------
// Run

type session struct {
	ctx   *sql.Context
	names map[string]string
}

func (s *session) prepared(e *eng.Eng, text string) res {
	name, ok := s.names[text]
	if !ok {
		name = fmt.Sprintf("s%d", len(s.names)+1)
		r := e.Query(s.ctx, "PREPARE "+name+" FROM "+vstr(text).lit())
		if r.Class() != "ok" {
			return res{class: "prepare-" + r.Class()}
		}
		s.names[text] = name
	}
	return fromEng(e.Query(s.ctx, "EXECUTE "+name))
}

// cache-prone query shapes over t(id,k,s) and u(id,k): run after every write on the live engine and on a fresh copy
var shapes = []string{
	"SELECT id FROM t WHERE k IN (SELECT k FROM u) ORDER BY id",
	"SELECT id FROM t WHERE k NOT IN (SELECT k FROM u WHERE k IS NOT NULL) ORDER BY id",
	"SELECT id, (SELECT COUNT(*) FROM u) FROM t ORDER BY id",
	"SELECT id, (SELECT MAX(k) FROM u) + k FROM t ORDER BY id",
	"SELECT t.id, x.cnt FROM t JOIN (SELECT k, COUNT(*) cnt FROM u GROUP BY k) x ON t.k = x.k ORDER BY t.id",
	"SELECT t.id, x.cnt FROM t LEFT JOIN (SELECT k, COUNT(*) cnt FROM u GROUP BY k) x ON t.k = x.k ORDER BY t.id",
	"SELECT a.id, b.id FROM t a JOIN (SELECT id, k FROM t WHERE k IS NOT NULL) b ON a.k < b.k ORDER BY a.id, b.id",
	"SELECT id FROM t WHERE EXISTS (SELECT 1 FROM u WHERE u.k = t.k) ORDER BY id",
	"SELECT * FROM v ORDER BY id",
	"WITH c AS (SELECT k FROM u) SELECT t.id FROM t JOIN c ON t.k = c.k WHERE t.k IN (SELECT k FROM c) ORDER BY t.id",
	"SELECT id FROM t WHERE k = (SELECT MIN(k) FROM u) OR k = (SELECT MAX(k) FROM u) ORDER BY id",
	"SELECT COUNT(*) FROM t, (SELECT DISTINCT k FROM u) d WHERE t.k = d.k",
	// derived table on the right of a non-equi join: planned as CachedResults under a nested-loop join
	"SELECT t.id, x.cnt FROM t LEFT JOIN (SELECT k, COUNT(*) cnt FROM u GROUP BY k) x ON t.k < x.k ORDER BY t.id, x.cnt",
	"SELECT /*+ JOIN_ORDER(t, x) */ t.id, x.k FROM t JOIN (SELECT DISTINCT k FROM u LIMIT 10) x ON t.k <> x.k ORDER BY t.id, x.k",
	"SELECT a.id, b.id FROM t a LEFT JOIN (SELECT id, k FROM t WHERE k IS NOT NULL) b ON a.k > b.k ORDER BY a.id, b.id",
	"CALL loopcount(3)",
}

const setupProc = "CREATE PROCEDURE loopcount(n INT) BEGIN DECLARE i INT DEFAULT 0; DECLARE acc INT DEFAULT 0; " +
	"WHILE i < n DO SET acc = acc * 10 + (SELECT COUNT(*) FROM t JOIN (SELECT k, COUNT(*) cnt FROM u GROUP BY k) x ON t.k = x.k WHERE x.cnt > i); " +
	"SET i = i + 1; END WHILE; SELECT acc; END"

func setupSchema(e *eng.Eng, ctx *sql.Context) {
	e.MustExec(ctx, "CREATE TABLE t (id INT PRIMARY KEY, k INT, s VARCHAR(20))", "CREATE TABLE u (id INT PRIMARY KEY, k INT)",
		"CREATE VIEW v AS SELECT t.id, (SELECT COUNT(*) FROM u WHERE u.k = t.k) c, (SELECT MAX(id) FROM u) m FROM t", setupProc)
}

func dump(e *eng.Eng, ctx *sql.Context, table string) []string {
	r := e.Query(ctx, "SELECT * FROM "+table+" ORDER BY id")
	if r.Class() != "ok" {
		panic("harness: dump failed: " + r.Class())
	}
	var out []string
	for i, row := range r.Rows {
		cells := make([]string, len(row))
		for j, c := range row {
			switch {
			case r.Null[i][j]:
				cells[j] = "NULL"
			case table == "t" && j == 2:
				cells[j] = vstr(c).lit()
			default:
				cells[j] = c
			}
		}
		out = append(out, "("+strings.Join(cells, ",")+")")
	}
	return out
}

// setupExec runs a statement of the per-history reset. The reset is part of the history too (one session deletes, the
// other inserts): if it fails, that is an observation of the code under test, recorded as a failing case, not a harness crash.
func setupExec(out *hx.Out, e *eng.Eng, ctx *sql.Context, who, q string) bool {
	r := e.Query(ctx, q)
	if c := r.Class(); c != "ok" {
		id := out.Case(fmt.Sprintf("(setup %s %s)", who, hx.HexS(q)), "setup-failed:"+c, true)
		out.OracleFail(id, "-", fmt.Sprintf("reset statement %q issued by %s failed: %s %v (the other session had just emptied the tables)", q, who, c, r.Err))
		return false
	}
	return true
}

func run(a hx.RunArgs) error {
	out := hx.NewOut(a.OutDir)
	defer out.Close()
	out.Rule = "(1) histories of 6-14 steps over t(id,k,s): INSERT/UPDATE/DELETE, SELECT (predicates, IN lists, BETWEEN, LIMIT) and transaction control " +
		"(START TRANSACTION [READ ONLY|READ WRITE], BEGIN, COMMIT, ROLLBACK, SET autocommit) issued from two sessions of one engine, followed by an epilogue " +
		"(open transactions ended, a write from each session, a full read from each session); every SELECT is executed as text and as a re-executed " +
		"PREPARE/EXECUTE, twice in a row, in both sessions when neither has a transaction open, and must show the rows the session is entitled to — outside a " +
		"transaction the state left by the latest write; after writes 16 cache-prone query shapes (uncorrelated subqueries, derived-table joins behind " +
		"CachedResults/HashLookup, EXISTS, view, CTE, procedure loop) are compared with a fresh engine loaded from a dump; a history is non-trivial when a " +
		"query text is executed before and after a write that changes its result, or a session reads after a transaction of its own ended and the other " +
		"session wrote; (2) multi-row INSERT … VALUES / INSERT … SELECT / UPDATE statements firing a BEFORE trigger whose body has scalar / IN / EXISTS " +
		"subqueries over a side table the body itself writes; non-trivial when the statement touches at least two rows and a subquery of the body is uncorrelated"
	r := hx.NewRand(a.Seed).Fork()
	nHist := 60
	if a.Thorough {
		nHist = 800
	}
	e := eng.New("d")
	ss := [2]*session{{ctx: e.Ctx(), names: map[string]string{}}, {ctx: e.Ctx(), names: map[string]string{}}}
	s1, s2 := ss[0], ss[1]
	setupSchema(e, s1.ctx)
	var queries []*stmt // pool of query statements re-used across histories (prepared texts survive)
	for h := 0; h < nHist; h++ {
		// every history starts from sessions without a transaction, whatever the previous history did to them (on the unchanged
		// tree these two statements change nothing: the epilogue of a history ends what it opened) — a history that leaves a
		// session in a wrong state is reported for what it observed itself and does not cascade into the later ones
		for _, s := range ss {
			for _, q := range []string{"ROLLBACK", "SET autocommit = 1"} {
				e.Query(s.ctx, q)
			}
		}
		// reset data (the tables, the view, the procedure and the sessions' prepared statements persist)
		for _, q := range []string{"DELETE FROM t", "DELETE FROM u"} {
			if !setupExec(out, e, s1.ctx, "session1", q) {
				return nil
			}
		}
		rows := genRows(r)
		if len(rows) > 0 {
			var vs []string
			for _, rw := range rows {
				vs = append(vs, "("+rw[0].lit()+","+rw[1].lit()+","+rw[2].lit()+")")
			}
			if !setupExec(out, e, s2.ctx, "session2", "INSERT INTO t VALUES "+strings.Join(vs, ",")) {
				return nil
			}
		}
		for i, n := 0, r.Intn(5); i < n; i++ {
			if !setupExec(out, e, s2.ctx, "session2", fmt.Sprintf("INSERT INTO u VALUES (%d, %s)", i+1, (&gen{r: r}).intVal().lit())) {
				return nil
			}
		}
		nSteps := 6 + r.Intn(9)
		// the full dump and a simple filter are always candidates for a re-run: their result changes with most writes
		full := &stmt{kind: "select", proj: []*pexpr{{op: "col", col: 1}, {op: "col", col: 2}}, w: &pexpr{op: "a", at: atom{param: -1, v: vint(1)}}}
		histQueries := []*stmt{
			full,
			{kind: "select", proj: []*pexpr{{op: "col", col: 1}}, w: &pexpr{op: "not", args: []*pexpr{{op: "isnull", args: []*pexpr{{op: "col", col: 1}}}}}},
		}
		hr := &histRun{out: out, e: e, ss: ss, r: r, seen: map[string]string{}}
		var plan []planned
		if c := corpusHistories(full); h < len(c) { // corpus first: the witness history of Gms.C11.finding_shape_stale_if_commit_keeps_txn and its variants
			plan = c[h]
			nSteps = len(plan)
		}
		for i := 0; i < nSteps; i++ {
			var p planned
			if len(plan) > 0 {
				p, plan = plan[0], plan[1:]
			} else {
				p = hr.choose(histQueries, &queries)
			}
			if p.tx != "" {
				hr.txStep(p.sess, p.tx, p.variant)
				continue
			}
			st := p.st
			isWrite := hr.stmtStep(i, p.sess, st)
			if !isWrite {
				histQueries = append(histQueries, st)
				continue
			}
			if !hr.bothIdle() {
				continue
			}
			// a write outside transactions: also touch u now and then, then compare the cache-prone shapes with a fresh engine
			other := ss[1-p.sess]
			if r.Chance(1, 2) {
				q := fmt.Sprintf("INSERT INTO u VALUES (%d, %s)", 100+h*20+i, (&gen{r: r}).intVal().lit())
				if r.Chance(1, 3) {
					q = fmt.Sprintf("DELETE FROM u WHERE k = %d", r.Intn(6))
				}
				e.Query(other.ctx, q)
			}
			if i%3 == 0 || a.Thorough {
				fe := eng.New("d")
				fctx := fe.Ctx()
				setupSchema(fe, fctx)
				if d := dump(e, s1.ctx, "t"); len(d) > 0 {
					fe.MustExec(fctx, "INSERT INTO t VALUES "+strings.Join(d, ","))
				}
				if d := dump(e, s1.ctx, "u"); len(d) > 0 {
					fe.MustExec(fctx, "INSERT INTO u VALUES "+strings.Join(d, ","))
				}
				for _, q := range shapes {
					want := fromEng(fe.Query(fctx, q)).obs()
					for name, sc := range map[string]*sql.Context{"session1": s1.ctx, "session2": s2.ctx, "session1-rerun": s1.ctx} {
						if got := fromEng(e.Query(sc, q)).obs(); got != want {
							hr.fails = append(hr.fails, fmt.Sprintf("step %d shape %q (%s): live=%s | fresh engine on the current data=%s", i, q, name, got, want))
						}
					}
					out.Stat("shape-checks")
				}
			}
		}
		hr.epilogue(full)
		var rs []string
		for _, rw := range rows {
			rs = append(rs, fmt.Sprintf("(row %s %s %s)", rw[0].sexp(), rw[1].sexp(), rw[2].sexp()))
		}
		id := out.Case(fmt.Sprintf("(hist (tbl %s) (steps %s))", strings.Join(rs, " "), strings.Join(hr.sx, " ")), strings.Join(hr.obs, " ; "), hr.nontrivial)
		out.Stat("hist")
		for _, f := range hr.fails {
			out.OracleFail(id, "-", f)
		}
	}
	runTriggers(a, out, r.Fork())
	return nil
}

// genStmtLit: a statement without placeholders (every atom is a literal)
func genStmtLit(r *hx.Rand) (*stmt, []string) {
	for {
		st, tys := genStmt(r)
		if len(tys) == 0 {
			return st, tys
		}
		// replace placeholders by literals of the right type
		sigma := genSigma(r, tys)
		return inlineStmt(st, sigma), nil
	}
}

func inlineAtom(a atom, sigma []value) atom {
	if a.param >= 0 {
		return atom{param: -1, v: sigma[a.param]}
	}
	return a
}

func inlineExpr(e *pexpr, sigma []value) *pexpr {
	if e == nil {
		return nil
	}
	out := &pexpr{op: e.op, sub: e.sub, col: e.col, at: inlineAtom(e.at, sigma)}
	for _, x := range e.args {
		out.args = append(out.args, inlineExpr(x, sigma))
	}
	for _, it := range e.items {
		out.items = append(out.items, inlineAtom(it, sigma))
	}
	return out
}

func inlineStmt(s *stmt, sigma []value) *stmt {
	out := &stmt{kind: s.kind, col: s.col, w: inlineExpr(s.w, sigma), e: inlineExpr(s.e, sigma)}
	for _, p := range s.proj {
		out.proj = append(out.proj, inlineExpr(p, sigma))
	}
	if s.lim != nil {
		a := inlineAtom(*s.lim, sigma)
		out.lim = &a
	}
	for _, v := range s.vals {
		out.vals = append(out.vals, inlineAtom(v, sigma))
	}
	return out
}

var _ = strconv.Itoa

func genRows(r *hx.Rand) [][3]value {
	n := r.Intn(7)
	var rows [][3]value
	id := int64(0)
	g := &gen{r: r}
	for i := 0; i < n; i++ {
		id += 1 + int64(r.Intn(3))
		rows = append(rows, [3]value{vint(id), g.intVal(), g.strVal()})
	}
	return rows
}

