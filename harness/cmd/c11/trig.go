// Multi-row statements firing a trigger whose body has subqueries over a table the body itself writes
// (Gms/Model/TrigCache.lean). One fresh engine per case.
//
// Envelope (why): the body reads only the keyless side table `log`; a subquery over the statement's target table does not
// see the rows the statement has already written on the unchanged tree (in-statement visibility for triggers, C23's
// subject), and a subquery inside the VALUES of the body's INSERT fails with "unable to find field" (see props/C11.json).
package main

import (
	"fmt"
	"sort"
	"strconv"
	"strings"

	"github.com/dolthub/go-mysql-server/verifharness/hx"
	"github.com/dolthub/go-mysql-server/verifharness/hx/eng"
)

type operand struct {
	kind string // c newid newk
	c    int64
}

func (o operand) sexp() string {
	if o.kind == "c" {
		return fmt.Sprintf("(c %d)", o.c)
	}
	return o.kind
}
func (o operand) sql() string {
	switch o.kind {
	case "newid":
		return "new.id"
	case "newk":
		return "new.k"
	}
	return strconv.FormatInt(o.c, 10)
}
func (o operand) correlated() bool { return o.kind != "c" }

type subq struct {
	agg   string // count max sum
	below *operand
}

func (q subq) sexp() string {
	b := "none"
	if q.below != nil {
		b = q.below.sexp()
	}
	return fmt.Sprintf("(sq %s %s)", q.agg, b)
}
func (q subq) sql() string {
	a := map[string]string{"count": "COUNT(*)", "max": "MAX(x)", "sum": "SUM(x)"}[q.agg]
	s := "(SELECT COALESCE(" + a + ", 0) FROM log"
	if q.below != nil {
		s += " WHERE x < " + q.below.sql()
	}
	return s + ")"
}
func (q subq) correlated() bool { return q.below != nil && q.below.correlated() }

type test struct {
	kind string // inlog subgt exists
	o    operand
	q    subq
	c    int64
}

func (t test) sexp() string {
	switch t.kind {
	case "inlog":
		return "(inlog " + t.o.sexp() + ")"
	case "subgt":
		return fmt.Sprintf("(subgt %s %d)", t.q.sexp(), t.c)
	}
	return "(exists " + t.o.sexp() + ")"
}
func (t test) sql() string {
	switch t.kind {
	case "inlog":
		return t.o.sql() + " IN (SELECT x FROM log)"
	case "subgt":
		return fmt.Sprintf("%s > %d", t.q.sql(), t.c)
	}
	return "EXISTS (SELECT 1 FROM log WHERE x = " + t.o.sql() + ")"
}

// does the test have an uncorrelated subquery that the engine may cache (EXISTS never fills the cell)
func (t test) uncorrelatedCached() bool {
	switch t.kind {
	case "inlog":
		return true
	case "subgt":
		return !t.q.correlated()
	}
	return false
}

type body struct {
	setK *subq
	mark *test
	logs operand
}

func (b body) sexp() string {
	sk, mk := "none", "none"
	if b.setK != nil {
		sk = b.setK.sexp()
	}
	if b.mark != nil {
		mk = b.mark.sexp()
	}
	return fmt.Sprintf("(body %s %s %s)", sk, mk, b.logs.sexp())
}
func (b body) sql() string {
	s := "BEGIN "
	if b.setK != nil {
		s += "SET new.k = " + b.setK.sql() + "; "
	}
	if b.mark != nil {
		s += "IF " + b.mark.sql() + " THEN SET new.s = 'seen'; END IF; "
	}
	return s + "INSERT INTO log VALUES (" + b.logs.sql() + "); END"
}

type trigCase struct {
	kind string // insert-values insert-select update
	log  []int64
	b    body
	rows [][2]int64 // id, k — ascending id
}

func (c trigCase) payload() string {
	ls := make([]string, len(c.log))
	for i, x := range c.log {
		ls[i] = strconv.FormatInt(x, 10)
	}
	rs := make([]string, len(c.rows))
	for i, r := range c.rows {
		rs[i] = fmt.Sprintf("(r %d %d)", r[0], r[1])
	}
	return fmt.Sprintf("(trig %s (log %s) %s (rows %s))", c.kind, strings.Join(ls, " "), c.b.sexp(), strings.Join(rs, " "))
}

func genOperand(r *hx.Rand) operand {
	switch r.Intn(4) {
	case 0:
		return operand{kind: "newid"}
	case 1:
		return operand{kind: "newk"}
	}
	return operand{kind: "c", c: int64(r.Intn(9))}
}

func genSubq(r *hx.Rand) subq {
	q := subq{agg: hx.Pick(r, []string{"count", "max", "sum", "max"})}
	if r.Chance(1, 3) {
		o := genOperand(r)
		q.below = &o
	}
	return q
}

func genTrigCase(r *hx.Rand) trigCase {
	c := trigCase{kind: hx.Pick(r, []string{"insert-values", "insert-values", "insert-select", "update"})}
	for i, n := 0, r.Intn(4); i < n; i++ {
		c.log = append(c.log, int64(r.Intn(9)))
	}
	if r.Chance(3, 4) {
		q := genSubq(r)
		c.b.setK = &q
	}
	if c.b.setK == nil || r.Chance(1, 2) {
		t := test{kind: hx.Pick(r, []string{"inlog", "inlog", "subgt", "exists"}), o: genOperand(r), q: genSubq(r), c: int64(r.Intn(8))}
		c.b.mark = &t
	}
	c.b.logs = genOperand(r)
	if c.b.logs.kind == "c" && r.Bool() {
		c.b.logs = operand{kind: hx.Pick(r, []string{"newid", "newk"})}
	}
	id := int64(0)
	for i, n := 0, 1+r.Intn(5); i < n; i++ {
		id += 1 + int64(r.Intn(3))
		c.rows = append(c.rows, [2]int64{id, int64(r.Intn(9))})
	}
	return c
}

func (c trigCase) run() string {
	e := eng.New("d")
	ctx := e.Ctx()
	must := func(qs ...string) string {
		for _, q := range qs {
			if r := e.Query(ctx, q); r.Class() != "ok" {
				return fmt.Sprintf("%s: %q", r.Class(), q)
			}
		}
		return ""
	}
	if m := must("CREATE TABLE t (id INT PRIMARY KEY, k INT, s VARCHAR(20))", "CREATE TABLE log (x INT)"); m != "" {
		return "setup-failed " + m
	}
	if len(c.log) > 0 {
		vs := make([]string, len(c.log))
		for i, x := range c.log {
			vs[i] = fmt.Sprintf("(%d)", x)
		}
		if m := must("INSERT INTO log VALUES " + strings.Join(vs, ",")); m != "" {
			return "setup-failed " + m
		}
	}
	vals := make([]string, len(c.rows))
	for i, r := range c.rows {
		vals[i] = fmt.Sprintf("(%d,%d,'n')", r[0], r[1])
	}
	ev := "INSERT"
	var stmtText string
	switch c.kind {
	case "insert-values":
		stmtText = "INSERT INTO t VALUES " + strings.Join(vals, ",")
	case "insert-select":
		if m := must("CREATE TABLE src (id INT PRIMARY KEY, k INT, s VARCHAR(20))", "INSERT INTO src VALUES "+strings.Join(vals, ",")); m != "" {
			return "setup-failed " + m
		}
		stmtText = "INSERT INTO t SELECT id, k, s FROM src ORDER BY id"
	case "update":
		if m := must("INSERT INTO t VALUES " + strings.Join(vals, ",")); m != "" {
			return "setup-failed " + m
		}
		ev = "UPDATE"
		stmtText = "UPDATE t SET s = 'u' WHERE id >= 0"
	}
	if m := must("CREATE TRIGGER tr BEFORE " + ev + " ON t FOR EACH ROW " + c.b.sql()); m != "" {
		return "trigger-failed " + m
	}
	if r := e.Query(ctx, stmtText); r.Class() != "ok" {
		return "stmt-" + r.Class()
	}
	tr := e.Query(ctx, "SELECT id, k, COALESCE(s = 'seen', 0) FROM t ORDER BY id")
	lr := e.Query(ctx, "SELECT x FROM log")
	if tr.Class() != "ok" || lr.Class() != "ok" {
		return "read-" + tr.Class() + "-" + lr.Class()
	}
	var ts []string
	for _, row := range tr.Rows {
		ts = append(ts, "("+strings.Join(row, " ")+")")
	}
	var xs []int
	for _, row := range lr.Rows {
		x, _ := strconv.Atoi(row[0])
		xs = append(xs, x)
	}
	sort.Ints(xs)
	ls := make([]string, len(xs))
	for i, x := range xs {
		ls[i] = strconv.Itoa(x)
	}
	return "t: " + strings.Join(ts, " ") + " | log: " + strings.Join(ls, " ")
}

func runTriggers(a hx.RunArgs, out *hx.Out, r *hx.Rand) {
	n := 40
	if a.Thorough {
		n = 500
	}
	// corpus first: the witness of Gms.C11.finding_shape_trigger_cache_unmarked (each kind of statement), an IN subquery
	corpus := []trigCase{}
	for _, k := range []string{"insert-values", "insert-select", "update"} {
		corpus = append(corpus,
			trigCase{kind: k, log: []int64{1, 2}, b: body{setK: &subq{agg: "max"}, logs: operand{kind: "newid"}}, rows: [][2]int64{{3, -1}, {4, -1}, {5, -1}}},
			trigCase{kind: k, log: nil, b: body{mark: &test{kind: "inlog", o: operand{kind: "newk"}}, logs: operand{kind: "newk"}}, rows: [][2]int64{{1, 7}, {2, 7}, {3, 8}, {4, 8}}})
	}
	for i := 0; i < n; i++ {
		var c trigCase
		if i < len(corpus) {
			c = corpus[i]
		} else {
			c = genTrigCase(r)
		}
		unc := (c.b.setK != nil && !c.b.setK.correlated()) || (c.b.mark != nil && c.b.mark.uncorrelatedCached())
		out.Case(c.payload(), c.run(), len(c.rows) >= 2 && unc)
		out.Stat("trig." + c.kind)
		if unc {
			out.Stat("trig.uncorrelated-subquery")
		}
		if len(c.rows) >= 2 {
			out.Stat("trig.multi-row")
		}
	}
}
