// Facts for the two scopes added to C11 after the seeded changes C11-1 / C11-2:
//   - the transaction marks of a session and the session's working copy of the data (Gms/Model/TxSnapshot.lean):
//     which early returns stand in front of the calls that end / start a transaction, which calls are made, which methods
//     of memory.Session fill or reset `tables`;
//   - the "do not cache" mark of the subqueries of a trigger body (Gms/Model/TrigCache.lean): where the plan builder sets it,
//     that the With* rebuilders of plan.Subquery copy the node, and — dumped by running the freshly compiled analyzer — the
//     `cacheable` flag of every subquery of a few analyzed probe statements.
package main

import (
	"fmt"
	"go/ast"
	"regexp"
	"sort"
	"strings"

	"github.com/dolthub/go-mysql-server/sql"
	"github.com/dolthub/go-mysql-server/verifharness/hx"
	"github.com/dolthub/go-mysql-server/verifharness/hx/eng"
)

func containsCall(src *hx.Src, n ast.Node, callee string) bool {
	hit := false
	ast.Inspect(n, func(m ast.Node) bool {
		if ce, ok := m.(*ast.CallExpr); ok && src.Text(ce.Fun) == callee {
			hit = true
		}
		return !hit
	})
	return hit
}

func returnsDirectly(b *ast.BlockStmt) bool {
	for _, st := range b.List {
		if _, ok := st.(*ast.ReturnStmt); ok {
			return true
		}
	}
	return false
}

// guardsBefore lists, in order, the conditions of the early returns (`if c { …; return … }` at the top level of the
// function body) in front of the first statement that calls `callee`; when that call sits inside the body of an `if`,
// the enclosing conditions follow as "nested:<cond>".
func guardsBefore(src *hx.Src, fd *ast.FuncDecl, callee string) ([]string, error) {
	out := []string{}
	for _, st := range fd.Body.List {
		if containsCall(src, st, callee) {
			if ifs, ok := st.(*ast.IfStmt); ok {
				inHead := (ifs.Init != nil && containsCall(src, ifs.Init, callee)) || containsCall(src, ifs.Cond, callee)
				if !inHead {
					for _, c := range enclosingConds(src, fd, callee) {
						out = append(out, "nested:"+c)
					}
				}
			}
			return out, nil
		}
		if ifs, ok := st.(*ast.IfStmt); ok && returnsDirectly(ifs.Body) {
			out = append(out, src.Text(ifs.Cond))
		}
	}
	return nil, fmt.Errorf("%s: no call of %s", fd.Name.Name, callee)
}

// callsMatching lists, in source order, the text of every call whose function text matches one of the prefixes.
func callsMatching(src *hx.Src, fd *ast.FuncDecl, prefixes ...string) []string {
	out := []string{}
	ast.Inspect(fd.Body, func(n ast.Node) bool {
		if ce, ok := n.(*ast.CallExpr); ok {
			f := src.Text(ce.Fun)
			for _, p := range prefixes {
				if strings.HasPrefix(f, p) {
					out = append(out, src.Text(ce))
					break
				}
			}
		}
		return true
	})
	return out
}

func txFacts(a hx.ExtractArgs, lf *hx.LeanFile) error {
	tr, err := hx.ParseSrc(a.Repo, "sql/rowexec/transaction.go")
	if err != nil {
		return err
	}
	for _, x := range []struct{ fn, name, anchor string }{
		{"buildCommit", "commit", "ctx.SetTransaction"},
		{"buildRollback", "rollback", "ctx.SetTransaction"},
		{"buildStartTransaction", "startTransaction", "ctx.SetTransaction"},
	} {
		fd, err := tr.Func("BaseBuilder", x.fn)
		if err != nil {
			return err
		}
		g, err := guardsBefore(tr, fd, x.anchor)
		if err != nil {
			return err
		}
		lf.DefStringList(x.name+"ReturnsEarlyWhen", g)
		lf.DefStringList(x.name+"Calls", callsMatching(tr, fd, "ts.", "ctx.Set"))
	}
	st, _ := tr.Func("BaseBuilder", "buildStartTransaction")
	lf.DefStringList("startTransactionCommitsPendingWhen", enclosingConds(tr, st, "ts.CommitTransaction"))

	en, err := hx.ParseSrc(a.Repo, "engine.go")
	if err != nil {
		return err
	}
	bt, err := en.Func("Engine", "beginTransaction")
	if err != nil {
		return err
	}
	g, err := guardsBefore(en, bt, "ts.StartTransaction")
	if err != nil {
		return err
	}
	lf.DefStringList("beginTransactionSkipsWhen", g)
	lf.DefStringList("beginTransactionCalls", callsMatching(en, bt, "ts.", "ctx.Set"))
	// every way of executing a statement begins a transaction first
	var begins []string
	for _, fn := range []string{"QueryWithBindings", "PrepQueryPlanForExecution", "PrepareParsedQuery"} {
		fd, err := en.Func("Engine", fn)
		if err != nil {
			return err
		}
		if calls(en, fd, "e.beginTransaction") {
			begins = append(begins, fn)
		}
	}
	lf.DefStringList("beginTransactionCalledBy", begins)

	ti, err := hx.ParseSrc(a.Repo, "sql/rowexec/transaction_iters.go")
	if err != nil {
		return err
	}
	cl, err := ti.Func("TransactionCommittingIter", "Close")
	if err != nil {
		return err
	}
	g, err = guardsBefore(ti, cl, "ts.CommitTransaction")
	if err != nil {
		return err
	}
	lf.DefStringList("closeSkipsCommitWhen", g)
	lf.DefStringList("closeCalls", callsMatching(ti, cl, "ts.", "ctx.Set"))

	ms, err := hx.ParseSrc(a.Repo, "memory/session.go")
	if err != nil {
		return err
	}
	var fills, resets []string
	for _, d := range ms.File.Decls {
		fd, ok := d.(*ast.FuncDecl)
		if !ok || fd.Recv == nil || fd.Body == nil || len(fd.Recv.List) != 1 || hx.RecvName(fd.Recv.List[0].Type) != "Session" {
			continue
		}
		recv := "s"
		if len(fd.Recv.List[0].Names) == 1 {
			recv = fd.Recv.List[0].Names[0].Name
		}
		fill, reset := false, false
		ast.Inspect(fd.Body, func(n ast.Node) bool {
			if as, ok := n.(*ast.AssignStmt); ok {
				for _, l := range as.Lhs {
					switch t := ms.Text(l); {
					case t == recv+".tables":
						reset = true
					case strings.HasPrefix(t, recv+".tables["):
						fill = true
					}
				}
			}
			return true
		})
		if fill {
			fills = append(fills, fd.Name.Name)
		}
		if reset {
			resets = append(resets, fd.Name.Name)
		}
	}
	sort.Strings(fills)
	sort.Strings(resets)
	lf.DefStringList("sessionTablesFilledBy", fills)
	lf.DefStringList("sessionTablesResetBy", resets)
	td, err := ms.Func("Session", "tableData")
	if err != nil {
		return err
	}
	// `td, ok := s.tables[key]; if !ok { s.tables[key] = t.data; return t.data }; return td`
	var conds []string
	for _, st := range td.Body.List {
		if ifs, ok := st.(*ast.IfStmt); ok && returnsDirectly(ifs.Body) {
			conds = append(conds, ms.Text(ifs.Cond))
		}
	}
	lf.DefStringList("tableDataReadsDatabaseWhen", conds)
	return nil
}

var cacheableRe = regexp.MustCompile(`cacheable: (true|false)`)

// probe statements whose analyzed plan is dumped: name, setup, statement
var cacheProbes = []struct {
	name  string
	setup []string
	stmt  string
}{
	{"select-uncorrelated", nil, "SELECT id, (SELECT MAX(x) FROM log) FROM t WHERE k NOT IN (SELECT x FROM log)"},
	{"select-correlated", nil, "SELECT id, (SELECT MAX(x) FROM log WHERE x < t.k) FROM t"},
	{"trigger-insert", []string{"CREATE TRIGGER tr BEFORE INSERT ON t FOR EACH ROW BEGIN SET new.k = (SELECT COALESCE(MAX(x), 0) FROM log); " +
		"IF new.k IN (SELECT x FROM log) THEN SET new.s = 'seen'; END IF; INSERT INTO log VALUES (new.id); END"},
		"INSERT INTO t VALUES (1, 1, 'a'), (2, 2, 'b')"},
	{"trigger-insert-select", []string{"CREATE TRIGGER tr BEFORE INSERT ON t FOR EACH ROW BEGIN SET new.k = (SELECT COUNT(*) FROM log); " +
		"IF (SELECT COALESCE(SUM(x), 0) FROM log) > 3 THEN SET new.s = 'seen'; END IF; INSERT INTO log VALUES (new.id); END"},
		"INSERT INTO t SELECT id + 10, k, s FROM t ORDER BY id"},
	{"trigger-update", []string{"CREATE TRIGGER tr BEFORE UPDATE ON t FOR EACH ROW BEGIN SET new.k = (SELECT COALESCE(MAX(x), 0) FROM log); " +
		"IF new.k IN (SELECT x FROM log) THEN SET new.s = 'seen'; END IF; INSERT INTO log VALUES (new.id); END"},
		"UPDATE t SET s = 'u' WHERE id >= 0"},
}

func subqueryFacts(a hx.ExtractArgs, lf *hx.LeanFile) error {
	sc, err := hx.ParseSrc(a.Repo, "sql/planbuilder/scalar.go")
	if err != nil {
		return err
	}
	marked := false
	ast.Inspect(sc.File, func(n ast.Node) bool {
		if ifs, ok := n.(*ast.IfStmt); ok && sc.Text(ifs.Cond) == "b.TriggerCtx().Active" {
			ast.Inspect(ifs.Body, func(m ast.Node) bool {
				if ce, ok := m.(*ast.CallExpr); ok && strings.HasSuffix(sc.Text(ce.Fun), ".WithVolatile") {
					marked = true
				}
				return true
			})
		}
		return true
	})
	lf.DefBool("triggerBodySubqueriesMarkedVolatile", marked)
	sq, err := hx.ParseSrc(a.Repo, "sql/plan/subquery.go")
	if err != nil {
		return err
	}
	// the With* rebuilders of plan.Subquery: does the result start as a copy of the receiver (so that every mark survives)?
	var rebuild []string
	for _, d := range sq.File.Decls {
		fd, ok := d.(*ast.FuncDecl)
		if !ok || fd.Recv == nil || fd.Body == nil || len(fd.Recv.List) != 1 || hx.RecvName(fd.Recv.List[0].Type) != "Subquery" ||
			!strings.HasPrefix(fd.Name.Name, "With") || len(fd.Recv.List[0].Names) != 1 {
			continue
		}
		recv := fd.Recv.List[0].Names[0].Name
		kind := "other"
		ast.Inspect(fd.Body, func(n ast.Node) bool {
			switch x := n.(type) {
			case *ast.AssignStmt:
				if len(x.Rhs) == 1 && sq.Text(x.Rhs[0]) == "*"+recv && kind == "other" {
					kind = "copy"
				}
			case *ast.ReturnStmt:
				if len(x.Results) >= 1 && sq.Text(x.Results[0]) == recv && kind == "other" {
					kind = "self"
				}
			case *ast.CallExpr:
				if sq.Text(x.Fun) == "NewSubquery" {
					kind = "rebuild"
				}
			}
			return true
		})
		rebuild = append(rebuild, fd.Name.Name+":"+kind)
	}
	sort.Strings(rebuild)
	lf.DefStringList("subqueryWithMethods", rebuild)

	// dynamic: analyze the probes with the code under test and read the flag off every subquery of the plan
	var b strings.Builder
	b.WriteString("def subqueryCacheFlags : List (String × List Bool) := [")
	for i, p := range cacheProbes {
		e := eng.New("d")
		ctx := e.Ctx()
		e.MustExec(ctx, "CREATE TABLE t (id INT PRIMARY KEY, k INT, s VARCHAR(20))", "CREATE TABLE log (x INT)",
			"INSERT INTO t VALUES (5, 1, 'p'), (6, 2, 'q')", "INSERT INTO log VALUES (1)")
		e.MustExec(ctx, p.setup...)
		var flags []string
		var aerr error
		if msg := hx.Safe(func() {
			var n sql.Node
			n, aerr = e.E.AnalyzeQuery(ctx, p.stmt)
			if aerr == nil {
				for _, m := range cacheableRe.FindAllStringSubmatch(sql.DebugString(ctx, n), -1) {
					flags = append(flags, m[1])
				}
			}
		}); msg != "" {
			return fmt.Errorf("probe %s: analyzer panicked: %s", p.name, msg)
		}
		if aerr != nil {
			return fmt.Errorf("probe %s: %v", p.name, aerr)
		}
		if i > 0 {
			b.WriteString(", ")
		}
		fmt.Fprintf(&b, "(%s, [%s])", hx.LeanString(p.name), strings.Join(flags, ", "))
	}
	b.WriteString("]\n")
	lf.Raw(b.String())
	return nil
}
