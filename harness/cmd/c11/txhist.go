// Histories with transaction control (Gms/Model/TxSnapshot.lean).
//
// Envelope (why): on the in-memory backend a commit writes the session's whole working copy of a table back, so a write
// committed by the other session between a transaction's first read and its end is lost, and a write inside a READ ONLY
// transaction panics — both are defects of the unchanged tree that belong to transaction isolation (C17), not to C11.
// The generator therefore keeps at most one session with a transaction open, lets the other session only read (in
// autocommit mode) meanwhile, and issues no write inside a READ ONLY transaction. What C11 needs is covered: every way a
// transaction ends (COMMIT / ROLLBACK / a new START TRANSACTION / SET autocommit = 1, after READ ONLY, READ WRITE and
// implicit transactions, with and without reads and writes inside), followed by writes of the other session and reads
// of the first.
package main

import (
	"fmt"
	"strings"

	"github.com/dolthub/go-mysql-server/verifharness/hx"
	"github.com/dolthub/go-mysql-server/verifharness/hx/eng"
)

// mirror of Gms.TxSnapshot.SSess, kept by the generator to stay inside the envelope
type txState struct {
	open, explicit, readOnly, ac0 bool
	endedTx                       bool // a transaction of this session has ended in this history
}

func (s txState) idleAC() bool { return !s.open && !s.ac0 }

type planned struct {
	sess    int
	st      *stmt
	tx      string // begin commit rollback ac0 ac1
	variant string // SQL text of a tx step
}

type histRun struct {
	out        *hx.Out
	e          *eng.Eng
	ss         [2]*session
	r          *hx.Rand
	st         [2]txState
	sx, obs    []string
	fails      []string
	seen       map[string]string
	nontrivial bool
	foreignW   [2]bool // the other session wrote after a transaction of this session ended
}

func (h *histRun) bothIdle() bool { return h.st[0].idleAC() && h.st[1].idleAC() }

var beginVariants = []string{"START TRANSACTION", "START TRANSACTION READ ONLY", "START TRANSACTION READ WRITE", "BEGIN", "START TRANSACTION READ ONLY"}

func (h *histRun) txStep(si int, op, variant string) {
	s := &h.st[si]
	if variant == "" {
		switch op {
		case "begin":
			variant = hx.Pick(h.r, beginVariants)
		case "commit":
			variant = "COMMIT"
		case "rollback":
			variant = "ROLLBACK"
		case "ac0":
			variant = hx.Pick(h.r, []string{"SET autocommit = 0", "SET @@autocommit = OFF", "SET SESSION autocommit = 0"})
		case "ac1":
			variant = hx.Pick(h.r, []string{"SET autocommit = 1", "SET @@autocommit = ON"})
		}
	}
	r := h.e.Query(h.ss[si].ctx, variant)
	o := "tx-ok"
	if c := r.Class(); c != "ok" {
		o = c
	}
	h.sx = append(h.sx, fmt.Sprintf("(tx %d %s %s)", si, op, strings.ReplaceAll(variant, " ", "_")))
	h.obs = append(h.obs, o)
	h.out.Stat("step.tx." + op)
	wasOpen := s.open
	switch op {
	case "begin":
		s.open, s.explicit, s.readOnly = true, true, variant == "START TRANSACTION READ ONLY"
		if s.readOnly {
			h.out.Stat("tx.read-only")
		}
	case "commit", "rollback":
		s.open, s.explicit, s.readOnly = false, false, false
	case "ac0":
		s.ac0 = true
		if !s.open {
			s.open, s.explicit, s.readOnly = true, false, false
		}
	case "ac1":
		s.ac0 = false
		if s.open && !s.explicit {
			s.open = false
		}
	}
	if wasOpen && (!s.open || op == "begin") {
		s.endedTx = true
		h.out.Stat("tx.ended-by-" + op)
	}
}

// stmtStep runs a statement of the fragment in session si (and, for a SELECT, its re-runs); reports whether it was a write.
func (h *histRun) stmtStep(i, si int, st *stmt) bool {
	sess, other := h.ss[si], h.ss[1-si]
	s := &h.st[si]
	text := st.text(mode{})
	o := fromEng(h.e.Query(sess.ctx, text)).obs()
	h.sx = append(h.sx, fmt.Sprintf("(s %d %s)", si, st.sexp()))
	h.obs = append(h.obs, o)
	h.out.Stat("step." + st.kind)
	if s.ac0 && !s.open {
		s.open, s.explicit, s.readOnly = true, false, false
	}
	if s.open {
		h.out.Stat("step-in-transaction." + st.kind)
	}
	if st.kind != "select" {
		if h.st[1-si].endedTx {
			h.foreignW[1-si] = true
		}
		return true
	}
	if h.foreignW[si] && !s.open {
		h.nontrivial = true // a read after an own transaction ended and the other session wrote
		h.out.Stat("read-after-own-tx-and-foreign-write")
	}
	if prev, ok := h.seen[text]; ok && prev != o {
		h.nontrivial = true
	}
	h.seen[text] = o
	// the same query again: same session, prepared; and, when no transaction is open anywhere, the other session too —
	// all must show the same rows
	again := map[string]string{
		"rerun":          fromEng(h.e.Query(sess.ctx, text)).obs(),
		"prepared":       sess.prepared(h.e, text).obs(),
		"prepared-rerun": sess.prepared(h.e, text).obs(),
	}
	if h.bothIdle() {
		again["other-session"] = fromEng(h.e.Query(other.ctx, text)).obs()
		again["prepared-other"] = other.prepared(h.e, text).obs()
	}
	for name, o2 := range again {
		if o2 != o {
			h.fails = append(h.fails, fmt.Sprintf("step %d %q: first=%s | %s=%s", i, text, o, name, o2))
		}
	}
	return false
}

// choose picks the next step inside the envelope.
func (h *histRun) choose(histQueries []*stmt, pool *[]*stmt) planned {
	r := h.r
	si := r.Intn(2)
	if h.st[1-si].open && !h.st[si].idleAC() {
		si = 1 - si // only the session with the open transaction may act
	}
	s, o := h.st[si], h.st[1-si]
	query := func() *stmt {
		if len(histQueries) > 0 && r.Chance(1, 2) {
			return hx.Pick(r, histQueries) // re-run a query of this history (after the writes in between)
		}
		if len(*pool) > 0 && r.Chance(1, 2) {
			return hx.Pick(r, *pool)
		}
		for {
			st, _ := genStmtLit(r)
			if st.kind == "select" {
				if len(*pool) < 300 {
					*pool = append(*pool, st)
				}
				return st
			}
		}
	}
	write := func() *stmt {
		for {
			st, _ := genStmtLit(r)
			if st.kind != "select" {
				return st
			}
		}
	}
	if o.open { // the other session has a transaction open: read only (this session is idle and in autocommit mode)
		return planned{sess: si, st: query()}
	}
	switch {
	case s.open:
		if r.Chance(1, 3) {
			switch c := r.Intn(10); {
			case c < 5:
				return planned{sess: si, tx: "commit"}
			case c < 8:
				return planned{sess: si, tx: "rollback"}
			case c < 9 || s.explicit:
				return planned{sess: si, tx: "begin"}
			default:
				return planned{sess: si, tx: "ac1"}
			}
		}
	case s.ac0:
		if r.Chance(1, 4) {
			return planned{sess: si, tx: hx.Pick(r, []string{"ac1", "ac1", "begin", "commit", "rollback"})}
		}
	default:
		if r.Chance(1, 4) {
			return planned{sess: si, tx: hx.Pick(r, []string{"begin", "begin", "begin", "begin", "begin", "begin", "ac0", "ac0", "commit", "rollback"})}
		}
	}
	if s.readOnly || r.Chance(1, 2) {
		return planned{sess: si, st: query()}
	}
	return planned{sess: si, st: write()}
}

// epilogue: end what is open, then a write from each session and a full read from each session.
func (h *histRun) epilogue(full *stmt) {
	for si := 0; si < 2; si++ {
		if h.st[si].open {
			op := "commit"
			if h.r.Chance(1, 3) {
				op = "rollback"
			}
			if !h.st[si].explicit && h.r.Chance(1, 3) {
				op = "ac1"
			}
			h.txStep(si, op, "")
		}
	}
	for si := 0; si < 2; si++ {
		if h.st[si].ac0 {
			h.txStep(si, "ac1", "")
		}
	}
	n := len(h.sx)
	for si := 1; si >= 0; si-- {
		ins := &stmt{kind: "insert", vals: []atom{{param: -1, v: vint(int64(30 + si))}, {param: -1, v: vint(int64(n))}, {param: -1, v: vstr("epi")}}}
		h.stmtStep(n, si, ins)
	}
	for si := 0; si < 2; si++ {
		h.stmtStep(n+1, si, full)
	}
}

// corpusHistories: START TRANSACTION READ ONLY; read; COMMIT in one session, a write in the other, a read in the first —
// then the same with ROLLBACK, with a read-write transaction that writes, and with autocommit = 0.
func corpusHistories(full *stmt) [][]planned {
	ins := func(id int64) *stmt {
		return &stmt{kind: "insert", vals: []atom{{param: -1, v: vint(id)}, {param: -1, v: vint(id)}, {param: -1, v: vstr("c")}}}
	}
	return [][]planned{
		{{sess: 0, tx: "begin", variant: "START TRANSACTION READ ONLY"}, {sess: 0, st: full}, {sess: 0, tx: "commit"},
			{sess: 1, st: ins(20)}, {sess: 0, st: full}},
		{{sess: 1, tx: "begin", variant: "START TRANSACTION READ ONLY"}, {sess: 1, st: full}, {sess: 1, tx: "rollback"},
			{sess: 0, st: ins(21)}, {sess: 1, st: full}},
		{{sess: 0, tx: "begin", variant: "BEGIN"}, {sess: 0, st: ins(22)}, {sess: 1, st: full}, {sess: 0, st: full}, {sess: 0, tx: "commit"},
			{sess: 1, st: ins(23)}, {sess: 0, st: full}},
		{{sess: 1, tx: "ac0"}, {sess: 1, st: full}, {sess: 1, st: ins(24)}, {sess: 1, tx: "commit"},
			{sess: 0, st: ins(25)}, {sess: 1, st: full}, {sess: 1, tx: "ac1"},
			{sess: 0, st: ins(26)}, {sess: 1, st: full}},
		{{sess: 0, tx: "begin", variant: "START TRANSACTION READ WRITE"}, {sess: 0, st: full}, {sess: 0, tx: "begin", variant: "START TRANSACTION"},
			{sess: 0, tx: "commit"}, {sess: 1, st: ins(27)}, {sess: 0, st: full}},
	}
}
