// C31 — Date and time values parse, format and compute consistently.
//
// extract: go/ast — the `formatSpecifiers` map of sql/planbuilder/dateparse (specifier ↦ parser function), its
//
//	dateSpecifiers/timeSpecifiers lists, the AM/PM-with-24h guard, DATE_FORMAT's `dateFormatSpecifierToFunc` map,
//	the `switch unit` of TimestampDiff.Eval; run time — the sql.*Per* constants of the freshly compiled code and
//	the text types.Date/Datetime(p).SQL writes for a table of sample values (year classes 0, 1..999, 1000..9999),
//	types.ZeroTime and types.ValidateTime probed around both ends of its range.
//
// run: unit level on the real code — time.Date (calendar tie), dateparse.ParseDateWithFormat, formatDate,
//
//	TimeDelta.Add/Sub, DateDiff.Eval, TimestampDiff.Eval — compared with the Lean Impl model; model-free
//	oracles (round trip, invalid ⇒ rejected, day/second/month counts by independent Go arithmetic); an SQL-level
//	stream (sqlx) that ties the SQL functions to the unit-level functions on the real engine; where the SQL result
//	is a temporal value (DATE_ADD/DATE_SUB, STR_TO_DATE, CAST … AS DATE/DATETIME(p)) the observation is the text the
//	client is sent, compared with the Lean model of datetimeType.SQL (Impl) and the canonical text (Spec), and the
//	text is read back through the engine's own conversion (CAST of the text returns the same text).
package main

import (
	"errors"
	"fmt"
	"go/ast"
	"go/token"
	"strconv"
	"strings"
	"time"

	"github.com/dolthub/go-mysql-server/sql"
	"github.com/dolthub/go-mysql-server/sql/expression"
	"github.com/dolthub/go-mysql-server/sql/expression/function"
	"github.com/dolthub/go-mysql-server/sql/planbuilder/dateparse"
	"github.com/dolthub/go-mysql-server/sql/types"
	"github.com/dolthub/go-mysql-server/verifharness/hx"
	"github.com/dolthub/go-mysql-server/verifharness/hx/eng"
)

func main() { hx.Main(extract, run) }

// ---------------------------------------------------------------------------------------------
// Facts

func charLit(e ast.Expr) (byte, bool) {
	bl, ok := e.(*ast.BasicLit)
	if !ok || bl.Kind != token.CHAR {
		return 0, false
	}
	s, err := strconv.Unquote(bl.Value)
	if err != nil || len(s) != 1 {
		return 0, false
	}
	return s[0], true
}

func specMap(src *hx.Src, name string, literalOK bool) (string, int, error) {
	init, err := src.PkgVarInit(name)
	if err != nil {
		return "", 0, err
	}
	cl, ok := init.(*ast.CompositeLit)
	if !ok {
		return "", 0, fmt.Errorf("%s is not a composite literal", name)
	}
	var parts []string
	for _, el := range cl.Elts {
		kv, ok := el.(*ast.KeyValueExpr)
		if !ok {
			return "", 0, fmt.Errorf("%s: element is not key: value", name)
		}
		k, ok := charLit(kv.Key)
		if !ok {
			return "", 0, fmt.Errorf("%s: key %s is not a char literal", name, src.Text(kv.Key))
		}
		var v string
		switch x := kv.Value.(type) {
		case *ast.Ident:
			v = x.Name
		case *ast.CallExpr:
			fn, _ := x.Fun.(*ast.Ident)
			if !literalOK || fn == nil || fn.Name != "literalParser" || len(x.Args) != 1 {
				return "", 0, fmt.Errorf("%s[%q]: unexpected value %s", name, k, src.Text(kv.Value))
			}
			if c, ok := charLit(x.Args[0]); !ok || c != k {
				return "", 0, fmt.Errorf("%s[%q]: literalParser of another byte: %s", name, k, src.Text(kv.Value))
			}
			v = "literal"
		default:
			return "", 0, fmt.Errorf("%s[%q]: unexpected value %s", name, k, src.Text(kv.Value))
		}
		parts = append(parts, fmt.Sprintf("(%d, %s)", k, hx.LeanString(v)))
	}
	return "[" + strings.Join(parts, ", ") + "]", len(parts), nil
}

func byteList(src *hx.Src, name string) ([]uint64, error) {
	init, err := src.PkgVarInit(name)
	if err != nil {
		return nil, err
	}
	cl, ok := init.(*ast.CompositeLit)
	if !ok {
		return nil, fmt.Errorf("%s is not a composite literal", name)
	}
	var out []uint64
	for _, el := range cl.Elts {
		c, ok := charLit(el)
		if !ok {
			return nil, fmt.Errorf("%s: element %s is not a char literal", name, src.Text(el))
		}
		out = append(out, uint64(c))
	}
	return out, nil
}

func extract(a hx.ExtractArgs) error {
	dp, err := hx.ParseSrc(a.Repo, "sql/planbuilder/dateparse/date.go")
	if err != nil {
		return err
	}
	df, err := hx.ParseSrc(a.Repo, "sql/expression/function/date_format.go")
	if err != nil {
		return err
	}
	tm, err := hx.ParseSrc(a.Repo, "sql/expression/function/time_math.go")
	if err != nil {
		return err
	}
	lf := hx.NewLeanFile("Gms.Generated.C31", dp.Path, df.Path, tm.Path, "sql/time.go (run time)", "sql/types/datetime.go + sql/types/time.go (run time: datetimeType.SQL, ZeroTime, ValidateTime)")

	tbl, _, err := specMap(dp, "formatSpecifiers", true)
	if err != nil {
		return err
	}
	lf.Comment("dateparse.formatSpecifiers: specifier byte ↦ parser function (\"nil\": present but nil)")
	lf.Raw("def parseSpecifiers : List (Nat × String) := " + tbl + "\n")
	ds, err := byteList(dp, "dateSpecifiers")
	if err != nil {
		return err
	}
	ts, err := byteList(dp, "timeSpecifiers")
	if err != nil {
		return err
	}
	lf.DefNatList("dateSpecifiers", ds)
	lf.DefNatList("timeSpecifiers", ts)

	// the AM/PM guard inside ParseDateWithFormat
	fd, err := dp.Func("", "ParseDateWithFormat")
	if err != nil {
		return err
	}
	guard := ""
	ast.Inspect(fd.Body, func(n ast.Node) bool {
		is, ok := n.(*ast.IfStmt)
		if !ok {
			return true
		}
		txt := dp.Text(is.Cond)
		if strings.Contains(txt, "hasAmPm") {
			guard = strings.Join(strings.Fields(txt), " ")
		}
		return true
	})
	if guard == "" {
		return fmt.Errorf("AM/PM guard not found in ParseDateWithFormat")
	}
	lf.DefString("ampmGuard", guard)
	// does ParseDateWithFormat read dt.am anywhere? (it does not at the pin: AM/PM is parsed and dropped)
	usesAm := false
	ast.Inspect(fd.Body, func(n ast.Node) bool {
		se, ok := n.(*ast.SelectorExpr)
		if ok && se.Sel.Name == "am" {
			usesAm = true
		}
		return true
	})
	lf.DefBool("parseUsesAmPm", usesAm)

	tbl2, _, err := specMap(df, "dateFormatSpecifierToFunc", false)
	if err != nil {
		return err
	}
	lf.Comment("function.dateFormatSpecifierToFunc: specifier byte ↦ formatter (\"nil\": strftime's default)")
	lf.Raw("def formatSpecifiers : List (Nat × String) := " + tbl2 + "\n")

	// switch unit { case "second": res = microsecondsDiff(time1, time2) / sql.MicrosecondsPerSecond … }
	ev, err := tm.Func("TimestampDiff", "Eval")
	if err != nil {
		return err
	}
	var units []string
	ast.Inspect(ev.Body, func(n ast.Node) bool {
		sw, ok := n.(*ast.SwitchStmt)
		if !ok {
			return true
		}
		if id, ok := sw.Tag.(*ast.Ident); !ok || id.Name != "unit" {
			return true
		}
		for _, st := range sw.Body.List {
			cc := st.(*ast.CaseClause)
			if cc.List == nil {
				continue
			}
			for _, e := range cc.List {
				bl, ok := e.(*ast.BasicLit)
				if !ok || len(cc.Body) != 1 {
					units = append(units, "(\"?\", \"?\")")
					continue
				}
				as, ok := cc.Body[0].(*ast.AssignStmt)
				if !ok || len(as.Rhs) != 1 {
					units = append(units, "(\"?\", \"?\")")
					continue
				}
				name, _ := strconv.Unquote(bl.Value)
				units = append(units, fmt.Sprintf("(%s, %s)", hx.LeanString(name), hx.LeanString(strings.Join(strings.Fields(tm.Text(as.Rhs[0])), " "))))
			}
		}
		return false
	})
	if len(units) == 0 {
		return fmt.Errorf("switch unit not found in TimestampDiff.Eval")
	}
	lf.Raw("def timestampDiffUnits : List (String × String) := [" + strings.Join(units, ", ") + "]\n")

	// run time: the constants as compiled
	lf.DefInt("secondsPerMinute", sql.SecondsPerMinute)
	lf.DefInt("secondsPerHour", sql.SecondsPerHour)
	lf.DefInt("microsecondsPerSecond", sql.MicrosecondsPerSecond)
	lf.DefInt("microsecondsPerMinute", sql.MicrosecondsPerMinute)
	lf.DefInt("microsecondsPerHour", sql.MicrosecondsPerHour)
	lf.DefInt("microsecondsPerDay", sql.MicrosecondsPerDay)
	lf.DefInt("microsecondsPerWeek", sql.MicrosecondsPerWeek)
	lf.DefInt("monthsPerQuarter", sql.MonthsPerQuarter)
	lf.DefInt("monthsPerYear", sql.MonthsPerYear)

	// run time: the text datetimeType.SQL (appendDateFormat / appendDatetimeFormat) writes, as compiled
	var rows []string
	ectx := sql.NewEmptyContext()
	for _, k := range sqlKinds {
		for _, f := range sqlTextSampleFields {
			g := k.trunc(f)
			var txt string
			var err error
			if p := hx.Safe(func() {
				v, e := k.typ.SQL(ectx, nil, g.time())
				txt, err = v.ToString(), e
			}); p != "" || err != nil {
				return fmt.Errorf("types %s .SQL(%v): %v %s", k.name, g, err, p)
			}
			rows = append(rows, fmt.Sprintf("(%s, [%d, %d, %d, %d, %d, %d, %d], %s)", hx.LeanString(k.name), g.y, g.mo, g.d, g.h, g.mi, g.s, g.ns, hx.LeanString(txt)))
		}
	}
	// run time: types.ZeroTime and the range types.ValidateTime accepts (probed around both ends)
	zf := fieldsOf(types.ZeroTime)
	lf.Comment("types.ZeroTime as calendar fields (Go renders MySQL's 0000-00-00 as 30 November of the year -1)")
	lf.Raw(fmt.Sprintf("def zeroTimeFields : List Int := [%d, %d, %d, %d, %d, %d, %d]\n", zf.y, zf.mo, zf.d, zf.h, zf.mi, zf.s, zf.ns))
	var probes []string
	for _, f := range []fields{
		{-2, 12, 31, 23, 59, 59, 999999000}, {-1, 1, 1, 0, 0, 0, 0}, {-1, 11, 29, 23, 59, 59, 999999000}, {-1, 11, 30, 0, 0, 0, 0},
		{-1, 11, 30, 0, 0, 0, 1000}, {-1, 12, 31, 23, 59, 59, 999999000}, {0, 1, 1, 0, 0, 0, 0}, {1, 1, 1, 0, 0, 0, 0}, {999, 12, 31, 0, 0, 0, 0},
		{1000, 1, 1, 0, 0, 0, 0}, {9999, 12, 31, 23, 59, 59, 999999000}, {9999, 12, 31, 23, 59, 59, 999999999}, {10000, 1, 1, 0, 0, 0, 0},
	} {
		probes = append(probes, fmt.Sprintf("([%d, %d, %d, %d, %d, %d, %d], %v)", f.y, f.mo, f.d, f.h, f.mi, f.s, f.ns, types.ValidateTime(f.time()) != nil))
	}
	lf.Comment("types.ValidateTime(time.Date(fields)) != nil")
	lf.Raw("def validateTimeProbes : List (List Int × Bool) := [" + strings.Join(probes, ", ") + "]\n")
	lf.Comment("types.<kind>.SQL(time.Date(fields)): kind, fields y mo d h mi s ns, text")
	lf.Raw("def sqlTextSamples : List (String × List Int × String) := [\n  " + strings.Join(rows, ",\n  ") + "]\n")
	return lf.Write(a.Out)
}

// the temporal result types of the sqlx stream (Lean: Cal.SqlKind)
type sqlKind struct {
	name string
	typ  sql.Type
	cast string // SQL type name for CAST
	prec int    // fraction digits; -1: DATE
}

var sqlKinds = []sqlKind{
	{"date", types.Date, "DATE", -1},
	{"datetime", types.Datetime, "DATETIME", 0},
	{"datetime3", types.Datetime3, "DATETIME(3)", 3},
	{"datetime6", types.DatetimeMaxPrecision, "DATETIME(6)", 6},
}

// trunc drops what the kind does not carry (so that no rounding is involved: that is C26's subject)
func (k sqlKind) trunc(f fields) fields {
	switch k.prec {
	case -1:
		f.h, f.mi, f.s, f.ns = 0, 0, 0, 0
	case 0:
		f.ns = 0
	case 3:
		f.ns = f.ns / 1000000 * 1000000
	default:
		f.ns = f.ns / 1000 * 1000
	}
	return f
}

// literal is the canonical (four-digit year) text of the value: the Spec text and the literal used in queries
func (k sqlKind) literal(f fields) string {
	t := k.trunc(f).time()
	switch k.prec {
	case -1:
		return t.Format("2006-01-02")
	case 0:
		return t.Format("2006-01-02 15:04:05")
	case 3:
		return t.Format("2006-01-02 15:04:05.000")
	}
	return t.Format("2006-01-02 15:04:05.000000")
}

var sqlTextSampleFields = []fields{
	{0, 5, 7, 11, 28, 39, 0}, {1, 1, 1, 0, 0, 0, 0}, {9, 12, 31, 23, 59, 59, 999999000}, {10, 10, 10, 10, 10, 10, 100000000},
	{99, 2, 28, 9, 5, 3, 7000000}, {100, 3, 1, 1, 2, 3, 45000}, {959, 5, 7, 11, 28, 39, 0}, {999, 12, 31, 23, 59, 59, 999999000},
	{1000, 1, 1, 0, 0, 0, 0}, {2024, 2, 29, 9, 5, 3, 7000000}, {9999, 12, 31, 23, 59, 59, 123456000},
}

// ---------------------------------------------------------------------------------------------
// Helpers

type fields struct{ y, mo, d, h, mi, s, ns int }

func (f fields) time() time.Time {
	return time.Date(f.y, time.Month(f.mo), f.d, f.h, f.mi, f.s, f.ns, time.UTC)
}
func (f fields) sexp() string {
	return fmt.Sprintf("%d %d %d %d %d %d %d", f.y, f.mo, f.d, f.h, f.mi, f.s, f.ns)
}
func fieldsOf(t time.Time) fields {
	y, mo, d := t.Date()
	h, mi, s := t.Clock()
	return fields{y, int(mo), d, h, mi, s, t.Nanosecond()}
}
func showT(t time.Time) string { return fieldsOf(t).sexp() }

func isLeap(y int) bool { return y%4 == 0 && (y%100 != 0 || y%400 == 0) }
func daysIn(y, m int) int {
	switch m {
	case 2:
		if isLeap(y) {
			return 29
		}
		return 28
	case 4, 6, 9, 11:
		return 30
	}
	return 31
}

// randValid draws a valid civil date-time; edge-heavy (month ends, leap days, year edges).
func randValid(r *hx.Rand, microOnly bool) fields {
	var y int
	switch r.Intn(10) {
	case 0:
		y = hx.Pick(r, []int{0, 1, 4, 99, 100, 400, 999, 1000, 1582, 1899, 1900, 1969, 1970, 1999, 2000, 2023, 2024, 2038, 2100, 2400, 9996, 9999})
	case 1, 2:
		y = r.Range(0, 9999)
	default:
		y = r.Range(1900, 2100)
	}
	mo := r.Range(1, 12)
	if r.Chance(1, 5) {
		mo = 2
	}
	dm := daysIn(y, mo)
	d := r.Range(1, dm)
	if r.Chance(1, 3) {
		d = dm - r.Intn(4)
	}
	f := fields{y: y, mo: mo, d: d}
	switch r.Intn(4) {
	case 0: // midnight
	case 1:
		f.h, f.mi, f.s = hx.Pick(r, []int{0, 11, 12, 13, 23}), hx.Pick(r, []int{0, 30, 59}), hx.Pick(r, []int{0, 1, 59})
	default:
		f.h, f.mi, f.s = r.Intn(24), r.Intn(60), r.Intn(60)
	}
	if r.Chance(1, 3) {
		f.ns = r.Intn(1000000) * 1000
		if !microOnly && r.Chance(1, 4) {
			f.ns += r.Intn(1000)
		}
	}
	return f
}

func parseObs(date, format string) (obs string, t time.Time, isTime bool) {
	var v interface{}
	var err error
	if p := hx.Safe(func() { v, err = dateparse.ParseDateWithFormat(date, format) }); p != "" {
		return "crash", time.Time{}, false
	}
	if err != nil {
		var se dateparse.ParseSpecifierErr
		var le dateparse.ParseLiteralErr
		switch {
		case errors.As(err, &se):
			return "err:specifier", time.Time{}, false
		case errors.As(err, &le):
			return "err:literal", time.Time{}, false
		case strings.Contains(err.Error(), "24 hour"):
			return "err:ampm24", time.Time{}, false
		}
		return "err:format", time.Time{}, false
	}
	if v == nil {
		return "null", time.Time{}, false
	}
	tt, ok := v.(time.Time)
	if !ok {
		return fmt.Sprintf("other:%T", v), time.Time{}, false
	}
	return "t " + showT(tt), tt, true
}

func fmtObs(format string, t time.Time) (obs string, out string, ok bool) {
	var s string
	var err error
	if p := hx.Safe(func() { s, err = function.VerifFormatDate(format, t) }); p != "" {
		return "crash", "", false
	}
	if err != nil {
		return "err", "", false
	}
	return "s " + hx.HexS(s), s, true
}

// specifier pools
const modelledFmtSpecs = "abcDdefHhIijklMmprSsTWwYy%"
const parseSpecs = "abcDdefHhIijklMmprSsTYy%"
const unsupportedParse = "UuVvWwXx"

var literals = []string{"-", "/", ":", ".", " ", ",", "T", "", "", "  ", "at", "|"}

func randFormat(r *hx.Rand, pool string, n int) string {
	var b strings.Builder
	for i := 0; i < n; i++ {
		b.WriteByte('%')
		b.WriteByte(pool[r.Intn(len(pool))])
		b.WriteString(hx.Pick(r, literals))
	}
	return b.String()
}

// item grammar formats (the Lean `Item` grammar): specifiers Y m d H i s f with harmless literals
var gramLits = []string{"-", "/", ":", ".", ",", "T", "|", "_", "x", "@", "--"}

func gramFormat(r *hx.Rand, complete bool) string {
	date := []string{"Y", "m", "d"}
	r2 := r.Intn(6)
	perm := [][]int{{0, 1, 2}, {2, 1, 0}, {1, 2, 0}, {0, 2, 1}, {1, 0, 2}, {2, 0, 1}}[r2]
	var items []string
	for _, i := range perm {
		items = append(items, date[i])
	}
	if !complete && r.Chance(1, 2) {
		items = items[:r.Range(1, 2)]
	}
	clock := []string{"H", "i", "s", "f"}
	nclk := r.Intn(5)
	for i := 0; i < nclk; i++ {
		items = append(items, clock[i])
	}
	var b strings.Builder
	for i, it := range items {
		b.WriteString("%" + it)
		last := i == len(items)-1
		greedy := strings.Contains("Hisf", it)
		if !last {
			if greedy || !complete && false || r.Chance(3, 4) {
				if greedy && !complete && r.Chance(1, 3) {
					continue // two numeric fields run together: incomplete
				}
				b.WriteString(hx.Pick(r, gramLits))
			}
		}
	}
	return b.String()
}

func refAddMonths(f fields, n int) fields {
	tm := 12*f.y + (f.mo - 1) + n
	y := tm / 12
	if tm < 0 && tm%12 != 0 {
		y--
	}
	m := tm - 12*y + 1
	g := f
	g.y, g.mo = y, m
	if g.d > daysIn(y, m) {
		g.d = daysIn(y, m)
	}
	return g
}

func dayNumber(t time.Time) int64 {
	s := t.Unix()
	d := s / 86400
	if s%86400 < 0 {
		d--
	}
	return d
}

func refMonthsDiff(t1, t2 time.Time) int64 {
	sign := int64(1)
	b, a := t1, t2
	if b.After(a) {
		sign, b, a = -1, t2, t1
	}
	full := int64(a.Year()-b.Year())*12 + int64(a.Month()) - int64(b.Month())
	tod := func(t time.Time) int64 {
		return int64(t.Hour())*3600e9 + int64(t.Minute())*60e9 + int64(t.Second())*1e9 + int64(t.Nanosecond())
	}
	if a.Day() < b.Day() || (a.Day() == b.Day() && tod(a) < tod(b)) {
		full--
	}
	return sign * full
}

// ---------------------------------------------------------------------------------------------

func run(a hx.RunArgs) error {
	out := hx.NewOut(a.OutDir)
	defer out.Close()
	out.Rule = "streams: date (time.Date on in- and out-of-range fields), parse (dateparse on texts built from field values, valid and invalid, " +
		"and on mutated formatter output), fmt/rt (formatDate and parse∘format on valid instants of year 0..9999), delta/addsub (TimeDelta.Add/Sub), " +
		"datediff/tsdiff (DateDiff/TimestampDiff.Eval), sqlx (SQL function vs. unit function on the real engine; for DATE_ADD/DATE_SUB, STR_TO_DATE and " +
		"CAST AS DATE/DATETIME(p) the observation is the text sent for the temporal result, years 1..9999 incl. the classes below 1000, compared with " +
		"the model of datetimeType.SQL and read back through CAST); a case is non-trivial when the " +
		"result is a value (not an error/NULL) and, for parse, at least one numeric field was read; for delta when a month/year part or a day carry is involved"
	r := hx.NewRand(mixSeed(a.Seed))
	ctx := sql.NewEmptyContext()
	scale := 1
	if a.Thorough {
		scale = 25
	}

	// ----- date
	dateCase := func(f fields) {
		t := f.time()
		obs := fmt.Sprintf("%s %d %d", showT(t), int(t.Weekday()), t.YearDay())
		out.Case(hx.List("date", f.sexp()), obs, fieldsOf(t) != f)
		out.Stat("date")
	}
	// ----- parse
	parseCase := func(date, format string, intended *fields, kind string) {
		obs, t, isTime := parseObs(date, format)
		id := out.Case(hx.List("parse", hx.HexS(date), hx.HexS(format)), obs, isTime)
		out.Stat("parse:" + kind)
		out.Stat("parse-obs:" + strings.SplitN(obs, " ", 2)[0])
		if intended != nil {
			f := *intended
			valid := f.mo >= 1 && f.mo <= 12 && f.d >= 1 && f.d <= daysIn(f.y, f.mo) && f.h >= 0 && f.h <= 23 && f.mi >= 0 && f.mi <= 59 &&
				f.s >= 0 && f.s <= 59 && f.ns >= 0 && f.ns <= 999999999
			if valid && !(isTime && fieldsOf(t) == f) {
				out.OracleFail(id, "-", fmt.Sprintf("STR_TO_DATE(%q,%q): valid text, expected %v, got %s", date, format, f, obs))
			}
			if !valid && isTime {
				out.Stat("parse:invalid-shifted")
				out.OracleFail(id, "str_to_date_invalid_shifted", fmt.Sprintf("STR_TO_DATE(%q,%q): the text names no calendar date/clock, result %s instead of a rejection", date, format, obs))
			}
		}
	}
	// ----- fmt
	fmtCase := func(format string, f fields) {
		obs, _, ok := fmtObs(format, f.time())
		out.Case(hx.List("fmt", hx.HexS(format), f.sexp()), obs, ok)
		out.Stat("fmt")
	}
	// ----- rt: parse(fmt, format(fmt, t))
	rtCase := func(format string, f fields, expect *fields, ampm bool) {
		t := f.time()
		fobs, s, ok := fmtObs(format, t)
		obs := fobs
		var pt time.Time
		isTime := false
		if ok {
			obs, pt, isTime = parseObs(s, format)
		}
		id := out.Case(hx.List("rt", hx.HexS(format), f.sexp()), obs, isTime)
		out.Stat("rt")
		if expect != nil {
			out.Stat("rt:complete")
			if !(isTime && fieldsOf(pt) == *expect) {
				tag := "-"
				if ampm && (f.h >= 12 || f.h == 0) {
					tag = "str_to_date_ampm_ignored"
				}
				out.OracleFail(id, tag, fmt.Sprintf("STR_TO_DATE(DATE_FORMAT(%s,%q),%q) = %s, expected %s (formatted text %q)", showT(t), format, format, obs, expect.sexp(), s))
			}
		}
	}
	// ----- delta
	deltaCase := func(td expression.TimeDelta, sign int, f fields) {
		t := f.time()
		var res time.Time
		p := hx.Safe(func() {
			if sign > 0 {
				res = td.Add(t)
			} else {
				res = td.Sub(t)
			}
		})
		obs := showT(res)
		if p != "" {
			obs = "crash"
		}
		nontriv := td.Years != 0 || td.Months != 0 || dayNumber(res) != dayNumber(t)
		id := out.Case(hx.List("delta", fmt.Sprint(sign), deltaSexp(td), f.sexp()), obs, nontriv)
		out.Stat("delta")
		if p != "" {
			return
		}
		// model-free reference: total-month arithmetic with one clamp, then exact days and duration
		g := refAddMonths(f, sign*int(12*td.Years+td.Months))
		want := g.time().AddDate(0, 0, sign*int(td.Days)).Add(time.Duration(int64(sign) * (td.Hours*int64(time.Hour) + td.Minutes*int64(time.Minute) + td.Seconds*int64(time.Second) + td.Microseconds*1000)))
		if !want.Equal(res) {
			tag := "-"
			if td.Years != 0 && td.Months != 0 && f.mo == 2 && f.d == 29 && !isLeap(f.y+sign*int(td.Years)) {
				tag = "timedelta_year_month_intermediate_feb29"
			}
			out.OracleFail(id, tag, fmt.Sprintf("TimeDelta%+v sign %d on %s = %s, expected %s", td, sign, showT(t), obs, showT(want)))
		}
	}
	addsubCase := func(td expression.TimeDelta, f fields) {
		t := f.time()
		var res time.Time
		p := hx.Safe(func() { res = td.Sub(td.Add(t)) })
		obs := showT(res)
		if p != "" {
			obs = "crash"
		}
		id := out.Case(hx.List("addsub", deltaSexp(td), f.sexp()), obs, td.Years != 0 || td.Months != 0)
		out.Stat("addsub")
		g := refAddMonths(f, int(12*td.Years+td.Months))
		clamped := g.d != f.d
		if clamped {
			out.Stat("addsub:clamped")
		}
		mixed := (td.Years != 0 || td.Months != 0) && (td.Days != 0 || td.Hours != 0 || td.Minutes != 0 || td.Seconds != 0 || td.Microseconds != 0)
		if p == "" && !clamped && !mixed && !res.Equal(t) {
			tag := "-"
			mid := fieldsOf(td.Add(t))
			if td.Years != 0 && td.Months != 0 && ((f.mo == 2 && f.d == 29 && !isLeap(f.y+int(td.Years))) || (mid.mo == 2 && mid.d == 29 && !isLeap(mid.y-int(td.Years)))) {
				tag = "timedelta_year_month_intermediate_feb29"
			}
			out.OracleFail(id, tag, fmt.Sprintf("Sub(Add(%s, %+v)) = %s without an end-of-month clamp", showT(t), td, obs))
		}
	}
	// ----- datediff / tsdiff through the real expression nodes
	lit := func(t time.Time) sql.Expression { return expression.NewLiteral(t, types.DatetimeMaxPrecision) }
	evalInt := func(e sql.Expression) string {
		var v interface{}
		var err error
		if p := hx.Safe(func() { v, err = e.Eval(ctx, nil) }); p != "" {
			return "crash"
		}
		if err != nil {
			return "err"
		}
		if v == nil {
			return "null"
		}
		return fmt.Sprint(v)
	}
	datediffCase := func(f1, f2 fields) {
		t1, t2 := f1.time(), f2.time()
		obs := evalInt(function.NewDateDiff(ctx, lit(t1), lit(t2)))
		want := dayNumber(t1) - dayNumber(t2)
		id := out.Case(hx.List("datediff", f1.sexp(), f2.sexp()), obs, want != 0)
		out.Stat("datediff")
		if obs != fmt.Sprint(want) {
			tag := "-"
			if want > 106752 || want < -106752 {
				tag = "datediff_saturates"
			}
			out.OracleFail(id, tag, fmt.Sprintf("DATEDIFF(%s, %s) = %s, day numbers differ by %d", showT(t1), showT(t2), obs, want))
		}
	}
	units := []string{"microsecond", "second", "minute", "hour", "day", "week", "month", "quarter", "year"}
	tsdiffCase := func(u string, f1, f2 fields) {
		t1, t2 := f1.time(), f2.time()
		obs := evalInt(function.NewTimestampDiff(ctx, expression.NewLiteral(u, types.LongText), lit(t1), lit(t2)))
		id := out.Case(hx.List("tsdiff", u, f1.sexp(), f2.sexp()), obs, !t1.Equal(t2))
		out.Stat("tsdiff:" + u)
		var want int64
		switch u {
		case "month":
			want = refMonthsDiff(t1, t2)
		case "quarter":
			want = refMonthsDiff(t1, t2) / 3
		case "year":
			want = refMonthsDiff(t1, t2) / 12
		default:
			us := (t2.Unix()-t1.Unix())*1000000 + int64(t2.Nanosecond()/1000) - int64(t1.Nanosecond()/1000)
			div := map[string]int64{"microsecond": 1, "second": 1e6, "minute": 60e6, "hour": 3600e6, "day": 86400e6, "week": 7 * 86400e6}[u]
			want = us / div
		}
		if obs != fmt.Sprint(want) {
			tag := "-"
			if (u == "month" || u == "quarter" || u == "year") && f1.d == f2.d && f1.mi != f2.mi {
				tag = "monthsdiff_minutes_ignored"
			}
			out.OracleFail(id, tag, fmt.Sprintf("TIMESTAMPDIFF(%s, %s, %s) = %s, expected %d", u, showT(t1), showT(t2), obs, want))
		}
	}

	// ----- sqlx: SQL functions vs. unit functions on the real engine
	e := eng.New("d")
	sctx := e.Ctx()
	one := func(q string) (string, bool) { // text of the single cell; ok=false on error/crash
		res := e.Query(eng.SameSession(sctx), q)
		if res.Class() != "ok" || len(res.Rows) != 1 || len(res.Rows[0]) != 1 {
			return res.Class(), false
		}
		return res.Rows[0][0], true
	}
	sqlx := func(kind, payload, q, want string) {
		got, ok := one(q)
		obs := "consistent"
		if !ok || got != want {
			obs = fmt.Sprintf("inconsistent: %s returned %q, the unit-level function gives %q", q, got, want)
		}
		out.Case(hx.List("sqlx", kind, payload), obs, want != "NULL")
		out.Stat("sqlx:" + kind)
	}
	dtLit := func(t time.Time) string { return t.Format("2006-01-02 15:04:05.000000") }
	// Temporal results. The observation is the text the client is sent (or NULL / the error class); the Lean driver
	// answers with the model of datetimeType.SQL (Impl) and the canonical text (Spec) of the value the unit-level
	// model computes. `val` (when `isVal`) is that value computed by the REAL unit-level function, `k` its SQL type.
	// Two model-free oracles on the real code:
	//   1. SQL level = unit level: the text is the canonical text of `val` (NULL outside the years 0..9999);
	//   2. the text reads back: CAST('<text>' AS <type>) returns the same text (format ↔ parse of a computed value).
	// A failure is attributed to the listed region datetime_text_year_below_1000 only when the case is in that class
	// (the value's year is 1..999) and, for oracle 1, the text is exactly the canonical text with the year's leading
	// zeros dropped; anything else is reported as a violation (untagged, or tagged datetime_text_unexpected, see below).
	// A DATE_ADD/DATE_SUB result is range-checked by types.ValidateTime against [ZeroTime, 9999-12-31 23:59:59.999999];
	// ZeroTime is −0001-11-30, so a result in the 32 days before the year 0 comes back as a date of the year −1 (or as the
	// zero date) where NULL is expected: listed region dateadd_result_before_year_zero, decided on the unit-level result
	// and attributed only when the text is exactly that value's text (`rangeChecked` is set for the dateadd kind only).
	const regionYear = "datetime_text_year_below_1000"
	const regionWindow = "dateadd_result_before_year_zero"
	sqlxText := func(kind, payload, q string, k sqlKind, val time.Time, isVal bool, rangeChecked bool) {
		want := "NULL"
		inRange := isVal && val.Year() >= 0 && val.Year() <= 9999
		if inRange {
			want = k.literal(fieldsOf(val))
		}
		inRegion := inRange && val.Year() >= 1 && val.Year() <= 999
		inWindow := rangeChecked && isVal && val.Year() < 0 && !val.Before(types.ZeroTime)
		res := e.Query(eng.SameSession(sctx), q)
		obs, got, ok := res.Class(), "", false
		if obs == "ok" && len(res.Rows) == 1 && len(res.Rows[0]) == 1 {
			got, ok = res.Rows[0][0], true
			obs = got
		}
		id := out.Case(hx.List("sqlx", kind, payload), obs, want != "NULL")
		out.Stat("sqlx:" + kind)
		if inRegion {
			out.Stat("sqlx:" + kind + ":year-1..999")
		}
		if inWindow {
			out.Stat("sqlx:" + kind + ":before-year-0")
		}
		if !ok || got != want {
			// `-` would inherit the region the model assigns to this case (check.py), so a deviation inside a listed
			// class that is NOT the listed one carries a tag of its own, which is deliberately not listed
			tag := "-"
			switch {
			case inRegion:
				tag = "datetime_text_unexpected"
				if ok && got == strings.TrimLeft(want, "0") {
					tag = regionYear
				}
			case inWindow:
				tag = "dateadd_result_unexpected"
				f := fieldsOf(val)
				defective := fmt.Sprintf("%d-%02d-%02d %02d:%02d:%02d.%06d", f.y, f.mo, f.d, f.h, f.mi, f.s, f.ns/1000)
				if val.Equal(types.ZeroTime) {
					defective = "0000-00-00 00:00:00.000000"
				}
				if ok && got == defective {
					tag = regionWindow
				}
			}
			out.OracleFail(id, tag, fmt.Sprintf("%s returned %q, the unit-level function gives %q", q, obs, want))
		}
		if ok && got != "NULL" {
			q2 := fmt.Sprintf("SELECT CAST('%s' AS %s)", got, k.cast)
			back, ok2 := one(q2)
			out.Stat("sqlx:read-back")
			if !ok2 || back != got {
				tag := "-"
				if inRegion {
					tag = regionYear
				} else if inWindow {
					tag = regionWindow
				}
				out.OracleFail(id, tag, fmt.Sprintf("%s returned %q: the text %q sent for %s does not read back", q2, back, got, q))
			}
		}
	}
	kDT, kDT6 := sqlKinds[1], sqlKinds[3]
	type unitDelta struct {
		unit string
		mk   func(n int64) expression.TimeDelta
	}
	unitDeltas := []unitDelta{
		{"YEAR", func(n int64) expression.TimeDelta { return expression.TimeDelta{Years: n} }},
		{"QUARTER", func(n int64) expression.TimeDelta { return expression.TimeDelta{Months: 3 * n} }},
		{"MONTH", func(n int64) expression.TimeDelta { return expression.TimeDelta{Months: n} }},
		{"WEEK", func(n int64) expression.TimeDelta { return expression.TimeDelta{Days: 7 * n} }},
		{"DAY", func(n int64) expression.TimeDelta { return expression.TimeDelta{Days: n} }},
		{"HOUR", func(n int64) expression.TimeDelta { return expression.TimeDelta{Hours: n} }},
		{"MINUTE", func(n int64) expression.TimeDelta { return expression.TimeDelta{Minutes: n} }},
		{"SECOND", func(n int64) expression.TimeDelta { return expression.TimeDelta{Seconds: n} }},
		{"MICROSECOND", func(n int64) expression.TimeDelta { return expression.TimeDelta{Microseconds: n} }},
	}
	// DATE_ADD / DATE_SUB of a DATETIME(6) value with one unit
	dateaddCase := func(fn string, ud unitDelta, n int64, f fields) {
		f = kDT6.trunc(f)
		t := f.time()
		td := ud.mk(n)
		var res time.Time
		if fn == "DATE_ADD" {
			res = td.Add(t)
		} else {
			res = td.Sub(t)
		}
		sqlxText("dateadd", hx.List(fn, ud.unit, fmt.Sprint(n), f.sexp()),
			fmt.Sprintf("SELECT %s(CAST('%s' AS DATETIME(6)), INTERVAL %d %s)", fn, dtLit(t), n, ud.unit), kDT6, res, true, true)
	}
	unitNamed := func(u string) unitDelta {
		for _, ud := range unitDeltas {
			if ud.unit == u {
				return ud
			}
		}
		panic("unit " + u)
	}
	// the text of a value itself: CAST of the canonical literal to the type
	dttextCase := func(k sqlKind, f fields) {
		f = k.trunc(f)
		sqlxText("dttext", hx.List(k.name, f.sexp()), fmt.Sprintf("SELECT CAST('%s' AS %s)", k.literal(f), k.cast), k, f.time(), true, false)
	}
	// STR_TO_DATE with a full datetime format: the SQL value is the unit-level instant (NULL on error)
	strtodateCase := func(text, pf string) {
		_, pt, isTime := parseObs(text, pf)
		if isTime && (pt.Year() < 1 || pt.Year() > 9999) {
			return
		}
		sqlxText("strtodate", hx.List(hx.HexS(text), hx.HexS(pf)), fmt.Sprintf("SELECT STR_TO_DATE('%s','%s')", text, pf), kDT, pt, isTime, false)
	}

	// ================= corpus: witnesses first =================
	parseCase("2023-02-29", "%Y-%m-%d", &fields{y: 2023, mo: 2, d: 29}, "corpus")
	parseCase("2024-02-30", "%Y-%m-%d", &fields{y: 2024, mo: 2, d: 30}, "corpus")
	parseCase("2023-13-01", "%Y-%c-%d", &fields{y: 2023, mo: 13, d: 1}, "corpus")
	parseCase("2023-01-01 25:61:61", "%Y-%m-%d %H:%i:%s", &fields{y: 2023, mo: 1, d: 1, h: 25, mi: 61, s: 61}, "corpus")
	parseCase("2024-02-29", "%Y-%m-%d", &fields{y: 2024, mo: 2, d: 29}, "corpus")
	parseCase("2023", "%Y", nil, "corpus")
	parseCase("03:04:05 PM", "%r", nil, "corpus")
	parseCase("2023-060", "%Y-%j", nil, "corpus")
	parseCase("12 AM", "%h %p", nil, "corpus")
	parseCase("13 PM", "%H %p", nil, "corpus")
	parseCase("", "", nil, "corpus")
	parseCase("abc", "%", nil, "corpus")
	parseCase("abc", "%Q", nil, "corpus")
	parseCase("10", "%U", nil, "corpus")
	{
		pm := fields{y: 2023, mo: 1, d: 1, h: 15, mi: 4, s: 5}
		rtCase("%Y-%m-%d %h:%i:%s %p", pm, &pm, true)
		am := fields{y: 2023, mo: 1, d: 1, h: 3, mi: 4, s: 5}
		rtCase("%Y-%m-%d %h:%i:%s %p", am, &am, true)
		rtCase("%Y-%m-%d %H:%i:%s.%f", fields{y: 2024, mo: 2, d: 29, h: 23, mi: 59, s: 59, ns: 999999000}, &fields{y: 2024, mo: 2, d: 29, h: 23, mi: 59, s: 59, ns: 999999000}, false)
	}
	datediffCase(fields{y: 2400, mo: 1, d: 1}, fields{y: 2000, mo: 1, d: 1})
	datediffCase(fields{y: 2000, mo: 1, d: 1}, fields{y: 2400, mo: 1, d: 1})
	datediffCase(fields{y: 2024, mo: 3, d: 1, h: 1}, fields{y: 2024, mo: 2, d: 28, h: 23})
	tsdiffCase("month", fields{y: 2024, mo: 1, d: 15, h: 10, mi: 30}, fields{y: 2024, mo: 2, d: 15, h: 10})
	tsdiffCase("month", fields{y: 2024, mo: 1, d: 15, h: 10, s: 30}, fields{y: 2024, mo: 2, d: 15, h: 10})
	tsdiffCase("second", fields{y: 1000, mo: 1, d: 1}, fields{y: 9999, mo: 12, d: 31})
	deltaCase(expression.TimeDelta{Years: 1}, 1, fields{y: 2024, mo: 2, d: 29})
	deltaCase(expression.TimeDelta{Months: 1}, 1, fields{y: 2024, mo: 1, d: 31})
	deltaCase(expression.TimeDelta{Years: 1, Months: 1}, -1, fields{y: 2024, mo: 2, d: 29})
	addsubCase(expression.TimeDelta{Years: 1, Months: 1}, fields{y: 2023, mo: 1, d: 29})
	addsubCase(expression.TimeDelta{Months: 1}, fields{y: 2024, mo: 1, d: 31})
	// the text of temporal values, year classes 0 / 1..999 / 1000..9999 (region datetime_text_year_below_1000):
	// the alarms of the seed sweep (arithmetic across the year-1000 boundary) …
	dateaddCase("DATE_SUB", unitNamed("YEAR"), 41, fields{1000, 5, 7, 11, 28, 39, 0})
	dateaddCase("DATE_ADD", unitNamed("QUARTER"), -12, fields{1000, 10, 18, 0, 59, 1, 0})
	dateaddCase("DATE_SUB", unitNamed("WEEK"), 38, fields{1000, 9, 21, 23, 9, 11, 0})
	dateaddCase("DATE_ADD", unitNamed("QUARTER"), -29, fields{1000, 6, 27, 23, 30, 0, 911437000})
	// … the boundary itself, from both sides, and the class reached directly
	dateaddCase("DATE_SUB", unitNamed("MICROSECOND"), 1, fields{1000, 1, 1, 0, 0, 0, 0})
	dateaddCase("DATE_ADD", unitNamed("MICROSECOND"), 1, fields{999, 12, 31, 23, 59, 59, 999999000})
	dateaddCase("DATE_ADD", unitNamed("YEAR"), 41, fields{959, 5, 7, 11, 28, 39, 0})
	dateaddCase("DATE_ADD", unitNamed("DAY"), 1, fields{99, 2, 28, 0, 0, 0, 0})
	dateaddCase("DATE_SUB", unitNamed("YEAR"), 1000, fields{1000, 5, 7, 11, 28, 39, 0})
	dateaddCase("DATE_SUB", unitNamed("YEAR"), 1001, fields{1000, 5, 7, 11, 28, 39, 0})
	dateaddCase("DATE_ADD", unitNamed("MONTH"), 1, fields{9999, 12, 1, 0, 0, 0, 0})
	// the lower end of the result range (region dateadd_result_before_year_zero): ZeroTime is −0001-11-30
	dateaddCase("DATE_ADD", unitNamed("YEAR"), -10, fields{9, 12, 29, 17, 55, 7, 0})
	dateaddCase("DATE_ADD", unitNamed("YEAR"), -11, fields{9, 12, 29, 17, 55, 7, 0})
	dateaddCase("DATE_SUB", unitNamed("MICROSECOND"), 1, fields{0, 1, 1, 0, 0, 0, 0})
	dateaddCase("DATE_SUB", unitNamed("DAY"), 32, fields{0, 1, 1, 0, 0, 0, 0})
	dateaddCase("DATE_SUB", unitNamed("DAY"), 33, fields{0, 1, 1, 0, 0, 0, 0})
	dateaddCase("DATE_SUB", unitNamed("SECOND"), 2764801, fields{0, 1, 1, 0, 0, 0, 0})
	dateaddCase("DATE_SUB", unitNamed("YEAR"), 1, fields{0, 3, 1, 0, 0, 0, 0})
	dateaddCase("DATE_SUB", unitNamed("YEAR"), 1, fields{0, 12, 31, 0, 0, 0, 0})
	dateaddCase("DATE_SUB", unitNamed("MONTH"), 1, fields{0, 1, 1, 0, 0, 0, 0})
	dateaddCase("DATE_ADD", unitNamed("SECOND"), 1, fields{9999, 12, 31, 23, 59, 59, 0})
	dateaddCase("DATE_ADD", unitNamed("MICROSECOND"), 1, fields{9999, 12, 31, 23, 59, 59, 999998000})
	dateaddCase("DATE_ADD", unitNamed("YEAR"), 1, fields{2024, 2, 29, 12, 0, 0, 500000000})
	for _, k := range sqlKinds {
		for _, f := range sqlTextSampleFields {
			dttextCase(k, f)
		}
	}
	strtodateCase("0959-05-07 11:28:39", "%Y-%m-%d %H:%i:%s")
	strtodateCase("07/05/0099 11.28.39", "%d/%m/%Y %H.%i.%s")
	strtodateCase("10000101 00:00:00", "%Y%m%d %T")
	strtodateCase("2023-02-29 01:02:03", "%Y-%m-%d %H:%i:%s")

	// ================= date: the calendar tie =================
	for i := 0; i < 8000*scale; i++ {
		var f fields
		if r.Chance(1, 3) {
			f = randValid(r, false)
		} else {
			f = fields{y: r.Range(-50, 10050), mo: r.Range(-30, 40), d: r.Range(-800, 800), h: r.Range(-100, 100), mi: r.Range(-200, 200), s: r.Range(-200, 200), ns: r.Range(-2000000000, 2000000000)}
			if r.Chance(1, 4) {
				f.d = r.Range(-4000000, 4000000)
			}
		}
		dateCase(f)
	}
	if a.Thorough { // every day 1896-01-01 .. 2104-12-31 as day offsets from one anchor
		for d := 0; d < 76336; d++ {
			dateCase(fields{y: 1896, mo: 1, d: 1 + d})
		}
		for y := -5; y <= 10005; y++ { // every 1st of March / Feb 29 / Dec 31
			dateCase(fields{y: y, mo: 3, d: 1})
			dateCase(fields{y: y, mo: 2, d: 29})
			dateCase(fields{y: y, mo: 12, d: 31, h: 23, mi: 59, s: 59, ns: 999999999})
		}
	}

	// ================= parse =================
	type fieldFmt struct {
		format string
		build  func(f fields) string
	}
	ff := []fieldFmt{
		{"%Y-%m-%d", func(f fields) string { return fmt.Sprintf("%04d-%02d-%02d", f.y, f.mo, f.d) }},
		{"%Y-%c-%e", func(f fields) string { return fmt.Sprintf("%04d-%d-%d", f.y, f.mo, f.d) }},
		{"%d/%m/%Y", func(f fields) string { return fmt.Sprintf("%02d/%02d/%04d", f.d, f.mo, f.y) }},
		{"%Y%m%d", func(f fields) string { return fmt.Sprintf("%04d%02d%02d", f.y, f.mo, f.d) }},
		{"%Y-%m-%d %H:%i:%s", func(f fields) string {
			return fmt.Sprintf("%04d-%02d-%02d %02d:%02d:%02d", f.y, f.mo, f.d, f.h, f.mi, f.s)
		}},
		{"%Y-%m-%d %T", func(f fields) string {
			return fmt.Sprintf("%04d-%02d-%02d %02d:%02d:%02d", f.y, f.mo, f.d, f.h, f.mi, f.s)
		}},
		{"%Y-%m-%dT%H:%i:%s.%f", func(f fields) string {
			return fmt.Sprintf("%04d-%02d-%02dT%02d:%02d:%02d.%06d", f.y, f.mo, f.d, f.h, f.mi, f.s, f.ns/1000)
		}},
		{"%e %M %Y %k:%i", func(f fields) string {
			mn := "Brumaire"
			if f.mo >= 1 && f.mo <= 12 {
				mn = time.Month(f.mo).String()
			}
			return fmt.Sprintf("%d %s %04d %d:%02d", f.d, mn, f.y, f.h, f.mi)
		}},
	}
	for i := 0; i < 12000*scale; i++ {
		f := randValid(r, true)
		c := hx.Pick(r, ff)
		kind := "fields-valid"
		if r.Chance(1, 2) { // push one field out of range
			kind = "fields-invalid"
			switch r.Intn(7) {
			case 0:
				f.d = daysIn(f.y, f.mo) + r.Range(1, 3)
			case 1:
				f.d = 0
			case 2:
				f.mo = hx.Pick(r, []int{0, 13, 14, 20})
			case 3:
				f.h = r.Range(24, 30)
			case 4:
				f.mi = r.Range(60, 99)
			case 5:
				f.s = r.Range(60, 99)
			case 6:
				f.d = r.Range(32, 45)
			}
		}
		// fields the format does not carry are zero in the intended value
		g := f
		if !strings.Contains(c.format, "%H") && !strings.Contains(c.format, "%T") && !strings.Contains(c.format, "%k") {
			g.h = 0
		}
		if !strings.Contains(c.format, "%i") && !strings.Contains(c.format, "%T") {
			g.mi = 0
		}
		if !strings.Contains(c.format, "%s") && !strings.Contains(c.format, "%T") {
			g.s = 0
		}
		if !strings.Contains(c.format, "%f") {
			g.ns = 0
		}
		text := c.build(f)
		if r.Chance(1, 10) {
			text = "  " + text + " "
		}
		parseCase(text, c.format, &g, kind)
	}
	// formatter output, mutated, under random formats (incl. unsupported / unknown specifiers)
	for i := 0; i < 12000*scale; i++ {
		pool := parseSpecs
		if r.Chance(1, 10) {
			pool = parseSpecs + unsupportedParse + "QZ1"
		}
		format := randFormat(r, pool, r.Range(1, 5))
		if r.Chance(1, 30) {
			format += "%"
		}
		f := randValid(r, true)
		_, text, ok := fmtObs(format, f.time())
		if !ok {
			text = hx.Pick(r, []string{"", "12", "2024-01-01", "Jan", "xx"})
		}
		switch r.Intn(6) {
		case 0: // truncate
			if len(text) > 0 {
				text = text[:r.Intn(len(text))]
			}
		case 1: // overwrite one byte
			if len(text) > 0 {
				b := []byte(text)
				b[r.Intn(len(b))] = "0123456789 :-/apmAPMx"[r.Intn(21)]
				text = string(b)
			}
		case 2: // insert digits / spaces
			p := r.Intn(len(text) + 1)
			text = text[:p] + hx.Pick(r, []string{" ", "  ", "9", "99", "0", "4294967296", "\t"}) + text[p:]
		}
		parseCase(text, format, nil, "mutated")
	}

	// ================= fmt / rt =================
	for i := 0; i < 6000*scale; i++ {
		format := randFormat(r, modelledFmtSpecs+"QGZn", r.Range(1, 6))
		if r.Chance(1, 40) {
			format += hx.Pick(r, []string{"%", "%1", "%."})
		}
		fmtCase(format, randValid(r, false))
	}
	for i := 0; i < 8000*scale; i++ {
		f := randValid(r, true)
		complete := r.Chance(2, 3)
		format := gramFormat(r, complete)
		var expect *fields
		if complete {
			g := f
			if !strings.Contains(format, "%H") {
				g.h = 0
			}
			if !strings.Contains(format, "%i") {
				g.mi = 0
			}
			if !strings.Contains(format, "%s") {
				g.s = 0
			}
			if !strings.Contains(format, "%f") {
				g.ns = 0
			}
			expect = &g
		}
		rtCase(format, f, expect, false)
	}
	for i := 0; i < 3000*scale; i++ { // 12-hour clock formats: complete, but AM/PM is dropped by the parser
		f := randValid(r, true)
		f.ns = 0
		format := hx.Pick(r, []string{"%Y-%m-%d %h:%i:%s %p", "%Y-%m-%d %r", "%d.%m.%Y %I:%i:%s%p", "%Y/%m/%d %l:%i:%s %p"})
		g := f
		rtCase(format, f, &g, true)
	}
	for i := 0; i < 3000*scale; i++ { // arbitrary modelled formats
		rtCase(randFormat(r, parseSpecs, r.Range(1, 6)), randValid(r, true), nil, false)
	}

	// ================= delta / addsub =================
	randDelta := func() expression.TimeDelta {
		var td expression.TimeDelta
		small := func() int64 { return int64(r.Range(-30, 30)) }
		switch r.Intn(10) {
		case 0:
			td.Years = small()
		case 1, 2:
			td.Months = int64(r.Range(-40, 40))
		case 3:
			td.Days = int64(r.Range(-800, 800))
		case 4:
			td.Hours = int64(r.Range(-100, 100))
		case 5:
			td.Minutes = int64(r.Range(-3000, 3000))
		case 6:
			td.Seconds = int64(r.Range(-100000, 100000))
		case 7:
			td.Microseconds = int64(r.Range(-3000000, 3000000))
		case 8: // composite day-time (DAY_SECOND …)
			td.Days, td.Hours, td.Minutes, td.Seconds, td.Microseconds = int64(r.Intn(40)), int64(r.Intn(30)), int64(r.Intn(70)), int64(r.Intn(70)), int64(r.Intn(2000000))
		case 9: // API-only: years and months together
			td.Years, td.Months = small(), int64(r.Range(-30, 30))
			if r.Chance(1, 4) {
				td.Days = small()
			}
		}
		return td
	}
	for i := 0; i < 12000*scale; i++ {
		sign := 1
		if r.Bool() {
			sign = -1
		}
		deltaCase(randDelta(), sign, randValid(r, false))
	}
	for i := 0; i < 8000*scale; i++ {
		addsubCase(randDelta(), randValid(r, false))
	}
	if a.Thorough { // every day 1900..2100 × every month interval −24..24
		start := time.Date(1900, 1, 1, 0, 0, 0, 0, time.UTC)
		for d := 0; d < 73414; d++ {
			f := fieldsOf(start.AddDate(0, 0, d))
			for m := -24; m <= 24; m++ {
				if m != 0 {
					deltaCase(expression.TimeDelta{Months: int64(m)}, 1, f)
				}
			}
		}
	}

	// ================= datediff / tsdiff =================
	for i := 0; i < 6000*scale; i++ {
		f1 := randValid(r, false)
		f2 := randValid(r, false)
		if r.Chance(1, 3) { // near each other
			f2 = fieldsOf(f1.time().AddDate(0, 0, r.Range(-40, 40)).Add(time.Duration(r.Range(-90000, 90000)) * time.Second))
		}
		if f2.y < 0 || f2.y > 9999 {
			continue
		}
		datediffCase(f1, f2)
	}
	for i := 0; i < 10000*scale; i++ {
		f1 := randValid(r, true)
		f2 := randValid(r, true)
		switch r.Intn(4) {
		case 0:
			f2 = fieldsOf(f1.time().Add(time.Duration(r.Range(-4000000, 4000000)) * time.Millisecond))
		case 1: // same day of month, nearby clock: the month tie-break
			f2 = f1
			f2.mo = r.Range(1, 12)
			f2.y += r.Range(-2, 2)
			if f2.d > daysIn(f2.y, f2.mo) {
				f2.d = daysIn(f2.y, f2.mo)
			}
			switch r.Intn(4) {
			case 0:
				f2.mi = r.Intn(60)
			case 1:
				f2.s = r.Intn(60)
			case 2:
				f2.h = r.Intn(24)
			case 3:
				f2.ns = r.Intn(1000000) * 1000
			}
		}
		if f2.y < 0 || f2.y > 9999 {
			continue
		}
		tsdiffCase(hx.Pick(r, units), f1, f2)
	}

	// ================= sqlx: SQL functions vs. unit functions on the real engine =================
	nsql := 300 * scale
	if nsql > 4000 {
		nsql = 4000
	}
	for i := 0; i < nsql; i++ {
		f1, f2 := randValid(r, true), randValid(r, true)
		if r.Chance(1, 6) { // the year classes around the four-digit boundary, directly
			f1.y = hx.Pick(r, []int{1, 9, 10, 99, 100, 999, 1000, 1001, r.Range(1, 999), r.Range(1, 999), r.Range(950, 1050)})
			if f1.d > daysIn(f1.y, f1.mo) {
				f1.d = daysIn(f1.y, f1.mo)
			}
		}
		if r.Chance(1, 2) {
			f2 = fieldsOf(f1.time().AddDate(0, r.Range(-14, 14), r.Range(-40, 40)).Add(time.Duration(r.Range(-90000, 90000)) * time.Second))
		}
		if f1.y < 1 || f2.y < 1 || f2.y > 9999 {
			continue
		}
		t1, t2 := f1.time(), f2.time()
		sqlx("datediff", hx.List(f1.sexp(), f2.sexp()), fmt.Sprintf("SELECT DATEDIFF('%s','%s')", dtLit(t1), dtLit(t2)),
			evalInt(function.NewDateDiff(ctx, lit(t1), lit(t2))))
		u := hx.Pick(r, units)
		sqlx("tsdiff", hx.List(u, f1.sexp(), f2.sexp()), fmt.Sprintf("SELECT TIMESTAMPDIFF(%s,'%s','%s')", strings.ToUpper(u), dtLit(t1), dtLit(t2)),
			evalInt(function.NewTimestampDiff(ctx, expression.NewLiteral(u, types.LongText), lit(t1), lit(t2))))
		// DATE_ADD / DATE_SUB with one unit
		{
			ud := hx.Pick(r, unitDeltas)
			n := int64(r.Range(-50, 50))
			fn := "DATE_ADD"
			if r.Bool() {
				fn = "DATE_SUB"
			}
			dateaddCase(fn, ud, n, f1)
		}
		if r.Chance(1, 8) { // around the lower end of the result range: from the first weeks of the year 0 backwards
			f0 := fieldsOf(time.Date(0, 1, 1, 0, 0, 0, 0, time.UTC).AddDate(0, 0, r.Range(0, 45)).Add(time.Duration(r.Range(0, 86399)) * time.Second))
			switch r.Intn(3) {
			case 0:
				dateaddCase("DATE_SUB", unitNamed("DAY"), int64(r.Range(0, 90)), f0)
			case 1:
				dateaddCase("DATE_ADD", unitNamed("HOUR"), int64(-r.Range(0, 2200)), f0)
			default:
				dateaddCase(hx.Pick(r, []string{"DATE_ADD", "DATE_SUB"}), hx.Pick(r, unitDeltas), int64(r.Range(-3, 3)), f0)
			}
		}
		// the text of the value itself, in one of the temporal types
		dttextCase(hx.Pick(r, sqlKinds), f1)
		// DATE_FORMAT
		format := randFormat(r, "cDdefHhIikMmprSsTYyaWjb", r.Range(1, 4))
		format = strings.NewReplacer("'", "", "\\", "").Replace(format)
		if _, s, ok := fmtObs(format, t1); ok {
			sqlx("dateformat", hx.List(hx.HexS(format), f1.sexp()), fmt.Sprintf("SELECT DATE_FORMAT(CAST('%s' AS DATETIME(6)), '%s')", dtLit(t1), format), s)
		}
		// STR_TO_DATE with a full datetime format: the SQL value is the unit-level instant (or NULL on error)
		pf := hx.Pick(r, []string{"%Y-%m-%d %H:%i:%s", "%d/%m/%Y %H.%i.%s", "%Y%m%d %T"})
		g := f1
		g.ns = 0
		if r.Chance(1, 4) {
			g.d = daysIn(g.y, g.mo) + 1 // invalid day: both levels shift alike (listed finding), or both reject
		}
		text := ""
		switch pf {
		case "%Y-%m-%d %H:%i:%s":
			text = fmt.Sprintf("%04d-%02d-%02d %02d:%02d:%02d", g.y, g.mo, g.d, g.h, g.mi, g.s)
		case "%d/%m/%Y %H.%i.%s":
			text = fmt.Sprintf("%02d/%02d/%04d %02d.%02d.%02d", g.d, g.mo, g.y, g.h, g.mi, g.s)
		default:
			text = fmt.Sprintf("%04d%02d%02d %02d:%02d:%02d", g.y, g.mo, g.d, g.h, g.mi, g.s)
		}
		strtodateCase(text, pf)
		// CAST of a text with an impossible day: must be NULL / an error / carry a warning
		if r.Chance(1, 3) {
			bad := fmt.Sprintf("%04d-%02d-%02d", f1.y, f1.mo, daysIn(f1.y, f1.mo)+1)
			c2 := e.Ctx()
			res := e.Query(c2, fmt.Sprintf("SELECT CAST('%s' AS DATE)", bad))
			obs := "consistent"
			if res.Class() == "ok" && len(res.Rows) == 1 && res.Rows[0][0] != "NULL" {
				w := e.Query(eng.SameSession(c2), "SHOW WARNINGS")
				if len(w.Rows) == 0 {
					obs = fmt.Sprintf("inconsistent: CAST('%s' AS DATE) = %s without error or warning", bad, res.Rows[0][0])
				} else {
					out.Stat("sqlx:cast-invalid-day-changed-with-warning")
				}
			}
			out.Case(hx.List("sqlx", "cast", hx.HexS(bad)), obs, true)
			out.Stat("sqlx:cast")
		}
	}
	return nil
}

// mixSeed decorrelates consecutive seeds: hx.NewRand(n+1) is hx.NewRand(n) advanced by one step,
// so neighbouring VERIF_SEEDs would otherwise replay almost the same stream.
func mixSeed(s uint64) uint64 {
	z := s + 0x632BE59BD9B4E019
	z = (z ^ (z >> 30)) * 0xBF58476D1CE4E5B9
	z = (z ^ (z >> 27)) * 0x94D049BB133111EB
	return z ^ (z >> 31)
}

func deltaSexp(td expression.TimeDelta) string {
	return fmt.Sprintf("%d %d %d %d %d %d %d", td.Years, td.Months, td.Days, td.Hours, td.Minutes, td.Seconds, td.Microseconds)
}
