package main

import (
	"fmt"
	"go/ast"
	"go/token"
	"sort"
	"strconv"
	"strings"

	"github.com/dolthub/go-mysql-server/sql/sqlredact"
	"github.com/dolthub/go-mysql-server/verifharness/hx"
	"github.com/dolthub/vitess/go/vt/sqlparser"
)

// Token-type constants the redactor may name; values come from the sqlparser package the
// harness was compiled against (the same one /repo's go.mod pins).
var tokConst = map[string]int{
	"ID": sqlparser.ID, "STRING": sqlparser.STRING, "INTEGRAL": sqlparser.INTEGRAL, "FLOAT": sqlparser.FLOAT,
	"HEXNUM": sqlparser.HEXNUM, "HEX": sqlparser.HEX, "BIT_LITERAL": sqlparser.BIT_LITERAL,
	"VALUE_ARG": sqlparser.VALUE_ARG, "LIST_ARG": sqlparser.LIST_ARG, "COMMENT": sqlparser.COMMENT,
	"LEX_ERROR": sqlparser.LEX_ERROR, "NULL": sqlparser.NULL, "TRUE": sqlparser.TRUE, "FALSE": sqlparser.FALSE,
	"COMMENT_KEYWORD": sqlparser.COMMENT_KEYWORD,
}

func leanStrList(xs []string) string {
	p := make([]string, len(xs))
	for i, x := range xs {
		p[i] = hx.LeanString(x)
	}
	return "[" + strings.Join(p, ", ") + "]"
}

// callSig summarises a statement list as the sequence of writes it performs:
//
//	b:<c>  out.WriteByte('<c>')      s:<txt>  out.WriteString("<txt>")     RAW  out.Write(val)
//	V      out.WriteString(m.RedactValue(string(val)))    N  out.WriteString(m.RedactIdent(string(val)))
//	I      emitIdent(out, val, m)    S  emitStructural(out, typ, val)      ret  return
//	if(<cond>){…}  nested
func callSig(src *hx.Src, stmts []ast.Stmt) (string, error) {
	var parts []string
	for _, st := range stmts {
		switch s := st.(type) {
		case *ast.ExprStmt:
			call, ok := s.X.(*ast.CallExpr)
			if !ok {
				return "", fmt.Errorf("line %d: unexpected expression statement %s", src.Line(st), src.Text(st))
			}
			txt := src.Text(call)
			switch {
			case txt == "emitIdent(out, val, m)":
				parts = append(parts, "I")
			case txt == "emitStructural(out, typ, val)":
				parts = append(parts, "S")
			case txt == "out.Write(val)":
				parts = append(parts, "RAW")
			case txt == "out.WriteString(m.RedactValue(string(val)))":
				parts = append(parts, "V")
			case txt == "out.WriteString(m.RedactIdent(string(val)))":
				parts = append(parts, "N")
			case txt == "out.WriteByte(byte(typ))":
				parts = append(parts, "TYPBYTE")
			case txt == "out.WriteString(s)":
				parts = append(parts, "SYM")
			case strings.HasPrefix(txt, "out.WriteByte(") && len(call.Args) == 1:
				lit, ok := call.Args[0].(*ast.BasicLit)
				if !ok || lit.Kind != token.CHAR {
					return "", fmt.Errorf("line %d: WriteByte of a non-literal: %s", src.Line(st), txt)
				}
				c, _, _, err := strconv.UnquoteChar(lit.Value[1:len(lit.Value)-1], '\'')
				if err != nil {
					return "", err
				}
				parts = append(parts, "b:"+string(c))
			case strings.HasPrefix(txt, "out.WriteString(") && len(call.Args) == 1:
				lit, ok := call.Args[0].(*ast.BasicLit)
				if !ok || lit.Kind != token.STRING {
					return "", fmt.Errorf("line %d: WriteString of a non-literal: %s", src.Line(st), txt)
				}
				v, _ := strconv.Unquote(lit.Value)
				parts = append(parts, "s:"+v)
			default:
				return "", fmt.Errorf("line %d: unexpected call %s", src.Line(st), txt)
			}
		case *ast.IfStmt:
			cond := src.Text(s.Cond)
			if s.Init != nil {
				cond = src.Text(s.Init) + "; " + cond
			}
			inner, err := callSig(src, s.Body.List)
			if err != nil {
				return "", err
			}
			if s.Else != nil {
				return "", fmt.Errorf("line %d: unexpected else", src.Line(st))
			}
			parts = append(parts, "if("+cond+"){"+inner+"}")
		case *ast.ReturnStmt:
			parts = append(parts, "ret "+strings.TrimSpace(strings.TrimPrefix(src.Text(s), "return")))
		case *ast.BranchStmt:
			parts = append(parts, strings.ToLower(s.Tok.String()))
		default:
			return "", fmt.Errorf("line %d: unexpected statement %s", src.Line(st), src.Text(st))
		}
	}
	return strings.Join(parts, " "), nil
}

func extract(a hx.ExtractArgs) error {
	src, err := hx.ParseSrc(a.Repo, "sql/sqlredact/redactor.go")
	if err != nil {
		return err
	}
	msrc, err := hx.ParseSrc(a.Repo, "sql/sqlredact/mapping.go")
	if err != nil {
		return err
	}
	lf := hx.NewLeanFile("Gms.Generated.C45", src.Path, msrc.Path)

	// --- emitToken: switch typ { case … } ---------------------------------------------------
	fd, err := src.Func("", "emitToken")
	if err != nil {
		return err
	}
	if len(fd.Body.List) != 1 {
		return fmt.Errorf("emitToken: body is no longer a single switch")
	}
	sw, ok := fd.Body.List[0].(*ast.SwitchStmt)
	if !ok || src.Text(sw.Tag) != "typ" {
		return fmt.Errorf("emitToken: `switch typ` not found")
	}
	var arms []string
	for _, c := range sw.Body.List {
		cc := c.(*ast.CaseClause)
		var names []string
		for _, e := range cc.List {
			sel, ok := e.(*ast.SelectorExpr)
			if !ok || src.Text(sel.X) != "sqlparser" {
				return fmt.Errorf("emitToken: case label %s is not a sqlparser constant", src.Text(e))
			}
			v, ok := tokConst[sel.Sel.Name]
			if !ok {
				return fmt.Errorf("emitToken: unknown token constant sqlparser.%s", sel.Sel.Name)
			}
			names = append(names, fmt.Sprintf("(%s, %d)", hx.LeanString(sel.Sel.Name), v))
		}
		sig, err := callSig(src, cc.Body)
		if err != nil {
			return fmt.Errorf("emitToken: %v", err)
		}
		arms = append(arms, fmt.Sprintf("  ([%s], %s)", strings.Join(names, ", "), hx.LeanString(sig)))
	}
	lf.Comment("emitToken: case labels (name, value of the constant) ↦ what the arm writes; [] = default")
	lf.Raw("def emitSwitch : List (List (String × Nat) × String) := [\n" + strings.Join(arms, ",\n") + "]\n")

	// --- emitIdent / emitStructural -----------------------------------------------------------
	for _, fn := range []string{"emitIdent", "emitStructural"} {
		f, err := src.Func("", fn)
		if err != nil {
			return err
		}
		sig, err := callSig(src, f.Body.List)
		if err != nil {
			return fmt.Errorf("%s: %v", fn, err)
		}
		lf.DefString(fn+"Body", sig)
	}

	// --- symbolOps: dumped from the compiled package ------------------------------------------
	ops := sqlredact.VerifSymbolOps()
	keys := make([]int, 0, len(ops))
	for k := range ops {
		keys = append(keys, k)
	}
	sort.Ints(keys)
	var sp []string
	for _, k := range keys {
		sp = append(sp, fmt.Sprintf("(%d, %s)", k, hx.LeanString(ops[k])))
	}
	lf.Raw("def symbolOps : List (Nat × String) := [" + strings.Join(sp, ", ") + "]\n")

	// --- the loop of RedactSQLForTraceInto ------------------------------------------------------
	rf, err := src.Func("", "RedactSQLForTraceInto")
	if err != nil {
		return err
	}
	var pre []string // `if` statements before the loop
	var loop *ast.ForStmt
	for _, st := range rf.Body.List {
		switch s := st.(type) {
		case *ast.IfStmt:
			if loop == nil {
				sig, err := callSig(src, []ast.Stmt{s})
				if err != nil {
					// `if m == nil { m = NewMapping() }` is an assignment: record its text
					sig = "if(" + src.Text(s.Cond) + "){" + strings.TrimSpace(src.Text(s.Body.List[0])) + "}"
				}
				pre = append(pre, sig)
			}
		case *ast.ForStmt:
			loop = s
		}
	}
	if loop == nil || loop.Cond != nil {
		return fmt.Errorf("RedactSQLForTraceInto: `for { … }` loop not found")
	}
	lf.DefStringList("preLoopGuards", pre)
	var body []string
	for _, st := range loop.Body.List {
		switch s := st.(type) {
		case *ast.IfStmt:
			sig, err := callSig(src, []ast.Stmt{s})
			if err != nil {
				sig = "if(" + src.Text(s.Cond) + "){" + strings.TrimSpace(src.Text(s.Body.List[0])) + "}"
			}
			body = append(body, sig)
		default:
			body = append(body, strings.TrimSpace(src.Text(st)))
		}
	}
	lf.DefStringList("loopBody", body)
	var tail []string
	seenLoop := false
	for _, st := range rf.Body.List {
		if st == ast.Stmt(loop) {
			seenLoop = true
			continue
		}
		if seenLoop {
			tail = append(tail, strings.TrimSpace(src.Text(st)))
		}
	}
	lf.DefStringList("afterLoop", tail)
	// scan source and parse source must be the same string
	parseArg, scanArg := "", ""
	ast.Inspect(rf.Body, func(n ast.Node) bool {
		if c, ok := n.(*ast.CallExpr); ok && len(c.Args) == 1 {
			switch src.Text(c.Fun) {
			case "sqlparser.Parse":
				parseArg = src.Text(c.Args[0])
			case "sqlparser.NewStringTokenizer":
				scanArg = src.Text(c.Args[0])
			}
		}
		return true
	})
	lf.DefStringList("parseAndScanArgs", []string{parseArg, scanArg})

	mk, err := src.PkgVarInit("UnparseableMarker")
	if err != nil {
		return err
	}
	ml, ok := mk.(*ast.BasicLit)
	if !ok {
		return fmt.Errorf("UnparseableMarker is not a literal")
	}
	mv, _ := strconv.Unquote(ml.Value)
	lf.DefString("unparseableMarker", mv)

	// --- collectIdents: the type switch --------------------------------------------------------
	cf, err := src.Func("", "collectIdents")
	if err != nil {
		return err
	}
	var tcases []string
	ast.Inspect(cf.Body, func(n ast.Node) bool {
		ts, ok := n.(*ast.TypeSwitchStmt)
		if !ok {
			return true
		}
		for _, c := range ts.Body.List {
			cc := c.(*ast.CaseClause)
			var ts []string
			for _, e := range cc.List {
				ts = append(ts, src.Text(e))
			}
			var bs []string
			for _, st := range cc.Body {
				bs = append(bs, strings.Join(strings.Fields(src.Text(st)), " "))
			}
			tcases = append(tcases, strings.Join(ts, ",")+" => "+strings.Join(bs, "; "))
		}
		return false
	})
	lf.DefStringList("collectIdentsCases", tcases)

	// --- mapping.go: RedactIdent / RedactValue ------------------------------------------------
	for _, fn := range []string{"RedactIdent", "RedactValue"} {
		f, err := msrc.Func("Mapping", fn)
		if err != nil {
			return err
		}
		var steps []string
		for _, st := range f.Body.List {
			steps = append(steps, strings.Join(strings.Fields(msrc.Text(st)), " "))
		}
		lf.DefStringList("steps"+fn, steps)
	}
	return lf.Write(a.Out)
}
