// C45 — Trace redaction never leaks identifiers or literals (sql/sqlredact).
package main

import (
	"fmt"
	"sort"
	"strconv"
	"strings"
	"sync"

	"github.com/dolthub/go-mysql-server/sql/sqlredact"
	"github.com/dolthub/go-mysql-server/verifharness/hx"
	"github.com/dolthub/vitess/go/vt/sqlparser"
)

func main() { hx.Main(extract, run) }

// ---------------------------------------------------------------------------------------------
// Statement templates. A slot is <Kn>: K = class letter, n = variable number (same variable ⇒
// same lexeme).
//
//	N  name whose AST node is a TableIdent/ColIdent reached by Walk (must be redacted)
//	D  name in a CREATE/ALTER TABLE / CREATE INDEX definition          (listed class 1)
//	O  name of a stored object / prepared statement / procedure local   (listed class 2)
//	U  account, role, grant object or SHOW … FROM database name         (listed class 3)
//	W  name in a clause Walk does not descend into                      (listed class 4)
//	S I F H Y B  literal: string, integer, float, 0x-number, X'..', b'..'
//	V  user/system variable name (written after @ or @@), A  bind placeholder, C  comment
var templates = []string{
	"SELECT <N1>, <N2> FROM <N3> WHERE <N4> = <S1> AND <N5> = <I1>",
	"SELECT <N1>.<N2>, <N3>.* FROM <N1> JOIN <N3> ON <N1>.<N2> = <N3>.<N4> WHERE <N3>.<N5> > <F1>",
	"SELECT <N1> AS <N2> FROM <N3> AS <N4> WHERE <N4>.<N1> IN (<I1>, <I2>, <I1>) ORDER BY <N2> LIMIT <I3>",
	"SELECT <N1>(<N2>), count(*) FROM <N3> GROUP BY <N2> HAVING count(*) > <I1>",
	"SELECT * FROM <N1>.<N2> <N3> WHERE <N3>.<N4> LIKE <S1> OR <N4> IS NULL",
	"SELECT <H1>, <Y1>, <B1>, <F1>, <I1>, <S1>, <A1> FROM <N1>",
	"SELECT <N1> FROM <N2> WHERE <N1> BETWEEN <I1> AND <I2> <C> AND <N3> <=> <S1>",
	"SELECT <N1> <C> FROM <N2> WHERE <N1> != <A1> AND <N3> >= <A2> OR <N3> <= <I1> AND <N1> <> <S1>",
	"SELECT <N1>-><S1>, <N1>->><S2>, <N2> << <I1>, <N2> >> <I2> FROM <N3>",
	"WITH <N1> AS (SELECT <I1> AS <N2>) SELECT <N2> FROM <N1>",
	"SELECT * FROM <N1> JOIN <N2> USING (<N3>) WHERE <N1>.<N3> && <N2>.<N4> || <N5>",
	"SELECT * FROM (SELECT <N1> FROM <N2>) <N3> WHERE EXISTS (SELECT <I1> FROM <N4> WHERE <N4>.<N5> = <N3>.<N1>)",
	"SELECT sum(<N1>) OVER (PARTITION BY <N2> ORDER BY <N3>) FROM <N4>",
	"SELECT CASE WHEN <N1> = <S1> THEN <I1> ELSE <I2> END, CAST(<N2> AS SIGNED), DATE <S2> FROM <N3>",
	"SELECT * FROM <N1> USE INDEX (<N2>) WHERE <N3> = <S1>",
	"SELECT <N1> FROM <N2> UNION SELECT <N3> FROM <N4> ORDER BY <I1>",
	"SELECT <S1> <S2>, _utf8mb4<S3>, -<I1>, +<F1> FROM dual",
	"SELECT @<V1>, @@<V2>, @@session.<V3> FROM <N3>",
	"INSERT INTO <N1> (<N2>, <N3>) VALUES (<I1>, <S1>), (<I2>, DEFAULT)",
	"INSERT INTO <N1> SELECT * FROM <N2> ON DUPLICATE KEY UPDATE <N3> = <I1>",
	"REPLACE INTO <N1> (<N2>) VALUES (<Y1>), (<B1>), (<H1>)",
	"UPDATE <N1> SET <N2> = <S1>, <N3> = <N3> + <I1> WHERE <N4> > <I1>",
	"UPDATE <N1> JOIN <N2> ON <N1>.<N3> = <N2>.<N3> SET <N1>.<N4> = <F1>",
	"DELETE FROM <N1> WHERE <N2> IS NOT NULL AND <N3> IN (SELECT <N3> FROM <N4>) LIMIT <I1>",
	"DROP TABLE <N1>, <N2>",
	"DROP TABLE IF EXISTS <N1>.<N2>",
	"RENAME TABLE <N1> TO <N2>",
	"TRUNCATE TABLE <N1>",
	"ANALYZE TABLE <N1>",
	"SHOW CREATE TABLE <N1>",
	"SHOW COLUMNS FROM <N1>",
	"DESCRIBE <N1>",
	"USE <N1>",
	"SET @<V1> = <I1>, <N2> = <S1>",
	"SET SESSION <N1> = <I1>",
	"LOCK TABLES <N1> READ",
	"LOAD DATA INFILE <S1> INTO TABLE <N1>",
	"SELECT <N1> FROM <N2> INTO OUTFILE <S1>",
	"SAVEPOINT <N1>",
	"ROLLBACK TO SAVEPOINT <N1>",
	"KILL QUERY <I1>",
	"SELECT * FROM <N1> AS OF <S1>",
	"CALL <O1>(<I1>, <S1>, @<V1>)",
	"SELECT <I1>;",
	// listed class 1: DDL definitions
	"CREATE TABLE <N1> (<D1> int, <D2> varchar(<I1>) DEFAULT <S1>, PRIMARY KEY (<D1>))",
	"CREATE TABLE <N1> (<D1> int, <D2> int, KEY <D3> (<D1>), UNIQUE KEY <D4> (<D2>))",
	"CREATE TABLE <N1> (<D1> int, CONSTRAINT <D2> FOREIGN KEY (<D1>) REFERENCES <D3> (<D4>))",
	"CREATE TABLE <N1> (<D1> int CHECK (<D3> > <I1>), <D2> text COMMENT <S1>)",
	"CREATE TABLE <N1> LIKE <D1>",
	"ALTER TABLE <N1> ADD COLUMN <D1> int",
	"ALTER TABLE <N1> DROP COLUMN <D1>",
	"ALTER TABLE <N1> RENAME COLUMN <D1> TO <D2>",
	"ALTER TABLE <N1> ADD INDEX <D1> (<N2>)",
	"ALTER TABLE <N1> MODIFY COLUMN <D1> bigint NOT NULL DEFAULT <I1>",
	"CREATE INDEX <D1> ON <N1> (<N2>)",
	// listed class 2: stored objects
	"CREATE TRIGGER <O1> BEFORE INSERT ON <N1> FOR EACH ROW SET NEW.<O2> = <I1>",
	"CREATE PROCEDURE <O1>() BEGIN DECLARE <O2> INT; SET <O2> = <I1>; END",
	"CREATE PROCEDURE <O1>(<O2> INT) SELECT <O3> FROM <O4> WHERE <O3> = <S1>",
	"CREATE EVENT <O1> ON SCHEDULE EVERY <I1> DAY DO SELECT <I2>",
	"CREATE VIEW <O1> AS SELECT <N1> FROM <N2>",
	"PREPARE <O1> FROM <S1>",
	"EXECUTE <O1> USING @<V1>",
	"DEALLOCATE PREPARE <O1>",
	"DROP PROCEDURE <O1>",
	"DROP TRIGGER <O1>",
	"DROP VIEW <O1>",
	// listed class 3: accounts and grants
	"CREATE USER <U1>",
	"CREATE USER <U1>@<U2> IDENTIFIED BY <S1>",
	"CREATE ROLE <U1>",
	"DROP USER <U1>",
	"SHOW GRANTS FOR <U1>",
	"GRANT SELECT ON <U1>.<U2> TO <U3>@<U4>",
	"REVOKE INSERT ON <U1>.<U2> FROM <U3>",
	"SHOW TABLES FROM <U1>",
	// listed class 4: clauses Walk does not reach
	"SELECT * FROM <N1> PARTITION (<W1>)",
	"SELECT <N1> FROM <N2> WINDOW <W1> AS (ORDER BY <N1>)",
	"SELECT * FROM JSON_TABLE(<S1>, <S2> COLUMNS (<N1> INT PATH <S3>)) AS <W1>",
	"EXPLAIN SELECT <W1> FROM <W2> WHERE <W3> = <S1>",
	"EXPLAIN UPDATE <W1> SET <W2> = <I1>",
}

// Candidate non-reserved words; filtered at start-up against the compiled lexer and parser:
// kept iff the lexer gives a keyword token type and `SELECT w FROM w` parses.
var kwCandidates = strings.Fields(`account action after against aggregate algorithm always avg_row_length before begin
 bit bool boolean cascade catalog_name chain channel charset checksum cipher class_origin client close coalesce code
 collation column_name columns comment commit committed compact completion component compressed compression connection
 consistent constraint_catalog constraint_name constraint_schema contains contributors cursor_name data datetime date
 day definer definition delay_key_write description directory disable discard disk do dumpfile duplicate dynamic enable
 encryption end ends enforced engine engine_attribute engines enum error errors escape event events every exchange
 exclude execute expansion expire export extended fields file first fixed flush following format found full function
 general geometry global grants handler hash help history hosts hour identified import indexes insert_method instance
 invisible invoker isolation issuer json key_block_size language last level linestring list local locked logs master
 max_rows medium member memory merge message_text microsecond min_rows minute mode modify month mysql_errno name names
 national nchar never next no nowait nvarchar offset only open optimize options organization pack_keys partial
 partitioning password path persist plugins point polygon port precedes prepare preserve privileges processlist proxy
 quarter query random read_only rebuild redundant reference relay release reload remove reorganize repair repeatable
 replica replication require reset resource restart resume retain reuse role rollback routine row_format savepoint
 schedule schema_name second security sequence serial serializable session share signed slave slow soname source spatial
 sql_cache sql_no_cache start starts stats_auto_recalc stats_persistent stats_sample_pages status stop storage stream
 subclass_origin subject subpartition subpartitions super table_name tables tablespace temporary temptable text than
 time timestamp transaction trigger triggers truncate type unbounded uncommitted undefined undo unknown unused user
 user_resources validation value variables version view visible warnings week work wrapper x509 year zone`)

func isKeywordTyped(w string) bool {
	tk := sqlparser.NewStringTokenizer(w)
	typ, _ := tk.Scan()
	return typ != sqlparser.ID && typ != 0
}

func buildKeywordPool() []string {
	var pool []string
	for _, w := range kwCandidates {
		if !isKeywordTyped(w) {
			continue
		}
		if _, err := sqlparser.Parse("SELECT " + w + " FROM " + w); err != nil {
			continue
		}
		pool = append(pool, w)
	}
	return pool
}

// ---------------------------------------------------------------------------------------------
// Lexemes.

type lexKind int

const (
	kPlain lexKind = iota
	kKeyword
	kKeywordCase
	kQuoted
)

type nameLex struct {
	text string // as written in the SQL
	val  string // what the lexer reports
	kind lexKind
}

type gen struct {
	r    *hx.Rand
	kw   []string
	used map[string]bool // lexer vals already handed out in this session (all namespaces)
}

const lower = "abcdefghijklmnopqrstuvwxyz"
const alnum = "abcdefghijklmnopqrstuvwxyz0123456789"

func (g *gen) randWord(alpha string, n int) string {
	b := make([]byte, n)
	for i := range b {
		b[i] = alpha[g.r.Intn(len(alpha))]
	}
	return string(b)
}

func (g *gen) fresh(mk func() (string, string)) (string, string) {
	for i := 0; ; i++ {
		t, v := mk()
		if !g.used[strings.ToLower(v)] || i > 200 {
			g.used[strings.ToLower(v)] = true
			return t, v
		}
	}
}

func (g *gen) name(kind lexKind) nameLex {
	switch kind {
	case kKeyword, kKeywordCase:
		t, v := g.fresh(func() (string, string) {
			w := hx.Pick(g.r, g.kw)
			if kind == kKeywordCase {
				b := []byte(w)
				for i := range b {
					if g.r.Bool() && b[i] >= 'a' && b[i] <= 'z' {
						b[i] -= 32
					}
				}
				w = string(b)
			}
			return w, w
		})
		return nameLex{t, v, kind}
	case kQuoted:
		t, v := g.fresh(func() (string, string) {
			var c string
			switch g.r.Intn(4) {
			case 0:
				c = hx.Pick(g.r, []string{"select", "from", "where", "table", "order", "group", "key"}) // reserved word as a name
			case 1:
				c = g.randWord(lower, 3) + " " + g.randWord(alnum, 4) // blank inside
			case 2:
				c = g.randWord(lower, 2) + "`" + g.randWord(alnum, 3) // embedded backtick
			default:
				c = g.randWord(lower, 4) + "-" + g.randWord(alnum, 4)
			}
			return "`" + strings.ReplaceAll(c, "`", "``") + "`", c
		})
		return nameLex{t, v, kind}
	default:
		t, v := g.fresh(func() (string, string) {
			w := g.randWord(lower, g.r.Range(1, 4)) + "_" + g.randWord(alnum, g.r.Range(2, 5))
			if g.r.Chance(1, 4) {
				w = strings.ToUpper(w[:1]) + w[1:]
			}
			return w, w
		})
		return nameLex{t, v, kPlain}
	}
}

// literal returns the SQL text of a fresh literal of the given class and the val the lexer reports.
func (g *gen) literal(class byte) (string, string) {
	return g.fresh(func() (string, string) {
		switch class {
		case 'S':
			c := "Zq" + g.randWord(alnum, g.r.Range(3, 8))
			switch g.r.Intn(6) {
			case 0:
				return "'" + c + "''s'", c + "'s"
			case 1:
				return "\"" + c + " x\"", c + " x"
			case 2:
				return "'" + c + "\\n'", c + "\n"
			case 3:
				return "'" + c + "%'", c + "%"
			}
			return "'" + c + "'", c
		case 'I':
			v := strconv.Itoa(10000 + g.r.Intn(89999999))
			return v, v
		case 'F':
			v := strconv.Itoa(1000+g.r.Intn(8999)) + "." + strconv.Itoa(100+g.r.Intn(899))
			if g.r.Chance(1, 3) {
				v += "e" + strconv.Itoa(g.r.Intn(9))
			}
			return v, v
		case 'H':
			v := "0x" + g.randWord("0123456789abcdef", 2*g.r.Range(2, 5))
			return v, v
		case 'Y':
			v := g.randWord("0123456789ABCDEF", 2*g.r.Range(2, 5))
			if g.r.Bool() {
				return "X'" + v + "'", v
			}
			return "x'" + v + "'", v
		case 'B':
			v := g.randWord("01", g.r.Range(5, 14))
			return "b'" + v + "'", v
		}
		return "0", "0"
	})
}

// ---------------------------------------------------------------------------------------------
// Rendering a template under an assignment.

type slotInfo struct {
	class byte
	text  string
	val   string
	kind  lexKind
}

type assignment map[string]*slotInfo // key = class letter + number

var classRegion = map[byte]string{'D': "kwname_in_ddl_definition", 'O': "kwname_of_stored_object",
	'U': "kwname_of_account_or_grant", 'W': "kwname_in_unwalked_clause"}
var classNum = map[byte]string{'D': "1", 'O': "2", 'U': "3", 'W': "4"}

func slotsOf(tpl string) []string {
	var out []string
	seen := map[string]bool{}
	for i := 0; i < len(tpl); i++ {
		if tpl[i] == '<' {
			j := strings.IndexByte(tpl[i:], '>')
			if j > 1 && j <= 4 && tpl[i+1] >= 'A' && tpl[i+1] <= 'Z' && (j == 2 || (tpl[i+2] >= '0' && tpl[i+2] <= '9')) {
				k := tpl[i+1 : i+j]
				if !seen[k] {
					seen[k] = true
					out = append(out, k)
				}
				i += j
			}
		}
	}
	return out
}

func fixedWords(tpl string) map[string]bool {
	t := tpl
	for _, s := range slotsOf(tpl) {
		t = strings.ReplaceAll(t, "<"+s+">", " ")
	}
	w := map[string]bool{}
	for _, f := range strings.FieldsFunc(strings.ToLower(t), func(r rune) bool { return !(r >= 'a' && r <= 'z' || r == '_' || r >= '0' && r <= '9') }) {
		w[f] = true
	}
	return w
}

func render(tpl string, as assignment, comment string) string {
	s := tpl
	for k, si := range as {
		s = strings.ReplaceAll(s, "<"+k+">", si.text)
	}
	return strings.ReplaceAll(s, "<C>", comment)
}

// ---------------------------------------------------------------------------------------------
// Observing the real code.

type tokRec struct {
	typ int
	val string
}

type stmtObs struct {
	sql    string
	parsed bool
	idents []string
	toks   []tokRec
	out    string
	status string
}

func lexAll(sql string) []tokRec {
	var toks []tokRec
	tk := sqlparser.NewStringTokenizer(sql)
	for i := 0; i < 100000; i++ {
		typ, val := tk.Scan()
		if typ == 0 {
			break
		}
		toks = append(toks, tokRec{typ, string(val)})
		if typ == sqlparser.LEX_ERROR {
			break
		}
	}
	return toks
}

func errClass(err error) string {
	switch {
	case err == nil:
		return "ok"
	case err == sqlredact.ErrLexFailed:
		return "lex"
	default:
		return "parse"
	}
}

func showMap(m map[string]string, pfx string) string {
	keys := make([]string, 0, len(m))
	for k := range m {
		keys = append(keys, hx.HexS(k))
	}
	sort.Strings(keys)
	kv := map[string]string{}
	for k, v := range m {
		kv[hx.HexS(k)] = v
	}
	parts := make([]string, len(keys))
	for i, k := range keys {
		t := kv[k]
		if strings.HasPrefix(t, pfx) {
			t = t[len(pfx):]
		} else {
			t = "?" + t
		}
		parts[i] = k + "=" + t
	}
	return "[" + strings.Join(parts, " ") + "]"
}

func showMapping(m *sqlredact.Mapping) string {
	n, v := sqlredact.VerifCounters(m)
	return "I" + showMap(m.Idents(), "n") + " V" + showMap(m.Values(), "v") + fmt.Sprintf(" C[%d,%d]", n, v)
}

// mappingInvariant: the model-free part of the property on a Mapping.
func mappingInvariant(m *sqlredact.Mapping) string {
	n, v := sqlredact.VerifCounters(m)
	chk := func(mp map[string]string, pfx string, cnt int) string {
		if len(mp) != cnt {
			return fmt.Sprintf("%d entries but counter %d", len(mp), cnt)
		}
		seen := map[string]string{}
		for k, t := range mp {
			if o, dup := seen[t]; dup {
				return fmt.Sprintf("lexemes %q and %q share token %s", o, k, t)
			}
			seen[t] = k
			i, err := strconv.Atoi(strings.TrimPrefix(t, pfx))
			if err != nil || !strings.HasPrefix(t, pfx) || i < 1 || i > cnt {
				return fmt.Sprintf("token %q outside %s1..%s%d", t, pfx, pfx, cnt)
			}
		}
		return ""
	}
	if e := chk(m.Idents(), "n", n); e != "" {
		return "idents: " + e
	}
	if e := chk(m.Values(), "v", v); e != "" {
		return "values: " + e
	}
	return ""
}

func redactSession(sqls []string) ([]stmtObs, *sqlredact.Mapping, string) {
	m := sqlredact.NewMapping()
	var res []stmtObs
	crash := hx.Safe(func() {
		for _, q := range sqls {
			o := stmtObs{sql: q}
			ids, perr := sqlredact.VerifCollectIdents(q)
			o.parsed = perr == nil
			o.idents = ids
			if o.parsed {
				o.toks = lexAll(q)
			}
			out, err := sqlredact.RedactSQLForTraceInto(q, m)
			o.out, o.status = out, errClass(err)
			res = append(res, o)
		}
	})
	return res, m, crash
}

// ---------------------------------------------------------------------------------------------

type session struct {
	mutated bool
	tpls []string
	as   assignment
	cmts []string
}

func (g *gen) newSession(nStmts int, pKw int) session {
	g.used = map[string]bool{}
	s := session{as: assignment{}}
	fixed := map[string]bool{}
	for i := 0; i < nStmts; i++ {
		t := hx.Pick(g.r, templates)
		s.tpls = append(s.tpls, t)
		for w := range fixedWords(t) {
			fixed[w] = true
		}
		c := ""
		switch g.r.Intn(4) {
		case 0:
			c = "/* Zq" + g.randWord(alnum, 5) + " */"
		case 1:
			c = "-- Zq" + g.randWord(alnum, 5) + "\n"
		case 2:
			c = "# Zq" + g.randWord(alnum, 5) + "\n"
		}
		s.cmts = append(s.cmts, c)
	}
	for w := range fixed { // user lexemes never coincide with the templates' own words
		g.used[w] = true
	}
	for _, t := range s.tpls {
		for _, k := range slotsOf(t) {
			if _, ok := s.as[k]; ok || k == "C" {
				continue
			}
			si := &slotInfo{class: k[0]}
			switch k[0] {
			case 'N', 'D', 'O', 'U', 'W':
				kind := kPlain
				switch x := g.r.Intn(100); {
				case x < pKw:
					kind = kKeyword
				case x < pKw+8:
					kind = kKeywordCase
				case x < pKw+20:
					kind = kQuoted
				}
				nl := g.name(kind)
				si.text, si.val, si.kind = nl.text, nl.val, nl.kind
			case 'V': // user/system variable name: written after @ / @@, always one ID token
				nl := g.name(kPlain)
				si.text, si.val, si.kind = nl.text, nl.val, kPlain
			case 'A':
				switch g.r.Intn(3) {
				case 0:
					si.text = "?"
				case 1:
					si.text = ":v" + strconv.Itoa(1+g.r.Intn(9))
				default:
					si.text = "::" + g.randWord(lower, 3)
				}
				si.val = si.text
			default:
				si.text, si.val = g.literal(k[0])
			}
			s.as[k] = si
		}
	}
	return s
}

// twin: same templates, same lexeme kinds, same equality pattern, different lexemes.
func (g *gen) twin(s session) session {
	g2 := &gen{r: g.r, kw: g.kw, used: map[string]bool{}}
	for k := range g.used {
		g2.used[k] = true // also differs from every lexeme of the original
	}
	t := session{tpls: s.tpls, cmts: s.cmts, as: assignment{}}
	keys := make([]string, 0, len(s.as))
	for k := range s.as {
		keys = append(keys, k)
	}
	sort.Strings(keys)
	for _, k := range keys {
		si := s.as[k]
		ni := &slotInfo{class: si.class, kind: si.kind}
		switch si.class {
		case 'N', 'D', 'O', 'U', 'W':
			nl := g2.name(si.kind)
			ni.text, ni.val = nl.text, nl.val
		case 'V':
			nl := g2.name(kPlain)
			ni.text, ni.val = nl.text, nl.val
		case 'A':
			ni.text, ni.val = si.text, si.val
		default:
			ni.text, ni.val = g2.literal(si.class)
		}
		t.as[k] = ni
	}
	return t
}

func (s session) sqls() []string {
	out := make([]string, len(s.tpls))
	for i, t := range s.tpls {
		out[i] = render(t, s.as, s.cmts[i])
	}
	return out
}

// role of a lexer val under the assignment: "k", "n" or the listed class number.
func (s session) roles() map[string]string {
	roles := map[string]string{}
	for _, si := range s.as {
		switch si.class {
		case 'N':
			roles[si.val] = "n"
		}
	}
	for _, si := range s.as {
		if c, ok := classNum[si.class]; ok {
			if _, have := roles[si.val]; !have {
				roles[si.val] = c
			}
		}
	}
	return roles
}

func payloadOf(obs []stmtObs, roles map[string]string) string {
	parts := []string{"session"}
	for _, o := range obs {
		if !o.parsed {
			parts = append(parts, "(pf)")
			continue
		}
		toks := make([]string, len(o.toks))
		for i, t := range o.toks {
			role := "k"
			if r, ok := roles[t.val]; ok {
				role = r
			}
			toks[i] = hx.List(strconv.Itoa(t.typ), hx.HexS(t.val), role)
		}
		parts = append(parts, hx.List("st", hx.ListOf(o.idents, hx.HexS), "("+strings.Join(toks, " ")+")"))
	}
	return hx.List(parts...)
}

func implObs(obs []stmtObs, m *sqlredact.Mapping, crash string) string {
	if crash != "" {
		return "crash:" + crash
	}
	outs := make([]string, len(obs))
	for i, o := range obs {
		outs[i] = hx.HexS(o.out) + ":" + o.status
	}
	return "[" + strings.Join(outs, " ") + "] " + showMapping(m)
}

// leakOracle: no user lexeme may survive in a redacted output (model free).
func leakOracle(s session, obs []stmtObs) (string, string) {
	for _, o := range obs {
		if o.status != "ok" {
			if o.out != sqlredact.UnparseableMarker {
				return "-", fmt.Sprintf("failed redaction of %q published %q instead of the marker", o.sql, o.out)
			}
			continue
		}
		outToks := strings.Split(o.out, " ")
		for _, si := range s.as {
			if si.class == 'A' {
				continue
			}
			tag := "-"
			if r, ok := classRegion[si.class]; ok && isKeywordTyped(si.text) {
				tag = r // listed position class, and the lexer types the lexeme as a keyword
			}
			if !strings.Contains(o.sql, si.text) {
				continue
			}
			for _, ot := range outToks {
				bare := strings.Trim(ot, "`'")
				bare = strings.TrimPrefix(strings.TrimPrefix(strings.TrimPrefix(bare, ":"), "X'"), "B'")
				if bare == si.val || ot == si.text {
					return tag, fmt.Sprintf("lexeme %q (slot class %c) of %q appears in the redacted text %q", si.val, si.class, o.sql, o.out)
				}
			}
			if len(si.val) >= 6 && si.kind != kKeyword && si.kind != kKeywordCase && strings.Contains(o.out, si.val) { // high-entropy lexemes only
				return tag, fmt.Sprintf("lexeme %q (slot class %c) of %q is a substring of the redacted text %q", si.val, si.class, o.sql, o.out)
			}
		}
		for _, c := range s.cmts {
			if len(c) > 8 && strings.Contains(o.out, c[3:10]) {
				return "-", fmt.Sprintf("comment text of %q appears in %q", o.sql, o.out)
			}
		}
	}
	return "", ""
}

// structureOracle: one output token per non-comment input token.
func structureOracle(obs []stmtObs) string {
	for _, o := range obs {
		if o.status != "ok" {
			continue
		}
		n := 0
		skip := false
		for _, t := range o.toks {
			if t.typ == sqlparser.COMMENT {
				continue
			}
			n++
			if strings.Contains(t.val, " ") && (t.typ == sqlparser.FOR_SYSTEM_TIME || t.typ == sqlparser.FOR_VERSION || t.typ == sqlparser.NOT_ENFORCED) {
				skip = true
			}
		}
		if skip {
			continue
		}
		got := 0
		if o.out != "" {
			got = len(strings.Split(o.out, " "))
		}
		if got != n {
			return fmt.Sprintf("%q has %d non-comment tokens, redacted text %q has %d", o.sql, n, o.out, got)
		}
	}
	return ""
}

func run(a hx.RunArgs) error {
	out := hx.NewOut(a.OutDir)
	defer out.Close()
	out.Rule = "sessions of 1-3 statements redacted into one shared Mapping, instantiated from statement templates (DML, DDL, " +
		"routines, accounts, SHOW/SET/utility) with user lexemes drawn from plain names, non-reserved keywords (any case), " +
		"back-quoted names and every literal kind, plus comments and bind placeholders; mutated (token-deleted/duplicated/" +
		"truncated) variants; synthetic single tokens through emitToken; goroutines sharing a Mapping. A case is non-trivial " +
		"when at least one statement parses and both an identifier and a literal (or a keyword-typed name) were redacted"
	// hx.NewRand(s+1) is hx.NewRand(s) advanced by one step (state = seed*γ + c, step = +γ): fork through the
	// output hash so that different seeds give unrelated streams.
	r := hx.NewRand(a.Seed).Fork()
	g := &gen{r: r, kw: buildKeywordPool()}
	if len(g.kw) < 40 {
		return fmt.Errorf("only %d usable non-reserved keywords found; the lexer/parser changed shape", len(g.kw))
	}
	out.Extra["keyword_pool"] = len(g.kw)

	doSession := func(s session, sqls []string, twinOf *session) {
		obs, m, crash := redactSession(sqls)
		roles := s.roles()
		if s.mutated { // a mutation can turn a name into a genuine keyword (SHOW TABLE status): no ground truth
			roles = map[string]string{}
		}
		nontriv := false
		for _, o := range obs {
			if o.status == "ok" && strings.Contains(o.out, "`n") && (strings.Contains(o.out, "v1") || len(o.idents) > 0) {
				nontriv = true
			}
			out.Stat("stmt:" + o.status)
		}
		id := out.Case(payloadOf(obs, roles), implObs(obs, m, crash), nontriv)
		out.Stat("session")
		if crash != "" {
			out.OracleFail(id, "-", "redaction panicked: "+crash)
			return
		}
		if tag, d := leakOracle(s, obs); d != "" && !s.mutated {
			out.Stat("oracle:leak:" + tag)
			out.OracleFail(id, tag, d)
		}
		if d := structureOracle(obs); d != "" {
			out.OracleFail(id, "-", "token structure: "+d)
		}
		if d := mappingInvariant(m); d != "" {
			out.OracleFail(id, "-", "mapping: "+d)
		}
		for _, o := range obs {
			if o.status == "parse" && (o.out != sqlredact.UnparseableMarker) {
				out.OracleFail(id, "-", "parse failure did not yield the marker")
			}
		}
		if twinOf != nil {
			// noninterference, model free: same shape, different lexemes ⇒ byte-identical redacted text
			tobs, _, tcrash := redactSession(twinOf.sqls())
			if tcrash == "" && len(tobs) == len(obs) {
				for i := range obs {
					if obs[i].status != tobs[i].status {
						break // whether a keyword is accepted in a position is part of the shape: not comparable
					}
					if obs[i].out != tobs[i].out {
						tag := "-"
						if t, _ := leakOracle(s, obs[i:i+1]); t != "" {
							tag = t
						} else if t, _ := leakOracle(*twinOf, tobs[i:i+1]); t != "" {
							tag = t
						}
						out.Stat("oracle:twin-differs:" + tag)
						out.OracleFail(id, tag, fmt.Sprintf("same shape, different lexemes: %q ↦ %q but %q ↦ %q", obs[i].sql, obs[i].out, tobs[i].sql, tobs[i].out))
						break
					}
				}
			}
		}
	}

	// --- corpus: witnesses of the listed findings and regression statements first ---------------
	corpus := []struct {
		tpl string
		kw  map[string]string
	}{
		{"CREATE TABLE <N1> (<D1> int, <D2> varchar(<I1>), KEY <D3> (<D1>))", map[string]string{"N1": "t_ab1", "D1": "status", "D2": "name", "D3": "data"}},
		{"CREATE TRIGGER <O1> BEFORE INSERT ON <N1> FOR EACH ROW SET NEW.<O2> = <I1>", map[string]string{"O1": "status", "N1": "t_ab1", "N2": "a_x1"}},
		{"GRANT SELECT ON <U1>.<U2> TO <U3>@<U4>", map[string]string{"U1": "data", "U2": "status", "U3": "account", "U4": "localhost"}},
		{"EXPLAIN SELECT <W1> FROM <W2> WHERE <W3> = <S1>", map[string]string{"W1": "name", "W2": "status", "W3": "data"}},
		{"SELECT <N1>, <N2> FROM <N3> WHERE <N4> = <S1> AND <N5> = <I1>", map[string]string{"N1": "a_x1", "N2": "status", "N3": "t_ab1", "N4": "name", "N5": "Data"}},
		{"UPDATE <N1> SET <N2> = <S1>, <N3> = <N3> + <I1> WHERE <N4> > <I1>", map[string]string{"N1": "t_ab1", "N2": "status", "N3": "name", "N4": "data"}},
	}
	for _, c := range corpus {
		g.used = map[string]bool{}
		s := session{tpls: []string{c.tpl}, cmts: []string{""}, as: assignment{}}
		for _, k := range slotsOf(c.tpl) {
			si := &slotInfo{class: k[0]}
			if w, ok := c.kw[k]; ok {
				si.text, si.val, si.kind = w, w, kKeyword
				if !isKeywordTyped(w) {
					si.kind = kPlain
				}
				g.used[strings.ToLower(w)] = true
			} else {
				si.text, si.val = g.literal(k[0])
			}
			s.as[k] = si
		}
		tw := g.twin(s)
		doSession(s, s.sqls(), &tw)
	}
	for _, q := range []string{"", ";", "SELECT", "SELECT 1; SELECT status FROM name", "SELECT X'1F2'", "SELECT 'unterminated",
		"SELECT `` FROM t_1", "select 1 from t_1 for system_time as of '2020'", "/*!40101 SET NAMES utf8 */", "SELECT {d '2020-01-01'}",
		"SELECT 1abc FROM dual", "SELECT @`my var`, @'q'", "SELECT 'a' 'b' \"c\"", "SELECT 1 /* c1 */ -- c2"} {
		doSession(session{as: assignment{}}, []string{q}, nil)
		out.Stat("corpus-raw")
	}

	nSess, nMut, nEmit, nConc := 6000, 2500, 6000, 40
	if a.Thorough {
		nSess, nMut, nEmit, nConc = 700000, 250000, 300000, 1500
	}

	// --- generated sessions ------------------------------------------------------------------------
	for i := 0; i < nSess; i++ {
		n := 1
		if r.Chance(1, 4) {
			n = r.Range(2, 3)
		}
		s := g.newSession(n, hx.Pick(r, []int{0, 25, 25, 50, 80}))
		var tw *session
		if r.Chance(1, 2) {
			t := g.twin(s)
			tw = &t
		}
		doSession(s, s.sqls(), tw)
	}

	// --- mutated statements (mostly unparseable; whatever parses is compared token by token) ------
	for i := 0; i < nMut; i++ {
		s := g.newSession(1, 30)
		q := s.sqls()[0]
		switch r.Intn(6) {
		case 0:
			q = q[:r.Intn(len(q)+1)]
		case 1:
			f := strings.Fields(q)
			if len(f) > 1 {
				k := r.Intn(len(f))
				f = append(f[:k], f[k+1:]...)
			}
			q = strings.Join(f, " ")
		case 2:
			f := strings.Fields(q)
			k := r.Intn(len(f))
			f = append(f[:k+1], f[k:]...)
			q = strings.Join(f, " ")
		case 3:
			pos := r.Intn(len(q) + 1)
			q = q[:pos] + hx.Pick(r, []string{"'", "`", "\"", "/*", "X'1", ";", " 1x ", "\\", "\x00", "é", "@", "::", ":=", "{", "$"}) + q[pos:]
		case 4:
			q = strings.ToLower(q)
		case 5:
			q = q + "; " + g.newSession(1, 50).sqls()[0]
		}
		s.mutated = true
		doSession(s, []string{q}, nil)
		out.Stat("mutated")
	}

	// --- synthetic tokens straight through emitToken ---------------------------------------------
	special := []int{0, 1, 32, 39, 40, 42, 44, 46, 59, 61, 96, 255, 256, 257, 1000, 57346, sqlparser.LEX_ERROR, sqlparser.ID, sqlparser.STRING,
		sqlparser.INTEGRAL, sqlparser.FLOAT, sqlparser.HEXNUM, sqlparser.HEX, sqlparser.BIT_LITERAL, sqlparser.VALUE_ARG, sqlparser.LIST_ARG,
		sqlparser.COMMENT, sqlparser.COMMENT_KEYWORD, sqlparser.NULL, sqlparser.SELECT, sqlparser.ASSIGNMENT_OP, 65535, 70000}
	for k := range sqlredact.VerifSymbolOps() {
		special = append(special, k, k+1, k-1)
	}
	sort.Ints(special)
	emitCase := func(typ int, val string, ids []string) {
		m := sqlredact.NewMapping()
		var s string
		p := hx.Safe(func() { s = sqlredact.VerifEmitToken(typ, []byte(val), m, ids) })
		obs := hx.HexS(s) + " " + showMapping(m)
		if p != "" {
			obs = "crash:" + p
		}
		out.Case(hx.List("emit", strconv.Itoa(typ), hx.HexS(val), hx.ListOf(ids, hx.HexS)), obs, val != "")
		out.Stat("emit")
	}
	for _, t := range special {
		for _, v := range []string{"", "abc", "status"} {
			emitCase(t, v, []string{"status", "x"})
			emitCase(t, v, nil)
		}
	}
	for i := 0; i < nEmit; i++ {
		typ := hx.Pick(r, special)
		switch r.Intn(4) {
		case 0:
			typ = r.Intn(300)
		case 1:
			typ = 57340 + r.Intn(800)
		}
		ids := []string{}
		for k := r.Intn(3); k > 0; k-- {
			ids = append(ids, g.randWord("ab", r.Range(0, 2)))
		}
		sort.Strings(ids)
		emitCase(typ, g.randWord("ab", r.Range(0, 2)), ids)
	}

	// --- goroutines sharing one Mapping ------------------------------------------------------------
	for i := 0; i < nConc; i++ {
		nG, nK, nOps := r.Range(2, 8), r.Range(1, 12), r.Range(5, 60)
		type ret struct{ ns, key, tok string }
		m := sqlredact.NewMapping()
		rets := make([][]ret, nG)
		var wg sync.WaitGroup
		start := make(chan struct{})
		for gi := 0; gi < nG; gi++ {
			rr := r.Fork()
			wg.Add(1)
			go func(gi int) {
				defer wg.Done()
				<-start
				for k := 0; k < nOps; k++ {
					key := "k" + strconv.Itoa(rr.Intn(nK))
					switch rr.Intn(5) {
					case 0, 1:
						rets[gi] = append(rets[gi], ret{"i", key, m.RedactIdent(key)})
					case 2, 3:
						rets[gi] = append(rets[gi], ret{"v", key, m.RedactValue(key)})
					default:
						q := "SELECT " + key + " FROM t_" + key + " WHERE c = '" + key + "'"
						sqlredact.RedactSQLForTraceInto(q, m)
						_ = m.Idents()
					}
				}
			}(gi)
		}
		close(start)
		wg.Wait()
		n, v := sqlredact.VerifCounters(m)
		pairs := func(mp map[string]string, pfx string) string {
			keys := make([]string, 0, len(mp))
			for k := range mp {
				keys = append(keys, k)
			}
			sort.Strings(keys)
			ps := make([]string, len(keys))
			for i, k := range keys {
				ps[i] = hx.List(hx.HexS(k), strings.TrimPrefix(mp[k], pfx))
			}
			return "(" + strings.Join(ps, " ") + ")"
		}
		var rs []string
		for _, l := range rets {
			for _, x := range l {
				rs = append(rs, hx.List(x.ns, hx.HexS(x.key), x.tok[1:]))
			}
		}
		id := out.Case(hx.List("conc", strconv.Itoa(n), strconv.Itoa(v), pairs(m.Idents(), "n"), pairs(m.Values(), "v"), "("+strings.Join(rs, " ")+")"),
			fmt.Sprintf("ok %d %d", n, v), nK > 1)
		out.Stat("conc")
		if d := mappingInvariant(m); d != "" {
			out.OracleFail(id, "-", "concurrent mapping: "+d)
		}
	}
	return nil
}
