// C22 — character sets and collations: the envelope, the clause generators, the object snapshot
// (information_schema) and the comparison-behaviour probe of the round-trip oracle, and the facts
// dumped from the compiled code (sql/types/strings.go StringWithTableCollation).
package main

import (
	"fmt"
	"sort"
	"strings"

	"github.com/dolthub/vitess/go/sqltypes"
	"github.com/dolthub/vitess/go/vt/proto/query"

	"github.com/dolthub/go-mysql-server/sql"
	"github.com/dolthub/go-mysql-server/sql/types"
	"github.com/dolthub/go-mysql-server/verifharness/hx"
	"github.com/dolthub/go-mysql-server/verifharness/hx/eng"
)

// envelopeColls mirrors Gms.ShowCreate.collTable (names, in that order); character set and
// default flag are read from the compiled code (collInfo) and compared with the model's table by
// the obligation coll_table_match.
var envelopeColls = []string{
	"utf8mb4_0900_ai_ci", "utf8mb4_0900_bin", "utf8mb4_general_ci", "utf8mb4_bin", "utf8mb4_unicode_ci",
	"latin1_swedish_ci", "latin1_bin", "latin1_general_ci", "latin1_general_cs",
	"ascii_general_ci", "ascii_bin",
	"utf8mb3_general_ci", "utf8mb3_bin", "utf8mb3_unicode_ci",
	"utf16_general_ci", "utf16_bin",
}

type collInfo struct {
	name   string
	cs     string
	isDflt bool
	id     sql.CollationID
}

func loadColls() ([]collInfo, error) {
	var out []collInfo
	for _, n := range envelopeColls {
		id, err := sql.ParseCollation("", n, false)
		if err != nil {
			return nil, fmt.Errorf("collation %s of the envelope is unknown to the compiled code: %v", n, err)
		}
		out = append(out, collInfo{name: id.Name(), cs: id.CharacterSet().String(), isDflt: id.CharacterSet().DefaultCollation() == id, id: id})
	}
	return out, nil
}

type collEnv struct {
	all    []collInfo
	byName map[string]collInfo
	byCs   map[string][]collInfo
	dflt   map[string]collInfo
	css    []string
}

func newCollEnv() (*collEnv, error) {
	all, err := loadColls()
	if err != nil {
		return nil, err
	}
	ce := &collEnv{all: all, byName: map[string]collInfo{}, byCs: map[string][]collInfo{}, dflt: map[string]collInfo{}}
	for _, c := range all {
		ce.byName[c.name] = c
		if len(ce.byCs[c.cs]) == 0 {
			ce.css = append(ce.css, c.cs)
		}
		ce.byCs[c.cs] = append(ce.byCs[c.cs], c)
		if c.isDflt {
			ce.dflt[c.cs] = c
		}
	}
	for _, cs := range ce.css {
		if _, ok := ce.dflt[cs]; !ok {
			return nil, fmt.Errorf("the envelope lacks the default collation of character set %s", cs)
		}
	}
	return ce, nil
}

// resolve mirrors Gms.ShowCreate.resolveColl (used by the generator only, to classify cases for the statistics).
func (ce *collEnv) resolve(dflt collInfo, cs, coll string) (collInfo, bool) {
	switch {
	case coll != "":
		c, ok := ce.byName[coll]
		if !ok || (cs != "" && c.cs != cs) {
			return collInfo{}, false
		}
		return c, true
	case cs != "":
		c, ok := ce.dflt[cs]
		return c, ok
	}
	return dflt, true
}

// issue picks one of the ways a CREATE TABLE can say "collation c": COLLATE alone, CHARACTER SET + COLLATE,
// or (when c is its character set's default) CHARACTER SET alone.
func issue(r *hx.Rand, c collInfo) (cs, coll string) {
	switch k := r.Intn(3); {
	case k == 0 && c.isDflt:
		return c.cs, ""
	case k == 1:
		return c.cs, c.name
	}
	return "", c.name
}

// genTableColl: half of the tables keep the engine default; the others name a collation of the envelope.
func (ce *collEnv) genTableColl(r *hx.Rand, t *table) collInfo {
	engine := ce.byName[sql.Collation_Default.Name()]
	if r.Chance(1, 2) {
		return engine
	}
	c := hx.Pick(r, ce.all)
	t.cs, t.coll = issue(r, c)
	return c
}

// genColColl: a text column says nothing (inherits), or names — in one of the three forms — the default
// collation of the table's character set, another collation of that character set, the table collation
// itself, or any collation of the envelope (the classes the clause printer distinguishes).
func (ce *collEnv) genColColl(r *hx.Rand, tc collInfo, c *col) {
	var pick collInfo
	switch r.Intn(10) {
	case 0, 1, 2, 3:
		return
	case 4, 5:
		pick = ce.dflt[tc.cs]
	case 6:
		pick = hx.Pick(r, ce.byCs[tc.cs])
	case 7:
		pick = tc
	default:
		pick = hx.Pick(r, ce.all)
	}
	c.cs, c.coll = issue(r, pick)
}

func collClass(tc, cc collInfo, explicit bool) string {
	switch {
	case !explicit:
		return "coll:col-inherits"
	case cc.name == tc.name:
		return "coll:col-names-table-collation"
	case cc.cs != tc.cs && cc.isDflt:
		return "coll:col-other-charset-default"
	case cc.cs != tc.cs:
		return "coll:col-other-charset-nondefault"
	case cc.isDflt:
		return "coll:col-charset-default-under-other-table-collation"
	}
	return "coll:col-same-charset-nondefault"
}

// ---------------------------------------------------------------------------------------------
// The object, as the catalogue describes it.

// object describes the table the catalogue holds, read through the engine's own interfaces (sql.Table,
// sql.PrimaryKeyTable, sql.IndexAddressable): per column its name, type, character set and collation,
// nullability, key / auto-increment flags, default, generated / on-update expressions, extra and comment;
// the primary key's column order; every index with its column layout, prefix lengths, uniqueness, type
// and comment; the table's collation and comment.
func object(e *eng.Eng, ctx *sql.Context, name string) (string, error) {
	ctx = eng.SameSession(ctx)
	tbl, ok, err := e.DBs[0].GetTableInsensitive(ctx, name)
	if err != nil || !ok {
		return "", fmt.Errorf("table %q not found in the catalogue: %v", name, err)
	}
	var b strings.Builder
	dv := func(d *sql.ColumnDefaultValue) string {
		if d == nil {
			return "-"
		}
		return fmt.Sprintf("%q", d.String())
	}
	for i, c := range tbl.Schema(ctx) {
		cs, co := "-", "-"
		if twc, ok := c.Type.(sql.TypeWithCollation); ok && types.IsText(c.Type) {
			cs, co = twc.Collation().CharacterSet().String(), twc.Collation().Name()
		}
		fmt.Fprintf(&b, "col %d %q type=%q charset=%s collation=%s nullable=%v pk=%v autoinc=%v default=%s generated=%s onupdate=%s virtual=%v extra=%q comment=%q\n",
			i, c.Name, c.Type.String(), cs, co, c.Nullable, c.PrimaryKey, c.AutoIncrement, dv(c.Default), dv(c.Generated), dv(c.OnUpdate), c.Virtual, c.Extra, c.Comment)
	}
	if pkt, ok := tbl.(sql.PrimaryKeyTable); ok {
		fmt.Fprintf(&b, "pk-ordinals %v\n", pkt.PrimaryKeySchema(ctx).PkOrdinals)
	}
	if ia, ok := tbl.(sql.IndexAddressable); ok {
		idxs, err := ia.GetIndexes(ctx)
		if err != nil {
			return "", err
		}
		var lines []string
		for _, ix := range idxs {
			lines = append(lines, fmt.Sprintf("index %q cols=%q prefix=%v unique=%v spatial=%v fulltext=%v vector=%v type=%s comment=%q", ix.ID(), ix.Expressions(), ix.PrefixLengths(),
				ix.IsUnique(), ix.IsSpatial(), ix.IsFullText(), ix.IsVector(), ix.IndexType(), ix.Comment()))
		}
		sort.Strings(lines)
		b.WriteString(strings.Join(lines, "\n") + "\n")
	}
	comment := "-"
	if ct, ok := tbl.(sql.CommentedTable); ok {
		comment = fmt.Sprintf("%q", ct.Comment())
	}
	fmt.Fprintf(&b, "table charset=%s collation=%s comment=%s\n", tbl.Collation().CharacterSet().String(), tbl.Collation().Name(), comment)
	return b.String(), nil
}

// snapshot is the same object as a client sees it: information_schema.columns / statistics / tables (these
// queries cost ~20 ms each, so they run on the corpus and on a sample of the generated tables).
func snapshot(e *eng.Eng, ctx *sql.Context, name string) (string, error) {
	qs := []string{
		"SELECT column_name, ordinal_position, column_default, is_nullable, data_type, column_type, character_set_name, collation_name, column_key, extra, column_comment " +
			"FROM information_schema.columns WHERE table_schema = 'd' AND table_name = " + sqlStr(name) + " ORDER BY ordinal_position",
		"SELECT index_name, seq_in_index, column_name, non_unique, collation, sub_part, nullable, index_type, index_comment " +
			"FROM information_schema.statistics WHERE table_schema = 'd' AND table_name = " + sqlStr(name) + " ORDER BY index_name, seq_in_index",
		"SELECT table_collation, table_comment FROM information_schema.tables WHERE table_schema = 'd' AND table_name = " + sqlStr(name),
	}
	var b strings.Builder
	for i, q := range qs {
		r := e.Query(eng.SameSession(ctx), q)
		if r.Class() != "ok" {
			return "", fmt.Errorf("%s: %s %v", q, r.Class(), r.Err)
		}
		if (i == 0 || i == 2) && len(r.Rows) == 0 {
			return "", fmt.Errorf("%s: no rows", q)
		}
		fmt.Fprintf(&b, "[%d] %s\n", i, eng.Canon(r, true))
	}
	return b.String(), nil
}

// behaviour inserts one row ('abc' cut to the column length in every text column) and records, per text
// column, whether it equals the upper-cased value and the value with a trailing space under the column's
// collation. "" when the row cannot be inserted (the probe is then skipped on both sides).
func behaviour(e *eng.Eng, ctx *sql.Context, t *table) string {
	var vals, probes []string
	for _, c := range t.cols {
		switch c.ty.kind {
		case "int", "bigint", "tinyint", "decimal":
			vals = append(vals, "1")
		case "double":
			vals = append(vals, "1.5")
		case "date":
			vals = append(vals, "'2020-01-02'")
		default:
			v := "abc"
			if c.ty.kind != "text" && c.ty.a < 3 {
				v = v[:c.ty.a]
			}
			vals = append(vals, "'"+v+"'")
			probes = append(probes, fmt.Sprintf("%s = '%s'", qid(c.name), strings.ToUpper(v)), fmt.Sprintf("%s = '%s '", qid(c.name), v))
		}
	}
	if len(probes) == 0 {
		return ""
	}
	if r := e.Query(eng.SameSession(ctx), "INSERT INTO "+qid(t.name)+" VALUES ("+strings.Join(vals, ", ")+")"); r.Class() != "ok" {
		return ""
	}
	r := e.Query(eng.SameSession(ctx), "SELECT "+strings.Join(probes, ", ")+" FROM "+qid(t.name))
	if r.Class() != "ok" {
		return "probe:" + r.Class()
	}
	return eng.Canon(r, true)
}

// ---------------------------------------------------------------------------------------------
// Facts: what the compiled code says about every collation of the envelope, and the text
// StringWithTableCollation appends to the type for every (table collation, column collation) pair.

func collFacts(lf *hx.LeanFile) error {
	all, err := loadColls()
	if err != nil {
		return err
	}
	var sb strings.Builder
	sb.WriteString("/-- (name, character set, is the character set's default) per collation of the envelope, from the compiled code -/\n")
	sb.WriteString("def collFacts : List (String × String × Bool) := [")
	for i, c := range all {
		if i > 0 {
			sb.WriteString(", ")
		}
		fmt.Fprintf(&sb, "(%s, %s, %v)", hx.LeanString(c.name), hx.LeanString(c.cs), c.isDflt)
	}
	sb.WriteString("]\n")
	fmt.Fprintf(&sb, "def engineDefaultCollation : String := %s\n", hx.LeanString(sql.Collation_Default.Name()))
	sb.WriteString("/-- (index of the table collation, index of the column collation, text appended to `varchar(3)` / `char(3)` / `text` by\n`StringWithTableCollation`) for every pair of the envelope, from the compiled code -/\n")
	sb.WriteString("def clauseFacts : List (Nat × Nat × String) := [")
	first, enumSetAgree := true, true
	for i, tc := range all {
		for j, cc := range all {
			var suffix string
			for k, bt := range []struct {
				q    query.Type
				n    int64
				head string
			}{{sqltypes.VarChar, 3, "varchar(3)"}, {sqltypes.Char, 3, "char(3)"}, {sqltypes.Text, types.TextBlobMax / cc.id.CharacterSet().MaxLength(), "text"}} {
				st, err := types.CreateString(bt.q, bt.n, cc.id)
				if err != nil {
					return fmt.Errorf("CreateString(%v, %s): %v", bt.q, cc.name, err)
				}
				twc, ok := st.(sql.TypeWithCollation)
				if !ok {
					return fmt.Errorf("string types no longer implement sql.TypeWithCollation")
				}
				text := twc.StringWithTableCollation(tc.id)
				if !strings.HasPrefix(text, bt.head) {
					return fmt.Errorf("StringWithTableCollation of %s under %s: %q does not start with %q", cc.name, tc.name, text, bt.head)
				}
				sfx := strings.TrimPrefix(text, bt.head)
				if k > 0 && sfx != suffix {
					return fmt.Errorf("StringWithTableCollation: the clauses depend on the base type (%q vs %q)", sfx, suffix)
				}
				suffix = sfx
			}
			// ENUM / SET columns (outside the generators' envelope) carry the same two clauses
			en, err1 := types.CreateEnumType([]string{"a", "b"}, cc.id)
			st, err2 := types.CreateSetType([]string{"a", "b"}, cc.id)
			if err1 != nil || err2 != nil {
				return fmt.Errorf("CreateEnumType / CreateSetType(%s): %v %v", cc.name, err1, err2)
			}
			if en.(sql.TypeWithCollation).StringWithTableCollation(tc.id) != "enum('a','b')"+suffix || st.(sql.TypeWithCollation).StringWithTableCollation(tc.id) != "set('a','b')"+suffix {
				enumSetAgree = false
			}
			if !first {
				sb.WriteString(", ")
			}
			first = false
			fmt.Fprintf(&sb, "(%d, %d, %s)", i, j, hx.LeanString(suffix))
		}
	}
	sb.WriteString("]\n")
	sb.WriteString("/-- ENUM / SET types append the same clause text as the string types, for every pair -/\n")
	fmt.Fprintf(&sb, "def enumSetClausesAgree : Bool := %v\n", enumSetAgree)
	lf.Raw(sb.String())
	return nil
}

// collCorpus: every class of (table collation, column collation) the clause printer distinguishes, in each
// of the ways the statement can say it, several character sets; then statements the reader must reject.
func collCorpus() []*table {
	vc := func(name string, n int, cs, coll string) col {
		return col{name: name, ty: ty{kind: "varchar", a: n}, cs: cs, coll: coll}
	}
	return []*table{
		// engine-default table collation (utf8mb4_0900_bin): the character set's default collation must keep its COLLATE
		{name: "c1", cols: []col{vc("a", 10, "", "utf8mb4_0900_ai_ci"), vc("b", 10, "", ""), {name: "c", ty: ty{kind: "text"}, cs: "utf8mb4"},
			{name: "d", ty: ty{kind: "char", a: 3}, cs: "utf8mb4", coll: "utf8mb4_0900_bin"}, vc("e", 5, "", "utf8mb4_general_ci")}},
		// latin1_bin table: latin1_swedish_ci columns (three ways), other character sets with default / non-default collations
		{name: "c2", cs: "latin1", coll: "latin1_bin", cols: []col{vc("a", 10, "", "latin1_swedish_ci"), vc("b", 10, "", ""), vc("c", 4, "latin1", ""),
			vc("d", 3, "utf8mb4", ""), vc("e", 3, "", "utf8mb4_0900_bin"), vc("f", 3, "latin1", "latin1_general_cs"), vc("g", 2, "ascii", "")},
			keys: []key{{name: "k1", cols: []string{"a", "b"}}, {unique: true, name: "k2", cols: []string{"c"}}}},
		// table options: CHARSET alone, COLLATE alone
		{name: "c3", cs: "latin1", cols: []col{vc("a", 10, "", ""), vc("b", 10, "", "latin1_bin"), vc("c", 1, "", "latin1_swedish_ci")}, pk: nil},
		{name: "c4", coll: "utf8mb4_general_ci", cols: []col{vc("a", 10, "", ""), vc("b", 10, "", "utf8mb4_0900_ai_ci"), vc("c", 10, "", "utf8mb4_0900_bin"),
			{name: "n", ty: ty{kind: "int"}, notNull: true}}, pk: []string{"n"}},
		{name: "c5", cs: "ascii", cols: []col{vc("a", 10, "", "ascii_bin"), vc("b", 10, "ascii", ""), vc("c", 10, "utf16", ""), vc("d", 10, "", "utf16_bin"), vc("e", 3, "utf8mb3", "utf8mb3_unicode_ci")}},
		{name: "c6", cs: "utf8mb3", coll: "utf8mb3_bin", cols: []col{vc("a", 10, "", "utf8mb3_general_ci"), vc("b", 10, "utf8mb3", ""), vc("c", 10, "", "")}},
		// rejected: the COLLATE does not belong to the CHARACTER SET (column / table options)
		{name: "x1", cols: []col{vc("a", 10, "latin1", "utf8mb4_bin")}},
		{name: "x2", cs: "latin1", coll: "utf8mb4_bin", cols: []col{vc("a", 10, "", "")}},
		{name: "x3", cs: "utf8mb4", coll: "utf8mb4_bin", cols: []col{vc("a", 10, "ascii", "latin1_bin")}},
	}
}
