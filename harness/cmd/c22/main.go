// C22 — SHOW CREATE output recreates an identical object
// (sql/parser.go MySqlSchemaFormatter, sql/rowexec/show_iters.go).
package main

import (
	"fmt"
	"go/ast"
	"go/token"
	"strconv"
	"strings"

	"github.com/dolthub/vitess/go/sqltypes"

	"github.com/dolthub/go-mysql-server/sql"
	"github.com/dolthub/go-mysql-server/sql/types"
	"github.com/dolthub/go-mysql-server/verifharness/hx"
	"github.com/dolthub/go-mysql-server/verifharness/hx/eng"
)

func main() { hx.Main(extract, run) }

// ---------------------------------------------------------------------------------------------
// Case description (mirrors Gms.ShowCreate).

type ty struct {
	kind string // int bigint tinyint double text date varchar char decimal
	a, b int
}

func (t ty) SQL() string {
	switch t.kind {
	case "varchar", "char":
		return fmt.Sprintf("%s(%d)", strings.ToUpper(t.kind), t.a)
	case "decimal":
		return fmt.Sprintf("DECIMAL(%d,%d)", t.a, t.b)
	}
	return strings.ToUpper(t.kind)
}

func (t ty) payload() string {
	switch t.kind {
	case "varchar", "char":
		return fmt.Sprintf("(%s %d)", t.kind, t.a)
	case "decimal":
		return fmt.Sprintf("(decimal %d %d)", t.a, t.b)
	}
	return t.kind
}

func (t ty) isText() bool { return t.kind == "varchar" || t.kind == "char" || t.kind == "text" }

type dflt struct {
	kind string // num str null
	text string
}

type col struct {
	name    string
	ty      ty
	notNull bool
	autoInc bool
	dflt    *dflt
	comment string
	cs      string // CHARACTER SET clause as issued ("" = absent); text columns only
	coll    string // COLLATE clause as issued ("" = absent)
}

type key struct {
	unique  bool
	name    string
	cols    []string
	comment string
}

type table struct {
	name    string
	cols    []col
	pk      []string
	keys    []key
	comment string
	cs      string // DEFAULT CHARSET table option as issued ("" = absent)
	coll    string // COLLATE table option as issued ("" = absent)
}

func qid(s string) string { return "`" + strings.ReplaceAll(s, "`", "``") + "`" }

// sqlStr renders a string as a MySQL literal that denotes exactly s.
func sqlStr(s string) string {
	var b strings.Builder
	b.WriteByte('\'')
	for _, r := range s {
		switch r {
		case '\'':
			b.WriteString("''")
		case '\\':
			b.WriteString("\\\\")
		case '\n':
			b.WriteString("\\n")
		case '\r':
			b.WriteString("\\r")
		case 0:
			b.WriteString("\\0")
		default:
			b.WriteRune(r)
		}
	}
	b.WriteByte('\'')
	return b.String()
}

func (t *table) DDL() string {
	var parts []string
	for _, c := range t.cols {
		s := qid(c.name) + " " + c.ty.SQL()
		if c.cs != "" {
			s += " CHARACTER SET " + c.cs
		}
		if c.coll != "" {
			s += " COLLATE " + c.coll
		}
		if c.notNull {
			s += " NOT NULL"
		}
		if c.autoInc {
			s += " AUTO_INCREMENT"
		}
		if c.dflt != nil {
			switch c.dflt.kind {
			case "null":
				s += " DEFAULT NULL"
			case "num":
				if c.ty.kind == "date" {
					s += " DEFAULT " + sqlStr(c.dflt.text)
				} else {
					s += " DEFAULT " + c.dflt.text
				}
			default:
				s += " DEFAULT " + sqlStr(c.dflt.text)
			}
		}
		if c.comment != "" {
			s += " COMMENT " + sqlStr(c.comment)
		}
		parts = append(parts, s)
	}
	if len(t.pk) > 0 {
		qs := make([]string, len(t.pk))
		for i, n := range t.pk {
			qs[i] = qid(n)
		}
		parts = append(parts, "PRIMARY KEY ("+strings.Join(qs, ",")+")")
	}
	for _, k := range t.keys {
		qs := make([]string, len(k.cols))
		for i, n := range k.cols {
			qs[i] = qid(n)
		}
		s := "KEY "
		if k.unique {
			s = "UNIQUE KEY "
		}
		s += qid(k.name) + " (" + strings.Join(qs, ",") + ")"
		if k.comment != "" {
			s += " COMMENT " + sqlStr(k.comment)
		}
		parts = append(parts, s)
	}
	s := "CREATE TABLE " + qid(t.name) + " (" + strings.Join(parts, ", ") + ")"
	if t.cs != "" {
		s += " DEFAULT CHARSET=" + t.cs
	}
	if t.coll != "" {
		s += " COLLATE=" + t.coll
	}
	if t.comment != "" {
		s += " COMMENT=" + sqlStr(t.comment)
	}
	return s
}

func optAtom(s string) string {
	if s == "" {
		return "-"
	}
	return hx.HexS(s)
}

func b01(b bool) int {
	if b {
		return 1
	}
	return 0
}

func (t *table) payload() string {
	var b strings.Builder
	b.WriteString("(table " + hx.HexS(t.name) + " (cols")
	for _, c := range t.cols {
		d := "-"
		if c.dflt != nil {
			switch c.dflt.kind {
			case "null":
				d = "null"
			default:
				d = "(" + c.dflt.kind + " " + hx.HexS(c.dflt.text) + ")"
			}
		}
		fmt.Fprintf(&b, " (%s %s %d %d %s %s %s %s)", hx.HexS(c.name), c.ty.payload(), b01(c.notNull), b01(c.autoInc), d, hx.HexS(c.comment), optAtom(c.cs), optAtom(c.coll))
	}
	b.WriteString(") (pk")
	for _, n := range t.pk {
		b.WriteString(" " + hx.HexS(n))
	}
	b.WriteString(") (keys")
	for _, k := range t.keys {
		cs := make([]string, len(k.cols))
		for i, n := range k.cols {
			cs[i] = hx.HexS(n)
		}
		fmt.Fprintf(&b, " (%d %s (%s) %s)", b01(k.unique), hx.HexS(k.name), strings.Join(cs, " "), hx.HexS(k.comment))
	}
	b.WriteString(") " + hx.HexS(t.comment) + " (opts " + optAtom(t.cs) + " " + optAtom(t.coll) + "))")
	return b.String()
}

// ---------------------------------------------------------------------------------------------
// Generators.

var identAlphabet = []string{"a", "b", "c", "x", "y", "K", "_", "1", " ", "`", "'", "\"", "-", "é"}
var commentAlphabet = []string{"a", "b", "c", " ", "x", "'", "\\", "\"", "\n", "%", "`", "é", ","}
var safeCommentAlphabet = []string{"a", "b", "c", " ", "x", "\"", "%", "`", "é", ","}

func genFrom(r *hx.Rand, alpha []string, min, max int) string {
	n := r.Range(min, max)
	var b strings.Builder
	for i := 0; i < n; i++ {
		b.WriteString(hx.Pick(r, alpha))
	}
	return b.String()
}

func genIdent(r *hx.Rand, used map[string]bool) string {
	for {
		var s string
		if r.Chance(2, 3) {
			s = genFrom(r, []string{"a", "b", "c", "x", "y", "k"}, 1, 3)
		} else {
			s = genFrom(r, identAlphabet, 1, 4)
		}
		s = strings.TrimSpace(s) // identifiers may not end with a space
		if s == "" || used[strings.ToLower(s)] {
			continue
		}
		used[strings.ToLower(s)] = true
		return s
	}
}

func genComment(r *hx.Rand, safe bool) string {
	if r.Chance(1, 2) {
		return ""
	}
	if safe {
		return genFrom(r, safeCommentAlphabet, 1, 5)
	}
	return genFrom(r, commentAlphabet, 1, 5)
}

func genTy(r *hx.Rand) ty {
	switch r.Intn(10) {
	case 0, 1:
		return ty{kind: "int"}
	case 2:
		return ty{kind: "bigint"}
	case 3:
		return ty{kind: "tinyint"}
	case 4:
		return ty{kind: "double"}
	case 5:
		return ty{kind: "text"}
	case 6:
		return ty{kind: "date"}
	case 7:
		return ty{kind: "varchar", a: 1 + r.Intn(40)}
	case 8:
		return ty{kind: "char", a: 1 + r.Intn(9)}
	default:
		p := 3 + r.Intn(8)
		return ty{kind: "decimal", a: p, b: r.Intn(3)}
	}
}

func genDflt(r *hx.Rand, t ty) *dflt {
	if !r.Chance(1, 2) {
		return nil
	}
	switch t.kind {
	case "int", "bigint":
		return &dflt{kind: "num", text: fmt.Sprint(r.Intn(2000) - 1000)}
	case "tinyint":
		return &dflt{kind: "num", text: fmt.Sprint(r.Intn(200) - 100)}
	case "double":
		return &dflt{kind: "num", text: fmt.Sprintf("%d.%d", r.Intn(50), 1+r.Intn(8))}
	case "decimal":
		s := fmt.Sprint(r.Intn(pow10(min(t.a-t.b, 2))))
		if t.b > 0 {
			s += "." + fmt.Sprintf("%0*d", t.b, r.Intn(pow10(t.b)))
		}
		return &dflt{kind: "num", text: s}
	case "date":
		return &dflt{kind: "num", text: fmt.Sprintf("20%02d-%02d-%02d", r.Intn(30), 1+r.Intn(12), 1+r.Intn(28))}
	case "varchar", "char":
		s := genFrom(r, []string{"a", "b", "x", " ", "'", "\\", "é", "%"}, 0, t.a)
		if len([]rune(s)) > t.a {
			s = string([]rune(s)[:t.a])
		}
		s = strings.TrimRight(s, " ") // CHAR pads / trims trailing spaces
		return &dflt{kind: "str", text: s}
	}
	return nil // TEXT cannot have a literal default
}

func pow10(n int) int {
	p := 1
	for i := 0; i < n; i++ {
		p *= 10
	}
	return p
}

func genTable(r *hx.Rand, idx int, ce *collEnv) *table {
	used := map[string]bool{}
	t := &table{name: genIdent(r, map[string]bool{})}
	if r.Chance(1, 2) {
		t.name = fmt.Sprintf("t%d", idx)
	}
	tc := ce.genTableColl(r, t)
	n := 1 + r.Intn(5)
	for i := 0; i < n; i++ {
		c := col{name: genIdent(r, used), ty: genTy(r), notNull: r.Chance(1, 3)}
		c.dflt = genDflt(r, c.ty)
		if c.dflt == nil && !c.notNull && r.Chance(1, 6) {
			c.dflt = &dflt{kind: "null"}
		}
		c.comment = genComment(r, false)
		if c.ty.isText() {
			ce.genColColl(r, tc, &c)
			// kept out of the envelope (not C22: length / encodability checks of a default under the column's character
			// set): the engine measures a CHAR(n) default of a non-utf8mb4 column in UTF-8 bytes ('bx\\é' "is too large"
			// for CHAR(4) CHARACTER SET latin1) — non-ASCII letters only in defaults of utf8mb4 columns
			if cc, ok := ce.resolve(tc, c.cs, c.coll); ok && cc.cs != "utf8mb4" && c.dflt != nil && c.dflt.kind == "str" {
				c.dflt.text = strings.TrimRight(strings.ReplaceAll(c.dflt.text, "é", "e"), " ")
			}
		}
		t.cols = append(t.cols, c)
	}
	keyable := func() []int {
		var out []int
		for i, c := range t.cols {
			if c.ty.kind != "text" {
				out = append(out, i)
			}
		}
		return out
	}()
	if len(keyable) > 0 && r.Chance(2, 3) {
		k := 1 + r.Intn(2)
		seen := map[int]bool{}
		for j := 0; j < k; j++ {
			i := hx.Pick(r, keyable)
			if !seen[i] {
				seen[i] = true
				t.pk = append(t.pk, t.cols[i].name)
				t.cols[i].notNull = true
				if t.cols[i].dflt != nil && t.cols[i].dflt.kind == "null" {
					t.cols[i].dflt = nil
				}
			}
		}
		// AUTO_INCREMENT: a single integer key column without default
		if len(t.pk) == 1 && r.Chance(1, 3) {
			for i := range t.cols {
				if t.cols[i].name == t.pk[0] && (t.cols[i].ty.kind == "int" || t.cols[i].ty.kind == "bigint") {
					t.cols[i].autoInc = true
					t.cols[i].dflt = nil
				}
			}
		}
	}
	usedK := map[string]bool{"primary": true}
	nk := r.Intn(3)
	for j := 0; j < nk && len(keyable) > 0; j++ {
		k := key{unique: r.Chance(1, 3), name: genIdent(r, usedK)}
		seen := map[int]bool{}
		for x := 0; x < 1+r.Intn(2); x++ {
			i := hx.Pick(r, keyable)
			if !seen[i] {
				seen[i] = true
				k.cols = append(k.cols, t.cols[i].name)
			}
		}
		k.comment = genComment(r, !r.Chance(1, 2)) // index comments are escaped like the others (fix: commit)
		t.keys = append(t.keys, k)
	}
	t.comment = genComment(r, false)
	return t
}

// ---------------------------------------------------------------------------------------------

func showCreate(e *eng.Eng, ctx *sql.Context, name string) (string, string) {
	r := e.Query(eng.SameSession(ctx), "SHOW CREATE TABLE "+qid(name))
	if r.Class() != "ok" || len(r.Rows) != 1 || len(r.Rows[0]) < 2 {
		return "", r.Class()
	}
	return r.Rows[0][1], "ok"
}

func runCase(t *table, out *hx.Out, ce *collEnv, client bool) error {
	e := eng.New("d")
	ctx := e.Ctx()
	// classify the collation clauses of the case (statistics; the model resolves them itself)
	engine := ce.byName[sql.Collation_Default.Name()]
	tc, valid := ce.resolve(engine, t.cs, t.coll)
	hasColl := t.cs != "" || t.coll != ""
	if valid {
		if hasColl {
			out.Stat("coll:table-explicit:" + tc.cs)
		}
		for _, c := range t.cols {
			if !c.ty.isText() {
				continue
			}
			cc, ok := ce.resolve(tc, c.cs, c.coll)
			if !ok {
				valid = false
				break
			}
			out.Stat(collClass(tc, cc, c.cs != "" || c.coll != ""))
			hasColl = hasColl || c.cs != "" || c.coll != ""
		}
	}
	if r := e.Query(eng.SameSession(ctx), t.DDL()); r.Class() != "ok" {
		if !valid && strings.HasPrefix(r.Class(), "err:") {
			// a COLLATE that does not belong to the CHARACTER SET: the model's reader rejects it too
			out.Case(t.payload(), "rejected", true)
			out.Stat("coll:mismatch-rejected")
			return nil
		}
		return fmt.Errorf("harness: generated DDL rejected (%s): %s: %v", r.Class(), t.DDL(), r.Err)
	}
	text, cl := showCreate(e, ctx, t.name)
	obs := hx.HexS(text)
	if cl != "ok" {
		obs = "show:" + cl
	}
	nontrivial := len(t.keys) > 0 || t.comment != "" || hasColl
	for _, c := range t.cols {
		if c.comment != "" || c.dflt != nil {
			nontrivial = true
		}
	}
	id := out.Case(t.payload(), obs, nontrivial)
	out.StatN("cols", len(t.cols))
	out.StatN("keys", len(t.keys))
	if cl != "ok" {
		return nil
	}
	// the property on the engine alone: the printed statement recreates the same OBJECT — the catalogue's
	// description of it (columns with character set / collation / default / key role, key layouts, table
	// collation and comment), the way = behaves under each column's collation, and its printed text
	desc1 := e.Query(eng.SameSession(ctx), "DESCRIBE "+qid(t.name))
	obj1, err := object(e, ctx, t.name)
	if err != nil {
		return fmt.Errorf("harness: catalogue object: %v", err)
	}
	snap1 := ""
	if client {
		if snap1, err = snapshot(e, ctx, t.name); err != nil {
			return fmt.Errorf("harness: information_schema snapshot failed: %v", err)
		}
	}
	beh1 := behaviour(e, ctx, t)
	if r := e.Query(eng.SameSession(ctx), "DROP TABLE "+qid(t.name)); r.Class() != "ok" {
		return fmt.Errorf("harness: DROP TABLE failed: %v", r.Err)
	}
	r2 := e.Query(eng.SameSession(ctx), text)
	if r2.Class() != "ok" {
		out.Stat("fixpoint:rejected")
		out.OracleFail(id, "-", fmt.Sprintf("the statement printed by SHOW CREATE TABLE is rejected (%s %v): %s", r2.Class(), r2.Err, text))
		return nil
	}
	text2, cl2 := showCreate(e, ctx, t.name)
	if cl2 != "ok" || text2 != text {
		out.Stat("fixpoint:differs")
		out.OracleFail(id, "-", fmt.Sprintf("SHOW CREATE TABLE of the recreated table differs: %q vs %q", text, text2))
		return nil
	}
	obj2, err := object(e, ctx, t.name)
	if err != nil {
		return fmt.Errorf("harness: catalogue object of the recreated table: %v", err)
	}
	if obj1 != obj2 {
		out.Stat("fixpoint:object-differs")
		out.OracleFail(id, "-", fmt.Sprintf("the table recreated from the SHOW CREATE TABLE text is a different object (%s): original %q recreated %q statement %q", firstDiff(obj1, obj2), obj1, obj2, text))
		return nil
	}
	desc2 := e.Query(eng.SameSession(ctx), "DESCRIBE "+qid(t.name))
	if eng.Canon(desc1, true) != eng.Canon(desc2, true) {
		out.Stat("fixpoint:describe-differs")
		out.OracleFail(id, "-", "DESCRIBE of the recreated table differs: "+eng.Canon(desc1, true)+" vs "+eng.Canon(desc2, true))
		return nil
	}
	if client {
		out.Stat("fixpoint:information_schema-compared")
		snap2, err := snapshot(e, ctx, t.name)
		if err != nil {
			return fmt.Errorf("harness: information_schema snapshot of the recreated table failed: %v", err)
		}
		if snap1 != snap2 {
			out.Stat("fixpoint:information_schema-differs")
			out.OracleFail(id, "-", fmt.Sprintf("the table recreated from the SHOW CREATE TABLE text is a different object (information_schema columns / statistics / tables; %s): original %q recreated %q statement %q", firstDiff(snap1, snap2), snap1, snap2, text))
			return nil
		}
	}
	if beh1 != "" {
		out.Stat("fixpoint:behaviour-probed")
		if beh2 := behaviour(e, ctx, t); beh2 != beh1 {
			out.Stat("fixpoint:behaviour-differs")
			out.OracleFail(id, "-", fmt.Sprintf("= behaves differently on the recreated table (row of 'abc' values; per text column: = upper-cased value, = value with a trailing space): original %s recreated %s statement %q", beh1, beh2, text))
			return nil
		}
	}
	out.Stat("fixpoint:ok")
	return nil
}

// firstDiff names the first line two snapshots disagree on.
func firstDiff(a, b string) string {
	la, lb := strings.Split(a, "\n"), strings.Split(b, "\n")
	for i := 0; i < len(la) && i < len(lb); i++ {
		if la[i] != lb[i] {
			return "first difference: " + la[i] + "  VS  " + lb[i]
		}
	}
	return "different number of lines"
}

// otherObjects: views, triggers and procedures print the stored statement text; the fixed point is
// checked on the engine alone (no model).
func otherObjects(out *hx.Out) error {
	e := eng.New("d")
	ctx := e.Ctx()
	q := func(s string) *eng.Res { return e.Query(eng.SameSession(ctx), s) }
	e.MustExec(ctx, "CREATE TABLE base (a INT PRIMARY KEY, b INT, s VARCHAR(20))")
	type obj struct {
		kind, name, create, show string
		col                      int
	}
	objs := []obj{
		{"VIEW", "v1", "CREATE VIEW v1 AS SELECT a, b + 1 AS c FROM base WHERE s <> 'x''y'", "SHOW CREATE VIEW v1", 1},
		{"VIEW", "v2", "CREATE VIEW `v2` AS SELECT COUNT(*) AS n, MAX(b) FROM base GROUP BY s HAVING n > 1", "SHOW CREATE VIEW v2", 1},
		{"TRIGGER", "tr1", "CREATE TRIGGER tr1 BEFORE INSERT ON base FOR EACH ROW SET NEW.b = NEW.b + 1", "SHOW CREATE TRIGGER tr1", 2},
		{"TRIGGER", "tr2", "CREATE TRIGGER tr2 AFTER UPDATE ON base FOR EACH ROW BEGIN DELETE FROM base WHERE a = -1; END", "SHOW CREATE TRIGGER tr2", 2},
		{"PROCEDURE", "p1", "CREATE PROCEDURE p1(IN x INT) BEGIN SELECT x + 1; END", "SHOW CREATE PROCEDURE p1", 2},
		{"PROCEDURE", "p2", "CREATE PROCEDURE p2(IN x INT, OUT y INT) BEGIN SET y = x * 2; IF y > 3 THEN SET y = 3; END IF; END", "SHOW CREATE PROCEDURE p2", 2},
	}
	for _, o := range objs {
		if r := q(o.create); r.Class() != "ok" {
			return fmt.Errorf("harness: %s rejected: %v", o.create, r.Err)
		}
		r := q(o.show)
		if r.Class() != "ok" || len(r.Rows) != 1 || len(r.Rows[0]) <= o.col {
			return fmt.Errorf("harness: %s failed: %s %v", o.show, r.Class(), r.Err)
		}
		text := r.Rows[0][o.col]
		if d := q("DROP " + o.kind + " " + o.name); d.Class() != "ok" {
			return fmt.Errorf("harness: DROP %s %s failed: %v", o.kind, o.name, d.Err)
		}
		id := out.Case("(object "+hx.HexS(o.create)+")", "object", true)
		if r2 := q(text); r2.Class() != "ok" {
			out.OracleFail(id, "-", fmt.Sprintf("the statement printed by %s is rejected (%v): %s", o.show, r2.Err, text))
			continue
		}
		r3 := q(o.show)
		if r3.Class() != "ok" || len(r3.Rows) != 1 || r3.Rows[0][o.col] != text {
			out.OracleFail(id, "-", fmt.Sprintf("%s of the recreated object differs", o.show))
		}
		out.Stat("object:" + o.kind)
	}
	return nil
}

func run(a hx.RunArgs) error {
	out := hx.NewOut(a.OutDir)
	defer out.Close()
	out.Rule = "generated CREATE TABLE statements (1-5 columns of INT / BIGINT / TINYINT / DOUBLE / DECIMAL(p,s) / DATE / CHAR(n) / VARCHAR(n) / TEXT, NOT NULL, " +
		"AUTO_INCREMENT, literal and NULL defaults, comments, single / composite PRIMARY KEY, KEY / UNIQUE KEY with comments, table comment; half of the tables " +
		"with DEFAULT CHARSET / COLLATE options over 16 collations of utf8mb4, latin1, ascii, utf8mb3, utf16; text columns with CHARACTER SET / COLLATE clauses " +
		"(none / the default collation of the table's character set / another collation of it / the table collation / any collation; written as COLLATE, " +
		"CHARACTER SET + COLLATE, or CHARACTER SET alone); a corpus of COLLATE-vs-CHARACTER SET mismatches (rejected); identifiers and " +
		"comments over alphabets with back quotes, quotes, backslashes, newlines, spaces and non-ASCII letters); the text of SHOW CREATE TABLE is compared " +
		"with the model's printer (clauses resolved by the model's reader), then the statement is executed after DROP TABLE and the recreated OBJECT must be " +
		"the same: SHOW CREATE TABLE / DESCRIBE text, the catalogue's table object (per column type, character set, collation, nullability, key flags, default, extra, " +
		"comment; primary-key column order; every index's column layout, uniqueness, comment; table collation and comment), on the corpus and every 10th table also " +
		"information_schema.columns / statistics / tables, and the results of = against an inserted row under each " +
		"text column's collation; views, triggers and procedures: fixed point on a corpus; non-trivial = the table has a default, a comment, a secondary key or " +
		"a character set / collation clause"
	r := hx.NewRand(a.Seed).Fork()
	ce, err := newCollEnv()
	if err != nil {
		return err
	}
	if err := otherObjects(out); err != nil {
		return err
	}
	// corpus ------------------------------------------------------------------------------------
	corpus := []*table{
		// repaired defect index_comment_unescaped (Props/C22.lean fixed_index_comment_unescaped): KEY … COMMENT 'it''s'
		// used to be printed as 'it's' (t1: syntax error) and 'a\\b' as 'a\b' (t2: a different comment); both must
		// now print escaped, match the model and pass the fixed-point oracle
		{name: "t1", cols: []col{{name: "a", ty: ty{kind: "int"}, notNull: true}, {name: "b", ty: ty{kind: "varchar", a: 10}, dflt: &dflt{kind: "str", text: "it's"}}},
			pk: []string{"a"}, keys: []key{{name: "k1", cols: []string{"b"}, comment: "it's"}}},
		{name: "t2", cols: []col{{name: "a", ty: ty{kind: "int"}, notNull: true}}, pk: []string{"a"}, keys: []key{{name: "k1", cols: []string{"a"}, comment: "a\\b"}}},
		// every special character of the escaping in an index comment
		{name: "t2b", cols: []col{{name: "a", ty: ty{kind: "int"}, notNull: true}}, pk: []string{"a"},
			keys: []key{{name: "k1", cols: []string{"a"}, comment: "q'\\\"\n\r\x00z"}, {unique: true, name: "k0", cols: []string{"a"}, comment: "'"}}},
		// the same comments on a column and on the table read back
		{name: "t3", cols: []col{{name: "a`b", ty: ty{kind: "int"}, notNull: true, comment: "it's a\\b \"q\"\nnl"}}, pk: []string{"a`b"}, comment: "tab'le\\"},
		{name: "we ird`", cols: []col{{name: "x y", ty: ty{kind: "decimal", a: 10, b: 2}, dflt: &dflt{kind: "num", text: "1.50"}}, {name: "é", ty: ty{kind: "char", a: 3}, dflt: &dflt{kind: "str", text: "a\\"}},
			{name: "d", ty: ty{kind: "date"}, dflt: &dflt{kind: "num", text: "2020-01-02"}}, {name: "n", ty: ty{kind: "double"}, dflt: &dflt{kind: "null"}}},
			keys: []key{{unique: true, name: "u`q", cols: []string{"x y", "é"}, comment: "fine \"x\""}}},
	}
	corpus = append(corpus, collCorpus()...)
	for _, t := range corpus {
		if err := runCase(t, out, ce, true); err != nil {
			return err
		}
	}
	// random ------------------------------------------------------------------------------------
	n := 1500
	if a.Thorough {
		n = 40000
	}
	for i := 0; i < n; i++ {
		if err := runCase(genTable(r, i, ce), out, ce, i%10 == 0); err != nil {
			return err
		}
	}
	return nil
}

// ---------------------------------------------------------------------------------------------
// Facts: the format strings of the schema formatter (in source order, per function), whether the
// index comment is escaped, the ReplaceAll pairs of the comment escaping, and the type texts the
// compiled code prints.

func stringLits(src *hx.Src, fd *ast.FuncDecl) []string {
	var out []string
	ast.Inspect(fd.Body, func(n ast.Node) bool {
		if bl, ok := n.(*ast.BasicLit); ok && bl.Kind == token.STRING {
			if s, err := strconv.Unquote(bl.Value); err == nil {
				out = append(out, s)
			}
		}
		return true
	})
	return out
}

func leanChars(s string) string {
	cs := make([]string, 0, len(s))
	for _, r := range s {
		cs = append(cs, fmt.Sprintf("'%c'", r))
	}
	return "[" + strings.Join(cs, ", ") + "]"
}

func extract(a hx.ExtractArgs) error {
	src, err := hx.ParseSrc(a.Repo, "sql/parser.go")
	if err != nil {
		return err
	}
	lf := hx.NewLeanFile("Gms.Generated.C22", src.Path, "sql/types (run)")
	for _, fn := range []string{"GenerateCreateTableStatement", "GenerateCreateTableColumnDefinition", "GenerateCreateTablePrimaryKeyDefinition",
		"GenerateCreateTableIndexDefinition", "QuoteIdentifier"} {
		fd, err := src.Func("MySqlSchemaFormatter", fn)
		if err != nil {
			return err
		}
		lf.DefStringList("lits"+fn, stringLits(src, fd))
	}
	fd, err := src.Func("", "EscapeSpecialCharactersInComment")
	if err != nil {
		return err
	}
	lf.DefStringList("litsEscape", stringLits(src, fd))
	// is the index comment passed through the escaping function? (the repair of index_comment_unescaped;
	// facts_match demands true)
	fd, _ = src.Func("MySqlSchemaFormatter", "GenerateCreateTableIndexDefinition")
	lf.DefBool("indexCommentEscaped", strings.Contains(src.Text(fd.Body), "EscapeSpecialCharactersInComment(comment)"))
	fd, _ = src.Func("MySqlSchemaFormatter", "GenerateCreateTableColumnDefinition")
	lf.DefBool("columnCommentEscaped", strings.Contains(src.Text(fd.Body), "EscapeSpecialCharactersInComment(col.Comment)"))

	// run time: the type texts
	type tn struct {
		lean string
		t    sql.Type
	}
	tns := []tn{{".int", types.Int32}, {".bigint", types.Int64}, {".tinyint", types.Int8}, {".double", types.Float64}, {".text", types.Text}, {".date", types.Date},
		{"(.varchar 1)", types.MustCreateStringWithDefaults(sqltypes.VarChar, 1)}, {"(.varchar 40)", types.MustCreateStringWithDefaults(sqltypes.VarChar, 40)},
		{"(.char 9)", types.MustCreateStringWithDefaults(sqltypes.Char, 9)}, {"(.decimal 10 2)", types.MustCreateDecimalType(10, 2)}, {"(.decimal 3 0)", types.MustCreateDecimalType(3, 0)}}
	var sb strings.Builder
	sb.WriteString("def typeTexts : List (String × List Char) := [")
	for i, x := range tns {
		if i > 0 {
			sb.WriteString(", ")
		}
		fmt.Fprintf(&sb, "(%s, %s)", hx.LeanString(x.lean), leanChars(x.t.String()))
	}
	sb.WriteString("]\n")
	lf.Raw(sb.String())
	if err := collFacts(lf); err != nil {
		return err
	}
	return lf.Write(a.Out)
}
