package main

import (
	"bufio"
	"fmt"
	"os"

	"github.com/dolthub/go-mysql-server/verifharness/hx/eng"
)

func main() {
	e := eng.New("d", "d2")
	ctx := e.Ctx()
	sc := bufio.NewScanner(os.Stdin)
	sc.Buffer(make([]byte, 1<<20), 1<<20)
	for sc.Scan() {
		q := sc.Text()
		if q == "" {
			continue
		}
		if q == "--newsession" {
			ctx = e.Ctx()
			continue
		}
		r := e.Query(eng.SameSession(ctx), q)
		fmt.Printf("%s\n   => %s %v %s | %v\n", q, r.Class(), r.Err, r.Panic, eng.Canon(r, true))
		if r.Class() == "ok" {
			for _, row := range r.Rows {
				fmt.Printf("      %q\n", row)
			}
		}
	}
}
